package main

// C18: resolution results (didtransformer + metadata).

import (
	"crypto/sha256"
	"encoding/json"
	"fmt"
	"math/rand"

	"github.com/trustbloc/sidetree-go/pkg/api/operation"
	"github.com/trustbloc/sidetree-go/pkg/api/protocol"
	"github.com/trustbloc/sidetree-go/pkg/document"
	"github.com/trustbloc/sidetree-go/pkg/versions/1_0/doctransformer/didtransformer"
)

const transformImports = "From Coq Require Import ZArith NArith String List.\nFrom Sidetree Require Import Base.Hex Json.Json Sidetree.Protocol Sidetree.Applier Sidetree.Transformer Harness.Runner Harness.TransformCases.\nImport ListNotations.\nOpen Scope string_scope.\n"

type opKey struct {
	t, n  uint64
	canon string
	idx   uint64
}

func genOps(r *rand.Rand, n int, ties bool) []opKey {
	var out []opKey
	used := map[[2]uint64]bool{}
	for i := 0; i < n; i++ {
		var k opKey
		for {
			k = opKey{t: uint64(r.Intn(6)), n: uint64(r.Intn(6)), idx: uint64(i)}
			if r.Intn(3) == 0 {
				k.t, k.n = uint64(r.Intn(1000000)), uint64(r.Intn(1000000))
			}
			if ties || !used[[2]uint64{k.t, k.n}] {
				break
			}
		}
		used[[2]uint64{k.t, k.n}] = true
		k.canon = fmt.Sprintf("ref%d", i)
		if ties && i > 0 && r.Intn(4) == 0 {
			// duplicate of an earlier operation (same canonical reference, same anchoring data)
			d := out[r.Intn(len(out))]
			k.t, k.n, k.canon = d.t, d.n, d.canon
		} else if ties && i > 0 && r.Intn(5) == 0 {
			// the same canonical reference anchored again elsewhere (other time / number, listed
			// before or after the first): the earliest anchoring is the one to keep
			k.canon = out[r.Intn(len(out))].canon
		}
		out = append(out, k)
	}
	return out
}

func coqOpKeys(ks []opKey) string {
	items := make([]string, len(ks))
	for i, k := range ks {
		items[i] = fmt.Sprintf("(mk_opk %s %s %s %s)", cZu(k.t), cZu(k.n), cStr(k.canon), cZu(k.idx))
	}
	return cList(items)
}

func genC18(seed int64, tier string) []caseOut {
	n := 60
	if tier == "thorough" {
		n = 2500
	}
	r := rand.New(rand.NewSource(seed))
	var out []caseOut
	for i := 0; i < n; i++ {
		// internal document from validated keys, services, aka
		doc := M{}
		nk := r.Intn(4)
		keys := A{}
		for j := 0; j < nk; j++ {
			ty := allKeyTypes[r.Intn(len(allKeyTypes))]
			k := M{"id": fmt.Sprintf("key%d", j+1), "type": ty}
			var ps A
			for _, p := range allPurposes {
				if typeAllowed(ty, p) && r.Intn(2) == 0 {
					ps = append(ps, p)
				}
			}
			if len(ps) > 0 {
				k["purposes"] = ps
			}
			switch {
			case ty == "Ed25519VerificationKey2018" || ty == "Ed25519VerificationKey2020":
				ek := genKey(r, "Ed25519")
				if r.Intn(3) == 0 {
					k["publicKeyBase58"] = randID(r, 20)
				} else {
					jw := cleanJWK(ek)
					if i%4 == 1 { // another spelling of the same x: the two spare bits of its last character set
						jw["x"] = respell(jw["x"].(string), r)
					}
					k["publicKeyJwk"] = jw
				}
			case ty != "JsonWebKey2020" && r.Intn(3) == 0:
				k["publicKeyBase58"] = randID(r, 30)
			default:
				jwk := cleanJWK(genKey(r, []string{"P-256", "secp256k1", "Ed25519"}[r.Intn(3)]))
				switch r.Intn(4) {
				case 0: // an RSA key: its material is n and e
					jwk = M{"kty": "RSA", "n": randID(r, 40), "e": "AQAB"}
				case 1: // public members beyond kty / crv / x / y are key material too
					jwk["alg"], jwk["use"], jwk["kid"] = "ES256", "sig", "kid-"+randID(r, 4)
					jwk["key_ops"] = A{"verify"}
				}
				k["publicKeyJwk"] = jwk
			}
			keys = append(keys, k)
		}
		if nk > 0 || r.Intn(3) == 0 {
			doc["publicKey"] = keys
		}
		if r.Intn(2) == 0 || i%3 == 1 {
			ss := A{}
			for j := 0; j < 1+r.Intn(2); j++ {
				s := validService(r, fmt.Sprintf("svc%d", j+1))
				if r.Intn(2) == 0 {
					s["routingKeys"] = A{"rk1"}
				}
				if i%3 == 1 { // members whose value is empty are members too (the DIDComm shape has "routingKeys": [])
					s["routingKeys"], s["accept"], s["description"], s["priority"], s["properties"] = A{}, A{}, "", nil, M{}
				}
				ss = append(ss, s)
			}
			doc["service"] = ss
		}
		if r.Intn(2) == 0 {
			doc["alsoKnownAs"] = A{"https://aka.example/1", "https://aka.example/2"}
		}
		// options
		base, pubOps, unpubOps := r.Intn(2) == 0, r.Intn(2) == 0, r.Intn(2) == 0
		var methodCtx []string
		for j := r.Intn(3); j > 0; j-- {
			methodCtx = append(methodCtx, fmt.Sprintf("https://ctx.example/%d", j))
		}
		opts := []didtransformer.Option{didtransformer.WithBase(base), didtransformer.WithIncludePublishedOperations(pubOps),
			didtransformer.WithIncludeUnpublishedOperations(unpubOps)}
		if len(methodCtx) > 0 {
			opts = append(opts, didtransformer.WithMethodContext(methodCtx))
		}
		tr := didtransformer.New(opts...)
		// resolution model
		np, nu := r.Intn(13), r.Intn(13)
		if i%6 == 5 {
			np, nu = 13+r.Intn(80), 13+r.Intn(80)
		}
		pubIn, unpubIn := genOps(r, np, np <= 12), genOps(r, nu, nu <= 12)
		mkOps := func(ks []opKey) []*operation.AnchoredOperation {
			var l []*operation.AnchoredOperation
			for _, k := range ks {
				l = append(l, &operation.AnchoredOperation{Type: "update", TransactionTime: k.t, TransactionNumber: k.n,
					CanonicalReference: k.canon, ProtocolVersion: k.idx, OperationRequest: []byte("x")})
			}
			return l
		}
		var origin interface{}
		if r.Intn(2) == 0 {
			origin = []interface{}{"origin.example", M{"sys": "l"}}[r.Intn(2)]
		}
		rm := &protocol.ResolutionModel{Doc: toDoc(doc), CreatedTime: uint64(r.Int63n(4102444800)), UpdatedTime: uint64(r.Int63n(4102444800)) * uint64(r.Intn(2)),
			UpdateCommitment: []string{"", "EiUpd"}[r.Intn(2)], RecoveryCommitment: []string{"", "EiRec"}[r.Intn(2)], Deactivated: r.Intn(4) == 0,
			AnchorOrigin: origin, VersionID: []string{"", "v1"}[r.Intn(2)], PublishedOperations: mkOps(pubIn), UnpublishedOperations: mkOps(unpubIn)}
		// the state also names where its create / recover was anchored: not the version of the state
		if i%2 == 0 {
			rm.CanonicalReference, rm.EquivalentReferences = "canonical-ref-of-create", []string{"equivalent-ref-1"}
		}
		if r.Intn(8) == 0 {
			rm.CreatedTime = []uint64{0, 951782400, 1709164800, 1735689599, 4102444799}[r.Intn(5)] // leap days, year ends
		}
		did := "did:ns:EiSuffix"
		published := r.Intn(2) == 0
		if c := (i / 5) % 8; i%5 == 0 { // the epoch and its neighbours as created / updated time, published and not (independent of the seed)
			rm.CreatedTime = []uint64{0, 0, 1, 86400}[c%4]
			rm.UpdatedTime = []uint64{0, 1, 0, 0}[c%4]
			published = c < 4
		}
		info := protocol.TransformationInfo{document.IDProperty: did, document.PublishedProperty: published}
		infoCoq := fmt.Sprintf("(Build_tinfo (Some %s) (Some %s) ", cStr(did), cBool(published))
		if r.Intn(2) == 0 {
			info[document.CanonicalIDProperty] = "did:ns:canon:EiSuffix"
			infoCoq += "(Some " + cStr("did:ns:canon:EiSuffix") + ") "
		} else {
			infoCoq += "None "
		}
		if r.Intn(2) == 0 {
			info[document.EquivalentIDProperty] = []string{"did:ns:EiSuffix", "did:ns:eq:EiSuffix"}
			infoCoq += "(Some " + cStrList([]string{"did:ns:EiSuffix", "did:ns:eq:EiSuffix"}) + "))"
		} else {
			infoCoq += "None)"
		}
		docBefore := deepSnapshot(rm.Doc)
		res, err := tr.TransformDocument(rm, info)
		// a result already handed out must not change when the same transformer is used again
		stable := true
		if err == nil {
			before, _ := json.Marshal(res)
			// the state is only read: transformed once more (and by a transformer with the other @base
			// setting) it gives the same result again, and its document is as it was
			if again, e2 := tr.TransformDocument(rm, info); e2 != nil || deepSnapshot(again) != string(before) || deepSnapshot(rm.Doc) != docBefore {
				stable = false
			}
			didtransformer.New(didtransformer.WithBase(!base)).TransformDocument(rm, info)
			if again, e2 := tr.TransformDocument(rm, info); e2 != nil || deepSnapshot(again) != string(before) || deepSnapshot(rm.Doc) != docBefore {
				stable = false
			}
			for _, otherKeys := range []A{{M{"id": "zk1", "type": "EcdsaSecp256k1VerificationKey2019", "publicKeyBase58": "abc"}},
				{M{"id": "zk2", "type": "Bls12381G2Key2020", "publicKeyBase58": "abc"}, M{"id": "zk3", "type": "X25519KeyAgreementKey2019", "publicKeyBase58": "abc"}}} {
				rm2 := &protocol.ResolutionModel{Doc: toDoc(M{"publicKey": otherKeys})}
				tr.TransformDocument(rm2, protocol.TransformationInfo{document.IDProperty: "did:ns:EiOtherDocument", document.PublishedProperty: false})
			}
			after, _ := json.Marshal(res)
			stable = string(before) == string(after)
		}
		implCoq := "None"
		var pubOut, unpubOut []opKey
		var resJSON interface{}
		if err == nil {
			b, _ := json.Marshal(res)
			var m M
			json.Unmarshal(b, &m)
			if md, ok := m["didDocumentMetadata"].(map[string]interface{}); ok {
				if meth, ok := md["method"].(map[string]interface{}); ok {
					if l, ok := meth["publishedOperations"].([]interface{}); ok {
						for _, o := range l {
							om := o.(map[string]interface{})
							pubOut = append(pubOut, opKey{t: uint64(om["transactionTime"].(float64)), n: uint64(om["transactionNumber"].(float64)),
								canon: om["canonicalReference"].(string), idx: uint64(om["protocolVersion"].(float64))})
						}
					}
					if l, ok := meth["unpublishedOperations"].([]interface{}); ok {
						for _, o := range l {
							om := o.(map[string]interface{})
							unpubOut = append(unpubOut, opKey{t: uint64(om["transactionTime"].(float64)), idx: uint64(om["protocolVersion"].(float64))})
						}
					}
					delete(meth, "publishedOperations")
					delete(meth, "unpublishedOperations")
				}
			}
			resJSON = m
			implCoq = "(Some " + cJSON(normJSON(m)) + ")"
		}
		rmCoq := fmt.Sprintf("(Build_rmodel (Some %s) %s %s 0%%Z 0%%Z 0%%Z %s %s %s %s %s %s %s [] [])", cObj(normJSON(doc).(map[string]interface{})),
			cZu(rm.CreatedTime), cZu(rm.UpdatedTime), cStr(rm.UpdateCommitment), cStr(rm.RecoveryCommitment), cBool(rm.Deactivated),
			cJSON(normJSON(origin)), cStrList(rm.EquivalentReferences), cStr(rm.CanonicalReference), cStr(rm.VersionID))
		optsCoq := fmt.Sprintf("(Build_topts default_key_ctx %s %s %s %s)", cStrList(methodCtx), cBool(base), cBool(pubOps), cBool(unpubOps))
		h := sha256.Sum256([]byte(fmt.Sprint(doc, base, pubIn, unpubIn, published)))
		out = append(out, caseOut{
			Coq: fmt.Sprintf("(mk_c18 %s %s %s %s %s %s %s %s %s)", optsCoq, rmCoq, infoCoq, implCoq, coqOpKeys(pubIn), coqOpKeys(pubOut),
				coqOpKeys(unpubIn), coqOpKeys(unpubOut), cBool(stable)),
			Rec: map[string]interface{}{"document": doc, "base": base, "method_contexts": methodCtx, "published": published, "impl_result": resJSON,
				"published_in": len(pubIn), "published_out": len(pubOut), "unpublished_in": len(unpubIn), "unpublished_out": len(unpubOut)},
			Label:  fmt.Sprintf("keys-%d,ops-%d/%d,base-%v", nk, np, nu, base),
			NonTri: fmt.Sprintf("%x", h[:8]),
		})
	}
	return out
}

func init() {
	generators["C18"] = generator{"c18case", "judge_c18", transformImports, genC18}
}
