package main

// The four builder models of the Coq development (build_create, build_update_w, build_deactivate,
// build_recover) are run on the inputs handed to client.New*Request: the request bytes, or the
// refusal, must be the implementation's.  The signature bytes are taken from the built request
// (the signer is outside the model); every other byte is computed by the model.

import (
	"crypto/sha256"
	"encoding/base64"
	"encoding/json"
	"fmt"
	"math/rand"
	"strings"

	"github.com/trustbloc/sidetree-go/pkg/jws"
	"github.com/trustbloc/sidetree-go/pkg/patch"
	"github.com/trustbloc/sidetree-go/pkg/versions/1_0/client"
)

func coqPatches(ps []patch.Patch) string {
	var items []string
	for _, p := range ps {
		b, err := json.Marshal(p)
		if err != nil {
			panic(err)
		}
		items = append(items, cJSON(mustDecode(b)))
	}
	return cList(items)
}

func sigOf(req []byte) string {
	var m map[string]interface{}
	if json.Unmarshal(req, &m) != nil {
		return "x"
	}
	sd, _ := m["signedData"].(string)
	parts := strings.Split(sd, ".")
	if len(parts) != 3 {
		return "x"
	}
	b, err := base64.RawURLEncoding.DecodeString(parts[2])
	if err != nil || len(b) == 0 {
		return "x"
	}
	return string(b)
}

func coqOptBytes(b []byte, err error) string {
	return cOpt(err == nil, cStr(string(b)))
}

func builderModelCases(r *rand.Rand, n int) []caseOut {
	var out []caseOut
	kinds := []string{"P-256", "P-384", "P-521", "secp256k1", "Ed25519"}
	mkPatch := func(p patch.Patch, err error) patch.Patch {
		if err != nil {
			panic(err)
		}
		return p
	}
	somePatchList := func(i int) []patch.Patch {
		var ps []patch.Patch
		switch i % 6 {
		case 0:
			ps = append(ps, mkPatch(patch.NewAddAlsoKnownAs(fmt.Sprintf(`["https://aka.example/%d"]`, r.Intn(1000)))))
		case 1:
			ps = append(ps, mkPatch(patch.NewAddServiceEndpointsPatch(fmt.Sprintf(`[{"id":"s%d","type":"T","serviceEndpoint":"https://example.com/%d","priority":%d}]`, r.Intn(100), r.Intn(100), r.Intn(5)))))
			ps = append(ps, mkPatch(patch.NewRemovePublicKeysPatch(`["k1","k2"]`)))
		case 2:
			k := genKey(r, kinds[r.Intn(len(kinds))])
			kb, _ := json.Marshal([]interface{}{docKey(fmt.Sprintf("key%d", r.Intn(50)), k, "authentication")})
			ps = append(ps, mkPatch(patch.NewAddPublicKeysPatch(string(kb))))
		case 3:
			ps = append(ps, mkPatch(patch.NewRemoveServiceEndpointsPatch(`["s1"]`)), mkPatch(patch.NewRemoveAlsoKnownAs(`["https://aka.example/1"]`)))
		case 4:
			ps = append(ps, mkPatch(patch.NewJSONPatch(fmt.Sprintf(`[{"op":"add","path":"/note%d","value":{"a":[1,2,{"b":null}],"t":true,"n":%d}}]`, r.Intn(9), r.Intn(100000)))))
		case 5:
			ps = append(ps, mkPatch(patch.NewReplacePatch(fmt.Sprintf(`{"services":[{"id":"r%d","type":"T","serviceEndpoint":"https://example.com/r"}]}`, r.Intn(9)))))
		}
		return ps
	}
	origins := []interface{}{nil, "origin.example", map[string]interface{}{"a": "b", "n": float64(3)}, []interface{}{"x", "y"}, ""}
	windows := [][2]int64{{0, 0}, {0, 0}, {5, 0}, {0, 700}, {100, 200}, {999999999999999, 0}, {1, 999999999999999}, {1696118400, 1696122000}, {10, 10}}
	add := func(kind, label, coq string, rec map[string]interface{}) {
		h := sha256.Sum256([]byte(coq))
		out = append(out, caseOut{Coq: coq, Rec: rec, Label: "builder-model:" + kind + ":" + label, NonTri: fmt.Sprintf("%x", h[:8])})
	}
	for i := 0; i < n; i++ {
		code := []uint{18, 19}[r.Intn(2)]
		kind := kinds[r.Intn(len(kinds))]
		cur, next, next2 := genKey(r, kind), genKey(r, kinds[r.Intn(len(kinds))]), genKey(r, kinds[r.Intn(len(kinds))])
		sg := cur.signer()
		alg, _ := sg.hdr.Algorithm()
		ps := somePatchList(r.Intn(6))
		suffix := fmt.Sprintf("EiD%d", r.Intn(1000000))
		reveal := revealOf(cur.jwk(), uint64(code))
		uc := commitmentOf(next.jwk(), uint64(code))
		rc := commitmentOf(next2.jwk(), uint64(code))
		origin := origins[r.Intn(len(origins))]
		key := *sg.jwk
		label := "valid"
		// deviations relevant to the builder, taken in turn (the first three of every round are valid)
		devs := map[int][]string{
			0: {"no-patches", "equal-commitments", "update-commitment-other-algorithm", "recovery-commitment-other-algorithm", "unsupported-algorithm"},
			1: {"empty-suffix", "empty-reveal", "no-patches", "key-without-kty", "key-without-crv", "key-without-x", "reused-key-update-commitment",
				"update-commitment-other-algorithm", "unsupported-algorithm", "key-with-nonce", "nonced-key-reused-with-its-nonce", "nonced-key-then-the-bare-key"},
			2: {"empty-suffix", "empty-reveal", "key-without-kty", "key-without-crv", "key-without-x", "key-with-nonce"},
			3: {"empty-suffix", "empty-reveal", "no-patches", "key-without-kty", "key-without-crv", "key-without-x", "reused-key-recovery-commitment",
				"equal-commitments", "update-commitment-other-algorithm", "recovery-commitment-other-algorithm", "unsupported-algorithm", "key-with-nonce", "nonced-key-reused-with-its-nonce", "nonced-key-then-the-bare-key"},
		}[i%4]
		if j := (i / 4) % (len(devs) + 3); j >= 3 {
			label = devs[j-3]
		}
		switch label {
		case "empty-suffix":
			suffix = ""
		case "empty-reveal":
			reveal = ""
		case "no-patches":
			ps = nil
		case "key-without-kty":
			key.Kty = ""
		case "key-without-crv":
			key.Crv = ""
		case "key-without-x":
			key.X = ""
		case "reused-key-update-commitment":
			uc = commitmentOf(cur.jwk(), uint64(code))
		case "reused-key-recovery-commitment":
			rc = commitmentOf(cur.jwk(), uint64(code))
		case "equal-commitments":
			rc = uc
		case "update-commitment-other-algorithm":
			uc = commitmentOf(next.jwk(), uint64(37-code))
		case "recovery-commitment-other-algorithm":
			rc = commitmentOf(next2.jwk(), uint64(37-code))
		case "unsupported-algorithm":
			code = 55
		case "key-with-nonce":
			key.Nonce = b64([]byte("0123456789abcdef"))
		case "nonced-key-reused-with-its-nonce", "nonced-key-then-the-bare-key":
			// the signing key carries a nonce; the next commitment is that of the same key with the same
			// nonce (a reused key: refused) or of the bare key material (another JWK, another commitment: built)
			key.Nonce = b64([]byte("0123456789abcdef"))
			withNonce := *cur
			withNonce.nonce = key.Nonce
			reveal = revealOf(withNonce.jwk(), uint64(code))
			reused := commitmentOf(withNonce.jwk(), uint64(code))
			if label == "nonced-key-then-the-bare-key" {
				bare := *cur
				bare.nonce = ""
				reused = commitmentOf(bare.jwk(), uint64(code))
			}
			if i%4 == 1 {
				uc = reused
			} else {
				rc = reused
			}
		}
		kp := &key
		rec := map[string]interface{}{"label": label, "code": code, "key_type": kind}
		w := windows[(i/4+i%4)%len(windows)]
		switch i % 4 {
		case 0:
			typ := []string{"", "", "entity"}[r.Intn(3)]
			b, err := client.NewCreateRequest(&client.CreateRequestInfo{Patches: ps, RecoveryCommitment: rc, UpdateCommitment: uc,
				AnchorOrigin: origin, Type: typ, MultihashCode: code})
			rec["built"] = err == nil
			add("create", label, fmt.Sprintf("(mk_c08b_create (Build_create_info %s %s %s %s %s %d%%N) %s)",
				coqPatches(ps), cStr(rc), cStr(uc), cJSON(origin), cStr(typ), code, coqOptBytes(b, err)), rec)
		case 1:
			b, err := client.NewUpdateRequest(&client.UpdateRequestInfo{DidSuffix: suffix, Patches: ps, UpdateCommitment: uc, UpdateKey: kp,
				MultihashCode: code, Signer: sg, RevealValue: reveal, AnchorFrom: w[0], AnchorUntil: w[1]})
			rec["built"], rec["window"] = err == nil, w
			add("update", label, fmt.Sprintf("(mk_c08b_update (Build_update_info %s %s %s %s %d%%N %s %s %s) %s %s %s)",
				cStr(suffix), coqPatches(ps), cStr(uc), coqJWK(kp), code, cStr(reveal), cStr(alg), cStr(sigOf(b)), cZ(w[0]), cZ(w[1]), coqOptBytes(b, err)), rec)
		case 2:
			b, err := client.NewDeactivateRequest(&client.DeactivateRequestInfo{DidSuffix: suffix, RecoveryKey: kp, Signer: sg, RevealValue: reveal, AnchorFrom: w[0], AnchorUntil: w[1]})
			rec["built"], rec["window"] = err == nil, w
			add("deactivate", label, fmt.Sprintf("(mk_c08b_deactivate (Build_deactivate_info %s %s %s %s %s) %s %s %s)",
				cStr(suffix), coqJWK(kp), cStr(reveal), cStr(alg), cStr(sigOf(b)), cZ(w[0]), cZ(w[1]), coqOptBytes(b, err)), rec)
		case 3:
			b, err := client.NewRecoverRequest(&client.RecoverRequestInfo{DidSuffix: suffix, RecoveryKey: kp, Patches: ps, RecoveryCommitment: rc,
				UpdateCommitment: uc, AnchorOrigin: origin, MultihashCode: code, Signer: sg, RevealValue: reveal, AnchorFrom: w[0], AnchorUntil: w[1]})
			rec["built"], rec["window"] = err == nil, w
			add("recover", label, fmt.Sprintf("(mk_c08b_recover (Build_recover_info %s %s %s %s %s %s %d%%N %s %s %s) %s %s %s)",
				cStr(suffix), coqJWK(kp), coqPatches(ps), cStr(rc), cStr(uc), cJSON(origin), code, cStr(reveal), cStr(alg), cStr(sigOf(b)), cZ(w[0]), cZ(w[1]), coqOptBytes(b, err)), rec)
		}
	}
	return out
}

var _ = jws.JWK{}
