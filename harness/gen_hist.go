package main

import (
	"crypto/sha256"
	"fmt"
	"math/rand"
)

const histImports = "From Coq Require Import ZArith String List.\nFrom Sidetree Require Import Base.Hex Json.Json Sidetree.Protocol Sidetree.Applier Harness.Runner Harness.PatchCases Harness.Hist.\nImport ListNotations.\nOpen Scope string_scope.\n"

func histGen(focus string, quickN, thoroughN, maxLen, byteEvery int) func(seed int64, tier string) []caseOut {
	return func(seed int64, tier string) []caseOut {
		n := quickN
		if tier == "thorough" {
			n = thoroughN
		}
		r := rand.New(rand.NewSource(seed))
		var out []caseOut
		scripts := systematicScripts(focus)
		for i := 0; i < n+len(scripts); i++ {
			histScript = nil
			if i >= n {
				histScript = scripts[i-n]
			}
			c, cfgs := genHistory(r, focus, maxLen)
			histScript = nil
			runHistory(c, cfgs)
			if byteEvery > 0 && i%byteEvery == 0 {
				for _, s := range c.Steps {
					s.ByteLevel = true
				}
			}
			// per-step configurations differ only in list fields that the *view* already
			// accounts for; the model gets the base protocol
			key := ""
			for _, s := range c.Steps {
				key += fmt.Sprintf("%s/%s/%v;", s.Type, s.Label, s.ImplOK)
			}
			h := sha256.Sum256([]byte(key))
			out = append(out, caseOut{Coq: c.coq(), Rec: c.jsonRecord(), Label: c.Label, NonTri: fmt.Sprintf("%x", h[:8])})
		}
		return out
	}
}

func init() {
	generators["C01"] = generator{"hcase", "judge_history", histImports, histGen("any", 120, 3000, 9, 1)}
	generators["C02"] = generator{"hcase", "judge_history_auth", histImports, histGen("auth", 120, 3000, 5, 1)}
	generators["C09"] = generator{"hcase", "judge_history_window", histImports, histGen("window", 120, 3000, 4, 3)}
	generators["C12"] = generator{"c12case", "judge_c12", histImports, genC12}
}

// C12: histories (state, operation and document snapshots around Apply) plus patch lists applied
// directly to Go values (document and every patch value snapshotted around ApplyPatches),
// among them lists that touch one id twice and lists that fail at their k-th patch.
func genC12(seed int64, tier string) []caseOut {
	out := histGen("any", 100, 3000, 7, 0)(seed, tier)
	for i := range out {
		out[i].Coq = "(C12H " + out[i].Coq + ")"
	}
	n := 60
	if tier == "thorough" {
		n = 2000
	}
	r := rand.New(rand.NewSource(seed + 7))
	emitList := func(label string, doc M, ps A) {
		res, ok, panicked, intact := implApply(doc, ps)
		h := sha256.Sum256([]byte(fmt.Sprint(doc, ps)))
		out = append(out, caseOut{
			Coq: fmt.Sprintf("(C12P %s %s %s %s)", cObj(normJSON(doc).(map[string]interface{})), cJSON(normJSON(ps))[len("(JArr "):len(cJSON(normJSON(ps)))-1],
				coqOptObj(res, ok), cBool(intact && !panicked)),
			Rec:    map[string]interface{}{"document": doc, "patches": ps, "impl_ok": ok, "impl_result": res, "inputs_intact": intact, "impl_panicked": panicked},
			Label:  label,
			NonTri: fmt.Sprintf("%x", h[:8]),
		})
	}
	// systematic part (independent of the seed): a replace followed by patches that work on what it
	// installed (the replace patch's own value must stay as the caller gave it), and a failing patch
	// at each position in front of and behind a replace (the list fails as a whole)
	{
		fr := rand.New(rand.NewSource(12))
		mkDoc := func() M {
			return M{"publicKey": A{validKey(fr, "old1")}, "service": A{validService(fr, "olds")}, "other": M{"k": 1.0}, "arr": A{1.0, 2.0}}
		}
		mkReplace := func() M {
			return M{"action": "replace", "document": M{"publicKeys": A{validKey(fr, "k1"), validKey(fr, "k2"), validKey(fr, "k3")},
				"services": A{validService(fr, "s1"), validService(fr, "s2"), validService(fr, "s3")}}}
		}
		bad := func() M {
			return M{"action": "ietf-json-patch", "patches": A{M{"op": "remove", "path": "/missing/member"}}}
		}
		note := func() M {
			return M{"action": "ietf-json-patch", "patches": A{M{"op": "add", "path": "/note", "value": "x"}}}
		}
		for j, id := range []string{"k1", "k2", "k3"} {
			emitList(fmt.Sprintf("systematic,replace-then-remove-key-%d", j), mkDoc(), A{mkReplace(), M{"action": "remove-public-keys", "ids": A{id}}})
			emitList(fmt.Sprintf("systematic,replace-then-remove-service-%d", j), mkDoc(), A{mkReplace(), M{"action": "remove-services", "ids": A{"s" + id[1:]}}})
			emitList(fmt.Sprintf("systematic,replace-then-restate-key-%d", j), mkDoc(), A{mkReplace(), M{"action": "add-public-keys", "publicKeys": A{validKey(fr, id)}}})
			emitList(fmt.Sprintf("systematic,replace-then-restate-service-%d", j), mkDoc(), A{mkReplace(), M{"action": "add-services", "services": A{validService(fr, "s"+id[1:])}}})
		}
		emitList("systematic,replace-then-remove-two-keys-two-services", mkDoc(), A{mkReplace(), M{"action": "remove-public-keys", "ids": A{"k1", "k2"}},
			M{"action": "remove-services", "ids": A{"s1", "s3"}}})
		emitList("systematic,add-then-remove-same-list", mkDoc(), A{M{"action": "add-public-keys", "publicKeys": A{validKey(fr, "a1"), validKey(fr, "a2"), validKey(fr, "a3")}},
			M{"action": "remove-public-keys", "ids": A{"a1"}}, M{"action": "remove-public-keys", "ids": A{"old1"}}})
		emitList("systematic,fails-at-1-then-replace", mkDoc(), A{bad(), mkReplace()})
		emitList("systematic,fails-at-2-then-replace", mkDoc(), A{note(), bad(), mkReplace()})
		emitList("systematic,fails-at-2-between-replaces", mkDoc(), A{mkReplace(), bad(), mkReplace()})
		emitList("systematic,fails-at-1-then-two-replaces", mkDoc(), A{bad(), mkReplace(), note(), mkReplace()})
		emitList("systematic,fails-at-3-after-replace", mkDoc(), A{note(), mkReplace(), bad()})
		// previous documents holding null members (what a replace without keys, or the removal of the
		// last key, leaves behind): the caller's document stays exactly as it is
		nullDoc := func() M {
			return M{"publicKey": nil, "service": A{validService(fr, "olds")}, "note": nil, "other": M{"k": nil}}
		}
		emitList("systematic,null-members-succeeding-list", nullDoc(), A{note()})
		emitList("systematic,null-members-failing-list", nullDoc(), A{note(), bad()})
		emitList("systematic,null-members-add-keys", nullDoc(), A{M{"action": "add-public-keys", "publicKeys": A{validKey(fr, "a1")}}})
		emitList("systematic,null-members-remove-unknown", nullDoc(), A{M{"action": "remove-services", "ids": A{"nosuch"}}})
		emitList("systematic,fails-at-1-then-add", mkDoc(), A{bad(), M{"action": "add-public-keys", "publicKeys": A{validKey(fr, "a1")}}})
		// a leading ietf-json-patch that changes nothing (a test that holds, a replace by the same value, no
		// operations at all) followed by patches that do, succeeding and failing: the caller's document stays
		for j, lead := range []M{
			{"action": "ietf-json-patch", "patches": A{M{"op": "test", "path": "/other/k", "value": 1.0}}},
			{"action": "ietf-json-patch", "patches": A{M{"op": "replace", "path": "/other/k", "value": 1.0}}},
			{"action": "ietf-json-patch", "patches": A{}},
		} {
			emitList(fmt.Sprintf("systematic,no-effect-json-patch-%d-then-add-services", j), mkDoc(), A{lead, M{"action": "add-services", "services": A{validService(fr, "new")}}})
			emitList(fmt.Sprintf("systematic,no-effect-json-patch-%d-then-remove-keys", j), mkDoc(), A{lead, M{"action": "remove-public-keys", "ids": A{"old1"}}})
			emitList(fmt.Sprintf("systematic,no-effect-json-patch-%d-then-add-aka", j), mkDoc(), A{lead, M{"action": "add-also-known-as", "uris": A{"https://aka.example/n"}}})
			emitList(fmt.Sprintf("systematic,no-effect-json-patch-%d-then-add-then-fail", j), mkDoc(), A{lead, M{"action": "add-public-keys", "publicKeys": A{validKey(fr, "a1")}}, bad()})
		}
	}
	for i := 0; i < n; i++ {
		doc := M{"publicKey": A{validKey(r, "key1"), validKey(r, "key2")}, "service": A{validService(r, "svc1")}, "other": M{"k": 1.0}, "arr": A{1.0, 2.0}}
		switch r.Intn(4) {
		case 0:
			doc = M{}
		case 1:
			delete(doc, "service")
		}
		ids := []string{"key1", "key2", "key3", "key4"}
		sids := []string{"svc1", "svc2", "svc3"}
		var ps A
		label := "patch-list"
		for k := 2 + r.Intn(4); k > 0; k-- {
			switch r.Intn(7) {
			case 0, 1: // the same ids come back in later patches of the list
				ps = append(ps, M{"action": "add-public-keys", "publicKeys": A{validKey(r, ids[r.Intn(len(ids))]), validKey(r, ids[r.Intn(len(ids))])}})
			case 2:
				ps = append(ps, M{"action": "add-services", "services": A{validService(r, sids[r.Intn(len(sids))])}})
			case 3:
				ps = append(ps, M{"action": "remove-public-keys", "ids": A{ids[r.Intn(len(ids))]}})
			case 4:
				ps = append(ps, M{"action": "add-also-known-as", "uris": A{"https://aka.example/" + randID(r, 2)}})
			case 5:
				ps = append(ps, M{"action": "ietf-json-patch", "patches": A{M{"op": "add", "path": "/note", "value": M{"n": A{1.0, "x"}}}}})
			case 6: // fails at this position: an ordinary error, or an operation on which the patch library panics
				bad := []M{{"op": "remove", "path": "/missing/member"}, {"op": "test", "path": "/missing"}, {"op": "copy", "from": "/other", "path": "/arr/-1"},
					{"op": "move", "from": "/other", "path": "/arr/-3"}, {"op": "test", "path": "/other/k", "value": 2.0}, {"op": "replace", "path": "/missing/x/y", "value": 1.0}}[r.Intn(6)]
				ps = append(ps, M{"action": "ietf-json-patch", "patches": A{bad}})
				label = fmt.Sprintf("patch-list,fails-at-%d", len(ps))
			}
		}
		if i%3 == 0 { // an id added by one patch and re-added with other content by the next
			ps = append(A{M{"action": "add-public-keys", "publicKeys": A{validKey(r, "key9")}}, M{"action": "add-public-keys", "publicKeys": A{validKey(r, "key9")}},
				M{"action": "add-services", "services": A{validService(r, "svc9")}}, M{"action": "add-services", "services": A{validService(r, "svc9")}}}, ps...)
			label += ",id-added-twice"
		}
		emitList(label, doc, ps)
	}
	return out
}
