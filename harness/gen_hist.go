package main

import (
	"crypto/sha256"
	"fmt"
	"math/rand"
)

const histImports = "From Coq Require Import ZArith String List.\nFrom Sidetree Require Import Base.Hex Json.Json Sidetree.Protocol Sidetree.Applier Harness.Runner Harness.PatchCases Harness.Hist.\nImport ListNotations.\nOpen Scope string_scope.\n"

func histGen(focus string, quickN, thoroughN, maxLen, byteEvery int) func(seed int64, tier string) []caseOut {
	return func(seed int64, tier string) []caseOut {
		n := quickN
		if tier == "thorough" {
			n = thoroughN
		}
		r := rand.New(rand.NewSource(seed))
		var out []caseOut
		for i := 0; i < n; i++ {
			c, cfgs := genHistory(r, focus, maxLen)
			runHistory(c, cfgs)
			if byteEvery > 0 && i%byteEvery == 0 {
				for _, s := range c.Steps {
					s.ByteLevel = true
				}
			}
			// per-step configurations differ only in list fields that the *view* already
			// accounts for; the model gets the base protocol
			key := ""
			for _, s := range c.Steps {
				key += fmt.Sprintf("%s/%s/%v;", s.Type, s.Label, s.ImplOK)
			}
			h := sha256.Sum256([]byte(key))
			out = append(out, caseOut{Coq: c.coq(), Rec: c.jsonRecord(), Label: c.Label, NonTri: fmt.Sprintf("%x", h[:8])})
		}
		return out
	}
}

func init() {
	generators["C01"] = generator{"hcase", "judge_history", histImports, histGen("any", 120, 3000, 9, 1)}
	generators["C02"] = generator{"hcase", "judge_history_auth", histImports, histGen("auth", 120, 3000, 5, 1)}
	generators["C09"] = generator{"hcase", "judge_history_window", histImports, histGen("window", 120, 3000, 4, 3)}
	generators["C12"] = generator{"hcase", "judge_history_intact", histImports, histGen("any", 100, 3000, 7, 0)}
}
