package main

// C07 (the parser accepts exactly what the protocol allows) and C03 (self-certifying DIDs).

import (
	"bytes"
	"crypto/sha256"
	"encoding/json"
	"fmt"
	"github.com/trustbloc/sidetree-go/pkg/vdr/sidetreelongform/dochandler"
	"github.com/trustbloc/sidetree-go/pkg/versions/1_0/model"
	"math/rand"
	"strings"
	"sync"

	"github.com/trustbloc/sidetree-go/pkg/api/protocol"
	"github.com/trustbloc/sidetree-go/pkg/versions/1_0/operationparser"
)

const parseImports = "From Coq Require Import ZArith NArith String List.\nFrom Sidetree Require Import Base.Hex Json.Json Sidetree.Protocol Harness.Runner Harness.PatchCases Harness.ParseCases.\nImport ListNotations.\nOpen Scope string_scope.\n"

type reqSpec struct {
	typ                                                 string
	kind                                                string
	code, revealCode, deltaHashCode, updCCode, recCCode uint64
	updCSameAsRecC, updCIsCurrentKey, recCIsCurrentKey  bool
	hdr                                                 M
	hdrRaw                                              string // protected header text as written (signature not renewed; the parser does not verify it)
	nonceLen                                            int    // 0 = none
	patches                                             A
	omitDelta, emptyPatches                             bool
	from, until                                         int64
	origin                                              interface{}
	typeMember                                          *string
	signedReveal                                        bool
	pad                                                 map[string]string // hash field -> padding appended to its spelling
	signedSuffix                                        *string
	revealOfOtherKey                                    bool
	didSuffix                                           string
	extra                                               M
	sdType                                              string
	keyJWK                                              M // when set: the signing key image placed in the payload (and revealed)
	keyExtra                                            M // members the key model does not have, added to the signed key after the reveal value was taken
}

type builtReq struct {
	bytes     []byte
	request   M
	delta     M
	suffix    string // expected unique suffix
	origin    interface{}
	hashes    map[string]string
	deltaSize int
}

func defaultSpec(typ string, r *rand.Rand) reqSpec {
	return reqSpec{typ: typ, kind: keyKinds[r.Intn(len(keyKinds))], code: 18, revealCode: 18, deltaHashCode: 18, updCCode: 18, recCCode: 18,
		patches:   A{M{"action": "add-services", "services": A{docService("svc"+randID(r, 3), "T", "https://example.com/s")}}},
		didSuffix: "EiA" + randID(r, 40)}
}

func buildReq(sp reqSpec, r *rand.Rand, algs []uint) builtReq {
	cur := genKey(r, sp.kind)
	if sp.nonceLen > 0 {
		nb := make([]byte, sp.nonceLen)
		rngReader{r}.Read(nb)
		cur.nonce = b64(nb)
	}
	nextUpd, nextRec := genKey(r, sp.kind), genKey(r, sp.kind)
	updC := commitmentOf(nextUpd.jwk(), sp.updCCode)
	recC := commitmentOf(nextRec.jwk(), sp.recCCode)
	if sp.updCIsCurrentKey {
		updC = commitmentOf(cur.jwk(), sp.updCCode)
	}
	if sp.recCIsCurrentKey {
		recC = commitmentOf(cur.jwk(), sp.recCCode)
	}
	if sp.updCSameAsRecC {
		updC = recC
	}
	// a hash spelled with trailing '=' padding (not the unpadded base64url the protocol uses)
	updC += sp.pad["updateCommitment"]
	recC += sp.pad["recoveryCommitment"]
	delta := M{"updateCommitment": updC}
	if sp.emptyPatches {
		delta["patches"] = A{}
	} else {
		delta["patches"] = sp.patches
	}
	deltaHash := modelHash(delta, sp.deltaHashCode) + sp.pad["deltaHash"]
	out := builtReq{delta: delta, hashes: map[string]string{"updateCommitment": updC, "deltaHash": deltaHash}, deltaSize: len(jcs(delta))}
	req := M{"type": sp.typ}
	if sp.typeMember != nil {
		req["type"] = *sp.typeMember
	}
	addWin := func(m M) {
		if sp.from != 0 {
			m["anchorFrom"] = sp.from
		}
		if sp.until != 0 {
			m["anchorUntil"] = sp.until
		}
	}
	hdr := sp.hdr
	if hdr == nil {
		hdr = M{"alg": cur.alg}
	}
	curJWK := cur.jwk()
	if sp.keyJWK != nil {
		curJWK = map[string]interface{}(sp.keyJWK)
	}
	reveal := revealOf(curJWK, sp.revealCode)
	if sp.revealOfOtherKey {
		reveal = revealOf(genKey(r, sp.kind).jwk(), sp.revealCode)
	}
	reveal += sp.pad["revealValue"]
	out.hashes["revealValue"] = reveal
	if sp.keyExtra != nil {
		withExtra := map[string]interface{}{}
		for k, v := range curJWK {
			withExtra[k] = v
		}
		for k, v := range sp.keyExtra {
			withExtra[k] = v
		}
		curJWK = withExtra
	}
	switch sp.typ {
	case "create":
		sd := M{"deltaHash": deltaHash, "recoveryCommitment": recC}
		out.hashes["recoveryCommitment"] = recC
		if sp.origin != nil {
			sd["anchorOrigin"] = sp.origin
		}
		if sp.sdType != "" {
			sd["type"] = sp.sdType
		}
		req["suffixData"] = sd
		if !sp.omitDelta {
			req["delta"] = delta
		}
		first := uint64(18)
		if len(algs) > 0 {
			first = uint64(algs[0])
		}
		out.suffix = modelHash(sd, first)
		out.origin = sp.origin
		delete(out.hashes, "revealValue")
	case "update":
		payload := M{"updateKey": curJWK, "deltaHash": deltaHash}
		addWin(payload)
		req["didSuffix"], req["revealValue"] = sp.didSuffix, reveal
		req["signedData"] = compactJWS(r, hdr, jcs(payload), cur)
		if !sp.omitDelta {
			req["delta"] = delta
		}
		out.suffix = sp.didSuffix
	case "recover":
		payload := M{"recoveryKey": curJWK, "deltaHash": deltaHash, "recoveryCommitment": recC}
		out.hashes["recoveryCommitment"] = recC
		if sp.origin != nil {
			payload["anchorOrigin"] = sp.origin
		}
		addWin(payload)
		req["didSuffix"], req["revealValue"] = sp.didSuffix, reveal
		req["signedData"] = compactJWS(r, hdr, jcs(payload), cur)
		if !sp.omitDelta {
			req["delta"] = delta
		}
		out.suffix = sp.didSuffix
		out.origin = sp.origin
	case "deactivate":
		ss := sp.didSuffix
		if sp.signedSuffix != nil {
			ss = *sp.signedSuffix
		}
		payload := M{"didSuffix": ss, "recoveryKey": curJWK}
		if sp.signedReveal { // the optional signed copy of the reveal value: always the signing key's own
			payload["revealValue"] = revealOf(curJWK, sp.revealCode)
		}
		addWin(payload)
		req["didSuffix"], req["revealValue"] = sp.didSuffix, reveal
		req["signedData"] = compactJWS(r, hdr, jcs(payload), cur)
		out.suffix = sp.didSuffix
		delete(out.hashes, "updateCommitment")
		delete(out.hashes, "deltaHash")
	}
	if sd, ok := req["signedData"].(string); ok && sp.hdrRaw != "" {
		if parts := strings.SplitN(sd, ".", 2); len(parts) == 2 {
			req["signedData"] = b64([]byte(sp.hdrRaw)) + "." + parts[1]
		}
	}
	for k, v := range sp.extra {
		req[k] = v
	}
	out.request = req
	out.bytes = jcs(req)
	return out
}

type parseCase struct {
	label                    string
	cfg                      protocol.Protocol
	bytes                    []byte
	expect                   bool
	suffix                   string
	origin                   interface{}
	typ                      string
	rejectTime, rejectOrigin bool
}

type recOrigin struct {
	seen   *interface{}
	reject bool
}

func (ro *recOrigin) Validate(obj interface{}) error {
	ro.seen = &obj
	if ro.reject {
		return fmt.Errorf("origin rejected")
	}
	return nil
}

type recTime struct {
	seen   *[2]int64
	reject bool
}

func (rt *recTime) Validate(from, until int64) error {
	rt.seen = &[2]int64{from, until}
	if rt.reject {
		return fmt.Errorf("time rejected")
	}
	return nil
}

func cloneCfg(c protocol.Protocol) protocol.Protocol {
	c.MultihashAlgorithms = append([]uint{}, c.MultihashAlgorithms...)
	c.Patches = append([]string{}, c.Patches...)
	c.KeyAlgorithms = append([]string{}, c.KeyAlgorithms...)
	c.SignatureAlgorithms = append([]string{}, c.SignatureAlgorithms...)
	return c
}

func without(l []string, x string) []string {
	var o []string
	for _, s := range l {
		if s != x {
			o = append(o, s)
		}
	}
	return o
}

func genParseCases(r *rand.Rand) []parseCase {
	var out []parseCase
	base := baseProtocol(r)
	base.MaxOperationHashLength = 100
	add := func(label string, cfg protocol.Protocol, b builtReq, typ string, expect bool) *parseCase {
		out = append(out, parseCase{label: typ + ":" + label, cfg: cfg, bytes: b.bytes, expect: expect, suffix: b.suffix, origin: b.origin, typ: typ})
		return &out[len(out)-1]
	}
	for _, typ := range []string{"create", "update", "recover", "deactivate"} {
		hasDelta := typ != "deactivate"
		signed := typ != "create"
		// valid, all key types, with and without optional members
		for _, kind := range keyKinds {
			sp := defaultSpec(typ, r)
			sp.kind = kind
			if r.Intn(2) == 0 {
				sp.origin = []interface{}{"origin.example", M{"sys": "x", "n": 5.0}, 42.0}[r.Intn(3)]
			}
			if r.Intn(2) == 0 {
				sp.nonceLen = 16
			}
			if r.Intn(2) == 0 {
				sp.from, sp.until = int64(r.Intn(1000)), int64(r.Intn(3))*int64(1000+r.Intn(1000))
			}
			if r.Intn(3) == 0 {
				sp.sdType = "t"
			}
			add("valid:"+kind, cloneCfg(base), buildReq(sp, r, base.MultihashAlgorithms), typ, true)
		}
		sp0 := defaultSpec(typ, r)
		b0 := buildReq(sp0, r, base.MultihashAlgorithms)
		for pi, pad := range [][2]string{{"", "\n"}, {" ", ""}, {"\r\n\t ", " \r\n"}, {"", "   "}} {
			bp := b0
			bp.bytes = []byte(pad[0] + string(b0.bytes) + pad[1])
			add(fmt.Sprintf("valid-whitespace-padded-%d", pi), cloneCfg(base), bp, typ, true)
		}
		// size gate, exact at the boundary
		c := cloneCfg(base)
		c.MaxOperationSize = uint(len(b0.bytes))
		add("size-at-limit", c, b0, typ, true)
		c = cloneCfg(base)
		c.MaxOperationSize = uint(len(b0.bytes) - 1)
		add("size-over-limit", c, b0, typ, false)
		// type member
		for _, tm := range []string{"", "unknown", "Create", "CREATE"} {
			sp := defaultSpec(typ, r)
			tm := tm
			sp.typeMember = &tm
			add("type-member:"+tm, cloneCfg(base), buildReq(sp, r, base.MultihashAlgorithms), typ, false)
		}
		// every hash: unconfigured algorithm, hash length limit exact, both algorithms configured
		for _, field := range []string{"revealValue", "deltaHash", "updateCommitment", "recoveryCommitment"} {
			if _, ok := b0.hashes[field]; !ok && !(field == "recoveryCommitment" && typ == "recover") {
				continue
			}
			if field == "recoveryCommitment" && typ != "create" && typ != "recover" {
				continue
			}
			sp := defaultSpec(typ, r)
			switch field {
			case "revealValue":
				sp.revealCode = 19
			case "deltaHash":
				sp.deltaHashCode = 19
			case "updateCommitment":
				sp.updCCode = 19
			case "recoveryCommitment":
				sp.recCCode = 19
			}
			b := buildReq(sp, r, base.MultihashAlgorithms)
			add("hash-unconfigured-algorithm:"+field, cloneCfg(base), b, typ, false)
			c := cloneCfg(base)
			c.MultihashAlgorithms = []uint{18, 19}
			c.MaxOperationHashLength = 200
			b2 := buildReq(sp, r, c.MultihashAlgorithms)
			add("hash-second-configured-algorithm:"+field, c, b2, typ, true)
			// padded spellings of an otherwise right hash: not the unpadded base64url encoding
			for _, pad := range []string{"=", "=="} {
				sp := defaultSpec(typ, r)
				sp.pad = map[string]string{field: pad}
				add("hash-padded"+pad+":"+field, cloneCfg(base), buildReq(sp, r, base.MultihashAlgorithms), typ, false)
			}
			// length limit
			h := b0.hashes[field]
			if h != "" {
				c = cloneCfg(base)
				c.MaxOperationHashLength = uint(len(h))
				add("hash-length-at-limit:"+field, c, b0, typ, true)
				c = cloneCfg(base)
				c.MaxOperationHashLength = uint(len(h) - 1)
				add("hash-length-over-limit:"+field, c, b0, typ, false)
			}
		}
		if hasDelta {
			sp := defaultSpec(typ, r)
			sp.omitDelta = true
			add("delta-missing", cloneCfg(base), buildReq(sp, r, base.MultihashAlgorithms), typ, false)
			sp = defaultSpec(typ, r)
			sp.emptyPatches = true
			add("delta-no-patches", cloneCfg(base), buildReq(sp, r, base.MultihashAlgorithms), typ, false)
			c := cloneCfg(base)
			c.MaxDeltaSize = uint(b0.deltaSize)
			add("delta-size-at-limit", c, b0, typ, true)
			c = cloneCfg(base)
			c.MaxDeltaSize = uint(b0.deltaSize - 1)
			add("delta-size-over-limit", c, b0, typ, false)
			c = cloneCfg(base)
			c.Patches = without(c.Patches, "add-services")
			add("delta-patch-disabled", c, b0, typ, false)
			c = cloneCfg(base)
			c.Patches = []string{"add-services"}
			add("delta-only-this-patch-enabled", c, b0, typ, true)
			// every patch action in turn: enabled with all, refused when it alone is missing from the
			// enabled list, accepted when it alone is on it - for every operation type that carries a delta
			for _, pa := range []M{
				{"action": "replace", "document": M{"publicKeys": A{docKey("k1", genKey(r, "P-256"), "authentication")}, "services": A{docService("s1", "T", "https://example.com/a")}}},
				{"action": "ietf-json-patch", "patches": A{M{"op": "add", "path": "/note", "value": 1.0}}},
				{"action": "add-public-keys", "publicKeys": A{docKey("k1", genKey(r, "P-256"), "authentication")}},
				{"action": "remove-public-keys", "ids": A{"k1"}},
				{"action": "add-services", "services": A{docService("s1", "T", "https://example.com/a")}},
				{"action": "remove-services", "ids": A{"s1"}},
				{"action": "add-also-known-as", "uris": A{"https://aka.example/1"}},
				{"action": "remove-also-known-as", "uris": A{"https://aka.example/1"}},
			} {
				act := pa["action"].(string)
				sp := defaultSpec(typ, r)
				sp.patches = A{pa}
				bb := buildReq(sp, r, base.MultihashAlgorithms)
				add("delta-action-enabled:"+act, cloneCfg(base), bb, typ, true)
				c := cloneCfg(base)
				c.Patches = without(c.Patches, act)
				add("delta-action-not-enabled:"+act, c, bb, typ, false)
				c = cloneCfg(base)
				c.Patches = []string{act}
				add("delta-action-alone-enabled:"+act, c, bb, typ, true)
				// behind an enabled one
				sp = defaultSpec(typ, r)
				sp.patches = A{M{"action": "add-also-known-as", "uris": A{"https://aka.example/0"}}, pa}
				if act != "add-also-known-as" {
					c = cloneCfg(base)
					c.Patches = without(c.Patches, act)
					add("delta-action-not-enabled-behind-an-enabled-one:"+act, c, buildReq(sp, r, base.MultihashAlgorithms), typ, false)
				}
			}
			good := M{"action": "add-services", "services": A{docService("s1", "T", "https://example.com/a")}}
			bad := M{"action": "add-services", "services": A{docService("bad id!", "T", "https://example.com/a")}}
			otherGood := M{"action": "add-also-known-as", "uris": A{"https://aka.example/1"}}
			for _, v := range []struct {
				l string
				p A
			}{{"delta-invalid-patch-first", A{bad, good}}, {"delta-invalid-patch-after-valid-same-action", A{good, bad}},
				{"delta-invalid-patch-last-of-three", A{good, otherGood, bad}}, {"delta-unknown-action", A{good, M{"action": "nope"}}}} {
				sp := defaultSpec(typ, r)
				sp.patches = v.p
				add(v.l, cloneCfg(base), buildReq(sp, r, base.MultihashAlgorithms), typ, false)
			}
			sp = defaultSpec(typ, r)
			sp.patches = A{good, otherGood, M{"action": "add-services", "services": A{docService("s2", "T", "https://example.com/b")}}}
			add("delta-several-valid-patches", cloneCfg(base), buildReq(sp, r, base.MultihashAlgorithms), typ, true)
			// a delta whose canonical form is longer than the request that carries it (numbers in exponent
			// form): the size limit is on the canonical delta
			{
				nums := A{}
				for q := 0; q < 40; q++ {
					nums = append(nums, 1e20)
				}
				svc := docService("wide", "T", "https://example.com/w")
				svc["weights"] = nums
				for _, over := range []bool{true, false} {
					sp := defaultSpec(typ, r)
					sp.patches = A{M{"action": "add-services", "services": A{svc}}}
					b := buildReq(sp, r, base.MultihashAlgorithms)
					canonLen := len(jcs(b.request["delta"]))
					b.bytes = []byte(strings.ReplaceAll(string(b.bytes), "100000000000000000000", "1e20"))
					c := cloneCfg(base)
					c.MaxDeltaSize = uint(canonLen)
					if over {
						c.MaxDeltaSize = uint(canonLen - 1)
					}
					if len(b.bytes) <= int(c.MaxDeltaSize) {
						add(map[bool]string{true: "delta-larger-than-its-request-over-limit", false: "delta-larger-than-its-request-at-limit"}[over], c, b, typ, !over)
					}
				}
			}
		}
		if signed {
			// members the signing key's model does not have (kid, use, alg, key_ops ...) are not part of the
			// key: the reveal value is that of the key, and the request is accepted
			for _, extra := range []M{{"kid": "key-1"}, {"use": "sig", "alg": "ES256"}, {"kid": "k", "key_ops": A{"verify"}, "ext": true}, {"d": "AA"}} {
				sp := defaultSpec(typ, r)
				sp.keyExtra = extra
				add("signing-key-with-further-members", cloneCfg(base), buildReq(sp, r, base.MultihashAlgorithms), typ, true)
			}
			for _, v := range []struct {
				l      string
				hdr    func(alg string) M
				expect bool
			}{
				{"header-kid-allowed", func(a string) M { return M{"alg": a, "kid": "k1"} }, true},
				{"header-extra", func(a string) M { return M{"alg": a, "typ": "JWT"} }, false},
				{"header-alg-missing", func(a string) M { return M{"kid": "k1"} }, false},
				{"header-alg-empty", func(a string) M { return M{"alg": ""} }, false},
				{"header-alg-not-string", func(a string) M { return M{"alg": 5.0} }, false},
				{"header-alg-none", func(a string) M { return M{"alg": "none"} }, false},
				{"header-alg-twice-last-allowed", nil, false},
				{"header-alg-twice-same", nil, false},
				{"header-kid-twice", nil, false},
				{"header-null-member", nil, false},
			} {
				sp := defaultSpec(typ, r)
				_, _, _, alg := curveOf(sp.kind)
				if sp.kind == "Ed25519" {
					alg = "EdDSA"
				}
				if v.hdr != nil {
					sp.hdr = v.hdr(alg)
				} else { // header texts no JSON object printer produces: a repeated member, a null member
					q := string(jcs(alg))
					sp.hdrRaw = map[string]string{
						"header-alg-twice-last-allowed": `{"alg":"none","alg":` + q + `}`,
						"header-alg-twice-same":         `{"alg":` + q + `,"alg":` + q + `}`,
						"header-kid-twice":              `{"alg":` + q + `,"kid":"a","kid":"b"}`,
						"header-null-member":            `{"alg":` + q + `,"typ":null}`,
					}[v.l]
				}
				add(v.l, cloneCfg(base), buildReq(sp, r, base.MultihashAlgorithms), typ, v.expect)
			}
			sp := defaultSpec(typ, r)
			_, _, _, alg := curveOf(sp.kind)
			if sp.kind == "Ed25519" {
				alg = "EdDSA"
			}
			c := cloneCfg(base)
			c.SignatureAlgorithms = without(c.SignatureAlgorithms, alg)
			add("alg-not-allowed", c, buildReq(sp, r, base.MultihashAlgorithms), typ, false)
			c = cloneCfg(base)
			c.SignatureAlgorithms = []string{alg}
			add("alg-only-this-allowed", c, buildReq(sp, r, base.MultihashAlgorithms), typ, true)
			c = cloneCfg(base)
			c.KeyAlgorithms = without(c.KeyAlgorithms, sp.kind)
			add("curve-not-allowed", c, buildReq(sp, r, base.MultihashAlgorithms), typ, false)
			c = cloneCfg(base)
			c.KeyAlgorithms = []string{sp.kind}
			add("curve-only-this-allowed", c, buildReq(sp, r, base.MultihashAlgorithms), typ, true)
			// keys that name no curve at all: an RSA-shaped JWK passes JWK validation, the curve list must still refuse it
			nb := make([]byte, 128)
			rngReader{r}.Read(nb)
			spk := sp
			spk.keyJWK = M{"kty": "RSA", "crv": "", "x": "", "y": "", "n": b64(nb), "e": "AQAB"}
			add("key-without-curve-rsa", cloneCfg(base), buildReq(spk, r, base.MultihashAlgorithms), typ, false)
			spk.keyJWK = M{"kty": "EC", "crv": "", "x": b64(nb[:32]), "y": b64(nb[32:64])}
			add("key-without-curve-ec", cloneCfg(base), buildReq(spk, r, base.MultihashAlgorithms), typ, false)
			for _, n := range []int{15, 17, 1} {
				sp := defaultSpec(typ, r)
				sp.nonceLen = n
				add(fmt.Sprintf("nonce-size-%d", n), cloneCfg(base), buildReq(sp, r, base.MultihashAlgorithms), typ, false)
			}
			c = cloneCfg(base)
			c.NonceSize = 8
			sp = defaultSpec(typ, r)
			sp.nonceLen = 8
			add("nonce-size-configured-8", c, buildReq(sp, r, base.MultihashAlgorithms), typ, true)
			sp = defaultSpec(typ, r)
			sp.revealOfOtherKey = true
			add("reveal-of-other-key", cloneCfg(base), buildReq(sp, r, base.MultihashAlgorithms), typ, false)
			sp = defaultSpec(typ, r)
			sp.didSuffix = ""
			add("did-suffix-empty", cloneCfg(base), buildReq(sp, r, base.MultihashAlgorithms), typ, false)
			// validators
			sp = defaultSpec(typ, r)
			sp.from, sp.until = 100+int64(r.Intn(100)), 0
			add("time-validator-default-until", cloneCfg(base), buildReq(sp, r, base.MultihashAlgorithms), typ, true)
			sp = defaultSpec(typ, r)
			sp.from, sp.until = 100, 5000
			pc := add("time-validator-rejects", cloneCfg(base), buildReq(sp, r, base.MultihashAlgorithms), typ, false)
			pc.rejectTime = true
		}
		// next commitments
		switch typ {
		case "create":
			sp := defaultSpec(typ, r)
			sp.updCSameAsRecC = true
			add("commitments-equal", cloneCfg(base), buildReq(sp, r, base.MultihashAlgorithms), typ, false)
		case "update":
			sp := defaultSpec(typ, r)
			sp.updCIsCurrentKey = true
			add("next-commitment-is-current-key", cloneCfg(base), buildReq(sp, r, base.MultihashAlgorithms), typ, false)
			sp = defaultSpec(typ, r)
			sp.updCIsCurrentKey, sp.pad = true, map[string]string{"updateCommitment": "=="}
			add("next-commitment-is-current-key-padded", cloneCfg(base), buildReq(sp, r, base.MultihashAlgorithms), typ, false)
			c := cloneCfg(base)
			c.MultihashAlgorithms = []uint{18, 19}
			c.MaxOperationHashLength = 200
			sp = defaultSpec(typ, r)
			sp.updCIsCurrentKey, sp.updCCode = true, 19
			add("next-commitment-is-current-key-other-algorithm", c, buildReq(sp, r, c.MultihashAlgorithms), typ, false)
		case "recover":
			sp := defaultSpec(typ, r)
			sp.updCSameAsRecC = true
			add("commitments-equal", cloneCfg(base), buildReq(sp, r, base.MultihashAlgorithms), typ, false)
			sp = defaultSpec(typ, r)
			sp.recCIsCurrentKey = true
			add("next-recovery-commitment-is-current-key", cloneCfg(base), buildReq(sp, r, base.MultihashAlgorithms), typ, false)
			c := cloneCfg(base)
			c.MultihashAlgorithms = []uint{18, 19}
			c.MaxOperationHashLength = 200
			sp = defaultSpec(typ, r)
			sp.recCIsCurrentKey, sp.recCCode = true, 19
			add("next-recovery-commitment-is-current-key-other-algorithm", c, buildReq(sp, r, c.MultihashAlgorithms), typ, false)
		case "deactivate":
			sp := defaultSpec(typ, r)
			other := "EiAother"
			sp.signedSuffix = &other
			add("signed-suffix-mismatch", cloneCfg(base), buildReq(sp, r, base.MultihashAlgorithms), typ, false)
			// the signed data may repeat the reveal value; the request's own one is what must match the signing key
			sp = defaultSpec(typ, r)
			sp.signedReveal = true
			add("signed-reveal-copy", cloneCfg(base), buildReq(sp, r, base.MultihashAlgorithms), typ, true)
			sp = defaultSpec(typ, r)
			sp.signedReveal, sp.revealOfOtherKey = true, true
			add("signed-reveal-right-request-reveal-of-other-key", cloneCfg(base), buildReq(sp, r, base.MultihashAlgorithms), typ, false)
		}
		if typ == "create" || typ == "recover" {
			sp := defaultSpec(typ, r)
			sp.origin = "origin.example"
			pc := add("origin-validator-rejects", cloneCfg(base), buildReq(sp, r, base.MultihashAlgorithms), typ, false)
			pc.rejectOrigin = true
			for _, o := range []interface{}{"origin.example", M{"a": A{1.0, "x"}}, 7.0, true} {
				sp := defaultSpec(typ, r)
				sp.origin = o
				add("origin-reported", cloneCfg(base), buildReq(sp, r, base.MultihashAlgorithms), typ, true)
			}
		}
		// algorithm list orders (suffix uses the first)
		if typ == "create" {
			for _, al := range [][]uint{{19}, {18, 19}, {19, 18}} {
				c := cloneCfg(base)
				c.MultihashAlgorithms = al
				c.MaxOperationHashLength = 200
				sp := defaultSpec(typ, r)
				code := uint64(al[len(al)-1])
				sp.code, sp.deltaHashCode, sp.updCCode, sp.recCCode = code, code, code, code
				add(fmt.Sprintf("algorithms-%v", al), c, buildReq(sp, r, al), typ, true)
			}
		}
		// malformed JSON / wrong member types
		add("malformed-json", cloneCfg(base), builtReq{bytes: b0.bytes[:len(b0.bytes)-2], suffix: b0.suffix}, typ, false)
		wrong := M{}
		json.Unmarshal(b0.bytes, &wrong)
		for _, k := range []string{"didSuffix", "revealValue", "signedData", "delta", "suffixData"} {
			if _, ok := wrong[k]; ok {
				w2 := M{}
				for kk, vv := range wrong {
					w2[kk] = vv
				}
				w2[k] = 5.0
				add("member-wrong-type:"+k, cloneCfg(base), builtReq{bytes: jcs(w2), suffix: b0.suffix}, typ, false)
			}
		}
	}
	return out
}

func runParse(pc *parseCase) (coq string, rec map[string]interface{}) {
	ro, rt := &recOrigin{reject: pc.rejectOrigin}, &recTime{reject: pc.rejectTime}
	p := operationparser.New(pc.cfg, operationparser.WithAnchorOriginValidator(ro), operationparser.WithAnchorTimeValidator(rt))
	ns := "did:ns"
	op, err := p.Parse(ns, pc.bytes)
	impl := "None"
	bytesSame := true
	rec = map[string]interface{}{"request": string(pc.bytes), "protocol": pc.cfg, "expect_accept": pc.expect, "impl_accept": err == nil}
	if err == nil {
		impl = fmt.Sprintf("(Some (%s, %s, %s, %s))", cStr(string(op.Type)), cStr(op.UniqueSuffix), cStr(op.ID), cJSON(normJSON(op.AnchorOrigin)))
		bytesSame = string(op.OperationRequest) == string(pc.bytes)
		rec["impl"] = map[string]interface{}{"type": op.Type, "suffix": op.UniqueSuffix, "id": op.ID, "anchorOrigin": op.AnchorOrigin}
	}
	seenT := "None"
	if rt.seen != nil {
		seenT = fmt.Sprintf("(Some (%s, %s))", cZ(rt.seen[0]), cZ(rt.seen[1]))
		rec["time_validator_args"] = rt.seen
	}
	// the same bytes again, and once more after another request, on the same parser instance
	stable := true
	for k := 0; k < 3; k++ {
		if k == 2 {
			p.Parse(ns, []byte(`{"type":"update","didSuffix":"x","revealValue":"y","signedData":"a.b.c","delta":{}}`))
		}
		op2, err2 := p.Parse(ns, pc.bytes)
		if (err2 == nil) != (err == nil) || (err == nil && (op2.UniqueSuffix != op.UniqueSuffix || op2.Type != op.Type)) {
			stable = false
		}
	}
	rec["same_answer_when_resubmitted"] = stable
	seenO := "None"
	if ro.seen != nil {
		seenO = "(Some " + cJSON(normJSON(*ro.seen)) + ")"
	}
	var reqTree interface{}
	json.Unmarshal(pc.bytes, &reqTree)
	coq = fmt.Sprintf("(mk_c07 %s %s %s %s %s %s %s %s %s %s %s %s %s)", coqProtocol(pc.cfg), cStr(ns), cStr(string(pc.bytes)), impl, cBool(bytesSame), cBool(stable),
		seenT, seenO, cBool(pc.expect), cStr(pc.suffix), cJSON(normJSON(pc.origin)), cBool(pc.rejectTime), cBool(pc.rejectOrigin))
	coq = strings.Replace(coq, "(mk_c07 ", "(mk_c07 "+urlOracle(reqTree)+" ", 1)
	return
}

func genC07(seed int64, tier string) []caseOut {
	rounds := 1
	if tier == "thorough" {
		rounds = 20
	}
	r := rand.New(rand.NewSource(seed))
	var out []caseOut
	for i := 0; i < rounds; i++ {
		cases := genParseCases(r)
		for j := range cases {
			pc := &cases[j]
			coq, rec := runParse(pc)
			h := sha256.Sum256([]byte(pc.label + fmt.Sprint(pc.expect)))
			out = append(out, caseOut{Coq: coq, Rec: rec, Label: pc.label, NonTri: fmt.Sprintf("%x", h[:8])})
		}
	}
	return out
}

// ---- C03 ----

func toJV(v interface{}) *jv {
	switch x := v.(type) {
	case nil:
		return &jv{kind: "null"}
	case bool:
		return &jv{kind: "bool", b: x}
	case float64:
		return numJV(int64(x))
	case int64:
		return numJV(x)
	case int:
		return numJV(int64(x))
	case string:
		return &jv{kind: "str", s: x}
	case []interface{}:
		o := &jv{kind: "arr"}
		for _, e := range x {
			o.arr = append(o.arr, toJV(e))
		}
		return o
	case map[string]interface{}:
		o := &jv{kind: "obj"}
		for _, k := range sortedKeysOf(x) {
			o.keys = append(o.keys, k)
			o.vals = append(o.vals, toJV(x[k]))
		}
		return o
	}
	b, _ := json.Marshal(v)
	var g interface{}
	json.Unmarshal(b, &g)
	return toJV(g)
}

func numJV(i int64) *jv {
	v := &jv{kind: "num"}
	if i == 0 {
		return v
	}
	if i < 0 {
		v.neg = true
		i = -i
	}
	s := fmt.Sprint(i)
	v.sig, v.n = strings.TrimRight(s, "0"), len(s)
	return v
}

func genC03(seed int64, tier string) []caseOut {
	n := 30
	if tier == "thorough" {
		n = 800
	}
	r := rand.New(rand.NewSource(seed))
	var out []caseOut
	lfHandler, lfErr := dochandler.New("did:ns")
	if lfErr != nil {
		panic(lfErr)
	}
	for i := 0; i < n; i++ {
		algs := [][]uint{{18}, {18, 19}, {19}, {19, 18}, {18}}[i%5] // every configuration shape in every run
		unsupported := i%10 == 7                                    // a configured multihash code the library cannot compute (sha3-256)
		if unsupported {
			algs = []uint{18, 22}
		}
		cfg := baseProtocol(r)
		cfg.MultihashAlgorithms = append([]uint{}, algs...)
		cfg.MaxOperationHashLength = 200
		protoCoq := coqProtocol(cfg) // as configured, before any parser has seen it
		sp := defaultSpec("create", r)
		code := uint64(algs[r.Intn(len(algs))])
		if unsupported {
			code = 18
		}
		sp.deltaHashCode, sp.updCCode, sp.recCCode = code, code, code
		switch (i / 5) % 6 {
		case 0:
			sp.origin = "origin.example"
		case 1:
			// member names whose UTF-16 order (astral before U+E000) differs from their code-point order
			sp.origin = M{"sys": "ledger", "n": 7.0, "\U00010000a": "astral", "\uE000b": "private use", "\uFFFDc": 1.0, "\U0010FFFFd": 2.0}
		case 2:
			sp.origin = 12345.0
		case 3: // spellings a "normalising" parser would fold together: the suffix must still cover the submitted bytes
			sp.origin = []string{"https://origin.example/", "origin.example/", "https://Origin.Example", " origin.example ", "https://origin.example//", "https://origin.example/a/../",
				"https://origin.example/Ł", "https://origin.example/A", "原点.example", "origine-é.example", "o\u0141"}[r.Intn(11)]
		case 4:
			sp.origin = A{"https://a.example/", M{"b": "x/"}}
		case 5: // zero: its spellings (-0, 0.0, 0e5 ...) all denote the same request
			if (i/30)%2 == 0 {
				sp.origin = 0.0
			}
		}
		if r.Intn(2) == 0 {
			sp.sdType = []string{"kind1", "kind1", "kínd", "種類"}[r.Intn(4)]
		}
		d := &didState{r: r, cfg: cfg, code: code, kinds: keyKinds}
		sp.patches = d.somePatches()
		b := buildReq(sp, r, algs)
		tree := toJV(map[string]interface{}(b.request))
		p := operationparser.New(cfg)
		// the parser object has served other callers before: another namespace, and its own accessors
		// (which parse without a namespace); what it answers now is about this request and this namespace
		p.Parse("did:other:method", b.bytes)
		p.GetCommitment(b.bytes)
		p.GetRevealValue(b.bytes)
		var variants []string
		var recs []interface{}
		mustRefuse := false
		addVariant := func(kind string, bytes []byte, sameRequest bool) {
			op, err := p.Parse("did:ns", bytes)
			impl := "None"
			if err == nil {
				impl = fmt.Sprintf("(Some (%s, %s))", cStr(op.UniqueSuffix), cStr(op.ID))
			}
			variants = append(variants, fmt.Sprintf("(mk_variant %s %s %s %s)", cStr(string(bytes)), impl, cBool(sameRequest), cBool(mustRefuse)))
			rr := map[string]interface{}{"kind": kind, "request": string(bytes), "impl_accept": err == nil, "same_request": sameRequest}
			if err == nil {
				rr["suffix"], rr["id"] = op.UniqueSuffix, op.ID
			}
			recs = append(recs, rr)
		}
		addVariant("canonical", b.bytes, true)
		addVariant("respelled", []byte(spell(tree, r, 1)), true)
		addVariant("respelled", []byte(spell(tree, r, 2)), true)
		// members a create request does not have are not part of it: the DID is still that of the suffix data
		withStray := M{}
		for k, v := range b.request {
			withStray[k] = v
		}
		withStray["didSuffix"] = "EiAttackerChosenSuffixAAAAAAAAAAAAAAAAAAAAAAAA"
		withStray["revealValue"] = "EiAttackerChosenRevealAAAAAAAAAAAAAAAAAAAAAAAA"
		addVariant("stray-did-suffix-member", jcs(withStray), true)
		// the anchored form of the accepted request is the same request: same suffix when parsed again
		if mop, err := p.ParseOperation("did:ns", b.bytes, false); err == nil {
			if aop, err := model.GetAnchoredOperation(mop); err == nil {
				addVariant("anchored-form", aop.OperationRequest, true)
			} else {
				addVariant("anchored-form-failed", nil, true)
			}
		}
		if unsupported { // a delta hash recorded under the configured but uncomputable code can never be checked: refused
			junk := make([]byte, 32)
			rngReader{r}.Read(junk)
			req := M{}
			json.Unmarshal(b.bytes, &req)
			req["suffixData"].(map[string]interface{})["deltaHash"] = b64(multihash(22, junk))
			mustRefuse = true
			addVariant("delta-hash-under-uncomputable-code", jcs(req), false)
			req["delta"].(map[string]interface{})["patches"] = A{M{"action": "add-also-known-as", "uris": A{"https://attacker.example"}}}
			addVariant("delta-hash-under-uncomputable-code-other-delta", jcs(req), false)
			mustRefuse = false
		}
		if f, ok := sp.origin.(float64); ok && f == 0 {
			for _, z := range []string{"-0", "-0.0", "0.0", "0e5", "0E-3", "-0.00", "-0e0"} {
				addVariant("respelled-zero:"+z, bytes.Replace(b.bytes, []byte(`"anchorOrigin":0`), []byte(`"anchorOrigin":`+z), 1), true)
			}
		}
		// a request the parser refuses for a commitment under an algorithm that is not configured, then
		// the first request once more: what was refused in between leaves the answer as it was
		if !unsupported {
			junk := make([]byte, 32)
			rngReader{r}.Read(junk)
			for _, field := range []string{"suffixData.recoveryCommitment", "delta.updateCommitment", "suffixData.deltaHash"} {
				req := M{}
				json.Unmarshal(b.bytes, &req)
				parts := strings.Split(field, ".")
				req[parts[0]].(map[string]interface{})[parts[1]] = b64(multihash(22, junk))
				mustRefuse = true
				addVariant("refused:"+field+"-under-unconfigured-algorithm", jcs(req), false)
				mustRefuse = false
				addVariant("canonical-after-a-refused-request", b.bytes, true)
			}
		}
		// single-field modifications of suffix data and of the delta
		for _, mod := range []string{"recoveryCommitment", "deltaHash", "anchorOrigin", "sdType", "delta.updateCommitment", "delta.patch"} {
			req := M{}
			json.Unmarshal(b.bytes, &req)
			sd := req["suffixData"].(map[string]interface{})
			dl := req["delta"].(map[string]interface{})
			switch mod {
			case "recoveryCommitment":
				sd["recoveryCommitment"] = commitmentOf(genKey(r, "P-256").jwk(), code)
			case "deltaHash":
				sd["deltaHash"] = modelHash(M{"x": 1.0}, code)
			case "anchorOrigin":
				if so, ok := sd["anchorOrigin"].(string); ok && r.Intn(2) == 0 {
					// a near-miss: same origin with / without a trailing slash
					if strings.HasSuffix(so, "/") {
						sd["anchorOrigin"] = strings.TrimRight(so, "/")
					} else {
						sd["anchorOrigin"] = so + "/"
					}
				} else {
					sd["anchorOrigin"] = "other-origin.example"
				}
			case "sdType":
				sd["type"] = "kind2"
			case "delta.updateCommitment":
				dl["updateCommitment"] = commitmentOf(genKey(r, "P-256").jwk(), code)
			case "delta.patch":
				dl["patches"] = A{M{"action": "add-also-known-as", "uris": A{"https://changed.example"}}}
				if r.Intn(2) == 0 { // a one-character change outside ASCII (Ł vs A share their low byte)
					dl["patches"] = A{M{"action": "add-also-known-as", "uris": A{"https://aka.example/Ł"}}}
				}
			}
			addVariant("modified:"+mod, jcs(req), false)
		}
		// the recorded delta hash respelled without changing its decoded bytes: not the hash of the delta
		mustRefuse = true
		for _, m := range malformedHashes(b.hashes["deltaHash"], r) {
			if m[0] != "trailing-bits" && m[0] != "newline-inserted" && m[0] != "crlf-appended" {
				continue
			}
			req := M{}
			json.Unmarshal(b.bytes, &req)
			req["suffixData"].(map[string]interface{})["deltaHash"] = m[1]
			addVariant("delta-hash-respelled:"+m[0], jcs(req), false)
		}
		mustRefuse = false
		// member-order pairs: one request in two member orders must denote one DID (or be refused twice)
		var pairs []string
		var pairRecs []interface{}
		addPair := func(kind string, x, y []byte) {
			mk := func(bytes []byte) (string, map[string]interface{}) {
				op, err := p.Parse("did:ns", bytes)
				impl := "None"
				rr := map[string]interface{}{"request": string(bytes), "impl_accept": err == nil}
				if err == nil {
					impl = fmt.Sprintf("(Some (%s, %s))", cStr(op.UniqueSuffix), cStr(op.ID))
					rr["suffix"], rr["id"] = op.UniqueSuffix, op.ID
				}
				return fmt.Sprintf("(mk_variant %s %s true false)", cStr(string(bytes)), impl), rr
			}
			vx, rx := mk(x)
			vy, ry := mk(y)
			pairs = append(pairs, fmt.Sprintf("(%s, %s)", vx, vy))
			pairRecs = append(pairRecs, map[string]interface{}{"kind": kind, "first": rx, "second": ry})
		}
		{
			var raw map[string]json.RawMessage
			json.Unmarshal(b.bytes, &raw)
			sdTxt, dlTxt := string(raw["suffixData"]), string(raw["delta"])
			front := func(obj, member string) string { return "{" + member + "," + obj[1:] }
			back := func(obj, member string) string { return obj[:len(obj)-1] + "," + member + "}" }
			req := func(ty, sd, dl string) []byte {
				return []byte(`{"delta":` + dl + `,"suffixData":` + sd + `,"type":` + ty + `}`)
			}
			// plain re-ordering (members reversed at the top level): one DID
			addPair("order:top-reversed", b.bytes, []byte(`{"type":"create","suffixData":`+sdTxt+`,"delta":`+dlTxt+`}`))
			other := commitmentOf(genKey(r, "P-256").jwk(), code)
			switch i % 3 {
			case 0: // a second member equal up to case in the suffix data (struct decoding: last match wins)
				m := `"RecoveryCommitment":` + string(mustJSON(other))
				addPair("case-variant:suffixData.RecoveryCommitment", req(`"create"`, front(sdTxt, m), dlTxt), req(`"create"`, back(sdTxt, m), dlTxt))
			case 1:
				m := `"UpdateCommitment":` + string(mustJSON(other))
				addPair("case-variant:delta.UpdateCommitment", req(`"create"`, sdTxt, front(dlTxt, m)), req(`"create"`, sdTxt, back(dlTxt, m)))
			case 2: // an unknown member that is no case variant of a known one: ignored in both orders
				m := `"recoveryCommitments":` + string(mustJSON(other))
				addPair("unknown-member:suffixData.recoveryCommitments", req(`"create"`, front(sdTxt, m), dlTxt), req(`"create"`, back(sdTxt, m), dlTxt))
			}
		}
		// the long-form entry point derives the DID from the same request: with this initial state
		// whatever resolves ends with :suffix:state
		state := b64(b.bytes)
		exact := "did:ns:" + b.suffix + ":" + state
		var lfs []string
		var lfRecs []interface{}
		for _, did := range []string{exact, "did:ns:" + b.suffix + "A:" + state, "did:ns:" + b.suffix + "-backup:" + state, "did:ns:" + b.suffix[:len(b.suffix)-1] + ":" + state,
			"did:ns:x" + b.suffix + ":" + state, "did:ns:" + b.suffix + ":extra:" + state, "did:ns:extra:" + b.suffix + ":" + state, "did:ns:" + strings.ToLower(b.suffix) + ":" + state} {
			_, resolved, _ := resolveImpl(lfHandler, did)
			lfs = append(lfs, fmt.Sprintf("(%s, %s)", cStr(did), cBool(resolved)))
			lfRecs = append(lfRecs, map[string]interface{}{"did": did, "resolved": resolved})
		}
		h := sha256.Sum256(b.bytes)
		out = append(out, caseOut{
			Coq:    fmt.Sprintf("(mk_c03 %s %s %s %s %s %s %s)", urlOracle(map[string]interface{}(b.request)), protoCoq, cStr(b.suffix), cList(variants), cList(pairs), cStr(":"+b.suffix+":"+state), cList(lfs)),
			Rec:    map[string]interface{}{"protocol_algorithms": algs, "expected_suffix": b.suffix, "variants": recs, "order_pairs": pairRecs, "long_form": lfRecs},
			Label:  fmt.Sprintf("create,algs-%v,code-%d", algs, code),
			NonTri: fmt.Sprintf("%x", h[:8]),
		})
	}
	// one parser serving several goroutines at once, each request with a DID computed beforehand:
	// every answer is the one the request gets on its own (the first differing answer is the one recorded)
	{
		fr := rand.New(rand.NewSource(31))
		cfg := baseProtocol(fr)
		cfg.MultihashAlgorithms = []uint{18}
		cfg.MaxOperationHashLength = 200
		protoCoq := coqProtocol(cfg)
		p := operationparser.New(cfg)
		const nreq, workers, rounds = 24, 8, 12
		reqs := make([]builtReq, nreq)
		for k := range reqs {
			sp := defaultSpec("create", fr)
			sp.deltaHashCode, sp.updCCode, sp.recCCode = 18, 18, 18
			sp.origin = fmt.Sprintf("origin-%d.example", k)
			reqs[k] = buildReq(sp, fr, cfg.MultihashAlgorithms)
		}
		type ans struct {
			sfx, id string
			ok      bool
		}
		bad := make([]*ans, nreq)
		var mu sync.Mutex
		var wg sync.WaitGroup
		for w := 0; w < workers; w++ {
			wg.Add(1)
			go func(w int) {
				defer wg.Done()
				for rd := 0; rd < rounds; rd++ {
					for k := range reqs {
						idx := (k + 3*w) % nreq
						a := ans{}
						func() {
							defer func() { recover() }()
							if op, err := p.Parse("did:ns", reqs[idx].bytes); err == nil {
								a = ans{op.UniqueSuffix, op.ID, true}
							}
						}()
						if !a.ok || a.sfx != reqs[idx].suffix || a.id != "did:ns:"+reqs[idx].suffix {
							mu.Lock()
							if bad[idx] == nil {
								bad[idx] = &a
							}
							mu.Unlock()
						}
					}
				}
			}(w)
		}
		wg.Wait()
		for k, b := range reqs {
			impl := fmt.Sprintf("(Some (%s, %s))", cStr(b.suffix), cStr("did:ns:"+b.suffix))
			rec := map[string]interface{}{"request": string(b.bytes), "expected_suffix": b.suffix, "every_concurrent_answer_as_expected": bad[k] == nil}
			if bad[k] != nil {
				impl = "None"
				if bad[k].ok {
					impl = fmt.Sprintf("(Some (%s, %s))", cStr(bad[k].sfx), cStr(bad[k].id))
				}
				rec["differing_answer"] = map[string]interface{}{"accepted": bad[k].ok, "suffix": bad[k].sfx, "id": bad[k].id}
			}
			h := sha256.Sum256(append([]byte("concurrent"), b.bytes...))
			out = append(out, caseOut{
				Coq: fmt.Sprintf("(mk_c03 %s %s %s %s [] %s [])", urlOracle(map[string]interface{}(b.request)), protoCoq, cStr(b.suffix),
					cList([]string{fmt.Sprintf("(mk_variant %s %s true false)", cStr(string(b.bytes)), impl)}), cStr(":"+b.suffix+":"+b64(b.bytes))),
				Rec:    rec,
				Label:  "create,parsed-by-eight-goroutines-at-once",
				NonTri: fmt.Sprintf("%x", h[:8]),
			})
		}
	}
	return out
}

func init() {
	generators["C07"] = generator{"c07case", "judge_c07", parseImports, genC07}
	generators["C03"] = generator{"c03case", "judge_c03", parseImports, genC03}
}

func mustJSON(v interface{}) []byte {
	b, err := json.Marshal(v)
	if err != nil {
		panic(err)
	}
	return b
}
