package main

// C15 (JWS sign / verify) and C16 (public keys in JWK form).

import (
	"crypto/ecdsa"
	"crypto/ed25519"
	"crypto/sha256"
	"encoding/asn1"
	"encoding/json"
	"fmt"
	"math/big"
	"math/rand"
	"strings"
	"sync"

	"github.com/trustbloc/sidetree-go/pkg/jws"
	"github.com/trustbloc/sidetree-go/pkg/jwsutil"
	"github.com/trustbloc/sidetree-go/pkg/util/pubkey"
	"github.com/trustbloc/sidetree-go/pkg/util/signutil"
)

const jwsImports = "From Coq Require Import ZArith NArith String List.\nFrom Sidetree Require Import Base.Hex Json.Json Sidetree.Parser Harness.Runner Harness.JwsCases.\nImport ListNotations.\nOpen Scope string_scope.\n"

func coqJWK(j *jws.JWK) string {
	return fmt.Sprintf("(Build_jwk %s %s %s %s %s %s %s)", cStr(j.Kty), cStr(j.Crv), cStr(j.X), cStr(j.Y), cStr(j.N), cStr(j.E), cStr(j.Nonce))
}

// independent primitive verification with the standard library
func primVerify(j *jws.JWK, msg, sig []byte) bool {
	defer func() { recover() }()
	switch j.Kty {
	case "OKP":
		pub, err := b64dec(j.X)
		if err != nil || len(pub) != ed25519.PublicKeySize {
			return false
		}
		return ed25519.Verify(pub, msg, sig)
	case "EC":
		curve, w, hf, _ := curveOf(j.Crv)
		if curve == nil || len(sig) != 2*w {
			return false
		}
		xb, e1 := b64dec(j.X)
		yb, e2 := b64dec(j.Y)
		if e1 != nil || e2 != nil {
			return false
		}
		h := hf()
		h.Write(msg)
		pk := &ecdsa.PublicKey{Curve: curve, X: new(big.Int).SetBytes(xb), Y: new(big.Int).SetBytes(yb)}
		return ecdsa.Verify(pk, h.Sum(nil), new(big.Int).SetBytes(sig[:w]), new(big.Int).SetBytes(sig[w:]))
	}
	return false
}

// candidate signing inputs of a compact JWS: the raw "h.p" and the form with the header
// re-marshalled by encoding/json from a map (what a verifier that re-serialises headers uses)
func signingInputs(compact string) [][]byte {
	parts := strings.Split(compact, ".")
	if len(parts) != 3 {
		return nil
	}
	out := [][]byte{[]byte(parts[0] + "." + parts[1])}
	hb, err := b64dec(parts[0])
	if err != nil {
		return out
	}
	var m map[string]interface{}
	if json.Unmarshal(hb, &m) != nil {
		return out
	}
	rb, err := json.Marshal(m)
	if err != nil {
		return out
	}
	pl, err := b64dec(parts[1])
	if err != nil {
		return out
	}
	out = append(out, []byte(b64(rb)+"."+b64(pl)))
	if f, ok := m["b64"].(bool); ok && !f {
		out = append(out, []byte(b64(rb)+"."+string(pl)))
	}
	return out
}

func primTable(j *jws.JWK, compact string) string {
	parts := strings.Split(compact, ".")
	if len(parts) != 3 {
		return "[]"
	}
	sig, err := b64dec(parts[2])
	if err != nil {
		return "[]"
	}
	var items []string
	seen := map[string]bool{}
	for _, msg := range signingInputs(compact) {
		if seen[string(msg)] {
			continue
		}
		seen[string(msg)] = true
		items = append(items, fmt.Sprintf("(%s, %s)", cStr(string(msg)), cBool(primVerify(j, msg, sig))))
	}
	return cList(items)
}

func implVerify(compact string, j *jws.JWK) (string, bool) {
	defer func() { recover() }()
	res, err := jwsutil.VerifyJWS(compact, j)
	if err != nil {
		return "", false
	}
	return string(res.Payload), true
}

func flipSegment(compact string, seg int, r *rand.Rand) string {
	parts := strings.Split(compact, ".")
	parts[seg] = flipBitB64(parts[seg], r)
	return strings.Join(parts, ".")
}

func genC15(seed int64, tier string) []caseOut {
	per := 1
	flips := 3
	if tier == "thorough" {
		per, flips = 12, 40
	}
	r := rand.New(rand.NewSource(seed))
	var out []caseOut
	add := func(label string, j *jws.JWK, compact string, expect bool, payload string) {
		got, ok := implVerify(compact, j)
		impl := "None"
		if ok {
			impl = "(Some " + cStr(got) + ")"
		}
		h := sha256.Sum256([]byte(label + compact + j.X))
		out = append(out, caseOut{
			Coq:    fmt.Sprintf("(mk_c15 %s %s %s %s %s %s)", coqJWK(j), cStr(compact), impl, cBool(expect), cStr(payload), primTable(j, compact)),
			Rec:    map[string]interface{}{"jwk": j, "jws": compact, "impl_verified": ok, "impl_payload_len": len(got), "expect_verified": expect},
			Label:  label,
			NonTri: fmt.Sprintf("%x", h[:8]),
		})
	}
	// one signer instance used by several goroutines at once: every JWS it hands out verifies
	for _, kind := range keyKinds {
		k := genKey(r, kind)
		sg := k.signer()
		const workers, each = 8, 6
		results := make([][]string, workers)
		payloads := make([][][]byte, workers)
		var wg sync.WaitGroup
		for w := 0; w < workers; w++ {
			payloads[w] = make([][]byte, each)
			for j := range payloads[w] {
				payloads[w][j] = []byte(fmt.Sprintf(`{"worker":%d,"n":%d,"pad":"%s"}`, w, j, strings.Repeat("x", 200+37*w+j)))
			}
			wg.Add(1)
			go func(w int) {
				defer wg.Done()
				defer func() { recover() }()
				for j := 0; j < each; j++ {
					c, err := signutil.SignPayload(payloads[w][j], sg)
					if err != nil {
						c = ""
					}
					results[w] = append(results[w], c)
				}
			}(w)
		}
		wg.Wait()
		reported := 0
		for w := 0; w < workers; w++ {
			for j := 0; j < each; j++ {
				c := ""
				if j < len(results[w]) {
					c = results[w][j]
				}
				_, ok := implVerify(c, sg.jwk)
				if (!ok && reported < 2) || (w == 0 && j == 0) {
					if !ok {
						reported++
					}
					add(kind+":signed-concurrently-by-one-signer", sg.jwk, c, true, string(payloads[w][j]))
				}
			}
		}
	}
	// several JWS created from one protected-header map the caller keeps updating (a per-message
	// key id), serialised only afterwards: each is the JWS that was signed
	for _, kind := range keyKinds {
		k := genKey(rand.New(rand.NewSource(int64(1700+len(kind)))), kind)
		sg := k.signer()
		hdr := jws.Headers{}
		var made []*jwsutil.JSONWebSignature
		var payloads []string
		for m := 0; m < 3; m++ {
			hdr["kid"] = fmt.Sprintf("message-%d", m)
			p := fmt.Sprintf(`{"message":%d}`, m)
			j, err := jwsutil.NewJWS(hdr, nil, []byte(p), sg)
			if err != nil {
				j = nil
			}
			made = append(made, j)
			payloads = append(payloads, p)
		}
		for m, j := range made {
			c := ""
			if j != nil {
				c, _ = j.SerializeCompact(false)
			}
			add(fmt.Sprintf("%s:created-from-a-reused-header-map-%d", kind, m), sg.jwk, c, true, payloads[m])
		}
	}
	// a JWS created with unprotected headers next to the protected ones: the compact form carries (and
	// signs) the protected ones and verifies
	for _, kind := range keyKinds {
		k := genKey(rand.New(rand.NewSource(int64(1900+len(kind)))), kind)
		sg := k.signer()
		for m, unprot := range []jws.Headers{{"note": "unprotected"}, {"kid": "other", "x": 1}, {}} {
			p := fmt.Sprintf(`{"unprotected":%d}`, m)
			c := ""
			if j, err := jwsutil.NewJWS(jws.Headers{"kid": "protected-kid"}, unprot, []byte(p), sg); err == nil {
				c, _ = j.SerializeCompact(false)
			}
			add(fmt.Sprintf("%s:created-with-unprotected-headers-%d", kind, m), sg.jwk, c, true, p)
		}
	}
	// signature components at or above the group order: for a fixed message and nonce, s = 5 and the
	// private key solved from the signing equation; (r, s) verifies, (r, s + N) - the same residue,
	// other octets - must not (honest signatures never have a component that small)
	for _, kind := range keyKinds {
		if kind == "Ed25519" {
			continue
		}
		curve, w, hf, alg := curveOf(kind)
		N := curve.Params().N
		fr := rand.New(rand.NewSource(int64(1500 + len(kind))))
		payload := []byte(`{"crafted":"small s","curve":"` + kind + `"}`)
		signingInput := b64(jcs(map[string]interface{}{"alg": alg})) + "." + b64(payload)
		hh := hf()
		hh.Write([]byte(signingInput))
		dig := hh.Sum(nil)
		z := new(big.Int).SetBytes(dig)
		if excess := len(dig)*8 - N.BitLen(); excess > 0 {
			z.Rsh(z, uint(excess))
		}
		for _, sSmall := range []int64{5, 1} {
			var k *keyPair
			var rr *big.Int
			for k == nil {
				nb := make([]byte, (N.BitLen()+7)/8)
				rngReader{fr}.Read(nb)
				kn := new(big.Int).Mod(new(big.Int).SetBytes(nb), N)
				if kn.Sign() == 0 {
					continue
				}
				rx, _ := curve.ScalarBaseMult(kn.Bytes())
				rr = new(big.Int).Mod(rx, N)
				if rr.Sign() == 0 {
					continue
				}
				// d = (s*k - z) / r mod N
				d := new(big.Int).Mul(big.NewInt(sSmall), kn)
				d.Sub(d, z)
				d.Mul(d, new(big.Int).ModInverse(rr, N))
				d.Mod(d, N)
				if d.Sign() == 0 {
					continue
				}
				qx, qy := curve.ScalarBaseMult(d.Bytes())
				k = &keyPair{kind: kind, alg: alg, ec: &ecdsa.PrivateKey{PublicKey: ecdsa.PublicKey{Curve: curve, X: qx, Y: qy}, D: d}}
			}
			j := toJWK(k.jwk())
			mk := func(r2, s2 *big.Int) string {
				return signingInput + "." + b64(append(fixedWidth(r2, w), fixedWidth(s2, w)...))
			}
			sv := big.NewInt(sSmall)
			add(fmt.Sprintf("%s:crafted-s-%d", kind, sSmall), j, mk(rr, sv), true, string(payload))
			if sN := new(big.Int).Add(sv, N); sN.BitLen() <= 8*w {
				add(fmt.Sprintf("%s:crafted-s-%d-plus-group-order", kind, sSmall), j, mk(rr, sN), false, string(payload))
			}
			if rN := new(big.Int).Add(rr, N); rN.BitLen() <= 8*w {
				add(fmt.Sprintf("%s:crafted-r-plus-group-order", kind), j, mk(rN, sv), false, string(payload))
			}
		}
	}
	// an Ed25519 public key whose last octet is zero, offered with that octet left out (31 octets; a
	// decoder that pads short values would restore the key), with a zero octet more, and whole
	{
		var k *keyPair
		for c := 0; k == nil; c++ {
			sd := sha256.Sum256([]byte(fmt.Sprintf("ed25519-public-key-ending-in-zero-%d", c)))
			cand := ed25519.NewKeyFromSeed(sd[:])
			if pub := cand.Public().(ed25519.PublicKey); pub[len(pub)-1] == 0 {
				k = &keyPair{kind: "Ed25519", alg: "EdDSA", ed: cand}
			}
		}
		sg := k.signer()
		payload := []byte(`{"key":"ends in a zero octet"}`)
		if compact, err := signutil.SignPayload(payload, sg); err == nil {
			pub := []byte(k.ed.Public().(ed25519.PublicKey))
			add("Ed25519:key-ending-in-zero", sg.jwk, compact, true, string(payload))
			short := *sg.jwk
			short.X = b64(pub[:len(pub)-1])
			add("Ed25519:key-ending-in-zero-last-octet-left-out", &short, compact, false, "")
			long := *sg.jwk
			long.X = b64(append(append([]byte{}, pub...), 0))
			add("Ed25519:key-ending-in-zero-one-octet-more", &long, compact, false, "")
			empty := *sg.jwk
			empty.X = ""
			add("Ed25519:key-x-empty", &empty, compact, false, "")
		}
	}
	for round := 0; round < per; round++ {
		keys := map[string]*keyPair{}
		for _, kind := range keyKinds {
			keys[kind] = genKey(r, kind)
			if kind != "Ed25519" && round%3 == 0 { // every EC type also with a key whose X / Y has a leading zero byte
				keys[kind] = zeroLeadKey(kind, []string{"x", "y"}[(round/3+len(kind))%2], round/3)
			}
		}
		for _, kind := range keyKinds {
			k := keys[kind]
			sg := k.signer()
			for _, size := range []int{1, 2 + r.Intn(60), []int{300, 4096}[round%2]} {
				payload := make([]byte, size)
				rngReader{r}.Read(payload)
				if r.Intn(2) == 0 {
					payload = []byte(fmt.Sprintf(`{"n":%d,"s":"%s"}`, r.Intn(1000), randID(r, size%40)))
				}
				compact, err := signutil.SignPayload(payload, sg)
				if err == nil && size > 1 {
					// the detached-payload option: the payload the verifier supplies is the one that counts
					other := append([]byte{}, payload...)
					other[len(other)-1] ^= 1
					parts := strings.Split(compact, ".")
					detached := parts[0] + ".." + parts[2]
					optCase := func(kind int, c string, expect bool, opts ...jwsutil.ParseOpt) {
						res, e := jwsutil.VerifyJWS(c, sg.jwk, opts...)
						payOK := e == nil && string(res.Payload) == string(payload)
						hh := sha256.Sum256([]byte(fmt.Sprint(kind, c)))
						out = append(out, caseOut{
							Coq:    fmt.Sprintf("(mk_c15opt %d%%nat %s %s %s)", kind, cBool(e == nil), cBool(payOK), cBool(expect)),
							Rec:    map[string]interface{}{"jwk": sg.jwk, "jws": c, "option_kind": kind, "impl_verified": e == nil, "expect_verified": expect},
							Label:  fmt.Sprintf("%s:detached-option-%d", kind2label(kind), kind),
							NonTri: fmt.Sprintf("%x", hh[:8]),
						})
					}
					// malformed compact forms stay malformed when the payload is supplied separately
					for q, bad := range []string{parts[0] + "." + parts[1] + ".x." + parts[2], parts[0] + "..." + parts[2], parts[0] + ".a.b.c." + parts[2],
						parts[0] + ".junk!.~~." + parts[2], parts[0] + "." + parts[2], parts[0] + ".." + parts[2] + "."} {
						optCase(20+q, bad, false, jwsutil.WithJWSDetachedPayload(payload))
					}
					optCase(1, compact, false, jwsutil.WithJWSDetachedPayload(other))
					optCase(2, detached, true, jwsutil.WithJWSDetachedPayload(payload))
					optCase(3, detached, false, jwsutil.WithJWSDetachedPayload(other))
					optCase(4, detached, false)
					optCase(5, compact, true, jwsutil.WithJWSDetachedPayload(payload))
				}
				if err != nil {
					add(kind+":sign-failed", sg.jwk, "", true, string(payload))
					continue
				}
				// grind until r or s has a leading zero byte (EC): rare encodings present in every run
				if k.kind != "Ed25519" && size < 100 {
					_, w, _, _ := curveOf(k.kind)
					for tries := 0; tries < 600; tries++ {
						parts := strings.Split(compact, ".")
						sig, _ := b64dec(parts[2])
						if len(sig) == 2*w && (sig[0] == 0 || sig[w] == 0) && (k.kind != "P-521" || sig[1] == 0 || sig[w+1] == 0) {
							break
						}
						compact, _ = signutil.SignPayload(payload, sg)
					}
				}
				add(kind+":valid", sg.jwk, compact, true, string(payload))
				if size > 1000 {
					continue
				}
				for f := 0; f < flips; f++ {
					add(kind+":bitflip-header", sg.jwk, flipSegment(compact, 0, r), false, "")
					add(kind+":bitflip-payload", sg.jwk, flipSegment(compact, 1, r), false, "")
					add(kind+":bitflip-signature", sg.jwk, flipSegment(compact, 2, r), false, "")
				}
				// other keys
				other := genKey(r, kind)
				add(kind+":other-key-same-type", other.signer().jwk, compact, false, "")
				ok2 := keys[keyKinds[(r.Intn(4)+1+indexOf(keyKinds, kind))%5]]
				add(kind+":other-key-different-type", ok2.signer().jwk, compact, false, "")
				// signature widths
				parts := strings.Split(compact, ".")
				sig, _ := b64dec(parts[2])
				withSig := func(s []byte) string { return parts[0] + "." + parts[1] + "." + b64(s) }
				add(kind+":signature-truncated", sg.jwk, withSig(sig[:len(sig)-1]), false, "")
				add(kind+":signature-extended", sg.jwk, withSig(append(append([]byte{}, sig...), 0)), false, "")
				if k.kind != "Ed25519" {
					_, w, _, _ := curveOf(k.kind)
					ins := append(append(append([]byte{}, sig[:w]...), 0), sig[w:]...)
					add(kind+":signature-zero-inserted-between-r-and-s", sg.jwk, withSig(ins), false, "")
					rr, ss := new(big.Int).SetBytes(sig[:w]), new(big.Int).SetBytes(sig[w:])
					vw := append(append([]byte{}, rr.Bytes()...), ss.Bytes()...)
					if len(vw) != 2*w {
						add(kind+":signature-variable-width", sg.jwk, withSig(vw), false, "")
					}
					add(kind+":signature-zero-prefixed", sg.jwk, withSig(append([]byte{0}, sig...)), false, "")
					// the same (r, s) in the ASN.1 DER form other ECDSA interfaces use: not a JWS signature
					if der, e := asn1.Marshal(struct{ R, S *big.Int }{rr, ss}); e == nil {
						add(kind+":signature-der-encoded", sg.jwk, withSig(der), false, "")
					}
				}
				// malformed compact forms
				add(kind+":two-segments", sg.jwk, parts[0]+"."+parts[1], false, "")
				add(kind+":four-segments", sg.jwk, compact+".AA", false, "")
				add(kind+":empty-signature", sg.jwk, parts[0]+"."+parts[1]+".", false, "")
				add(kind+":empty-payload", sg.jwk, parts[0]+".."+parts[2], false, "")
				add(kind+":json-serialization", sg.jwk, `{"payload":"`+parts[1]+`"}`, false, "")
				add(kind+":header-not-base64", sg.jwk, "*"+compact, false, "")
				// bytes after the complete header object: not a JSON text
				hb, _ := b64dec(parts[0])
				for _, tl := range [][2]string{{"second-object", `{"alg":"none"}`}, {"garbage", "garbage"}, {"bracket", "]"}, {"nul", "\x00"}, {"comma", ","}} {
					add(kind+":header-trailing-"+tl[0], sg.jwk, b64(append(append([]byte{}, hb...), tl[1]...))+"."+parts[1]+"."+parts[2], false, "")
				}
				// the unencoded-payload header (RFC 7797): signed over the raw payload, carried base64url-encoded
				if size < 100 {
					if js, e := jwsutil.NewJWS(jws.Headers{"b64": false}, nil, payload, sg); e == nil {
						if c, e := js.SerializeCompact(false); e == nil {
							add(kind+":b64-false-header", sg.jwk, c, true, string(payload))
						}
					}
					if js, e := jwsutil.NewJWS(jws.Headers{"b64": true}, nil, payload, sg); e == nil {
						if c, e := js.SerializeCompact(false); e == nil {
							add(kind+":b64-true-header", sg.jwk, c, true, string(payload))
						}
					}
				}
				// unsupported key type
				rsa := *sg.jwk
				rsa.Kty = "RSA"
				add(kind+":unsupported-key-type", &rsa, compact, false, "")
				// the curve named in another letter case is another (unsupported) curve name
				for _, alt := range []string{strings.ToUpper(sg.jwk.Crv), strings.ToLower(sg.jwk.Crv), strings.Title(strings.ToLower(sg.jwk.Crv))} {
					if alt != sg.jwk.Crv {
						cv := *sg.jwk
						cv.Crv = alt
						add(kind+":curve-name-other-case:"+alt, &cv, compact, false, "")
					}
				}
				// key with a coordinate of the wrong width / off curve
				if k.kind != "Ed25519" {
					bad := *sg.jwk
					yb, _ := b64dec(bad.Y)
					bad.Y = b64(append([]byte{0}, yb...))
					add(kind+":key-y-zero-prefixed", &bad, compact, false, "")
					bad2 := *sg.jwk
					yb2 := append([]byte{}, yb...)
					yb2[len(yb2)-1] ^= 1
					bad2.Y = b64(yb2)
					add(kind+":key-off-curve", &bad2, compact, false, "")
				}
			}
		}
	}
	return out
}

func indexOf(l []string, s string) int {
	for i, x := range l {
		if x == s {
			return i
		}
	}
	return 0
}

// ---- C16 ----

// pointWithSmallX returns a point of the curve with the given x (if x^3+ax+b is a square).
func pointWithX(kind string, x *big.Int) (*big.Int, bool) {
	curve, _, _, _ := curveOf(kind)
	p := curve.Params().P
	rhs := new(big.Int).Exp(x, big.NewInt(3), p)
	if kind != "secp256k1" {
		t := new(big.Int).Mul(x, big.NewInt(3))
		rhs.Sub(rhs, t)
	}
	rhs.Add(rhs, curve.Params().B)
	rhs.Mod(rhs, p)
	e := new(big.Int).Add(p, big.NewInt(1))
	e.Rsh(e, 2)
	y := new(big.Int).Exp(rhs, e, p)
	chk := new(big.Int).Exp(y, big.NewInt(2), p)
	return y, chk.Cmp(rhs) == 0
}

func genC16(seed int64, tier string) []caseOut {
	n := 6
	scan := 400
	if tier == "thorough" {
		n, scan = 120, 6000
	}
	r := rand.New(rand.NewSource(seed))
	var out []caseOut
	// one JWK value a caller reads every key of the run into, whatever its curve: each read gives the
	// key that was read, labelled as such, and writes back out as the same JWK
	var reader jwsutil.JWK
	var heldBytes []byte
	var heldCopy string
	readBack := func(jb []byte, wantKty, wantCrv string) (key interface{}, ok bool) {
		defer func() {
			if recover() != nil {
				key, ok = nil, false
			}
		}()
		if reader.UnmarshalJSON(jb) != nil {
			return nil, false
		}
		mb, err := reader.MarshalJSON()
		if err != nil || reader.Kty != wantKty || reader.Crv != wantCrv {
			return nil, false
		}
		// what an earlier write returned is still what it was
		if heldBytes != nil && string(heldBytes) != heldCopy {
			return nil, false
		}
		heldBytes, heldCopy = mb, string(mb)
		var a, b map[string]interface{}
		if json.Unmarshal(jb, &a) != nil || json.Unmarshal(mb, &b) != nil {
			return nil, false
		}
		for _, m := range []map[string]interface{}{a, b} { // members left empty are members left out
			for k, v := range m {
				if v == "" {
					delete(m, k)
				}
			}
		}
		if deepSnapshot(a) != deepSnapshot(b) {
			return nil, false
		}
		return reader.Key, true
	}
	addEC := func(label, kind string, x, y *big.Int) {
		curve, w, _, _ := curveOf(kind)
		pk := &ecdsa.PublicKey{Curve: curve, X: x, Y: y}
		j, err := pubkey.GetPublicKeyJWK(pk)
		implJWK := "None"
		backOK := false
		rec := map[string]interface{}{"kind": kind, "x": x.String(), "y": y.String()}
		if err == nil {
			implJWK = "(Some " + coqJWK(j) + ")"
			rec["impl_jwk"] = j
			jb, _ := json.Marshal(j)
			if key, ok := readBack(jb, "EC", kind); ok {
				if bpk, ok := key.(*ecdsa.PublicKey); ok && bpk.X.Cmp(x) == 0 && bpk.Y.Cmp(y) == 0 {
					backOK = true
				}
			}
			if kind == "secp256k1" && backOK {
				// the key type and curve name in another letter case (the reader takes them): what is written
				// back out carries the names as the format spells them
				for _, sp := range [][2]string{{"ec", "secp256k1"}, {"EC", "SECP256K1"}, {"Ec", "Secp256K1"}} {
					var m map[string]interface{}
					json.Unmarshal(jb, &m)
					m["kty"], m["crv"] = sp[0], sp[1]
					sb, _ := json.Marshal(m)
					var rd jwsutil.JWK
					if rd.UnmarshalJSON(sb) != nil {
						continue // refusing the spelling is fine
					}
					wb, werr := rd.MarshalJSON()
					var a, b map[string]interface{}
					if werr != nil || json.Unmarshal(wb, &a) != nil || json.Unmarshal(jb, &b) != nil || a["kty"] != b["kty"] || a["crv"] != b["crv"] || a["x"] != b["x"] || a["y"] != b["y"] {
						backOK = false
					}
				}
			}
		}
		// tampered encodings that must be rejected
		var tamp []string
		var trecs []interface{}
		if err == nil {
			var extraMembers map[string]interface{}
			tamper := func(tl string, f func(j *jws.JWK)) {
				t := *j
				f(&t)
				tb, _ := json.Marshal(&t)
				if extraMembers != nil { // members jws.JWK does not have (e.g. the private scalar d)
					var tm map[string]interface{}
					json.Unmarshal(tb, &tm)
					for k, v := range extraMembers {
						tm[k] = v
					}
					tb, _ = json.Marshal(tm)
				}
				var back jwsutil.JWK
				accepted := back.UnmarshalJSON(tb) == nil
				tamp = append(tamp, fmt.Sprintf("(%s, %s)", coqJWK(&t), cBool(accepted)))
				trecs = append(trecs, map[string]interface{}{"tamper": tl, "jwk": t, "impl_accepted": accepted})
			}
			xb, _ := b64dec(j.X)
			yb, _ := b64dec(j.Y)
			tamper("y-zero-prefixed", func(t *jws.JWK) { t.Y = b64(append([]byte{0}, yb...)) })
			tamper("x-zero-prefixed", func(t *jws.JWK) { t.X = b64(append([]byte{0}, xb...)) })
			if len(yb) > 0 && yb[0] == 0 {
				tamper("y-leading-zero-stripped", func(t *jws.JWK) { t.Y = b64(yb[1:]) })
			}
			if len(xb) > 0 && xb[0] == 0 {
				tamper("x-leading-zero-stripped", func(t *jws.JWK) { t.X = b64(xb[1:]) })
			}
			tamper("y-off-curve", func(t *jws.JWK) { c := append([]byte{}, yb...); c[len(c)-1] ^= 1; t.Y = b64(c) })
			tamper("x-off-curve", func(t *jws.JWK) { c := append([]byte{}, xb...); c[len(c)-1] ^= 2; t.X = b64(c) })
			tamper("y-missing", func(t *jws.JWK) { t.Y = "" })
			// an off-curve point stays off the curve when the JWK also carries a private scalar
			dBytes := make([]byte, w)
			dBytes[w-1] = 7
			extraMembers = map[string]interface{}{"d": b64(dBytes)}
			tamper("y-off-curve-with-d", func(t *jws.JWK) { c := append([]byte{}, yb...); c[len(c)-1] ^= 1; t.Y = b64(c) })
			tamper("x-off-curve-with-d", func(t *jws.JWK) { c := append([]byte{}, xb...); c[len(c)-1] ^= 2; t.X = b64(c) })
			extraMembers = nil
			// coordinates are field elements: x + p and y + p name the same point but are not canonical
			p := curve.Params().P
			if xp := new(big.Int).Add(x, p); len(xp.Bytes()) <= w {
				tamper("x-plus-p", func(t *jws.JWK) { t.X = b64(fixedWidth(xp, w)) })
			}
			if yp := new(big.Int).Add(y, p); len(yp.Bytes()) <= w {
				tamper("y-plus-p", func(t *jws.JWK) { t.Y = b64(fixedWidth(yp, w)) })
			}
			tamper("wrong-curve-name", func(t *jws.JWK) {
				t.Crv = map[string]string{"P-256": "secp256k1", "secp256k1": "P-256", "P-384": "P-521", "P-521": "P-384"}[kind]
			})
		}
		rec["tampered"] = trecs
		h := sha256.Sum256([]byte(kind + x.String()))
		out = append(out, caseOut{
			Coq: fmt.Sprintf("(mk_c16ec %s %s %s %s %s %d%%nat %s)", cStr(kind), cBig(x), cBig(y), implJWK, cBool(backOK), w, cList(tamp)),
			Rec: rec, Label: label, NonTri: fmt.Sprintf("%x", h[:8]),
		})
	}
	// verification first under the genuine JWK, then - same process, same x - under JWKs that are
	// not valid: what was accepted once must not make the invalid ones acceptable
	addSeq := func(kind string, k *keyPair) {
		_, w, _, _ := curveOf(kind)
		j, err := pubkey.GetPublicKeyJWK(k.public())
		if err != nil {
			return
		}
		msg := []byte("message " + kind)
		sig := k.sign(r, msg)
		first := jwsutil.VerifySignature(j, sig, msg) == nil
		yb, _ := b64dec(j.Y)
		var tamp []string
		var trecs []interface{}
		for _, tc := range []struct {
			l string
			f func(t *jws.JWK)
		}{
			{"y-off-curve", func(t *jws.JWK) { c := append([]byte{}, yb...); c[len(c)-1] ^= 1; t.Y = b64(c) }},
			{"y-zero-prefixed", func(t *jws.JWK) { t.Y = b64(append([]byte{0}, yb...)) }},
			{"y-truncated", func(t *jws.JWK) { t.Y = b64(yb[:len(yb)-1]) }},
			{"y-missing", func(t *jws.JWK) { t.Y = "" }},
		} {
			t := *j
			tc.f(&t)
			accepted := jwsutil.VerifySignature(&t, sig, msg) == nil
			tamp = append(tamp, fmt.Sprintf("(%s, %s)", coqJWK(&t), cBool(accepted)))
			trecs = append(trecs, map[string]interface{}{"tamper": tc.l + "-after-genuine-verification", "jwk": t, "impl_accepted": accepted})
		}
		h := sha256.Sum256([]byte("seq" + kind + k.ec.X.String()))
		out = append(out, caseOut{
			Coq:   fmt.Sprintf("(mk_c16ec %s %s %s (Some %s) %s %d%%nat %s)", cStr(kind), cBig(k.ec.X), cBig(k.ec.Y), coqJWK(j), cBool(first), w, cList(tamp)),
			Rec:   map[string]interface{}{"kind": kind, "genuine_verified": first, "tampered": trecs},
			Label: kind + ":verify-genuine-then-invalid", NonTri: fmt.Sprintf("%x", h[:8]),
		})
	}
	// keys converted by several goroutines at once (each its own key): every JWK is the caller's key
	for _, kind := range []string{"secp256k1", "P-256"} {
		const workers, rounds = 8, 200
		fr := rand.New(rand.NewSource(int64(1600 + len(kind))))
		keys := make([]*keyPair, workers)
		for k := range keys {
			keys[k] = genKey(fr, kind)
		}
		got := make([]*jws.JWK, workers)
		var wg sync.WaitGroup
		for k := range keys {
			wg.Add(1)
			go func(k int) {
				defer wg.Done()
				defer func() { recover() }()
				want, _ := pubkey.GetPublicKeyJWK(keys[k].public())
				got[k] = want
				for j := 0; j < rounds; j++ {
					jw, err := pubkey.GetPublicKeyJWK(keys[k].public())
					if err != nil || want == nil || jw.X != want.X || jw.Y != want.Y || jw.Crv != want.Crv {
						got[k] = jw
						return
					}
				}
			}(k)
		}
		wg.Wait()
		for k, kp := range keys {
			_, w, _, _ := curveOf(kind)
			impl := "None"
			if got[k] != nil {
				impl = "(Some " + coqJWK(got[k]) + ")"
			}
			h := sha256.Sum256([]byte("conc" + kind + kp.ec.X.String()))
			out = append(out, caseOut{
				Coq:   fmt.Sprintf("(mk_c16ec %s %s %s %s true %d%%nat [])", cStr(kind), cBig(kp.ec.X), cBig(kp.ec.Y), impl, w),
				Rec:   map[string]interface{}{"kind": kind, "x": kp.ec.X.String(), "impl_jwk_under_concurrency": got[k]},
				Label: kind + ":converted-concurrently", NonTri: fmt.Sprintf("%x", h[:8]),
			})
		}
	}
	// the curves' parameters as they are before anything is read (they belong to the whole process)
	paramSnap := func() string {
		var b strings.Builder
		for _, kind := range []string{"P-256", "P-384", "P-521", "secp256k1"} {
			c, _, _, _ := curveOf(kind)
			pr := c.Params()
			fmt.Fprintf(&b, "%s:%s,%s,%s,%s,%s;", kind, pr.P, pr.N, pr.B, pr.Gx, pr.Gy)
		}
		return b.String()
	}
	paramsBefore := paramSnap()
	for _, kind := range []string{"P-256", "P-384", "P-521", "secp256k1"} {
		curve, w, _, _ := curveOf(kind)
		fieldPrime := new(big.Int).Set(curve.Params().P)
		// coordinates just below the field prime are coordinates like any other, on first use and later
		for k, found := int64(1), 0; k < 200 && found < 4; k++ {
			x := new(big.Int).Sub(fieldPrime, big.NewInt(k))
			if y, ok := pointWithX(kind, x); ok && curve.IsOnCurve(x, y) {
				addEC(fmt.Sprintf("%s:x-just-below-field-prime-%d", kind, k), kind, x, y)
				found++
			}
		}
		// random keys
		for i := 0; i < n; i++ {
			k := genKey(r, kind)
			addEC(kind+":random", kind, k.ec.X, k.ec.Y)
			if i < 2 {
				addSeq(kind, k)
			}
		}
		if kind == "secp256k1" {
			// coordinates between the group order and the field prime are coordinates like any other
			x := new(big.Int).Set(curve.Params().N)
			for found, tries := 0, 0; found < 3 && tries < 400 && x.Cmp(fieldPrime) < 0; x, tries = x.Add(x, big.NewInt(1)), tries+1 {
				if y, ok := pointWithX(kind, x); ok && curve.IsOnCurve(x, y) {
					addEC(kind+":x-at-least-group-order", kind, new(big.Int).Set(x), y)
					found++
				}
			}
		}
		// x = 0: a coordinate of zero bytes only (the NIST curves have such points)
		if y0, ok := pointWithX(kind, big.NewInt(0)); ok && curve.IsOnCurve(big.NewInt(0), y0) {
			addEC(kind+":zero-x", kind, big.NewInt(0), y0)
			addEC(kind+":zero-x-other-root", kind, big.NewInt(0), new(big.Int).Sub(fieldPrime, y0))
		}
		// small x: many leading zero bytes in X; and scan for Y with leading zero byte(s)
		foundY := 0
		for xi := int64(1); xi < int64(scan) && foundY < 3; xi++ {
			x := big.NewInt(xi)
			y, ok := pointWithX(kind, x)
			if !ok || !curve.IsOnCurve(x, y) {
				continue
			}
			if xi < 8 {
				addEC(kind+":tiny-x", kind, x, y)
			}
			for _, yy := range []*big.Int{y, new(big.Int).Sub(curve.Params().P, y)} {
				if len(yy.Bytes()) < w {
					addEC(fmt.Sprintf("%s:y-leading-zero-bytes-%d", kind, w-len(yy.Bytes())), kind, x, yy)
					foundY++
				}
			}
		}
		// scalar multiples whose X has leading zero bytes
		foundX := 0
		for s := int64(1); s < int64(scan) && foundX < 2; s++ {
			x, y := curve.ScalarBaseMult(big.NewInt(s).Bytes())
			if len(x.Bytes()) < w || len(y.Bytes()) < w {
				addEC(fmt.Sprintf("%s:scalar-%d-leading-zero", kind, s), kind, x, y)
				foundX++
			}
		}
	}
	// the same coordinates once more after everything above has been read, and the parameters themselves
	for _, kind := range []string{"P-256", "secp256k1"} {
		curve, _, _, _ := curveOf(kind)
		fp := map[string]string{"P-256": "115792089210356248762697446949407573530086143415290314195533631308867097853951",
			"secp256k1": "115792089237316195423570985008687907853269984665640564039457584007908834671663"}[kind]
		fieldPrime, _ := new(big.Int).SetString(fp, 10)
		for k, found := int64(1), 0; k < 200 && found < 4; k++ {
			x := new(big.Int).Sub(fieldPrime, big.NewInt(k))
			if y, ok := pointWithX(kind, x); ok && curve.IsOnCurve(x, y) {
				addEC(fmt.Sprintf("%s:x-just-below-field-prime-%d-read-late", kind, k), kind, x, y)
				found++
			}
		}
	}
	{
		same := paramsBefore == paramSnap()
		h := sha256.Sum256([]byte("curve-parameters"))
		out = append(out, caseOut{
			Coq:   fmt.Sprintf("(mk_c16params %s)", cBool(same)),
			Rec:   map[string]interface{}{"curve_parameters_unchanged_by_the_run": same},
			Label: "curve-parameters", NonTri: fmt.Sprintf("%x", h[:8]),
		})
	}
	// Ed25519
	for i := 0; i < n; i++ {
		k := genKey(r, "Ed25519")
		pub := []byte(k.ed.Public().(ed25519.PublicKey))
		label := "Ed25519:random"
		if i%3 == 2 {
			pub = append([]byte{0, 0}, pub[2:]...)
			label = "Ed25519:leading-zero-bytes"
		}
		j, err := pubkey.GetPublicKeyJWK(ed25519.PublicKey(pub))
		implJWK := "None"
		backOK := false
		if err == nil {
			implJWK = "(Some " + coqJWK(j) + ")"
			// through the run's shared reader as well (right after a secp256k1 key, see below)
			jb, _ := json.Marshal(j)
			rk, rok := readBack(jb, "OKP", "Ed25519")
			if epk, ok := rk.(ed25519.PublicKey); !rok || !ok || string(epk) != string(pub) {
				err = fmt.Errorf("read back through a reused JWK value failed")
				implJWK = "None"
			}
			back, e2 := jwsutil.GetED25519PublicKey(j)
			backOK = e2 == nil && string(back) == string(pub)
		}
		var tamp []string
		if err == nil {
			for _, badX := range []string{b64(pub[:31]), b64(append([]byte{0}, pub...)), "",
				// a short x brought to the usual text length by characters the decoder skips
				b64(pub[:31]) + "\n", "\n" + b64(pub[:31]), b64(pub[:30]) + "\r\n\n", b64(pub)[:42] + "\n", b64(pub) + "\n" + "AA"} {
				t := *j
				t.X = badX
				_, e := jwsutil.GetED25519PublicKey(&t)
				tamp = append(tamp, fmt.Sprintf("(%s, %s)", coqJWK(&t), cBool(e == nil)))
			}
		}
		h := sha256.Sum256(pub)
		out = append(out, caseOut{
			Coq:   fmt.Sprintf("(mk_c16ed %s %s %s %s)", cStr(string(pub)), implJWK, cBool(backOK), cList(tamp)),
			Rec:   map[string]interface{}{"kind": "Ed25519", "pub": b64(pub), "impl_jwk": j, "roundtrip_ok": backOK},
			Label: label, NonTri: fmt.Sprintf("%x", h[:8]),
		})
	}
	return out
}

func init() {
	generators["C15"] = generator{"c15case", "judge_c15", jwsImports, genC15}
	generators["C16"] = generator{"c16case", "judge_c16", jwsImports, genC16}
}

func kind2label(k int) string {
	if k >= 20 {
		return "malformed-compact-form-with-payload-supplied"
	}
	return []string{"", "other-payload-supplied", "detached-with-payload", "detached-with-other-payload", "detached-without-payload", "same-payload-supplied"}[k]
}
