package main

// C10 (composition semantics), C11 (ietf-json-patch frame), C14 (round trips).

import (
	"crypto/sha256"
	"encoding/json"
	"fmt"
	"math/rand"
	"reflect"
	"sort"
	"sync"

	"github.com/trustbloc/sidetree-go/pkg/document"
	"github.com/trustbloc/sidetree-go/pkg/patch"
	"github.com/trustbloc/sidetree-go/pkg/versions/1_0/doccomposer"
	"github.com/trustbloc/sidetree-go/pkg/versions/1_0/operationparser/patchvalidator"
)

func toPatch(p interface{}) (patch.Patch, error) {
	b, err := json.Marshal(p)
	if err != nil {
		return nil, err
	}
	var pm patch.Patch
	if err := json.Unmarshal(b, &pm); err != nil {
		return nil, err
	}
	return pm, nil
}

func toDoc(d M) document.Document {
	b, _ := json.Marshal(d)
	doc, err := document.FromBytes(b)
	if err != nil {
		panic(err)
	}
	return doc
}

func implApply(doc M, patches []interface{}) (res M, ok bool, panicked bool, intact bool) {
	return implApplyWith(doccomposer.New(), doc, patches)
}

// implApplyWith: the same through a composer the caller holds (one composer serves many calls)
func implApplyWith(composer *doccomposer.DocumentComposer, doc M, patches []interface{}) (res M, ok bool, panicked bool, intact bool) {
	defer func() {
		if r := recover(); r != nil {
			res, ok, panicked = nil, false, true
		}
	}()
	d := toDoc(doc)
	var ps []patch.Patch
	for _, p := range patches {
		pm, err := toPatch(p)
		if err != nil {
			return nil, false, false, true
		}
		ps = append(ps, pm)
	}
	before, beforeP := deepSnapshot(d), deepSnapshot(ps)
	out, err := composer.ApplyPatches(d, ps)
	intact = before == deepSnapshot(d) && beforeP == deepSnapshot(ps)
	if err == nil && out != nil && len(d) > 0 && reflect.ValueOf(out).Pointer() == reflect.ValueOf(d).Pointer() {
		intact = false
	}
	if err != nil {
		if out != nil {
			intact = false // an error must come with no partial document
		}
		return nil, false, false, intact
	}
	b, _ := json.Marshal(out)
	var m M
	json.Unmarshal(b, &m)
	return m, true, false, intact
}

func coqOptObj(m M, ok bool) string {
	if !ok {
		return "None"
	}
	return "(Some " + cObj(normJSON(m).(map[string]interface{})) + ")"
}

// further member names, incl. names that are proper prefixes of the protected members' names
var otherNames = []string{"other", "extra", "meta", "a", "b", "list", "nested", "s", "p", "pub", "public", "publicKe", "serv", "servic", "services", "publicKeys", "alsoKnown"}

func simpleValue(r *rand.Rand, depth int) interface{} {
	switch k := r.Intn(7); {
	case k == 0:
		return nil
	case k == 1:
		return r.Intn(2) == 0
	case k == 2:
		return float64(r.Intn(1000))
	case k == 3:
		// ordinary text incl. characters that are special to formatters, HTML escaping and shells
		return []string{"v", "x y", "value-1", "", "päß", "100%", "https://example.com/my%20page", "hello %s %d %v", "50%% off", "<a href='x'>&amp;</a>", "back\\slash \"quoted\"", "line\nbreak\ttab", "$HOME `id` {{x}}"}[r.Intn(13)]
	case k == 4 && depth > 0:
		a := A{}
		for i := r.Intn(4); i > 0; i-- {
			a = append(a, simpleValue(r, depth-1))
		}
		return a
	case depth > 0:
		m := M{}
		for i := r.Intn(3); i > 0; i-- {
			m[[]string{"k", "n", "x", "y"}[r.Intn(4)]] = simpleValue(r, depth-1)
		}
		return m
	}
	return "leaf"
}

type docGen struct {
	r    *rand.Rand
	keys []string
	svcs []string
	akas []string
}

func randDoc(r *rand.Rand, nonEmptyLists bool) (M, *docGen) {
	g := &docGen{r: r}
	d := M{}
	nk, ns, na := r.Intn(4), r.Intn(3), r.Intn(3)
	if nonEmptyLists {
		nk, ns, na = 1+r.Intn(3), 1+r.Intn(2), 1+r.Intn(2)
	}
	if nk > 0 || r.Intn(2) == 0 {
		ks := A{}
		for i := 0; i < nk; i++ {
			id := fmt.Sprintf("key%d", i+1)
			g.keys = append(g.keys, id)
			ks = append(ks, validKey(r, id))
		}
		if len(ks) > 0 || !nonEmptyLists {
			d["publicKey"] = ks
		}
	}
	if ns > 0 {
		ss := A{}
		for i := 0; i < ns; i++ {
			id := fmt.Sprintf("svc%d", i+1)
			g.svcs = append(g.svcs, id)
			ss = append(ss, validService(r, id))
		}
		d["service"] = ss
	}
	if na > 0 {
		as := A{}
		for i := 0; i < na; i++ {
			u := fmt.Sprintf("https://aka.example/%d", i+1)
			if i == 1 { // URI references that are not absolute URIs are also-known-as values too
				u = []string{"identity2", "profile/alice", "#me", "?q=2", "//host.example/p", "urn:example:2", "mailto:a@example.com"}[r.Intn(7)]
			}
			if i == 0 && r.Intn(3) == 0 { // spellings a URI normaliser would change: kept as given
				u = []string{"HTTPS://blog.example/alice", "https://blog.example/alice#", "https://blog.example/zoë", "https://Blog.Example/a", "https://blog.example/%7Ealice", "https://blog.example/a?"}[r.Intn(6)]
			}
			g.akas = append(g.akas, u)
			as = append(as, u)
		}
		d["alsoKnownAs"] = as
	}
	for i := r.Intn(3); i > 0; i-- {
		d[otherNames[r.Intn(len(otherNames))]] = simpleValue(r, 2)
	}
	if r.Intn(4) == 0 { // text that looks like an escape sequence is text
		d["note"] = []string{"a\\u0026b", "\\u003cb\\u003e", "x\\u0026", "\\\\u0026", "tab\\tnot a tab"}[r.Intn(5)]
		if ss, ok := d["service"].(A); ok && len(ss) > 0 {
			ss[0].(M)["description"] = "R\\u0026D \\u003e all"
		}
	}
	if nonEmptyLists {
		if _, ok := d["publicKey"]; ok && len(d["publicKey"].(A)) == 0 {
			delete(d, "publicKey")
		}
	}
	return d, g
}

func (g *docGen) pick(existing []string, prefix string) string {
	if len(existing) > 0 && g.r.Intn(2) == 0 {
		return existing[g.r.Intn(len(existing))]
	}
	return fmt.Sprintf("%s%d", prefix, 5+g.r.Intn(4))
}

// conformantJSONPatch builds RFC-conformant operations against the *other* members of doc.
func conformantOps(r *rand.Rand, doc M) A {
	var names []string
	for k := range doc {
		if k != "publicKey" && k != "service" && k != "alsoKnownAs" {
			names = append(names, k)
		}
	}
	sort.Strings(names) // map order must not leak into the case stream
	ops := A{}
	for i := 1 + r.Intn(3); i > 0; i-- {
		switch r.Intn(6) {
		case 0:
			ops = append(ops, M{"op": "add", "path": "/" + otherNames[r.Intn(len(otherNames))] + "New", "value": simpleValue(r, 1)})
		case 1:
			if len(names) > 0 {
				ops = append(ops, M{"op": "replace", "path": "/" + names[r.Intn(len(names))], "value": simpleValue(r, 1)})
			}
		case 2:
			if len(names) > 0 {
				n := names[r.Intn(len(names))]
				ops = append(ops, M{"op": "test", "path": "/" + n, "value": doc[n]})
			}
		case 3:
			if len(names) > 0 {
				n := names[r.Intn(len(names))]
				if a, ok := doc[n].(A); ok {
					ops = append(ops, M{"op": "add", "path": fmt.Sprintf("/%s/%d", n, r.Intn(len(a)+1)), "value": "ins"})
				} else {
					ops = append(ops, M{"op": "add", "path": "/" + n + "Arr", "value": A{1.0, 2.0}})
				}
			}
		case 4:
			ops = append(ops, M{"op": "remove", "path": "/doesNotExist"})
		default:
			if len(names) > 0 {
				ops = append(ops, M{"op": "copy", "from": "/" + names[r.Intn(len(names))], "path": "/copied"})
			}
		}
	}
	if len(ops) == 0 {
		ops = append(ops, M{"op": "add", "path": "/fresh", "value": true})
	}
	return ops
}

// deviationOps: usages on which json-patch v4.1.0 is known to deviate from RFC 6902
func deviationOps(which int) (string, M, A) {
	doc := M{"a": M{"x": 1.0}, "arr": A{1.0, 2.0, 3.0}, "n": nil}
	switch which % 8 {
	case 7:
		return "jsonpatch-deviation:add-negative-index", doc, A{M{"op": "add", "path": "/arr/-1", "value": 9.0}}
	case 0:
		return "jsonpatch-deviation:replace-creates", doc, A{M{"op": "replace", "path": "/missing", "value": 1.0}}
	case 1:
		return "jsonpatch-deviation:copy-overwrites-index", doc, A{M{"op": "copy", "from": "/a", "path": "/arr/1"}}
	case 2:
		return "jsonpatch-deviation:move-overwrites-index", doc, A{M{"op": "move", "from": "/a", "path": "/arr/0"}}
	case 3:
		return "jsonpatch-deviation:negative-index", doc, A{M{"op": "remove", "path": "/arr/-1"}}
	case 4:
		return "jsonpatch-deviation:test-subset", doc, A{M{"op": "test", "path": "/a", "value": M{"x": 1.0, "y": 2.0}}}
	case 5:
		return "jsonpatch-deviation:copy-aliasing", doc, A{M{"op": "copy", "from": "/a", "path": "/b"}, M{"op": "add", "path": "/b/k", "value": 2.0}}
	default:
		return "jsonpatch-deviation:leading-zero-index", doc, A{M{"op": "remove", "path": "/arr/01"}}
	}
}

func genC10(seed int64, tier string) []caseOut {
	n := 150
	if tier == "thorough" {
		n = 5000
	}
	r := rand.New(rand.NewSource(seed))
	var out []caseOut
	emit := func(label string, doc M, patches A) {
		res, ok, panicked, _ := implApply(doc, patches)
		h := sha256.Sum256([]byte(fmt.Sprint(doc, patches)))
		out = append(out, caseOut{
			Coq:    fmt.Sprintf("(mk_c10 %s %s %s)", cObj(normJSON(doc).(map[string]interface{})), cJSON(normJSON(patches))[len("(JArr "):len(cJSON(normJSON(patches)))-1], coqOptObj(res, ok)),
			Rec:    map[string]interface{}{"document": doc, "patches": patches, "impl_ok": ok, "impl_result": res, "impl_panicked": panicked},
			Label:  label,
			NonTri: fmt.Sprintf("%x", h[:8]),
		})
	}
	// systematic part (independent of the seed): every non-empty subset of positions of a four-entry
	// list removed at once (adjacent, first, last, all), for keys, services and also-known-as; an
	// add that re-states the entry at each position; the same id twice in one add
	{
		fr := rand.New(rand.NewSource(7))
		ids := []string{"k1", "k2", "k3", "k4"}
		mkDoc := func() M {
			ks, ss, as := A{}, A{}, A{}
			for j, id := range ids {
				ks = append(ks, validKey(fr, id))
				ss = append(ss, validService(fr, "s"+id))
				as = append(as, fmt.Sprintf("https://aka.example/%d", j))
			}
			return M{"publicKey": ks, "service": ss, "alsoKnownAs": as}
		}
		for mask := 1; mask < 16; mask++ {
			var kid, sid, aid A
			for j := 0; j < 4; j++ {
				if mask&(1<<j) != 0 {
					kid = append(kid, ids[j])
					sid = append(sid, "s"+ids[j])
					aid = append(aid, fmt.Sprintf("https://aka.example/%d", j))
				}
			}
			emit(fmt.Sprintf("systematic,remove-keys-mask-%d", mask), mkDoc(), A{M{"action": "remove-public-keys", "ids": kid}})
			emit(fmt.Sprintf("systematic,remove-services-mask-%d", mask), mkDoc(), A{M{"action": "remove-services", "ids": sid}})
			emit(fmt.Sprintf("systematic,remove-aka-mask-%d", mask), mkDoc(), A{M{"action": "remove-also-known-as", "uris": aid}})
		}
		// entries re-stated with another set of members: the new entry replaces the old one whole
		for j := 0; j < 4; j++ {
			old := mkDoc()
			old["publicKey"].(A)[j].(M)["purposes"] = A{"authentication", "assertionMethod"}
			old["service"].(A)[j].(M)["priority"] = 1.0
			old["service"].(A)[j].(M)["routingKeys"] = A{"did:example:r#k"}
			bare := M{"id": ids[j], "type": "Ed25519VerificationKey2018", "publicKeyBase58": "GY4GunSXBPBfhLCzDL7iGmP5dR3sBDCJZkkaGK8VgYQf"}
			emit(fmt.Sprintf("systematic,restate-key-other-members-%d", j), old, A{M{"action": "add-public-keys", "publicKeys": A{bare}}})
			emit(fmt.Sprintf("systematic,restate-service-other-members-%d", j), old,
				A{M{"action": "add-services", "services": A{M{"id": "s" + ids[j], "type": "Plain", "serviceEndpoint": "https://plain.example"}}}})
		}
		// also-known-as values are compared as the strings they are: other spellings of "the same" URI are other values
		for j, alt := range []string{"HTTPS://aka.example/0", "https://aka.example/0#", "https://AKA.example/0", "https://aka.example/%30", "https://aka.example/0?"} {
			emit(fmt.Sprintf("systematic,add-aka-other-spelling-%d", j), mkDoc(), A{M{"action": "add-also-known-as", "uris": A{alt}}})
			emit(fmt.Sprintf("systematic,remove-aka-other-spelling-%d", j), mkDoc(), A{M{"action": "remove-also-known-as", "uris": A{alt}}})
			emit(fmt.Sprintf("systematic,add-aka-two-patches-other-spelling-%d", j), M{}, A{M{"action": "add-also-known-as", "uris": A{alt}}, M{"action": "add-also-known-as", "uris": A{"https://aka.example/0"}}})
		}
		for j := 0; j < 4; j++ {
			emit(fmt.Sprintf("systematic,restate-key-%d", j), mkDoc(), A{M{"action": "add-public-keys", "publicKeys": A{validKey(fr, ids[j]), validKey(fr, "new")}}})
			emit(fmt.Sprintf("systematic,restate-service-%d", j), mkDoc(), A{M{"action": "add-services", "services": A{validService(fr, "s"+ids[j]), validService(fr, "snew")}}})
			emit(fmt.Sprintf("systematic,restate-aka-%d", j), mkDoc(), A{M{"action": "add-also-known-as", "uris": A{fmt.Sprintf("https://aka.example/%d", j), "https://aka.example/new"}}})
		}
		// key ids and service ids are separate name spaces: an entry added under an id the other list holds is new
		{
			d := M{"publicKey": A{validKey(fr, "shared1")}, "service": A{validService(fr, "shared2")}}
			emit("systematic,service-with-a-key-id", d, A{M{"action": "add-services", "services": A{validService(fr, "shared1")}}})
			emit("systematic,key-with-a-service-id", d, A{M{"action": "add-public-keys", "publicKeys": A{validKey(fr, "shared2")}}})
			emit("systematic,both-with-the-other-id", d, A{M{"action": "add-public-keys", "publicKeys": A{validKey(fr, "shared2"), validKey(fr, "shared1")}},
				M{"action": "add-services", "services": A{validService(fr, "shared1"), validService(fr, "shared2")}}})
		}
		// a test operation on text an HTML-safe encoder would escape, on -0 and on U+2028: the document's
		// value and the operation's value are the same value
		for j, val := range []interface{}{"https://example.com/?user=alice&lang=en", "a<b>c", "line\u2028sep", "plain", M{"q": "x&y", "n": 1.0}, A{"<", ">", "&"}} {
			d := M{"note": val, "other": "o"}
			emit(fmt.Sprintf("systematic,test-on-html-sensitive-text-%d", j), d,
				A{M{"action": "ietf-json-patch", "patches": A{M{"op": "test", "path": "/note", "value": val}, M{"op": "add", "path": "/seen", "value": true}}}})
		}
		// an add that names a new id first and an existing id afterwards, on lists of every length 1..9
		// (new entries appended, the existing one replaced in place whatever was appended before it)
		for n := 1; n <= 9; n++ {
			mkN := func() M {
				ks, ss := A{}, A{}
				for j := 0; j < n; j++ {
					ks = append(ks, validKey(fr, fmt.Sprintf("k%d", j)))
					ss = append(ss, validService(fr, fmt.Sprintf("sk%d", j)))
				}
				return M{"publicKey": ks, "service": ss}
			}
			for _, j := range []int{0, n - 1} {
				emit(fmt.Sprintf("systematic,new-then-existing-key-%d-of-%d", j, n), mkN(),
					A{M{"action": "add-public-keys", "publicKeys": A{validKey(fr, "newA"), validKey(fr, fmt.Sprintf("k%d", j)), validKey(fr, "newB")}}})
				emit(fmt.Sprintf("systematic,new-then-existing-service-%d-of-%d", j, n), mkN(),
					A{M{"action": "add-services", "services": A{validService(fr, "snewA"), validService(fr, fmt.Sprintf("sk%d", j)), validService(fr, "snewB")}}})
			}
		}
	}
	// members of a resolved document (verificationMethod, authentication, ...) and near-namesakes of the
	// two lists are ordinary members, whatever they hold: key and service patches read and write
	// publicKey / service only - on documents whose own list is absent, null, empty or has one entry
	{
		fr := rand.New(rand.NewSource(13))
		for _, other := range []string{"verificationMethod", "authentication", "assertionMethod", "keyAgreement", "publicKeys", "keys", "services", "serviceEndpoint", "endpoints"} {
			for li, own := range []interface{}{"absent", nil, A{}, "one"} {
				mk := func() M {
					d := M{other: A{validKey(fr, "vm1"), validService(fr, "vm2"), validKey(fr, "vm1")}}
					switch own {
					case "absent":
					case "one":
						d["publicKey"] = A{validKey(fr, "own1")}
						d["service"] = A{validService(fr, "own2")}
					default:
						d["publicKey"] = own
						d["service"] = own
					}
					return d
				}
				emit(fmt.Sprintf("systematic,namesake-%s-list-%d-add-key", other, li), mk(), A{M{"action": "add-public-keys", "publicKeys": A{validKey(fr, "key1")}}})
				emit(fmt.Sprintf("systematic,namesake-%s-list-%d-remove-key", other, li), mk(), A{M{"action": "remove-public-keys", "ids": A{"vm1", "unknown"}}})
				emit(fmt.Sprintf("systematic,namesake-%s-list-%d-add-service", other, li), mk(), A{M{"action": "add-services", "services": A{validService(fr, "svc1")}}})
				emit(fmt.Sprintf("systematic,namesake-%s-list-%d-remove-service", other, li), mk(), A{M{"action": "remove-services", "ids": A{"vm2", "unknown"}}})
			}
		}
	}
	// validated lists: patches naming one id twice in every pairing of key forms (JWK, base58,
	// multibase) and of services, as add and as replace, new to the document and held by it; only
	// what the library's own validator lets through is applied (on this tree: none of them), and
	// what is applied must leave the ids unique
	{
		fr := rand.New(rand.NewSource(17))
		b58 := func(id string) M {
			return M{"id": id, "type": "Ed25519VerificationKey2018", "purposes": A{"authentication"}, "publicKeyBase58": "GY4GunSXBPBfhLCzDL7iGmP5dR3sBDCJZkkaGK8VgYQf"}
		}
		mb := func(id string) M {
			return M{"id": id, "type": "Ed25519VerificationKey2020", "purposes": A{"authentication"}, "publicKeyMultibase": "z6MkpTHR8VNsBxYAAWHut2Geadd9jSwuBV8xRoAnwWsdvktH"}
		}
		jw := func(id string) M { return validKey(fr, id) }
		forms := []struct {
			name string
			f    func(string) M
		}{{"jwk", jw}, {"base58", b58}, {"multibase", mb}}
		validated := func(ps A) bool {
			for _, p := range ps {
				pm, err := toPatch(p)
				if err != nil {
					return false
				}
				if ok, _ := implValidate(pm); !ok {
					return false
				}
			}
			return true
		}
		try := func(label string, doc M, ps A) {
			if validated(ps) {
				emit("validated,"+label, doc, ps)
			}
		}
		for _, a := range forms {
			for _, b := range forms {
				pair := A{a.f("twice"), b.f("twice")}
				around := A{a.f("first"), a.f("twice"), b.f("other"), b.f("twice")}
				for di, doc := range []func() M{func() M { return M{} }, func() M { return M{"publicKey": A{jw("held")}} }, func() M { return M{"publicKey": A{jw("twice")}} }} {
					try(fmt.Sprintf("same-id-twice-add-%s-%s-doc-%d", a.name, b.name, di), doc(), A{M{"action": "add-public-keys", "publicKeys": pair}})
					try(fmt.Sprintf("same-id-twice-add-around-%s-%s-doc-%d", a.name, b.name, di), doc(), A{M{"action": "add-public-keys", "publicKeys": around}})
					try(fmt.Sprintf("same-id-twice-replace-%s-%s-doc-%d", a.name, b.name, di), doc(), A{M{"action": "replace", "document": M{"publicKeys": pair}}})
				}
			}
		}
		for di, doc := range []func() M{func() M { return M{} }, func() M { return M{"service": A{validService(fr, "held")}} }} {
			pair := A{validService(fr, "twice"), validService(fr, "twice")}
			try(fmt.Sprintf("same-id-twice-add-services-doc-%d", di), doc(), A{M{"action": "add-services", "services": pair}})
			try(fmt.Sprintf("same-id-twice-replace-services-doc-%d", di), doc(), A{M{"action": "replace", "document": M{"services": pair}}})
		}
		// the control: distinct ids in the same forms are let through and applied
		try("distinct-ids-every-form", M{}, A{M{"action": "add-public-keys", "publicKeys": A{jw("a1"), b58("a2"), jw("a3")}}})
	}
	// one composer used by several goroutines at once, each with a document and patches of its own:
	// every call yields what it yields alone (a differing result is emitted as that call's result)
	{
		const workers, rounds = 8, 150
		fr := rand.New(rand.NewSource(11))
		shared := doccomposer.New()
		type job struct {
			doc     M
			patches A
			res     M
			ok      bool
		}
		jobs := make([]*job, workers)
		for k := range jobs {
			ks := A{}
			for j := 0; j <= k; j++ {
				ks = append(ks, validKey(fr, fmt.Sprintf("w%dk%d", k, j)))
			}
			jobs[k] = &job{doc: M{"publicKey": ks, "note": fmt.Sprintf("worker-%d", k)},
				patches: A{M{"action": "add-services", "services": A{validService(fr, fmt.Sprintf("w%ds", k))}},
					M{"action": "remove-public-keys", "ids": A{fmt.Sprintf("w%dk0", k)}},
					M{"action": "ietf-json-patch", "patches": A{M{"op": "add", "path": "/seen", "value": float64(k)}}}}}
			jobs[k].res, jobs[k].ok, _, _ = implApplyWith(shared, jobs[k].doc, jobs[k].patches)
		}
		var wg sync.WaitGroup
		for k := range jobs {
			wg.Add(1)
			go func(j *job) {
				defer wg.Done()
				want := deepSnapshot(j.res)
				for i := 0; i < rounds; i++ {
					res, ok, _, _ := implApplyWith(shared, j.doc, j.patches)
					if ok != j.ok || deepSnapshot(res) != want {
						j.res, j.ok = res, ok
						return
					}
				}
			}(jobs[k])
		}
		wg.Wait()
		for k, j := range jobs {
			h := sha256.Sum256([]byte(fmt.Sprint("concurrent", k)))
			out = append(out, caseOut{
				Coq:    fmt.Sprintf("(mk_c10 %s %s %s)", cObj(normJSON(j.doc).(map[string]interface{})), cJSON(normJSON(j.patches))[len("(JArr "):len(cJSON(normJSON(j.patches)))-1], coqOptObj(j.res, j.ok)),
				Rec:    map[string]interface{}{"document": j.doc, "patches": j.patches, "impl_ok": j.ok, "impl_result": j.res},
				Label:  "concurrent,one-composer-many-callers",
				NonTri: fmt.Sprintf("%x", h[:8]),
			})
		}
	}
	for i := 0; i < n; i++ {
		doc, g := randDoc(r, false)
		label := "sequence"
		var patches A
		if i%10 == 9 {
			var ops A
			label, doc, ops = deviationOps(i / 10)
			patches = A{M{"action": "ietf-json-patch", "patches": ops}}
		} else {
			cur := doc
			for j := 1 + r.Intn(4); j > 0; j-- {
				var p M
				switch r.Intn(9) {
				case 0:
					ks := A{}
					seen := map[string]bool{}
					for k := 1 + r.Intn(3); k > 0; k-- {
						id := g.pick(g.keys, "key")
						if !seen[id] {
							seen[id] = true
							ks = append(ks, validKey(r, id))
						}
					}
					p = M{"action": "add-public-keys", "publicKeys": ks}
				case 1:
					p = M{"action": "remove-public-keys", "ids": A{g.pick(g.keys, "key"), g.pick(g.keys, "key")}}
				case 2:
					ss := A{}
					seen := map[string]bool{}
					for k := 1 + r.Intn(2); k > 0; k-- {
						id := g.pick(g.svcs, "svc")
						if !seen[id] {
							seen[id] = true
							ss = append(ss, validService(r, id))
						}
					}
					p = M{"action": "add-services", "services": ss}
				case 3:
					p = M{"action": "remove-services", "ids": A{g.pick(g.svcs, "svc")}}
				case 4:
					a, b := g.pick(g.akas, "https://aka.example/"), g.pick(g.akas, "https://aka.example/")
					us := A{a}
					if b != a {
						us = append(us, b)
					}
					p = M{"action": "add-also-known-as", "uris": us}
				case 5:
					p = M{"action": "remove-also-known-as", "uris": A{g.pick(g.akas, "https://aka.example/")}}
				case 6:
					p = M{"action": "replace", "document": M{"publicKeys": A{validKey(r, "rk1"), validKey(r, "rk2")}, "services": A{validService(r, "rs1")}}}
					if r.Intn(3) == 0 {
						p = M{"action": "replace", "document": M{"services": A{validService(r, "rs1")}}}
					}
				default:
					p = M{"action": "ietf-json-patch", "patches": conformantOps(r, cur)}
				}
				if ok, _ := implValidate(p); !ok {
					label = "sequence,generator-produced-invalid-patch"
					continue
				}
				patches = append(patches, p)
				// follow the implementation's own result to aim later patches at existing members
				if nd, ok, _, _ := implApply(cur, A{p}); ok {
					cur = nd
				}
			}
			if len(patches) == 0 {
				patches = A{M{"action": "add-also-known-as", "uris": A{"https://aka.example/9"}}}
			}
		}
		emit(label, doc, patches)
	}
	return out
}

func genC11(seed int64, tier string) []caseOut {
	rounds := 2
	if tier == "thorough" {
		rounds = 40
	}
	r := rand.New(rand.NewSource(seed))
	var out []caseOut
	pointers := []string{"/publicKey", "/service", "/publicKey/0", "/publicKey/0/id", "/publicKey/0/publicKeyJwk/x", "/service/0", "/service/0/serviceEndpoint",
		"/publicKey/-", "/service/-", "/publicKeyX", "/publicKe", "/servic", "/services", "/public~0Key", "/~1publicKey", "/public~1Key", "publicKey", "x/publicKey",
		"x/service/0", "", "/", "/other", "/other/k", "/other/publicKey", "/arr/0", "/arr/-", "/arr/1", "//publicKey", "/publicKey/", " /publicKey", "/PUBLICKEY",
		// control characters inside later tokens (a pattern match that stops at a line end would miss them)
		// an escaped slash right after a protected name: one token ("service/0"), not a path into the member
		"/service~10", "/publicKey~10~1type", "/service~1-", "/publicKey~1", "/service~10~1id", "/publicKey~10", "/service~01",
		"/publicKey/0/controller\n", "/service/0/a\nb", "/publicKey/\n", "/service/0/\r\nx", "/publicKey/0/publicKeyJwk/x\n", "/service/0/serviceEndpoint\t", "/publicKey/0\u2028"}
	for i := 0; i < rounds; i++ {
		doc := M{"publicKey": A{validKey(r, "key1"), validKey(r, "key2")}, "service": A{validService(r, "svc1")},
			"other": M{"k": 1.0, "publicKey": "decoy"}, "arr": A{"a", "b"}, "alsoKnownAs": A{"https://aka.example/1"}}
		for _, kind := range []string{"add", "remove", "replace", "move", "copy", "test"} {
			for _, ptr := range pointers {
				var opsList []A
				switch kind {
				case "move", "copy":
					opsList = append(opsList,
						A{M{"op": kind, "from": ptr, "path": "/backup"}},
						A{M{"op": kind, "from": "/other", "path": ptr}},
						// onto its own location (the library removes and sets: on an array element that is not a no-op)
						A{M{"op": kind, "from": ptr, "path": ptr}},
						// copy out of a protected member, then edit through the copy (node sharing)
						A{M{"op": kind, "from": ptr, "path": "/backup"}, M{"op": "replace", "path": "/backup/0/type", "value": "Hijacked"}},
						A{M{"op": kind, "from": ptr, "path": "/backup"}, M{"op": "remove", "path": "/backup/0"}})
				default:
					opsList = append(opsList, A{M{"op": kind, "path": ptr, "value": A{M{"id": "evil"}}}})
				}
				// the same operation at later positions of a list: after operations without and with a `from`
				first := opsList[0][0]
				// ... and after an operation carrying members it has no use for, present but null
				opsList = append(opsList,
					A{M{"op": "add", "path": "/note", "value": "x", "from": nil}, first},
					A{M{"op": "test", "path": "/other/k", "value": 1.0, "from": nil}, first},
					A{M{"op": "remove", "path": "/other/k", "from": nil, "value": nil}, first})
				opsList = append(opsList,
					A{M{"op": "add", "path": "/note", "value": "x"}, first},
					A{M{"op": "copy", "from": "/other", "path": "/note"}, M{"op": "test", "path": "/other/k", "value": 1.0}, first},
					A{first, M{"op": "add", "path": "/note", "value": "x"}})
				for _, ops := range opsList {
					if r.Intn(3) != 0 && i > 0 {
						continue
					}
					p := M{"action": "ietf-json-patch", "patches": ops}
					valid, _ := implValidate(p)
					var res M
					ok := false
					if valid {
						res, ok, _, _ = implApply(doc, A{p})
					}
					h := sha256.Sum256([]byte(fmt.Sprint(kind, ptr, ops)))
					out = append(out, caseOut{
						Coq:    fmt.Sprintf("(mk_c11 %s %s %s %s)", cObj(normJSON(doc).(map[string]interface{})), cJSON(normJSON(p)), cBool(valid), coqOptObj(res, ok)),
						Rec:    map[string]interface{}{"document": doc, "patch": p, "impl_valid": valid, "impl_applied": ok, "impl_result": res},
						Label:  fmt.Sprintf("%s:%s", kind, ptr),
						NonTri: fmt.Sprintf("%x", h[:8]),
					})
				}
			}
		}
	}
	// entries carrying members whose value is empty (null, {}, [], "") stay as they are whatever a
	// validated operation list does elsewhere; and a patch object carrying further members that spell
	// `patches` differently (other letter case, the long s that folds to s) is its `patches` member and
	// nothing else
	{
		fr := rand.New(rand.NewSource(29))
		svc := validService(fr, "svc1")
		svc["routingKeys"], svc["recipientKeys"], svc["properties"], svc["priority"], svc["accept"], svc["note"] = A{}, A{}, M{}, nil, A{nil}, ""
		key := validKey(fr, "key1")
		key["extra"], key["list"], key["nothing"] = M{}, A{}, nil
		mkDoc := func() M {
			return M{"publicKey": A{key, validKey(fr, "key2")}, "service": A{svc, M{"id": "svc2", "type": "T", "serviceEndpoint": A{}}},
				"other": M{"k": 1.0, "empty": M{}, "none": nil, "list": A{}}, "emptyTop": M{}, "nullTop": nil, "listTop": A{}}
		}
		emitOne := func(label string, doc M, p M) {
			valid, _ := implValidate(p)
			var res M
			ok := false
			if valid {
				res, ok, _, _ = implApply(doc, A{p})
			}
			h := sha256.Sum256([]byte(fmt.Sprint(label, p)))
			out = append(out, caseOut{
				Coq:    fmt.Sprintf("(mk_c11 %s %s %s %s)", cObj(normJSON(doc).(map[string]interface{})), cJSON(normJSON(p)), cBool(valid), coqOptObj(res, ok)),
				Rec:    map[string]interface{}{"document": doc, "patch": p, "impl_valid": valid, "impl_applied": ok, "impl_result": res},
				Label:  label,
				NonTri: fmt.Sprintf("%x", h[:8]),
			})
		}
		opsLists := []A{
			{M{"op": "add", "path": "/note", "value": "x"}},
			{M{"op": "remove", "path": "/other/k"}},
			{M{"op": "replace", "path": "/other/k", "value": 2.0}},
			{M{"op": "copy", "from": "/other", "path": "/backup"}},
			{M{"op": "move", "from": "/other", "path": "/moved"}},
			{M{"op": "test", "path": "/other/k", "value": 1.0}},
			{M{"op": "add", "path": "/other/empty/x", "value": M{}}},
			{M{"op": "remove", "path": "/nullTop"}, M{"op": "add", "path": "/listTop/-", "value": A{}}},
		}
		for k, ops := range opsLists {
			emitOne(fmt.Sprintf("empty-valued-members:%d", k), mkDoc(), M{"action": "ietf-json-patch", "patches": ops})
		}
		hidden := A{M{"op": "remove", "path": "/service/0"}, M{"op": "replace", "path": "/publicKey/0/type", "value": "Hijacked"}, M{"op": "add", "path": "/hidden", "value": true}}
		for k, name := range []string{"patcheſ", "Patches", "PATCHES", "patches ", "ſpatches", "patKhes", "patches\u0000", "document", "publicKeys"} {
			emitOne(fmt.Sprintf("patch-object-with-further-member:%d", k), mkDoc(), M{"action": "ietf-json-patch", "patches": opsLists[0], name: hidden})
			emitOne(fmt.Sprintf("patch-object-with-further-member-first:%d", k), mkDoc(), M{"action": "ietf-json-patch", "patches": hidden, name: opsLists[0]})
		}
		for k, name := range []string{"Action", "ACTION", "action ", "aсtion"} {
			emitOne(fmt.Sprintf("patch-object-with-further-action:%d", k), mkDoc(), M{"action": "ietf-json-patch", "patches": opsLists[0], name: "replace", "document": M{"publicKeys": A{}}})
		}
	}
	// pointers carrying quotes, backslashes and text that looks like further members or operations:
	// a verdict or a rebuilt operation must never depend on how an operation list prints
	{
		fr := rand.New(rand.NewSource(13))
		doc := M{"publicKey": A{validKey(fr, "key1")}, "service": A{validService(fr, "svc1")}, "other": M{"k": 1.0, "c": M{"d": 2.0}}, "a": M{"evil": A{M{"id": "evil"}}}}
		lists := []A{
			{M{"op": "copy", "from": "/a", "path": "/a/c\",\"path\":\"/service"}},
			{M{"op": "copy", "from": "/a", "path": "/a/c\",\"path\":\"/publicKey"}},
			{M{"op": "copy", "from": "/a\",\"from\":\"/publicKey", "path": "/a/x"}},
			{M{"op": "move", "from": "/other/c", "path": "/other/c2\",\"path\":\"/service"}},
			{M{"op": "add", "path": "/note\"", "value": "x"}},
			{M{"op": "add", "path": "/no\\te", "value": "x"}},
			// a harmless single operation whose Go %v rendering equals that of the two-operation list after it
			{M{"op": "add", "path": "/x value:1] map[op:remove path:/service/0"}},
			{M{"op": "add", "path": "/x", "value": 1.0}, M{"op": "remove", "path": "/service/0"}},
			{M{"op": "add", "path": "/x value:1] map[op:remove path:/publicKey"}},
			{M{"op": "add", "path": "/x", "value": 1.0}, M{"op": "remove", "path": "/publicKey"}},
			{M{"op": "remove", "path": "/other/k] map[from:/publicKey op:move path:/stolen"}},
			{M{"op": "remove", "path": "/other/k"}, M{"op": "move", "from": "/publicKey", "path": "/stolen"}},
		}
		for li, ops := range lists {
			p := M{"action": "ietf-json-patch", "patches": ops}
			valid, _ := implValidate(p)
			var res M
			ok := false
			if valid {
				res, ok, _, _ = implApply(doc, A{p})
			}
			h := sha256.Sum256([]byte(fmt.Sprint("quoted", li)))
			out = append(out, caseOut{
				Coq:    fmt.Sprintf("(mk_c11 %s %s %s %s)", cObj(normJSON(doc).(map[string]interface{})), cJSON(normJSON(p)), cBool(valid), coqOptObj(res, ok)),
				Rec:    map[string]interface{}{"document": doc, "patch": p, "impl_valid": valid, "impl_applied": ok, "impl_result": res},
				Label:  fmt.Sprintf("quoted-or-ambiguous:%d", li),
				NonTri: fmt.Sprintf("%x", h[:8]),
			})
		}
	}
	// a validated ietf-json-patch followed by dedicated key / service actions that change nothing
	// (unknown ids): documents without one or both protected members, sibling member names
	{
		fr := rand.New(rand.NewSource(11))
		k1, k2, s1 := validKey(fr, "key1"), validKey(fr, "smuggled"), validService(fr, "svc1")
		s2 := validService(fr, "smuggledsvc")
		docs := []M{
			{"service": A{s1}, "other": M{"k": 1.0}},
			{"publicKey": A{k1}, "other": M{"k": 1.0}},
			{"other": M{"k": 1.0}},
			{"publicKey": A{k1}, "service": A{s1}},
		}
		ietf := func(ops ...interface{}) M { return M{"action": "ietf-json-patch", "patches": A(ops)} }
		addOp := func(path string, v interface{}) M { return M{"op": "add", "path": path, "value": v} }
		noKeys := M{"action": "remove-public-keys", "ids": A{"nosuchkey"}}
		noSvcs := M{"action": "remove-services", "ids": A{"nosuchsvc"}}
		seqs := []A{
			{ietf(addOp("/publicKeys", A{k2})), noKeys},
			{ietf(addOp("/services", A{s2})), noSvcs},
			{ietf(addOp("/publicKeys", A{k2}), addOp("/services", A{s2})), noKeys, noSvcs},
			{ietf(addOp("/publicKeys", A{k2})), noSvcs, noKeys, noSvcs},
			{ietf(addOp("/publickey", A{k2})), noKeys},
			{ietf(addOp("/PublicKey", A{k2}), addOp("/Service", A{s2})), noSvcs, noKeys},
			{ietf(addOp("/verificationMethod", A{k2})), noKeys},
			{ietf(addOp("/services", A{s2})), ietf(M{"op": "move", "from": "/services", "path": "/serviceList"}), noSvcs},
		}
		// ietf-json-patches before, between and after dedicated actions that do change the keys and
		// services (one delta, one ApplyPatches call): every patch works on what the one before left
		{
			d := M{"publicKey": A{k1}, "service": A{s1, s2}, "other": M{"k": 1.0}}
			rmS := M{"action": "remove-services", "ids": A{"svc1"}}
			addK := M{"action": "add-public-keys", "publicKeys": A{k2}}
			mixed := []A{
				{ietf(addOp("/note", "a")), rmS, ietf(addOp("/note2", "b"))},
				{ietf(addOp("/note", "a")), addK, ietf(addOp("/note2", "b"))},
				{ietf(addOp("/note", "a")), rmS, addK, ietf(M{"op": "remove", "path": "/note"}), M{"action": "remove-public-keys", "ids": A{"key1"}}, ietf(addOp("/note3", "c"))},
				{rmS, ietf(addOp("/note", "a")), addK, ietf(addOp("/note2", "b"))},
				{ietf(M{"op": "test", "path": "/other/k", "value": 1.0}), rmS, ietf(M{"op": "test", "path": "/other/k", "value": 1.0}), addK},
			}
			for mi, ps := range mixed {
				allValid := true
				for _, p := range ps {
					if v, _ := implValidate(p.(M)); !v {
						allValid = false
					}
				}
				var res M
				ok := false
				if allValid {
					res, ok, _, _ = implApply(d, ps)
				}
				h := sha256.Sum256([]byte(fmt.Sprint("mixed", mi)))
				out = append(out, caseOut{
					Coq:    fmt.Sprintf("(mk_c11mixed %s %s %s %s)", cObj(normJSON(d).(map[string]interface{})), cJSON(normJSON(ps))[len("(JArr "):len(cJSON(normJSON(ps)))-1], cBool(allValid), coqOptObj(res, ok)),
					Rec:    map[string]interface{}{"document": d, "patches": ps, "impl_all_valid": allValid, "impl_applied": ok, "impl_result": res},
					Label:  fmt.Sprintf("mixed-sequence:%d", mi),
					NonTri: fmt.Sprintf("%x", h[:8]),
				})
			}
		}
		for di, doc := range docs {
			for si, ps := range seqs {
				allValid := true
				for _, p := range ps {
					if v, _ := implValidate(p.(M)); !v {
						allValid = false
					}
				}
				var res M
				ok := false
				if allValid {
					res, ok, _, _ = implApply(doc, ps)
				}
				h := sha256.Sum256([]byte(fmt.Sprint("seq", di, si)))
				out = append(out, caseOut{
					Coq:    fmt.Sprintf("(mk_c11seq %s %s %s %s)", cObj(normJSON(doc).(map[string]interface{})), cJSON(normJSON(ps))[len("(JArr "):len(cJSON(normJSON(ps)))-1], cBool(allValid), coqOptObj(res, ok)),
					Rec:    map[string]interface{}{"document": doc, "patches": ps, "impl_all_valid": allValid, "impl_applied": ok, "impl_result": res},
					Label:  fmt.Sprintf("sequence:doc-%d:seq-%d", di, si),
					NonTri: fmt.Sprintf("%x", h[:8]),
				})
			}
		}
	}
	return out
}

var c14EmptyDoc = make(document.Document)

func genC14(seed int64, tier string) []caseOut {
	n := 80
	if tier == "thorough" {
		n = 3000
	}
	r := rand.New(rand.NewSource(seed))
	var out []caseOut
	for i := 0; i < n; i++ {
		inClass := r.Intn(5) != 0
		doc, _ := randDoc(r, inClass)
		label := "doc:in-class"
		if !inClass {
			label = "doc:outside-class"
			switch r.Intn(4) {
			case 0:
				doc["id"] = "did:example:1"
				label = "doc:with-id"
			case 1:
				doc["alsoKnownAs"] = A{}
				label = "doc:empty-aka"
			case 2:
				doc["publicKey"] = nil
				label = "doc:null-keys"
			}
		} else if r.Intn(4) == 0 {
			doc[otherNames[r.Intn(len(otherNames))]] = nil
			label = "doc:in-class,null-member"
		}
		// 50-character ids are inside the class
		if inClass && r.Intn(5) == 0 {
			if ks, ok := doc["publicKey"].(A); ok && len(ks) > 0 {
				ks[0].(M)["id"] = randID(r, 50)
				label += ",id-50"
			}
		}
		if i >= 4 && i < 6 && inClass {
			// a key and a service under the same id (ids are per list): both come back
			doc["publicKey"] = A{validKey(r, "primary"), validKey(r, "second")}
			doc["service"] = A{validService(r, "primary"), validService(r, "third")}
			if i == 5 {
				doc["service"] = A{validService(r, "third"), validService(r, "second"), validService(r, "primary")}
			}
			label = "doc:in-class,key-and-service-share-an-id"
		}
		if i < 4 && inClass {
			// systematic: a key / service list that names an id twice (first and last entry, another in
			// between): the document comes back with every entry, in order
			k1, k2, k3 := validKey(r, "signing"), validKey(r, "other"), validKey(r, "signing")
			k3["purposes"] = A{"keyAgreement"}
			s1, s2, s3 := validService(r, "hub"), validService(r, "other"), validService(r, "hub")
			s3["serviceEndpoint"] = "https://second.example/hub"
			switch i {
			case 0:
				doc["publicKey"] = A{k1, k2, k3}
			case 1:
				doc["service"] = A{s1, s2, s3}
			case 2:
				doc["publicKey"], doc["service"] = A{k1, k3}, A{s1, s3}
			case 3:
				doc["publicKey"] = A{k2, k1, k3, validKey(r, "last")}
			}
			label = "doc:in-class,repeated-entry-id"
		}
		b, _ := json.Marshal(doc)
		ps, err := patch.PatchesFromDocument(string(b))
		var psJSON A
		allValid, rt := true, true
		var applied M
		appliedOK := false
		if err == nil {
			// serialise every patch first (and other things in between), parse afterwards: the
			// bytes handed out must stay what they were
			pbs := make([][]byte, len(ps))
			for i, p := range ps {
				if patchvalidator.Validate(p) != nil {
					allValid = false
				}
				pb, e1 := p.Bytes()
				if e1 != nil {
					rt = false
				}
				pbs[i] = pb
				if d0, e := document.FromBytes([]byte(`{"x":1}`)); e == nil {
					d0.Bytes()
				}
			}
			for i, p := range ps {
				pb := pbs[i]
				if pb == nil {
					continue
				}
				p2, e2 := patch.FromBytes(pb)
				if e2 != nil {
					rt = false
				} else {
					a1, _ := p.GetAction()
					a2, _ := p2.GetAction()
					v1, _ := p.GetValue()
					v2, _ := p2.GetValue()
					if a1 != a2 || deepSnapshot(v1) != deepSnapshot(v2) || deepSnapshot(p) != deepSnapshot(p2) {
						rt = false
					}
				}
				var pj interface{}
				json.Unmarshal(pb, &pj)
				psJSON = append(psJSON, pj)
			}
			// one empty document value serves every application of the run: it is the empty document
			// before each call and still is afterwards
			res, aerr := doccomposer.New().ApplyPatches(c14EmptyDoc, ps)
			if aerr == nil {
				rb, _ := json.Marshal(res)
				json.Unmarshal(rb, &applied)
				appliedOK = true
			}
			if len(c14EmptyDoc) != 0 { // what the caller handed in as the empty document now holds entries
				applied, appliedOK = nil, false
				c14EmptyDoc = make(document.Document)
			}
		}
		ips := "None"
		if err == nil {
			if psJSON == nil {
				psJSON = A{}
			}
			s := cJSON(normJSON(psJSON))
			ips = "(Some " + s[len("(JArr "):len(s)-1] + ")"
		}
		h := sha256.Sum256(b)
		out = append(out, caseOut{
			Coq: fmt.Sprintf("(mk_c14doc %s %s %s %s %s %s)", cObj(normJSON(doc).(map[string]interface{})), cBool(inClass), ips,
				coqOptObj(applied, appliedOK), cBool(allValid), cBool(rt)),
			Rec:    map[string]interface{}{"document": doc, "in_class": inClass, "impl_patches": psJSON, "impl_refused": err != nil, "impl_applied": applied, "all_valid": allValid, "bytes_roundtrip": rt},
			Label:  label,
			NonTri: fmt.Sprintf("%x", h[:8]),
		})
	}
	// patch bytes lacking a supported action or that action's value member
	for _, c := range []struct {
		label  string
		v      interface{}
		expect bool
	}{
		{"bytes:valid", M{"action": "add-also-known-as", "uris": A{"x"}}, true},
		{"bytes:missing-action", M{"uris": A{"x"}}, false},
		{"bytes:unknown-action", M{"action": "frobnicate", "uris": A{"x"}}, false},
		{"bytes:action-not-string", M{"action": 1.0, "uris": A{"x"}}, false},
		{"bytes:wrong-value-member", M{"action": "add-also-known-as", "ids": A{"x"}}, false},
		{"bytes:replace-without-document", M{"action": "replace", "publicKeys": A{}}, false},
		{"bytes:ietf-without-patches", M{"action": "ietf-json-patch", "document": M{}}, false},
		{"bytes:remove-keys-without-ids", M{"action": "remove-public-keys", "publicKeys": A{}}, false},
		{"bytes:not-an-object", A{"action"}, false},
		{"bytes:value-null", M{"action": "add-public-keys", "publicKeys": nil}, true},
		{"bytes:action-member-capitalised", M{"Action": "add-public-keys", "publicKeys": A{}}, false},
		{"bytes:action-member-upper-case", M{"ACTION": "replace", "document": M{}}, false},
		{"bytes:invalid-action-plus-capitalised-one", M{"action": "invalid", "Action": "ietf-json-patch", "patches": A{}}, false},
		{"bytes:value-member-upper-case", M{"action": "add-also-known-as", "URIS": A{"x"}}, false},
		{"bytes:action-value-other-case", M{"action": "Add-Public-Keys", "publicKeys": A{}}, false},
		{"bytes:action-with-trailing-space", M{"action": "replace ", "document": M{}}, false},
	} {
		b, _ := json.Marshal(c.v)
		_, err := patch.FromBytes(b)
		h := sha256.Sum256(b)
		out = append(out, caseOut{
			Coq:    fmt.Sprintf("(mk_c14bytes %s %s %s)", cJSON(normJSON(c.v)), cBool(err == nil), cBool(c.expect)),
			Rec:    map[string]interface{}{"bytes": string(b), "impl_ok": err == nil, "expect": c.expect},
			Label:  c.label,
			NonTri: fmt.Sprintf("%x", h[:8]),
		})
	}
	// patches from the constructors validated by several goroutines at once (each its own patch): valid
	// input passes validation whoever else is validating
	{
		fr := rand.New(rand.NewSource(14))
		const workers, rounds = 8, 300
		ps := make([]patch.Patch, workers)
		for k := range ps {
			kb, _ := json.Marshal(A{validKey(fr, fmt.Sprintf("wk%da", k)), validKey(fr, fmt.Sprintf("wk%db", k))})
			sb, _ := json.Marshal(A{validService(fr, fmt.Sprintf("ws%da", k)), validService(fr, fmt.Sprintf("ws%db", k))})
			var err error
			switch k % 3 {
			case 0:
				ps[k], err = patch.NewAddPublicKeysPatch(string(kb))
			case 1:
				ps[k], err = patch.NewAddServiceEndpointsPatch(string(sb))
			default:
				ps[k], err = patch.NewReplacePatch(`{"publicKeys":` + string(kb) + `,"services":` + string(sb) + `}`)
			}
			if err != nil {
				panic(err)
			}
		}
		valid := make([]bool, workers)
		var wg sync.WaitGroup
		for k := range ps {
			wg.Add(1)
			go func(k int) {
				defer wg.Done()
				defer func() { recover() }()
				ok := true
				for j := 0; j < rounds && ok; j++ {
					ok = patchvalidator.Validate(ps[k]) == nil
				}
				valid[k] = ok
			}(k)
		}
		wg.Wait()
		for k, p := range ps {
			pb, _ := json.Marshal(p)
			var pj interface{}
			json.Unmarshal(pb, &pj)
			h := sha256.Sum256(append([]byte("concurrent-validation"), pb...))
			out = append(out, caseOut{
				Coq:    fmt.Sprintf("(mk_c14ctor %s %s %s)", cJSON(normJSON(pj)), urlOracle(pj), cBool(valid[k])),
				Rec:    map[string]interface{}{"patch": pj, "impl_valid_under_concurrency": valid[k]},
				Label:  "ctor:validated-concurrently",
				NonTri: fmt.Sprintf("%x", h[:8]),
			})
		}
	}
	// the constructor models: each of the eight constructors on valid, degenerate and refused
	// arguments; the patch it returns (or its refusal) is compared with new_patch of the model
	{
		js := func(v interface{}) string { b, _ := json.Marshal(v); return string(b) }
		ctors := []struct {
			action string
			f      func(string) (patch.Patch, error)
		}{
			{"replace", patch.NewReplacePatch}, {"ietf-json-patch", patch.NewJSONPatch},
			{"add-public-keys", patch.NewAddPublicKeysPatch}, {"remove-public-keys", patch.NewRemovePublicKeysPatch},
			{"add-services", patch.NewAddServiceEndpointsPatch}, {"remove-services", patch.NewRemoveServiceEndpointsPatch},
			{"add-also-known-as", patch.NewAddAlsoKnownAs}, {"remove-also-known-as", patch.NewRemoveAlsoKnownAs},
		}
		type arg struct {
			label string
			v     interface{}
		}
		args := []arg{
			{"null", nil}, {"empty-list", A{}}, {"list-of-null", A{nil}}, {"strings-and-null", A{"k1", nil}},
			{"list-of-number", A{1.0}}, {"string-then-number", A{"k1", 1.0}}, {"empty-object", M{}},
			{"string", "k1"}, {"number", 1.0}, {"true", true}, {"list-of-empty-object", A{M{}}},
			{"ids", A{"k1", "k2"}}, {"id-50", A{randID(r, 50)}}, {"id-51", A{randID(r, 51)}}, {"id-with-blank", A{"bad id"}},
			{"same-id-twice", A{"k1", "k1"}}, {"empty-string-id", A{""}},
			{"uris", A{goodURIs[0], goodURIs[2]}}, {"same-uri-twice", A{goodURIs[1], goodURIs[1]}},
			{"relative-reference", A{"profile/alice"}},
			{"keys", A{validKey(r, "k1"), validKey(r, randID(r, someIDLen(r)))}},
			{"keys-same-id", A{validKey(r, "k1"), validKey(r, "k1")}},
			{"key-and-number", A{validKey(r, "k1"), 7.0}},
			{"services", A{validService(r, "s1"), validService(r, randID(r, 50))}},
			{"services-same-id", A{validService(r, "s1"), validService(r, "s1")}},
			{"replace-document", M{"publicKeys": A{validKey(r, "k1")}, "services": A{validService(r, "s1")}}},
			{"replace-keys-only", M{"publicKeys": A{validKey(r, "k1")}}},
			{"replace-forbidden-member", M{"publicKeys": A{validKey(r, "k1")}, "other": 1.0}},
			{"replace-null-lists", M{"publicKeys": nil, "services": nil}},
			{"replace-invalid-key", M{"publicKeys": A{M{"id": "k1"}}}},
			{"ietf-operations", A{M{"op": "add", "path": "/x", "value": 1.0}, M{"op": "remove", "path": "/y"}}},
			{"ietf-protected-path", A{M{"op": "remove", "path": "/publicKey/0"}}},
			{"ietf-operation-without-path", A{M{"op": "add", "value": 1.0}}},
			{"ietf-copy-then-add-below-its-source", A{M{"op": "copy", "from": "/profile", "path": "/backup"}, M{"op": "add", "path": "/profile/nick", "value": "n"}}},
			{"ietf-move-then-edit-below-its-source", A{M{"op": "move", "from": "/old", "path": "/new"}, M{"op": "add", "path": "/old/x", "value": 1.0}, M{"op": "test", "path": "/old/x", "value": 1.0}}},
		}
		for _, c := range ctors {
			for _, a := range args {
				p, err := c.f(js(a.v))
				var pj interface{}
				implCoq := "None"
				valid := false
				rtSame := true
				if err == nil {
					pb, _ := p.Bytes()
					json.Unmarshal(pb, &pj)
					implCoq = "(Some " + cJSON(normJSON(pj)) + ")"
					valid = patchvalidator.Validate(p) == nil
					// the patch parsed back from its bytes is as valid as the one that was constructed
					q, qerr := patch.FromBytes(pb)
					rtSame = (qerr == nil && patchvalidator.Validate(q) == nil) == valid
				}
				vj := normJSON(a.v)
				h := sha256.Sum256([]byte(c.action + "|" + js(a.v)))
				out = append(out, caseOut{
					Coq:    fmt.Sprintf("(mk_c14new %s %s %s %s %s %s)", cStr(c.action), cJSON(vj), urlOracle(A{a.v, pj}), implCoq, cBool(valid), cBool(rtSame)),
					Rec:    map[string]interface{}{"constructor": c.action, "argument": a.v, "impl_patch": pj, "impl_refused": err != nil, "impl_valid": valid, "as_valid_after_byte_round_trip": rtSame},
					Label:  "ctor-model:" + c.action + ":" + a.label,
					NonTri: fmt.Sprintf("%x", h[:8]),
				})
			}
		}
	}
	// the eight constructors on valid input
	for i := 0; i < 6; i++ {
		js := func(v interface{}) string { b, _ := json.Marshal(v); return string(b) }
		type ctor struct {
			label string
			p     patch.Patch
			err   error
		}
		var cs []ctor
		add := func(l string, p patch.Patch, e error) { cs = append(cs, ctor{l, p, e}) }
		p, e := patch.NewAddPublicKeysPatch(js(A{validKey(r, randID(r, someIDLen(r))), validKey(r, "k2")}))
		add("ctor:add-public-keys", p, e)
		p, e = patch.NewRemovePublicKeysPatch(js(A{randID(r, 50), "k2"}))
		add("ctor:remove-public-keys", p, e)
		p, e = patch.NewAddServiceEndpointsPatch(js(A{validService(r, randID(r, 50))}))
		add("ctor:add-services", p, e)
		p, e = patch.NewRemoveServiceEndpointsPatch(js(A{"svc1", randID(r, someIDLen(r))}))
		add("ctor:remove-services", p, e)
		p, e = patch.NewAddAlsoKnownAs(js(A{goodURIs[0], goodURIs[2]}))
		add("ctor:add-aka", p, e)
		p, e = patch.NewRemoveAlsoKnownAs(js(A{goodURIs[1]}))
		add("ctor:remove-aka", p, e)
		rel := []string{"identity1", "profile/alice", "#me", "?q=1", "//host.example/path", "urn:example:1"}[i%6]
		p, e = patch.NewAddAlsoKnownAs(js(A{rel, goodURIs[0]}))
		add("ctor:add-aka-relative-reference", p, e)
		p, e = patch.NewRemoveAlsoKnownAs(js(A{rel}))
		add("ctor:remove-aka-relative-reference", p, e)
		p, e = patch.NewReplacePatch(js(M{"publicKeys": A{validKey(r, "k1")}, "services": A{validService(r, "s1")}}))
		add("ctor:replace", p, e)
		p, e = patch.NewJSONPatch(js(A{M{"op": "add", "path": "/x", "value": 1.0}}))
		add("ctor:ietf", p, e)
		for _, c := range cs {
			valid := c.err == nil && patchvalidator.Validate(c.p) == nil
			var pj interface{}
			if c.err == nil {
				pb, _ := c.p.Bytes()
				json.Unmarshal(pb, &pj)
			}
			h := sha256.Sum256([]byte(fmt.Sprint(c.label, pj)))
			out = append(out, caseOut{
				Coq:    fmt.Sprintf("(mk_c14ctor %s %s %s)", cJSON(normJSON(pj)), urlOracle(pj), cBool(valid)),
				Rec:    map[string]interface{}{"patch": pj, "constructor_error": c.err != nil, "impl_valid": valid},
				Label:  c.label,
				NonTri: fmt.Sprintf("%x", h[:8]),
			})
		}
	}
	return out
}

func init() {
	generators["C10"] = generator{"c10case", "judge_c10", patchImports, genC10}
	generators["C11"] = generator{"c11case", "judge_c11", patchImports, genC11}
	generators["C14"] = generator{"c14case", "judge_c14", patchImports, genC14}
}
