// vstress: concurrent use of shared sidetree-go components, built with the race detector.
// Prints one JSON line per scenario: {"scenario","calls","mismatches","detail"}.
package main

import (
	"crypto/ecdsa"
	"crypto/ed25519"
	"crypto/elliptic"
	"crypto/sha256"
	"encoding/json"
	"flag"
	"fmt"
	"math/big"
	"math/rand"
	"os"
	"runtime"
	"strings"
	"sync"
	"sync/atomic"
	"time"

	"github.com/btcsuite/btcd/btcec/v2"
	ariesdid "github.com/trustbloc/did-go/doc/did"
	"github.com/trustbloc/did-go/doc/did/endpoint"
	vdrapi "github.com/trustbloc/did-go/vdr/api"
	"github.com/trustbloc/sidetree-go/pkg/api/operation"
	"github.com/trustbloc/sidetree-go/pkg/api/protocol"
	"github.com/trustbloc/sidetree-go/pkg/canonicalizer"
	"github.com/trustbloc/sidetree-go/pkg/commitment"
	"github.com/trustbloc/sidetree-go/pkg/document"
	"github.com/trustbloc/sidetree-go/pkg/encoder"
	"github.com/trustbloc/sidetree-go/pkg/hashing"
	"github.com/trustbloc/sidetree-go/pkg/patch"
	"github.com/trustbloc/sidetree-go/pkg/util/ecsigner"
	"github.com/trustbloc/sidetree-go/pkg/util/pubkey"
	"github.com/trustbloc/sidetree-go/pkg/vdr/sidetreelongform"
	"github.com/trustbloc/sidetree-go/pkg/vdr/sidetreelongform/dochandler"
	"github.com/trustbloc/sidetree-go/pkg/vdr/sidetreelongform/dochandler/protocol/nsprovider"
	"github.com/trustbloc/sidetree-go/pkg/vdr/sidetreelongform/dochandler/protocol/verprovider"
	"github.com/trustbloc/sidetree-go/pkg/vdr/sidetreelongform/dochandler/protocolversion/clientregistry"
	vcommon "github.com/trustbloc/sidetree-go/pkg/vdr/sidetreelongform/dochandler/protocolversion/versions/common"
	pcfg "github.com/trustbloc/sidetree-go/pkg/vdr/sidetreelongform/dochandler/protocolversion/versions/v1_0/config"
	"github.com/trustbloc/sidetree-go/pkg/versions/1_0/client"
	"github.com/trustbloc/sidetree-go/pkg/versions/1_0/doccomposer"
	"github.com/trustbloc/sidetree-go/pkg/versions/1_0/doctransformer/didtransformer"
	"github.com/trustbloc/sidetree-go/pkg/versions/1_0/operationapplier"
	"github.com/trustbloc/sidetree-go/pkg/versions/1_0/operationparser"
)

type result struct {
	Scenario   string `json:"scenario"`
	Calls      int    `json:"calls"`
	Mismatches int    `json:"mismatches"`
	Detail     string `json:"detail,omitempty"`
}

var emitMu sync.Mutex

func emit(r result) {
	emitMu.Lock()
	defer emitMu.Unlock()
	b, _ := json.Marshal(r)
	fmt.Println(string(b))
}

// watchdog: a scenario that makes no progress for a while (a deadlock: nothing returns any more)
// is reported as a failure of that scenario and ends the run; started per scenario, stopped when
// the scenario's goroutines have all returned
func watchdog(scenario string, calls int) func() {
	t := time.AfterFunc(90*time.Second, func() {
		emit(result{Scenario: scenario, Calls: calls, Mismatches: 1, Detail: "stalled: calls did not return within 90 s (deadlock)"})
		os.Exit(0)
	})
	return func() { t.Stop() }
}

func snap(v interface{}, err error) string {
	if err != nil {
		return "ERR"
	}
	b, e := json.Marshal(v)
	if e != nil {
		return "MARSHAL-ERR"
	}
	return string(b)
}

// mkCreate builds create requests with the library builder (inputs differ per index)
func mkCreate(i int) []byte {
	seed := make([]byte, ed25519.SeedSize)
	seed[0], seed[1] = byte(i), byte(i>>8)
	k1 := ed25519.NewKeyFromSeed(seed)
	seed[2] = 1
	k2 := ed25519.NewKeyFromSeed(seed)
	j1, _ := pubkey.GetPublicKeyJWK(k1.Public())
	j2, _ := pubkey.GetPublicKeyJWK(k2.Public())
	c1, _ := commitment.GetCommitment(j1, 18)
	c2, _ := commitment.GetCommitment(j2, 18)
	ty := []string{"JsonWebKey2020", "EcdsaSecp256k1VerificationKey2019", "Ed25519VerificationKey2018", "Bls12381G2Key2020"}[i%4]
	doc := fmt.Sprintf(`{"publicKey":[{"id":"key%d","type":%q,"purposes":["authentication"],"publicKeyJwk":{"kty":"OKP","crv":"Ed25519","x":%q}}],"service":[{"id":"svc%d","type":"T","serviceEndpoint":"https://example.com/%d"}]}`,
		i, ty, j1.X, i, i)
	b, err := client.NewCreateRequest(&client.CreateRequestInfo{OpaqueDocument: doc, RecoveryCommitment: c1, UpdateCommitment: c2, MultihashCode: 18})
	if err != nil {
		panic(err)
	}
	return b
}

// mkSignedUpdate: a DID created with P-256 / secp256k1 / P-384 operation keys and an update of it
// signed with the library's EC signer; returns the state after create and the update request
func mkSignedUpdate(applier *operationapplier.Applier, i int) (*protocol.ResolutionModel, []byte) {
	curve := []elliptic.Curve{elliptic.P256(), btcec.S256(), elliptic.P384()}[i%3]
	alg := []string{"ES256", "ES256K", "ES384"}[i%3]
	mk := func(salt int) *ecdsa.PrivateKey {
		d := big.NewInt(int64(1000003*(i+1) + 7919*salt + 11))
		x, y := curve.ScalarBaseMult(d.Bytes())
		return &ecdsa.PrivateKey{PublicKey: ecdsa.PublicKey{Curve: curve, X: x, Y: y}, D: d}
	}
	upd, rec, next := mk(1), mk(2), mk(3)
	ju, _ := pubkey.GetPublicKeyJWK(&upd.PublicKey)
	jr, _ := pubkey.GetPublicKeyJWK(&rec.PublicKey)
	jn, _ := pubkey.GetPublicKeyJWK(&next.PublicKey)
	cu, _ := commitment.GetCommitment(ju, 18)
	cr, _ := commitment.GetCommitment(jr, 18)
	cn, _ := commitment.GetCommitment(jn, 18)
	doc := fmt.Sprintf(`{"service":[{"id":"svc%d","type":"T","serviceEndpoint":"https://example.com/%d"}]}`, i, i)
	cb, err := client.NewCreateRequest(&client.CreateRequestInfo{OpaqueDocument: doc, RecoveryCommitment: cr, UpdateCommitment: cu, MultihashCode: 18})
	if err != nil {
		panic(err)
	}
	rm, err := applier.Apply(&operation.AnchoredOperation{Type: "create", OperationRequest: cb, TransactionTime: 0}, &protocol.ResolutionModel{})
	if err != nil {
		panic(err)
	}
	var req struct {
		SuffixData json.RawMessage `json:"suffixData"`
	}
	json.Unmarshal(cb, &req)
	suffix, _ := hashing.CalculateModelMultihash(req.SuffixData, 18)
	p, _ := patch.NewAddAlsoKnownAs(fmt.Sprintf(`["https://aka.example/%d"]`, i))
	rv, _ := commitment.GetRevealValue(ju, 18)
	ub, err := client.NewUpdateRequest(&client.UpdateRequestInfo{DidSuffix: suffix, Patches: []patch.Patch{p}, UpdateCommitment: cn, UpdateKey: ju,
		MultihashCode: 18, Signer: ecsigner.New(upd, alg, ""), RevealValue: rv})
	if err != nil {
		panic(err)
	}
	return rm, ub
}

// two protocol versions, the configured current one not being the latest
type versionStub struct {
	v string
	g uint64
}

func (s *versionStub) Version() string                                   { return s.v }
func (s *versionStub) Protocol() protocol.Protocol                       { return protocol.Protocol{GenesisTime: s.g} }
func (s *versionStub) OperationParser() protocol.OperationParser         { return nil }
func (s *versionStub) OperationApplier() protocol.OperationApplier       { return nil }
func (s *versionStub) DocumentValidator() protocol.DocumentValidator     { return nil }
func (s *versionStub) DocumentTransformer() protocol.DocumentTransformer { return nil }

type factoryStub struct{ id int }

func (f *factoryStub) Create(version string, _ *vcommon.ProtocolConfig) (protocol.Version, error) {
	return &vcommon.ProtocolVersion{VersionStr: fmt.Sprintf("%s#%d", version, f.id)}, nil
}

func main() {
	seed := flag.Int64("seed", 1, "seed")
	workers := flag.Int("workers", 16, "goroutines")
	calls := flag.Int("calls", 40, "calls per goroutine")
	trials := flag.Int("trials", 300, "registry trials")
	flag.Parse()
	r := rand.New(rand.NewSource(*seed))
	_ = r
	cfg := pcfg.GetProtocolConfig()
	parser := operationparser.New(cfg)
	composer := doccomposer.New()
	applier := operationapplier.New(cfg, parser, composer)
	// two method contexts: the configuration in which a shared context slice would have spare capacity
	transformer := didtransformer.New(didtransformer.WithBase(true), didtransformer.WithMethodContext([]string{"https://ctx.example/1", "https://ctx.example/2"}))
	plainTransformer := didtransformer.New()
	handler, err := dochandler.New("did:ion")
	if err != nil {
		panic(err)
	}
	n := *workers * *calls
	reqs := make([][]byte, n)
	for i := range reqs {
		reqs[i] = mkCreate(i)
	}
	// EC-signed updates on distinct DIDs (the applier verifies the signature: hashing and curve
	// arithmetic on the verification path are shared code)
	states := make([]*protocol.ResolutionModel, n)
	updates := make([][]byte, n)
	for i := range updates {
		states[i], updates[i] = mkSignedUpdate(applier, i)
	}
	type call func(i int) string
	scenarios := []struct {
		name string
		f    call
	}{
		{"parse", func(i int) string { return snap(parser.Parse("did:ion", reqs[i])) }},
		{"apply", func(i int) string {
			rm, e := applier.Apply(&operation.AnchoredOperation{Type: "create", OperationRequest: reqs[i], TransactionTime: uint64(i)}, &protocol.ResolutionModel{})
			return snap(rm, e)
		}},
		{"apply-signed-update", func(i int) string {
			rm, e := applier.Apply(&operation.AnchoredOperation{Type: "update", OperationRequest: updates[i], TransactionTime: uint64(i + 1)}, states[i])
			return snap(rm, e)
		}},
		{"compose", func(i int) string {
			p1, _ := patch.NewAddAlsoKnownAs(fmt.Sprintf(`["https://aka.example/%d"]`, i))
			p2, _ := patch.NewJSONPatch(fmt.Sprintf(`[{"op":"add","path":"/n","value":%d}]`, i))
			d, _ := document.FromBytes([]byte(fmt.Sprintf(`{"publicKey":[{"id":"k%d"}]}`, i)))
			return snap(composer.ApplyPatches(d, []patch.Patch{p1, p2}))
		}},
		{"compose-json-patch-kinds", func(i int) string {
			// every RFC 6902 operation kind, index-from-the-end forms included, on unrelated documents
			ops := []string{`[{"op":"copy","from":"/obj","path":"/copy"}]`, fmt.Sprintf(`[{"op":"add","path":"/arr/-1","value":%d}]`, i),
				`[{"op":"remove","path":"/arr/-1"}]`, `[{"op":"move","from":"/obj","path":"/moved"}]`,
				`[{"op":"test","path":"/obj/k","value":1},{"op":"replace","path":"/obj/k","value":2}]`, `[{"op":"copy","from":"/arr","path":"/arr2"},{"op":"remove","path":"/arr2/-1"}]`}[i%6]
			p, _ := patch.NewJSONPatch(ops)
			d, _ := document.FromBytes([]byte(fmt.Sprintf(`{"obj":{"k":1},"arr":[1,2,3],"n":%d}`, i)))
			return snap(composer.ApplyPatches(d, []patch.Patch{p}))
		}},
		{"transform", func(i int) string {
			ty := []string{"JsonWebKey2020", "EcdsaSecp256k1VerificationKey2019", "X25519KeyAgreementKey2019", "Bls12381G2Key2020"}[i%4]
			d, _ := document.FromBytes([]byte(fmt.Sprintf(`{"publicKey":[{"id":"k%d","type":%q,"publicKeyBase58":"abc","purposes":["keyAgreement"]}]}`, i, ty)))
			return snap(transformer.TransformDocument(&protocol.ResolutionModel{Doc: d}, protocol.TransformationInfo{"id": fmt.Sprintf("did:ion:EiD%d", i), "published": false}))
		}},
		{"resolve", func(i int) string {
			op, e := parser.Parse("did:ion", reqs[i])
			if e != nil {
				return "ERR-PARSE"
			}
			did := "did:ion:" + op.UniqueSuffix + ":" + encoder.EncodeToString(reqs[i])
			return snap(handler.ResolveDocument(did))
		}},
		{"resolve-same-suffix", func(i int) string {
			// three long-form DIDs sharing one suffix: the DID as created, the same request without its type
			// member (another canonical initial state) and a foreign initial state - resolved one after the
			// other, then all at the same moment; each call must get the answer it gets on its own
			base := reqs[i]
			op, e := parser.Parse("did:ion", base)
			if e != nil {
				return "ERR-PARSE"
			}
			var m map[string]json.RawMessage
			json.Unmarshal(base, &m)
			delete(m, "type")
			nb, _ := canonicalizer.MarshalCanonical(m)
			dids := []string{"did:ion:" + op.UniqueSuffix + ":" + encoder.EncodeToString(base), "did:ion:" + op.UniqueSuffix + ":" + encoder.EncodeToString(nb),
				"did:ion:" + op.UniqueSuffix + ":" + encoder.EncodeToString(reqs[(i+1)%len(reqs)])}
			alone := make([]string, len(dids))
			for k, d := range dids {
				alone[k] = snap(handler.ResolveDocument(d))
			}
			const reps = 4
			together := make([]string, len(dids)*reps)
			start := make(chan struct{})
			var wg sync.WaitGroup
			for k := range together {
				wg.Add(1)
				go func(k int) {
					defer wg.Done()
					<-start
					together[k] = snap(handler.ResolveDocument(dids[k%len(dids)]))
				}(k)
			}
			close(start)
			wg.Wait()
			for k := range together {
				if together[k] != alone[k%len(dids)] {
					return fmt.Sprintf("call for DID %d got another answer when made together with the others", k%len(dids))
				}
			}
			return fmt.Sprintf("each call answered as on its own: %.40s", alone[0])
		}},
		{"process", func(i int) string { return snap(handler.ProcessOperation(reqs[i])) }},
		{"transform-absolute-ids", func(i int) string {
			// a shared transformer made without the base option writes the DID into every nested id
			d, _ := document.FromBytes([]byte(fmt.Sprintf(`{"publicKey":[{"id":"k%d","type":"JsonWebKey2020","publicKeyJwk":{"kty":"EC","crv":"P-256","x":"PUymIqdtF_qxaAqPABSw-C-owT1KYYQbsMKFM-L9fJA","y":"nM84jDHCMOTGTh_ZdHq4dBBdo4Z5PkEOW9jA8z8IsGc"},"purposes":["authentication","assertionMethod","keyAgreement"]},{"id":"g%d","type":"JsonWebKey2020","publicKeyJwk":{"kty":"EC","crv":"P-256","x":"PUymIqdtF_qxaAqPABSw-C-owT1KYYQbsMKFM-L9fJA","y":"nM84jDHCMOTGTh_ZdHq4dBBdo4Z5PkEOW9jA8z8IsGc"}}],"service":[{"id":"s%d","type":"T","serviceEndpoint":"https://svc.example/%d"}]}`, i, i, i, i)))
			return snap(plainTransformer.TransformDocument(&protocol.ResolutionModel{Doc: d}, protocol.TransformationInfo{"id": fmt.Sprintf("did:ion:EiD%d", i), "published": false}))
		}},
		{"canonicalize-deep", func(i int) string {
			// documents nested thousands of levels (each within the limit of 10 000 on its own); every
			// eighth call, so that the goroutines meet in them at the same moments (a deep document costs
			// time quadratic in its depth)
			if i%8 != 0 {
				return "shallow"
			}
			depth := 3000 + 500*((i/8)%7)
			doc := strings.Repeat(`{"a":[`, depth/2) + fmt.Sprintf("%d", i) + strings.Repeat(`]}`, depth/2)
			b, e := canonicalizer.MarshalCanonical([]byte(doc))
			if e != nil {
				return "ERR:" + e.Error()
			}
			h := sha256.Sum256(b)
			return fmt.Sprintf("%d:%x", len(b), h[:8])
		}},
	}
	// calls that fail (error paths release pooled or cached resources too): made before the
	// concurrent phase and interleaved with it
	failing := func(i int) {
		canonicalizer.MarshalCanonical(map[string]interface{}{"c": make(chan int)})
		client.NewCreateRequest(&client.CreateRequestInfo{OpaqueDocument: `{"a":1}`, AnchorOrigin: make(chan int), MultihashCode: 18,
			RecoveryCommitment: "x", UpdateCommitment: "y"})
		parser.Parse("did:ion", []byte(fmt.Sprintf(`{"type":"create","suffixData":%d}`, i)))
		applier.Apply(&operation.AnchoredOperation{Type: "update", OperationRequest: []byte("{}")}, &protocol.ResolutionModel{})
		handler.ResolveDocument(fmt.Sprintf("did:ion:EiBad%d:e30", i))
		handler.ProcessOperation([]byte("[]"))
	}
	for _, sc := range scenarios {
		expected := make([]string, n)
		for i := 0; i < n; i++ {
			expected[i] = sc.f(i)
		}
		failing(0)
		got := make([]string, n)
		stop := watchdog(sc.name, n)
		var wg sync.WaitGroup
		for w := 0; w < *workers; w++ {
			wg.Add(1)
			go func(w int) {
				defer wg.Done()
				for c := 0; c < *calls; c++ {
					i := w**calls + c
					if i%5 == 2 {
						failing(i)
					}
					got[i] = sc.f(i)
				}
			}(w)
		}
		wg.Wait()
		stop()
		mism, detail := 0, ""
		for i := range got {
			if got[i] != expected[i] {
				mism++
				if detail == "" {
					detail = fmt.Sprintf("call %d: sequential %.200s concurrent %.200s", i, expected[i], got[i])
				}
			}
		}
		emit(result{Scenario: sc.name, Calls: n, Mismatches: mism, Detail: detail})
	}
	// version provider: the very first lookups of the current version, made concurrently
	{
		stopWD := watchdog("verprovider", 0)
		var mism64 int64
		for t := 0; t < *trials*10; t++ {
			vp, err := verprovider.New([]protocol.Version{&versionStub{"0.5", 5}, &versionStub{"0.6", 9}}, verprovider.WithCurrentProtocolVersion("0.5"))
			if err != nil {
				panic(err)
			}
			var wg sync.WaitGroup
			start := make(chan struct{})
			for w := 0; w < 4; w++ {
				wg.Add(1)
				go func() {
					defer wg.Done()
					defer func() {
						if recover() != nil {
							atomic.AddInt64(&mism64, 1)
						}
					}()
					<-start
					cur, e := vp.Current()
					if e != nil || cur == nil || cur.Version() != "0.5" {
						atomic.AddInt64(&mism64, 1)
					}
					if g, e := vp.Get(9); e != nil || g.Version() != "0.6" {
						atomic.AddInt64(&mism64, 1)
					}
				}()
			}
			close(start)
			wg.Wait()
		}
		d := ""
		if mism64 > 0 {
			d = "a concurrent first lookup did not return the configured current version"
		}
		stopWD()
		emit(result{Scenario: "verprovider", Calls: *trials * 10 * 8, Mismatches: int(mism64), Detail: d})
	}
	// registries: concurrent registration and lookup behave as if performed one at a time
	{
		stopWD := watchdog("nsprovider", 0)
		var mism64 int64
		detail := ""
		for t := 0; t < *trials; t++ {
			ns := nsprovider.New()
			var wg sync.WaitGroup
			for w := 0; w < *workers; w++ {
				wg.Add(1)
				go func(w int) {
					defer wg.Done()
					name := fmt.Sprintf("did:ns%d", w%4)
					ns.Add(name, nil)
					if _, e := ns.ForNamespace(name); e != nil {
						atomic.AddInt64(&mism64, 1) // a namespace added by this goroutine must be found by it
					}
					ns.ForNamespace("did:other")
				}(w)
			}
			wg.Wait()
			for w := 0; w < 4; w++ {
				if _, e := ns.ForNamespace(fmt.Sprintf("did:ns%d", w)); e != nil {
					atomic.AddInt64(&mism64, 1)
					detail = "namespace lost"
				}
			}
		}
		stopWD()
		emit(result{Scenario: "nsprovider", Calls: *trials * *workers * 3, Mismatches: int(mism64), Detail: detail})
	}
	{
		stopWD := watchdog("clientregistry", 0)
		mism, detail := 0, ""
		for t := 0; t < *trials*20; t++ {
			reg := clientregistry.New()
			var wg sync.WaitGroup
			var mu sync.Mutex
			winners := []int{}
			start := make(chan struct{})
			const k = 8
			for w := 0; w < k; w++ {
				wg.Add(1)
				go func(w int) {
					defer wg.Done()
					<-start
					ok := true
					func() {
						defer func() {
							if recover() != nil {
								ok = false
							}
						}()
						reg.Register("7.0", &factoryStub{id: w})
					}()
					if ok {
						mu.Lock()
						winners = append(winners, w)
						mu.Unlock()
					}
					reg.CreateClientVersion("1.0", &vcommon.ProtocolConfig{})
				}(w)
			}
			close(start)
			wg.Wait()
			// exactly one registration of the same version succeeds, and it is the one that is stored
			v, e := reg.CreateClientVersion("7.0", &vcommon.ProtocolConfig{})
			if len(winners) != 1 || e != nil || v.Version() != fmt.Sprintf("7.0#%d", winners[0]) {
				mism++
				if detail == "" {
					detail = fmt.Sprintf("trial %d: %d registrations of one version succeeded", t, len(winners))
				}
			}
		}
		stopWD()
		emit(result{Scenario: "clientregistry", Calls: *trials * 20 * 8 * 2, Mismatches: mism, Detail: detail})
	}
	// VDR: many Create calls in flight on one VDR at the same moment (each is held, inside Create, until
	// all have been entered), and Read calls next to them: every call returns, with the DID that the same
	// call gives alone
	{
		const inflight = 48
		stopWD := watchdog("vdr-simultaneous-creates", inflight)
		v, err := sidetreelongform.New()
		if err != nil {
			panic(err)
		}
		mkDoc := func(i int) *ariesdid.Doc {
			return &ariesdid.Doc{Service: []ariesdid.Service{{ID: fmt.Sprintf("svc%d", i), Type: "type",
				ServiceEndpoint: endpoint.NewDIDCommV1Endpoint(fmt.Sprintf("https://example.com/%d", i))}}}
		}
		keyOpts := func(i int) []vdrapi.DIDMethodOption {
			seed := make([]byte, ed25519.SeedSize)
			seed[0], seed[1] = byte(i), 7
			k1 := ed25519.NewKeyFromSeed(seed)
			seed[2] = 1
			k2 := ed25519.NewKeyFromSeed(seed)
			return []vdrapi.DIDMethodOption{vdrapi.WithOption(sidetreelongform.UpdatePublicKeyOpt, k1.Public().(ed25519.PublicKey)),
				vdrapi.WithOption(sidetreelongform.RecoveryPublicKeyOpt, k2.Public().(ed25519.PublicKey))}
		}
		expected := make([]string, inflight)
		for i := range expected {
			if res, e := v.Create(mkDoc(i), keyOpts(i)...); e == nil && res != nil && res.DIDDocument != nil {
				expected[i] = res.DIDDocument.ID
			}
		}
		var entered sync.WaitGroup
		entered.Add(inflight)
		hold := func(*vdrapi.DIDMethodOpts) {
			entered.Done()
			entered.Wait()
		}
		got := make([]string, inflight)
		var wg sync.WaitGroup
		for i := 0; i < inflight; i++ {
			wg.Add(1)
			go func(i int) {
				defer wg.Done()
				defer func() { recover() }()
				if res, e := v.Create(mkDoc(i), append(keyOpts(i), hold)...); e == nil && res != nil && res.DIDDocument != nil {
					got[i] = res.DIDDocument.ID
				}
				if expected[i] != "" {
					if rd, e := v.Read(expected[i]); e != nil || rd == nil || rd.DIDDocument == nil || rd.DIDDocument.ID != expected[i] {
						got[i] = "read failed"
					}
				}
			}(i)
		}
		wg.Wait()
		stopWD()
		mism, detail := 0, ""
		for i := range got {
			if got[i] != expected[i] || got[i] == "" {
				mism++
				if detail == "" {
					detail = fmt.Sprintf("create %d: alone %.80s, with %d others in flight %.80s", i, expected[i], inflight-1, got[i])
				}
			}
		}
		emit(result{Scenario: "vdr-simultaneous-creates", Calls: 2 * inflight, Mismatches: mism, Detail: detail})
	}
	fmt.Fprintf(os.Stderr, "vstress done GOMAXPROCS=%d\n", runtime.GOMAXPROCS(0))
}
