package main

// C13: patch validation constraints. Valid patch of every action x one labelled mutation per
// constraint; ground truth (expect) attached by the generator; net/url verdicts as oracle.

import (
	"crypto/sha256"
	"encoding/json"
	"fmt"
	"math/rand"
	"net/url"
	"sort"
	"strings"

	"github.com/trustbloc/sidetree-go/pkg/patch"
	"github.com/trustbloc/sidetree-go/pkg/versions/1_0/docvalidator/didvalidator"
	"github.com/trustbloc/sidetree-go/pkg/versions/1_0/docvalidator/docvalidator"
	"github.com/trustbloc/sidetree-go/pkg/versions/1_0/operationparser/patchvalidator"
)

const patchImports = "From Coq Require Import ZArith NArith String List.\nFrom Sidetree Require Import Base.Hex Json.Json Harness.Runner Harness.PatchCases.\nImport ListNotations.\nOpen Scope string_scope.\n"

type M = map[string]interface{}
type A = []interface{}

var allKeyTypes = []string{"Bls12381G2Key2020", "JsonWebKey2020", "EcdsaSecp256k1VerificationKey2019",
	"Ed25519VerificationKey2018", "Ed25519VerificationKey2020", "X25519KeyAgreementKey2019"}
var allPurposes = []string{"authentication", "assertionMethod", "keyAgreement", "capabilityDelegation", "capabilityInvocation"}

func typeAllowed(ty, purpose string) bool {
	if purpose == "keyAgreement" {
		return ty == "Bls12381G2Key2020" || ty == "JsonWebKey2020" || ty == "EcdsaSecp256k1VerificationKey2019" || ty == "X25519KeyAgreementKey2019"
	}
	return ty != "X25519KeyAgreementKey2019"
}

const idAlphabet = "ABCDEFGHIJKLMNOPQRSTUVWXYZabcdefghijklmnopqrstuvwxyz0123456789_-"

func randID(r *rand.Rand, n int) string {
	b := make([]byte, n)
	for i := range b {
		b[i] = idAlphabet[r.Intn(len(idAlphabet))]
	}
	return string(b)
}

func someIDLen(r *rand.Rand) int { return []int{1, 50, 2, 49, 3 + r.Intn(20)}[r.Intn(5)] }

func validJWK(r *rand.Rand) M {
	switch r.Intn(3) {
	case 0:
		return M{"kty": "EC", "crv": "P-256", "x": randID(r, 43), "y": randID(r, 43)}
	case 1:
		return M{"kty": "OKP", "crv": "Ed25519", "x": randID(r, 43)}
	default:
		return M{"kty": "RSA", "n": randID(r, 20), "e": "AQAB"}
	}
}

func validKey(r *rand.Rand, id string) M {
	ty := allKeyTypes[r.Intn(len(allKeyTypes))]
	k := M{"id": id, "type": ty}
	if ty != "JsonWebKey2020" && r.Intn(2) == 0 {
		k["publicKeyBase58"] = randID(r, 30)
	} else {
		k["publicKeyJwk"] = validJWK(r)
	}
	if r.Intn(4) != 0 {
		var ps A
		for _, p := range allPurposes {
			if typeAllowed(ty, p) && r.Intn(2) == 0 {
				ps = append(ps, p)
			}
		}
		if len(ps) > 0 {
			k["purposes"] = ps
		}
	}
	return k
}

var goodURIs = []string{"https://example.com/a", "http://a.example:8080/p?q=1", "did:example:123", "/relative/path", "https://example.com/%20x", "urn:uuid:1234"}
var badURIs = []string{"", "not a uri", "a b", "%zz", "http://[::1", ":nope"}

func validService(r *rand.Rand, id string) M {
	s := M{"id": id, "type": randID(r, []int{1, 30, 5}[r.Intn(3)])}
	switch r.Intn(5) {
	case 0:
		s["serviceEndpoint"] = A{goodURIs[r.Intn(len(goodURIs))], goodURIs[r.Intn(len(goodURIs))]}
	case 1:
		s["serviceEndpoint"] = M{"uri": "anything goes in objects"}
	case 2:
		s["serviceEndpoint"] = A{M{"uri": "x y"}, goodURIs[r.Intn(len(goodURIs))], 5.0}
	default:
		s["serviceEndpoint"] = goodURIs[r.Intn(len(goodURIs))]
	}
	if r.Intn(3) == 0 {
		s["priority"] = 1.0
	}
	return s
}

type pcase struct {
	label  string
	patch  interface{}
	expect bool
}

func copyM(m M) M {
	b, _ := json.Marshal(m)
	var o M
	json.Unmarshal(b, &o)
	return o
}

func keyCases(r *rand.Rand, wrap func(keys A) interface{}) []pcase {
	var out []pcase
	k1 := validKey(r, randID(r, someIDLen(r)))
	k2 := validKey(r, randID(r, 1+r.Intn(20))+"b")
	out = append(out, pcase{"valid", wrap(A{k1, k2}), true})
	mut := func(label string, f func(k M)) {
		k := copyM(k1)
		f(k)
		keys := A{k}
		if r.Intn(2) == 0 {
			keys = A{k2, k}
		}
		out = append(out, pcase{label, wrap(keys), false})
	}
	mut("key-id-empty", func(k M) { k["id"] = "" })
	mut("key-id-51", func(k M) { k["id"] = randID(r, 51) })
	mut("key-id-bad-char", func(k M) { k["id"] = "ab" + []string{" ", ".", "é", "#", "/", "\n"}[r.Intn(6)] + "c" })
	// every printable ASCII character outside [A-Za-z0-9_-], at the start, inside and at the end of an id
	for c := 0x20; c < 0x7f; c++ {
		ch := string(rune(c))
		if (c >= '0' && c <= '9') || (c >= 'A' && c <= 'Z') || (c >= 'a' && c <= 'z') || c == '_' || c == '-' {
			continue
		}
		id := []string{ch + "ab", "a" + ch + "b", "ab" + ch}[c%3]
		mut(fmt.Sprintf("key-id-char-0x%02x", c), func(k M) { k["id"] = id })
	}
	mut("key-id-trailing-newline", func(k M) { k["id"] = "abc\n" })
	mut("key-id-not-string", func(k M) { k["id"] = 5.0 })
	mut("key-missing-id", func(k M) { delete(k, "id") })
	mut("key-missing-type", func(k M) { delete(k, "type") })
	mut("key-both-materials", func(k M) { k["publicKeyJwk"] = validJWK(r); k["publicKeyBase58"] = "abc" })
	mut("key-no-material", func(k M) { delete(k, "publicKeyJwk"); delete(k, "publicKeyBase58") })
	// both material members present, one of them holding nothing usable: still two members
	for _, lv := range []struct {
		label string
		v     interface{}
	}{{"null", nil}, {"empty-string", ""}, {"number", 7.0}, {"array", A{}}, {"object", M{}}} {
		v := lv.v
		mut("key-both-materials-base58-"+lv.label, func(k M) {
			k["type"] = "JsonWebKey2020"
			k["publicKeyJwk"] = validJWK(r)
			k["publicKeyBase58"] = v
		})
		mut("key-both-materials-jwk-"+lv.label, func(k M) {
			k["type"] = "Ed25519VerificationKey2018"
			delete(k, "purposes")
			k["publicKeyBase58"] = "GY4GunSXBPBfhLCzDL7iGmP5dR3sBDCJZkkaGK8VgYQf"
			k["publicKeyJwk"] = v
		})
	}
	mut("key-unknown-member", func(k M) { k[[]string{"controller", "publicKeyMultibase", "x"}[r.Intn(3)]] = "v" })
	mut("key-purposes-empty", func(k M) { k["purposes"] = A{} })
	mut("key-purposes-not-array", func(k M) { k["purposes"] = "authentication" })
	// a purposes array without a single purpose in it: present, so it must be non-empty and known
	for _, lv := range []struct {
		label string
		v     A
	}{{"number", A{1.0}}, {"null", A{nil}}, {"bool", A{true}}, {"object", A{M{"purpose": "authentication"}}},
		{"nested-array", A{A{"authentication"}}}, {"two-non-strings", A{nil, 2.0}}} {
		v := lv.v
		mut("key-purposes-only-"+lv.label, func(k M) {
			k["type"] = "JsonWebKey2020" // a type that needs no purpose, so nothing else is wrong with the key
			delete(k, "publicKeyBase58")
			k["publicKeyJwk"] = validJWK(r)
			k["purposes"] = v
		})
	}
	mut("key-purposes-six", func(k M) {
		k["type"] = "JsonWebKey2020"
		delete(k, "publicKeyBase58")
		k["publicKeyJwk"] = validJWK(r)
		k["purposes"] = A{"authentication", "assertionMethod", "keyAgreement", "capabilityDelegation", "capabilityInvocation", "authentication"}
	})
	mut("key-purpose-unknown", func(k M) { k["purposes"] = A{"authentication", "signing"} })
	mut("key-type-unknown", func(k M) { k["type"] = "RsaVerificationKey2018" })
	mut("key-type-not-string", func(k M) { k["type"] = 7.0 })
	// every forbidden (type, purpose) pair
	for _, ty := range allKeyTypes {
		for _, p := range allPurposes {
			if !typeAllowed(ty, p) {
				ty, p := ty, p
				mut("key-type-purpose:"+ty+"/"+p, func(k M) {
					k["type"] = ty
					delete(k, "publicKeyBase58")
					k["publicKeyJwk"] = validJWK(r)
					k["purposes"] = A{p}
				})
			}
		}
	}
	// several purposes of which a later one is not permitted for the type (the first is)
	for _, ty := range allKeyTypes {
		var okP, badP []string
		for _, p := range allPurposes {
			if typeAllowed(ty, p) {
				okP = append(okP, p)
			} else {
				badP = append(badP, p)
			}
		}
		if len(okP) == 0 || len(badP) == 0 {
			continue
		}
		ty := ty
		for _, ps := range []A{{okP[0], badP[0]}, {okP[len(okP)-1], okP[0], badP[len(badP)-1]}, {okP[0], badP[0], okP[0]}} {
			ps := ps
			mut(fmt.Sprintf("key-type-later-purpose:%s/%v", ty, ps), func(k M) {
				k["type"] = ty
				delete(k, "publicKeyBase58")
				k["publicKeyJwk"] = validJWK(r)
				k["purposes"] = ps
			})
		}
	}
	// malformed JWK for every key type
	for _, ty := range allKeyTypes {
		ty := ty
		bad := []M{{"crv": "P-256", "x": "a"}, {"kty": "EC", "x": "a"}, {"kty": "EC", "crv": "P-256"}, {"kty": "RSA", "n": "a"}, {"kty": "RSA", "e": "a"}, {}, {"kty": 5.0, "crv": "c", "x": "x"}}
		b := bad[r.Intn(len(bad))]
		mut("key-jwk-malformed:"+ty, func(k M) {
			k["type"] = ty
			delete(k, "publicKeyBase58")
			delete(k, "purposes")
			k["publicKeyJwk"] = b
		})
	}
	// the key type name is compared as written: "RSA" in another letter case is some other type,
	// judged by crv / x (every shape, every run)
	for j, v := range []struct {
		jwk   M
		valid bool
	}{{M{"kty": "rsa", "n": "AQAB", "e": "AQAB"}, false}, {M{"kty": "Rsa", "n": "AQAB", "e": "AQAB"}, false},
		{M{"kty": "rsa", "crv": "P-256", "x": "AQ", "y": "Ag"}, true}, {M{"kty": "RSA ", "crv": "P-256", "x": "AQ"}, true},
		{M{"kty": "RSA", "n": "AQAB", "e": "AQAB"}, true}, {M{"kty": "RSA", "crv": "P-256", "x": "AQ"}, false},
		{M{"kty": "RSA", "n": "AQAB", "e": "AQAB", "crv": "", "x": ""}, true}, {M{"kty": "ec", "crv": "P-256", "x": "AQ", "y": "Ag"}, true}} {
		k := copyM(k1)
		k["type"] = "JsonWebKey2020"
		delete(k, "publicKeyBase58")
		k["publicKeyJwk"] = v.jwk
		out = append(out, pcase{fmt.Sprintf("key-jwk-kty-spelling-%d", j), wrap(A{k}), v.valid})
	}
	// key material under a member name the protocol does not know (with and without the known ones)
	for j, ty := range []string{"Ed25519VerificationKey2018", "Ed25519VerificationKey2020", "EcdsaSecp256k1VerificationKey2019", "X25519KeyAgreementKey2019", "JsonWebKey2020"} {
		ty := ty
		mut(fmt.Sprintf("key-multibase-only-%d", j), func(k M) {
			k["type"] = ty
			delete(k, "publicKeyJwk")
			delete(k, "publicKeyBase58")
			delete(k, "purposes")
			k["publicKeyMultibase"] = "z6MkhaXgBZDvotDkL5257faiztiGiC2QtKLGpbnnEGta2doK"
		})
		mut(fmt.Sprintf("key-multibase-next-to-base58-%d", j), func(k M) {
			k["type"] = ty
			delete(k, "publicKeyJwk")
			delete(k, "purposes")
			k["publicKeyBase58"] = "GY4GunSXBPBfhLCzDL7iGmP5dR3sBDCJZkkaGK8VgYQf"
			k["publicKeyMultibase"] = "z6MkhaXgBZDvotDkL5257faiztiGiC2QtKLGpbnnEGta2doK"
		})
	}
	mut("key-jwk-not-object", func(k M) { delete(k, "publicKeyBase58"); k["publicKeyJwk"] = "jwk" })
	mut("key-base58-with-jsonwebkey2020", func(k M) {
		k["type"] = "JsonWebKey2020"
		delete(k, "publicKeyJwk")
		delete(k, "purposes")
		k["publicKeyBase58"] = "abc"
	})
	mut("key-base58-empty", func(k M) {
		k["type"] = "Ed25519VerificationKey2018"
		delete(k, "publicKeyJwk")
		delete(k, "purposes")
		k["publicKeyBase58"] = ""
	})
	// duplicate ids within the patch
	kd := copyM(k2)
	kd["id"] = k1["id"]
	out = append(out, pcase{"key-duplicate-id", wrap(A{k1, kd}), false})
	// the same id twice, for every combination of key material kinds and at a distance
	b58 := func(id string) M {
		return M{"id": id, "type": "Ed25519VerificationKey2018", "publicKeyBase58": "GY4GunSXBPBfhLCzDL7iGmP5dR3sBDCJZkkaGK8VgYQf"}
	}
	jwk := func(id string) M { return M{"id": id, "type": "JsonWebKey2020", "publicKeyJwk": validJWK(r)} }
	out = append(out, pcase{"key-duplicate-id-base58-base58", wrap(A{b58("dup"), b58("dup")}), false},
		pcase{"key-duplicate-id-base58-jwk", wrap(A{b58("dup"), jwk("dup")}), false},
		pcase{"key-duplicate-id-jwk-base58", wrap(A{jwk("dup"), b58("dup")}), false},
		pcase{"key-duplicate-id-jwk-jwk", wrap(A{jwk("dup"), jwk("dup")}), false},
		pcase{"key-duplicate-id-first-and-last-of-four", wrap(A{b58("dup"), jwk("o1"), b58("o2"), jwk("dup")}), false},
		pcase{"key-four-distinct-mixed", wrap(A{b58("d1"), jwk("d2"), b58("d3"), jwk("d4")}), true})
	// full allowed matrix: single purpose per allowed pair
	for _, ty := range allKeyTypes {
		for _, p := range allPurposes {
			if typeAllowed(ty, p) && r.Intn(3) == 0 {
				k := M{"id": randID(r, 5), "type": ty, "publicKeyJwk": validJWK(r), "purposes": A{p}}
				out = append(out, pcase{"valid-pair:" + ty + "/" + p, wrap(A{k}), true})
			}
		}
	}
	return out
}

func serviceCases(r *rand.Rand, wrap func(s A) interface{}) []pcase {
	var out []pcase
	s1 := validService(r, randID(r, someIDLen(r)))
	s2 := validService(r, randID(r, 4)+"z")
	out = append(out, pcase{"valid", wrap(A{s1, s2}), true})
	mut := func(label string, f func(s M)) {
		s := copyM(s1)
		f(s)
		l := A{s}
		if r.Intn(2) == 0 {
			l = A{s2, s}
		}
		out = append(out, pcase{label, wrap(l), false})
	}
	mut("service-id-empty", func(s M) { s["id"] = "" })
	mut("service-id-missing", func(s M) { delete(s, "id") })
	mut("service-id-51", func(s M) { s["id"] = randID(r, 51) })
	mut("service-id-bad-char", func(s M) { s["id"] = "a" + []string{" ", ":", "é", "+"}[r.Intn(4)] })
	for _, ch := range []string{"[", "\\", "]", "^", "`", "@", "{", "~"} {
		ch := ch
		mut("service-id-char:"+ch, func(s M) { s["id"] = "a" + ch + "b" })
	}
	mut("service-type-empty", func(s M) { s["type"] = "" })
	mut("service-type-missing", func(s M) { delete(s, "type") })
	mut("service-type-31", func(s M) { s["type"] = randID(r, 31) })
	// the limit counts every character of the type as given, white space included
	mut("service-type-30-plus-trailing-blank", func(s M) { s["type"] = randID(r, 30) + " " })
	mut("service-type-leading-blank-plus-30", func(s M) { s["type"] = "\t" + randID(r, 30) })
	mut("service-type-13-plus-18-blanks", func(s M) { s["type"] = "LinkedDomains" + strings.Repeat(" ", 18) })
	mut("service-endpoint-missing", func(s M) { delete(s, "serviceEndpoint") })
	mut("service-endpoint-null", func(s M) { s["serviceEndpoint"] = nil })
	for _, b := range badURIs[:4] {
		b := b
		mut("service-endpoint-bad-uri", func(s M) { s["serviceEndpoint"] = b })
		mut("service-endpoint-list-bad-first", func(s M) { s["serviceEndpoint"] = A{b, goodURIs[0]} })
		mut("service-endpoint-list-bad-later", func(s M) { s["serviceEndpoint"] = A{goodURIs[1], b} })
		mut("service-endpoint-list-bad-after-object", func(s M) { s["serviceEndpoint"] = A{M{"uri": goodURIs[0]}, b} })
	}
	sd := copyM(s2)
	sd["id"] = s1["id"]
	out = append(out, pcase{"service-duplicate-id", wrap(A{s1, sd}), false})
	ok := copyM(s1)
	ok["type"] = randID(r, 30)
	ok["id"] = randID(r, 50)
	out = append(out, pcase{"valid-boundary-lengths", wrap(A{ok}), true})
	for i, ty := range []string{" ", strings.Repeat(" ", 30), "Linked Domains", " x", "x ", randID(r, 28) + "  "} {
		okb := copyM(s1)
		okb["type"] = ty
		out = append(out, pcase{fmt.Sprintf("valid-type-with-blanks-%d", i), wrap(A{okb}), true})
	}
	return out
}

func genPatchCases(r *rand.Rand) []pcase {
	var out []pcase
	add := func(prefix string, cs []pcase) {
		for _, c := range cs {
			c.label = prefix + ":" + c.label
			out = append(out, c)
		}
	}
	add("add-public-keys", keyCases(r, func(k A) interface{} { return M{"action": "add-public-keys", "publicKeys": k} }))
	add("add-services", serviceCases(r, func(s A) interface{} { return M{"action": "add-services", "services": s} }))
	add("replace-keys", keyCases(r, func(k A) interface{} {
		return M{"action": "replace", "document": M{"publicKeys": k, "services": A{validService(r, "svc1")}}}
	}))
	add("replace-services", serviceCases(r, func(s A) interface{} {
		return M{"action": "replace", "document": M{"services": s}}
	}))
	out = append(out,
		pcase{"replace:valid-empty-document", M{"action": "replace", "document": M{}}, true},
		pcase{"replace:extra-member", M{"action": "replace", "document": M{"publicKeys": A{validKey(r, "k1")}, "alsoKnownAs": A{"x"}}}, false},
		// a replace document holding no key and no service entry at all, and a member it may not have
		pcase{"replace:only-a-forbidden-member-id", M{"action": "replace", "document": M{"id": "did:example:123"}}, false},
		pcase{"replace:only-a-forbidden-member-publicKey", M{"action": "replace", "document": M{"publicKey": A{validKey(r, "k1")}}}, false},
		pcase{"replace:empty-lists-and-a-forbidden-member", M{"action": "replace", "document": M{"publicKeys": A{}, "services": A{}, "alsoKnownAs": A{"https://a.example"}}}, false},
		pcase{"replace:null-lists-and-a-forbidden-member", M{"action": "replace", "document": M{"publicKeys": nil, "services": nil, "note": "x"}}, false},
		pcase{"replace:non-object-entries-and-a-forbidden-member", M{"action": "replace", "document": M{"publicKeys": A{"junk"}, "extra": 1.0}}, false},
		pcase{"replace:empty-lists", M{"action": "replace", "document": M{"publicKeys": A{}, "services": A{}}}, true},
		pcase{"replace:document-not-object", M{"action": "replace", "document": A{}}, false},
		pcase{"replace:missing-document", M{"action": "replace"}, false},
	)
	for _, act := range []string{"remove-public-keys", "remove-services"} {
		out = append(out,
			pcase{act + ":valid", M{"action": act, "ids": A{randID(r, 1), randID(r, 50), randID(r, 7)}}, true},
			pcase{act + ":empty-list", M{"action": act, "ids": A{}}, false},
			pcase{act + ":not-a-list", M{"action": act, "ids": "k1"}, false},
			pcase{act + ":missing-ids", M{"action": act}, false},
			pcase{act + ":id-51", M{"action": act, "ids": A{"ok", randID(r, 51)}}, false},
			pcase{act + ":id-empty", M{"action": act, "ids": A{"", "ok"}}, false},
			pcase{act + ":id-bad-char", M{"action": act, "ids": A{"ok", "not ok"}}, false},
			pcase{act + ":id-bracket", M{"action": act, "ids": A{"ok", "a[b"}}, false},
			pcase{act + ":id-backslash", M{"action": act, "ids": A{"a\\b"}}, false},
			pcase{act + ":id-caret", M{"action": act, "ids": A{"ok", "ok2", "^"}}, false},
			pcase{act + ":id-backtick", M{"action": act, "ids": A{"`x"}}, false},
			pcase{act + ":id-close-bracket", M{"action": act, "ids": A{"x]"}}, false},
		)
	}
	for _, act := range []string{"add-also-known-as", "remove-also-known-as"} {
		out = append(out,
			pcase{act + ":valid", M{"action": act, "uris": A{goodURIs[r.Intn(3)], goodURIs[3+r.Intn(3)]}}, true},
			pcase{act + ":empty-list", M{"action": act, "uris": A{}}, false},
			pcase{act + ":duplicate", M{"action": act, "uris": A{goodURIs[0], goodURIs[1], goodURIs[0]}}, false},
			pcase{act + ":duplicate-by-normal-form", M{"action": act, "uris": A{"HTTP://Example.com/x", "http://Example.com/x"}}, false},
			pcase{act + ":unparsable", M{"action": act, "uris": A{goodURIs[0], []string{"%zz", "http://[::1", ":nope"}[r.Intn(3)]}}, false},
		)
	}
	jp := func(ops ...interface{}) interface{} { return M{"action": "ietf-json-patch", "patches": A(ops)} }
	op := func(kind, path string, extra M) M {
		m := M{"op": kind, "path": path}
		for k, v := range extra {
			m[k] = v
		}
		return m
	}
	out = append(out,
		pcase{"ietf:valid", jp(op("add", "/other", M{"value": 1.0}), op("remove", "/x/0", nil), op("copy", "/b", M{"from": "/a"}), op("test", "/a", M{"value": "v"})), true},
		pcase{"ietf:valid-sibling-name", jp(op("add", "/publicKe", M{"value": 1.0}), op("add", "/servic", M{"value": 1.0})), true},
		// operations after a move / copy are judged on their own members: a location below the source of
		// an earlier copy or move, the source itself, the target
		pcase{"ietf:copy-then-add-below-its-source", jp(op("copy", "/backup", M{"from": "/profile"}), op("add", "/profile/nick", M{"value": "n"})), true},
		pcase{"ietf:move-then-add-below-its-source", jp(op("move", "/new", M{"from": "/old"}), op("add", "/old/x", M{"value": 1.0}), op("remove", "/old", nil)), true},
		pcase{"ietf:copy-then-test-replace-remove-below-its-source", jp(op("copy", "/b", M{"from": "/a"}), op("test", "/a/k", M{"value": 1.0}), op("replace", "/a/k", M{"value": 2.0}), op("remove", "/a/k/deep", nil)), true},
		pcase{"ietf:copy-into-its-own-child", jp(op("copy", "/a/child", M{"from": "/a"})), true},
		pcase{"ietf:move-into-its-own-child", jp(op("move", "/a/child/deeper", M{"from": "/a"})), true},
		pcase{"ietf:empty-list", jp(), false},
		pcase{"ietf:not-a-list", M{"action": "ietf-json-patch", "patches": M{}}, false},
		pcase{"ietf:op-not-object", jp("add"), false},
		pcase{"ietf:path-missing", jp(M{"op": "add", "value": 1.0}), false},
		pcase{"ietf:path-null", jp(M{"op": "add", "path": nil, "value": 1.0}), false},
		pcase{"ietf:path-number", jp(M{"op": "add", "path": 7.0}), false},
		pcase{"ietf:path-unrooted-to-keys", jp(op("remove", "x/publicKey", nil)), false},
		pcase{"ietf:path-empty", jp(op("add", "", M{"value": M{}})), false},
		pcase{"ietf:from-not-string", jp(M{"op": "move", "path": "/x", "from": 5.0}), false},
	)
	for _, kind := range []string{"add", "remove", "replace", "move", "copy", "test"} {
		for _, prot := range []string{"/publicKey", "/service", "/publicKey/0", "/service/0/id", "/publicKey/-", "/serviceX", "/publicKeys"} {
			extra := M{"value": 1.0}
			if kind == "move" || kind == "copy" {
				extra = M{"from": "/a"}
			}
			// sibling names (first reference token is another name) are not protected (fix bdae33d)
			sibling := prot == "/serviceX" || prot == "/publicKeys"
			out = append(out, pcase{"ietf:path-protected:" + kind + ":" + prot, jp(op(kind, prot, extra)), sibling})
		}
	}
	for _, kind := range []string{"move", "copy"} {
		for _, prot := range []string{"/publicKey", "/service/0", "/publicKey/0/publicKeyJwk", "service"} {
			out = append(out, pcase{"ietf:from-protected:" + kind + ":" + prot, jp(op(kind, "/backup", M{"from": prot})), false})
		}
	}
	out = append(out,
		pcase{"unknown-action", M{"action": "invalid", "x": 1.0}, false},
		pcase{"missing-action", M{"publicKeys": A{}}, false},
		pcase{"action-not-string", M{"action": 5.0}, false},
		pcase{"add-public-keys:missing-value", M{"action": "add-public-keys"}, false},
		pcase{"add-public-keys:empty-list", M{"action": "add-public-keys", "publicKeys": A{}}, false},
		pcase{"add-public-keys:not-a-list", M{"action": "add-public-keys", "publicKeys": M{}}, false},
		pcase{"add-services:empty-list", M{"action": "add-services", "services": A{}}, false},
	)
	return out
}

// collectStrings gathers every string value in a JSON tree (candidates for net/url).
func collectStrings(v interface{}, acc map[string]bool) {
	switch x := v.(type) {
	case string:
		acc[x] = true
	case []interface{}:
		for _, e := range x {
			collectStrings(e, acc)
		}
	case map[string]interface{}:
		for _, e := range x {
			collectStrings(e, acc)
		}
	}
}

func urlOracle(v interface{}) string {
	acc := map[string]bool{}
	collectStrings(normJSON(v), acc)
	var keys []string
	for k := range acc {
		keys = append(keys, k)
	}
	sort.Strings(keys)
	items := make([]string, 0, len(keys))
	for _, s := range keys {
		_, e1 := url.ParseRequestURI(s)
		u, e2 := url.Parse(s)
		norm := "None"
		if e2 == nil {
			norm = "(Some " + cStr(u.String()) + ")"
		}
		items = append(items, fmt.Sprintf("(%s, (%s, %s))", cStr(s), cBool(e1 == nil), norm))
	}
	return cList(items)
}

func implValidate(p interface{}) (ok bool, panicked bool) {
	defer func() {
		if r := recover(); r != nil {
			ok, panicked = false, true
		}
	}()
	b, _ := json.Marshal(p)
	var pm patch.Patch
	if err := json.Unmarshal(b, &pm); err != nil {
		return false, false
	}
	return patchvalidator.Validate(pm) == nil, false
}

func genC13(seed int64, tier string) []caseOut {
	rounds := 1
	if tier == "thorough" {
		rounds = 25
	}
	r := rand.New(rand.NewSource(seed))
	var out []caseOut
	for i := 0; i < rounds; i++ {
		for _, c := range genPatchCases(r) {
			ok, panicked := implValidate(c.patch)
			h := sha256.Sum256([]byte(c.label + fmt.Sprint(c.expect)))
			out = append(out, caseOut{
				Coq:    fmt.Sprintf("(mk_c13 %s %s %s %s)", cJSON(normJSON(c.patch)), urlOracle(c.patch), cBool(ok), cBool(c.expect)),
				Rec:    map[string]interface{}{"patch": c.patch, "impl_valid": ok, "impl_panicked": panicked, "expect_valid": c.expect},
				Label:  c.label,
				NonTri: fmt.Sprintf("%x", h[:8]),
			})
		}
		// original documents
		for _, d := range []struct {
			label string
			doc   M
		}{
			{"doc:plain", M{"publicKey": A{validKey(r, "k")}}},
			{"doc:with-id", M{"id": "did:x:1", "publicKey": A{}}},
			{"doc:id-empty-string", M{"id": ""}},
			{"doc:id-not-string", M{"id": 5.0}},
			{"doc:with-context", M{"@context": A{"https://w3id.org/did/v1"}}},
			{"doc:context-empty", M{"@context": A{}}},
			{"doc:context-string", M{"@context": "https://w3id.org/did/v1"}},
		} {
			b, _ := json.Marshal(d.doc)
			e1 := docvalidator.New().IsValidOriginalDocument(b)
			e2 := didvalidator.New().IsValidOriginalDocument(b)
			_, e3 := patch.PatchesFromDocument(string(b))
			h := sha256.Sum256([]byte(d.label))
			out = append(out, caseOut{
				Coq:    fmt.Sprintf("(mk_c13doc %s %s %s %s)", cObj(normJSON(d.doc).(map[string]interface{})), cBool(e1 == nil), cBool(e2 == nil), cBool(e3 == nil)),
				Rec:    map[string]interface{}{"document": d.doc, "docvalidator_ok": e1 == nil, "didvalidator_ok": e2 == nil, "patches_from_document_ok": e3 == nil},
				Label:  d.label,
				NonTri: fmt.Sprintf("%x", h[:8]),
			})
		}
	}
	_ = strings.Join
	return out
}

func init() {
	generators["C13"] = generator{"c13case", "judge_c13", patchImports, genC13}
}
