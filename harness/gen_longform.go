package main

// C17: long-form DIDs.

import (
	"crypto/sha256"
	"encoding/json"
	"fmt"
	"math/rand"
	"sort"
	"strings"

	ariesdid "github.com/trustbloc/did-go/doc/did"
	endpoint "github.com/trustbloc/did-go/doc/did/endpoint"
	vdrapi "github.com/trustbloc/did-go/vdr/api"
	"github.com/trustbloc/kms-go/doc/jose/jwk/jwksupport"

	"github.com/trustbloc/sidetree-go/pkg/vdr/sidetreelongform"
	"github.com/trustbloc/sidetree-go/pkg/vdr/sidetreelongform/dochandler"
)

const longformImports = "From Coq Require Import ZArith NArith String List.\nFrom Sidetree Require Import Base.Hex Json.Json Harness.Runner Harness.PatchCases Harness.LongFormCases.\nImport ListNotations.\nOpen Scope string_scope.\n"

func resolveImpl(h *dochandler.DocumentHandler, did string) (interface{}, bool, bool) {
	var panicked bool
	var out interface{}
	ok := false
	func() {
		defer func() {
			if r := recover(); r != nil {
				panicked = true
			}
		}()
		res, err := h.ResolveDocument(did)
		if err == nil {
			b, _ := json.Marshal(res)
			json.Unmarshal(b, &out)
			ok = true
		}
	}()
	return out, ok, panicked
}

func processImpl(h *dochandler.DocumentHandler, req []byte) (interface{}, bool, bool) {
	var panicked bool
	var out interface{}
	ok := false
	func() {
		defer func() {
			if r := recover(); r != nil {
				panicked = true
			}
		}()
		res, err := h.ProcessOperation(req)
		if err == nil {
			b, _ := json.Marshal(res)
			json.Unmarshal(b, &out)
			ok = true
		}
	}()
	return out, ok, panicked
}

func optJSON(v interface{}, ok bool) string {
	if !ok {
		return "None"
	}
	return "(Some " + cJSON(normJSON(v)) + ")"
}

func genC17(seed int64, tier string) []caseOut {
	n := 5
	charChanges := 14
	if tier == "thorough" {
		n, charChanges = 48, 120
	}
	r := rand.New(rand.NewSource(seed))
	var out []caseOut
	ns := "did:ion"
	h, err := dochandler.New(ns)
	if err != nil {
		panic(err)
	}
	hx, _ := dochandler.New("did:ionx")
	// another DID (no keys, a service only) resolved while results of earlier resolutions are still held
	otherDID := func() string {
		sp := defaultSpec("create", rand.New(rand.NewSource(99)))
		sp.patches = A{M{"action": "add-services", "services": A{docService("othersvc", "T", "https://other.example/")}}}
		b := buildReq(sp, rand.New(rand.NewSource(98)), []uint{18})
		return ns + ":" + b.suffix + ":" + b64(b.bytes)
	}()
	for i := 0; i < n; i++ {
		kinds := []string{"Ed25519", "P-256", "P-384", "secp256k1"}
		sp := defaultSpec("create", r)
		sp.kind = kinds[r.Intn(len(kinds))]
		nk := 1 + r.Intn(3)
		keys := A{}
		for j := 0; j < nk; j++ {
			ps := []string{"authentication"}
			if r.Intn(2) == 0 {
				ps = append(ps, "assertionMethod", "keyAgreement")
			}
			keys = append(keys, docKey(fmt.Sprintf("key%d", j+1), genKey(r, []string{"P-256", "Ed25519"}[r.Intn(2)]), ps...))
		}
		svcs := A{docService("svc1", "T", "https://example.com/a")}
		switch []int{r.Intn(3), 3}[map[bool]int{true: 1, false: 0}[i%4 == 3]] {
		case 3: // no keys at all: services and an alias only
			nk = 0
			sp.patches = A{M{"action": "add-services", "services": svcs}, M{"action": "add-also-known-as", "uris": A{"https://aka.example/1"}}}
		case 0:
			sp.patches = A{replacePatch(keys, svcs)}
		case 1:
			sp.patches = A{M{"action": "add-public-keys", "publicKeys": keys}, M{"action": "add-services", "services": svcs},
				M{"action": "add-also-known-as", "uris": A{"https://aka.example/1"}}}
		default:
			sp.patches = A{M{"action": "add-public-keys", "publicKeys": keys}}
		}
		if r.Intn(2) == 0 {
			sp.origin = "origin.example"
		}
		b := buildReq(sp, r, []uint{18})
		state := b64(b.bytes)
		did := ns + ":" + b.suffix + ":" + state
		var variants []string
		var recs []interface{}
		addV := func(kind, d string, expectResolve bool) {
			res, ok, panicked := resolveImpl(h, d)
			variants = append(variants, fmt.Sprintf("(mk_lfv %s %s %s)", cStr(d), optJSON(res, ok), cBool(expectResolve)))
			recs = append(recs, map[string]interface{}{"kind": kind, "did": d, "impl_resolved": ok, "impl_panicked": panicked, "expect_resolve": expectResolve})
		}
		addV("created", did, true)
		// the same resolution once more, its result held (not looked at) while everything below is resolved
		held, heldErr := func() (res interface{}, err error) {
			defer func() {
				if recover() != nil {
					err = fmt.Errorf("panic")
				}
			}()
			return h.ResolveDocument(did)
		}()
		// single-character changes
		alphabet := "ABCDEFGHIJKLMNOPQRSTUVWXYZabcdefghijklmnopqrstuvwxyz0123456789-_:=. "
		positions := r.Perm(len(did))
		if len(positions) > charChanges {
			positions = positions[:charChanges]
			positions = append(positions, len(did)-1, len(ns), len(ns)+1+len(b.suffix), 0, 4, 6)
		}
		for _, pos := range positions {
			c := alphabet[r.Intn(len(alphabet))]
			if pos == len(did)-1 { // last character: an equivalent-bits character (same decoded bytes)
				for _, m := range malformedHashes(state, r) {
					if m[0] == "trailing-bits" {
						c = m[1][len(m[1])-1]
					}
				}
			}
			if c == did[pos] {
				c = 'Q'
				if did[pos] == 'Q' {
					c = 'R'
				}
			}
			addV(fmt.Sprintf("char-change@%d", pos), did[:pos]+string(c)+did[pos+1:], false)
		}
		// re-encodings of the initial state
		tree := toJV(map[string]interface{}(b.request))
		addV("state-whitespace", ns+":"+b.suffix+":"+b64([]byte(spell(tree, r, 1))), false)
		reordered := `{"type":"create","delta":` + string(jcs(b.request["delta"])) + `,"suffixData":` + string(jcs(b.request["suffixData"])) + `}`
		addV("state-member-order", ns+":"+b.suffix+":"+b64([]byte(reordered)), false)
		addV("state-padded", did+"=", false)
		addV("state-newline", did[:len(did)-3]+"\n"+did[len(did)-3:], false)
		addV("state-std-alphabet", ns+":"+b.suffix+":"+strings.NewReplacer("-", "+", "_", "/").Replace(state)+"+", false)
		// the same request without the type member is a different (still canonical) initial state
		noType := M{"suffixData": b.request["suffixData"], "delta": b.request["delta"]}
		addV("state-without-type-member", ns+":"+b.suffix+":"+b64(jcs(noType)), true)
		// the same request naming another operation type (canonical bytes, so only the type check can refuse it)
		for _, ty := range []string{"update", "recover", "deactivate", "crea4e", "Create", "create "} {
			other := M{"type": ty, "suffixData": b.request["suffixData"], "delta": b.request["delta"]}
			addV("state-other-type-"+ty, ns+":"+b.suffix+":"+b64(jcs(other)), false)
		}
		// member names in another letter case, optional members given as null: decodable by a lenient
		// decoder, but not the canonical JSON of the create request
		canon := string(b.bytes)
		for _, rp := range [][2]string{{`"delta":`, `"Delta":`}, {`"delta":`, `"deltA":`}, {`"patches":`, `"Patches":`}, {`"updateCommitment":`, `"updatecommitment":`},
			{`"suffixData":`, `"sUffixData":`}, {`"deltaHash":`, `"DeltaHash":`}, {`"type":"create"`, `"tYpe":"create"`}, {`"recoveryCommitment":`, `"recoveryCommitmenT":`},
			{`"type":"create"`, `"type":"create","zz":null`}, {`{"delta":`, `{"anchorOrigin":null,"delta":`}, {`"type":"create"`, `"type":null`},
			{`"suffixData":{"deltaHash"`, `"suffixData":{"anchorOrigin":null,"deltaHash"`}} {
			alt := strings.Replace(canon, rp[0], rp[1], 1)
			if alt != canon {
				addV("state-member-respelled:"+rp[1], ns+":"+b.suffix+":"+b64([]byte(alt)), false)
			}
		}
		// a delta hash that is a well-formed multihash of the configured algorithm carrying only a prefix
		// of the delta's digest (the suffix computed over that suffix data): such a state binds no delta
		{
			full := digest(18, jcs(b.request["delta"]))
			for _, k := range []int{0, 1, 16, len(full) - 1} {
				sd := M{}
				for kk, vv := range b.request["suffixData"].(map[string]interface{}) {
					sd[kk] = vv
				}
				sd["deltaHash"] = b64(multihash(18, full[:k]))
				addV(fmt.Sprintf("delta-hash-digest-prefix-%d", k), ns+":"+modelHash(sd, 18)+":"+b64(jcs(M{"type": "create", "suffixData": sd, "delta": b.request["delta"]})), false)
			}
		}
		// namespaces related by prefix, short form, foreign suffix
		addV("namespace-longer", "did:ionx:"+b.suffix+":"+state, false)
		addV("namespace-shorter", "did:io:"+b.suffix+":"+state, false)
		addV("namespace-no-colon", "did:ion"+b.suffix+":"+state, false)
		for _, nsv := range []string{"DID:ION", "did:Ion", "dId:ion", "did:ioN", "Did:ion"} {
			addV("namespace-other-case-"+nsv, nsv+":"+b.suffix+":"+state, false)
		}
		addV("short-form", ns+":"+b.suffix, false)
		addV("suffix-of-other-request", ns+":"+modelHash(M{"x": 1.0}, 18)+":"+state, false)
		addV("extra-segment", ns+":label:"+b.suffix+":"+state, true)
		addV("empty", "", false)
		addV("only-namespace", ns+":", false)
		// what was returned for the DID at first is still what it was
		resolveImpl(h, otherDID)
		if heldErr == nil {
			hb, _ := json.Marshal(held)
			var later interface{}
			json.Unmarshal(hb, &later)
			variants = append(variants, fmt.Sprintf("(mk_lfv %s %s true)", cStr(did), optJSON(later, true)))
			recs = append(recs, map[string]interface{}{"kind": "created-result-held-while-others-resolve", "did": did, "impl_resolved": true, "expect_resolve": true})
		}
		// the handler of another method must not resolve it
		_, okx, _ := resolveImpl(hx, did)
		_, okx2, _ := resolveImpl(hx, "did:ionx:"+b.suffix+":"+state)
		// ProcessOperation on the canonical and on re-spelled requests
		var procs []string
		for k, reqBytes := range [][]byte{b.bytes, []byte(spell(tree, r, 1)), []byte(reordered + "\n")} {
			res, ok, _ := processImpl(h, reqBytes)
			resolvesBack := false
			if ok {
				if d, ok2 := res.(map[string]interface{})["didDocument"].(map[string]interface{}); ok2 {
					if id, ok3 := d["id"].(string); ok3 {
						_, resolvesBack, _ = resolveImpl(h, id)
					}
				}
			}
			procs = append(procs, fmt.Sprintf("(mk_lfp %s %s %s)", cStr(string(reqBytes)), optJSON(res, ok), cBool(resolvesBack)))
			recs = append(recs, map[string]interface{}{"kind": fmt.Sprintf("process-operation-%d", k), "request": string(reqBytes), "impl_ok": ok, "resolves_back": resolvesBack})
		}
		// a valid non-create operation must be answered with an error
		upd := buildReq(defaultSpec("update", r), r, []uint{18})
		_, okUpd, panUpd := processImpl(h, upd.bytes)
		hh := sha256.Sum256(b.bytes)
		out = append(out, caseOut{
			Coq: fmt.Sprintf("(mk_c17 %s %s %s %s %s %s %s %s %s %s)", urlOracle(map[string]interface{}(b.request)), cStr(ns), cStr(b.suffix),
				cStr(b.hashes["recoveryCommitment"]), cStr(b.hashes["updateCommitment"]), cList(variants), cList(procs),
				cBool(okx), cBool(okx2), cBool(okUpd || panUpd)),
			Rec:    map[string]interface{}{"did": did, "variants": recs, "other_method_handler_resolved_it": okx, "non_create_processed_or_panicked": okUpd || panUpd},
			Label:  fmt.Sprintf("longform:%s,keys-%d", sp.kind, nk),
			NonTri: fmt.Sprintf("%x", hh[:8]),
		})
	}
	// requests whose delta comes up to the protocol's limit (1700 bytes): the DID grows beyond 2500
	// characters, which is no limit of its own - every one of them resolves; one byte more is refused
	{
		sp := defaultSpec("create", r)
		sp.kind = "Ed25519"
		mk := func(pad int) builtReq {
			sp.patches = A{M{"action": "add-services", "services": A{docService("svc1", "T", "https://example.com/"+strings.Repeat("a", pad))}}}
			return buildReq(sp, r, []uint{18})
		}
		base := mk(0)
		deltaLen := len(jcs(base.request["delta"]))
		for _, target := range []int{1500, 1620, 1640, 1660, 1670, 1680, 1690, 1699, 1700} {
			b := mk(target - deltaLen)
			did := ns + ":" + b.suffix + ":" + b64(b.bytes)
			res, ok, panicked := resolveImpl(h, did)
			expect := target <= 1700
			variant := fmt.Sprintf("(mk_lfv %s %s %s)", cStr(did), optJSON(res, ok), cBool(expect))
			hh := sha256.Sum256(b.bytes)
			out = append(out, caseOut{
				Coq: fmt.Sprintf("(mk_c17 %s %s %s %s %s [%s] [] false true false)", urlOracle(map[string]interface{}(b.request)), cStr(ns), cStr(b.suffix),
					cStr(b.hashes["recoveryCommitment"]), cStr(b.hashes["updateCommitment"]), variant),
				Rec: map[string]interface{}{"did": did, "delta_bytes": len(jcs(b.request["delta"])), "did_length": len(did), "impl_resolved": ok, "impl_panicked": panicked,
					"expect_resolve": expect},
				Label:  fmt.Sprintf("longform:near-limit,delta-%d", target),
				NonTri: fmt.Sprintf("%x", hh[:8]),
			})
		}
	}
	// VDR.Create determinism and Create -> Read
	vdr, verr := sidetreelongform.New()
	if verr == nil {
		rounds := 2
		if tier == "thorough" {
			rounds = 20
		}
		for i := 0; i < rounds; i++ {
			doc := &ariesdid.Doc{}
			nkeys := 2 + r.Intn(4)
			for j := 0; j < nkeys; j++ {
				k := genKey(r, []string{"P-256", "Ed25519"}[r.Intn(2)])
				jk, e := jwksupport.JWKFromKey(k.public())
				if e != nil {
					continue
				}
				// ids that differ only in letter case must still have one fixed order
				keyID := []string{"keyA", "keya", "KeyA", "KEYA", "keyB", "Keyb"}[j%6]
				if i%2 == 1 {
					keyID = fmt.Sprintf("key%d", j+1)
				}
				vm, e := ariesdid.NewVerificationMethodFromJWK(keyID, "JsonWebKey2020", "", jk)
				if e != nil {
					continue
				}
				doc.Authentication = append(doc.Authentication, *ariesdid.NewReferencedVerification(vm, ariesdid.Authentication))
				if r.Intn(2) == 0 || i == 0 { // (first round: every key under both relationships)
					doc.AssertionMethod = append(doc.AssertionMethod, *ariesdid.NewReferencedVerification(vm, ariesdid.AssertionMethod))
				}
			}
			svc := ariesdid.Service{ID: "svc", Type: "type", ServiceEndpoint: endpoint.NewDIDCommV1Endpoint("https://example.com")}
			if i%2 == 0 { // the optional DIDComm members are part of the document supplied
				svc.RoutingKeys = []string{"did:example:router#1", "did:example:router#2"}
				svc.RecipientKeys = []string{"did:example:me#recipient"}
				svc.Accept = []string{"didcomm/aip2;env=rfc19"}
				svc.Properties = map[string]interface{}{"note": "kept"}
			}
			doc.Service = append(doc.Service, svc)
			// also-known-as values, some in a spelling a URI normaliser would change: they come back as supplied
			doc.AlsoKnownAs = [][]string{{"https://aka.example/me"}, {"HTTPS://Example.com/alice", "https://example.com/alice#"}, {"URN:uuid:6E8BC430-9C3A-11D9-9669-0800200C9A66", "https://example.com/josé"}}[i%3]
			// update and recovery keys of every supported type (the first rounds: an EC update key with an
			// Ed25519 recovery key, then the other way round): the keys supplied are the keys used
			kindsU := []string{"P-256", "Ed25519", "P-384", "secp256k1", "Ed25519", "P-521"}
			kindsR := []string{"Ed25519", "P-384", "P-256", "Ed25519", "Ed25519", "secp256k1"}
			upd, rec := genKey(r, kindsU[i%6]), genKey(r, kindsR[i%6])
			ids := map[string]bool{}
			readOK, idOK := true, true
			var first string
			for rep := 0; rep < 12; rep++ {
				res, e := vdr.Create(doc, vdrapi.WithOption(sidetreelongform.UpdatePublicKeyOpt, upd.public()),
					vdrapi.WithOption(sidetreelongform.RecoveryPublicKeyOpt, rec.public()))
				if e != nil || res == nil || res.DIDDocument == nil {
					readOK = false
					continue
				}
				ids[res.DIDDocument.ID] = true
				if segs := strings.Split(res.DIDDocument.ID, ":"); len(segs) >= 4 {
					// the initial state commits to the keys that were supplied
					var st struct {
						Delta      struct{ UpdateCommitment string }
						SuffixData struct{ RecoveryCommitment string }
					}
					if sb, e4 := b64dec(segs[len(segs)-1]); e4 != nil || json.Unmarshal(sb, &st) != nil ||
						st.Delta.UpdateCommitment != commitmentOf(upd.jwk(), 18) || st.SuffixData.RecoveryCommitment != commitmentOf(rec.jwk(), 18) {
						idOK = false
					}
				}
				if rep == 0 {
					first = res.DIDDocument.ID
					rd, e2 := vdr.Read(first)
					if e2 != nil || rd == nil || rd.DIDDocument == nil {
						readOK = false
					} else {
						idOK = rd.DIDDocument.ID == first && len(rd.DIDDocument.VerificationMethod) == nkeys &&
							len(rd.DocumentMetadata.EquivalentID) > 0 && strings.HasPrefix(first, rd.DocumentMetadata.EquivalentID[0]+":")
						if fmt.Sprint(rd.DIDDocument.AlsoKnownAs) != fmt.Sprint(doc.AlsoKnownAs) {
							idOK = false
						}
						// the DID followed by a DID URL tail (fragment, query, path) is another string: whatever
						// resolves is a document whose id is the string that was asked for
						for _, tail := range []string{"#key-1", "?service=files", "/path", "/path/to?query=1#frag", "?versionId=1", "#"} {
							if rt, e3 := vdr.Read(first + tail); e3 == nil && rt != nil && rt.DIDDocument != nil && rt.DIDDocument.ID != first+tail {
								idOK = false
							}
						}
						// every key comes back under every relationship it was supplied under
						relIDs := func(vs []ariesdid.Verification) string {
							var l []string
							for _, v := range vs {
								id := v.VerificationMethod.ID
								if k := strings.LastIndex(id, "#"); k >= 0 {
									id = id[k+1:]
								}
								l = append(l, id)
							}
							sort.Strings(l)
							return strings.Join(l, ",")
						}
						if relIDs(rd.DIDDocument.Authentication) != relIDs(doc.Authentication) || relIDs(rd.DIDDocument.AssertionMethod) != relIDs(doc.AssertionMethod) {
							idOK = false
						}
						// the services supplied come back with all their members
						if len(rd.DIDDocument.Service) != 1 {
							idOK = false
						} else {
							got, want := rd.DIDDocument.Service[0], doc.Service[0]
							uriG, _ := got.ServiceEndpoint.URI()
							uriW, _ := want.ServiceEndpoint.URI()
							if got.Type != want.Type || uriG != uriW || fmt.Sprint(got.RoutingKeys) != fmt.Sprint(want.RoutingKeys) ||
								fmt.Sprint(got.RecipientKeys) != fmt.Sprint(want.RecipientKeys) {
								// (accept comes back under Properties in the pinned did-go: not compared)
								idOK = false
							}
						}
					}
				}
			}
			hh := sha256.Sum256([]byte(first))
			out = append(out, caseOut{
				Coq:    fmt.Sprintf("(mk_c17vdr %d%%nat %s %s)", len(ids), cBool(readOK), cBool(idOK)),
				Rec:    map[string]interface{}{"distinct_dids_in_12_creations": len(ids), "read_ok": readOK, "read_matches_created": idOK, "keys": nkeys, "did": first},
				Label:  fmt.Sprintf("vdr-create-read,keys-%d", nkeys),
				NonTri: fmt.Sprintf("%x", hh[:8]),
			})
		}
	}
	return out
}

func init() {
	generators["C17"] = generator{"c17case", "judge_c17", longformImports, genC17}
}
