package main

// C19: untrusted input is answered with an error, never a panic / hang.
// Every entry point is called under recover() and a watchdog; outcome classes ok / err / panic /
// timeout are observations.  Structure-aware corruptions of valid operations are additionally
// compared with the model's accept / refuse verdict (type confusion at every position).

import (
	"bytes"
	"crypto/sha256"
	"encoding/json"
	"fmt"
	"math/rand"
	"os"
	"os/exec"
	"runtime/debug"
	"strings"
	"time"

	"github.com/trustbloc/sidetree-go/pkg/api/operation"
	"github.com/trustbloc/sidetree-go/pkg/api/protocol"
	"github.com/trustbloc/sidetree-go/pkg/canonicalizer"
	"github.com/trustbloc/sidetree-go/pkg/commitment"
	"github.com/trustbloc/sidetree-go/pkg/document"
	"github.com/trustbloc/sidetree-go/pkg/hashing"
	"github.com/trustbloc/sidetree-go/pkg/jws"
	"github.com/trustbloc/sidetree-go/pkg/jwsutil"
	"github.com/trustbloc/sidetree-go/pkg/patch"
	"github.com/trustbloc/sidetree-go/pkg/vdr/sidetreelongform/dochandler"
	"github.com/trustbloc/sidetree-go/pkg/versions/1_0/doccomposer"
	"github.com/trustbloc/sidetree-go/pkg/versions/1_0/doctransformer/didtransformer"
	"github.com/trustbloc/sidetree-go/pkg/versions/1_0/operationapplier"
	"github.com/trustbloc/sidetree-go/pkg/versions/1_0/operationparser"
	"github.com/trustbloc/sidetree-go/pkg/versions/1_0/operationparser/patchvalidator"
)

const fuzzImports = "From Coq Require Import ZArith NArith String List.\nFrom Sidetree Require Import Base.Hex Json.Json Sidetree.Protocol Harness.Runner Harness.PatchCases Harness.FuzzCases.\nImport ListNotations.\nOpen Scope string_scope.\n"

// guarded runs f under recover and a watchdog: 0 ok, 1 err, 2 panic, 3 timeout
func guarded(f func() error) (class int, detail string) {
	done := make(chan [2]interface{}, 1)
	go func() {
		defer func() {
			if r := recover(); r != nil {
				done <- [2]interface{}{2, fmt.Sprint(r)}
			}
		}()
		if err := f(); err != nil {
			done <- [2]interface{}{1, ""}
		} else {
			done <- [2]interface{}{0, ""}
		}
	}()
	select {
	case r := <-done:
		return r[0].(int), fmt.Sprint(r[1])
	case <-time.After(5 * time.Second):
		return 3, "timeout"
	}
}

type entryPoint struct {
	name string
	call func(in []byte) error
}

func entryPoints(cfg protocol.Protocol) []entryPoint {
	parser := operationparser.New(cfg)
	composer := doccomposer.New()
	applier := operationapplier.New(cfg, parser, composer)
	handler, _ := dochandler.New("did:ion")
	transformer := didtransformer.New()
	return []entryPoint{
		{"Parser.Parse", func(in []byte) error { _, e := parser.Parse("did:ns", in); return e }},
		{"Parser.ParseOperation-batch", func(in []byte) error { _, e := parser.ParseOperation("did:ns", in, true); return e }},
		{"Parser.ParseDID", func(in []byte) error { _, _, e := parser.ParseDID("did:ns", string(in)); return e }},
		{"Parser.GetRevealValue", func(in []byte) error { _, e := parser.GetRevealValue(in); return e }},
		{"Parser.GetCommitment", func(in []byte) error { _, e := parser.GetCommitment(in); return e }},
		{"DocumentHandler.ResolveDocument", func(in []byte) error { _, e := handler.ResolveDocument(string(in)); return e }},
		{"DocumentHandler.ResolveDocument-prefixed", func(in []byte) error { _, e := handler.ResolveDocument("did:ion:" + string(in)); return e }},
		{"DocumentHandler.ProcessOperation", func(in []byte) error { _, e := handler.ProcessOperation(in); return e }},
		{"jwsutil.ParseJWS", func(in []byte) error { _, e := jwsutil.ParseJWS(string(in)); return e }},
		{"jwsutil.VerifyJWS", func(in []byte) error {
			_, e := jwsutil.VerifyJWS(string(in), &jws.JWK{Kty: "EC", Crv: "P-256", X: "AA", Y: "AA"})
			return e
		}},
		{"jwsutil.JWK.UnmarshalJSON", func(in []byte) error { var k jwsutil.JWK; return k.UnmarshalJSON(in) }},
		{"jwsutil.VerifySignature-jwk", func(in []byte) error {
			var k jws.JWK
			if e := json.Unmarshal(in, &k); e != nil {
				return e
			}
			return jwsutil.VerifySignature(&k, []byte("0123456789012345678901234567890123456789012345678901234567890123"), []byte("msg"))
		}},
		{"canonicalizer.MarshalCanonical", func(in []byte) error { _, e := canonicalizer.MarshalCanonical(in); return e }},
		{"hashing.CalculateModelMultihash-bytes", func(in []byte) error { _, e := hashing.CalculateModelMultihash(in, 18); return e }},
		{"hashing.IsValidModelMultihash", func(in []byte) error {
			return hashing.IsValidModelMultihash(map[string]interface{}{"a": 1}, string(in))
		}},
		{"hashing.GetMultihashCode", func(in []byte) error { _, e := hashing.GetMultihashCode(string(in)); return e }},
		{"commitment.GetCommitmentFromRevealValue", func(in []byte) error { _, e := commitment.GetCommitmentFromRevealValue(string(in)); return e }},
		{"patch.FromBytes+Validate+Apply", func(in []byte) error {
			p, e := patch.FromBytes(in)
			if e != nil {
				return e
			}
			if e := patchvalidator.Validate(p); e != nil {
				return e
			}
			doc, _ := document.FromBytes([]byte(`{"publicKey":[{"id":"k1","type":"JsonWebKey2020"}],"service":[{"id":"s1"}],"arr":[1,[2,3],{"x":null}],"o":{"a":{"b":null}},"n":null}`))
			_, e = composer.ApplyPatches(doc, []patch.Patch{p})
			return e
		}},
		{"patch.FromBytes+Apply-unvalidated", func(in []byte) error {
			p, e := patch.FromBytes(in)
			if e != nil {
				return e
			}
			doc, _ := document.FromBytes([]byte(`{"publicKey":[{"id":"k1"}],"arr":[1,[2,3],{"x":null}],"o":{"a":{"b":null}},"n":null}`))
			_, e = composer.ApplyPatches(doc, []patch.Patch{p})
			return e
		}},
		{"patch.PatchesFromDocument", func(in []byte) error { _, e := patch.PatchesFromDocument(string(in)); return e }},
		{"Applier.Apply-create", func(in []byte) error {
			_, e := applier.Apply(&operation.AnchoredOperation{Type: "create", OperationRequest: in}, &protocol.ResolutionModel{})
			return e
		}},
		{"Applier.Apply-update", func(in []byte) error {
			_, e := applier.Apply(&operation.AnchoredOperation{Type: "update", OperationRequest: in}, &protocol.ResolutionModel{Doc: document.Document{}})
			return e
		}},
		{"Applier.Apply-recover", func(in []byte) error {
			_, e := applier.Apply(&operation.AnchoredOperation{Type: "recover", OperationRequest: in}, &protocol.ResolutionModel{Doc: document.Document{}})
			return e
		}},
		{"Applier.Apply-deactivate", func(in []byte) error {
			_, e := applier.Apply(&operation.AnchoredOperation{Type: "deactivate", OperationRequest: in}, &protocol.ResolutionModel{Doc: document.Document{}})
			return e
		}},
		{"Transformer.TransformDocument", func(in []byte) error {
			doc, e := document.FromBytes(in)
			if e != nil {
				return e
			}
			_, e = transformer.TransformDocument(&protocol.ResolutionModel{Doc: doc}, protocol.TransformationInfo{"id": "did:x:1", "published": false})
			return e
		}},
	}
}

// corruptions of a JSON tree: every value replaced by values of other types, members removed
func corruptions(v interface{}, r *rand.Rand, limit int) []interface{} {
	wrong := []interface{}{nil, true, 7.0, -1.0, "", "x", A{}, A{1.0}, M{}, M{"a": nil}, strings.Repeat("A", 5000), 1e300}
	var paths [][]interface{}
	var walk func(x interface{}, path []interface{})
	walk = func(x interface{}, path []interface{}) {
		paths = append(paths, append([]interface{}{}, path...))
		switch t := x.(type) {
		case map[string]interface{}:
			for _, k := range sortedKeysOf(t) {
				walk(t[k], append(path, k))
			}
		case []interface{}:
			for i, e := range t {
				walk(e, append(path, i))
			}
		}
	}
	walk(v, nil)
	var out []interface{}
	deep := func() interface{} { b, _ := json.Marshal(v); var c interface{}; json.Unmarshal(b, &c); return c }
	set := func(root interface{}, path []interface{}, val interface{}, del bool) interface{} {
		if len(path) == 0 {
			return val
		}
		cur := root
		for _, p := range path[:len(path)-1] {
			switch k := p.(type) {
			case string:
				cur = cur.(map[string]interface{})[k]
			case int:
				cur = cur.([]interface{})[k]
			}
		}
		switch k := path[len(path)-1].(type) {
		case string:
			if del {
				delete(cur.(map[string]interface{}), k)
			} else {
				cur.(map[string]interface{})[k] = val
			}
		case int:
			cur.([]interface{})[k] = val
		}
		return root
	}
	for _, p := range paths {
		if len(out) >= limit {
			break
		}
		if len(p) > 0 {
			if _, ok := p[len(p)-1].(string); ok {
				out = append(out, set(deep(), p, nil, true))
			}
		}
		for _, w := range []interface{}{wrong[r.Intn(len(wrong))], wrong[r.Intn(len(wrong))], nil} {
			out = append(out, set(deep(), p, w, false))
		}
	}
	return out
}

func hostilePatches() []string {
	var out []string
	ptrs := []string{"/arr/-1", "/arr/-5", "/arr/99", "/arr/1/-1", "/arr/01", "/arr/+1", "/arr/1e2", "/arr/-", "/arr/2/x/y", "/n/x", "/o/a/b/c", "/o", "/o/a", "",
		"/", "//", "/~", "/~2", "/arr/9223372036854775807", "/arr/9223372036854775808", "/arr/-9223372036854775808", "/arr/4096", "/o/a/b", "/missing/x", "arr/0", "/arr/1/0"}
	for _, kind := range []string{"add", "remove", "replace", "move", "copy", "test", "bogus", ""} {
		for _, p := range ptrs {
			out = append(out, fmt.Sprintf(`{"action":"ietf-json-patch","patches":[{"op":%q,"path":%q,"value":1}]}`, kind, p))
			out = append(out, fmt.Sprintf(`{"action":"ietf-json-patch","patches":[{"op":%q,"path":%q}]}`, kind, p))
			out = append(out, fmt.Sprintf(`{"action":"ietf-json-patch","patches":[{"op":%q,"path":%q,"value":null}]}`, kind, p))
			out = append(out, fmt.Sprintf(`{"action":"ietf-json-patch","patches":[{"op":%q,"from":%q,"path":"/dst"}]}`, kind, p))
			out = append(out, fmt.Sprintf(`{"action":"ietf-json-patch","patches":[{"op":%q,"from":"/o","path":%q}]}`, kind, p))
			// pointers into their own source
			out = append(out, fmt.Sprintf(`{"action":"ietf-json-patch","patches":[{"op":%q,"from":%q,"path":%q}]}`, kind, p, p+"/inner"))
			out = append(out, fmt.Sprintf(`{"action":"ietf-json-patch","patches":[{"op":"copy","from":"/o","path":"/p"},{"op":%q,"from":"/p","path":"/o/a/loop"}]}`, kind))
			out = append(out, fmt.Sprintf(`{"action":"ietf-json-patch","patches":[{"op":"add","path":"/n2","value":null},{"op":%q,"path":"/n2/x","value":1}]}`, kind))
		}
	}
	out = append(out,
		`{"action":"ietf-json-patch","patches":[{"op":"test","path":"/n","value":{}}]}`,
		`{"action":"ietf-json-patch","patches":[{"op":"test","path":"/o","value":{"a":null}}]}`,
		`{"action":"ietf-json-patch","patches":[{"op":"test","path":"/arr","value":[1,null,null]}]}`,
		`{"action":"ietf-json-patch","patches":[null]}`, `{"action":"ietf-json-patch","patches":[[]]}`, `{"action":"ietf-json-patch","patches":[{"op":5,"path":"/x"}]}`,
		`{"action":"ietf-json-patch","patches":[{"op":"add","path":null}]}`, `{"action":"ietf-json-patch","patches":[{"op":"copy","from":null,"path":"/x"}]}`,
		`{"action":"replace","document":null}`, `{"action":"replace","document":{"publicKeys":null,"services":5}}`,
		`{"action":"add-public-keys","publicKeys":[null,5,"x",{"id":null,"type":null,"publicKeyJwk":null}]}`,
		`{"action":"add-services","services":[{"id":"s","type":"t","serviceEndpoint":[null,{"a":1},5]}]}`,
		`{"action":"remove-public-keys","ids":[null,5,{}]}`, `{"action":"add-also-known-as","uris":[null,5]}`, `{"action":null}`, `{}`, `[]`, `null`, `"x"`, `5`)
	return out
}

func genC19(seed int64, tier string) []caseOut {
	nRandom := 150
	corrLimit := 60
	if tier == "thorough" {
		nRandom, corrLimit = 6000, 100000
	}
	r := rand.New(rand.NewSource(seed))
	cfg := baseProtocol(r)
	eps := entryPoints(cfg)
	var out []caseOut
	record := func(stream, entry string, in []byte, class int, detail string) {
		h := sha256.Sum256(append([]byte(entry), in...))
		rec := map[string]interface{}{"entry_point": entry, "class": []string{"ok", "err", "panic", "timeout", "process-died"}[class], "input": string(in)}
		if len(in) > 600 {
			rec["input"] = string(in[:600]) + fmt.Sprintf("...(%d bytes)", len(in))
		}
		if detail != "" {
			rec["detail"] = detail
		}
		nt := ""
		if class != 1 || r.Intn(20) == 0 {
			nt = fmt.Sprintf("%x", h[:8])
		}
		out = append(out, caseOut{Coq: fmt.Sprintf("(mk_c19 %s %d%%nat %s)", cStr(entry), class, cStr(fmt.Sprintf("%x", h[:6]))), Rec: rec,
			Label: stream + ":" + entry, NonTri: nt})
	}
	runAll := func(stream string, in []byte) {
		for _, ep := range eps {
			class, detail := guarded(func() error { return ep.call(in) })
			if class >= 2 || r.Intn(12) == 0 { // keep every failure, sample the rest (counts are in the distribution)
				record(stream, ep.name, in, class, detail)
			}
		}
	}
	// valid inputs to derive from
	d := &didState{r: r, cfg: cfg, code: 18, kinds: []string{"P-256", "Ed25519"}}
	var valids [][]byte
	for _, typ := range []string{"create", "update", "recover", "deactivate"} {
		c := cfg
		valids = append(valids, d.buildOp(typ, "", 1000, &c).bytes)
	}
	// 1. arbitrary bytes and byte-level mutations of valid inputs
	for i := 0; i < nRandom; i++ {
		var in []byte
		switch r.Intn(4) {
		case 0:
			in = make([]byte, r.Intn(64))
			rngReader{r}.Read(in)
		case 1:
			v := valids[r.Intn(len(valids))]
			in = append([]byte{}, v...)
			for k := 0; k < 1+r.Intn(3); k++ {
				in[r.Intn(len(in))] = byte(r.Intn(256))
			}
		case 2:
			v := valids[r.Intn(len(valids))]
			in = v[:r.Intn(len(v))]
		default:
			in = []byte(strings.Repeat([]string{"[", "{\"a\":", "\"", ":", "did:ion:", "a.", "~1"}[r.Intn(7)], 1+r.Intn(300)))
		}
		runAll("bytes", in)
	}
	// 1b. nesting far deeper than any limit (no closing brackets, closed, objects, mixed, with white space):
	// answered with an error at once, not after minutes and not with a dead process
	for _, deep := range []string{strings.Repeat("[", 200000), strings.Repeat("[", 120000) + "1" + strings.Repeat("]", 120000),
		strings.Repeat(`{"a":`, 100000), strings.Repeat(`{"a":`, 60000) + "1" + strings.Repeat("}", 60000), strings.Repeat(`[{"a":`, 80000),
		strings.Repeat("[ ", 150000), `{"type":"create","suffixData":` + strings.Repeat("[", 150000)} {
		runAll("deep-nesting", []byte(deep))
	}
	// 2. structure-aware corruption of valid operations; Parse verdict compared with the model
	for vi, v := range valids {
		var tree interface{}
		json.Unmarshal(v, &tree)
		for ci, c := range corruptions(tree, r, corrLimit) {
			in := jcs(c)
			runAll("type-confusion", in)
			if ci%3 == 0 {
				class, _ := guarded(func() error { _, e := eps[0].call, error(nil); _ = e; return eps[0].call(in) })
				h := sha256.Sum256(in)
				var reqTree interface{}
				json.Unmarshal(in, &reqTree)
				out = append(out, caseOut{
					Coq:    fmt.Sprintf("(mk_c19parse %s %s %s %d%%nat)", urlOracle(reqTree), coqProtocol(cfg), cStr(string(in)), class),
					Rec:    map[string]interface{}{"entry_point": "Parser.Parse (model compared)", "input": string(in), "class": class, "derived_from": vi},
					Label:  "type-confusion-model:Parser.Parse",
					NonTri: fmt.Sprintf("%x", h[:8]),
				})
			}
		}
		// signed data and JWK corruption inside the JWS
		var req M
		json.Unmarshal(v, &req)
		if sd, ok := req["signedData"].(string); ok {
			parts := strings.Split(sd, ".")
			pb, _ := b64dec(parts[1])
			var payload interface{}
			json.Unmarshal(pb, &payload)
			for _, c := range corruptions(payload, r, corrLimit/2) {
				r2 := M{}
				for k, x := range req {
					r2[k] = x
				}
				r2["signedData"] = parts[0] + "." + b64(jcs(c)) + "." + parts[2]
				runAll("signed-data-confusion", jcs(r2))
			}
			for _, hdr := range []string{`{}`, `null`, `[]`, `{"alg":null}`, `{"alg":5}`, `{"alg":"ES256","b64":"x"}`, `{"alg":"ES256","b64":false}`, `5`, `{"alg":{"a":1}}`} {
				r2 := M{}
				for k, x := range req {
					r2[k] = x
				}
				r2["signedData"] = b64([]byte(hdr)) + "." + parts[1] + "." + parts[2]
				runAll("jws-header-confusion", jcs(r2))
				runAll("jws-header-confusion", []byte(r2["signedData"].(string)))
			}
		}
	}
	// 2b. valid requests in other spellings (whitespace, member order, every legal escape incl. \/ and
	// \uXXXX): a foreign encoder's output is still untrusted bytes
	for _, v := range valids {
		var tree interface{}
		json.Unmarshal(v, &tree)
		jt := toJV(tree)
		for k := 0; k < 6; k++ {
			runAll("valid-respelled", []byte(spell(jt, r, 1+k%2)))
		}
	}
	// 2c. operation histories with every labelled failure class, each Apply under the guard: the
	// failure paths of the applier (degraded create / recover, refused update ...) are code too
	nh := 40
	if tier == "thorough" {
		nh = 1500
	}
	scripts := systematicScripts("any") // every failure class of every operation type, whatever the seed draws
	for i := 0; i < nh+len(scripts); i++ {
		histScript = nil
		if i >= nh {
			histScript = scripts[i-nh]
		}
		hc, cfgs := genHistory(r, "any", 6)
		histScript = nil
		rm := &protocol.ResolutionModel{}
		composer := doccomposer.New()
		for si, st := range hc.Steps {
			parser := operationparser.New(cfgs[si])
			applier := operationapplier.New(cfgs[si], parser, composer)
			aop := &operation.AnchoredOperation{Type: operation.Type(st.Type), OperationRequest: st.Bytes, TransactionTime: st.Time, TransactionNumber: st.Num,
				ProtocolVersion: st.Ver, CanonicalReference: st.Canon, EquivalentReferences: st.Equiv}
			var res *protocol.ResolutionModel
			class, detail := guarded(func() error {
				out, e := applier.Apply(aop, rm)
				if e == nil {
					res = out
				}
				return e
			})
			if class >= 2 || r.Intn(10) == 0 {
				record("history-step:"+st.Label, "Applier.Apply-"+st.Type, st.Bytes, class, detail)
			}
			for _, acc := range []struct {
				name string
				f    func() error
			}{{"Parser.GetRevealValue", func() error { _, e := parser.GetRevealValue(st.Bytes); return e }},
				{"Parser.GetCommitment", func() error { _, e := parser.GetCommitment(st.Bytes); return e }},
				{"Parser.Parse", func() error { _, e := parser.Parse("did:ns", st.Bytes); return e }}} {
				if c2, d2 := guarded(acc.f); c2 >= 2 {
					record("history-step:"+st.Label, acc.name, st.Bytes, c2, d2)
				}
			}
			if class == 0 && res != nil {
				rm = res
			}
		}
	}
	// 2d. a create request whose delta (patches with keys of every purpose, services, also-known-as)
	// has every value replaced by values of other types, with the delta hash and the suffix recomputed:
	// whatever the validator lets through reaches the composer and the transformer, as a request and
	// as a long-form DID
	{
		fr := rand.New(rand.NewSource(23))
		kp := genKey(fr, "P-256")
		ed := genKey(fr, "Ed25519")
		patchesTree := A{
			M{"action": "replace", "document": M{
				"publicKeys": A{docKey("key1", kp, "authentication", "assertionMethod", "keyAgreement", "capabilityDelegation", "capabilityInvocation"),
					M{"id": "key2", "type": "Ed25519VerificationKey2018", "purposes": A{"authentication", "keyAgreement"}, "publicKeyJwk": cleanJWK(ed)}},
				"services": A{docService("svc1", "LinkedDomains", "https://svc.example/1"),
					M{"id": "svc2", "type": "T", "serviceEndpoint": A{"https://svc.example/2", M{"uri": "https://svc.example/3"}}}}}},
			M{"action": "add-also-known-as", "uris": A{"https://aka.example/1"}},
			M{"action": "add-public-keys", "publicKeys": A{docKey("key3", kp, "authentication")}},
		}
		recC := commitmentOf(genKey(fr, "P-256").jwk(), 18)
		updC := commitmentOf(genKey(fr, "P-256").jwk(), 18)
		lim := 240
		if tier == "thorough" {
			lim = 100000
		}
		for _, c := range corruptions(normJSON(patchesTree), r, lim) {
			delta := M{"updateCommitment": updC, "patches": c}
			sd := M{"deltaHash": modelHash(delta, 18), "recoveryCommitment": recC}
			runAll("create-rehashed-confusion", jcs(M{"type": "create", "suffixData": sd, "delta": delta}))
			runAll("create-rehashed-confusion-long-form", []byte("did:ion:"+modelHash(sd, 18)+":"+b64(jcs(M{"suffixData": sd, "delta": delta}))))
		}
	}
	// 3. hostile patches
	{
		// first in a child process: an input that kills the process must not take the run down
		hostDoc := `{"publicKey":[{"id":"k1","type":"JsonWebKey2020"}],"service":[{"id":"s1"}],"arr":[1,[2,3],{"x":null}],"o":{"a":{"b":null}},"n":null}`
		hps := hostilePatches()
		seqs := make([]patchSeq, len(hps))
		for k, p := range hps {
			seqs[k] = patchSeq{Doc: hostDoc, Patches: []string{p}}
		}
		classes, details := runChildBatch(seqs)
		for k, p := range hps {
			if classes[k] >= 3 {
				record("hostile-patch-child-process", "FromBytes+Validate+ApplyPatches+Marshal", []byte(p), classes[k], details[k])
				continue
			}
			runAll("hostile-patch", []byte(p))
		}
	}
	// 3b. patch sequences, each in a child process (a fatal runtime error must not take the run down)
	{
		seqs := patchSequences(r, 0)
		classes, details := runChildBatch(seqs)
		for k, seq := range seqs {
			in, _ := json.Marshal(seq)
			record("patch-sequence-child-process", "FromBytes+Validate+ApplyPatches+Marshal", in, classes[k], details[k])
		}
	}
	// 3c. compact JWS whose protected header is nested millions of levels deep (the header decoder is
	// third-party code that recurses per level): each in a child process, answered with an error
	{
		var seqs []patchSeq
		for _, shape := range []string{"arrays", "objects", "unclosed", "behind-escaped-backslash", "behind-escaped-quote", "behind-closing-brackets-in-a-string"} {
			for _, depth := range []int{10001, 200000, 6000000} {
				seqs = append(seqs, patchSeq{HeaderDepth: depth, HeaderShape: shape})
			}
		}
		classes, details := runChildBatch(seqs)
		for k, sq := range seqs {
			record("jws-deep-header-child-process", "jwsutil.ParseJWS+VerifyJWS", []byte(fmt.Sprintf("protected header nested %d levels (%s)", sq.HeaderDepth, sq.HeaderShape)), classes[k], details[k])
		}
	}
	// 4. DIDs
	for _, dstr := range []string{"", ":", "::", "did:ion", "did:ion:", "did:ion::", "did:ion:a", "did:ion:a:", "did:ion:a:b", "did:ion:a:e30", "did:ion:a:bnVsbA", "did:ion:a:W10",
		"did:ns:did:ns:x", "did:ns:", "x:did:ns:y:z", "did:ion:" + strings.Repeat("a:", 2000), "did:ion:a:" + b64([]byte(`{"suffixData":5}`)),
		"did:ion:a:" + b64([]byte(`{"delta":{"patches":[null]}}`)), "did:ion:a:" + b64([]byte(`{"suffixData":{},"delta":{}}`))} {
		runAll("did", []byte(dstr))
	}
	// 5. JWK JSON
	for _, k := range []string{`{}`, `null`, `{"kty":"EC"}`, `{"kty":"EC","crv":"P-256"}`, `{"kty":"EC","crv":"P-256","x":"","y":""}`, `{"kty":"EC","crv":"secp256k1","x":"AA"}`,
		`{"kty":"EC","crv":"secp256k1","x":"AA","y":"AA"}`, `{"kty":"OKP","crv":"Ed25519"}`, `{"kty":"OKP","crv":"Ed25519","x":"AA"}`, `{"kty":"OKP","crv":"X25519","x":"AA"}`,
		`{"kty":"RSA","n":"AA","e":"AQAB"}`, `{"kty":"oct","k":"AA"}`, `{"kty":5}`, `{"kty":"EC","crv":"P-256","x":5}`, `{"kty":"EC","crv":"P-999","x":"AA","y":"AA"}`,
		`{"kty":"EC","crv":"P-256","x":"*","y":"*"}`, `{"kty":"EC","crv":"secp256k1","x":"AA","y":"AA","d":"AA"}`} {
		runAll("jwk", []byte(k))
	}
	return out
}

// ---- patch sequences in a child process ----
// A fatal runtime error (stack exhaustion while serialising a cyclic document, out of memory)
// cannot be recovered: the sequences most likely to cause one run in a child process with a
// small stack limit; class 4 = the process died.

type patchSeq struct {
	Doc     string   `json:"doc"`
	Patches []string `json:"patches"`
	// other work for the child: a compact JWS whose protected header is nested HeaderDepth levels deep
	// (built in the child; far too large to pass around), parsed and verified
	HeaderDepth int    `json:"header_depth,omitempty"`
	HeaderShape string `json:"header_shape,omitempty"`
}

// deepHeaderJWS: {"alg":"ES256","kid": [[[...]]] } and similar, as a compact JWS
func deepHeaderJWS(shape string, depth int) string {
	var hdr string
	switch shape {
	case "arrays":
		hdr = `{"alg":"ES256","kid":` + strings.Repeat("[", depth) + strings.Repeat("]", depth) + `}`
	case "objects":
		hdr = `{"alg":"ES256","kid":` + strings.Repeat(`{"a":`, depth) + "1" + strings.Repeat("}", depth) + `}`
	case "behind-escaped-backslash": // a string ending in an escaped backslash in front of the nesting
		hdr = `{"alg":"ES256","kid":"k\\","x":` + strings.Repeat("[", depth) + strings.Repeat("]", depth) + `}`
	case "behind-escaped-quote":
		hdr = `{"alg":"ES256","kid":"k\"[","x":` + strings.Repeat("[", depth) + strings.Repeat("]", depth) + `}`
	case "behind-closing-brackets-in-a-string":
		hdr = `{"alg":"ES256","kid":"` + strings.Repeat("]", 64) + `","x":` + strings.Repeat("[", depth) + strings.Repeat("]", depth) + `}`
	default: // unclosed
		hdr = `{"alg":"ES256","kid":` + strings.Repeat("[", depth)
	}
	return b64([]byte(hdr)) + ".e30.AAAA"
}

func childPatches() {
	debug.SetMaxStack(48 << 20)
	var ins []patchSeq
	if err := json.NewDecoder(os.Stdin).Decode(&ins); err != nil {
		fmt.Println("0 class=1")
		return
	}
	for idx, in := range ins {
		fmt.Printf("%d class=%d\n", idx, childOne(in))
	}
}

func childOne(in patchSeq) int {
	if in.HeaderDepth > 0 {
		class, _ := guarded(func() error {
			c := deepHeaderJWS(in.HeaderShape, in.HeaderDepth)
			_, e1 := jwsutil.ParseJWS(c)
			_, e2 := jwsutil.VerifyJWS(c, &jws.JWK{Kty: "EC", Crv: "P-256", X: "AA", Y: "AA"})
			if e1 == nil && e2 == nil {
				return nil
			}
			return fmt.Errorf("refused")
		})
		return class
	}
	class, _ := guarded(func() error {
		doc, e := document.FromBytes([]byte(in.Doc))
		if e != nil {
			return e
		}
		var ps []patch.Patch
		for _, pb := range in.Patches {
			p, e := patch.FromBytes([]byte(pb))
			if e != nil {
				return e
			}
			if e := patchvalidator.Validate(p); e != nil {
				return e
			}
			ps = append(ps, p)
		}
		res, e := doccomposer.New().ApplyPatches(doc, ps)
		if e != nil {
			return e
		}
		_, e = json.Marshal(res)
		return e
	})
	return class
}

// runChildBatch runs all sequences in as few child processes as possible: a child that dies is
// restarted after the sequence that killed it.
func runChildBatch(seqs []patchSeq) (classes []int, details []string) {
	classes, details = make([]int, len(seqs)), make([]string, len(seqs))
	start := 0
	for start < len(seqs) {
		in, _ := json.Marshal(seqs[start:])
		cmd := exec.Command(os.Args[0], "-child-patches")
		cmd.Stdin = bytes.NewReader(in)
		var outb, errb bytes.Buffer
		cmd.Stdout, cmd.Stderr = &outb, &errb
		timedOut := false
		if err := cmd.Start(); err != nil {
			for i := start; i < len(seqs); i++ {
				classes[i], details[i] = 1, "cannot start child"
			}
			return
		}
		done := make(chan error, 1)
		go func() { done <- cmd.Wait() }()
		select {
		case <-done:
		case <-time.After(120 * time.Second):
			cmd.Process.Kill()
			<-done
			timedOut = true
		}
		n := 0
		for _, line := range strings.Split(outb.String(), "\n") {
			var idx, class int
			if _, err := fmt.Sscanf(line, "%d class=%d", &idx, &class); err == nil && idx == n {
				classes[start+n] = class
				n++
			}
		}
		if start+n >= len(seqs) {
			return
		}
		// the child stopped at sequence start+n
		if timedOut {
			classes[start+n], details[start+n] = 3, "timeout"
		} else {
			first := strings.SplitN(errb.String(), "\n", 3)
			classes[start+n], details[start+n] = 4, "process died: "+strings.Join(first[:min(2, len(first))], " | ")
		}
		start += n + 1
	}
	return
}

func runChildSeq(seq patchSeq) (int, string) {
	c, d := runChildBatch([]patchSeq{seq})
	return c[0], d[0]
}

func patchSequences(r *rand.Rand, n int) []patchSeq {
	doc := `{"a":[{}],"m":{"k":{}},"a/b":{"c":{}},"t~":{},"o":{"0":{},"1":{}},"alsoKnownAs":["https://aka.example/1"]}`
	jp := func(ops ...string) string {
		return `{"action":"ietf-json-patch","patches":[` + strings.Join(ops, ",") + `]}`
	}
	cp := func(from, path string) string { return fmt.Sprintf(`{"op":"copy","from":%q,"path":%q}`, from, path) }
	mv := func(from, path string) string { return fmt.Sprintf(`{"op":"move","from":%q,"path":%q}`, from, path) }
	var out []patchSeq
	add := func(ps ...string) { out = append(out, patchSeq{Doc: doc, Patches: ps}) }
	// copy / move into the operation's own source, in every spelling of the shared prefix
	zero := []string{"0", "+0", "-0", "00", "000", "-00", "+00"}
	for _, z := range zero {
		add(jp(cp("/a/0", "/a/"+z+"/x")))
		add(jp(cp("/a/"+z, "/a/0/x")))
		add(jp(cp("/a/"+z, "/a/"+zero[r.Intn(len(zero))]+"/x/y")))
		add(jp(`{"op":"add","path":"/a/0/x","value":{}}`), jp(cp("/a/"+z, "/a/0/x/y")))
		add(jp(mv("/a/"+z, "/a/0/x")))
		add(jp(cp("/o/"+z, "/o/0/x")), jp(cp("/o/0", "/o/"+z+"/x")))
	}
	for _, pr := range [][2]string{{"/a", "/a/0/x"}, {"/a", "/a/-"}, {"/m", "/m/k/x"}, {"/m/k", "/m/k/x"}, {"/a~1b", "/a~1b/c/d"}, {"/a~1b/c", "/a~1b/c/d"}, {"/t~0", "/t~0/x"},
		{"", "/x"}, {"/", "/x"}, {"/m", "/m"}, {"/m", "/m/"}, {"/m/", "/m//x"}, {"/m", "//m/x"}, {"m", "/m/k/x"}, {"/m", "m/k/x"}, {"/M", "/m/k"}, {"/m/k", "/m"}} {
		add(jp(cp(pr[0], pr[1])))
		add(jp(mv(pr[0], pr[1])))
		add(jp(cp(pr[0], pr[1]), cp(pr[0], pr[1])))
	}
	// two-step chains: a copy that is fine, then one through the copy
	add(jp(cp("/m", "/m2"), cp("/m2", "/m/k/x"), cp("/m", "/m2/k/y")))
	add(jp(cp("/a", "/a2")), jp(cp("/a2/0", "/a/0/x"), cp("/a/0", "/a2/0/y")))
	// values of unexpected JSON type put where a list action will look later
	for _, v := range []string{`{"x":1}`, `[["y"]]`, `[{"x":1},["y"],null,5]`, `"s"`, `5`, `null`, `[null]`} {
		for _, member := range []string{"alsoKnownAs", "publicKey", "service"} {
			if member != "alsoKnownAs" {
				continue // the other two are protected from ietf-json-patch
			}
			set := jp(fmt.Sprintf(`{"op":"add","path":"/%s","value":%s}`, member, v))
			add(set, `{"action":"remove-also-known-as","uris":["https://aka.example/1"]}`)
			add(set, `{"action":"add-also-known-as","uris":["https://aka.example/2"]}`)
			add(set, `{"action":"remove-also-known-as","uris":["https://aka.example/1"]}`, `{"action":"add-also-known-as","uris":["https://aka.example/1"]}`)
		}
	}
	for _, v := range []string{`{"x":1}`, `[5]`, `"s"`, `null`} {
		// members the key / service actions read, replaced through a JSON patch on a parent that is not protected
		add(jp(fmt.Sprintf(`{"op":"add","path":"/publicKeyX","value":%s}`, v)), `{"action":"remove-public-keys","ids":["k1"]}`, `{"action":"remove-services","ids":["s1"]}`)
	}
	// key / service lists holding entries that are no objects (in front of, between and behind real
	// entries), installed by a replace; then the list actions re-state, remove and extend them
	key := func(id string) string {
		return `{"id":"` + id + `","type":"JsonWebKey2020","purposes":["authentication"],"publicKeyJwk":{"kty":"EC","crv":"P-256","x":"PUymIqdtF_qxaAqPABSw-C-owT1KYYQbsMKFM-L9fJA","y":"nM84jDHCMOTGTh_ZdHq4dBBdo4Z5PkEOW9jA8z8IsGc"}}`
	}
	svc := func(id string) string {
		return `{"id":"` + id + `","type":"T","serviceEndpoint":"https://example.com/` + id + `"}`
	}
	for _, junk := range []string{`"not-an-entry"`, `5`, `null`, `["x"]`, `true`} {
		for _, shape := range []string{"%[1]s,%[2]s", "%[2]s,%[1]s", "%[2]s,%[1]s,%[3]s", "%[1]s,%[1]s,%[2]s,%[3]s"} {
			ks := fmt.Sprintf(shape, junk, key("key1"), key("key2"))
			ss := fmt.Sprintf(shape, junk, svc("svc1"), svc("svc2"))
			rep := `{"action":"replace","document":{"publicKeys":[` + ks + `],"services":[` + ss + `]}}`
			add(rep, `{"action":"add-public-keys","publicKeys":[`+key("key1")+`]}`)
			add(rep, `{"action":"add-services","services":[`+svc("svc1")+`]}`)
			add(rep, `{"action":"add-public-keys","publicKeys":[`+key("new")+`,`+key("key2")+`]}`, `{"action":"remove-public-keys","ids":["key1"]}`)
			add(rep, `{"action":"remove-services","ids":["svc1"]}`, `{"action":"add-services","services":[`+svc("svc2")+`,`+svc("new")+`]}`)
		}
	}
	for len(out) < n {
		out = append(out, out[r.Intn(len(out))])
	}
	return out
}

func init() {
	generators["C19"] = generator{"c19case", "judge_c19", fuzzImports, genC19}
}
