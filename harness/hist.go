package main

// Histories of anchored operations for the applier properties (C01, C02, C09, C12): built by
// the independent builder with one labelled mutation per operation, applied through the real
// parser / composer / applier, observed field by field.

import (
	"bytes"
	"encoding/json"
	"fmt"
	"math/rand"
	"reflect"
	"sort"
	"strings"
	"sync"

	"github.com/trustbloc/sidetree-go/pkg/api/operation"
	"github.com/trustbloc/sidetree-go/pkg/api/protocol"
	"github.com/trustbloc/sidetree-go/pkg/versions/1_0/doccomposer"
	"github.com/trustbloc/sidetree-go/pkg/versions/1_0/operationapplier"
	"github.com/trustbloc/sidetree-go/pkg/versions/1_0/operationparser"
)

type view struct {
	ParseOK, SignedOK, SigOK, SuffixOK, DeltaHashOK, DeltaValid bool
	UpdateC, RecoveryC                                          string
	Origin                                                      interface{}
	From, Until                                                 int64
	Patches                                                     []interface{}
}

func (v view) coq() string {
	if v.Patches == nil {
		v.Patches = []interface{}{}
	}
	return fmt.Sprintf("(mk_view %s %s %s %s %s %s %s %s %s %s %s %s)",
		cBool(v.ParseOK), cBool(v.SignedOK), cBool(v.SigOK), cBool(v.SuffixOK), cBool(v.DeltaHashOK), cBool(v.DeltaValid),
		cStr(v.UpdateC), cStr(v.RecoveryC), cJSON(v.Origin), cZ(v.From), cZ(v.Until), cJSON(v.Patches)[len("(JArr "):len(cJSON(v.Patches))-1])
}

type histStep struct {
	Type      string // anchored operation type
	Time, Num uint64
	Ver       uint64
	Canon     string
	Equiv     []string
	Bytes     []byte
	V         view
	Label     string
	// observations
	ImplOK           bool
	ImplRM           *protocol.ResolutionModel
	InputsIntact     bool
	AgainDiffers     bool      // the same call repeated on the same applier instance gave another answer
	ValidatorsMatter bool      // an applier whose parser has refusing request-time validators gave another answer
	ParserSeen       *[2]int64 // (from, until) handed to the time validator by a non-batch Parse
	ParserRefused    bool
	Cfg              protocol.Protocol
	ByteLevel        bool
	Genuine          []byte // see built.genuine
}

type histCase struct {
	Cfg   protocol.Protocol
	Steps []*histStep
	Label string
}

func coqType(t string) string {
	switch t {
	case "create":
		return "TCreate"
	case "update":
		return "TUpdate"
	case "recover":
		return "TRecover"
	case "deactivate":
		return "TDeactivate"
	}
	return "TOther"
}

func coqProtocol(p protocol.Protocol) string {
	algs := make([]string, len(p.MultihashAlgorithms))
	for i, a := range p.MultihashAlgorithms {
		algs[i] = cZu(uint64(a))
	}
	return fmt.Sprintf("(Build_protocol %s %s %s %s %s %s %s %s %s %s %s %s %s %s %s %s %s %s)",
		cZu(p.GenesisTime), cList(algs), cZu(uint64(p.MaxOperationCount)), cZu(uint64(p.MaxOperationSize)),
		cZu(uint64(p.MaxOperationHashLength)), cZu(uint64(p.MaxDeltaSize)), cZu(uint64(p.MaxCasURILength)),
		cStr(p.CompressionAlgorithm), cZu(uint64(p.MaxCoreIndexFileSize)), cZu(uint64(p.MaxProofFileSize)),
		cZu(uint64(p.MaxProvisionalIndexFileSize)), cZu(uint64(p.MaxChunkFileSize)), cStrList(p.Patches),
		cStrList(p.SignatureAlgorithms), cStrList(p.KeyAlgorithms), cZu(p.MaxOperationTimeDelta), cZu(p.NonceSize),
		cZu(uint64(p.MaxMemoryDecompressionFactor)))
}

func opRefs(ops []*operation.AnchoredOperation) string {
	items := make([]string, len(ops))
	for i, o := range ops {
		items[i] = cZu(o.TransactionNumber)
	}
	return cList(items)
}

func coqRM(rm *protocol.ResolutionModel) string {
	doc := "None"
	if rm.Doc != nil {
		doc = "(Some " + cObj(map[string]interface{}(rm.Doc)) + ")"
	}
	return fmt.Sprintf("(Build_rmodel %s %s %s %s %s %s %s %s %s %s %s %s %s %s %s)",
		doc, cZu(rm.CreatedTime), cZu(rm.UpdatedTime), cZu(rm.LastOperationTransactionTime),
		cZu(rm.LastOperationTransactionNumber), cZu(rm.LastOperationProtocolVersion),
		cStr(rm.UpdateCommitment), cStr(rm.RecoveryCommitment), cBool(rm.Deactivated), cJSON(normJSON(rm.AnchorOrigin)),
		cStrList(rm.EquivalentReferences), cStr(rm.CanonicalReference), cStr(rm.VersionID),
		opRefs(rm.PublishedOperations), opRefs(rm.UnpublishedOperations))
}

// normJSON brings an arbitrary interface{} value into the decoded-JSON shape (with json.Number).
func normJSON(v interface{}) interface{} {
	if v == nil {
		return nil
	}
	b, err := json.Marshal(v)
	if err != nil {
		return fmt.Sprintf("<unmarshalable %T>", v)
	}
	return mustDecode(b)
}

func (s *histStep) coq() string {
	impl := "None"
	if s.ImplOK {
		impl = "(Some " + coqRM(s.ImplRM) + ")"
	}
	seen := "None"
	if s.ParserSeen != nil {
		seen = fmt.Sprintf("(Some (%s, %s))", cZ(s.ParserSeen[0]), cZ(s.ParserSeen[1]))
	}
	byteLevel := "None"
	if s.ByteLevel {
		var tree interface{}
		if json.Unmarshal(s.Bytes, &tree) != nil {
			tree = nil
		}
		byteLevel = fmt.Sprintf("(Some (%s, %s, %s))", coqProtocol(s.Cfg), urlOracle(tree), cStr(string(s.Bytes)))
	}
	return fmt.Sprintf("(mk_hstep (Build_anchored %s %s %s %s %s %s %s) %s %s %s %s %s %s %s)",
		coqType(s.Type), cZu(s.Time), cZu(s.Num), cZu(s.Ver), cStr(s.Canon), cStrList(s.Equiv), s.V.coq(),
		impl, cBool(s.InputsIntact), cBool(!s.AgainDiffers), cBool(!s.ValidatorsMatter), seen, cBool(s.ParserRefused), byteLevel)
}

func (c *histCase) coq() string {
	steps := make([]string, len(c.Steps))
	for i, s := range c.Steps {
		steps[i] = s.coq()
	}
	return fmt.Sprintf("(mk_hcase %s [102%%Z; 101%%Z] [202%%Z; 201%%Z] %s)", coqProtocol(c.Cfg), cList(steps))
}

func (c *histCase) jsonRecord() map[string]interface{} {
	steps := []interface{}{}
	for _, s := range c.Steps {
		st := map[string]interface{}{
			"type": s.Type, "time": s.Time, "number": s.Num, "version": s.Ver, "canonical": s.Canon,
			"equivalent": s.Equiv, "request": string(s.Bytes), "label": s.Label, "impl_accepted": s.ImplOK,
			"view": s.V, "inputs_intact": s.InputsIntact, "repeat_same": !s.AgainDiffers, "validators_ignored": !s.ValidatorsMatter,
		}
		if s.ImplOK {
			st["impl_state"] = s.ImplRM
		}
		if s.ParserSeen != nil {
			st["time_validator_args"] = []int64{s.ParserSeen[0], s.ParserSeen[1]}
		}
		steps = append(steps, st)
	}
	return map[string]interface{}{"label": c.Label, "protocol": c.Cfg, "steps": steps}
}

// ---- protocol configurations ------------------------------------------------------------------

var allPatches = []string{"replace", "add-public-keys", "remove-public-keys", "add-services", "remove-services",
	"ietf-json-patch", "add-also-known-as", "remove-also-known-as"}

// baseProtocol: every numeric field distinct so that a field used in place of another shows.
func baseProtocol(r *rand.Rand) protocol.Protocol {
	return protocol.Protocol{
		GenesisTime:                  []uint64{uint64(1 + r.Intn(5)), 0, 10000000, 1 << 40}[r.Intn(4)], // windows must not depend on it
		MultihashAlgorithms:          []uint{18},
		MaxOperationCount:            uint(2000 + r.Intn(100)),
		MaxOperationSize:             uint(20000 + r.Intn(1000)),
		MaxOperationHashLength:       100,
		MaxDeltaSize:                 uint(10000 + r.Intn(1000)),
		MaxCasURILength:              uint(100 + r.Intn(50)),
		CompressionAlgorithm:         "GZIP",
		MaxCoreIndexFileSize:         uint(1000000 + r.Intn(1000)),
		MaxProofFileSize:             uint(2500000 + r.Intn(1000)),
		MaxProvisionalIndexFileSize:  uint(1100000 + r.Intn(1000)),
		MaxChunkFileSize:             uint(10000000 + r.Intn(1000)),
		Patches:                      append([]string{}, allPatches...),
		SignatureAlgorithms:          []string{"EdDSA", "ES256", "ES256K", "ES384", "ES512"},
		KeyAlgorithms:                []string{"Ed25519", "P-256", "P-384", "P-521", "secp256k1"},
		MaxOperationTimeDelta:        uint64(300 + r.Intn(3000)),
		NonceSize:                    16,
		MaxMemoryDecompressionFactor: uint(3 + r.Intn(3)),
	}
}

// ---- DID builder state -------------------------------------------------------------------------

type didState struct {
	r       *rand.Rand
	cfg     protocol.Protocol
	code    uint64
	suffix  string
	upd     *keyPair
	rec     *keyPair
	kinds   []string
	nextSvc int
	spare   bool // keys whose coordinates are spelled with spare bits set
}

func (d *didState) newKey() *keyPair {
	k := genKey(d.r, d.kinds[d.r.Intn(len(d.kinds))])
	k.spare = d.spare
	if d.r.Intn(4) == 0 {
		n := make([]byte, d.cfg.NonceSize)
		rngReader{d.r}.Read(n)
		k.nonce = b64(n)
	}
	return k
}

func (d *didState) somePatches() []interface{} {
	d.nextSvc++
	switch d.r.Intn(7) {
	case 5: // a replace without keys: the document then holds a null publicKey member
		return []interface{}{replacePatch(nil, []interface{}{docService(fmt.Sprintf("svc%d", d.nextSvc), "T", "https://example.com/only")})}
	case 6: // a member whose value is null
		return []interface{}{map[string]interface{}{"action": "ietf-json-patch",
			"patches": []interface{}{map[string]interface{}{"op": "add", "path": fmt.Sprintf("/nothing%d", d.nextSvc), "value": nil}}}}
	case 0:
		return []interface{}{replacePatch(
			[]interface{}{docKey(fmt.Sprintf("key%d", d.nextSvc), genKey(d.r, "P-256"), "authentication")},
			[]interface{}{docService(fmt.Sprintf("svc%d", d.nextSvc), "T", "https://example.com/x")})}
	case 1:
		return []interface{}{map[string]interface{}{"action": "add-services",
			"services": []interface{}{docService(fmt.Sprintf("svc%d", d.nextSvc), "T", "https://example.com/s")}}}
	case 2:
		return []interface{}{map[string]interface{}{"action": "add-public-keys",
			"publicKeys": []interface{}{docKey(fmt.Sprintf("key%d", d.nextSvc), genKey(d.r, "Ed25519"), "assertionMethod")}}}
	case 3:
		return []interface{}{map[string]interface{}{"action": "add-also-known-as",
			"uris": []interface{}{fmt.Sprintf("https://aka.example/%d", d.nextSvc)}}}
	default:
		return []interface{}{map[string]interface{}{"action": "ietf-json-patch",
			"patches": []interface{}{map[string]interface{}{"op": "add", "path": fmt.Sprintf("/extra%d", d.nextSvc), "value": map[string]interface{}{"n": d.nextSvc}}}}}
	}
}

// failingPatches pass validation but fail in the composer (json-patch remove of a missing member).
func failingPatches() []interface{} {
	return []interface{}{
		map[string]interface{}{"action": "add-services", "services": []interface{}{docService("leak", "T", "https://example.com/leak")}},
		map[string]interface{}{"action": "ietf-json-patch",
			"patches": []interface{}{map[string]interface{}{"op": "remove", "path": "/doesNotExist"}}}}
}

type built struct {
	bytes []byte
	v     view
	label string
	typ   string // anchored type to use
	// the genuine request a forged one was derived from (same signature): applied by other goroutines
	// while the forged one is being judged
	genuine []byte
}

func hdrFor(k *keyPair) map[string]interface{} { return map[string]interface{}{"alg": k.alg} }

func flipBitB64(s string, r *rand.Rand) string {
	// flip one bit of the decoded bytes, re-encode
	raw, err := b64dec(s)
	if err != nil || len(raw) == 0 {
		return s + "A"
	}
	i := r.Intn(len(raw))
	raw[i] ^= 1 << uint(r.Intn(8))
	return b64(raw)
}

// mutation names per operation type; "" = valid
var commonSigned = []string{"", "", "", "sig_bitflip", "payload_reencoded", "key_subst_no_resign", "kid_added_no_resign",
	"sig_truncated", "sig_extended", "sig_by_other_key", "key_subst_resigned", "key_subst_resigned_old_reveal", "reveal_substituted",
	"reveal_unconfigured_alg", "reveal_truncated_digest", "reveal_respelled", "extra_header", "alg_not_allowed", "alg_missing", "curve_not_allowed", "nonce_wrong_size",
	"malformed_json", "missing_did_suffix", "missing_signed_data", "absent_did_suffix", "absent_reveal_value", "absent_signed_data", "absent_type",
	"alg_other_case", "header_duplicate_member_no_resign", "header_null_member_no_resign", "jws_trailing_segment", "jws_segment_padded", "payload_respelled_no_resign", "jws_two_parts", "jws_empty_sig", "payload_not_json",
	"json_type_member_differs", "request_padded", "early", "late", "at_from", "at_until", "at_default_until", "after_default_until", "until_only", "until_only_far", "inverted_window", "negative_until", "negative_from"}

var deltaMuts = []string{"delta_substituted", "delta_no_patches", "delta_disabled_action", "delta_invalid_patch",
	"delta_oversize", "delta_bad_update_commitment", "update_commitment_mh_extra_octet", "update_commitment_mh_short_digest", "delta_missing", "delta_missing_hash_of_null", "compose_fails",
	"signed_delta_hash_unconfigured_alg", "delta_hash_truncated", "delta_hash_respelled", "delta_invalid_patch_after_valid_same_action", "big_request", "rotate_nonce_only", "delta_at_size_limit_html", "delta_rewritten_no_resign_concurrent"}

func mutationsFor(typ string) []string {
	switch typ {
	case "create":
		return []string{"", "", "malformed_json", "missing_suffix_data", "recovery_commitment_not_mh", "recovery_commitment_mh_extra_octet", "recovery_commitment_mh_short_digest", "delta_hash_not_mh", "delta_hash_mh_extra_octet",
			"delta_substituted", "delta_no_patches", "delta_disabled_action", "delta_invalid_patch", "delta_oversize",
			"delta_bad_update_commitment", "update_commitment_mh_extra_octet", "update_commitment_mh_short_digest", "delta_missing", "delta_missing_hash_of_null", "compose_fails",
			"json_type_member_differs", "request_padded", "origin_object", "origin_string", "delta_hash_truncated", "delta_hash_respelled", "delta_invalid_patch_after_valid_same_action", "big_request", "rotate_nonce_only", "delta_at_size_limit_html"}
	case "update":
		return append(append([]string{}, commonSigned...), deltaMuts...)
	case "recover":
		return append(append(append([]string{}, commonSigned...), deltaMuts...), "key_reuse", "recovery_commitment_not_mh", "recovery_commitment_mh_extra_octet", "recovery_commitment_mh_short_digest", "origin_object")
	case "deactivate":
		return append(append([]string{}, commonSigned...), "signed_suffix_mismatch", "signed_suffix_missing", "recover_payload_replayed", "extra_signed_commitments",
			"signed_reveal_own_outer_other", "signed_reveal_attacker", "signed_reveal_same")
	}
	return []string{""}
}

// buildOp builds one operation of the given type with the given mutation. t is the anchoring
// time the step will use (needed by the window mutations, which set from/until relative to it).
// It returns the bytes, the ground-truth view and the protocol to use (some mutations are
// violations only relative to a configuration).
func (d *didState) buildOp(typ, mut string, t uint64, cfg *protocol.Protocol) built {
	r := d.r
	code := d.code
	v := view{ParseOK: true, SignedOK: true, SigOK: true, SuffixOK: true, DeltaHashOK: true, DeltaValid: true}
	patches := d.somePatches()
	if mut == "compose_fails" {
		patches = failingPatches()
	}
	if mut == "big_request" { // a valid request of a few kilobytes (nothing may be cut off on the way)
		var svcs []interface{}
		for k := 0; k < 14; k++ {
			svcs = append(svcs, map[string]interface{}{"id": fmt.Sprintf("bigsvc%d", k), "type": "LinkedDomains",
				"serviceEndpoint": fmt.Sprintf("https://service-%d.example.com/a/rather/long/path/to/make/the/request/large/%d", k, k)})
		}
		patches = []interface{}{map[string]interface{}{"action": "add-services", "services": svcs}}
	}
	nextUpd := d.newKey()
	nextRec := d.newKey()
	if mut == "rotate_nonce_only" { // the next keys are the current key material under another nonce: other keys, other commitments
		renonce := func(k *keyPair) *keyPair {
			if k == nil {
				return d.newKey()
			}
			cp := *k
			if cp.nonce != "" { // a key with a nonce rotates to the bare key material, a bare key gets a nonce
				cp.nonce = ""
			} else {
				n := make([]byte, d.cfg.NonceSize)
				rngReader{d.r}.Read(n)
				cp.nonce = b64(n)
			}
			return &cp
		}
		nextUpd, nextRec = renonce(d.upd), renonce(d.rec)
	}
	if mut == "delta_at_size_limit_html" { // characters an HTML-safe encoder would escape; the limit is on the canonical bytes
		patches = []interface{}{map[string]interface{}{"action": "add-services", "services": []interface{}{map[string]interface{}{
			"id": "htmlsvc", "type": "T", "serviceEndpoint": "https://example.com/q?a=1&b=2&c=3&d=4&e=5"}}}}
	}
	delta := map[string]interface{}{"patches": patches, "updateCommitment": commitmentOf(nextUpd.jwk(), code)}
	switch mut {
	case "delta_at_size_limit_html":
		cfg.MaxDeltaSize = uint(len(jcs(delta)))
	case "delta_no_patches":
		delta["patches"] = []interface{}{}
		v.DeltaValid = false
	case "delta_disabled_action":
		act := patches[0].(map[string]interface{})["action"].(string)
		var keep []string
		for _, p := range cfg.Patches {
			if p != act {
				keep = append(keep, p)
			}
		}
		cfg.Patches = keep
		v.DeltaValid = false
	case "delta_invalid_patch":
		delta["patches"] = []interface{}{map[string]interface{}{"action": "remove-services", "ids": []interface{}{"bad id!"}}}
		v.DeltaValid = false
	case "delta_invalid_patch_after_valid_same_action": // every patch of a delta is validated, not only the first of its action
		delta["patches"] = []interface{}{
			map[string]interface{}{"action": "remove-services", "ids": []interface{}{"svc1"}},
			map[string]interface{}{"action": "remove-services", "ids": []interface{}{"bad id!"}}}
		v.DeltaValid = false
	case "delta_bad_update_commitment":
		delta["updateCommitment"] = "abc"
		v.DeltaValid = false
	case "update_commitment_mh_extra_octet", "update_commitment_mh_short_digest": // begins like a multihash of the configured algorithm, but is none
		delta["updateCommitment"] = malformMultihash(delta["updateCommitment"].(string), mut)
		v.DeltaValid = false
	case "delta_oversize":
		cfg.MaxDeltaSize = uint(len(jcs(delta)) - 1)
		v.DeltaValid = false
	}
	v.UpdateC = delta["updateCommitment"].(string)
	v.Patches = delta["patches"].([]interface{})
	deltaHash := modelHash(delta, code)
	if mut == "delta_missing_hash_of_null" {
		deltaHash = modelHash(nil, code)
	}
	if mut == "delta_hash_truncated" { // a well-formed multihash carrying only a prefix of the delta's digest
		full := digest(code, jcs(delta))
		deltaHash = b64(multihash(code, full[:[]int{0, 1, 16, len(full) - 1}[r.Intn(4)]]))
		v.DeltaHashOK = false
	}
	if mut == "delta_hash_respelled" { // another string that decodes to the same octets: not the hash of the delta
		deltaHash = respell(deltaHash, r)
		v.DeltaHashOK = false
	}
	if mut == "signed_delta_hash_unconfigured_alg" || (mut == "delta_hash_not_mh" && typ == "create") {
		deltaHash = "notAMultihash"
		v.ParseOK = false
	}
	if mut == "delta_hash_mh_extra_octet" && typ == "create" {
		deltaHash = malformMultihash(deltaHash, mut)
		v.ParseOK = false
	}

	var from, until int64
	delta0 := int64(cfg.MaxOperationTimeDelta)
	ti := int64(t)
	switch mut {
	case "early":
		from, until = ti+1+int64(r.Intn(50)), ti+100
	case "late":
		from, until = ti-100, ti-1-int64(r.Intn(50))
	case "at_from":
		from, until = ti, ti+int64(r.Intn(3))
	case "at_until":
		from, until = ti-int64(r.Intn(3)), ti
	case "at_default_until":
		from, until = ti-delta0, 0
	case "after_default_until":
		from, until = ti-delta0-1, 0
	case "until_only":
		from, until = 0, ti+int64(r.Intn(3))-1
	case "until_only_far": // until-only, anchored long before the bound (more than the allowed delta): effective, there is no lower bound
		from, until = 0, ti+delta0+1+int64(r.Intn(100000))
	case "negative_until": // until-only with a negative bound: never effective
		from, until = 0, -1-int64(r.Intn(100))
	case "negative_from": // a negative from with a future (or defaulted) until: effective
		from, until = -1-int64(r.Intn(50)), []int64{ti + 100, 0}[r.Intn(2)]
		if until == 0 && from+delta0 < ti {
			until = ti + 100
		}
	case "inverted_window": // 0 < until < from: never effective; the validator must still see exactly this pair
		from = ti - int64(r.Intn(30)) + 10
		until = from - 1 - int64(r.Intn(5))
		if until < 1 {
			from, until = 7, 3
		}
	default:
		switch r.Intn(4) {
		case 0:
			from, until = ti-int64(r.Intn(20)), ti+int64(r.Intn(20))
		case 1:
			from, until = ti-int64(r.Intn(int(delta0)+1)), 0
		}
	}
	if from < 0 && mut != "negative_from" {
		from = 0
		if until == 0 && mut == "after_default_until" {
			// cannot express with non-negative from; fall back to an explicit expired window
			from, until = 1, ti-1
		}
	}
	v.From, v.Until = from, until

	op := &opParts{typ: typ, didSuffix: d.suffix}
	addWindow := func(m map[string]interface{}) {
		if from != 0 {
			m["anchorFrom"] = from
		}
		if until != 0 {
			m["anchorUntil"] = until
		}
	}
	var origin interface{}
	switch mut {
	case "origin_object":
		origin = map[string]interface{}{"system": "ledger", "n": 7}
	case "origin_string":
		origin = "origin.example"
	default:
		if r.Intn(3) == 0 {
			origin = fmt.Sprintf("origin%d.example", r.Intn(9))
		}
	}

	var signer, payloadKey *keyPair
	var payload map[string]interface{}
	switch typ {
	case "create":
		d.rec, d.upd = nextRec, nextUpd
		sd := map[string]interface{}{"deltaHash": deltaHash, "recoveryCommitment": commitmentOf(nextRec.jwk(), code)}
		if origin != nil {
			sd["anchorOrigin"] = origin
		}
		if r.Intn(4) == 0 {
			sd["type"] = "t1"
		}
		if mut == "recovery_commitment_not_mh" {
			sd["recoveryCommitment"] = "xyz"
			v.ParseOK = false
		}
		if mut == "recovery_commitment_mh_extra_octet" || mut == "recovery_commitment_mh_short_digest" {
			sd["recoveryCommitment"] = malformMultihash(sd["recoveryCommitment"].(string), mut)
			v.ParseOK = false
		}
		v.RecoveryC = sd["recoveryCommitment"].(string)
		v.Origin = origin
		op.suffixData = sd
		op.delta = delta
		if mut == "missing_suffix_data" {
			op.suffixData = nil
			v.ParseOK = false
		}
		d.suffix = modelHash(sd, code)
		v.From, v.Until = 0, 0
	case "update":
		signer, payloadKey = d.upd, d.upd
		payload = map[string]interface{}{"updateKey": nil, "deltaHash": deltaHash}
		addWindow(payload)
		op.delta = delta
	case "recover":
		signer, payloadKey = d.rec, d.rec
		payload = map[string]interface{}{"recoveryKey": nil, "deltaHash": deltaHash, "recoveryCommitment": commitmentOf(nextRec.jwk(), code)}
		if origin != nil {
			payload["anchorOrigin"] = origin
		}
		v.Origin = origin
		if mut == "key_reuse" {
			payload["recoveryCommitment"] = commitmentOf(d.rec.jwk(), code)
			v.ParseOK = false
		}
		if mut == "recovery_commitment_not_mh" {
			payload["recoveryCommitment"] = "xyz"
			v.ParseOK = false
		}
		if mut == "recovery_commitment_mh_extra_octet" || mut == "recovery_commitment_mh_short_digest" {
			payload["recoveryCommitment"] = malformMultihash(payload["recoveryCommitment"].(string), mut)
			v.ParseOK = false
		}
		v.RecoveryC = payload["recoveryCommitment"].(string)
		addWindow(payload)
		op.delta = delta
	case "deactivate":
		signer, payloadKey = d.rec, d.rec
		payload = map[string]interface{}{"didSuffix": d.suffix, "recoveryKey": nil}
		if mut == "signed_suffix_mismatch" {
			payload["didSuffix"] = d.suffix + "x"
			v.ParseOK, v.SuffixOK = false, false
		}
		if mut == "extra_signed_commitments" { // valid: unknown members of the signed data are ignored
			payload["recoveryCommitment"] = commitmentOf(nextRec.jwk(), code)
			payload["updateCommitment"] = commitmentOf(nextUpd.jwk(), code)
			payload["deltaHash"] = deltaHash
		}
		switch mut {
		case "signed_reveal_same": // the optional signed copy of the reveal value, equal to the request's: valid
			payload["revealValue"] = revealOf(d.rec.jwk(), code)
		case "signed_reveal_own_outer_other": // signed copy right, the request's own reveal value of another key: refused
			payload["revealValue"] = revealOf(d.rec.jwk(), code)
		case "signed_reveal_attacker": // handled below: another key signs, its reveal value only in the signed copy
		}
		if mut == "signed_suffix_missing" {
			delete(payload, "didSuffix")
			v.ParseOK, v.SuffixOK = false, false
		}
		if mut == "recover_payload_replayed" { // what an observer of a published recover holds: no signed suffix at all
			payload = map[string]interface{}{"recoveryKey": nil, "deltaHash": deltaHash, "recoveryCommitment": commitmentOf(nextRec.jwk(), code)}
			v.ParseOK, v.SuffixOK = false, false
		}
		addWindow(payload)
		v.UpdateC, v.Patches = "", nil
	}

	if typ != "create" {
		keyField := "recoveryKey"
		if typ == "update" {
			keyField = "updateKey"
		}
		other := d.newKey()
		hdr := hdrFor(signer)
		revealKey := payloadKey
		switch mut {
		case "key_subst_no_resign":
			// sign with the real key over a payload carrying another key: done below by swapping payloadKey
		case "sig_by_other_key":
			signer = other
			hdr = hdrFor(payloadKey)
			if other.alg != payloadKey.alg {
				// keep the header consistent with the embedded key so that only the signature is wrong
				other = genKey(r, payloadKey.kind)
				signer = other
			}
			v.SigOK = false
		case "key_subst_resigned":
			signer, payloadKey, revealKey = other, other, other
			hdr = hdrFor(other)
		case "key_subst_resigned_old_reveal":
			signer, payloadKey = other, other
			hdr = hdrFor(other)
			v.ParseOK = false
		case "signed_reveal_attacker": // another key signs and carries its own reveal value in the signed data; the request keeps the owner's
			signer, payloadKey = other, other
			hdr = hdrFor(other)
			payload["revealValue"] = revealOf(other.jwk(), code)
			v.ParseOK = false
		case "curve_not_allowed":
			var keep []string
			for _, k := range cfg.KeyAlgorithms {
				if k != payloadKey.kind {
					keep = append(keep, k)
				}
			}
			cfg.KeyAlgorithms = keep
			v.ParseOK = false
		case "alg_not_allowed":
			var keep []string
			for _, a := range cfg.SignatureAlgorithms {
				if a != signer.alg {
					keep = append(keep, a)
				}
			}
			cfg.SignatureAlgorithms = keep
			v.ParseOK = false
		case "alg_missing":
			hdr = map[string]interface{}{"kid": "k"}
			v.ParseOK = false
		case "alg_other_case": // signed over a header naming the algorithm in another letter case: not an allowed algorithm
			alt := strings.ToLower(signer.alg)
			if alt == signer.alg {
				alt = strings.ToUpper(signer.alg)
			}
			hdr = map[string]interface{}{"alg": alt}
			v.ParseOK = false
		case "extra_header":
			hdr["typ"] = "JWT"
			v.ParseOK = false
		case "nonce_wrong_size":
			cp := *payloadKey
			n := make([]byte, cfg.NonceSize+1)
			rngReader{r}.Read(n)
			cp.nonce = b64(n)
			payloadKey, revealKey, signer = &cp, &cp, &cp
			v.ParseOK = false
		}
		payload[keyField] = payloadKey.jwk()
		payloadBytes := jcs(payload)
		if mut == "payload_not_json" {
			payloadBytes = []byte("not json at all")
			v.ParseOK = false
		}
		jws := compactJWS(r, hdr, payloadBytes, signer)
		parts := strings.Split(jws, ".")
		switch mut {
		case "sig_bitflip":
			parts[2] = flipBitB64(parts[2], r)
			v.SigOK = false
		case "sig_truncated":
			raw, _ := b64dec(parts[2])
			parts[2] = b64(raw[:len(raw)-1])
			v.SigOK = false
		case "sig_extended": // the valid signature followed by further octets
			raw, _ := b64dec(parts[2])
			extra := make([]byte, 1+r.Intn(8))
			if r.Intn(2) == 0 {
				rngReader{r}.Read(extra)
			}
			parts[2] = b64(append(raw, extra...))
			v.SigOK = false
		case "payload_reencoded":
			p2 := map[string]interface{}{}
			for k, val := range payload {
				p2[k] = val
			}
			p2["anchorUntil"] = until + 1000
			if until == 0 {
				p2["anchorUntil"] = ti + 1000
			}
			v.Until = p2["anchorUntil"].(int64)
			parts[1] = b64(jcs(p2))
			v.SigOK = false
		case "payload_respelled_no_resign": // the same signed values in another spelling (member order, blanks): not the octets that were signed
			names := make([]string, 0, len(payload))
			for k := range payload {
				names = append(names, k)
			}
			sort.Sort(sort.Reverse(sort.StringSlice(names)))
			var sb strings.Builder
			sb.WriteString(" {")
			for i, k := range names {
				if i > 0 {
					sb.WriteString(" ,")
				}
				sb.Write(jcs(k))
				sb.WriteString(": ")
				sb.Write(jcs(payload[k]))
			}
			sb.WriteString("}\n")
			parts[1] = b64([]byte(sb.String()))
			v.SigOK = false
		case "key_subst_no_resign":
			p2 := map[string]interface{}{}
			for k, val := range payload {
				p2[k] = val
			}
			// same key type so that the header algorithm still fits
			o2 := genKey(r, payloadKey.kind)
			p2[keyField] = o2.jwk()
			parts[1] = b64(jcs(p2))
			revealKey = o2
			v.SigOK = false
		case "header_duplicate_member_no_resign": // a member twice, the last occurrence being what was signed: not the signed header
			parts[0] = b64([]byte(`{"alg":"none","alg":` + string(jcs(signer.alg)) + `}`))
			v.ParseOK = false
		case "header_null_member_no_resign": // a further member whose value is null: neither the signed header nor an allowed member
			parts[0] = b64([]byte(`{"alg":` + string(jcs(signer.alg)) + `,"` + []string{"typ", "b64", "crit", "jwk"}[r.Intn(4)] + `":null}`))
			v.ParseOK = false
		case "jws_trailing_segment": // something behind the signature segment: not a compact JWS
			parts = append(parts, []string{"", "AAAA", parts[2]}[r.Intn(3)])
			v.ParseOK = false
		case "jws_segment_padded": // base64url with its "=" padding on every segment that has any: not a compact JWS
			any := false
			for k := range parts {
				if pad := (4 - len(parts[k])%4) % 4; pad > 0 {
					parts[k] += strings.Repeat("=", pad)
					any = true
				}
			}
			if !any { // every segment a multiple of four characters: pad an empty group instead
				parts[2] += "===="
			}
			v.ParseOK = false
		case "kid_added_no_resign":
			h2 := map[string]interface{}{"alg": signer.alg, "kid": "added"}
			parts[0] = b64(jcs(h2))
			v.SigOK = false
		case "jws_two_parts":
			parts = parts[:2]
			v.ParseOK = false
		case "jws_empty_sig":
			parts[2] = ""
			v.ParseOK = false
		}
		op.signedData = strings.Join(parts, ".")
		op.reveal = revealOf(revealKey.jwk(), code)
		switch mut {
		case "reveal_substituted", "signed_reveal_own_outer_other":
			op.reveal = revealOf(d.newKey().jwk(), code)
			v.ParseOK = false
		case "reveal_unconfigured_alg":
			op.reveal = revealOf(revealKey.jwk(), 0x13)
			v.ParseOK = false
		case "reveal_truncated_digest": // a well-formed multihash whose digest is a proper prefix of the real one
			full := digest(code, jcs(revealKey.jwk()))
			op.reveal = b64(multihash(code, full[:[]int{0, 1, 16, len(full) - 1}[r.Intn(4)]]))
			v.ParseOK = false
		case "reveal_respelled": // decodes to the right octets, is not the reveal value
			op.reveal = respell(op.reveal, r)
			v.ParseOK = false
		case "missing_did_suffix":
			op.didSuffix = ""
			v.ParseOK = false
		case "absent_did_suffix": // the member is not there at all (nothing left over from an earlier request may fill it in)
			op.omit = []string{"didSuffix"}
			v.ParseOK = false
		case "absent_reveal_value":
			op.omit = []string{"revealValue"}
			v.ParseOK = false
		case "absent_signed_data":
			op.omit = []string{"signedData"}
			v.ParseOK = false
		case "absent_type":
			op.omit = []string{"type"}
		case "missing_signed_data":
			op.signedData = ""
			v.ParseOK = false
		}
	}

	switch mut {
	case "delta_substituted":
		d2 := map[string]interface{}{"patches": d.somePatches(), "updateCommitment": commitmentOf(d.newKey().jwk(), code)}
		op.delta = d2
		v.DeltaHashOK = false
		v.UpdateC = d2["updateCommitment"].(string)
		v.Patches = d2["patches"].([]interface{})
	case "delta_missing":
		op.omitDelta = true
		v.DeltaHashOK = false
		v.DeltaValid = false
		v.UpdateC, v.Patches = "", nil
	case "delta_missing_hash_of_null":
		op.omitDelta = true
		v.DeltaValid = false
		v.UpdateC, v.Patches = "", nil
	case "json_type_member_differs":
		op.extra = map[string]interface{}{"type": "recover"}
		if typ == "recover" {
			op.extra["type"] = "update"
		}
	}
	bs := op.bytes()
	var genuine []byte
	if mut == "delta_rewritten_no_resign_concurrent" && op.signedData != "" {
		// the genuine request stays as built; the forged one carries another delta and the hash of
		// that delta in the signed data (same length), under the genuine signature
		genuine = bs
		d2 := map[string]interface{}{"patches": []interface{}{map[string]interface{}{"action": "add-also-known-as", "uris": []interface{}{"https://attacker.example/"}}},
			"updateCommitment": commitmentOf(d.newKey().jwk(), code)}
		parts := strings.Split(op.signedData, ".")
		if len(parts) == 3 {
			pb, _ := b64dec(parts[1])
			var pm map[string]interface{}
			dec := json.NewDecoder(bytes.NewReader(pb))
			dec.UseNumber()
			if dec.Decode(&pm) == nil {
				pm["deltaHash"] = modelHash(d2, code)
				parts[1] = b64(jcs(pm))
				op.signedData = strings.Join(parts, ".")
				op.delta = d2
				v.SigOK = false
				v.UpdateC = d2["updateCommitment"].(string)
				v.Patches = d2["patches"].([]interface{})
				bs = op.bytes()
			}
		}
	}
	if mut == "request_padded" { // the same request with insignificant white space (indented, a line feed at the end): as valid as before
		var buf bytes.Buffer
		if json.Indent(&buf, bs, "", "  ") == nil && uint(buf.Len()+1) <= cfg.MaxOperationSize {
			buf.WriteString("\n")
			bs = buf.Bytes()
		} else if uint(len(bs)+3) <= cfg.MaxOperationSize {
			bs = append(append([]byte(" "), bs...), ' ', '\n')
		}
	}
	if mut == "malformed_json" {
		bs = bs[:len(bs)-1-r.Intn(len(bs)/2)]
		v.ParseOK = false
	}
	if typ == "deactivate" {
		v.DeltaHashOK, v.DeltaValid = true, true
	}

	// advance builder keys when the operation is meant to be a valid successor
	if mut == "" || v.ParseOK && v.SigOK {
		switch typ {
		case "update":
			d.upd = nextUpd
		case "recover":
			d.rec, d.upd = nextRec, nextUpd
		}
	}
	return built{bytes: bs, v: v, label: mut, typ: typ, genuine: genuine}
}

func b64dec(s string) ([]byte, error) { return b64raw.DecodeString(s) }

// malformMultihash: the octets of a well-formed multihash with one octet more behind the digest, or
// with the last digest octet missing (the length prefix still announcing the full digest)
func malformMultihash(h string, mut string) string {
	raw, err := b64dec(h)
	if err != nil || len(raw) < 4 {
		return h + "A"
	}
	if strings.HasSuffix(mut, "_extra_octet") {
		return b64(append(append([]byte{}, raw...), 0))
	}
	return b64(raw[:len(raw)-1])
}

// respell returns another string that the lenient base64url decoder maps to the same octets:
// spare trailing bits changed when the length leaves any, otherwise a line feed inserted.
func respell(h string, r *rand.Rand) string {
	for _, m := range malformedHashes(h, r) {
		if m[0] == "trailing-bits" {
			return m[1]
		}
	}
	return h[:5] + "\n" + h[5:]
}

// ---- running a history through the implementation ----------------------------------------------

type refuseTime struct{}

func (refuseTime) Validate(from, until int64) error {
	return fmt.Errorf("request-time validator: refused")
}

type refuseOrigin struct{}

func (refuseOrigin) Validate(obj interface{}) error {
	return fmt.Errorf("request-time validator: refused")
}

type recValidator struct{ seen *[2]int64 }

func (rv *recValidator) Validate(from, until int64) error {
	rv.seen = &[2]int64{from, until}
	return nil
}

func deepSnapshot(v interface{}) string {
	b, err := json.Marshal(v)
	if err != nil {
		return "ERR:" + err.Error()
	}
	return string(b)
}

func runHistory(c *histCase, cfgs []protocol.Protocol) {
	// the lists of operations a state carries are the caller's, in the caller's order (here: newest first)
	pub := []*operation.AnchoredOperation{{TransactionTime: 9, TransactionNumber: 102}, {TransactionTime: 3, TransactionNumber: 101}}
	unpub := []*operation.AnchoredOperation{{TransactionTime: 12, TransactionNumber: 202}, {TransactionTime: 11, TransactionNumber: 201}}
	rm := &protocol.ResolutionModel{PublishedOperations: pub, UnpublishedOperations: unpub}
	composer := doccomposer.New()
	// one applier per protocol configuration for the whole history: an applier that carries state
	// from one call to the next must still behave as the (stateless) specification says
	appliers := map[string]*operationapplier.Applier{}
	for i, s := range c.Steps {
		cfg := cfgs[i]
		s.Cfg = cfg
		key := fmt.Sprintf("%+v", cfg)
		applier := appliers[key]
		if applier == nil {
			applier = operationapplier.New(cfg, operationparser.New(cfg), composer)
			appliers[key] = applier
		}
		aop := &operation.AnchoredOperation{
			Type: operation.Type(s.Type), OperationRequest: s.Bytes, TransactionTime: s.Time, TransactionNumber: s.Num,
			ProtocolVersion: s.Ver, CanonicalReference: s.Canon, EquivalentReferences: s.Equiv,
		}
		beforeRM, beforeOp := deepSnapshot(rm), deepSnapshot(aop)
		docPtrBefore := reflect.ValueOf(rm.Doc).Pointer()
		res, err := applier.Apply(aop, rm)
		s.InputsIntact = beforeRM == deepSnapshot(rm) && beforeOp == deepSnapshot(aop) && docPtrBefore == reflect.ValueOf(rm.Doc).Pointer()
		if err != nil && res != nil {
			s.InputsIntact = false // a refused operation must yield no state
		}
		if s.Genuine != nil {
			// while other goroutines apply the genuine request (same signature) to the same state, the
			// forged one is applied again and again: once accepted is accepted
			gop := &operation.AnchoredOperation{Type: aop.Type, OperationRequest: s.Genuine, TransactionTime: s.Time, TransactionNumber: s.Num,
				ProtocolVersion: s.Ver, CanonicalReference: s.Canon, EquivalentReferences: s.Equiv}
			var wg sync.WaitGroup
			var mu sync.Mutex
			stop := make(chan struct{})
			for w := 0; w < 6; w++ {
				wg.Add(1)
				go func() {
					defer wg.Done()
					defer func() { recover() }()
					for {
						select {
						case <-stop:
							return
						default:
							applier.Apply(gop, rm)
						}
					}
				}()
			}
			var fw sync.WaitGroup
			for w := 0; w < 6; w++ {
				fw.Add(1)
				go func() {
					defer fw.Done()
					defer func() { recover() }()
					for k := 0; k < 400; k++ {
						if r2, e2 := applier.Apply(aop, rm); e2 == nil {
							mu.Lock()
							res, err = r2, nil
							mu.Unlock()
							return
						}
					}
				}()
			}
			fw.Wait()
			close(stop)
			wg.Wait()
		}
		s.ImplOK = err == nil
		// the same operation applied again to the same state by the same applier instance: same answer
		res2, err2 := applier.Apply(aop, rm)
		s.AgainDiffers = (err == nil) != (err2 == nil) || (err == nil && deepSnapshot(res) != deepSnapshot(res2))
		// the same request anchored at other times (around the edges of its window) on the applier that
		// has just judged it, against an applier that has never seen it and against one put together from
		// its exported parts with the protocol assigned afterwards: the answer depends on the operation,
		// the anchoring data and the state - not on what an applier saw before or on how it was made
		{
			times := []uint64{s.Time + 100000}
			if s.V.From > 1 {
				times = append(times, uint64(s.V.From-1), uint64(s.V.From))
			}
			until := s.V.Until
			if until == 0 && s.V.From != 0 {
				until = s.V.From + int64(cfg.MaxOperationTimeDelta)
			}
			if until > 0 {
				times = append(times, uint64(until), uint64(until+1))
			}
			times = append(times, s.Time)
			for _, t2 := range times {
				a2 := *aop
				a2.TransactionTime = t2
				r1, e1 := applier.Apply(&a2, rm)
				fresh := operationapplier.New(cfg, operationparser.New(cfg), composer)
				r2, e2 := fresh.Apply(&a2, rm)
				made := &operationapplier.Applier{OperationParser: operationparser.New(cfg), DocumentComposer: composer}
				made.Protocol = cfg
				r3, e3 := made.Apply(&a2, rm)
				if (e1 == nil) != (e2 == nil) || (e1 == nil && deepSnapshot(r1) != deepSnapshot(r2)) ||
					(e3 == nil) != (e2 == nil) || (e3 == nil && deepSnapshot(r3) != deepSnapshot(r2)) {
					s.AgainDiffers = true
				}
			}
		}
		// an applier whose parser carries request-time validators that refuse everything: anchored
		// operations are judged by their anchoring time only, so the answer must be the same
		strict := operationapplier.New(cfg, operationparser.New(cfg, operationparser.WithAnchorTimeValidator(refuseTime{}),
			operationparser.WithAnchorOriginValidator(refuseOrigin{})), composer)
		res3, err3 := strict.Apply(aop, rm)
		s.ValidatorsMatter = (err == nil) != (err3 == nil) || (err == nil && deepSnapshot(res) != deepSnapshot(res3))
		if err == nil {
			s.ImplRM = res
			rm = res
		}
		// non-batch parse with a recording time validator (C09: what the parser hands over)
		if s.Type == "update" || s.Type == "recover" || s.Type == "deactivate" {
			rv := &recValidator{}
			p2 := operationparser.New(cfg, operationparser.WithAnchorTimeValidator(rv))
			_, perr := p2.ParseOperation("did:x", s.Bytes, false)
			s.ParserSeen = rv.seen
			s.ParserRefused = perr != nil
		}
	}
}

// genHistory builds one history. focus selects the mutation emphasis: "any", "auth", "window".
// histScript, when set, fixes the (type, mutation) of every step of the next history: the
// systematic part of the streams (every failure class of every operation type at a position
// where the operation would otherwise take effect) does not depend on what the PRNG happens to draw.
var histScript [][2]string

func mutationPool(focus, typ string) []string {
	muts := mutationsFor(typ)
	var pool []string
	switch focus {
	case "window":
		for _, m := range muts {
			switch m {
			case "", "early", "late", "at_from", "at_until", "at_default_until", "after_default_until", "until_only", "until_only_far", "inverted_window", "negative_until", "negative_from", "compose_fails":
				pool = append(pool, m)
			}
		}
	case "auth":
		for _, m := range muts {
			if m == "" || strings.HasPrefix(m, "sig_") || strings.HasPrefix(m, "key_") || strings.HasPrefix(m, "reveal_") ||
				strings.HasPrefix(m, "delta_substituted") || m == "delta_rewritten_no_resign_concurrent" || m == "delta_hash_truncated" || strings.Contains(m, "header") || strings.HasPrefix(m, "alg_") ||
				m == "payload_reencoded" || m == "payload_respelled_no_resign" || m == "kid_added_no_resign" || strings.HasPrefix(m, "signed_suffix_") || strings.HasPrefix(m, "signed_reveal_") || m == "delta_hash_respelled" || m == "recover_payload_replayed" || strings.HasPrefix(m, "jws_") {
				pool = append(pool, m)
			}
		}
	default:
		pool = muts
	}
	return pool
}

// systematicScripts: each mutation of each operation type once right after a valid create and
// once after a valid create + update (for create: alone and followed by a valid update)
func systematicScripts(focus string) [][][2]string {
	var out [][][2]string
	seen := map[string]bool{}
	for _, typ := range []string{"update", "recover", "deactivate", "create"} {
		for _, m := range mutationPool(focus, typ) {
			if seen[typ+"/"+m] {
				continue
			}
			seen[typ+"/"+m] = true
			if typ == "create" {
				out = append(out, [][2]string{{"create", m}, {"update", ""}})
				out = append(out, [][2]string{{"create", ""}, {"create", m}})
				continue
			}
			out = append(out, [][2]string{{"create", ""}, {typ, m}, {"update", ""}})
			out = append(out, [][2]string{{"create", ""}, {"update", ""}, {"recover", ""}, {typ, m}})
		}
	}
	return out
}

var histSeq int

func genHistory(r *rand.Rand, focus string, maxLen int) (*histCase, []protocol.Protocol) {
	base := baseProtocol(r)
	histSeq++
	if focus == "window" && histSeq%5 == 0 { // no allowance at all: a from-only window is the single instant t = from
		base.MaxOperationTimeDelta = 0
	}
	kinds := keyKinds
	if r.Intn(3) != 0 {
		kinds = []string{keyKinds[r.Intn(len(keyKinds))]}
	}
	d := &didState{r: r, cfg: base, code: 18, kinds: kinds}
	c := &histCase{Cfg: base}
	var cfgs []protocol.Protocol
	n := 2 + r.Intn(maxLen-1)
	if histScript != nil {
		n = len(histScript)
	}
	t := uint64(1000 + r.Intn(100000))
	if r.Intn(6) == 0 {
		t = uint64(1) << 40
	}
	deactivated := false
	created := false
	var labels []string
	for i := 0; i < n && !deactivated; i++ {
		var typ string
		switch {
		case i == 0 && r.Intn(10) != 0:
			typ = "create"
		case i == 0:
			typ = []string{"update", "recover", "deactivate"}[r.Intn(3)] // wrong first
			d.rec, d.upd, d.suffix = d.newKey(), d.newKey(), "EiAsuffix"
		default:
			typ = []string{"update", "update", "update", "recover", "recover", "deactivate", "create"}[r.Intn(7)]
			if i < n-1 && typ == "deactivate" && r.Intn(2) == 0 {
				typ = "update"
			}
		}
		if d.rec == nil {
			d.rec, d.upd, d.suffix = d.newKey(), d.newKey(), "EiAsuffix"
		}
		pool := mutationPool(focus, typ)
		mut := pool[r.Intn(len(pool))]
		if i == 0 && typ == "create" && r.Intn(3) != 0 {
			mut = ""
		}
		if histScript != nil {
			typ, mut = histScript[i][0], histScript[i][1]
		}
		cfg := base
		cfg.Patches = append([]string{}, base.Patches...)
		cfg.KeyAlgorithms = append([]string{}, base.KeyAlgorithms...)
		cfg.SignatureAlgorithms = append([]string{}, base.SignatureAlgorithms...)
		t += uint64(1 + r.Intn(1000))
		saveRec, saveUpd, saveSuffix := d.rec, d.upd, d.suffix
		b := d.buildOp(typ, mut, t, &cfg)
		aType := typ
		if r.Intn(40) == 0 && histScript == nil {
			aType = "other"
			b.label += "+unknown_anchored_type"
		}
		st := &histStep{Type: aType, Time: t, Num: uint64(r.Intn(1000)), Ver: uint64(r.Intn(3)),
			Canon: fmt.Sprintf("ref%d", r.Intn(100000)), Bytes: b.bytes, V: b.v, Label: b.label, Genuine: b.genuine}
		for j := 0; j < r.Intn(3); j++ {
			st.Equiv = append(st.Equiv, fmt.Sprintf("eq%d", r.Intn(1000)))
		}
		if r.Intn(4) == 0 { // the same reference more than once, then others (lists are reported as given)
			a, b2 := fmt.Sprintf("eq%d", r.Intn(1000)), fmt.Sprintf("eq%d", r.Intn(1000))
			st.Equiv = [][]string{{a, a, b2, "eqZ"}, {a, b2, a, b2, "eqY", "eqZ"}, {a, a}, {a, a, a, b2}}[r.Intn(4)]
		}
		c.Steps = append(c.Steps, st)
		cfgs = append(cfgs, cfg)
		labels = append(labels, typ+":"+b.label)
		// predict acceptance only to steer generation (not used as an oracle)
		accepted := b.v.ParseOK && b.v.SigOK && aType != "other"
		if typ == "create" {
			if created || !accepted {
				d.rec, d.upd, d.suffix = saveRec, saveUpd, saveSuffix
			} else {
				created = true
			}
		}
		if typ == "deactivate" && accepted && created && b.v.SuffixOK && mut != "early" && mut != "late" && mut != "after_default_until" {
			deactivated = true
		}
	}
	c.Label = strings.Join(labels, ",")
	return c, cfgs
}

func sortedStrings(m map[string]int) []string {
	var ks []string
	for k := range m {
		ks = append(ks, k)
	}
	sort.Strings(ks)
	return ks
}
