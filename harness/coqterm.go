package main

import (
	"encoding/json"
	"fmt"
	"math/big"
	"sort"
	"strconv"
	"strings"
)

// ---- Gallina term printing ---------------------------------------------------------------

// cStr prints a Go string (arbitrary bytes) as a Coq string term. Printable ASCII without a
// double quote is written as a literal; anything else goes through the model's hex decoder.
func cStr(s string) string {
	plain := true
	for i := 0; i < len(s); i++ {
		c := s[i]
		if c < 0x20 || c > 0x7e || c == '"' {
			plain = false
			break
		}
	}
	if plain {
		return `"` + s + `"`
	}
	var b strings.Builder
	b.WriteString(`(hx "`)
	for i := 0; i < len(s); i++ {
		fmt.Fprintf(&b, "%02x", s[i])
	}
	b.WriteString(`")`)
	return b.String()
}

func cZ(v int64) string { return fmt.Sprintf("(%d)%%Z", v) }

func cZu(v uint64) string { return fmt.Sprintf("(%d)%%Z", v) }

func cBig(v *big.Int) string { return "(" + v.String() + ")%Z" }

func cBool(b bool) string {
	if b {
		return "true"
	}
	return "false"
}

func cList(items []string) string { return "[" + strings.Join(items, "; ") + "]" }

func cStrList(ss []string) string {
	items := make([]string, len(ss))
	for i, s := range ss {
		items[i] = cStr(s)
	}
	return cList(items)
}

func cOpt(some bool, v string) string {
	if !some {
		return "None"
	}
	return "(Some " + v + ")"
}

// cJSON prints a decoded JSON value (as produced by encoding/json with UseNumber, or plain
// Go values) as a term of the model's json type. Object members are emitted sorted by key.
func cJSON(v interface{}) string {
	switch x := v.(type) {
	case nil:
		return "JNull"
	case bool:
		return "(JBool " + cBool(x) + ")"
	case json.Number:
		return "(JNum " + cStr(es6Token(string(x))) + ")"
	case float64:
		return "(JNum " + cStr(es6Token(strconv.FormatFloat(x, 'g', -1, 64))) + ")"
	case int:
		return "(JNum " + cStr(strconv.Itoa(x)) + ")"
	case int64:
		return "(JNum " + cStr(strconv.FormatInt(x, 10)) + ")"
	case uint64:
		return "(JNum " + cStr(strconv.FormatUint(x, 10)) + ")"
	case string:
		return "(JStr " + cStr(x) + ")"
	case []interface{}:
		if x == nil {
			return "JNull" // encoding/json writes a nil slice as null
		}
		items := make([]string, len(x))
		for i, e := range x {
			items[i] = cJSON(e)
		}
		return "(JArr " + cList(items) + ")"
	case []string:
		items := make([]string, len(x))
		for i, e := range x {
			items[i] = cJSON(e)
		}
		return "(JArr " + cList(items) + ")"
	case map[string]interface{}:
		if x == nil {
			return "JNull"
		}
		keys := make([]string, 0, len(x))
		for k := range x {
			keys = append(keys, k)
		}
		sort.Strings(keys)
		items := make([]string, len(keys))
		for i, k := range keys {
			items[i] = "(" + cStr(k) + ", " + cJSON(x[k]) + ")"
		}
		return "(JObj " + cList(items) + ")"
	}
	// anything else: round trip through encoding/json
	b, err := json.Marshal(v)
	if err != nil {
		panic(fmt.Sprintf("cJSON: cannot marshal %T: %v", v, err))
	}
	return cJSON(mustDecode(b))
}

func cObj(m map[string]interface{}) string {
	if m == nil {
		return "[]"
	}
	keys := make([]string, 0, len(m))
	for k := range m {
		keys = append(keys, k)
	}
	sort.Strings(keys)
	items := make([]string, len(keys))
	for i, k := range keys {
		items[i] = "(" + cStr(k) + ", " + cJSON(m[k]) + ")"
	}
	return cList(items)
}

func mustDecode(b []byte) interface{} {
	dec := json.NewDecoder(strings.NewReader(string(b)))
	dec.UseNumber()
	var v interface{}
	if err := dec.Decode(&v); err != nil {
		panic(fmt.Sprintf("mustDecode %q: %v", string(b), err))
	}
	return v
}

// es6Token normalises a JSON number literal to the ES6 shortest form for the simple class
// the harness generates (integers and short decimals); computed with strconv directly.
func es6Token(lit string) string {
	f, err := strconv.ParseFloat(lit, 64)
	if err != nil {
		return lit
	}
	if f == 0 {
		return "0"
	}
	abs := f
	if abs < 0 {
		abs = -abs
	}
	if abs < 1e21 && abs >= 1e-6 {
		return strconv.FormatFloat(f, 'f', -1, 64)
	}
	s := strconv.FormatFloat(f, 'e', -1, 64)
	// Go: 1e+21 / 1e-07 ; ES6: 1e+21 / 1e-7
	if i := strings.Index(s, "e"); i >= 0 {
		mant, exp := s[:i], s[i+1:]
		sign := exp[0]
		digits := strings.TrimLeft(exp[1:], "0")
		s = mant + "e" + string(sign) + digits
	}
	return s
}
