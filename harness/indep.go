package main

// Independent Sidetree operation builder: own JSON assembly, own JWK encoding, own JWS, stdlib
// crypto only.  Nothing here calls into sidetree-go, so the labels attached to the operations
// it builds are ground truth for the correspondence check.

import (
	"bytes"
	"crypto/ecdsa"
	"crypto/ed25519"
	"crypto/elliptic"
	"crypto/sha256"
	"crypto/sha512"
	"encoding/base64"
	"encoding/binary"
	"encoding/json"
	"fmt"
	"hash"
	"math/big"
	"math/rand"
	"sort"
	"strings"
	"unicode/utf16"

	"github.com/btcsuite/btcd/btcec/v2"
)

var keyKinds = []string{"P-256", "Ed25519", "secp256k1", "P-384", "P-521"}

type keyPair struct {
	kind  string
	alg   string
	ec    *ecdsa.PrivateKey
	ed    ed25519.PrivateKey
	nonce string
	spare bool // coordinates spelled with the spare trailing bits of base64url set (same octets, another text)
}

// spareSpelled: the last character replaced by the one that carries the same data bits with a spare
// bit set (only texts whose length leaves spare bits: 32-octet values, not 48 or 66)
func spareSpelled(s string) string {
	const alphabet = "ABCDEFGHIJKLMNOPQRSTUVWXYZabcdefghijklmnopqrstuvwxyz0123456789-_"
	if len(s)%4 == 0 || len(s) == 0 {
		return s
	}
	i := strings.IndexByte(alphabet, s[len(s)-1])
	if i < 0 {
		return s
	}
	return s[:len(s)-1] + string(alphabet[i|1])
}

type rngReader struct{ r *rand.Rand }

func (rr rngReader) Read(p []byte) (int, error) {
	for i := range p {
		p[i] = byte(rr.r.Intn(256))
	}
	return len(p), nil
}

func curveOf(kind string) (elliptic.Curve, int, func() hash.Hash, string) {
	switch kind {
	case "P-256":
		return elliptic.P256(), 32, sha256.New, "ES256"
	case "P-384":
		return elliptic.P384(), 48, sha512.New384, "ES384"
	case "P-521":
		return elliptic.P521(), 66, sha512.New, "ES512"
	case "secp256k1":
		return btcec.S256(), 32, sha256.New, "ES256K"
	}
	return nil, 0, nil, ""
}

func genKey(r *rand.Rand, kind string) *keyPair {
	k := &keyPair{kind: kind}
	if kind == "Ed25519" {
		seed := make([]byte, ed25519.SeedSize)
		rngReader{r}.Read(seed)
		k.ed = ed25519.NewKeyFromSeed(seed)
		k.alg = "EdDSA"
		return k
	}
	curve, _, _, alg := curveOf(kind)
	k.alg = alg
	// derive the scalar ourselves so that key generation is a function of the seed
	n := curve.Params().N
	for {
		b := make([]byte, (n.BitLen()+7)/8)
		rngReader{r}.Read(b)
		d := new(big.Int).SetBytes(b)
		d.Mod(d, n)
		if d.Sign() == 0 {
			continue
		}
		x, y := curve.ScalarBaseMult(d.Bytes())
		k.ec = &ecdsa.PrivateKey{PublicKey: ecdsa.PublicKey{Curve: curve, X: x, Y: y}, D: d}
		return k
	}
}

func b64(b []byte) string { return base64.RawURLEncoding.EncodeToString(b) }

func fixedWidth(v *big.Int, w int) []byte {
	out := make([]byte, w)
	b := v.Bytes()
	copy(out[w-len(b):], b)
	return out
}

// jwk returns the JSON image sidetree's jws.JWK has: kty, crv, x, y always present.
func (k *keyPair) jwk() map[string]interface{} {
	m := map[string]interface{}{}
	if k.kind == "Ed25519" {
		m["kty"] = "OKP"
		m["crv"] = "Ed25519"
		m["x"] = b64(k.ed.Public().(ed25519.PublicKey))
		m["y"] = ""
	} else {
		_, w, _, _ := curveOf(k.kind)
		m["kty"] = "EC"
		m["crv"] = k.kind
		m["x"] = b64(fixedWidth(k.ec.X, w))
		m["y"] = b64(fixedWidth(k.ec.Y, w))
	}
	if k.spare {
		m["x"] = spareSpelled(m["x"].(string))
		if y, _ := m["y"].(string); y != "" {
			m["y"] = spareSpelled(y)
		}
	}
	if k.nonce != "" {
		m["nonce"] = k.nonce
	}
	return m
}

func (k *keyPair) sign(r *rand.Rand, msg []byte) []byte {
	if k.kind == "Ed25519" {
		return ed25519.Sign(k.ed, msg)
	}
	_, w, hf, _ := curveOf(k.kind)
	h := hf()
	h.Write(msg)
	rr, ss := ecdsaSignDet(r, k.ec, h.Sum(nil))
	return append(fixedWidth(rr, w), fixedWidth(ss, w)...)
}

// ecdsaSignDet is textbook ECDSA with the nonce drawn from the run's PRNG.  (crypto/ecdsa.Sign
// deliberately consumes a random number of bytes from a caller-supplied reader, which would
// make the whole case stream irreproducible.)
func ecdsaSignDet(r *rand.Rand, priv *ecdsa.PrivateKey, hash []byte) (*big.Int, *big.Int) {
	curve := priv.Curve
	n := curve.Params().N
	e := new(big.Int).SetBytes(hash)
	if excess := len(hash)*8 - n.BitLen(); excess > 0 {
		e.Rsh(e, uint(excess))
	}
	for {
		b := make([]byte, (n.BitLen()+7)/8+8)
		rngReader{r}.Read(b)
		k := new(big.Int).SetBytes(b)
		k.Mod(k, n)
		if k.Sign() == 0 {
			continue
		}
		x, _ := curve.ScalarBaseMult(k.Bytes())
		rr := new(big.Int).Mod(x, n)
		if rr.Sign() == 0 {
			continue
		}
		kinv := new(big.Int).ModInverse(k, n)
		ss := new(big.Int).Mul(rr, priv.D)
		ss.Add(ss, e)
		ss.Mul(ss, kinv)
		ss.Mod(ss, n)
		if ss.Sign() == 0 {
			continue
		}
		return rr, ss
	}
}

// jcs: canonical JSON of values made of maps / slices / strings / integers / bools. For these
// encoding/json with sorted map keys and HTML escaping off coincides with RFC 8785 as long as
// strings stay inside printable ASCII (which the builder guarantees).
// jcs: the harness's own canonical form (RFC 8785): the value goes through encoding/json once (any
// Go type), is read back as a generic tree with the number literals kept, and is written with
// members in UTF-16 code-unit order and only the mandatory string escapes.
func jcs(v interface{}) []byte {
	var buf bytes.Buffer
	enc := json.NewEncoder(&buf)
	enc.SetEscapeHTML(false)
	if err := enc.Encode(v); err != nil {
		panic(err)
	}
	dec := json.NewDecoder(bytes.NewReader(buf.Bytes()))
	dec.UseNumber()
	var tree interface{}
	if err := dec.Decode(&tree); err != nil {
		panic(err)
	}
	var out bytes.Buffer
	jcsWrite(&out, tree)
	return out.Bytes()
}

func jcsString(out *bytes.Buffer, s string) {
	out.WriteByte('"')
	for _, c := range []byte(s) {
		switch {
		case c == '"':
			out.WriteString(`\"`)
		case c == '\\':
			out.WriteString(`\\`)
		case c == '\b':
			out.WriteString(`\b`)
		case c == '\f':
			out.WriteString(`\f`)
		case c == '\n':
			out.WriteString(`\n`)
		case c == '\r':
			out.WriteString(`\r`)
		case c == '\t':
			out.WriteString(`\t`)
		case c < 0x20:
			fmt.Fprintf(out, `\u%04x`, c)
		default:
			out.WriteByte(c)
		}
	}
	out.WriteByte('"')
}

func utf16Less(a, b string) bool {
	x, y := utf16.Encode([]rune(a)), utf16.Encode([]rune(b))
	for i := 0; i < len(x) && i < len(y); i++ {
		if x[i] != y[i] {
			return x[i] < y[i]
		}
	}
	return len(x) < len(y)
}

func jcsWrite(out *bytes.Buffer, v interface{}) {
	switch t := v.(type) {
	case nil:
		out.WriteString("null")
	case bool:
		if t {
			out.WriteString("true")
		} else {
			out.WriteString("false")
		}
	case json.Number:
		out.WriteString(t.String())
	case string:
		jcsString(out, t)
	case []interface{}:
		out.WriteByte('[')
		for i, e := range t {
			if i > 0 {
				out.WriteByte(',')
			}
			jcsWrite(out, e)
		}
		out.WriteByte(']')
	case map[string]interface{}:
		keys := make([]string, 0, len(t))
		for k := range t {
			keys = append(keys, k)
		}
		sort.Slice(keys, func(i, j int) bool { return utf16Less(keys[i], keys[j]) })
		out.WriteByte('{')
		for i, k := range keys {
			if i > 0 {
				out.WriteByte(',')
			}
			jcsString(out, k)
			out.WriteByte(':')
			jcsWrite(out, t[k])
		}
		out.WriteByte('}')
	default:
		panic(fmt.Sprintf("jcs: unexpected %T", v))
	}
}

func digest(code uint64, data []byte) []byte {
	switch code {
	case 0x12:
		s := sha256.Sum256(data)
		return s[:]
	case 0x13:
		s := sha512.Sum512(data)
		return s[:]
	}
	panic(fmt.Sprintf("digest: unsupported code %d", code))
}

func multihash(code uint64, dig []byte) []byte {
	buf := make([]byte, 2*binary.MaxVarintLen64)
	n := binary.PutUvarint(buf, code)
	n += binary.PutUvarint(buf[n:], uint64(len(dig)))
	return append(buf[:n], dig...)
}

func modelHash(v interface{}, code uint64) string { return b64(multihash(code, digest(code, jcs(v)))) }

func revealOf(jwk map[string]interface{}, code uint64) string { return modelHash(jwk, code) }

func commitmentOf(jwk map[string]interface{}, code uint64) string {
	return b64(multihash(code, digest(code, digest(code, jcs(jwk)))))
}

func compactJWS(r *rand.Rand, hdr map[string]interface{}, payload []byte, k *keyPair) string {
	h := b64(jcs(hdr))
	p := b64(payload)
	sig := k.sign(r, []byte(h+"."+p))
	return h + "." + p + "." + b64(sig)
}

// ---- operation assembly ---------------------------------------------------------------------

type opParts struct {
	typ        string
	suffixData map[string]interface{}
	delta      map[string]interface{}
	didSuffix  string
	reveal     string
	signedData string
	extra      map[string]interface{} // additional top-level members
	omitDelta  bool
	omit       []string // top-level members left out altogether
}

func (o *opParts) request() map[string]interface{} {
	m := map[string]interface{}{"type": o.typ}
	switch o.typ {
	case "create":
		if o.suffixData != nil {
			m["suffixData"] = o.suffixData
		}
	default:
		m["didSuffix"] = o.didSuffix
		m["revealValue"] = o.reveal
		m["signedData"] = o.signedData
	}
	if o.delta != nil && !o.omitDelta && o.typ != "deactivate" {
		m["delta"] = o.delta
	}
	for k, v := range o.extra {
		m[k] = v
	}
	for _, k := range o.omit {
		delete(m, k)
	}
	return m
}

func (o *opParts) bytes() []byte { return jcs(o.request()) }

func replacePatch(keys []interface{}, services []interface{}) map[string]interface{} {
	doc := map[string]interface{}{}
	if keys != nil {
		doc["publicKeys"] = keys
	}
	if services != nil {
		doc["services"] = services
	}
	return map[string]interface{}{"action": "replace", "document": doc}
}

func docKey(id string, k *keyPair, purposes ...string) map[string]interface{} {
	jwk := k.jwk()
	delete(jwk, "nonce")
	if k.kind == "Ed25519" {
		delete(jwk, "y")
	}
	m := map[string]interface{}{"id": id, "type": "JsonWebKey2020", "publicKeyJwk": jwk}
	if len(purposes) > 0 {
		ps := make([]interface{}, len(purposes))
		for i, p := range purposes {
			ps[i] = p
		}
		m["purposes"] = ps
	}
	return m
}

func docService(id, typ, endpoint string) map[string]interface{} {
	return map[string]interface{}{"id": id, "type": typ, "serviceEndpoint": endpoint}
}

// sortedKeysOf: Go's map iteration order is random; everything that feeds the case stream
// walks maps in sorted key order so that a seed determines the run.
func sortedKeysOf(m map[string]interface{}) []string {
	ks := make([]string, 0, len(m))
	for k := range m {
		ks = append(ks, k)
	}
	sort.Strings(ks)
	return ks
}

// zeroLeadKey returns the nth key (by increasing private scalar) of the curve whose public X
// (coord "x") or Y (coord "y") has at least one leading zero byte: the keys on which a
// variable-width or wrongly padded coordinate encoding shows (about 1 key in 256).
var zeroLeadCache = map[string][]*keyPair{}

func zeroLeadKey(kind, coord string, nth int) *keyPair {
	ck := kind + ":" + coord
	curve, w, _, alg := curveOf(kind)
	for s := int64(len(zeroLeadCache[ck+":scanned"])) + 2; len(zeroLeadCache[ck]) <= nth; s++ {
		zeroLeadCache[ck+":scanned"] = append(zeroLeadCache[ck+":scanned"], nil)
		d := big.NewInt(s*7919 + 1) // the two lists walk disjoint scalars, so their keys never coincide
		if coord == "y" {
			d = big.NewInt(s*7919 + 2)
		}
		x, y := curve.ScalarBaseMult(d.Bytes())
		c := x
		if coord == "y" {
			c = y
		}
		if len(c.Bytes()) < w {
			zeroLeadCache[ck] = append(zeroLeadCache[ck], &keyPair{kind: kind, alg: alg,
				ec: &ecdsa.PrivateKey{PublicKey: ecdsa.PublicKey{Curve: curve, X: x, Y: y}, D: d}})
		}
	}
	k := *zeroLeadCache[ck][nth]
	return &k
}
