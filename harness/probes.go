package main

import (
	"fmt"

	"github.com/trustbloc/sidetree-go/pkg/document"
	"github.com/trustbloc/sidetree-go/pkg/patch"
	"github.com/trustbloc/sidetree-go/pkg/versions/1_0/doccomposer"
	"github.com/trustbloc/sidetree-go/pkg/versions/1_0/operationparser/patchvalidator"
)

// runProbe re-runs the specific input of a finding listed in known_findings.json.
func runProbe(name string) {
	switch name {
	case "alloc-by-index":
		// a validated ~70-byte patch makes the JSON patch library allocate an array by index
		const idx = 300000
		js := fmt.Sprintf(`{"action":"ietf-json-patch","patches":[{"op":"copy","from":"/a/0","path":"/a/%d"}]}`, idx)
		p, err := patch.FromBytes([]byte(js))
		if err != nil || patchvalidator.Validate(p) != nil {
			fmt.Println("NOT-REPRODUCED: patch no longer validates")
			return
		}
		doc, _ := document.FromBytes([]byte(`{"a":[1]}`))
		class, _ := guarded(func() error {
			out, e := doccomposer.New().ApplyPatches(doc, []patch.Patch{p})
			if e != nil {
				return e
			}
			if arr, ok := out["a"].([]interface{}); ok && len(arr) > idx/2 {
				return nil
			}
			return fmt.Errorf("not allocated")
		})
		if class == 0 {
			fmt.Printf("REPRODUCED: %d-byte patch produced an array of more than %d elements\n", len(js), idx/2)
		} else {
			fmt.Println("NOT-REPRODUCED")
		}
	default:
		fmt.Println("NOT-REPRODUCED: unknown probe")
	}
}
