package main

// C06 (model hashes are content addresses) and C04 (commitment / reveal algebra).

import (
	"crypto/sha256"
	"encoding/json"
	"fmt"
	"math/rand"
	"strings"
	"sync"

	"github.com/trustbloc/sidetree-go/pkg/canonicalizer"
	"github.com/trustbloc/sidetree-go/pkg/commitment"
	"github.com/trustbloc/sidetree-go/pkg/docutil"
	"github.com/trustbloc/sidetree-go/pkg/encoder"
	"github.com/trustbloc/sidetree-go/pkg/hashing"
	"github.com/trustbloc/sidetree-go/pkg/jws"
	"github.com/trustbloc/sidetree-go/pkg/versions/1_0/operationparser"
)

const hashImports = "From Coq Require Import ZArith NArith String List.\nFrom Sidetree Require Import Base.Hex Json.Json Harness.Runner Harness.HashCases.\nImport ListNotations.\nOpen Scope string_scope.\n"

func optStr(s string, err error) string {
	if err != nil {
		return "None"
	}
	return "(Some " + cStr(s) + ")"
}

// malformedHashes derives encodings from a genuine encoded multihash that must all be rejected
// or at least never validate.
func malformedHashes(h string, r *rand.Rand) [][2]string {
	raw, _ := b64dec(h)
	out := [][2]string{
		{"bad-alphabet", h[:len(h)/2] + "*" + h[len(h)/2+1:]},
		{"std-alphabet", strings.NewReplacer("-", "+", "_", "/").Replace(h) + "+"},
		{"padded", h + "="},
		{"truncated-digest", b64(raw[:len(raw)-1-r.Intn(5)])},
		{"extra-byte", b64(append(append([]byte{}, raw...), byte(r.Intn(256))))},
		{"length-field-plus-one", b64(append([]byte{raw[0], raw[1] + 1}, raw[2:]...))},
		{"length-field-minus-one", b64(append([]byte{raw[0], raw[1] - 1}, raw[2:]...))},
		{"one-byte", b64(raw[:1])},
		{"empty", ""},
		{"newline-inserted", h[:5] + "\n" + h[5:]},
		{"crlf-appended", h + "\r\n"},
		{"digest-bit-flipped", b64(flipByte(raw, 2+r.Intn(len(raw)-2)))},
		{"code-changed", b64(append([]byte{raw[0] ^ 1}, raw[1:]...))},
		{"nonminimal-varint-code", b64(append([]byte{raw[0] | 0x80, 0x00}, raw[1:]...))},
	}
	// same decoded bytes, different last character (spare trailing bits)
	if len(h)%4 == 2 || len(h)%4 == 3 {
		const alpha = "ABCDEFGHIJKLMNOPQRSTUVWXYZabcdefghijklmnopqrstuvwxyz0123456789-_"
		idx := strings.IndexByte(alpha, h[len(h)-1])
		spare := 4
		if len(h)%4 == 3 {
			spare = 2
		}
		mask := 1<<uint(spare) - 1
		alt := (idx &^ mask) | ((idx + 1 + r.Intn(mask)) & mask)
		if alt != idx {
			out = append(out, [2]string{"trailing-bits", h[:len(h)-1] + string(alpha[alt])})
		}
	}
	return out
}

func flipByte(b []byte, i int) []byte {
	c := append([]byte{}, b...)
	c[i] ^= 0x10
	return c
}

func modifyValue(v *jv, r *rand.Rand) *jv {
	// deep copy with one single-point modification
	c := *v
	switch v.kind {
	case "obj":
		c.keys = append([]string{}, v.keys...)
		c.vals = append([]*jv{}, v.vals...)
		if len(c.keys) == 0 || r.Intn(4) == 0 {
			c.keys = append(c.keys, "zz-added")
			c.vals = append(c.vals, &jv{kind: "null"})
			return &c
		}
		i := r.Intn(len(c.keys))
		switch r.Intn(3) {
		case 0:
			c.keys[i] = c.keys[i] + "x"
		case 1:
			c.keys = append(c.keys[:i], c.keys[i+1:]...)
			c.vals = append(c.vals[:i], c.vals[i+1:]...)
		default:
			c.vals[i] = modifyValue(c.vals[i], r)
		}
	case "arr":
		c.arr = append([]*jv{}, v.arr...)
		if len(c.arr) == 0 {
			c.arr = append(c.arr, &jv{kind: "bool", b: true})
			return &c
		}
		i := r.Intn(len(c.arr))
		if r.Intn(3) == 0 && len(c.arr) > 1 {
			j := (i + 1) % len(c.arr)
			c.arr[i], c.arr[j] = c.arr[j], c.arr[i]
			if spell(c.arr[i], r, 0) == spell(c.arr[j], r, 0) {
				c.arr = append(c.arr, &jv{kind: "null"})
			}
		} else {
			c.arr[i] = modifyValue(c.arr[i], r)
		}
	case "str":
		c.s = v.s + "'"
	case "num":
		if v.sig == "" {
			c.sig, c.n = "1", 1
		} else {
			c.neg = !v.neg
		}
	case "bool":
		c.b = !v.b
	case "null":
		c.kind, c.b = "bool", false
	}
	return &c
}

func genC06(seed int64, tier string) []caseOut {
	n := 60
	if tier == "thorough" {
		n = 2500
	}
	r := rand.New(rand.NewSource(seed))
	codes := []uint{18, 19, 18, 19, 17, 0x16, 0, 20, 1 << 20, 18, 19, 0x1012, 0xb212, 0xb213, 0x112, 0x1013, 1<<32 | 0x12, 0x92, 0x93}
	var out []caseOut
	// documents the canonicalizer refuses inside a string literal: whatever it did with them must
	// not reach the next value (fed right before every call below)
	poison := func() {
		for _, bad := range []string{"{\"admin-\\x\":0}", "{\"k\":\"abc", "{\"k\":\"\\ud800\"}", "{\"k\":\"a\\u12\"}", "{\"k\":\"a\x01b\"}", "{\"prefix-\\q\":{\"a\":1}}"} {
			hashing.CalculateModelMultihash([]byte(bad), 18)
		}
	}
	// integer literals beyond 2^53 that are no doubles: hashed as the double they denote, however spelled
	for k, grp := range [][]string{{"9007199254740993", "9007199254740992", "9.007199254740992e15", "9007199254740993.0", "9007199254740992.5"},
		{"9999999999999999", "10000000000000000", "1e16", "1E+16"}, {"9007199254740995", "9007199254740996"}, {"-9007199254740993", "-9007199254740992"},
		{"4503599627370497.5", "4503599627370498"}} {
		code := []uint{18, 19}[k%2]
		text := `{"n":` + grp[0] + `,"s":"x"}`
		poison()
		h, herr := hashing.CalculateModelMultihash([]byte(text), code)
		id, iderr := docutil.CalculateID("did:ns", []byte(text), code)
		var checks []string
		var recs []interface{}
		for j, lit := range append(append([]string{}, grp...), "8"+grp[0][1:]) {
			vtext := `{"s":"x","n":` + lit + `}`
			expect := j < len(grp)
			err := hashing.IsValidModelMultihash([]byte(vtext), h)
			c, cerr := hashing.GetMultihashCode(h)
			cs := "None"
			if cerr == nil {
				cs = "(Some " + cZu(c) + ")"
			}
			cu := hashing.IsComputedUsingMultihashAlgorithms(h, []uint{18, 19})
			cu1 := hashing.IsComputedUsingMultihashAlgorithms(h, []uint{19})
			checks = append(checks, fmt.Sprintf("(mk_vcheck %s %s %s %s %s %s %s)", cStr(vtext), cStr(h), cBool(err == nil), cBool(expect), cs, cBool(cu), cBool(cu1)))
			recs = append(recs, map[string]interface{}{"kind": "integer-beyond-2^53", "value": vtext, "hash": h, "impl_valid": err == nil, "expect_valid": expect})
		}
		hh := sha256.Sum256([]byte(text))
		out = append(out, caseOut{
			Coq:    fmt.Sprintf("(mk_c06 %s %s %s %s %s)", cStr(text), cZu(uint64(code)), optStr(h, herr), optStr(id, iderr), cList(checks)),
			Rec:    map[string]interface{}{"value": text, "code": code, "impl_hash": h, "impl_hash_err": herr != nil, "impl_id": id, "checks": recs},
			Label:  fmt.Sprintf("code-%d,integer-beyond-2^53", code),
			NonTri: fmt.Sprintf("%x", hh[:8]),
		})
	}
	// a Go string handed over as the value is the JSON string, not the JSON text it may spell: no
	// container at top level, so there is nothing to hash
	for k, gs := range []string{"[]", "{}", `{"a":1}`, `[1,2]`, " [] ", `"x"`, "plain"} {
		code := []uint{18, 19}[k%2]
		h, herr := hashing.CalculateModelMultihash(gs, code)
		id, iderr := "", fmt.Errorf("not computed")
		text, _ := json.Marshal(gs)
		var checks []string
		if herr == nil { // whatever came out must at least not validate the container the string spells
			err := hashing.IsValidModelMultihash([]byte(gs), h)
			c, cerr := hashing.GetMultihashCode(h)
			cs := "None"
			if cerr == nil {
				cs = "(Some " + cZu(c) + ")"
			}
			checks = append(checks, fmt.Sprintf("(mk_vcheck %s %s %s false %s %s %s)", cStr(gs), cStr(h), cBool(err == nil), cs,
				cBool(hashing.IsComputedUsingMultihashAlgorithms(h, []uint{18, 19})), cBool(hashing.IsComputedUsingMultihashAlgorithms(h, []uint{19}))))
		}
		hh := sha256.Sum256([]byte("gostring" + gs))
		out = append(out, caseOut{
			Coq:    fmt.Sprintf("(mk_c06 %s %s %s %s %s)", cStr(string(text)), cZu(uint64(code)), optStr(h, herr), optStr(id, iderr), cList(checks)),
			Rec:    map[string]interface{}{"go_string_value": gs, "code": code, "impl_hash": h, "impl_hash_err": herr != nil},
			Label:  "go-string-at-top-level",
			NonTri: fmt.Sprintf("%x", hh[:8]),
		})
	}
	// characters beyond the basic plane, in every plane class, written literally and as escaped
	// surrogate pairs: one value, one hash; neighbouring planes are other values
	for k, cp := range []rune{0x10000, 0x10BB7, 0x1F600, 0x20000, 0x20BB7, 0x2FFFF, 0x30000, 0xE0100, 0xF0000, 0x100000, 0x10FFFF} {
		code := []uint{18, 19}[k%2]
		esc := func(c rune) string {
			c -= 0x10000
			return fmt.Sprintf(`\u%04x\u%04X`, 0xD800+(c>>10), 0xDC00+(c&0x3FF))
		}
		// (next to a name from U+E000-U+FFFF: in UTF-16 code units the supplementary-plane name sorts
		// before it, by code point behind it)
		lit := `{"k":"a` + string(cp) + `z","` + string(cp) + `":1,"\ufb33":2,"` + string(cp) + `\ue000":3}`
		text := `{"k":"a` + esc(cp) + `z","` + esc(cp) + `":1,"\ufb33":2,"` + esc(cp) + `\ue000":3}`
		h, herr := hashing.CalculateModelMultihash([]byte(text), code)
		var checks []string
		if herr == nil {
			other := cp ^ 0x10000 // the same offset in the neighbouring plane
			if other < 0x10000 || other > 0x10FFFF {
				other = cp ^ 0x400
			}
			for _, v := range []struct {
				vtext  string
				expect bool
			}{{lit, true}, {text, true}, {`{"` + string(cp) + `\ue000":3,"\ufb33":2,"` + string(cp) + `":1,"k":"a` + string(cp) + `z"}`, true},
				{`{"k":"a` + string(other) + `z","` + string(other) + `":1,"\ufb33":2,"` + string(other) + `\ue000":3}`, false},
				{`{"k":"a` + esc(other) + `z","` + esc(other) + `":1,"\ufb33":2,"` + esc(other) + `\ue000":3}`, false}} {
				err := hashing.IsValidModelMultihash([]byte(v.vtext), h)
				c, cerr := hashing.GetMultihashCode(h)
				cs := "None"
				if cerr == nil {
					cs = "(Some " + cZu(c) + ")"
				}
				checks = append(checks, fmt.Sprintf("(mk_vcheck %s %s %s %s %s %s %s)", cStr(v.vtext), cStr(h), cBool(err == nil), cBool(v.expect), cs,
					cBool(hashing.IsComputedUsingMultihashAlgorithms(h, []uint{18, 19})), cBool(hashing.IsComputedUsingMultihashAlgorithms(h, []uint{19}))))
			}
		}
		id, iderr := docutil.CalculateID("did:ns", []byte(text), code)
		hh := sha256.Sum256([]byte("plane" + text))
		out = append(out, caseOut{
			Coq:    fmt.Sprintf("(mk_c06 %s %s %s %s %s)", cStr(text), cZu(uint64(code)), optStr(h, herr), optStr(id, iderr), cList(checks)),
			Rec:    map[string]interface{}{"value": text, "code_point": fmt.Sprintf("U+%X", cp), "code": code, "impl_hash": h, "impl_hash_err": herr != nil},
			Label:  "supplementary-plane-escapes",
			NonTri: fmt.Sprintf("%x", hh[:8]),
		})
	}
	for i := 0; i < n; i++ {
		var v *jv
		if r.Intn(5) == 0 {
			v = &jv{kind: "arr", arr: []*jv{randValue(r, 2), randValue(r, 1)}}
		} else {
			v = randObject(r, 2)
		}
		text := spell(v, r, 0)
		code := codes[r.Intn(len(codes))]
		if i%2 == 0 {
			poison()
		}
		h, herr := hashing.CalculateModelMultihash([]byte(text), code)
		id, iderr := docutil.CalculateID("did:ns", []byte(text), code)
		// the multihash octets of the same value, held while everything below computes other hashes:
		// what a call returned stays what it was (encoded only at the end)
		var held []byte
		if canon, cerr := canonicalizer.MarshalCanonical([]byte(text)); cerr == nil && herr == nil {
			held, _ = hashing.ComputeMultihash(code, canon)
		}
		var checks []string
		var recs []interface{}
		addCheck := func(kind, vtext, hash string, expect bool) {
			if i%2 == 0 {
				poison()
			}
			err := hashing.IsValidModelMultihash([]byte(vtext), hash)
			c, cerr := hashing.GetMultihashCode(hash)
			code := "None"
			if cerr == nil {
				code = "(Some " + cZu(c) + ")"
			}
			cu := hashing.IsComputedUsingMultihashAlgorithms(hash, []uint{18, 19})
			cu1 := hashing.IsComputedUsingMultihashAlgorithms(hash, []uint{19})
			checks = append(checks, fmt.Sprintf("(mk_vcheck %s %s %s %s %s %s %s)", cStr(vtext), cStr(hash), cBool(err == nil), cBool(expect), code, cBool(cu), cBool(cu1)))
			recs = append(recs, map[string]interface{}{"kind": kind, "value": vtext, "hash": hash, "impl_valid": err == nil, "expect_valid": expect, "impl_code_ok": cerr == nil, "impl_code": c})
		}
		label := fmt.Sprintf("code-%d", code)
		if herr == nil {
			addCheck("same", text, h, true)
			addCheck("respelled", spell(v, r, 1), h, true)
			addCheck("respelled", spell(v, r, 2), h, true)
			addCheck("modified", spell(modifyValue(v, r), r, 1), h, false)
			addCheck("modified", spell(modifyValue(v, r), r, 0), h, false)
			other := uint(37 - code)
			h2, _ := hashing.CalculateModelMultihash([]byte(text), other)
			addCheck("other-algorithm-hash-of-same-value", text, h2, true)
			for _, m := range malformedHashes(h, r) {
				addCheck("malformed:"+m[0], text, m[1], false)
				label += ",malformed:" + m[0]
			}
		}
		if held != nil {
			h = encoder.EncodeToString(held)
		}
		hh := sha256.Sum256([]byte(text + label))
		out = append(out, caseOut{
			Coq:    fmt.Sprintf("(mk_c06 %s %s %s %s %s)", cStr(text), cZu(uint64(code)), optStr(h, herr), optStr(id, iderr), cList(checks)),
			Rec:    map[string]interface{}{"value": text, "code": code, "impl_hash": h, "impl_hash_err": herr != nil, "impl_id": id, "checks": recs},
			Label:  label,
			NonTri: fmt.Sprintf("%x", hh[:8]),
		})
	}
	// the same hashes computed by several goroutines at once (each its own value): a result that is
	// not the sequential one is emitted as that value's hash and judged like any other
	{
		const workers, rounds = 8, 300
		texts := make([]string, workers)
		seq := make([]string, workers)
		for k := range texts {
			texts[k] = fmt.Sprintf(`{"worker":%d,"payload":"%s"}`, k, strings.Repeat(string(rune('a'+k)), 10+k))
			seq[k], _ = hashing.CalculateModelMultihash([]byte(texts[k]), []uint{18, 19}[k%2])
		}
		got := make([]string, workers)
		var wg sync.WaitGroup
		for k := 0; k < workers; k++ {
			wg.Add(1)
			go func(k int) {
				defer wg.Done()
				defer func() {
					if recover() != nil {
						got[k] = "<panic>"
					}
				}()
				got[k] = seq[k]
				for j := 0; j < rounds; j++ {
					h, err := hashing.CalculateModelMultihash([]byte(texts[k]), []uint{18, 19}[k%2])
					if err != nil || h != seq[k] || hashing.IsValidModelMultihash([]byte(texts[k]), seq[k]) != nil {
						got[k] = "<differs under concurrency>" + h
						return
					}
				}
			}(k)
		}
		wg.Wait()
		for k := 0; k < workers; k++ {
			hh := sha256.Sum256([]byte("conc" + texts[k]))
			out = append(out, caseOut{
				Coq:    fmt.Sprintf("(mk_c06 %s %s %s %s [])", cStr(texts[k]), cZu(uint64([]uint{18, 19}[k%2])), optStr(got[k], nil), optStr("did:ns:"+seq[k], nil)),
				Rec:    map[string]interface{}{"value": texts[k], "concurrent_hash": got[k], "sequential_hash": seq[k]},
				Label:  "concurrent",
				NonTri: fmt.Sprintf("%x", hh[:8]),
			})
		}
	}
	return out
}

// ---- C04 ----

func toJWK(m map[string]interface{}) *jws.JWK {
	g := func(k string) string {
		s, _ := m[k].(string)
		return s
	}
	return &jws.JWK{Kty: g("kty"), Crv: g("crv"), X: g("x"), Y: g("y"), N: g("n"), E: g("e"), Nonce: g("nonce")}
}

func genC04(seed int64, tier string) []caseOut {
	n := 40
	chains := 12
	if tier == "thorough" {
		n, chains = 1500, 400
	}
	r := rand.New(rand.NewSource(seed))
	var out []caseOut
	type c04key struct {
		m, m2 map[string]interface{}
		code  uint
		kind  string
	}
	var keyCases []c04key
	for i := 0; i < n; i++ {
		kind := keyKinds[r.Intn(len(keyKinds))]
		k := genKey(r, kind)
		if r.Intn(2) == 0 {
			nb := make([]byte, 16)
			rngReader{r}.Read(nb)
			k.nonce = b64(nb)
		}
		code := []uint{18, 19, 18, 19, 17, 0}[r.Intn(6)]
		m := k.jwk()
		if i < 8 {
			// systematic: keys whose reveal-value digest begins with one of the two multihash header
			// octets of its algorithm (found by varying the nonce): reading the digest back out of the
			// reveal value must strip the header as a prefix, not as a set of octets
			code = []uint{18, 19}[i%2]
			want := [][]byte{{0x12, 0x20}, {0x13, 0x40}}[i%2][(i/2)%2]
			fr := rand.New(rand.NewSource(int64(4000 + i)))
			for try := 0; try < 20000; try++ {
				nb := make([]byte, 16)
				rngReader{fr}.Read(nb)
				k.nonce = b64(nb)
				m = k.jwk()
				raw, _ := b64dec(revealOf(m, uint64(code)))
				if len(raw) > 2 && raw[2] == want {
					break
				}
			}
		}
		if i >= 8 && i%7 == 3 {
			// RSA-shaped JWK (members n, e and possibly nonce: "n" is a proper prefix of "nonce")
			kind = "RSA"
			nb := make([]byte, 64+r.Intn(200))
			rngReader{r}.Read(nb)
			m = map[string]interface{}{"kty": "RSA", "crv": "", "x": "", "y": "", "n": b64(nb), "e": "AQAB"}
			if k.nonce != "" || i%14 == 3 {
				if k.nonce == "" {
					k.nonce = b64(nb[:16])
				}
				m["nonce"] = k.nonce
			}
		}
		jwk := toJWK(m)
		rv, rerr := commitment.GetRevealValue(jwk, code)
		c, cerr := commitment.GetCommitment(jwk, code)
		cfr, ferr := "", fmt.Errorf("no reveal")
		if rerr == nil {
			cfr, ferr = commitment.GetCommitmentFromRevealValue(rv)
		}
		// a key differing in exactly one member (nonce, or one coordinate character)
		m2 := map[string]interface{}{}
		for kk, vv := range m {
			m2[kk] = vv
		}
		which := "nonce"
		if r.Intn(2) == 0 || k.nonce == "" {
			nb := make([]byte, 16)
			rngReader{r}.Read(nb)
			m2["nonce"] = b64(nb)
		} else {
			which = "x"
			member := "x"
			if kind == "RSA" {
				member, which = "n", "n"
			}
			x := m2[member].(string)
			m2[member] = x[:len(x)-2] + "AA"
			if m2[member] == x {
				m2[member] = x[:len(x)-2] + "BB"
			}
		}
		c2, c2err := commitment.GetCommitment(toJWK(m2), code)
		hh := sha256.Sum256([]byte(fmt.Sprint(m, code)))
		keyCases = append(keyCases, c04key{m, m2, code, kind})
		out = append(out, caseOut{
			Coq: fmt.Sprintf("(mk_c04key %s %s %s %s %s %s %s)", cJSON(jwkImage(m)), cZu(uint64(code)), optStr(rv, rerr), optStr(c, cerr), optStr(cfr, ferr),
				cJSON(jwkImage(m2)), optStr(c2, c2err)),
			Rec:    map[string]interface{}{"jwk": m, "code": code, "reveal": rv, "commitment": c, "commitment_from_reveal": cfr, "other_jwk": m2, "other_commitment": c2, "differs_in": which},
			Label:  fmt.Sprintf("key:%s,code-%d", kind, code),
			NonTri: fmt.Sprintf("%x", hh[:8]),
		})
	}
	// the same values computed by several goroutines at once (different keys, nothing shared by the
	// callers): whatever a call returns then is judged like the sequential result
	{
		type res struct {
			idx            int
			rv, c, cfr, c2 string
			e1, e2, e3, e4 error
			panicked       bool
		}
		limit := len(keyCases)
		if limit > 40 {
			limit = 40
		}
		compute := func(kc c04key) (o res) {
			defer func() {
				if recover() != nil {
					o.panicked = true
				}
			}()
			jwk := toJWK(kc.m)
			o.rv, o.e1 = commitment.GetRevealValue(jwk, kc.code)
			o.c, o.e2 = commitment.GetCommitment(jwk, kc.code)
			o.cfr, o.e3 = "", fmt.Errorf("no reveal")
			if o.e1 == nil {
				o.cfr, o.e3 = commitment.GetCommitmentFromRevealValue(o.rv)
			}
			o.c2, o.e4 = commitment.GetCommitment(toJWK(kc.m2), kc.code)
			return o
		}
		seq := make([]res, limit)
		for i := 0; i < limit; i++ {
			seq[i] = compute(keyCases[i])
		}
		same := func(a, b res) bool {
			return !b.panicked && a.rv == b.rv && a.c == b.c && a.cfr == b.cfr && a.c2 == b.c2 &&
				(a.e1 == nil) == (b.e1 == nil) && (a.e2 == nil) == (b.e2 == nil) && (a.e3 == nil) == (b.e3 == nil) && (a.e4 == nil) == (b.e4 == nil)
		}
		const workers = 8
		bad := make([]*res, workers)
		var wg sync.WaitGroup
		for w := 0; w < workers; w++ {
			wg.Add(1)
			go func(w int) {
				defer wg.Done()
				for round := 0; round < 25 && bad[w] == nil; round++ {
					for i := w % limit; i < limit; i += 1 {
						o := compute(keyCases[i])
						o.idx = i
						if !same(seq[i], o) {
							bad[w] = &o
							break
						}
					}
				}
			}(w)
		}
		wg.Wait()
		reported := map[int]bool{}
		for _, b := range bad {
			if b == nil || reported[b.idx] {
				continue
			}
			reported[b.idx] = true
			kc := keyCases[b.idx]
			if b.panicked {
				b.e1, b.e2, b.e3, b.e4 = fmt.Errorf("panic"), fmt.Errorf("panic"), fmt.Errorf("panic"), fmt.Errorf("panic")
			}
			hh := sha256.Sum256([]byte(fmt.Sprint("concurrent", kc.m, kc.code)))
			out = append(out, caseOut{
				Coq: fmt.Sprintf("(mk_c04key %s %s %s %s %s %s %s)", cJSON(jwkImage(kc.m)), cZu(uint64(kc.code)), optStr(b.rv, b.e1), optStr(b.c, b.e2), optStr(b.cfr, b.e3),
					cJSON(jwkImage(kc.m2)), optStr(b.c2, b.e4)),
				Rec: map[string]interface{}{"jwk": kc.m, "code": kc.code, "reveal": b.rv, "commitment": b.c, "commitment_from_reveal": b.cfr, "other_jwk": kc.m2, "other_commitment": b.c2,
					"computed": "by one of 8 goroutines working on different keys at the same time", "panicked": b.panicked},
				Label:  fmt.Sprintf("key:%s,code-%d,concurrent", kc.kind, kc.code),
				NonTri: fmt.Sprintf("%x", hh[:8]),
			})
		}
	}
	// chains create -> (update|recover)* -> deactivate, values reported by the real parser
	for i := 0; i < chains; i++ {
		algs := [][]uint{{18}, {19}, {18, 19}, {19, 18}}[r.Intn(4)]
		code := uint64(algs[r.Intn(len(algs))])
		base := baseProtocol(r)
		base.MultihashAlgorithms = algs
		base.MaxOperationHashLength = 200
		if i%4 == 1 { // the limit exactly at the encoded length of the chain's hashes
			base.MaxOperationHashLength = map[uint64]uint{18: 46, 19: 88}[code]
		}
		kinds := []string{keyKinds[r.Intn(len(keyKinds))]}
		d := &didState{r: r, cfg: base, code: code, kinds: kinds}
		if i%4 == 2 { // keys whose coordinates are written with the spare bits of base64url set: the JWK as spelled is what is hashed
			d.kinds = []string{[]string{"P-256", "secp256k1", "Ed25519"}[(i/4)%3]}
			d.spare = true
		}
		p := operationparser.New(base)
		if i%2 == 1 { // request-time validators that refuse everything: GetRevealValue / GetCommitment read anchored operations
			p = operationparser.New(base, operationparser.WithAnchorTimeValidator(refuseTime{}), operationparser.WithAnchorOriginValidator(refuseOrigin{}))
		}
		var links []string
		var recs []interface{}
		length := 2 + r.Intn(7)
		rotating := i%4 == 0 // a chain that keeps its key material and only moves the nonce: on, off, on ...
		if rotating {
			length = 7
		}
		var lastUpdC, lastRecC string // commitments reported for the predecessor on each chain
		ok := true
		for j := 0; j < length && ok; j++ {
			typ := "create"
			if j > 0 {
				typ = []string{"update", "update", "recover"}[r.Intn(3)]
				if rotating {
					typ = []string{"update", "update", "recover", "recover", "update"}[(j-1)%5]
				}
				if j == length-1 {
					typ = "deactivate"
				}
			}
			cfg := base
			mut := ""
			if typ == "deactivate" && r.Intn(2) == 0 {
				mut = "extra_signed_commitments" // members the deactivate model does not have: still a deactivate, still no next commitment
			}
			if (typ == "recover" || typ == "update") && rotating { // rotation to the same key material under another nonce
				mut = "rotate_nonce_only"
			}
			if typ == "recover" && i%3 == 2 { // a recover whose delta this node would refuse at request time still advances the recovery commitment
				mut = "delta_invalid_patch"
			}
			b := d.buildOp(typ, mut, uint64(1000+j), &cfg)
			switch typ {
			case "create":
				// the create request's commitments are read from the request itself
				lastRecC, lastUpdC = b.v.RecoveryC, b.v.UpdateC
				recs = append(recs, map[string]interface{}{"type": typ, "request": string(b.bytes)})
				continue
			}
			rv, rerr := p.GetRevealValue(b.bytes)
			nc, nerr := p.GetCommitment(b.bytes)
			pred := lastUpdC
			if typ != "update" {
				pred = lastRecC
			}
			links = append(links, fmt.Sprintf("(mk_link %s %s %s %s)", cStr(typ), optStr(rv, rerr), optStr(nc, nerr), cStr(pred)))
			recs = append(recs, map[string]interface{}{"type": typ, "request": string(b.bytes), "reveal": rv, "next_commitment": nc, "predecessor_commitment": pred})
			switch typ {
			case "update":
				lastUpdC = nc
			case "recover":
				lastRecC = nc
				lastUpdC = b.v.UpdateC
			}
		}
		hh := sha256.Sum256([]byte(fmt.Sprint(recs)))
		out = append(out, caseOut{
			Coq:    fmt.Sprintf("(mk_c04chain %s)", cList(links)),
			Rec:    map[string]interface{}{"algorithms": algs, "chain_code": code, "chain": recs},
			Label:  fmt.Sprintf("chain:%s,algs-%v,code-%d", kinds[0], algs, code),
			NonTri: fmt.Sprintf("%x", hh[:8]),
		})
	}
	// requests that are no link of any chain: a reveal value in another spelling (decodes to the same
	// octets), the reveal value of another key than the one that signed, a truncated digest - the
	// accessors report neither a reveal value nor a next commitment for them (they read anchored
	// operations, i.e. parse in batch mode)
	for k, typ := range []string{"update", "recover", "deactivate"} {
		for m, mut := range []string{"reveal_respelled", "reveal_substituted", "reveal_truncated_digest", "reveal_unconfigured_alg"} {
			base := baseProtocol(r)
			base.MultihashAlgorithms = []uint{18}
			base.MaxOperationHashLength = 200
			d := &didState{r: r, cfg: base, code: 18, kinds: []string{keyKinds[(k+m)%len(keyKinds)]}}
			cfg := base
			d.buildOp("create", "", 1000, &cfg)
			b := d.buildOp(typ, mut, 1001, &cfg)
			p := operationparser.New(cfg)
			_, rerr := p.GetRevealValue(b.bytes)
			_, nerr := p.GetCommitment(b.bytes)
			hh := sha256.Sum256(b.bytes)
			out = append(out, caseOut{
				Coq:    fmt.Sprintf("(mk_c04refuse %d%%nat %s %s)", 10*k+m, cBool(rerr != nil), cBool(nerr != nil)),
				Rec:    map[string]interface{}{"type": typ, "what": mut, "request": string(b.bytes), "reveal_refused": rerr != nil, "commitment_refused": nerr != nil},
				Label:  "not-a-link:" + typ + ":" + mut,
				NonTri: fmt.Sprintf("%x", hh[:8]),
			})
		}
	}
	// chains built by the library's own client and builders, incl. a client that switches to the
	// other configured hash algorithm after the create
	for _, idx := range []int{10, 0, 3, 24, 5} {
		lifecycleCase(r, idx)
		p := operationparser.New(lastLifeCfg)
		var links []string
		var recs []interface{}
		var lastUpdC, lastRecC string
		complete := true
		for _, st := range lastLifeSteps {
			if st.bytes == nil {
				complete = false
				break
			}
			if st.typ == "create" {
				var req M
				json.Unmarshal(st.bytes, &req)
				lastRecC, _ = req["suffixData"].(map[string]interface{})["recoveryCommitment"].(string)
				lastUpdC, _ = req["delta"].(map[string]interface{})["updateCommitment"].(string)
				continue
			}
			rv, rerr := p.GetRevealValue(st.bytes)
			nc, nerr := p.GetCommitment(st.bytes)
			pred := lastUpdC
			if st.typ != "update" {
				pred = lastRecC
			}
			links = append(links, fmt.Sprintf("(mk_link %s %s %s %s)", cStr(st.typ), optStr(rv, rerr), optStr(nc, nerr), cStr(pred)))
			recs = append(recs, map[string]interface{}{"type": st.typ, "request": string(st.bytes), "reveal": rv, "next_commitment": nc, "predecessor_commitment": pred})
			switch st.typ {
			case "update":
				lastUpdC = nc
			case "recover":
				lastRecC = nc
				var req M
				json.Unmarshal(st.bytes, &req)
				lastUpdC, _ = req["delta"].(map[string]interface{})["updateCommitment"].(string)
			}
		}
		if !complete || len(links) == 0 {
			continue
		}
		hh := sha256.Sum256([]byte(fmt.Sprint(recs)))
		out = append(out, caseOut{
			Coq:    fmt.Sprintf("(mk_c04chain %s)", cList(links)),
			Rec:    map[string]interface{}{"algorithms": lastLifeCfg.MultihashAlgorithms, "built_by": "library client / builders", "chain": recs},
			Label:  fmt.Sprintf("client-chain:%d,algs-%v", idx, lastLifeCfg.MultihashAlgorithms),
			NonTri: fmt.Sprintf("%x", hh[:8]),
		})
	}
	return out
}

// jwkImage is the JSON image of sidetree's jws.JWK struct: kty, crv, x, y always; n, e, nonce
// only when non-empty.
func jwkImage(m map[string]interface{}) map[string]interface{} {
	out := map[string]interface{}{"kty": "", "crv": "", "x": "", "y": ""}
	for _, k := range []string{"kty", "crv", "x", "y"} {
		if s, ok := m[k].(string); ok {
			out[k] = s
		}
	}
	for _, k := range []string{"n", "e", "nonce"} {
		if s, ok := m[k].(string); ok && s != "" {
			out[k] = s
		}
	}
	return out
}

func init() {
	generators["C06"] = generator{"c06case", "judge_c06", hashImports, genC06}
	generators["C04"] = generator{"c04case", "judge_c04", hashImports, genC04}
}
