package main

// C20: shared components under concurrent use.  The stress binary (built with -race) is run
// under several GOMAXPROCS settings and seeds; every scenario line becomes a case.

import (
	"bufio"
	"bytes"
	"encoding/json"
	"fmt"
	"os"
	"os/exec"
	"path/filepath"
	"strings"
)

const concImports = "From Coq Require Import ZArith NArith String List.\nFrom Sidetree Require Import Base.Hex Harness.Runner Harness.ConcCases.\nImport ListNotations.\nOpen Scope string_scope.\n"

func genC20(seed int64, tier string) []caseOut {
	bin := filepath.Join(filepath.Dir(os.Args[0]), "vstress")
	procs := []string{"16", "4", "2"}
	workers, calls, trials, seeds := "16", "12", "60", 1
	if tier == "thorough" {
		workers, calls, trials, seeds = "32", "24", "300", 3
		procs = []string{"16", "8", "4", "2", "1"}
	}
	var out []caseOut
	for s := 0; s < seeds; s++ {
		for _, p := range procs {
			cmd := exec.Command(bin, "-seed", fmt.Sprint(seed+int64(s)), "-workers", workers, "-calls", calls, "-trials", trials)
			cmd.Env = append(os.Environ(), "GOMAXPROCS="+p, "GORACE=halt_on_error=0 exitcode=0")
			var stdout, stderr bytes.Buffer
			cmd.Stdout, cmd.Stderr = &stdout, &stderr
			err := cmd.Run()
			races := strings.Count(stderr.String(), "WARNING: DATA RACE")
			crashed := err != nil
			sc := bufio.NewScanner(&stdout)
			n := 0
			for sc.Scan() {
				var r struct {
					Scenario   string
					Calls      int
					Mismatches int
					Detail     string
				}
				if json.Unmarshal(sc.Bytes(), &r) != nil {
					continue
				}
				n++
				out = append(out, caseOut{
					Coq:    fmt.Sprintf("(mk_c20 %s %d%%nat %d%%nat %d%%nat %s)", cStr(r.Scenario), r.Calls, r.Mismatches, races, cBool(crashed)),
					Rec:    map[string]interface{}{"scenario": r.Scenario, "gomaxprocs": p, "calls": r.Calls, "mismatches": r.Mismatches, "data_races_reported": races, "detail": r.Detail, "seed": seed + int64(s)},
					Label:  "stress:" + r.Scenario + ",GOMAXPROCS-" + p,
					NonTri: fmt.Sprintf("%s-%s-%d", r.Scenario, p, s),
				})
			}
			if n == 0 {
				tail := stderr.String()
				if len(tail) > 1500 {
					tail = tail[len(tail)-1500:]
				}
				out = append(out, caseOut{
					Coq:   fmt.Sprintf("(mk_c20 %s 0%%nat 0%%nat %d%%nat true)", cStr("stress-binary-failed"), races),
					Rec:   map[string]interface{}{"scenario": "stress binary produced no result", "stderr_tail": tail},
					Label: "stress:failed", NonTri: "failed",
				})
			}
		}
	}
	return out
}

func init() {
	generators["C20"] = generator{"c20case", "judge_c20", concImports, genC20}
}
