package main

// C08: requests built by the request builders and by the Sidetree client are accepted by the
// matching parser and yield the requested document, commitments and flags; anchored form.

import (
	"crypto"
	"crypto/ed25519"
	"crypto/sha256"
	"encoding/json"
	"fmt"
	"io"
	"math/rand"
	"net/http"
	"strings"
	"sync"

	gojose "github.com/go-jose/go-jose/v3"
	docdid "github.com/trustbloc/did-go/doc/did"
	endpoint "github.com/trustbloc/did-go/doc/did/endpoint"
	"github.com/trustbloc/kms-go/doc/jose/jwk"

	"github.com/trustbloc/sidetree-go/pkg/api/operation"
	"github.com/trustbloc/sidetree-go/pkg/api/protocol"
	"github.com/trustbloc/sidetree-go/pkg/jws"
	"github.com/trustbloc/sidetree-go/pkg/patch"
	"github.com/trustbloc/sidetree-go/pkg/util/ecsigner"
	"github.com/trustbloc/sidetree-go/pkg/util/edsigner"
	"github.com/trustbloc/sidetree-go/pkg/util/pubkey"
	"github.com/trustbloc/sidetree-go/pkg/vdr/sidetreelongform/sidetree"
	sdoc "github.com/trustbloc/sidetree-go/pkg/vdr/sidetreelongform/sidetree/doc"
	"github.com/trustbloc/sidetree-go/pkg/vdr/sidetreelongform/sidetree/option/create"
	"github.com/trustbloc/sidetree-go/pkg/vdr/sidetreelongform/sidetree/option/deactivate"
	"github.com/trustbloc/sidetree-go/pkg/vdr/sidetreelongform/sidetree/option/recovery"
	"github.com/trustbloc/sidetree-go/pkg/vdr/sidetreelongform/sidetree/option/update"
	"github.com/trustbloc/sidetree-go/pkg/versions/1_0/client"
	"github.com/trustbloc/sidetree-go/pkg/versions/1_0/doccomposer"
	"github.com/trustbloc/sidetree-go/pkg/versions/1_0/model"
	"github.com/trustbloc/sidetree-go/pkg/versions/1_0/operationapplier"
	"github.com/trustbloc/sidetree-go/pkg/versions/1_0/operationparser"
)

type libSigner struct {
	sign func([]byte) ([]byte, error)
	hdr  jws.Headers
	jwk  *jws.JWK
}

func (s *libSigner) Sign(d []byte) ([]byte, error) { return s.sign(d) }
func (s *libSigner) Headers() jws.Headers          { return s.hdr }
func (s *libSigner) PublicKeyJWK() *jws.JWK        { return s.jwk }

func (k *keyPair) public() crypto.PublicKey {
	if k.kind == "Ed25519" {
		return k.ed.Public().(ed25519.PublicKey)
	}
	return &k.ec.PublicKey
}

func (k *keyPair) signer() *libSigner {
	j, err := pubkey.GetPublicKeyJWK(k.public())
	if err != nil {
		panic(err)
	}
	if k.kind == "Ed25519" {
		s := edsigner.New(k.ed, k.alg, "")
		return &libSigner{s.Sign, s.Headers(), j}
	}
	s := ecsigner.New(k.ec, k.alg, "")
	return &libSigner{s.Sign, s.Headers(), j}
}

func cleanJWK(k *keyPair) M {
	j := k.jwk()
	delete(j, "nonce")
	if k.kind == "Ed25519" {
		delete(j, "y")
	}
	return j
}

type docKeySpec struct {
	id, typ  string
	purposes []string
	k        *keyPair
}

func (d docKeySpec) lib() *sdoc.PublicKey {
	pk := &sdoc.PublicKey{ID: d.id, Type: d.typ, Purposes: d.purposes, JWK: jwk.JWK{JSONWebKey: gojose.JSONWebKey{Key: d.k.public()}}}
	if len(d.id)%2 == 1 { // a caller's key value that also carries a base58 form: the JWK is what the request states
		pk.B58Key = "GY4GunSXBPBfhLCzDL7iGmP5dR3sBDCJZkkaGK8VgYQf"
	}
	return pk
}

func (d docKeySpec) raw() M {
	ps := A{}
	for _, p := range d.purposes {
		ps = append(ps, p)
	}
	return M{"id": d.id, "type": d.typ, "purposes": ps, "publicKeyJwk": cleanJWK(d.k)}
}

type svcSpec struct{ id, typ, uri string }

// Callers hold on to their service values: every service of a run shares one Properties map,
// services with routing keys alternate with services without, and the value built for a
// service id is handed to the client again whenever that id comes back.
var sharedSvcProps = map[string]interface{}{"note": "shared"}
var svcValues = map[string]*docdid.Service{}

func (s svcSpec) routed() bool { return len(s.id)%2 == 0 }

func (s svcSpec) lib() *docdid.Service {
	if v, ok := svcValues[s.id+s.typ+s.uri]; ok {
		return v
	}
	v := &docdid.Service{ID: s.id, Type: s.typ, ServiceEndpoint: endpoint.NewDIDCommV1Endpoint(s.uri), Properties: sharedSvcProps}
	if s.routed() {
		v.RoutingKeys = []string{"did:example:router#" + s.id}
	}
	svcValues[s.id+s.typ+s.uri] = v
	return v
}
func (s svcSpec) raw() M {
	m := M{"id": s.id, "type": s.typ, "serviceEndpoint": s.uri, "note": "shared"}
	if s.routed() {
		m["routingKeys"] = A{"did:example:router#" + s.id}
	}
	return m
}

func randDocKeys(r *rand.Rand, prefix string, n int) []docKeySpec {
	var out []docKeySpec
	for i := 0; i < n; i++ {
		kind := []string{"P-256", "Ed25519", "P-384"}[r.Intn(3)]
		typ := "JsonWebKey2020"
		var ps []string
		for _, p := range allPurposes {
			if r.Intn(2) == 0 {
				ps = append(ps, p)
			}
		}
		if len(ps) == 0 {
			ps = []string{"authentication"}
		}
		out = append(out, docKeySpec{fmt.Sprintf("%s%d", prefix, i+1), typ, ps, genKey(r, kind)})
	}
	return out
}

// expected document bookkeeping (independent of the composer): remove by id, add = replace in
// place or append; empty lists are dropped (the comparison treats null / [] / absent alike)
type expDoc struct {
	keys, svcs A
	akas       []string
}

func (e *expDoc) doc() M {
	d := M{}
	if len(e.keys) > 0 {
		d["publicKey"] = e.keys
	}
	if len(e.svcs) > 0 {
		d["service"] = e.svcs
	}
	if len(e.akas) > 0 {
		a := A{}
		for _, u := range e.akas {
			a = append(a, u)
		}
		d["alsoKnownAs"] = a
	}
	return d
}

func upsert(list A, item M) A {
	for i, x := range list {
		if x.(M)["id"] == item["id"] {
			out := append(A{}, list...)
			out[i] = item
			return out
		}
	}
	return append(append(A{}, list...), item)
}

func removeID(list A, id string) A {
	out := A{}
	for _, x := range list {
		if x.(M)["id"] != id {
			out = append(out, x)
		}
	}
	return out
}

type lifeStep struct {
	typ     string
	bytes   []byte
	refused error // builder error
}

func genC08(seed int64, tier string) []caseOut {
	n := 14
	if tier == "thorough" {
		n = 400
	}
	r := rand.New(rand.NewSource(seed))
	var out []caseOut
	for i := 0; i < n; i++ {
		out = append(out, lifecycleCase(r, i))
	}
	out = append(out, builderRefusals(r)...)
	out = append(out, concurrentBuilds(r)...)
	nb := 80
	if tier == "thorough" {
		nb = 600
	}
	out = append(out, builderModelCases(rand.New(rand.NewSource(seed+77)), nb)...)
	return out
}

// concurrentBuilds: independent DIDs created, updated and parsed by several goroutines at once;
// every request must equal the one built for the same inputs sequentially (create and update
// requests of Ed25519 keys are deterministic) and must be accepted by the parser.
func concurrentBuilds(r *rand.Rand) []caseOut {
	cfg := baseProtocol(r)
	cfg.MultihashAlgorithms = []uint{18, 19}
	cfg.MaxOperationHashLength = 200
	const dids = 12
	type job struct {
		code           uint
		rec, upd, next *keyPair
		doc            string
	}
	jobs := make([]job, dids)
	for i := range jobs {
		jobs[i] = job{[]uint{18, 19}[i%2], genKey(r, "Ed25519"), genKey(r, "Ed25519"), genKey(r, "Ed25519"),
			fmt.Sprintf(`{"service":[{"id":"s%d","type":"T","serviceEndpoint":"https://example.com/%d"}]}`, i, i)}
	}
	build := func(j job) (out [2][]byte, problem string) {
		defer func() {
			if e := recover(); e != nil {
				problem = fmt.Sprint("panic: ", e)
			}
		}()
		p := operationparser.New(cfg)
		code := uint64(j.code)
		cr, err := client.NewCreateRequest(&client.CreateRequestInfo{OpaqueDocument: j.doc, RecoveryCommitment: commitmentOf(j.rec.jwk(), code),
			UpdateCommitment: commitmentOf(j.upd.jwk(), code), MultihashCode: j.code})
		if err != nil {
			return out, "create builder: " + err.Error()
		}
		op, err := p.Parse("did:ns", cr)
		if err != nil {
			return out, "create refused: " + err.Error()
		}
		pt, _ := patch.NewAddAlsoKnownAs(`["https://aka.example/1"]`)
		sg := j.upd.signer()
		up, err := client.NewUpdateRequest(&client.UpdateRequestInfo{DidSuffix: op.UniqueSuffix, Patches: []patch.Patch{pt},
			UpdateCommitment: commitmentOf(j.next.jwk(), code), UpdateKey: sg.jwk, MultihashCode: j.code, Signer: sg,
			RevealValue: revealOf(j.upd.jwk(), code)})
		if err != nil {
			return out, "update builder: " + err.Error()
		}
		if _, err := p.Parse("did:ns", up); err != nil {
			return out, "update refused: " + err.Error()
		}
		return [2][]byte{cr, up}, ""
	}
	seq := make([][2][]byte, dids)
	for i, j := range jobs {
		var prob string
		if seq[i], prob = build(j); prob != "" {
			seq[i] = [2][]byte{}
		}
	}
	problems := make([]string, dids)
	var wg sync.WaitGroup
	for i := range jobs {
		wg.Add(1)
		go func(i int) {
			defer wg.Done()
			for round := 0; round < 40 && problems[i] == ""; round++ {
				got, prob := build(jobs[i])
				if prob == "" && (string(got[0]) != string(seq[i][0]) || string(got[1]) != string(seq[i][1])) {
					prob = "request differs from the one built sequentially from the same input"
				}
				if prob != "" && len(seq[i][0]) > 0 {
					problems[i] = prob
				}
			}
		}(i)
	}
	wg.Wait()
	same := true
	var why []string
	for i, p := range problems {
		if p != "" {
			same = false
			why = append(why, fmt.Sprintf("did %d: %s", i, p))
		}
	}
	h := sha256.Sum256([]byte("concurrent-builds"))
	return []caseOut{{
		Coq:    fmt.Sprintf("(mk_c08conc %s)", cBool(same)),
		Rec:    map[string]interface{}{"independent_dids": dids, "rounds": 40, "all_as_sequential": same, "problems": why},
		Label:  "concurrent-builds",
		NonTri: fmt.Sprintf("%x", h[:8]),
	}}
}

// the requests of the most recent lifecycle (C04 links them with the parser's accessors)
var lastLifeSteps []lifeStep
var lastLifeCfg protocol.Protocol

func lifecycleCase(r *rand.Rand, idx int) caseOut {
	code := uint(18)
	if idx%5 == 4 {
		code = 19
	}
	cfg := baseProtocol(r)
	cfg.MultihashAlgorithms = []uint{code}
	// updCode / recCode: the algorithm the current update / recovery commitment was made with;
	// codeNow: the algorithm the client is configured with (may change during the DID's life)
	updCode, recCode, codeNow := code, code, code
	switchAlg := idx%7 == 3 && idx%2 == 0
	if switchAlg {
		cfg.MultihashAlgorithms = []uint{code, 37 - code}
	}
	cfg.MaxOperationHashLength = 200
	cfg.MaxOperationTimeDelta = 5000
	opKind := keyKinds[idx%len(keyKinds)]
	useClient := idx%2 == 0
	recKey, updKey := genKey(r, opKind), genKey(r, opKind)
	zeroLead := idx%3 == 1 && opKind != "Ed25519"
	if zeroLead { // operation keys with a leading zero byte in a coordinate (fixed-width JWK encoding matters)
		recKey, updKey = zeroLeadKey(opKind, "x", 0), zeroLeadKey(opKind, "y", 0)
	}
	var captured [][]byte
	cl := sidetree.New(sidetree.WithSidetreeOperationRequestFnc(func(req []byte, _ sidetree.GetEndpointsFunc) ([]byte, error) {
		captured = append(captured, req)
		return []byte(`{"@context":["https://www.w3.org/ns/did/v1"],"id":"did:ex:1"}`), nil
	}))
	// every fourth client lifecycle goes through the client's own HTTP transport (no network: a round
	// tripper stands in for the node); the cached endpoint is stale and answers 503 after reading the
	// request, so what the node receives is what the retry delivers
	viaHTTP := useClient && idx%4 == 2
	endpoints := func(disableCache bool) ([]string, error) {
		if disableCache {
			return []string{"http://node.invalid/operations"}, nil
		}
		return []string{"http://stale.invalid/operations"}, nil
	}
	if viaHTTP {
		cl = sidetree.New(sidetree.WithHTTPClient(&http.Client{Transport: roundTripFunc(func(req *http.Request) (*http.Response, error) {
			body, _ := io.ReadAll(req.Body)
			mk := func(code int, text string) *http.Response {
				return &http.Response{StatusCode: code, Body: io.NopCloser(strings.NewReader(text)), Header: http.Header{}, Request: req}
			}
			if req.URL.Host == "stale.invalid" {
				return mk(http.StatusServiceUnavailable, "stale endpoint"), nil
			}
			captured = append(captured, body)
			return mk(http.StatusOK, `{"didDocument":{"@context":["https://www.w3.org/ns/did/v1"],"id":"did:ex:1"}}`), nil
		})}))
	}
	exp := &expDoc{}
	var origin interface{}
	var steps []lifeStep
	label := fmt.Sprintf("lifecycle:%s,code-%d", opKind, code)
	if zeroLead {
		label += ",zero-lead-coordinates"
	}
	if viaHTTP {
		label += ",sidetree-client-over-http-with-stale-endpoint"
	} else if useClient {
		label += ",sidetree-client"
	} else {
		label += ",builders"
	}
	t := uint64(6000 + r.Intn(1000))
	// anchoring windows of the builder requests: the edges, systematically (first and last
	// second, explicit and defaulted expiry), then somewhere inside
	winSeq := idx / 2
	edgeWindow := func() (int64, int64) {
		winSeq++
		ti, delta := int64(t), int64(cfg.MaxOperationTimeDelta)
		switch winSeq % 8 {
		case 0:
			return 0, 0
		case 1:
			return ti, ti
		case 2:
			return ti - 7, ti
		case 3:
			return ti, 0
		case 4:
			return ti - delta, 0
		case 5:
			return 0, ti
		case 6:
			return ti - int64(r.Intn(100)), ti + int64(r.Intn(100))
		}
		return ti - int64(r.Intn(100)), 0
	}
	type stepMeta struct {
		from, until int64
		t           uint64
	}
	var metas []stepMeta
	var expAfter []M
	snap := func() {
		b, _ := json.Marshal(exp.doc())
		var m M
		json.Unmarshal(b, &m)
		expAfter = append(expAfter, m)
	}
	// ---- create
	keys := randDocKeys(r, "key", 1+r.Intn(3))
	// endpoints with the characters an HTML-safe encoder escapes (&, <, >): sizes are those of the canonical form
	svcs := []svcSpec{{"svc1", "T1", "https://example.com/one?user=alice&lang=en&q=<a>"}}
	if r.Intn(2) == 0 {
		svcs = append(svcs, svcSpec{"svc2", "T2", "https://example.com/two"})
	}
	akas := []string{"https://aka.example/1"}
	for _, k := range keys {
		exp.keys = append(exp.keys, k.raw())
	}
	for _, s := range svcs {
		exp.svcs = append(exp.svcs, s.raw())
	}
	exp.akas = append(exp.akas, akas...)
	var suffix string
	buildDocJSON := func() string { b, _ := json.Marshal(exp.doc()); return string(b) }
	if useClient {
		opts := []create.Option{create.WithRecoveryPublicKey(recKey.public()), create.WithUpdatePublicKey(updKey.public()), create.WithMultiHashAlgorithm(code)}
		for _, k := range keys {
			opts = append(opts, create.WithPublicKey(k.lib()))
		}
		for _, s := range svcs {
			opts = append(opts, create.WithService(s.lib()))
		}
		for _, a := range akas {
			opts = append(opts, create.WithAlsoKnownAs(a))
		}
		if r.Intn(2) == 0 {
			origin = "origin.example"
			opts = append(opts, create.WithAnchorOrigin("origin.example"))
		}
		if viaHTTP {
			opts = append(opts, create.WithSidetreeEndpoint(endpoints))
		}
		_, err := cl.CreateDID(opts...)
		if err != nil || len(captured) == 0 {
			steps = append(steps, lifeStep{"create", nil, fmt.Errorf("%v", err)})
		} else {
			steps = append(steps, lifeStep{"create", captured[len(captured)-1], nil})
		}
	} else {
		if r.Intn(2) == 0 {
			origin = M{"sys": "ledger"}
		}
		b, err := client.NewCreateRequest(&client.CreateRequestInfo{OpaqueDocument: buildDocJSON(),
			RecoveryCommitment: commitmentOf(recKey.jwk(), uint64(code)), UpdateCommitment: commitmentOf(updKey.jwk(), uint64(code)),
			AnchorOrigin: origin, MultihashCode: code, Type: ""})
		steps = append(steps, lifeStep{"create", b, err})
	}
	metas = append(metas, stepMeta{0, 0, t})
	snap()
	if steps[0].bytes != nil {
		var req M
		json.Unmarshal(steps[0].bytes, &req)
		if sd, ok := req["suffixData"].(map[string]interface{}); ok {
			suffix = modelHash(sd, uint64(code))
		}
	}
	// namespaces with further segments (label, domain, canonical reference) are DIDs the library itself emits
	ns := []string{"did:ns", "did:ns", "did:sidetree:test", "did:orb:uAAA", "did:ns:a:b"}[idx%5]
	did := ns + ":" + suffix
	if switchAlg && useClient {
		codeNow = 37 - code // from now on the client hashes with the other configured algorithm
		label += ",client-algorithm-switched"
	}
	// ---- updates, recover, updates, deactivate
	doUpdates := func(count int) {
		for u := 0; u < count; u++ {
			next := genKey(r, opKind)
			if zeroLead {
				next = zeroLeadKey(opKind, []string{"x", "y"}[len(steps)%2], 1+len(steps))
			}
			t += uint64(1 + r.Intn(100))
			addK := randDocKeys(r, fmt.Sprintf("u%dk", len(steps)), r.Intn(2))
			if len(exp.keys) > 0 && r.Intn(2) == 0 { // rotate an existing key in place: remove + add the same id
				old := exp.keys[r.Intn(len(exp.keys))].(M)["id"].(string)
				nk := randDocKeys(r, "x", 1)[0]
				nk.id = old
				addK = append(addK, nk)
			}
			var rmK, rmS, rmA []string
			for _, k := range addK {
				for _, e := range exp.keys {
					if e.(M)["id"] == k.id {
						rmK = append(rmK, k.id)
					}
				}
			}
			if len(exp.svcs) > 1 && r.Intn(2) == 0 {
				rmS = append(rmS, exp.svcs[0].(M)["id"].(string))
			}
			if len(exp.akas) > 0 && r.Intn(3) == 0 {
				rmA = append(rmA, exp.akas[0])
			}
			addS := []svcSpec{}
			if r.Intn(2) == 0 {
				addS = append(addS, svcSpec{fmt.Sprintf("svcU%d", len(steps)), "TU", "https://example.com/u?a=1&b=2&c=<3>"})
			}
			addA := []string{}
			if r.Intn(2) == 0 {
				addA = append(addA, fmt.Sprintf("https://aka.example/u%d", len(steps)))
			}
			if len(addK)+len(rmK)+len(rmS)+len(rmA)+len(addS)+len(addA) == 0 {
				addA = append(addA, fmt.Sprintf("https://aka.example/x%d", len(steps)))
			}
			// expected: removes first, then adds (the order the client documents)
			for _, id := range rmA {
				var keep []string
				for _, a := range exp.akas {
					if a != id {
						keep = append(keep, a)
					}
				}
				exp.akas = keep
			}
			for _, id := range rmK {
				exp.keys = removeID(exp.keys, id)
			}
			for _, id := range rmS {
				exp.svcs = removeID(exp.svcs, id)
			}
			for _, a := range addA {
				dup := false
				for _, e := range exp.akas {
					dup = dup || e == a
				}
				if !dup {
					exp.akas = append(exp.akas, a)
				}
			}
			for _, s := range addS {
				exp.svcs = upsert(exp.svcs, s.raw())
			}
			for _, k := range addK {
				exp.keys = upsert(exp.keys, k.raw())
			}
			var from, until int64
			if useClient {
				opts := []update.Option{update.WithSigner(updKey.signer()), update.WithNextUpdatePublicKey(next.public()),
					update.WithOperationCommitment(commitmentOf(updKey.jwk(), uint64(updCode))), update.WithMultiHashAlgorithm(codeNow)}
				updCode = codeNow
				for _, k := range addK {
					opts = append(opts, update.WithAddPublicKey(k.lib()))
				}
				for _, s := range addS {
					opts = append(opts, update.WithAddService(s.lib()))
				}
				for _, a := range addA {
					opts = append(opts, update.WithAddAlsoKnownAs(a))
				}
				for _, id := range rmK {
					opts = append(opts, update.WithRemovePublicKey(id))
				}
				for _, id := range rmS {
					opts = append(opts, update.WithRemoveService(id))
				}
				for _, a := range rmA {
					opts = append(opts, update.WithRemoveAlsoKnownAs(a))
				}
				if viaHTTP {
					opts = append(opts, update.WithSidetreeEndpoint(endpoints))
				}
				before := len(captured)
				err := cl.UpdateDID(did, opts...)
				if err != nil || len(captured) == before {
					steps = append(steps, lifeStep{"update", nil, fmt.Errorf("%v", err)})
				} else {
					steps = append(steps, lifeStep{"update", captured[len(captured)-1], nil})
				}
			} else {
				var ps []patch.Patch
				js := func(v interface{}) string { b, _ := json.Marshal(v); return string(b) }
				mk := func(p patch.Patch, err error) {
					if err != nil {
						panic(err)
					}
					ps = append(ps, p)
				}
				if len(rmA) > 0 {
					mk(patch.NewRemoveAlsoKnownAs(js(rmA)))
				}
				if len(rmK) > 0 {
					mk(patch.NewRemovePublicKeysPatch(js(rmK)))
				}
				if len(rmS) > 0 {
					mk(patch.NewRemoveServiceEndpointsPatch(js(rmS)))
				}
				if len(addA) > 0 {
					mk(patch.NewAddAlsoKnownAs(js(addA)))
				}
				if len(addS) > 0 {
					l := A{}
					for _, s := range addS {
						l = append(l, s.raw())
					}
					mk(patch.NewAddServiceEndpointsPatch(js(l)))
				}
				if len(addK) > 0 {
					l := A{}
					for _, k := range addK {
						l = append(l, k.raw())
					}
					mk(patch.NewAddPublicKeysPatch(js(l)))
				}
				from, until = edgeWindow()
				sg := updKey.signer()
				b, err := client.NewUpdateRequest(&client.UpdateRequestInfo{DidSuffix: suffix, Patches: ps,
					UpdateCommitment: commitmentOf(next.jwk(), uint64(code)), UpdateKey: sg.jwk, MultihashCode: code, Signer: sg,
					RevealValue: revealOf(updKey.jwk(), uint64(code)), AnchorFrom: from, AnchorUntil: until})
				steps = append(steps, lifeStep{"update", b, err})
			}
			metas = append(metas, stepMeta{from, until, t})
			snap()
			updKey = next
		}
	}
	nFirst := r.Intn(3)
	if zeroLead && nFirst == 0 { // the update key with the short coordinate is used at least once, whatever is drawn
		nFirst = 1
	}
	doUpdates(nFirst)
	// recover
	{
		nextRec, nextUpd := genKey(r, opKind), genKey(r, opKind)
		if zeroLead {
			nextRec, nextUpd = zeroLeadKey(opKind, "y", 20), zeroLeadKey(opKind, "x", 20)
		}
		t += uint64(1 + r.Intn(100))
		var rFrom, rUntil int64
		exp = &expDoc{}
		keys := randDocKeys(r, "rkey", 1+r.Intn(2))
		for _, k := range keys {
			exp.keys = append(exp.keys, k.raw())
		}
		s := svcSpec{"rsvc1", "TR", "https://example.com/r?x=1&y=<2>&z=3"}
		exp.svcs = A{s.raw()}
		origin = nil
		if useClient {
			opts := []recovery.Option{recovery.WithSigner(recKey.signer()), recovery.WithNextRecoveryPublicKey(nextRec.public()),
				recovery.WithNextUpdatePublicKey(nextUpd.public()), recovery.WithOperationCommitment(commitmentOf(recKey.jwk(), uint64(recCode))),
				recovery.WithMultiHashAlgorithm(codeNow), recovery.WithService(s.lib())}
			updCode, recCode = codeNow, codeNow
			for _, k := range keys {
				opts = append(opts, recovery.WithPublicKey(k.lib()))
			}
			if r.Intn(2) == 0 {
				origin = "origin2.example"
				opts = append(opts, recovery.WithAnchorOrigin("origin2.example"))
			}
			if viaHTTP {
				opts = append(opts, recovery.WithSidetreeEndpoint(endpoints))
			}
			before := len(captured)
			err := cl.RecoverDID(did, opts...)
			if err != nil || len(captured) == before {
				steps = append(steps, lifeStep{"recover", nil, fmt.Errorf("%v", err)})
			} else {
				steps = append(steps, lifeStep{"recover", captured[len(captured)-1], nil})
			}
		} else {
			if r.Intn(2) == 0 {
				origin = "origin3.example"
			}
			sg := recKey.signer()
			rFrom, rUntil = edgeWindow()
			b, err := client.NewRecoverRequest(&client.RecoverRequestInfo{DidSuffix: suffix, RecoveryKey: sg.jwk, OpaqueDocument: buildDocJSON(),
				RecoveryCommitment: commitmentOf(nextRec.jwk(), uint64(code)), UpdateCommitment: commitmentOf(nextUpd.jwk(), uint64(code)),
				AnchorOrigin: origin, MultihashCode: code, Signer: sg, RevealValue: revealOf(recKey.jwk(), uint64(code)),
				AnchorFrom: rFrom, AnchorUntil: rUntil})
			steps = append(steps, lifeStep{"recover", b, err})
		}
		metas = append(metas, stepMeta{rFrom, rUntil, t})
		snap()
		recKey, updKey = nextRec, nextUpd
	}
	doUpdates(r.Intn(3))
	deactivate_ := r.Intn(3) != 0 || zeroLead // (... and so is the recovery key installed by the recover)
	if deactivate_ {
		t += uint64(1 + r.Intn(100))
		var dFrom, dUntil int64
		if useClient {
			before := len(captured)
			dopts := []deactivate.Option{deactivate.WithSigner(recKey.signer()), deactivate.WithOperationCommitment(commitmentOf(recKey.jwk(), uint64(recCode)))}
			if viaHTTP {
				dopts = append(dopts, deactivate.WithSidetreeEndpoint(endpoints))
			}
			err := cl.DeactivateDID(did, dopts...)
			if err != nil || len(captured) == before {
				steps = append(steps, lifeStep{"deactivate", nil, fmt.Errorf("%v", err)})
			} else {
				steps = append(steps, lifeStep{"deactivate", captured[len(captured)-1], nil})
			}
		} else {
			sg := recKey.signer()
			dFrom, dUntil = edgeWindow()
			b, err := client.NewDeactivateRequest(&client.DeactivateRequestInfo{DidSuffix: suffix, RecoveryKey: sg.jwk, Signer: sg,
				RevealValue: revealOf(recKey.jwk(), uint64(code)), AnchorFrom: dFrom, AnchorUntil: dUntil})
			steps = append(steps, lifeStep{"deactivate", b, err})
		}
		metas = append(metas, stepMeta{dFrom, dUntil, t})
		expAfter = append(expAfter, M{})
	}
	// ---- run through the real parser and applier; anchored form
	parser := operationparser.New(cfg)
	applier := operationapplier.New(cfg, parser, doccomposer.New())
	allBuilt, allParsed, anchoredOK, linkedOK := true, true, true, true
	var anchoredBytes []string // per applied step: the anchored request bytes (Gallina option)
	var why []string
	hc := &histCase{Cfg: cfg, Label: label}
	rm := &protocol.ResolutionModel{PublishedOperations: []*operation.AnchoredOperation{{TransactionTime: 9, TransactionNumber: 102}, {TransactionTime: 3, TransactionNumber: 101}},
		UnpublishedOperations: []*operation.AnchoredOperation{{TransactionTime: 12, TransactionNumber: 202}, {TransactionTime: 11, TransactionNumber: 201}}}
	rmA := &protocol.ResolutionModel{PublishedOperations: rm.PublishedOperations, UnpublishedOperations: rm.UnpublishedOperations}
	for i, st := range steps {
		if st.refused != nil || st.bytes == nil {
			allBuilt = false
			why = append(why, fmt.Sprintf("step %d (%s): builder refused valid input: %v", i, st.typ, st.refused))
			continue
		}
		mop, perr := parser.ParseOperation(ns, st.bytes, false)
		// a protocol whose maximum operation size is exactly this request's length accepts it
		exact := cfg
		exact.MaxOperationSize = uint(len(st.bytes))
		if _, eerr := operationparser.New(exact).ParseOperation(ns, st.bytes, false); perr == nil && eerr != nil {
			allParsed = false
			why = append(why, fmt.Sprintf("step %d (%s): refused under a maximum operation size equal to its length (%d): %v", i, st.typ, len(st.bytes), eerr))
		}
		// ... and one whose maximum delta size is exactly the length of this request's canonical delta
		{
			var reqM map[string]interface{}
			if json.Unmarshal(st.bytes, &reqM) == nil && reqM["delta"] != nil {
				exactD := cfg
				exactD.MaxDeltaSize = uint(len(jcs(reqM["delta"])))
				if _, eerr := operationparser.New(exactD).ParseOperation(ns, st.bytes, false); perr == nil && eerr != nil {
					allParsed = false
					why = append(why, fmt.Sprintf("step %d (%s): refused under a maximum delta size equal to the length of its canonical delta (%d): %v", i, st.typ, exactD.MaxDeltaSize, eerr))
				}
			}
		}
		if perr != nil {
			allParsed = false
			why = append(why, fmt.Sprintf("step %d (%s): parser refused: %v", i, st.typ, perr))
		} else if mop.UniqueSuffix != suffix || mop.ID != did {
			allParsed = false // the request addresses another DID than the one the lifecycle is about
			why = append(why, fmt.Sprintf("step %d (%s): request is for %s, the lifecycle's DID is %s", i, st.typ, mop.ID, did))
		}
		// commit-reveal: the reveal value of a built request opens the commitment of the state it is
		// applied to (computed with the harness's own hashing, from the request bytes)
		if st.typ != "create" {
			var reqM map[string]interface{}
			json.Unmarshal(st.bytes, &reqM)
			rv, _ := reqM["revealValue"].(string)
			want := rm.UpdateCommitment
			if st.typ != "update" {
				want = rm.RecoveryCommitment
			}
			raw, derr := b64dec(rv)
			if derr != nil || len(raw) < 3 || raw[0] >= 0x80 || int(raw[1]) != len(raw)-2 ||
				b64(multihash(uint64(raw[0]), digest(uint64(raw[0]), raw[2:]))) != want {
				linkedOK = false
				why = append(why, fmt.Sprintf("step %d (%s): the reveal value does not open the current commitment %s", i, st.typ, want))
			}
		}
		hs := &histStep{Type: st.typ, Time: metas[i].t, Num: uint64(i), Ver: 0, Canon: fmt.Sprintf("ref%d", i), Bytes: st.bytes, Label: "built", Cfg: cfg, ByteLevel: true}
		hs.V = viewFromBytes(st.typ, st.bytes)
		aop := &operation.AnchoredOperation{Type: operation.Type(st.typ), OperationRequest: st.bytes, TransactionTime: hs.Time, TransactionNumber: hs.Num,
			CanonicalReference: hs.Canon}
		res, err := applier.Apply(aop, rm)
		hs.ImplOK, hs.InputsIntact = err == nil, true
		if err == nil {
			hs.ImplRM = res
			rm = res
		} else {
			why = append(why, fmt.Sprintf("step %d (%s): applier refused: %v", i, st.typ, err))
		}
		hc.Steps = append(hc.Steps, hs)
		anchoredBytes = append(anchoredBytes, "None")
		if perr == nil {
			anch, aerr := model.GetAnchoredOperation(mop)
			if aerr == nil {
				anchoredBytes[len(anchoredBytes)-1] = "(Some " + cStr(string(anch.OperationRequest)) + ")"
			}
			var reqTree interface{}
			json.Unmarshal(st.bytes, &reqTree)
			if aerr != nil || string(anch.OperationRequest) != string(jcs(reqTree)) || anch.UniqueSuffix != mop.UniqueSuffix || anch.Type != mop.Type ||
				deepSnapshot(anch.AnchorOrigin) != deepSnapshot(mop.AnchorOrigin) {
				anchoredOK = false
				why = append(why, fmt.Sprintf("step %d: anchored form differs", i))
			} else {
				a2 := &operation.AnchoredOperation{Type: anch.Type, OperationRequest: anch.OperationRequest, TransactionTime: hs.Time, TransactionNumber: hs.Num,
					CanonicalReference: hs.Canon}
				resA, errA := applier.Apply(a2, rmA)
				if (errA == nil) != (err == nil) || (errA == nil && deepSnapshot(resA) != deepSnapshot(res)) {
					anchoredOK = false
					why = append(why, fmt.Sprintf("step %d: anchored bytes apply to a different state", i))
				}
				if errA == nil {
					rmA = resA
				}
			}
		}
	}
	lastLifeSteps, lastLifeCfg = steps, cfg
	expDocJSON := exp.doc()
	if deactivate_ {
		expDocJSON = M{}
	}
	expUpd, expRec := commitmentOf(updKey.jwk(), uint64(updCode)), commitmentOf(recKey.jwk(), uint64(recCode))
	if deactivate_ {
		expUpd, expRec = "", ""
	}
	h := sha256.Sum256([]byte(fmt.Sprint(label, idx, len(steps))))
	rec := hc.jsonRecord()
	rec["expected_document"], rec["expected_update_commitment"], rec["expected_recovery_commitment"] = expDocJSON, expUpd, expRec
	rec["notes"] = why
	rec["expected_document_after_each_step"] = expAfter
	return caseOut{
		Coq: fmt.Sprintf("(mk_c08 %s %s %s %s %s %s %s %s %s %s %s %s)", hc.coq(), expDocsCoq(expAfter), cObj(normJSON(expDocJSON).(map[string]interface{})), cStr(expUpd), cStr(expRec),
			cBool(deactivate_), cJSON(normJSON(origin)), cBool(allBuilt), cBool(allParsed), cBool(anchoredOK), cBool(linkedOK), cList(anchoredBytes)),
		Rec: rec, Label: label, NonTri: fmt.Sprintf("%x", h[:8]),
	}
}

func expDocsCoq(ds []M) string {
	items := make([]string, len(ds))
	for i, d := range ds {
		items[i] = cObj(normJSON(d).(map[string]interface{}))
	}
	return cList(items)
}

// viewFromBytes fills the label view of a builder-produced (valid) request from its own JSON.
func viewFromBytes(typ string, b []byte) view {
	v := view{ParseOK: true, SignedOK: true, SigOK: true, SuffixOK: true, DeltaHashOK: true, DeltaValid: true}
	var req M
	json.Unmarshal(b, &req)
	if d, ok := req["delta"].(map[string]interface{}); ok {
		v.UpdateC, _ = d["updateCommitment"].(string)
		v.Patches, _ = d["patches"].([]interface{})
	}
	if sd, ok := req["suffixData"].(map[string]interface{}); ok {
		v.RecoveryC, _ = sd["recoveryCommitment"].(string)
		v.Origin = sd["anchorOrigin"]
	}
	if s, ok := req["signedData"].(string); ok {
		parts := splitDots(s)
		if len(parts) == 3 {
			pb, _ := b64dec(parts[1])
			var p M
			json.Unmarshal(pb, &p)
			if rc, ok := p["recoveryCommitment"].(string); ok {
				v.RecoveryC = rc
			}
			if o, ok := p["anchorOrigin"]; ok {
				v.Origin = o
			}
			if f, ok := p["anchorFrom"].(float64); ok {
				v.From = int64(f)
			}
			if u, ok := p["anchorUntil"].(float64); ok {
				v.Until = int64(u)
			}
		}
	}
	return v
}

func splitDots(s string) []string {
	var parts []string
	cur := ""
	for _, c := range s {
		if c == '.' {
			parts = append(parts, cur)
			cur = ""
		} else {
			cur += string(c)
		}
	}
	return append(parts, cur)
}

func builderRefusals(r *rand.Rand) []caseOut {
	var out []caseOut
	k, k2, k3 := genKey(r, "P-256"), genKey(r, "P-256"), genKey(r, "Ed25519")
	sg := k.signer()
	doc := `{"service":[{"id":"s1","type":"T","serviceEndpoint":"https://example.com/a"}]}`
	p, _ := patch.NewAddAlsoKnownAs(`["https://aka.example/1"]`)
	c18 := func(x *keyPair) string { return commitmentOf(x.jwk(), 18) }
	c19 := func(x *keyPair) string { return commitmentOf(x.jwk(), 19) }
	add := func(label string, code int, err error, expectRefuse bool) {
		h := sha256.Sum256([]byte(label))
		out = append(out, caseOut{
			Coq:   fmt.Sprintf("(mk_c08refuse %d%%nat %s %s)", code, cBool(err != nil), cBool(expectRefuse)),
			Rec:   map[string]interface{}{"builder_refused": err != nil, "expect_refuse": expectRefuse, "error": fmt.Sprint(err)},
			Label: "builder-refusal:" + label, NonTri: fmt.Sprintf("%x", h[:8]),
		})
	}
	_, err := client.NewCreateRequest(&client.CreateRequestInfo{OpaqueDocument: doc, RecoveryCommitment: c18(k), UpdateCommitment: c18(k), MultihashCode: 18})
	add("create:equal-commitments", 1, err, true)
	_, err = client.NewCreateRequest(&client.CreateRequestInfo{OpaqueDocument: doc, RecoveryCommitment: c19(k), UpdateCommitment: c18(k2), MultihashCode: 18})
	add("create:recovery-commitment-wrong-algorithm", 2, err, true)
	_, err = client.NewCreateRequest(&client.CreateRequestInfo{OpaqueDocument: doc, RecoveryCommitment: c18(k), UpdateCommitment: c19(k2), MultihashCode: 18})
	add("create:update-commitment-wrong-algorithm", 3, err, true)
	_, err = client.NewCreateRequest(&client.CreateRequestInfo{OpaqueDocument: doc, RecoveryCommitment: c18(k), UpdateCommitment: c18(k2), MultihashCode: 55})
	add("create:unsupported-algorithm", 4, err, true)
	_, err = client.NewCreateRequest(&client.CreateRequestInfo{OpaqueDocument: doc, RecoveryCommitment: c18(k), UpdateCommitment: c18(k2), MultihashCode: 18})
	add("create:valid-control", 5, err, false)
	_, err = client.NewUpdateRequest(&client.UpdateRequestInfo{DidSuffix: "s", Patches: []patch.Patch{p}, UpdateCommitment: c18(k), UpdateKey: sg.jwk,
		MultihashCode: 18, Signer: sg, RevealValue: revealOf(k.jwk(), 18)})
	add("update:reused-key", 6, err, true)
	_, err = client.NewUpdateRequest(&client.UpdateRequestInfo{DidSuffix: "s", Patches: []patch.Patch{p}, UpdateCommitment: c18(k2), UpdateKey: sg.jwk,
		MultihashCode: 18, Signer: sg, RevealValue: revealOf(k.jwk(), 18)})
	add("update:valid-control", 7, err, false)
	_, err = client.NewRecoverRequest(&client.RecoverRequestInfo{DidSuffix: "s", RecoveryKey: sg.jwk, OpaqueDocument: doc, RecoveryCommitment: c18(k),
		UpdateCommitment: c18(k2), MultihashCode: 18, Signer: sg, RevealValue: revealOf(k.jwk(), 18)})
	add("recover:reused-key", 8, err, true)
	_, err = client.NewRecoverRequest(&client.RecoverRequestInfo{DidSuffix: "s", RecoveryKey: sg.jwk, OpaqueDocument: doc, RecoveryCommitment: c18(k2),
		UpdateCommitment: c18(k3), MultihashCode: 18, Signer: sg, RevealValue: revealOf(k.jwk(), 18)})
	add("recover:valid-control", 9, err, false)
	_, err = client.NewRecoverRequest(&client.RecoverRequestInfo{DidSuffix: "s", RecoveryKey: sg.jwk, OpaqueDocument: doc, RecoveryCommitment: c18(k2),
		UpdateCommitment: c18(k2), MultihashCode: 18, Signer: sg, RevealValue: revealOf(k.jwk(), 18)})
	add("recover:equal-commitments", 10, err, true)
	_, err = client.NewUpdateRequest(&client.UpdateRequestInfo{DidSuffix: "s", Patches: []patch.Patch{p}, UpdateCommitment: c19(k2), UpdateKey: sg.jwk,
		MultihashCode: 18, Signer: sg, RevealValue: revealOf(k.jwk(), 18)})
	add("update:commitment-wrong-algorithm", 11, err, true)
	_, err = client.NewRecoverRequest(&client.RecoverRequestInfo{DidSuffix: "s", RecoveryKey: sg.jwk, OpaqueDocument: doc, RecoveryCommitment: c19(k2),
		UpdateCommitment: c18(k3), MultihashCode: 18, Signer: sg, RevealValue: revealOf(k.jwk(), 18)})
	add("recover:commitment-wrong-algorithm", 12, err, true)
	return out
}

func init() {
	generators["C08"] = generator{"c08case", "judge_c08", histImports + "From Coq Require Import NArith.\nFrom Sidetree Require Import Sidetree.Parser Sidetree.ClientCreate Sidetree.ClientUpdate Sidetree.ClientDeactivateRecover Harness.ClientCases.\n", genC08}
}

type roundTripFunc func(*http.Request) (*http.Response, error)

func (f roundTripFunc) RoundTrip(r *http.Request) (*http.Response, error) { return f(r) }
