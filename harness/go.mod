module vharness

go 1.22

require (
	github.com/btcsuite/btcd/btcec/v2 v2.1.3
	github.com/go-jose/go-jose/v3 v3.0.1
	github.com/trustbloc/did-go v1.2.1
	github.com/trustbloc/kms-go v1.1.2
	github.com/trustbloc/sidetree-go v0.0.0
)

require (
	github.com/IBM/mathlib v0.0.3-0.20231011094432-44ee0eb539da // indirect
	github.com/bits-and-blooms/bitset v1.7.0 // indirect
	github.com/btcsuite/btcutil v1.0.3-0.20201208143702-a53e38424cce // indirect
	github.com/cenkalti/backoff/v4 v4.1.3 // indirect
	github.com/consensys/bavard v0.1.13 // indirect
	github.com/consensys/gnark-crypto v0.12.1 // indirect
	github.com/decred/dcrd/dcrec/secp256k1/v4 v4.0.1 // indirect
	github.com/evanphx/json-patch v4.1.0+incompatible // indirect
	github.com/google/uuid v1.3.0 // indirect
	github.com/hyperledger/fabric-amcl v0.0.0-20230602173724-9e02669dceb2 // indirect
	github.com/kilic/bls12-381 v0.1.1-0.20210503002446-7b7597926c69 // indirect
	github.com/minio/blake2b-simd v0.0.0-20160723061019-3f5f724cb5b1 // indirect
	github.com/minio/sha256-simd v0.1.1 // indirect
	github.com/mitchellh/mapstructure v1.5.0 // indirect
	github.com/mmcloughlin/addchain v0.4.0 // indirect
	github.com/mr-tron/base58 v1.2.0 // indirect
	github.com/multiformats/go-base32 v0.1.0 // indirect
	github.com/multiformats/go-base36 v0.1.0 // indirect
	github.com/multiformats/go-multibase v0.1.1 // indirect
	github.com/multiformats/go-multihash v0.0.14 // indirect
	github.com/multiformats/go-varint v0.0.6 // indirect
	github.com/piprate/json-gold v0.5.1-0.20230111113000-6ddbe6e6f19f // indirect
	github.com/pkg/errors v0.9.1 // indirect
	github.com/pquerna/cachecontrol v0.1.0 // indirect
	github.com/spaolacci/murmur3 v1.1.0 // indirect
	github.com/teserakt-io/golang-ed25519 v0.0.0-20210104091850-3888c087a4c8 // indirect
	github.com/trustbloc/bbs-signature-go v1.0.2 // indirect
	github.com/xeipuuv/gojsonpointer v0.0.0-20190905194746-02993c407bfb // indirect
	github.com/xeipuuv/gojsonreference v0.0.0-20180127040603-bd5ef7bd5415 // indirect
	github.com/xeipuuv/gojsonschema v1.2.0 // indirect
	golang.org/x/crypto v0.17.0 // indirect
	golang.org/x/sys v0.15.0 // indirect
	rsc.io/tmplfunc v0.0.3 // indirect
)

replace github.com/trustbloc/sidetree-go => /repo
