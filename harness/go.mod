module vharness

go 1.22

require (
	github.com/btcsuite/btcd/btcec/v2 v2.1.3
	github.com/trustbloc/sidetree-go v0.0.0
)

require (
	github.com/decred/dcrd/dcrec/secp256k1/v4 v4.0.1 // indirect
	github.com/evanphx/json-patch v4.1.0+incompatible // indirect
	github.com/go-jose/go-jose/v3 v3.0.1 // indirect
	github.com/minio/blake2b-simd v0.0.0-20160723061019-3f5f724cb5b1 // indirect
	github.com/minio/sha256-simd v0.1.1 // indirect
	github.com/mr-tron/base58 v1.2.0 // indirect
	github.com/multiformats/go-multihash v0.0.14 // indirect
	github.com/multiformats/go-varint v0.0.6 // indirect
	github.com/pkg/errors v0.9.1 // indirect
	github.com/spaolacci/murmur3 v1.1.0 // indirect
	golang.org/x/crypto v0.17.0 // indirect
	golang.org/x/sys v0.15.0 // indirect
)

replace github.com/trustbloc/sidetree-go => /repo
