package main

// C05: canonicalization. Values are generated as trees, each spelled several ways (member order,
// whitespace, escape style, number spelling); the implementation is driven through
// canonicalizer.MarshalCanonical([]byte).

import (
	"crypto/sha256"
	"fmt"
	"math"
	"math/rand"
	"strconv"
	"strings"
	"unicode/utf8"

	"github.com/trustbloc/sidetree-go/pkg/canonicalizer"
)

type jv struct {
	kind string // null bool num str arr obj
	b    bool
	neg  bool
	sig  string // significant digits, no leading/trailing zeros ("" = zero)
	n    int    // value = 0.sig * 10^n
	s    string
	arr  []*jv
	keys []string
	vals []*jv
}

var nastyRunes = []rune{'a', 'Z', '0', ' ', '"', '\\', '/', '\b', '\f', '\n', '\r', '\t', 0x01, 0x1f, 0x7f, 0x80, 0xe9, 0x7ff, 0x800,
	0x20ac, 0xd7ff, 0xe000, 0xfb33, 0xfffd, 0xffff, 0x10000, 0x1f602, 0x10ffff, '<', '>', '&', 0x2028, 0x2029, 0x00}

func randString(r *rand.Rand, maxLen int) string {
	n := r.Intn(maxLen + 1)
	var b strings.Builder
	for i := 0; i < n; i++ {
		if r.Intn(3) == 0 {
			b.WriteRune(nastyRunes[r.Intn(len(nastyRunes))])
		} else {
			b.WriteByte(byte('a' + r.Intn(26)))
		}
	}
	return b.String()
}

func randNum(r *rand.Rand) *jv {
	v := &jv{kind: "num"}
	switch r.Intn(8) {
	case 0:
		return v // zero
	case 1: // small integer
		v.sig = strings.TrimRight(strconv.Itoa(1+r.Intn(999)), "0")
		v.n = len(strconv.Itoa(1 + r.Intn(999)))
		i := 1 + r.Intn(100000)
		s := strconv.Itoa(i)
		v.sig, v.n = strings.TrimRight(s, "0"), len(s)
	case 2: // boundary region around 1e21 / 1e-6
		v.sig = "1"
		v.n = []int{22, 21, 20, -5, -6, -4, 1, 0}[r.Intn(8)]
	default:
		k := 1 + r.Intn(15)
		var b strings.Builder
		b.WriteByte(byte('1' + r.Intn(9)))
		for i := 1; i < k; i++ {
			b.WriteByte(byte('0' + r.Intn(10)))
		}
		v.sig = strings.TrimRight(b.String(), "0")
		v.n = r.Intn(50) - 20
		if r.Intn(6) == 0 {
			v.n = r.Intn(500) - 250
		}
	}
	v.neg = r.Intn(3) == 0
	return v
}

func randValue(r *rand.Rand, depth int) *jv {
	k := r.Intn(10)
	if depth <= 0 && k >= 6 {
		k = r.Intn(6)
	}
	switch {
	case k == 0:
		return &jv{kind: "null"}
	case k == 1:
		return &jv{kind: "bool", b: r.Intn(2) == 0}
	case k <= 3:
		return randNum(r)
	case k <= 5:
		return &jv{kind: "str", s: randString(r, 8)}
	case k <= 7:
		v := &jv{kind: "arr"}
		for i := r.Intn(4); i > 0; i-- {
			v.arr = append(v.arr, randValue(r, depth-1))
		}
		return v
	default:
		return randObject(r, depth)
	}
}

func randObject(r *rand.Rand, depth int) *jv {
	v := &jv{kind: "obj"}
	seen := map[string]bool{}
	for i := r.Intn(5); i > 0; i-- {
		var k string
		switch r.Intn(4) {
		case 0: // keys whose UTF-16 order differs from code point order, prefix-related keys
			k = []string{"\U0001f602", "דּ", "", "service", "services", "serv", "", "€", "\r", "1", "10", "\U00010000a", "￿"}[r.Intn(13)]
		default:
			k = randString(r, 4)
		}
		if seen[k] {
			continue
		}
		seen[k] = true
		v.keys = append(v.keys, k)
		v.vals = append(v.vals, randValue(r, depth-1))
	}
	return v
}

func ws(r *rand.Rand, style int) string {
	if style == 0 {
		return ""
	}
	return []string{"", "", " ", "\n", "\t", " \r\n "}[r.Intn(6)]
}

func spellString(s string, r *rand.Rand, style int) string {
	var b strings.Builder
	b.WriteByte('"')
	for _, c := range s {
		esc := style > 0 && r.Intn(4) == 0
		switch {
		case c == '"':
			b.WriteString(`\"`)
		case c == '\\':
			b.WriteString(`\\`)
		case c == '/' && esc:
			b.WriteString(`\/`)
		case c < 0x20 && !esc && (c == '\b' || c == '\f' || c == '\n' || c == '\r' || c == '\t'):
			b.WriteString(map[rune]string{'\b': `\b`, '\f': `\f`, '\n': `\n`, '\r': `\r`, '\t': `\t`}[c])
		case c < 0x20 || esc:
			if c >= 0x10000 {
				c2 := c - 0x10000
				hex := "%04x"
				if r.Intn(2) == 0 {
					hex = "%04X"
				}
				fmt.Fprintf(&b, `\u`+hex+`\u`+hex, 0xd800+(c2>>10), 0xdc00+(c2&0x3ff))
			} else {
				fmt.Fprintf(&b, `\u%04x`, c)
			}
		default:
			b.WriteRune(c)
		}
	}
	b.WriteByte('"')
	return b.String()
}

func spellNum(v *jv, r *rand.Rand, style int) string {
	if v.sig == "" {
		z := []string{"0", "-0", "0.0", "0e5", "0E-3", "-0.00"}
		if style == 0 {
			return "0"
		}
		return z[r.Intn(len(z))]
	}
	sign := ""
	if v.neg {
		sign = "-"
	}
	k := len(v.sig)
	// style 0: plain positional when reasonable, else exponent
	pos := func() string {
		switch {
		case v.n >= k:
			return v.sig + strings.Repeat("0", v.n-k)
		case v.n > 0:
			return v.sig[:v.n] + "." + v.sig[v.n:]
		default:
			return "0." + strings.Repeat("0", -v.n) + v.sig
		}
	}
	exp := func(shift int, e string) string {
		// d.ddd * 10^(n-1), optionally shifted
		mant := v.sig[:1]
		if k > 1 {
			mant += "." + v.sig[1:]
		}
		ex := v.n - 1
		if shift > 0 && k > 1 {
			mant = v.sig[:2]
			if k > 2 {
				mant += "." + v.sig[2:]
			}
			ex--
		}
		es := strconv.Itoa(ex)
		if ex >= 0 && r.Intn(2) == 0 {
			es = "+" + es
		}
		return mant + e + es
	}
	if v.n > 40 || v.n < -30 {
		return sign + exp(0, "e")
	}
	if style == 0 {
		return sign + pos()
	}
	switch r.Intn(5) {
	case 0:
		return sign + exp(0, "E")
	case 1:
		return sign + exp(1, "e")
	case 2:
		p := pos()
		if strings.Contains(p, ".") {
			return sign + p + "00"
		}
		return sign + p + ".0"
	default:
		return sign + pos()
	}
}

func spell(v *jv, r *rand.Rand, style int) string {
	switch v.kind {
	case "null":
		return "null"
	case "bool":
		if v.b {
			return "true"
		}
		return "false"
	case "num":
		return spellNum(v, r, style)
	case "str":
		return spellString(v.s, r, style)
	case "arr":
		parts := make([]string, len(v.arr))
		for i, e := range v.arr {
			parts[i] = ws(r, style) + spell(e, r, style) + ws(r, style)
		}
		return "[" + ws(r, style) + strings.Join(parts, ",") + "]"
	default:
		idx := r.Perm(len(v.keys))
		if style == 0 {
			for i := range idx {
				idx[i] = i
			}
		}
		parts := make([]string, len(idx))
		for i, j := range idx {
			parts[i] = ws(r, style) + spellString(v.keys[j], r, style) + ws(r, style) + ":" + ws(r, style) + spell(v.vals[j], r, style) + ws(r, style)
		}
		return "{" + ws(r, style) + strings.Join(parts, ",") + "}"
	}
}

func implCanon(in string) (string, bool) {
	defer func() { recover() }()
	out, err := canonicalizer.MarshalCanonical([]byte(in))
	if err != nil {
		return "", false
	}
	return string(out), true
}

const jcsImports = "From Coq Require Import ZArith String List.\nFrom Sidetree Require Import Base.Hex Json.Json Json.Parse Harness.Runner Harness.JcsCases.\nImport ListNotations.\nOpen Scope string_scope.\n"

func genC05(seed int64, tier string) []caseOut {
	n := 150
	if tier == "thorough" {
		n = 6000
	}
	r := rand.New(rand.NewSource(seed))
	var out []caseOut
	// systematic part: every special character (U+0000 first) in a member name, in a string, as a
	// whole name next to its prefix, in each of the three spellings
	var fixed []*jv
	for _, c := range []rune{0x00, 0x01, 0x08, 0x0c, 0x1f, '"', '\\', '/', 0x7f, 0x80, 0x2028, 0xd7ff, 0xe000, 0xffff, 0x10000, 0x10ffff} {
		str := func(x string) *jv { return &jv{kind: "str", s: x} }
		cs := string(c)
		fixed = append(fixed, &jv{kind: "obj", keys: []string{"k" + cs, "k", cs, "k" + cs + "z"},
			vals: []*jv{str("v" + cs + "v"), str(cs), {kind: "arr", arr: []*jv{str(cs + cs), str("")}}, str(cs + "end")}})
	}
	for i := -len(fixed); i < n; i++ {
		var v *jv
		if i < 0 {
			v = fixed[i+len(fixed)]
		} else if r.Intn(4) == 0 {
			v = &jv{kind: "arr"}
			for j := 1 + r.Intn(4); j > 0; j-- {
				v.arr = append(v.arr, randValue(r, 2))
			}
		} else {
			v = randObject(r, 3)
		}
		label := "value"
		if i < 0 {
			label = "systematic,special-character"
		}
		var ins, outs []string
		var items []string
		idem := true
		for s := 0; s < 3; s++ {
			in := spell(v, r, s)
			if s == 2 && r.Intn(8) == 0 {
				// malformed variants: syntax errors must be refused by both sides
				switch r.Intn(4) {
				case 0:
					in = in[:len(in)-1]
					label = "value,truncated"
				case 1:
					in = in + "x"
					label = "value,trailing-garbage"
				case 2:
					in = strings.Replace(in, ":", " ", 1)
					label = "value,missing-colon"
				case 3:
					if v.kind == "obj" && len(v.keys) > 0 {
						in = "{" + spellString(v.keys[0], r, 0) + ":1," + in[1:]
						label = "value,duplicate-key"
					}
				}
			}
			o, ok := implCanon(in)
			ins = append(ins, in)
			if ok {
				o2, ok2 := implCanon(o)
				if !ok2 || o2 != o {
					idem = false
				}
				outs = append(outs, o)
				items = append(items, fmt.Sprintf("(%s, Some %s)", cStr(in), cStr(o)))
			} else {
				outs = append(outs, "<error>")
				items = append(items, fmt.Sprintf("(%s, None)", cStr(in)))
			}
		}
		h := sha256.Sum256([]byte(ins[0]))
		out = append(out, caseOut{
			Coq:    fmt.Sprintf("(mk_jcase %s %s)", cList(items), cBool(idem)),
			Rec:    map[string]interface{}{"inputs": ins, "impl_outputs": outs, "impl_idempotent": idem, "valid_utf8": utf8.ValidString(ins[0])},
			Label:  label,
			NonTri: fmt.Sprintf("%x", h[:8]),
		})
	}
	// every run of insignificant white space (space, tab, line feed, carriage return) in front of the
	// document, behind it and between its tokens: the output is the same bytes
	for _, run := range []string{" ", "\t", "\n", "\r", "\r\n", " \r ", "\n\r\t ", "\r\r"} {
		var items []string
		idem := true
		for _, in := range []string{run + `{"a":[1,"x"],"b":{}}`, `{"a":[1,"x"],"b":{}}` + run, `{` + run + `"a"` + run + `:` + run + `[` + run + `1` + run + `,` + run + `"x"` + run + `]` + run + `,"b":{` + run + `}}`,
			run + `[` + run + `]` + run} {
			o, ok := implCanon(in)
			if ok {
				items = append(items, fmt.Sprintf("(%s, Some %s)", cStr(in), cStr(o)))
			} else {
				items = append(items, fmt.Sprintf("(%s, None)", cStr(in)))
			}
		}
		h := sha256.Sum256([]byte("ws" + run))
		out = append(out, caseOut{
			Coq:    fmt.Sprintf("(mk_jcase %s %s)", cList(items[:3]), cBool(idem)),
			Rec:    map[string]interface{}{"whitespace_run": run},
			Label:  "value,whitespace-positions",
			NonTri: fmt.Sprintf("%x", h[:8]),
		}, caseOut{
			Coq:    fmt.Sprintf("(mk_jcase %s %s)", cList(items[3:]), cBool(idem)),
			Rec:    map[string]interface{}{"whitespace_run": run},
			Label:  "value,whitespace-positions-empty-array",
			NonTri: fmt.Sprintf("%x", h[8:16]),
		})
	}
	// flat documents with more empty containers than the nesting limit allows levels: the limit is on
	// depth, not on how many containers a document holds
	for _, in := range []string{
		"[" + strings.Repeat("[],", 10100) + "{}]",
		`{"a":[` + strings.Repeat("{},", 5100) + `[]],"b":[` + strings.Repeat("[],", 5100) + `{}]}`,
	} {
		o, ok := implCanon(in)
		item := fmt.Sprintf("(%s, None)", cStr(in))
		idem := true
		if ok {
			o2, ok2 := implCanon(o)
			idem = ok2 && o2 == o
			item = fmt.Sprintf("(%s, Some %s)", cStr(in), cStr(o))
		}
		h := sha256.Sum256([]byte(in))
		out = append(out, caseOut{
			Coq:    fmt.Sprintf("(mk_jcase %s %s)", cList([]string{item}), cBool(idem)),
			Rec:    map[string]interface{}{"input_length": len(in), "impl_accepts": ok, "impl_idempotent": idem},
			Label:  "value,many-empty-containers",
			NonTri: fmt.Sprintf("%x", h[:8]),
		})
	}
	// number stream: arbitrary doubles; shortest digits come from strconv (oracle), the layout
	// is the model's
	nn := 200
	if tier == "thorough" {
		nn = 20000
	}
	special := []float64{1e21, 1e21 * (1 - 1e-16), math.Nextafter(1e21, 0), math.Nextafter(1e21, 2e21), 1e-6, math.Nextafter(1e-6, 0), math.Nextafter(1e-6, 1),
		1e-7, 5e-324, 2.2250738585072014e-308, math.MaxFloat64, 9007199254740992, 9007199254740993, 9007199254740991, 0.1, 0.3, 1.0 / 3, 123456789012345680000,
		1e20, 1e22, 4.5, 0.000001, 0.0000011, 295147905179352830000, 100, 1e300, 1e-300, 999999999999999900000, 1.7976931348623157e308, 4.35, 0.000035, 333333333.3333333}
	for i := 0; i < nn; i++ {
		var f float64
		if i < len(special) {
			f = special[i]
		} else if r.Intn(2) == 0 {
			f = math.Float64frombits(r.Uint64())
		} else {
			f = float64(r.Int63n(1<<53)) * math.Pow(10, float64(r.Intn(60)-30))
		}
		if math.IsNaN(f) || math.IsInf(f, 0) {
			continue
		}
		if r.Intn(3) == 0 {
			f = -f
		}
		lit := strconv.FormatFloat(f, 'e', -1, 64) // an exact spelling of the double
		// other spellings of (a literal rounding to) a double: plain positional digits, long
		// integer literals beyond 2^53, more digits than the shortest form needs
		switch {
		case i >= len(special) && i%5 == 1 && math.Abs(f) < 1e22 && math.Abs(f) >= 1e-7:
			lit = strconv.FormatFloat(f, 'f', -1, 64)
		case i >= len(special) && i%5 == 2:
			lit = strconv.FormatFloat(f, 'e', 24, 64)
		case i >= len(special) && i%5 == 3:
			lit = []string{"9007199254740993", "-9007199254740993", "1234567890123456789", "9223372036854775807", "9223372036854775808", "-9223372036854775808",
				"18446744073709551615", "123456789012345678901234567890", "9007199254740993.0", "9007199254740992.5", "72057594037927937", "4611686018427387905",
				"100000000000000000000000", "0.1000000000000000055511151231257827", "1152921504606846977"}[r.Intn(15)]
		}
		if pf, perr := strconv.ParseFloat(lit, 64); perr == nil {
			f = pf
		}
		o, ok := implCanon("[" + lit + "]")
		// oracle digits
		sci := strconv.FormatFloat(math.Abs(f), 'e', -1, 64)
		mant, exps, _ := strings.Cut(sci, "e")
		digits := strings.TrimRight(strings.Replace(mant, ".", "", 1), "0")
		e10, _ := strconv.Atoi(exps)
		implOut := "None"
		if ok {
			implOut = "(Some " + cStr(o) + ")"
		}
		if f == 0 {
			digits = ""
		}
		h := sha256.Sum256([]byte(lit))
		out = append(out, caseOut{
			Coq:    fmt.Sprintf("(mk_jnum %s %s %s %s)", cBool(f < 0), cStr(digits), cZ(int64(e10+1)), implOut),
			Rec:    map[string]interface{}{"double": lit, "impl_output": o, "oracle_digits": digits, "oracle_n": e10 + 1},
			Label:  "number",
			NonTri: fmt.Sprintf("%x", h[:8]),
		})
	}
	return out
}

func init() {
	generators["C05"] = generator{"jcase", "judge_jcs", jcsImports, genC05}
}
