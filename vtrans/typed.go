package main

// Typed part of the translator: small decision functions over strings, string / integer lists
// and integers (GenTyped.v).  Still purely syntactic (go/parser); the types come from the
// parameter declarations.  Supported:
//   return e | if c { ... return } | if err := f(x); err != nil { ... return }
//   x, err := F(a); if err != nil { return r }           (F an oracle: result option)
//   for _, v := range xs { if c { return a } }            (becomes existsb)
// Calls: len, integer conversions, methods of package-level values (oracles, e.g. the id
// regular expression), functions translated in the same group (error = bool, true = nil).
// Anything else makes the definition `<name>_unsupported`, which breaks its agreement lemma.

import (
	"fmt"
	"go/ast"
	"go/token"
	"sort"
	"strconv"
	"strings"
)

type oracleSig struct {
	coqType string // e.g. "string -> bool"
	result  string // type of the value it yields ("bool", or for option results the payload type)
	option  bool
}

type typedSpec struct {
	pkg, recv, name, prefix string
}

// Go struct types the translated functions receive, as records of the model (Sidetree/Parser.v) or of
// the generated preamble; pointers are optional values
type structInfo struct {
	coq    string
	fields map[string][2]string // Go field -> (accessor, type)
}

var structTypes = map[string]structInfo{
	"UpdateSignedDataModel":  {"signed_update", map[string][2]string{"UpdateKey": {"su_key", "option jwk"}, "DeltaHash": {"su_delta_hash", "string"}}},
	"RecoverSignedDataModel": {"signed_recover", map[string][2]string{"RecoveryKey": {"sr_key", "option jwk"}, "RecoveryCommitment": {"sr_recovery_c", "string"}, "DeltaHash": {"sr_delta_hash", "string"}}},
	"SuffixDataModel":        {"suffix_data", map[string][2]string{"RecoveryCommitment": {"sd_recovery_c", "string"}, "DeltaHash": {"sd_delta_hash", "string"}}},
}

// members of jws.JWK as fields of the model's jwk record (Sidetree/Parser.v)
var jwkFields = map[string]string{"Kty": "k_kty", "Crv": "k_crv", "X": "k_x", "Y": "k_y", "N": "k_n", "E": "k_e", "Nonce": "k_nonce"}

// fields of protocol.Protocol the translated methods read (types as in Sidetree/Protocol.v)
var protocolFieldTypes = map[string]string{"MaxOperationHashLength": "Z", "MultihashAlgorithms": "list Z", "NonceSize": "Z",
	"KeyAlgorithms": "list string", "SignatureAlgorithms": "list string", "MaxOperationSize": "Z", "MaxDeltaSize": "Z"}

type tctx struct {
	pkg       string
	prefix    string
	env       map[string]string
	oracles   map[string]oracleSig // available oracles
	used      map[string]bool
	group     map[string]string // Go function name -> Gallina name (same group)
	methods   map[string]bool   // functions of the group that take the receiver
	recvVar   string
	recvType  string // "protocol" or "jwk"
	errNonNil bool   // inside a branch guarded by err != nil
	retBool   bool   // result is error (true = nil) or bool
	failed    string
}

func (c *tctx) fail(format string, a ...interface{}) string {
	if c.failed == "" {
		c.failed = fmt.Sprintf(format, a...)
	}
	return "UNSUPPORTED"
}

func coqTypeOf(e ast.Expr) string {
	switch x := e.(type) {
	case *ast.Ident:
		switch x.Name {
		case "string":
			return "string"
		case "bool":
			return "bool"
		case "int", "int64", "uint", "uint64":
			return "Z"
		case "error":
			return "error"
		}
	case *ast.StarExpr: // *jws.JWK: a key that may be absent; *model.XRequest: the three members every signed request has
		if sel, ok := x.X.(*ast.SelectorExpr); ok && sel.Sel.Name == "JWK" {
			return "option jwk"
		}
		if sel, ok := x.X.(*ast.SelectorExpr); ok && (sel.Sel.Name == "UpdateRequest" || sel.Sel.Name == "RecoverRequest" || sel.Sel.Name == "DeactivateRequest") {
			return "gen_request"
		}
		if sel, ok := x.X.(*ast.SelectorExpr); ok {
			if si, ok := structTypes[sel.Sel.Name]; ok {
				return "option " + si.coq
			}
		}
	case *ast.ArrayType:
		if x.Len == nil {
			if t := coqTypeOf(x.Elt); t == "string" || t == "Z" {
				return "list " + t
			}
		}
	}
	return ""
}

func coqStringLit(goLit string) string {
	s, err := strconv.Unquote(goLit)
	if err != nil {
		return `""`
	}
	return `"` + strings.ReplaceAll(s, `"`, `""`) + `"`
}

// expr returns Gallina code and its type
func (c *tctx) expr(e ast.Expr) (string, string) {
	switch x := e.(type) {
	case *ast.ParenExpr:
		code, t := c.expr(x.X)
		return "(" + code + ")", t
	case *ast.BasicLit:
		switch x.Kind {
		case token.INT:
			v, err := strconv.ParseInt(x.Value, 0, 64)
			if err != nil {
				return c.fail("int literal %s", x.Value), "Z"
			}
			return fmt.Sprintf("(%d)", v), "Z"
		case token.STRING:
			return coqStringLit(x.Value), "string"
		}
		return c.fail("literal %s", x.Value), ""
	case *ast.Ident:
		switch x.Name {
		case "true", "false":
			return x.Name, "bool"
		}
		if t, ok := c.env[x.Name]; ok {
			return "v_" + x.Name, t
		}
		if v, ok := findValueSpec(loadPkg(c.pkg), x.Name); ok {
			lit := evalConst(c.pkg, v)
			if strings.HasPrefix(lit, `"`) {
				return coqStringLit(lit), "string"
			}
			if n, err := strconv.ParseInt(lit, 0, 64); err == nil {
				return fmt.Sprintf("(%d)", n), "Z"
			}
		}
		return c.fail("identifier %s", x.Name), ""
	case *ast.SelectorExpr: // a field of the receiver (the protocol parameters, or a JWK)
		if id, ok := x.X.(*ast.Ident); ok && c.env[id.Name] == "jwk" {
			if f, ok := jwkFields[x.Sel.Name]; ok {
				return "(" + f + " v_" + id.Name + ")", "string"
			}
		}
		if id, ok := x.X.(*ast.Ident); ok {
			for _, si := range structTypes {
				// a pointer that is dereferenced without a nil check is taken as present (the callers
				// checked it); the parameter then has the record type itself
				if c.env[id.Name] == si.coq {
					if f, ok := si.fields[x.Sel.Name]; ok {
						return "(" + f[0] + " v_" + id.Name + ")", f[1]
					}
				}
			}
		}
		if id, ok := x.X.(*ast.Ident); ok && c.env[id.Name] == "gen_request" {
			switch x.Sel.Name {
			case "DidSuffix", "RevealValue", "SignedData":
				return "(rq_" + x.Sel.Name + " v_" + id.Name + ")", "string"
			}
		}
		if id, ok := x.X.(*ast.Ident); ok && c.recvVar != "" && id.Name == c.recvVar {
			if c.recvType == "jwk" {
				if f, ok := jwkFields[x.Sel.Name]; ok {
					return "(" + f + " v_" + c.recvVar + ")", "string"
				}
			} else if t, ok := protocolFieldTypes[x.Sel.Name]; ok {
				return "(P_" + x.Sel.Name + " v_" + c.recvVar + ")", t
			}
		}
		return c.fail("selector %s", x.Sel.Name), ""
	case *ast.UnaryExpr:
		if x.Op == token.NOT {
			code, _ := c.expr(x.X)
			return "(negb " + code + ")", "bool"
		}
		return c.fail("unary %s", x.Op), ""
	case *ast.BinaryExpr:
		l, lt := c.expr(x.X)
		r, rt := c.expr(x.Y)
		if lt != rt && x.Op != token.LAND && x.Op != token.LOR {
			return c.fail("operand types %q %q of %s", lt, rt, x.Op), ""
		}
		switch x.Op {
		case token.EQL, token.NEQ:
			var eq string
			switch lt {
			case "string":
				eq = "(String.eqb " + l + " " + r + ")"
			case "Z":
				eq = "(Z.eqb " + l + " " + r + ")"
			case "bool":
				eq = "(Bool.eqb " + l + " " + r + ")"
			default:
				return c.fail("== on %q", lt), ""
			}
			if x.Op == token.NEQ {
				eq = "(negb " + eq + ")"
			}
			return eq, "bool"
		case token.LSS, token.GTR, token.LEQ, token.GEQ:
			if lt != "Z" {
				return c.fail("ordering on %q", lt), ""
			}
			op := map[token.Token]string{token.LSS: "Z.ltb", token.GTR: "Z.gtb", token.LEQ: "Z.leb", token.GEQ: "Z.geb"}[x.Op]
			return "(" + op + " " + l + " " + r + ")", "bool"
		case token.LAND:
			return "(andb " + l + " " + r + ")", "bool"
		case token.LOR:
			return "(orb " + l + " " + r + ")", "bool"
		}
		return c.fail("binary %s", x.Op), ""
	case *ast.CallExpr:
		if id, ok := x.Fun.(*ast.Ident); ok {
			if len(x.Args) == 1 {
				switch id.Name {
				case "len":
					a, at := c.expr(x.Args[0])
					if at == "string" {
						return "(Z.of_nat (String.length " + a + "))", "Z"
					}
					if strings.HasPrefix(at, "list ") {
						return "(Z.of_nat (List.length " + a + "))", "Z"
					}
					return c.fail("len of %q", at), ""
				case "int64", "int":
					a, _ := c.expr(x.Args[0])
					return "(to_i64 " + a + ")", "Z"
				case "uint64", "uint":
					a, _ := c.expr(x.Args[0])
					return "(to_u64 " + a + ")", "Z"
				}
			}
			if g, ok := c.group[id.Name]; ok { // a function of the same group: error / bool result as bool
				s := "(" + g
				for _, a := range x.Args {
					code, _ := c.expr(a)
					s += " " + code
				}
				return s + ")", "bool"
			}
		}
		if sel, ok := x.Fun.(*ast.SelectorExpr); ok {
			if g, ok := c.group[sel.Sel.Name]; ok { // a translated function of another package, or a method of the receiver
				s := "(" + g
				if id, ok := sel.X.(*ast.Ident); ok && c.env[id.Name] == "jwk" && c.methods[sel.Sel.Name] {
					s += " v_" + id.Name
				}
				if id, ok := sel.X.(*ast.Ident); ok && c.recvVar != "" && id.Name == c.recvVar && c.methods[sel.Sel.Name] {
					s += " v_" + c.recvVar
				}
				for _, a := range x.Args {
					code, _ := c.expr(a)
					s += " " + code
				}
				return s + ")", "bool"
			}
			if id, ok := sel.X.(*ast.Ident); ok {
				name := "o_" + id.Name + "_" + sel.Sel.Name
				if sig, ok := c.oracles[name]; ok && !sig.option {
					c.used[name] = true
					s := "(" + name
					for _, a := range x.Args {
						code, _ := c.expr(a)
						s += " " + code
					}
					return s + ")", sig.result
				}
			}
		}
		return c.fail("call"), ""
	}
	return c.fail("expression %T", e), ""
}

func isErrCall(e ast.Expr) bool {
	ce, ok := e.(*ast.CallExpr)
	if !ok {
		return false
	}
	sel, ok := ce.Fun.(*ast.SelectorExpr)
	if !ok {
		return false
	}
	id, ok := sel.X.(*ast.Ident)
	return ok && ((id.Name == "fmt" && sel.Sel.Name == "Errorf") || (id.Name == "errors" && (sel.Sel.Name == "New" || sel.Sel.Name == "Errorf")))
}

func isErrNotNil(e ast.Expr) bool {
	b, ok := e.(*ast.BinaryExpr)
	if !ok || b.Op != token.NEQ {
		return false
	}
	l, ok1 := b.X.(*ast.Ident)
	r, ok2 := b.Y.(*ast.Ident)
	return ok1 && ok2 && l.Name == "err" && r.Name == "nil"
}

func (c *tctx) result(e ast.Expr) string {
	if id, ok := e.(*ast.Ident); ok && id.Name == "nil" {
		return "true"
	}
	if isErrCall(e) {
		return "false"
	}
	if id, ok := e.(*ast.Ident); ok && id.Name == "err" && c.errNonNil {
		return "false" // `return err` where err was just found to be non-nil
	}
	code, t := c.expr(e)
	if t != "bool" {
		return c.fail("result of type %q", t)
	}
	return code
}

// initCall recognises `err := f(x)` and `_, err := Oracle(x)` as the Init of an `if ...; err != nil`
// and returns the Gallina term that is true when no error came back.
func (c *tctx) initCall(s *ast.IfStmt) (string, bool) {
	as, ok := s.Init.(*ast.AssignStmt)
	if !ok || len(as.Rhs) != 1 || !isErrNotNil(s.Cond) {
		return "", false
	}
	last, ok := as.Lhs[len(as.Lhs)-1].(*ast.Ident)
	if !ok || last.Name != "err" {
		return "", false
	}
	if len(as.Lhs) == 1 {
		call, t := c.expr(as.Rhs[0])
		return call, t == "bool"
	}
	if len(as.Lhs) == 2 {
		if first, ok := as.Lhs[0].(*ast.Ident); ok && first.Name == "_" {
			if ce, ok := as.Rhs[0].(*ast.CallExpr); ok {
				if sel, ok := ce.Fun.(*ast.SelectorExpr); ok {
					if sig, ok := c.oracles["o_"+sel.Sel.Name]; ok && !sig.option && sig.result == "bool" {
						c.used["o_"+sel.Sel.Name] = true
						code := "(o_" + sel.Sel.Name
						for _, a := range ce.Args {
							ac, _ := c.expr(a)
							code += " " + ac
						}
						return code + ")", true
					}
				}
			}
		}
	}
	return "", false
}

func (c *tctx) stmts(list []ast.Stmt) string {
	if len(list) == 0 {
		return c.fail("fall off end")
	}
	switch s := list[0].(type) {
	case *ast.ReturnStmt:
		if len(s.Results) != 1 {
			return c.fail("return arity")
		}
		return c.result(s.Results[0])
	case *ast.IfStmt:
		if s.Else != nil { // both branches continue with what follows the statement
			blk, ok := s.Else.(*ast.BlockStmt)
			if !ok || s.Init != nil {
				return c.fail("else-if")
			}
			cond, t := c.expr(s.Cond)
			if t != "bool" {
				return c.fail("condition of type %q", t)
			}
			thenS := c.stmts(append(append([]ast.Stmt{}, s.Body.List...), list[1:]...))
			elseS := c.stmts(append(append([]ast.Stmt{}, blk.List...), list[1:]...))
			return "(if " + cond + "\n    then " + thenS + "\n    else " + elseS + ")"
		}
		if s.Init != nil { // if err := f(x); err != nil { ... }   |   if _, err := Oracle(x); err != nil { ... }
			call, ok := c.initCall(s)
			if !ok {
				return c.fail("if with init")
			}
			c.errNonNil = true
			thenS := c.stmts(append(append([]ast.Stmt{}, s.Body.List...), list[1:]...))
			c.errNonNil = false
			return "(if negb " + call + "\n    then " + thenS + "\n    else " + c.stmts(list[1:]) + ")"
		}
		if be, ok := s.Cond.(*ast.BinaryExpr); ok && be.Op == token.EQL { // if key == nil { ... }: the optional key
			l, ok1 := be.X.(*ast.Ident)
			r, ok2 := be.Y.(*ast.Ident)
			if ok1 && ok2 && r.Name == "nil" && strings.HasPrefix(c.env[l.Name], "option ") {
				onNil := c.stmts(append(append([]ast.Stmt{}, s.Body.List...), list[1:]...))
				opt := c.env[l.Name]
				c.env[l.Name] = strings.TrimPrefix(opt, "option ")
				rest := c.stmts(list[1:])
				c.env[l.Name] = opt
				return "(match v_" + l.Name + " with\n    | None => " + onNil + "\n    | Some v_" + l.Name + " => " + rest + "\n    end)"
			}
		}
		cond, t := c.expr(s.Cond)
		if t != "bool" {
			return c.fail("condition of type %q", t)
		}
		return "(if " + cond + "\n    then " + c.stmts(append(append([]ast.Stmt{}, s.Body.List...), list[1:]...)) + "\n    else " + c.stmts(list[1:]) + ")"
	case *ast.AssignStmt: // err := f(x) (or err = f(x)); if err != nil { return r }   |   x, err := Oracle(args); if err != nil { return r }
		if len(s.Lhs) == 1 && len(s.Rhs) == 1 && len(list) >= 2 {
			id, ok1 := s.Lhs[0].(*ast.Ident)
			next, ok2 := list[1].(*ast.IfStmt)
			if ok1 && ok2 && id.Name == "err" && next.Init == nil && next.Else == nil && isErrNotNil(next.Cond) {
				call, t := c.expr(s.Rhs[0])
				if t != "bool" {
					return c.fail("err assignment call")
				}
				return "(if negb " + call + "\n    then " + c.stmts(append(append([]ast.Stmt{}, next.Body.List...), list[2:]...)) + "\n    else " + c.stmts(list[2:]) + ")"
			}
		}
		if len(s.Lhs) != 2 || len(s.Rhs) != 1 || s.Tok != token.DEFINE || len(list) < 2 {
			return c.fail("assignment")
		}
		x, ok1 := s.Lhs[0].(*ast.Ident)
		e, ok2 := s.Lhs[1].(*ast.Ident)
		call, ok3 := s.Rhs[0].(*ast.CallExpr)
		next, ok4 := list[1].(*ast.IfStmt)
		if !ok1 || !ok2 || !ok3 || !ok4 || e.Name != "err" || next.Init != nil || next.Else != nil || !isErrNotNil(next.Cond) {
			return c.fail("assignment shape")
		}
		var oname string
		switch f := call.Fun.(type) {
		case *ast.Ident:
			oname = "o_" + f.Name
		case *ast.SelectorExpr:
			oname = "o_" + f.Sel.Name
		}
		sig, ok := c.oracles[oname]
		if !ok || !sig.option {
			return c.fail("call of %s", oname)
		}
		c.used[oname] = true
		args := ""
		for _, a := range call.Args {
			code, _ := c.expr(a)
			args += " " + code
		}
		c.errNonNil = true
		onErr := c.stmts(next.Body.List)
		c.errNonNil = false
		c.env[x.Name] = sig.result
		rest := c.stmts(list[2:])
		return "(match " + oname + args + " with\n    | None => " + onErr + "\n    | Some v_" + x.Name + " => " + rest + "\n    end)"
	case *ast.RangeStmt: // for _, v := range xs { if c { return a } }
		k, ok := s.Key.(*ast.Ident)
		v, ok2 := s.Value.(*ast.Ident)
		if !ok || !ok2 || k.Name != "_" || s.Tok != token.DEFINE || len(s.Body.List) != 1 {
			return c.fail("range shape")
		}
		inner, ok := s.Body.List[0].(*ast.IfStmt)
		if !ok || inner.Else != nil || len(inner.Body.List) != 1 {
			return c.fail("range body")
		}
		if inner.Init != nil { // for _, v := range xs { if err := f(v); err != nil { return err } }
			ret, ok := inner.Body.List[0].(*ast.ReturnStmt)
			xs, xt := c.expr(s.X)
			if !ok || len(ret.Results) != 1 || !strings.HasPrefix(xt, "list ") {
				return c.fail("range body with init")
			}
			c.env[v.Name] = strings.TrimPrefix(xt, "list ")
			call, ok := c.initCall(inner)
			c.errNonNil = true
			found := c.result(ret.Results[0])
			c.errNonNil = false
			delete(c.env, v.Name)
			if !ok {
				return c.fail("range body call")
			}
			return "(if existsb (fun v_" + v.Name + " => negb " + call + ") " + xs + "\n    then " + found + "\n    else " + c.stmts(list[1:]) + ")"
		}
		ret, ok := inner.Body.List[0].(*ast.ReturnStmt)
		if !ok || len(ret.Results) != 1 {
			return c.fail("range body return")
		}
		xs, xt := c.expr(s.X)
		if !strings.HasPrefix(xt, "list ") {
			return c.fail("range over %q", xt)
		}
		c.env[v.Name] = strings.TrimPrefix(xt, "list ")
		cond, ct := c.expr(inner.Cond)
		if ct != "bool" {
			return c.fail("range condition")
		}
		found := c.result(ret.Results[0])
		delete(c.env, v.Name)
		return "(if existsb (fun v_" + v.Name + " => " + cond + ") " + xs + "\n    then " + found + "\n    else " + c.stmts(list[1:]) + ")"
	}
	return c.fail("statement %T", list[0])
}

func genTyped() string {
	var b strings.Builder
	b.WriteString("(* GENERATED by vtrans from /repo's current source. Do not edit. *)\n")
	b.WriteString("From Coq Require Import ZArith Bool String List.\nFrom Sidetree Require Import Base.GoInt Sidetree.Protocol Sidetree.Parser.\nImport ListNotations.\nOpen Scope Z_scope.\nOpen Scope string_scope.\n\n")
	oracles := map[string]oracleSig{
		"o_asciiRegex_MatchString": {"string -> bool", "bool", false},                    // the id regular expression (source checked in GenTables)
		"o_GetMultihashCode":       {"string -> option Z", "Z", true},                    // hashing.GetMultihashCode: None = error
		"o_DecodeString":           {"string -> option string", "string", true},          // encoder.DecodeString (unpadded base64url): None = error
		"o_ParseRequestURI":        {"string -> bool", "bool", false},                    // url.ParseRequestURI: true = no error
		"o_GetCommitment":          {"option jwk -> Z -> option string", "string", true}, // commitment.GetCommitment
	}
	b.WriteString("(* the members every update / recover / deactivate request has (model.UpdateRequest ...) *)\nRecord gen_request := { rq_DidSuffix : string; rq_RevealValue : string; rq_SignedData : string }.\n\n")
	b.WriteString("Section Typed.\n")
	for _, n := range sortedOracleNames(oracles) {
		fmt.Fprintf(&b, "  Variable %s : %s.\n", n, oracles[n].coqType)
	}
	b.WriteString("\n")
	specs := []typedSpec{
		{"pkg/versions/1_0/operationparser", "", "contains", "parser"},
		{"pkg/hashing", "", "IsComputedUsingMultihashAlgorithms", "hashing"},
		{"pkg/versions/1_0/operationparser", "Parser", "validateMultihash", "parser"},
		{"pkg/versions/1_0/operationparser", "Parser", "validateNonce", "parser"},
		{"pkg/jws", "JWK", "Validate", "jws"},
		{"pkg/versions/1_0/operationparser", "Parser", "validateSigningKey", "parser"},
		{"pkg/versions/1_0/operationparser", "Parser", "validateCommitment", "parser"},
		{"pkg/versions/1_0/operationparser", "Parser", "validateSignedDataForUpdate", "parser"},
		{"pkg/versions/1_0/operationparser", "Parser", "validateSignedDataForRecovery", "parser"},
		{"pkg/versions/1_0/operationparser", "Parser", "ValidateSuffixData", "parser"},
		{"pkg/versions/1_0/operationparser", "Parser", "validateUpdateRequest", "parser"},
		{"pkg/versions/1_0/operationparser", "Parser", "validateRecoverRequest", "parser"},
		{"pkg/versions/1_0/operationparser", "Parser", "validateDeactivateRequest", "parser"},
		{"pkg/versions/1_0/operationparser/patchvalidator", "", "validateID", "pv"},
		{"pkg/versions/1_0/operationparser/patchvalidator", "", "validateIds", "pv"},
		{"pkg/versions/1_0/operationparser/patchvalidator", "", "validateURI", "pv"},
		{"pkg/versions/1_0/operationparser/patchvalidator", "", "validateURIs", "pv"},
		{"pkg/versions/1_0/operationparser/patchvalidator", "", "validateServiceID", "pv"},
		{"pkg/versions/1_0/operationparser/patchvalidator", "", "validateServiceType", "pv"},
	}
	group := map[string]string{}
	methods := map[string]bool{}
	for _, sp := range specs {
		gname := sp.prefix + "_" + sp.name
		fd := findFunc(loadPkg(sp.pkg), sp.recv, sp.name)
		if fd == nil {
			fmt.Fprintf(&b, "  (* %s: function not found in %s *)\n  Definition %s_missing : unit := tt.\n\n", gname, sp.pkg, gname)
			continue
		}
		c := &tctx{pkg: sp.pkg, prefix: sp.prefix, env: map[string]string{}, oracles: oracles, used: map[string]bool{}, group: group, methods: methods}
		params := ""
		if sp.recv != "" && fd.Recv != nil && len(fd.Recv.List) == 1 && len(fd.Recv.List[0].Names) == 1 {
			c.recvVar = fd.Recv.List[0].Names[0].Name
			c.recvType = "protocol"
			if sp.recv == "JWK" {
				c.recvType = "jwk"
			}
			params += " (v_" + c.recvVar + " : " + c.recvType + ")"
		}
		for _, f := range fd.Type.Params.List {
			t := coqTypeOf(f.Type)
			if t == "" || t == "error" {
				c.fail("parameter type")
			}
			for _, n := range f.Names {
				pt := t
				if strings.HasPrefix(pt, "option ") && pt != "option jwk" && !hasNilCheck(fd.Body, n.Name) {
					pt = strings.TrimPrefix(pt, "option ") // dereferenced without a nil check: the callers pass a value
				}
				c.env[n.Name] = pt
				params += " (v_" + n.Name + " : " + pt + ")"
			}
		}
		if fd.Type.Results == nil || len(fd.Type.Results.List) != 1 {
			c.fail("result arity")
		} else if rt := coqTypeOf(fd.Type.Results.List[0].Type); rt != "bool" && rt != "error" {
			c.fail("result type")
		}
		body := ""
		if c.failed == "" {
			body = c.stmts(fd.Body.List)
		}
		if c.failed != "" {
			fmt.Fprintf(&b, "  (* %s: outside the translated subset: %s *)\n  Definition %s_unsupported : unit := tt.\n\n", gname, c.failed, gname)
			continue
		}
		fmt.Fprintf(&b, "  (* %s.%s *)\n  Definition %s%s : bool :=\n    %s.\n\n", sp.pkg, sp.name, gname, params, body)
		group[sp.name] = gname
		if sp.recv != "" {
			methods[sp.name] = true
		}
	}
	b.WriteString("End Typed.\n")
	return b.String()
}

func hasNilCheck(body *ast.BlockStmt, name string) bool {
	found := false
	ast.Inspect(body, func(n ast.Node) bool {
		if be, ok := n.(*ast.BinaryExpr); ok && (be.Op == token.EQL || be.Op == token.NEQ) {
			l, ok1 := be.X.(*ast.Ident)
			r, ok2 := be.Y.(*ast.Ident)
			if ok1 && ok2 && l.Name == name && r.Name == "nil" {
				found = true
			}
		}
		return true
	})
	return found
}

func sortedOracleNames(m map[string]oracleSig) []string {
	var ks []string
	for k := range m {
		ks = append(ks, k)
	}
	sort.Strings(ks)
	return ks
}
