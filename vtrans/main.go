// vtrans: a deliberately small Go -> Gallina translator.
//
// It reads the *current* source of /repo (go/parser only, no type checking) and writes
// coq/Gen/*.v:
//   - pure int/bool/error functions (straight-line `if c { return e }` chains) as shallow
//     Gallina definitions over Z (GenFuncs.v),
//   - constant tables, string constants, switch tables (GenTables.v),
//   - lock programs of the registries, receiver/global write sets, map ranges and
//     panic-capable sites (GenStruct.v).
//
// Agreement lemmas in coq/theories/Agree/*.v tie those to the hand-written model.
package main

import (
	"flag"
	"fmt"
	"os"
	"path/filepath"
)

var repo = flag.String("repo", "/repo", "repository root")
var out = flag.String("out", "/verif/coq/Gen", "output directory")

func main() {
	flag.Parse()
	files := map[string]string{}
	files["GenFuncs.v"] = genFuncs()
	files["GenTables.v"] = genTables()
	files["GenStruct.v"] = genStruct()
	files["GenTyped.v"] = genTyped()
	if err := os.MkdirAll(*out, 0o755); err != nil { // a fresh checkout has no Gen directory (its files are generated)
		fmt.Fprintln(os.Stderr, "vtrans:", err)
		os.Exit(2)
	}
	for name, content := range files {
		p := filepath.Join(*out, name)
		old, err := os.ReadFile(p)
		if err == nil && string(old) == content {
			continue
		}
		if err := os.WriteFile(p, []byte(content), 0o644); err != nil {
			fmt.Fprintln(os.Stderr, "vtrans:", err)
			os.Exit(2)
		}
		fmt.Println("vtrans: wrote", p)
	}
}
