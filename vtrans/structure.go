package main

// Structural extraction: lock programs of the registries, writes to receiver fields and
// package-level variables, explicit panics / unchecked type assertions, deferred recovers and
// map ranges with order-sensitive bodies.

import (
	"fmt"
	"go/ast"
	"go/token"
	"sort"
	"strings"
)

func exprString(e ast.Expr) string {
	switch x := e.(type) {
	case *ast.Ident:
		return x.Name
	case *ast.SelectorExpr:
		return exprString(x.X) + "." + x.Sel.Name
	case *ast.IndexExpr:
		return exprString(x.X) + "[]"
	case *ast.StarExpr:
		return "*" + exprString(x.X)
	case *ast.ParenExpr:
		return exprString(x.X)
	case *ast.CallExpr:
		return exprString(x.Fun) + "()"
	}
	return "?"
}

func rootIdent(e ast.Expr) string {
	switch x := e.(type) {
	case *ast.Ident:
		return x.Name
	case *ast.SelectorExpr:
		return rootIdent(x.X)
	case *ast.IndexExpr:
		return rootIdent(x.X)
	case *ast.StarExpr:
		return rootIdent(x.X)
	case *ast.ParenExpr:
		return rootIdent(x.X)
	}
	return ""
}

// ---- lock programs ----

func lockProgram(fd *ast.FuncDecl, mapField string) []string {
	recv := ""
	if fd.Recv != nil && len(fd.Recv.List[0].Names) == 1 {
		recv = fd.Recv.List[0].Names[0].Name
	}
	var prog, deferred []string
	isMutexCall := func(ce *ast.CallExpr) string {
		sel, ok := ce.Fun.(*ast.SelectorExpr)
		if !ok {
			return ""
		}
		if inner, ok := sel.X.(*ast.SelectorExpr); ok && rootIdent(inner) == recv && inner.Sel.Name == "mutex" {
			return sel.Sel.Name
		}
		return ""
	}
	var walkExpr func(e ast.Node, write bool)
	walkExpr = func(n ast.Node, write bool) {
		ast.Inspect(n, func(m ast.Node) bool {
			switch x := m.(type) {
			case *ast.IndexExpr:
				if sel, ok := x.X.(*ast.SelectorExpr); ok && rootIdent(sel) == recv && sel.Sel.Name == mapField {
					if write {
						prog = append(prog, "MapWrite")
					} else {
						prog = append(prog, "MapRead")
					}
					return false
				}
			}
			return true
		})
	}
	var walk func(stmts []ast.Stmt)
	walk = func(stmts []ast.Stmt) {
		for _, st := range stmts {
			switch s := st.(type) {
			case *ast.ExprStmt:
				if ce, ok := s.X.(*ast.CallExpr); ok {
					if m := isMutexCall(ce); m != "" {
						prog = append(prog, m)
						continue
					}
				}
				walkExpr(s, false)
			case *ast.DeferStmt:
				if m := isMutexCall(s.Call); m != "" {
					deferred = append([]string{m}, deferred...)
					continue
				}
			case *ast.AssignStmt:
				for _, r := range s.Rhs {
					walkExpr(r, false)
				}
				for _, l := range s.Lhs {
					walkExpr(l, true)
				}
			case *ast.IfStmt:
				if s.Init != nil {
					walk([]ast.Stmt{s.Init})
				}
				walkExpr(s.Cond, false)
				// branches that return or panic do not continue; their map reads are recorded
				walk(s.Body.List)
			case *ast.RangeStmt:
				if sel, ok := s.X.(*ast.SelectorExpr); ok && rootIdent(sel) == recv && sel.Sel.Name == mapField {
					prog = append(prog, "MapRead")
				}
				walk(s.Body.List)
			case *ast.ReturnStmt:
				for _, r := range s.Results {
					walkExpr(r, false)
				}
			default:
				walkExpr(st, false)
			}
		}
	}
	walk(fd.Body.List)
	return append(prog, deferred...)
}

func genLockPrograms(b *strings.Builder) {
	type reg struct{ pkg, recv, mapField string }
	regs := []reg{
		{"pkg/vdr/sidetreelongform/dochandler/protocol/nsprovider", "Provider", "clients"},
		{"pkg/vdr/sidetreelongform/dochandler/protocolversion/clientregistry", "Registry", "factories"},
	}
	var items []string
	for _, rg := range regs {
		p := loadPkg(rg.pkg)
		var names []string
		progs := map[string][]string{}
		for _, f := range p.files {
			for _, d := range f.Decls {
				fd, ok := d.(*ast.FuncDecl)
				if !ok || fd.Recv == nil || typeName(fd.Recv.List[0].Type) != rg.recv {
					continue
				}
				pr := lockProgram(fd, rg.mapField)
				if len(pr) == 0 {
					continue
				}
				names = append(names, fd.Name.Name)
				progs[fd.Name.Name] = pr
			}
		}
		sort.Strings(names)
		for _, n := range names {
			items = append(items, fmt.Sprintf("(%s, [%s])", coqString(rg.recv+"."+n), strings.Join(progs[n], "; ")))
		}
	}
	fmt.Fprintf(b, "Definition gen_lock_programs : list (string * list instr) := [\n  %s].\n", strings.Join(items, ";\n  "))
}

// ---- writes ----

func pkgLevelVars(p *pkgSrc) map[string]bool {
	out := map[string]bool{}
	for _, f := range p.files {
		for _, d := range f.Decls {
			if gd, ok := d.(*ast.GenDecl); ok && gd.Tok == token.VAR {
				for _, s := range gd.Specs {
					for _, n := range s.(*ast.ValueSpec).Names {
						out[n.Name] = true
					}
				}
			}
		}
	}
	return out
}

func genWrites(b *strings.Builder) {
	pkgs := []string{
		"pkg/versions/1_0/operationparser", "pkg/versions/1_0/operationparser/patchvalidator", "pkg/versions/1_0/operationapplier",
		"pkg/versions/1_0/doccomposer", "pkg/versions/1_0/doctransformer/didtransformer", "pkg/versions/1_0/doctransformer/doctransformer",
		"pkg/versions/1_0/doctransformer/metadata", "pkg/vdr/sidetreelongform/dochandler", "pkg/vdr/sidetreelongform",
		"pkg/hashing", "pkg/commitment", "pkg/canonicalizer", "pkg/internal/jsoncanonicalizer", "pkg/jwsutil", "pkg/patch", "pkg/document",
		"pkg/docutil", "pkg/versions/1_0/model",
	}
	var recvWrites, globalWrites []string
	for _, pk := range pkgs {
		p := loadPkg(pk)
		globals := pkgLevelVars(p)
		for _, f := range p.files {
			for _, d := range f.Decls {
				fd, ok := d.(*ast.FuncDecl)
				if !ok || fd.Body == nil {
					continue
				}
				recv := ""
				if fd.Recv != nil && len(fd.Recv.List[0].Names) == 1 {
					recv = fd.Recv.List[0].Names[0].Name
				}
				// locals shadowing globals
				locals := map[string]bool{}
				for _, fl := range fd.Type.Params.List {
					for _, n := range fl.Names {
						locals[n.Name] = true
					}
				}
				ast.Inspect(fd.Body, func(n ast.Node) bool {
					if as, ok := n.(*ast.AssignStmt); ok && as.Tok == token.DEFINE {
						for _, l := range as.Lhs {
							if id, ok := l.(*ast.Ident); ok {
								locals[id.Name] = true
							}
						}
					}
					return true
				})
				record := func(target ast.Expr) {
					root := rootIdent(target)
					if root == "" || root == "_" {
						return
					}
					name := fmt.Sprintf("%s:%s", pk[strings.LastIndex(pk, "/")+1:], fd.Name.Name)
					if recv != "" && root == recv {
						if _, isSel := target.(*ast.Ident); !isSel {
							recvWrites = append(recvWrites, fmt.Sprintf("(%s, %s)", coqString(name), coqString(exprString(target))))
						}
					} else if globals[root] && !locals[root] {
						globalWrites = append(globalWrites, fmt.Sprintf("(%s, %s)", coqString(name), coqString(exprString(target))))
					}
				}
				ast.Inspect(fd.Body, func(n ast.Node) bool {
					switch s := n.(type) {
					case *ast.AssignStmt:
						if s.Tok != token.DEFINE {
							for _, l := range s.Lhs {
								record(l)
							}
						}
					case *ast.IncDecStmt:
						record(s.X)
					}
					return true
				})
			}
		}
	}
	sort.Strings(recvWrites)
	sort.Strings(globalWrites)
	fmt.Fprintf(b, "Definition gen_receiver_writes : list (string * string) := [%s].\n", strings.Join(recvWrites, "; "))
	fmt.Fprintf(b, "Definition gen_global_writes : list (string * string) := [%s].\n", strings.Join(globalWrites, "; "))
}

// ---- panic-capable sites and recovers ----

func genSites(b *strings.Builder) {
	pkgs := []string{
		"pkg/versions/1_0/operationparser", "pkg/versions/1_0/operationparser/patchvalidator", "pkg/versions/1_0/operationapplier",
		"pkg/versions/1_0/doccomposer", "pkg/versions/1_0/doctransformer/didtransformer", "pkg/versions/1_0/doctransformer/metadata",
		"pkg/vdr/sidetreelongform/dochandler", "pkg/hashing", "pkg/commitment", "pkg/canonicalizer", "pkg/internal/jsoncanonicalizer",
		"pkg/jwsutil", "pkg/patch", "pkg/document", "pkg/docutil", "pkg/versions/1_0/model", "pkg/encoder", "pkg/jws",
	}
	var sites, recovers []string
	for _, pk := range pkgs {
		p := loadPkg(pk)
		for _, f := range p.files {
			for _, d := range f.Decls {
				fd, ok := d.(*ast.FuncDecl)
				if !ok || fd.Body == nil {
					continue
				}
				name := fmt.Sprintf("%s:%s", pk[strings.LastIndex(pk, "/")+1:], fd.Name.Name)
				checked := map[*ast.TypeAssertExpr]bool{}
				ast.Inspect(fd.Body, func(n ast.Node) bool {
					switch s := n.(type) {
					case *ast.AssignStmt:
						if len(s.Lhs) == 2 && len(s.Rhs) == 1 {
							if ta, ok := s.Rhs[0].(*ast.TypeAssertExpr); ok {
								checked[ta] = true
							}
						}
					case *ast.ValueSpec:
						if len(s.Names) == 2 && len(s.Values) == 1 {
							if ta, ok := s.Values[0].(*ast.TypeAssertExpr); ok {
								checked[ta] = true
							}
						}
					case *ast.TypeSwitchStmt:
						ast.Inspect(s.Assign, func(m ast.Node) bool {
							if ta, ok := m.(*ast.TypeAssertExpr); ok {
								checked[ta] = true
							}
							return true
						})
					}
					return true
				})
				ast.Inspect(fd.Body, func(n ast.Node) bool {
					switch s := n.(type) {
					case *ast.TypeAssertExpr:
						if !checked[s] && s.Type != nil {
							sites = append(sites, fmt.Sprintf("(%s, %s)", coqString(name), coqString("assert:"+exprString(s.X))))
						}
					case *ast.CallExpr:
						if id, ok := s.Fun.(*ast.Ident); ok && id.Name == "panic" {
							sites = append(sites, fmt.Sprintf("(%s, %s)", coqString(name), coqString("panic")))
						}
						if id, ok := s.Fun.(*ast.Ident); ok && id.Name == "recover" {
							recovers = append(recovers, coqString(name))
						}
					}
					return true
				})
			}
		}
	}
	sort.Strings(sites)
	sort.Strings(recovers)
	fmt.Fprintf(b, "Definition gen_panic_sites : list (string * string) := [%s].\n", strings.Join(sites, "; "))
	fmt.Fprintf(b, "Definition gen_recover_sites : list string := [%s].\n", strings.Join(recovers, "; "))
}

// ---- map ranges whose body is order-sensitive ----

func funcResultIsMap(p *pkgSrc, name string) bool {
	fd := findFunc(p, "", name)
	if fd == nil || fd.Type.Results == nil || len(fd.Type.Results.List) == 0 {
		return false
	}
	_, ok := fd.Type.Results.List[0].Type.(*ast.MapType)
	return ok
}

// sortedLater reports whether the function calls sort.Strings / sort.Slice / sort.Sort on the variable.
func sortedLater(fd *ast.FuncDecl, name string) bool {
	found := false
	ast.Inspect(fd.Body, func(n ast.Node) bool {
		ce, ok := n.(*ast.CallExpr)
		if !ok || len(ce.Args) == 0 {
			return true
		}
		if sel, ok := ce.Fun.(*ast.SelectorExpr); ok {
			if id, ok := sel.X.(*ast.Ident); ok && id.Name == "sort" && rootIdent(ce.Args[0]) == name {
				found = true
			}
		}
		return true
	})
	return found
}

func genRanges(b *strings.Builder) {
	pkgs := []string{"pkg/vdr/sidetreelongform", "pkg/vdr/sidetreelongform/dochandler", "pkg/versions/1_0/doccomposer",
		"pkg/versions/1_0/doctransformer/didtransformer", "pkg/patch", "pkg/versions/1_0/operationparser"}
	var items []string
	for _, pk := range pkgs {
		p := loadPkg(pk)
		for _, f := range p.files {
			for _, d := range f.Decls {
				fd, ok := d.(*ast.FuncDecl)
				if !ok || fd.Body == nil {
					continue
				}
				mapVars := map[string]bool{}
				ast.Inspect(fd.Body, func(n ast.Node) bool {
					as, ok := n.(*ast.AssignStmt)
					if !ok || len(as.Rhs) != 1 {
						return true
					}
					isMap := false
					switch r := as.Rhs[0].(type) {
					case *ast.CallExpr:
						if id, ok := r.Fun.(*ast.Ident); ok {
							if id.Name == "make" && len(r.Args) > 0 {
								_, isMap = r.Args[0].(*ast.MapType)
							} else {
								isMap = funcResultIsMap(p, id.Name)
							}
						}
					case *ast.CompositeLit:
						_, isMap = r.Type.(*ast.MapType)
					}
					if isMap {
						if id, ok := as.Lhs[0].(*ast.Ident); ok {
							mapVars[id.Name] = true
						}
					}
					return true
				})
				ast.Inspect(fd.Body, func(n ast.Node) bool {
					rs, ok := n.(*ast.RangeStmt)
					if !ok {
						return true
					}
					id, ok := rs.X.(*ast.Ident)
					if !ok || !mapVars[id.Name] {
						return true
					}
					sensitive := false
					ast.Inspect(rs.Body, func(m ast.Node) bool {
						switch c := m.(type) {
						case *ast.AssignStmt:
							// x = append(x, ...) is order-sensitive unless x is sorted afterwards in this function
							if len(c.Rhs) == 1 {
								if ce, ok := c.Rhs[0].(*ast.CallExpr); ok {
									if fid, ok := ce.Fun.(*ast.Ident); ok && fid.Name == "append" {
										target := rootIdent(c.Lhs[0])
										if !sortedLater(fd, target) {
											sensitive = true
										}
									}
								}
							}
						case *ast.ReturnStmt:
							if len(c.Results) > 0 {
								if v, ok := c.Results[0].(*ast.Ident); !ok || v.Name != "nil" {
									sensitive = true
								}
							}
						}
						return true
					})
					if sensitive {
						items = append(items, coqString(fmt.Sprintf("%s:%s:range %s", pk[strings.LastIndex(pk, "/")+1:], fd.Name.Name, id.Name)))
					}
					return true
				})
			}
		}
	}
	sort.Strings(items)
	fmt.Fprintf(b, "Definition gen_order_sensitive_map_ranges : list string := [%s].\n", strings.Join(items, "; "))
}

func genStruct() string {
	var b strings.Builder
	b.WriteString("(* GENERATED by vtrans from /repo's current source. Do not edit. *)\n")
	b.WriteString("From Coq Require Import String List.\nFrom Sidetree Require Import Sidetree.Conc.\nImport ListNotations.\nOpen Scope string_scope.\n\n")
	genLockPrograms(&b)
	genWrites(&b)
	genSites(&b)
	genRanges(&b)
	return b.String()
}
