package main

// Table / constant extraction: composite literals, const blocks and switch tables of the
// packages the properties depend on, evaluated syntactically and written as Gallina lists.

import (
	"fmt"
	"go/ast"
	"go/token"
	"sort"
	"strconv"
	"strings"
)

// import alias -> package dir (only the repository's own packages are resolved)
var pkgDirs = map[string]string{
	"document": "pkg/document",
	"patch":    "pkg/patch",
	"jws":      "pkg/jws",
	"docutil":  "pkg/docutil",
}

// third-party constants the tables mention (pinned by go.sum; read from the module cache would
// be possible but these are protocol constants)
var externalConsts = map[string]string{
	"multihash.SHA2_256": "18",
	"multihash.SHA2_512": "19",
	"crypto.SHA256":      `"SHA256"`,
	"crypto.SHA384":      `"SHA384"`,
	"crypto.SHA512":      `"SHA512"`,
}

func findValueSpec(p *pkgSrc, name string) (ast.Expr, bool) {
	for _, f := range p.files {
		for _, d := range f.Decls {
			gd, ok := d.(*ast.GenDecl)
			if !ok || (gd.Tok != token.CONST && gd.Tok != token.VAR) {
				continue
			}
			for _, s := range gd.Specs {
				vs := s.(*ast.ValueSpec)
				for i, n := range vs.Names {
					if n.Name == name && i < len(vs.Values) {
						return vs.Values[i], true
					}
				}
			}
		}
	}
	return nil, false
}

// evalConst evaluates an expression to a Go literal string ("..." or a number) or "" if unknown.
func evalConst(pkg string, e ast.Expr) string {
	switch x := e.(type) {
	case *ast.BasicLit:
		if x.Kind == token.STRING {
			s, err := strconv.Unquote(x.Value)
			if err != nil {
				return ""
			}
			return strconv.Quote(s)
		}
		if x.Kind == token.CHAR {
			s, err := strconv.Unquote(x.Value)
			if err != nil || len(s) != 1 {
				return ""
			}
			return strconv.Itoa(int(s[0]))
		}
		return x.Value
	case *ast.Ident:
		if x.Name == "true" || x.Name == "false" {
			return x.Name
		}
		if v, ok := findValueSpec(loadPkg(pkg), x.Name); ok {
			return evalConst(pkg, v)
		}
		return ""
	case *ast.SelectorExpr:
		if id, ok := x.X.(*ast.Ident); ok {
			if v, ok := externalConsts[id.Name+"."+x.Sel.Name]; ok {
				return v
			}
			if dir, ok := pkgDirs[id.Name]; ok {
				if v, ok := findValueSpec(loadPkg(dir), x.Sel.Name); ok {
					return evalConst(dir, v)
				}
			}
		}
		return ""
	case *ast.CallExpr: // conversions such as Action("x") or document.KeyPurpose(p)
		if len(x.Args) == 1 {
			return evalConst(pkg, x.Args[0])
		}
		if len(x.Args) == 0 { // curve constructors: elliptic.P256(), btcec.S256()
			if sel, ok := x.Fun.(*ast.SelectorExpr); ok {
				if id, ok := sel.X.(*ast.Ident); ok {
					return strconv.Quote(id.Name + "." + sel.Sel.Name)
				}
			}
		}
	case *ast.ParenExpr:
		return evalConst(pkg, x.X)
	}
	return ""
}

func coqLit(goLit string) string {
	if strings.HasPrefix(goLit, `"`) {
		s, _ := strconv.Unquote(goLit)
		return coqString(s)
	}
	if goLit == "" {
		return `"<unresolved>"`
	}
	return "(" + goLit + ")%Z"
}

func coqString(s string) string {
	return `"` + strings.ReplaceAll(s, `"`, `""`) + `"`
}

// mapLiteral returns the (key, value) pairs of a package-level composite literal.
func compositeLit(pkg, name string) *ast.CompositeLit {
	v, ok := findValueSpec(loadPkg(pkg), name)
	if !ok {
		return nil
	}
	cl, _ := v.(*ast.CompositeLit)
	return cl
}

func mapPairs(pkg, name string, valueAsIdent bool) ([][2]string, bool) {
	cl := compositeLit(pkg, name)
	if cl == nil {
		return nil, false
	}
	var out [][2]string
	for _, el := range cl.Elts {
		kv, ok := el.(*ast.KeyValueExpr)
		if !ok {
			return nil, false
		}
		k := evalConst(pkg, kv.Key)
		var v string
		if valueAsIdent {
			if id, ok := kv.Value.(*ast.Ident); ok {
				v = strconv.Quote(id.Name)
			}
		} else {
			v = evalConst(pkg, kv.Value)
		}
		out = append(out, [2]string{k, v})
	}
	sort.Slice(out, func(i, j int) bool { return out[i][0] < out[j][0] })
	return out, true
}

func listElems(pkg, name string) ([]string, bool) {
	cl := compositeLit(pkg, name)
	if cl == nil {
		return nil, false
	}
	var out []string
	for _, el := range cl.Elts {
		out = append(out, evalConst(pkg, el))
	}
	return out, true
}

func defKeys(b *strings.Builder, gname, pkg, name string) {
	ps, ok := mapPairs(pkg, name, false)
	if !ok {
		fmt.Fprintf(b, "(* %s: map literal %s.%s not found *)\nDefinition %s_missing : unit := tt.\n", gname, pkg, name, gname)
		return
	}
	items := make([]string, len(ps))
	for i, p := range ps {
		items[i] = coqLit(p[0])
	}
	fmt.Fprintf(b, "Definition %s : list string := [%s].\n", gname, strings.Join(items, "; "))
}

func defPairs(b *strings.Builder, gname, pkg, name string, valueAsIdent bool) {
	ps, ok := mapPairs(pkg, name, valueAsIdent)
	if !ok {
		fmt.Fprintf(b, "(* %s: map literal %s.%s not found *)\nDefinition %s_missing : unit := tt.\n", gname, pkg, name, gname)
		return
	}
	items := make([]string, len(ps))
	for i, p := range ps {
		items[i] = "(" + coqLit(p[0]) + ", " + coqLit(p[1]) + ")"
	}
	fmt.Fprintf(b, "Definition %s : list (string * string) := [%s].\n", gname, strings.Join(items, "; "))
}

func defConst(b *strings.Builder, gname, pkg, name string, isString bool) {
	v, ok := findValueSpec(loadPkg(pkg), name)
	if !ok {
		fmt.Fprintf(b, "Definition %s_missing : unit := tt.\n", gname)
		return
	}
	lit := evalConst(pkg, v)
	ty := "Z"
	if isString {
		ty = "string"
	}
	fmt.Fprintf(b, "Definition %s : %s := %s.\n", gname, ty, coqLit(lit))
}

// regexpSource finds `name = regexp.MustCompile("...")`.
func regexpSource(pkg, name string) string {
	v, ok := findValueSpec(loadPkg(pkg), name)
	if !ok {
		return ""
	}
	ce, ok := v.(*ast.CallExpr)
	if !ok || len(ce.Args) != 1 {
		return ""
	}
	return evalConst(pkg, ce.Args[0])
}

// switchTable extracts `switch x { case K: ... }` of a function as (case constant, summary of
// the body) pairs; summarise receives the case body.
func switchTable(pkg, recv, fn string, summarise func(pkg string, body []ast.Stmt) string) ([][2]string, bool) {
	fd := findFunc(loadPkg(pkg), recv, fn)
	if fd == nil {
		return nil, false
	}
	var out [][2]string
	found := false
	ast.Inspect(fd.Body, func(n ast.Node) bool {
		sw, ok := n.(*ast.SwitchStmt)
		if !ok || found {
			return true
		}
		found = true
		for _, c := range sw.Body.List {
			cc := c.(*ast.CaseClause)
			for _, e := range cc.List {
				out = append(out, [2]string{evalConst(pkg, e), summarise(pkg, cc.Body)})
			}
		}
		return false
	})
	sort.Slice(out, func(i, j int) bool { return out[i][0] < out[j][0] })
	return out, found
}

// field values of the first composite literal / assignment found in a case body
func fieldSummary(fields ...string) func(string, []ast.Stmt) string {
	return func(pkg string, body []ast.Stmt) string {
		vals := map[string]string{}
		for _, s := range body {
			ast.Inspect(s, func(n ast.Node) bool {
				switch x := n.(type) {
				case *ast.KeyValueExpr:
					if id, ok := x.Key.(*ast.Ident); ok {
						vals[id.Name] = evalConst(pkg, x.Value)
					}
				case *ast.AssignStmt:
					if len(x.Lhs) == 1 && len(x.Rhs) == 1 {
						if id, ok := x.Lhs[0].(*ast.Ident); ok {
							vals[id.Name] = evalConst(pkg, x.Rhs[0])
						}
					}
				}
				return true
			})
		}
		var parts []string
		for _, f := range fields {
			v := vals[f]
			if strings.HasPrefix(v, `"`) {
				v, _ = strconv.Unquote(v)
			}
			parts = append(parts, v)
		}
		return strconv.Quote(strings.Join(parts, "/"))
	}
}

func genTables() string {
	var b strings.Builder
	b.WriteString("(* GENERATED by vtrans from /repo's current source. Do not edit. *)\n")
	b.WriteString("From Coq Require Import ZArith String List.\nImport ListNotations.\nOpen Scope string_scope.\n\n")
	pv := "pkg/versions/1_0/operationparser/patchvalidator"
	defConst(&b, "gen_max_id_length", pv, "maxIDLength", false)
	defConst(&b, "gen_max_service_type_length", pv, "maxServiceTypeLength", false)
	defConst(&b, "gen_max_nesting_depth", "pkg/internal/jsoncanonicalizer", "maxNestingDepth", false)
	fmt.Fprintf(&b, "Definition gen_id_regexp : string := %s.\n", coqLit(regexpSource(pv, "asciiRegex")))
	defKeys(&b, "gen_allowed_purposes", pv, "allowedPurposes")
	defKeys(&b, "gen_key_types_general", pv, "allowedKeyTypesGeneral")
	defKeys(&b, "gen_key_types_verification", pv, "allowedKeyTypesVerification")
	defKeys(&b, "gen_key_types_agreement", pv, "allowedKeyTypesAgreement")
	defPairs(&b, "gen_allowed_key_types", pv, "allowedKeyTypes", true)
	defPairs(&b, "gen_action_config", "pkg/patch", "actionConfig", false)
	for _, c := range [][2]string{{"gen_doc_public_key", "PublicKeyProperty"}, {"gen_doc_service", "ServiceProperty"},
		{"gen_doc_also_known_as", "AlsoKnownAs"}, {"gen_doc_id", "IDProperty"}, {"gen_replace_public_keys", "ReplacePublicKeyProperty"},
		{"gen_replace_services", "ReplaceServiceProperty"}, {"gen_doc_context", "ContextProperty"}} {
		defConst(&b, c[0], "pkg/document", c[1], true)
	}
	defConst(&b, "gen_namespace_delimiter", "pkg/docutil", "NamespaceDelimiter", true)
	// curve tables
	if t, ok := switchTable("pkg/jwsutil", "", "parseEllipticCurve", fieldSummary("keySize", "hash")); ok {
		items := make([]string, len(t))
		for i, p := range t {
			items[i] = "(" + coqLit(p[0]) + ", " + coqLit(p[1]) + ")"
		}
		fmt.Fprintf(&b, "Definition gen_verify_curves : list (string * string) := [%s].\n", strings.Join(items, "; "))
	} else {
		b.WriteString("Definition gen_verify_curves_missing : unit := tt.\n")
	}
	if t, ok := switchTable("pkg/hashing", "", "GetHashFromMultihash", fieldSummary("h")); ok {
		items := make([]string, len(t))
		for i, p := range t {
			items[i] = "(" + coqLit(p[0]) + ", " + coqLit(p[1]) + ")"
		}
		fmt.Fprintf(&b, "Definition gen_hash_codes : list (Z * string) := [%s].\n", strings.Join(items, "; "))
	} else {
		b.WriteString("Definition gen_hash_codes_missing : unit := tt.\n")
	}
	if t, ok := switchTable("pkg/util/ecsigner", "", "getHasher", func(pkg string, body []ast.Stmt) string {
		for _, st := range body {
			if rs, ok := st.(*ast.ReturnStmt); ok && len(rs.Results) == 1 {
				return evalConst(pkg, rs.Results[0])
			}
		}
		return ""
	}); ok {
		items := make([]string, len(t))
		for i, p := range t {
			items[i] = "(" + coqLit(p[0]) + ", " + coqLit(p[1]) + ")"
		}
		fmt.Fprintf(&b, "Definition gen_sign_hashers : list (string * string) := [%s].\n", strings.Join(items, "; "))
	} else {
		b.WriteString("Definition gen_sign_hashers_missing : unit := tt.\n")
	}
	for _, nm := range [][2]string{{"gen_jcs_ascii_escapes", "asciiEscapes"}, {"gen_jcs_binary_escapes", "binaryEscapes"}} {
		if l, ok := listElems("pkg/internal/jsoncanonicalizer", nm[1]); ok {
			items := make([]string, len(l))
			for i, v := range l {
				items[i] = coqLit(v)
			}
			fmt.Fprintf(&b, "Definition %s : list Z := [%s].\n", nm[0], strings.Join(items, "; "))
		} else {
			fmt.Fprintf(&b, "Definition %s_missing : unit := tt.\n", nm[0])
		}
	}
	if l, ok := listElems("pkg/internal/jsoncanonicalizer", "literals"); ok {
		items := make([]string, len(l))
		for i, v := range l {
			items[i] = coqLit(v)
		}
		fmt.Fprintf(&b, "Definition gen_jcs_literals : list string := [%s].\n", strings.Join(items, "; "))
	}
	b.WriteString(genStructTags())
	// transformer contexts
	dt := "pkg/versions/1_0/doctransformer/didtransformer"
	defConst(&b, "gen_did_context", dt, "didContext", true)
	defConst(&b, "gen_did_resolution_context", dt, "didResolutionContext", true)
	defPairs(&b, "gen_key_context_map", dt, "defaultKeyContextMap", false)
	// protected headers the parser allows (map literal local to validateProtectedHeaders)
	b.WriteString(genLocalMapKeys("gen_allowed_headers", "pkg/versions/1_0/operationparser", "validateProtectedHeaders", "allowedHeaders"))
	b.WriteString(genLongformProtocol())
	return b.String()
}

// genStructTags: the json struct tags of the request models and of jws.JWK:
// (struct, [(field, json name, omitempty)]) in declaration order.
func genStructTags() string {
	var items []string
	for _, pkg := range []string{"pkg/versions/1_0/model", "pkg/jws"} {
		p := loadPkg(pkg)
		var names []string
		byName := map[string]*ast.StructType{}
		for _, f := range p.files {
			for _, d := range f.Decls {
				gd, ok := d.(*ast.GenDecl)
				if !ok || gd.Tok != token.TYPE {
					continue
				}
				for _, sp := range gd.Specs {
					ts := sp.(*ast.TypeSpec)
					if st, ok := ts.Type.(*ast.StructType); ok {
						names = append(names, ts.Name.Name)
						byName[ts.Name.Name] = st
					}
				}
			}
		}
		sort.Strings(names)
		for _, n := range names {
			var fields []string
			for _, fl := range byName[n].Fields.List {
				if fl.Tag == nil || len(fl.Names) == 0 {
					continue
				}
				tag, _ := strconv.Unquote(fl.Tag.Value)
				i := strings.Index(tag, `json:"`)
				if i < 0 {
					continue
				}
				js := tag[i+6:]
				js = js[:strings.Index(js, `"`)]
				parts := strings.Split(js, ",")
				omit := "false"
				for _, o := range parts[1:] {
					if o == "omitempty" {
						omit = "true"
					}
				}
				fields = append(fields, fmt.Sprintf("(%s, %s, %s)", coqString(fl.Names[0].Name), coqString(parts[0]), omit))
			}
			if len(fields) > 0 {
				items = append(items, fmt.Sprintf("(%s, [%s])", coqString(n), strings.Join(fields, "; ")))
			}
		}
	}
	return "Definition gen_struct_tags : list (string * list (string * string * bool)) :=\n  [" + strings.Join(items, ";\n   ") + "].\n"
}

// genLocalMapKeys: keys of a map composite literal assigned to a local variable of a function.
func genLocalMapKeys(gname, pkg, fn, varName string) string {
	var keys []string
	found := false
	for _, f := range loadPkg(pkg).files {
		for _, d := range f.Decls {
			fd, ok := d.(*ast.FuncDecl)
			if !ok || fd.Name.Name != fn || fd.Body == nil {
				continue
			}
			ast.Inspect(fd.Body, func(n ast.Node) bool {
				as, ok := n.(*ast.AssignStmt)
				if !ok || len(as.Lhs) != 1 || len(as.Rhs) != 1 {
					return true
				}
				if id, ok := as.Lhs[0].(*ast.Ident); !ok || id.Name != varName {
					return true
				}
				cl, ok := as.Rhs[0].(*ast.CompositeLit)
				if !ok {
					return true
				}
				found = true
				for _, el := range cl.Elts {
					if kv, ok := el.(*ast.KeyValueExpr); ok {
						keys = append(keys, coqLit(evalConst(pkg, kv.Key)))
					}
				}
				return false
			})
		}
	}
	if !found {
		return fmt.Sprintf("Definition %s_missing : unit := tt.\n", gname)
	}
	sort.Strings(keys)
	return fmt.Sprintf("Definition %s : list string := [%s].\n", gname, strings.Join(keys, "; "))
}

// genLongformProtocol evaluates the protocol.Protocol literal returned by GetProtocolConfig.
func genLongformProtocol() string {
	pkg := "pkg/vdr/sidetreelongform/dochandler/protocolversion/versions/v1_0/config"
	fd := findFunc(loadPkg(pkg), "", "GetProtocolConfig")
	if fd == nil {
		return "Definition gen_longform_protocol_missing : unit := tt.\n"
	}
	var lit *ast.CompositeLit
	ast.Inspect(fd.Body, func(n ast.Node) bool {
		if cl, ok := n.(*ast.CompositeLit); ok && lit == nil {
			if typeName(cl.Type) == "protocol.Protocol" {
				lit = cl
			}
		}
		return true
	})
	if lit == nil {
		return "Definition gen_longform_protocol_missing : unit := tt.\n"
	}
	vals := map[string]string{}
	for _, el := range lit.Elts {
		kv, ok := el.(*ast.KeyValueExpr)
		if !ok {
			continue
		}
		name := kv.Key.(*ast.Ident).Name
		if cl, ok := kv.Value.(*ast.CompositeLit); ok {
			var items []string
			for _, e := range cl.Elts {
				items = append(items, coqLit(evalConst(pkg, e)))
			}
			vals[name] = "[" + strings.Join(items, "; ") + "]"
		} else {
			vals[name] = coqLit(evalConst(pkg, kv.Value))
		}
	}
	fields := []struct{ name, zero string }{
		{"GenesisTime", "0%Z"}, {"MultihashAlgorithms", "[]"}, {"MaxOperationCount", "0%Z"}, {"MaxOperationSize", "0%Z"},
		{"MaxOperationHashLength", "0%Z"}, {"MaxDeltaSize", "0%Z"}, {"MaxCasURILength", "0%Z"}, {"CompressionAlgorithm", "\"\""},
		{"MaxCoreIndexFileSize", "0%Z"}, {"MaxProofFileSize", "0%Z"}, {"MaxProvisionalIndexFileSize", "0%Z"}, {"MaxChunkFileSize", "0%Z"},
		{"Patches", "[]"}, {"SignatureAlgorithms", "[]"}, {"KeyAlgorithms", "[]"}, {"MaxOperationTimeDelta", "0%Z"}, {"NonceSize", "0%Z"},
		{"MaxMemoryDecompressionFactor", "0%Z"}}
	var args []string
	for _, f := range fields {
		if v, ok := vals[f.name]; ok {
			args = append(args, v)
			delete(vals, f.name)
		} else {
			args = append(args, f.zero)
		}
	}
	out := "From Sidetree Require Import Sidetree.Protocol.\nDefinition gen_longform_protocol : protocol :=\n  Build_protocol " + strings.Join(args, " ") + ".\n"
	if len(vals) > 0 {
		out += "Definition gen_longform_protocol_unknown_fields : unit := tt.\n"
	}
	return out
}
