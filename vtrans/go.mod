module vtrans

go 1.22
