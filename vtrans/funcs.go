package main

import (
	"fmt"
	"go/ast"
	"go/parser"
	"go/token"
	"os"
	"path/filepath"
	"sort"
	"strconv"
	"strings"
)

// ---------------------------------------------------------------------------------------------
// source loading

type pkgSrc struct {
	fset  *token.FileSet
	files []*ast.File
	names []string
}

var pkgCache = map[string]*pkgSrc{}

func loadPkg(rel string) *pkgSrc {
	if p, ok := pkgCache[rel]; ok {
		return p
	}
	dir := filepath.Join(*repo, rel)
	ents, err := os.ReadDir(dir)
	if err != nil {
		fatal("cannot read package %s: %v", rel, err)
	}
	p := &pkgSrc{fset: token.NewFileSet()}
	for _, e := range ents {
		n := e.Name()
		if e.IsDir() || !strings.HasSuffix(n, ".go") || strings.HasSuffix(n, "_test.go") {
			continue
		}
		f, err := parser.ParseFile(p.fset, filepath.Join(dir, n), nil, parser.ParseComments)
		if err != nil {
			fatal("parse %s/%s: %v", rel, n, err)
		}
		p.files = append(p.files, f)
		p.names = append(p.names, n)
	}
	pkgCache[rel] = p
	return p
}

func fatal(format string, a ...interface{}) {
	fmt.Fprintf(os.Stderr, "vtrans: "+format+"\n", a...)
	os.Exit(2)
}

func findFunc(p *pkgSrc, recv, name string) *ast.FuncDecl {
	for _, f := range p.files {
		for _, d := range f.Decls {
			fd, ok := d.(*ast.FuncDecl)
			if !ok || fd.Name.Name != name {
				continue
			}
			if recv == "" && fd.Recv == nil {
				return fd
			}
			if recv != "" && fd.Recv != nil && len(fd.Recv.List) == 1 && typeName(fd.Recv.List[0].Type) == recv {
				return fd
			}
		}
	}
	return nil
}

func typeName(e ast.Expr) string {
	switch t := e.(type) {
	case *ast.StarExpr:
		return typeName(t.X)
	case *ast.Ident:
		return t.Name
	case *ast.SelectorExpr:
		return typeName(t.X) + "." + t.Sel.Name
	}
	return "?"
}

// ---------------------------------------------------------------------------------------------
// pure function translation (shallow embedding into Gallina over Z / bool)
//
// Supported subset: parameters of integer type; body = sequence of
//   if <cond> { return <e> }        (optionally with else-branch of the same form)
//   return <e>
// expressions: integer literals, parameters, receiver.Field (protocol field), binary
// arithmetic/comparison/logic, !e, conversions int64()/uint64()/int()/uint(), calls to other
// translated methods of the same receiver, `nil` (error nil -> true), fmt.Errorf/errors.New
// (-> false), slice[index].Field (-> projection of a record parameter named slice_index).

type fnCtx struct {
	prefix  string // Gallina name prefix for methods of this receiver
	recvVar string // receiver variable name in Go
	retErr  bool   // function returns `error` (mapped to bool: true = nil)
	failed  string
}

func (c *fnCtx) fail(format string, a ...interface{}) string {
	if c.failed == "" {
		c.failed = fmt.Sprintf(format, a...)
	}
	return "UNSUPPORTED"
}

func (c *fnCtx) expr(e ast.Expr) string {
	switch x := e.(type) {
	case *ast.ParenExpr:
		return "(" + c.expr(x.X) + ")"
	case *ast.BasicLit:
		if x.Kind == token.INT {
			v, err := strconv.ParseInt(x.Value, 0, 64)
			if err != nil {
				return c.fail("int literal %s", x.Value)
			}
			return fmt.Sprintf("(%d)", v)
		}
		return c.fail("literal %s", x.Value)
	case *ast.Ident:
		switch x.Name {
		case "nil":
			return "true"
		case "true", "false":
			return x.Name
		}
		return "v_" + x.Name
	case *ast.SelectorExpr:
		if id, ok := x.X.(*ast.Ident); ok && id.Name == c.recvVar && c.recvVar != "" {
			return "(" + "P_" + x.Sel.Name + " v_" + c.recvVar + ")"
		}
		if ix, ok := x.X.(*ast.IndexExpr); ok {
			a, ok1 := ix.X.(*ast.Ident)
			i, ok2 := ix.Index.(*ast.Ident)
			if ok1 && ok2 {
				return "(" + "F_" + x.Sel.Name + " v_" + a.Name + "_" + i.Name + ")"
			}
		}
		return c.fail("selector %s", x.Sel.Name)
	case *ast.UnaryExpr:
		if x.Op == token.NOT {
			return "(negb " + c.expr(x.X) + ")"
		}
		if x.Op == token.SUB {
			return "(- " + c.expr(x.X) + ")"
		}
		return c.fail("unary %s", x.Op)
	case *ast.BinaryExpr:
		l, r := c.expr(x.X), c.expr(x.Y)
		switch x.Op {
		case token.ADD:
			return "(go_add " + l + " " + r + ")"
		case token.SUB:
			return "(go_sub " + l + " " + r + ")"
		case token.LSS:
			return "(" + l + " <? " + r + ")"
		case token.GTR:
			return "(" + l + " >? " + r + ")"
		case token.LEQ:
			return "(" + l + " <=? " + r + ")"
		case token.GEQ:
			return "(" + l + " >=? " + r + ")"
		case token.EQL:
			return "(" + l + " =? " + r + ")"
		case token.NEQ:
			return "(negb (" + l + " =? " + r + "))"
		case token.LAND:
			return "(andb " + l + " " + r + ")"
		case token.LOR:
			return "(orb " + l + " " + r + ")"
		}
		return c.fail("binary %s", x.Op)
	case *ast.CallExpr:
		if id, ok := x.Fun.(*ast.Ident); ok && len(x.Args) == 1 {
			switch id.Name {
			case "int64", "int":
				return "(to_i64 " + c.expr(x.Args[0]) + ")"
			case "uint64", "uint":
				return "(to_u64 " + c.expr(x.Args[0]) + ")"
			}
		}
		if sel, ok := x.Fun.(*ast.SelectorExpr); ok {
			if id, ok := sel.X.(*ast.Ident); ok {
				if (id.Name == "fmt" && sel.Sel.Name == "Errorf") || (id.Name == "errors" && sel.Sel.Name == "New") {
					return "false"
				}
				if id.Name == c.recvVar && c.recvVar != "" {
					s := "(" + c.prefix + "_" + sel.Sel.Name + " v_" + c.recvVar
					for _, a := range x.Args {
						s += " " + c.expr(a)
					}
					return s + ")"
				}
			}
		}
		return c.fail("call")
	}
	return c.fail("expression %T", e)
}

func (c *fnCtx) stmts(list []ast.Stmt) string {
	if len(list) == 0 {
		return c.fail("fall off end")
	}
	switch s := list[0].(type) {
	case *ast.ReturnStmt:
		if len(s.Results) != 1 {
			return c.fail("return arity")
		}
		return c.expr(s.Results[0])
	case *ast.IfStmt:
		if s.Init != nil {
			return c.fail("if with init")
		}
		thenS := c.stmts(s.Body.List)
		var elseS string
		if s.Else != nil {
			blk, ok := s.Else.(*ast.BlockStmt)
			if !ok {
				return c.fail("else-if")
			}
			elseS = c.stmts(append(append([]ast.Stmt{}, blk.List...), list[1:]...))
		} else {
			elseS = c.stmts(list[1:])
		}
		return "(if " + c.expr(s.Cond) + "\n    then " + thenS + "\n    else " + elseS + ")"
	}
	return c.fail("statement %T", list[0])
}

type fnSpec struct {
	pkg, recv, name string // Go location
	prefix          string // Gallina prefix; definition is <prefix>_<name>
}

func translateFunc(sp fnSpec) string {
	p := loadPkg(sp.pkg)
	fd := findFunc(p, sp.recv, sp.name)
	gname := sp.prefix + "_" + sp.name
	if fd == nil {
		return fmt.Sprintf("(* %s: function not found in %s *)\nDefinition %s_missing : unit := tt.\n", gname, sp.pkg, gname)
	}
	c := &fnCtx{prefix: sp.prefix}
	params := ""
	if fd.Recv != nil && len(fd.Recv.List[0].Names) == 1 {
		c.recvVar = fd.Recv.List[0].Names[0].Name
		params += " (v_" + c.recvVar + " : protocol)"
	}
	for _, f := range fd.Type.Params.List {
		for _, n := range f.Names {
			params += " (v_" + n.Name + " : Z)"
		}
	}
	ret := "Z"
	if fd.Type.Results != nil && len(fd.Type.Results.List) == 1 {
		switch typeName(fd.Type.Results.List[0].Type) {
		case "error", "bool":
			ret = "bool"
		}
	}
	body := c.stmts(fd.Body.List)
	if c.failed != "" {
		return fmt.Sprintf("(* %s: outside the translated subset: %s *)\nDefinition %s_unsupported : unit := tt.\n", gname, c.failed, gname)
	}
	return fmt.Sprintf("(* %s.%s (%s) *)\nDefinition %s%s : %s :=\n  %s.\n", sp.pkg, sp.name, sp.recv, gname, params, ret, body)
}

// translateLess finds `sort.Slice(x, func(i, j int) bool {...})` inside the named function and
// translates the comparator; x[i].F becomes (F_F v_x_i).
func translateLess(pkg, fn, gname string) string {
	p := loadPkg(pkg)
	fd := findFunc(p, "", fn)
	if fd == nil {
		return fmt.Sprintf("Definition %s_missing : unit := tt.\n", gname)
	}
	var lit *ast.FuncLit
	var sliceName string
	ast.Inspect(fd.Body, func(n ast.Node) bool {
		ce, ok := n.(*ast.CallExpr)
		if !ok {
			return true
		}
		sel, ok := ce.Fun.(*ast.SelectorExpr)
		if !ok || len(ce.Args) != 2 {
			return true
		}
		if id, ok := sel.X.(*ast.Ident); ok && id.Name == "sort" && (sel.Sel.Name == "Slice" || sel.Sel.Name == "SliceStable") {
			if fl, ok := ce.Args[1].(*ast.FuncLit); ok {
				lit = fl
				if a, ok := ce.Args[0].(*ast.Ident); ok {
					sliceName = a.Name
				}
			}
		}
		return true
	})
	if lit == nil || sliceName == "" {
		return fmt.Sprintf("(* %s: no sort.Slice comparator found *)\nDefinition %s_missing : unit := tt.\n", gname, gname)
	}
	var names []string
	for _, f := range lit.Type.Params.List {
		for _, n := range f.Names {
			names = append(names, n.Name)
		}
	}
	if len(names) != 2 {
		return fmt.Sprintf("Definition %s_unsupported : unit := tt.\n", gname)
	}
	c := &fnCtx{}
	body := c.stmts(lit.Body.List)
	if c.failed != "" {
		return fmt.Sprintf("(* %s: outside the translated subset: %s *)\nDefinition %s_unsupported : unit := tt.\n", gname, c.failed, gname)
	}
	return fmt.Sprintf("(* comparator of sort.Slice in %s.%s *)\nDefinition %s (v_%s_%s v_%s_%s : anchored_key) : bool :=\n  %s.\n",
		pkg, fn, gname, sliceName, names[0], sliceName, names[1], body)
}

func genFuncs() string {
	var b strings.Builder
	b.WriteString("(* GENERATED by vtrans from /repo's current source. Do not edit. *)\n")
	b.WriteString("From Coq Require Import ZArith Bool.\nFrom Sidetree Require Import Base.GoInt Sidetree.Protocol.\nOpen Scope Z_scope.\n\n")
	specs := []fnSpec{
		{"pkg/versions/1_0/operationapplier", "Applier", "getAnchorUntil", "applier"},
		{"pkg/versions/1_0/operationapplier", "Applier", "verifyAnchoringTimeRange", "applier"},
		{"pkg/versions/1_0/operationparser", "Parser", "getAnchorUntil", "parser"},
	}
	for _, sp := range specs {
		b.WriteString(translateFunc(sp))
		b.WriteString("\n")
	}
	b.WriteString(translateLess("pkg/versions/1_0/doctransformer/metadata", "sortOperations", "metadata_less"))
	return b.String()
}

func sortedKeys(m map[string]string) []string {
	var ks []string
	for k := range m {
		ks = append(ks, k)
	}
	sort.Strings(ks)
	return ks
}
