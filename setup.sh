#!/bin/bash
# Build everything from files on disk, offline: translator, Gen/*.v, full Coq .vo build, harness.
set -e
cd "$(dirname "$0")"
export GOFLAGS=-mod=mod GOPROXY=off GOSUMDB=off GOTOOLCHAIN=local
mkdir -p build/bin evidence replays
(cd vtrans && go build -o ../build/bin/vtrans .)
./build/bin/vtrans -repo "${VERIF_REPO:-/repo}" -out coq/Gen
(cd coq && coq_makefile -f _CoqProject -o Makefile >/dev/null 2>&1 && timeout 3000 make -j16 >/dev/null)
cp "${VERIF_REPO:-/repo}/go.sum" harness/go.sum
(cd harness && go build -tags verif -o ../build/bin/vharness .)
bash tools/forbidden.sh
echo "setup ok"
