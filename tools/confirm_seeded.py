#!/usr/bin/env python3
"""Confirm a sub-agent's seeded change in a scratch worktree and import it to /verif/seeded/.
usage: confirm_seeded.py <mutout dir, e.g. /tmp/mutout/C09/m1> <property id> <name>"""
import json, os, re, shutil, subprocess, sys
src, pid, name = sys.argv[1], sys.argv[2], sys.argv[3]
env = dict(os.environ, GOFLAGS="-mod=mod", GOPROXY="off", GOSUMDB="off", GOTOOLCHAIN="local")
readme = open(os.path.join(src, "README.md")).read()
m = re.search(r"-run\s+'?\"?([A-Za-z0-9_|^$]+)'?\"?\s+(?:-v\s+)?(\./pkg/\S+?)/?[\s`]", readme)
if not m:
    print("cannot find demo command in README"); sys.exit(2)
runpat, pkgdir = m.group(1), m.group(2).rstrip("/")
wt = "/tmp/confirm_%s_%s" % (pid, name)
subprocess.run(["git", "-C", "/repo", "worktree", "remove", "--force", wt], capture_output=True)
subprocess.run(["git", "-C", "/repo", "worktree", "add", "-q", "--detach", wt, "HEAD"], check=True)
res = {}
try:
    demo_dst = os.path.join(wt, pkgdir, "zz_seeded_demo_test.go")
    shutil.copy(os.path.join(src, "demo_test.go"), demo_dst)
    def demo():
        p = subprocess.run(["go", "test", "-vet=off", "-count=1", "-run", runpat, pkgdir], cwd=wt, env=env, capture_output=True, text=True, errors="replace")
        return p.returncode, (p.stdout + p.stderr)[-600:]
    rc, out = demo(); res["demo_on_clean"] = "pass" if rc == 0 else "FAIL: " + out
    os.remove(demo_dst)
    p = subprocess.run(["git", "apply", os.path.join(src, "patch.diff")], cwd=wt, capture_output=True, text=True)
    res["patch_applies"] = p.returncode == 0
    p = subprocess.run([sys.executable, "/verif/tools/baseline_check.py", wt], capture_output=True, text=True)
    res["suite_with_patch"] = p.stdout.strip().splitlines()[0] if p.stdout else p.stderr[-300:]
    suite_ok = p.returncode == 0
    shutil.copy(os.path.join(src, "demo_test.go"), demo_dst)
    rc, out = demo(); res["demo_with_patch"] = "fails (as required)" if rc != 0 else "PASSES (not a valid seed)"
    ok = res["demo_on_clean"] == "pass" and res["patch_applies"] and suite_ok and rc != 0
finally:
    subprocess.run(["git", "-C", "/repo", "worktree", "remove", "--force", wt], capture_output=True)
print(json.dumps(res, indent=1))
if not ok:
    print("NOT CONFIRMED"); sys.exit(1)
dst = os.path.join("/verif/seeded", "%s-%s" % (pid, name))
os.makedirs(dst, exist_ok=True)
shutil.copy(os.path.join(src, "patch.diff"), dst)
shutil.copy(os.path.join(src, "demo_test.go"), dst)
shutil.copy(os.path.join(src, "README.md"), os.path.join(dst, "AGENT_README.md"))
meta = {"property": pid, "name": name, "origin": "independent sub-agent given only the property text and a scratch worktree",
        "demo_package_dir": pkgdir, "demo_run": "go test -vet=off -count=1 -run %s %s" % (runpat, pkgdir),
        "needs_to_manifest": "see AGENT_README.md", "confirmed": res, "detected_by": []}
json.dump(meta, open(os.path.join(dst, "meta.json"), "w"), indent=1)
print("CONFIRMED ->", dst)
