#!/bin/bash
# usage: tools/try_mutant.sh [-R] <patch.diff> <ID> [<ID>...]   (development-time self-test)
REV=""
if [ "$1" = "-R" ]; then REV="-R"; shift; fi
PATCH=$1; shift
cd /repo && git apply $REV "$PATCH" || { echo "patch does not apply"; exit 2; }
cd /verif
for id in "$@"; do
  ./check "$id" --tier quick 2>/dev/null | tail -4
done
cd /repo && git checkout -- . && git clean -fdq pkg && git status --short
