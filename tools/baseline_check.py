#!/usr/bin/env python3
"""Run /repo's test suite (guard OFF) and compare with BASELINE.json stable_pass."""
import json, subprocess, sys, os
env = dict(os.environ, GOFLAGS="-mod=mod", GOPROXY="off", GOSUMDB="off", GOTOOLCHAIN="local")
repo = sys.argv[1] if len(sys.argv) > 1 else "/repo"
p = subprocess.run(["go", "test", "-json", "-vet=off", "-count=1", "-timeout", "25m", "./..."],
                   cwd=repo, env=env, capture_output=True, text=True)
passed = set()
failed = set()
for line in p.stdout.splitlines():
    try:
        e = json.loads(line)
    except Exception:
        continue
    if e.get("Test") and e.get("Action") in ("pass", "fail"):
        k = e["Package"] + "::" + e["Test"]
        (passed if e["Action"] == "pass" else failed).add(k)
base = set(json.load(open("/root/.vp/BASELINE.json"))["stable_pass"])
missing = sorted(base - passed)
print("baseline=%d passed=%d failed=%d missing_from_baseline=%d" % (len(base), len(passed), len(failed), len(missing)))
for m in missing[:40]:
    print("  MISSING", m)
sys.exit(1 if missing else 0)
