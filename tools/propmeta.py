"""Per-property metadata used by ./check (Coq files holding the obligations, trusted base, rule)."""

COMMON_TB = [
    "Coq 8.16.1 kernel (coqc, full .vo build); vm_compute used to evaluate the model on harness cases; no native_compute",
    "translator /verif/vtrans (go/parser, syntactic extraction only) regenerates coq/Gen/*.v from /repo on every run",
    "Go harness /verif/harness (independent operation builder, observation printer) and the Gallina judges in coq/theories/Harness",
]

HIST_RULE = ("histories of 2..N anchored operations built by the harness's independent builder (own JCS, JWK, JWS, stdlib crypto), "
             "one labelled mutation per operation drawn from the failure classes of the property; every step is applied through the real "
             "parser/composer/applier and all 15 ResolutionModel fields are compared with the model. distinct_nontrivial = number of "
             "distinct (type, label, accepted?) step sequences.")

PROPS = {
    "C01": {
        "props": "theories/Props/C01.v",
        "agree": ["theories/Agree/AgreeFuncs.v"],
        "trusted_base": COMMON_TB + [
            "modelled: the per-operation view (parse / signature / delta-hash / delta-validity verdicts, commitments, window, patches) is ground truth from the harness's independent builder, not derived by the model from bytes",
            "composer = Composer.v mirror incl. json-patch 4.1.0 tree mirror (copy node sharing outside the model's domain, counted)",
        ],
        "assumptions": ["histories end at the first accepted deactivate (property text)"],
        "rule": HIST_RULE,
        "clauses": {"0": "resolved state after this step differs from the Sidetree state machine (any of the 15 fields)"},
        "level_text": "apply (code-shaped mirror, every early return and every one of the 15 fields) proved equal to the declarative Sidetree step; the fold over an unbounded history proved equal to the spec fold by induction; corollaries for refusal, first-operation guard, bookkeeping, deactivate. Tie: correspondence on generated histories with every failure class at every position, all fields compared.",
        "technique": "Coq proof (refinement + induction over histories) + differential correspondence",
    },
    "C02": {
        "props": "theories/Props/C02.v",
        "agree": [],
        "trusted_base": COMMON_TB + [
            "cryptographic strength of ECDSA/Ed25519/SHA-2 is outside the model: signature verdicts are labels of the harness builder (which signs and tampers with stdlib crypto directly)",
        ],
        "assumptions": ["tamperings are those of the property's quantifier, generated per family"],
        "rule": HIST_RULE + " Auth focus: signature bit flips, payload re-encoding without re-signing, key substitution with/without re-signing and with/without the matching reveal value, reveal substitution, delta substitution, extra/altered headers, algorithm substitution, truncated segments.",
        "clauses": {"0": "resolved state differs from the state machine", "1": "state changed although the operation is not authorised",
                    "2": "create/recover installed content or update commitment from an unbound delta"},
        "level_text": "Every accepting path of the applier mirror proved to imply all authorisation verdicts (batch parse incl. reveal=hash(key) and header rules, signed-data parse, JWS verification; delta hash and validity for update; signed suffix for deactivate); unbound delta proved to install only the empty document. Tie: correspondence with tampering families; oracle 'state changed and not authorised' evaluated on the implementation.",
        "technique": "Coq proof (case analysis over all paths) + differential correspondence with tampering families",
    },
    "C12": {
        "props": "theories/Props/C12.v",
        "agree": [],
        "trusted_base": COMMON_TB + [
            "Go aliasing is not expressible in the value model: input immutability is decided by deep before/after snapshots and pointer identity in the harness (testing, labelled as such) - partial",
        ],
        "assumptions": [],
        "rule": HIST_RULE + " Each Apply call is bracketed by deep JSON snapshots of (previous model, anchored operation) and a pointer-identity check of the previous document; a non-nil state returned together with an error also counts as a failure.",
        "clauses": {"0": "resolved state differs from the state machine", "7": "an input was mutated, or a state was returned together with an error"},
        "level_text": "Failure atomicity proved on the mirrors (a list failing at the k-th patch yields no document; refusal yields no state; degraded update keeps the previous document). Input immutability is partial: decided by runtime snapshots on generated histories and patch lists, since the value model cannot express Go aliasing.",
        "technique": "Coq proof of atomicity + runtime snapshot comparison (partial)",
    },
    "C03": {
        "props": "theories/Props/C03.v",
        "agree": [],
        "trusted_base": COMMON_TB + [
            "encoding/json struct decoding is modelled (ASCII case-insensitive member match, last duplicate wins, null -> zero value, type mismatch -> error); Unicode case folds (long s, Kelvin sign) and duplicate nested members are outside the model's domain and not generated",
            "SHA-256/512 in Gallina; binding is modulo an explicit hash collision (C06 theorems)",
        ],
        "assumptions": ["'same request' = equal JSON values (member order, whitespace, escapes, number spelling)"],
        "rule": "create requests over all patch kinds, optional anchor origin (string/object/number) and type, algorithm lists [18],[19],[18,19],[19,18]; each canonical + 2 re-spellings (must give the independently computed suffix and DID) + 6 single-field modifications of suffix data / delta (must change the DID or be refused). The model parses the bytes and computes the suffix with Gallina SHA-2.",
        "clauses": {"1": "same request refused or different DID / modification keeps the DID", "2": "suffix or id differs from the model"},
        "level_text": "For every accepted create request: suffix = model multihash of the decoded suffix data under the first configured algorithm, id = namespace:suffix, and outside batch mode the delta validates against the recorded delta hash (proved on the byte-level parser mirror); binding and stability follow from the C06 content-addressing theorems and JCS; checked by correspondence on re-spellings and modifications.",
        "technique": "Coq proof on the byte-level parser mirror + differential correspondence",
    },
    "C07": {
        "props": "theories/Props/C07.v",
        "agree": ["theories/Agree/AgreeFuncs.v", "theories/Agree/AgreeTables.v"],
        "trusted_base": COMMON_TB + [
            "encoding/json struct decoding, encoding/base64, go-multihash are modelled (see C03/C06); patch validation relative to the net/url oracle",
            "acceptance ground truth (one labelled mutation per rule) comes from the harness's independent request builder",
        ],
        "assumptions": [],
        "rule": "per operation type: valid requests for all five key types with optional members; then one labelled mutation per rule with the configuration varied independently: size limit exact (len, len-1), type member, each hash field x {unconfigured algorithm, second configured algorithm, hash length limit exact}, delta {missing, no patches, size limit exact, patch disabled, only-this-patch enabled, invalid patch first / after a valid one of the same action / last of three, unknown action}, headers {kid, extra, alg missing/empty/non-string/none}, algorithm and curve allow-lists, nonce sizes, reveal of another key, next commitments {equal, current key, current key under the other algorithm}, signed suffix, anchor origin reported / rejected, time validator arguments / rejection, algorithm list orders, malformed JSON, wrong member types.",
        "clauses": {"1": "acceptance differs from the protocol rules (generator ground truth)", "2": "returned bytes differ from the request", "3": "id is not namespace:suffix",
                    "4": "suffix wrong", "5": "anchor origin not reported", "6": "reported fields differ from model", "7": "time validator arguments", "8": "model refuses, implementation accepts", "9": "model accepts, implementation refuses"},
        "level_text": "Byte-level parser mirror (strict JSON, Go decoding rules, JWS compact form, multihash rules, delta rules, commitments, validators) run against the implementation on one labelled mutation per rule with independently varied configurations; proved: size gate, reported id, time-validator window, deactivate suffix binding, create suffix. The full accepts-iff-Rules equivalence is by correspondence (partial).",
        "technique": "Coq mirror with proved rule lemmas + translator agreement + differential correspondence (one mutation per rule)",
    },
    "C04": {
        "props": "theories/Props/C04.v",
        "agree": [],
        "trusted_base": COMMON_TB + [
            "SHA-256/512 in Gallina (Base/Sha2.v, checked against vectors and against the implementation on every case) - theorems are generic in the hash functions and use only their output lengths (proved for the instance)",
            "jws.JWK JSON image (kty, crv, x, y always present; n, e, nonce omitted when empty) is modelled by the harness (jwkImage) and checked by correspondence",
        ],
        "assumptions": ["binding is stated modulo an explicit hash collision"],
        "rule": "keys of the five types x optional nonce x codes {18,19,17,0}: reveal, commitment, commitment-from-reveal compared with the model (real SHA-2 in Gallina), plus a key differing in one member; chains create->(update|recover)*->deactivate built by the independent builder under algorithm lists [18],[19],[18,19],[19,18]: reveal/commitment reported by the real parser must link.",
        "clauses": {"1": "reveal value differs from multihash(JCS(jwk)) / parser reported no reveal", "2": "commitment differs from multihash(H(H(JCS(jwk)))) / reveal does not map to predecessor commitment",
                    "3": "commitment-from-reveal differs / deactivate reports a next commitment", "4": "commitment(reveal(k)) != commitment(k) / missing next commitment",
                    "5": "commitment of modified key wrong", "6": "keys differing in one member share a commitment"},
        "level_text": "commitment_from_reveal(reveal(k,c)) = commitment(k,c) proved for both algorithms from base64url and multihash round-trip lemmas; binding proved modulo explicit collisions; chain linkage checked by correspondence on generated chains with the values the real parser reports.",
        "technique": "Coq proof (round-trip algebra) + differential correspondence with Gallina SHA-2",
    },
    "C06": {
        "props": "theories/Props/C06.v",
        "agree": [],
        "trusted_base": COMMON_TB + [
            "SHA-256/512 in Gallina; go-multihash 0.0.14 Decode/Encode and encoding/base64 RawURLEncoding (lenient decoder: CR/LF skipped, spare trailing bits ignored) are mirrored, not verified",
            "value equality is equality of canonical forms (JCS); JCS injectivity on values is C05's subject",
        ],
        "assumptions": ["content addressing stated modulo an explicit hash collision"],
        "rule": "random JSON objects/arrays given as raw bytes; codes {18,19,17,0x16,0,20,2^20}; per value: same text, 2 re-spellings, 2 single-point modifications, the other algorithm's hash, and 14-15 malformed encodings (bad alphabet, padding, truncated digest, extra byte, length field +-1, CR/LF, spare trailing bits, non-minimal varint...). Ground truth 'valid iff equal value and own algorithm' is attached by the generator.",
        "clauses": {"1": "IsValidModelMultihash verdict differs from ground truth", "2": "verdict differs from model", "3": "GetMultihashCode differs",
                    "4": "IsComputedUsingMultihashAlgorithms differs", "5": "CalculateModelMultihash differs from base64url(multihash(code,H(JCS(v))))", "6": "CalculateID differs"},
        "level_text": "Definition, supported codes, code agreement, 'valid iff hash of this value under the hash's own algorithm' and content addressing (modulo explicit collision) proved generically in the hash functions; base64url and multihash round trips proved; decoder leniency modelled and shown harmless because validation compares encoded strings. Correspondence with real SHA-2 computed in Gallina.",
        "technique": "Coq proof + differential correspondence with Gallina SHA-2",
    },
    "C10": {
        "props": "theories/Props/C10.v",
        "agree": ["theories/Agree/AgreeTables.v"],
        "trusted_base": COMMON_TB + [
            "json-patch v4.1.0 is mirrored from its source (tree model; exact since applyJSON applies operations one at a time) and compared with an independent RFC 6902 executable spec; deviations of the library are listed findings, identified by operation kind",
            "Go map semantics: documents are association lists compared modulo member order",
        ],
        "assumptions": ["patches are validated (generator keeps only patches the real validator accepts)"],
        "rule": "starting documents with 0-3 keys/services/aka and further members; 1-4 validated patches over all eight actions with ids that collide with, overlap or miss existing entries, later patches aimed at the implementation's own intermediate result; every 10th case is a labelled RFC 6902 deviation probe. Result compared with the documented semantics (RFC 6902 for ietf-json-patch) and, where that differs, with the library mirror.",
        "clauses": {"1": "result differs from the documented per-action semantics", "2": "unique ids in, duplicate ids out"},
        "level_text": "Fold structure, per-action id semantics (insert-or-replace keeping order, delete ignoring unknown ids, ordered set union/difference, replace installs exactly) and preservation of id uniqueness over any list of validated patches proved (the latter using the C11 frame theorem). RFC 6902 conformance of the third-party library is refuted with witnesses (known findings); the composer's own semantics is checked by correspondence against the RFC spec.",
        "technique": "Coq proof (induction over patch lists) + refutation witnesses + differential correspondence against an RFC 6902 spec",
    },
    "C11": {
        "props": "theories/Props/C11.v",
        "agree": [],
        "trusted_base": COMMON_TB + [
            "json-patch v4.1.0 mirrored as a tree model (its findObject ignores the text before the first '/', Atoi index forms, nil handling, panics) - pinned by go.sum",
        ],
        "assumptions": [],
        "rule": "a document with keys, services, decoy members and arrays x six operation kinds x 31 pointer spellings (protected members, elements, sub-members, '-' index, prefix-sharing siblings, ~0/~1 escapes, unrooted, empty, root, case variants) as path and as from, plus copy/move out of a protected member followed by an edit of the copy. Oracle on the implementation: validated and applied => publicKey and service unchanged.",
        "clauses": {"1": "a validated ietf-json-patch changed publicKey or service", "2": "validation verdict differs from the model", "4": "applied result differs from the model"},
        "level_text": "Frame theorem proved for all documents, operation lists and pointer spellings on the mirror of the pinned library: validated => publicKey and service members unchanged (RFC 6901 unescaping cannot produce a protected name; every operation touches the root only at its first token).",
        "technique": "Coq proof (frame theorem) + differential correspondence",
    },
    "C14": {
        "props": "theories/Props/C14.v",
        "agree": ["theories/Agree/AgreeTables.v"],
        "trusted_base": COMMON_TB + [
            "encoding/json Marshal/Unmarshal of patches and documents (byte round trip) is exercised, not modelled",
        ],
        "assumptions": ["class: no id, non-empty key/service/aka lists, ordinary member names"],
        "rule": "documents of the class (and outside it: id, empty lists, null lists) -> PatchesFromDocument -> every patch validated, serialised and parsed back (action/value accessors compared) -> applied to the empty document -> compared with the input; bytes lacking action/value; the eight constructors on valid input incl. 50-character ids.",
        "clauses": {"1": "class document refused", "3": "document with id accepted", "4": "round trip does not reproduce the document", "5": "constructed patch fails validation",
                    "6": "patch bytes do not round-trip", "7": "patches differ from the model", "8": "FromBytes verdict", "10": "constructor output fails validation"},
        "level_text": "Refusal of documents with an id, rejection of bytes lacking action/value and accessor agreement proved; the document->patches->document round trip is proved for a concrete class document and checked by correspondence on generated documents (general theorem: partial).",
        "technique": "Coq proof (partial) + differential correspondence",
    },
    "C13": {
        "props": "theories/Props/C13.v",
        "agree": ["theories/Agree/AgreeTables.v"],
        "trusted_base": COMMON_TB + [
            "net/url (ParseRequestURI, Parse + String) is an oracle: verdicts computed by the harness with the standard library directly and passed per case",
            "Go regexp semantics of ^[A-Za-z0-9_-]+$ (no multiline): modelled as the character-class predicate; the regexp source string itself is regenerated and compared",
        ],
        "assumptions": [],
        "rule": "one valid patch per action plus one labelled mutation per constraint (id lengths 0/1/50/51 and bad characters, missing/duplicate/unknown members, every forbidden and a sample of allowed key type x purpose pairs, malformed JWK for every key type, base58 rules, service type 30/31, endpoint string / list / mixed list with a bad entry at every position, URI duplicates by normal form, replace members, ietf pointers over protected members, siblings, unrooted and null paths); ground truth attached by the generator. Plus original documents with id / context.",
        "clauses": {"1": "verdict differs from the documented constraints (generator ground truth)", "2": "verdict differs from the model", "3": "docvalidator original-document verdict",
                    "4": "didvalidator original-document verdict", "5": "PatchesFromDocument id rule"},
        "level_text": "Sequential validator mirror proved equal to the declarative constraints (ids 1-50 of the character class, per-key constraints, uniqueness as NoDup, services, every endpoint list entry); key type x purpose matrix proved exhaustively by computation; tables and limits regenerated from source and proved equal to the model's. Relative to the net/url oracle.",
        "technique": "Coq proof (mirror = spec, exhaustive finite matrix) + translator table agreement + differential correspondence",
    },
    "C05": {
        "props": "theories/Props/C05.v",
        "agree": [],
        "trusted_base": COMMON_TB + [
            "float64 -> shortest decimal digits is Go's strconv (oracle: digits supplied by the harness from strconv directly); the model owns only the ES6 layout. JSON literals with <= 15 significant digits need no oracle",
            "inputs are valid I-JSON (no lone surrogates); invalid input is only required to be refused",
        ],
        "assumptions": ["numbers outside the exact class are compared through the strconv digit oracle (C05 residue, DESIGN section 4)"],
        "rule": "random JSON trees (nasty strings: all escape classes, astral and U+E000-FFFF member names, prefix-related names), each spelled 3 ways (member order, whitespace, escape style incl. surrogate-pair escapes, number spelling) plus malformed variants; number stream of boundary and random doubles. distinct_nontrivial = distinct first spellings / doubles.",
        "clauses": {"1": "insignificant whitespace in output", "2": "output is not JSON", "3": "members not sorted by UTF-16 code units",
                    "4": "output denotes a different value", "5": "spellings of one value give different outputs", "6": "output differs from the model's canonical form",
                    "7": "output is not a fixed point", "8": "number not in ES6 shortest form", "9": "finite double refused"},
        "level_text": "Canonical printer and strict parser in Gallina; theorems: output has sorted unique members, printing is invariant under member permutation, fixed point and value preservation on the printed form (see Props/C05.v for which parts are proved and which are _partial). Correspondence: spellings of generated values and a double stream against MarshalCanonical.",
        "technique": "Coq proof + differential correspondence (strconv digits as oracle for numbers)",
    },
    "C08": {
        "props": "theories/Props/C08.v",
        "agree": [],
        "trusted_base": COMMON_TB + [
            "the builders, the Sidetree client, the library signers and pubkey.GetPublicKeyJWK are exercised, not modelled; the requested document is computed independently by the harness (remove-before-add bookkeeping)",
            "signature verdict: the library signer's output is verified by the real applier; the model takes sig_ok = true for built requests (labelled)",
        ],
        "assumptions": ["valid inputs: keys carry purposes, documents are non-empty, anchoring times below 2^53"],
        "rule": "lifecycles create -> update* -> recover -> update* -> (deactivate) for all five operation-key types, both hash algorithms, alternately through sidetree.Client (request capture function) and the four builders (incl. anchor origin objects, anchoring windows, in-place key rotation = remove + add of one id); every request parsed (non-batch), converted to anchored form (bytes = canonical request, same suffix/type/origin, same applied state) and applied; byte-level model run on the same bytes; final document / commitments / flags compared with the independently computed request. Plus 12 builder refusal probes.",
        "clauses": {"1": "builder refused valid input", "2": "built request refused by the matching parser", "3": "anchored form does not preserve the request",
                    "4": "final document is not the requested one", "5": "update commitment", "6": "recovery commitment", "7": "deactivated flag", "8": "anchor origin"},
        "level_text": "Lemmas that make builder output acceptable (reveal computed from a key validates against it; a computed delta hash validates) proved on the parser mirror with the real SHA-2; acceptance and 'yields the requested document' for the builders and the Sidetree client checked by correspondence on generated lifecycles incl. anchored form; three builder refusal gaps are listed findings. Partial: the builders themselves are not modelled.",
        "technique": "Coq lemmas on the parser/applier mirrors + differential correspondence on lifecycles (partial)",
    },
    "C09": {
        "props": "theories/Props/C09.v",
        "agree": ["theories/Agree/AgreeFuncs.v"],
        "trusted_base": COMMON_TB + [
            "modelled: encoding/json decoding of anchorFrom/anchorUntil into int64; view labels (signature, hash verdicts) come from the harness builder",
        ],
        "assumptions": ["anchoring time < 2^63 and from+delta representable (the wrap region is covered by C09_wrapped_time_refuses)"],
        "rule": HIST_RULE + " Window focus: early / late / t=from / t=until / t=from+delta / t=from+delta+1 / until-only, per operation type; every numeric protocol field distinct.",
        "level_text": "Window arithmetic proved equivalent to the declarative window for all (from, until, t, delta) in the no-wrap domain, with the wrap region characterised; effects on update/recover/deactivate proved on the applier mirror; getAnchorUntil/verifyAnchoringTimeRange regenerated from source and proved equal to the mirror; correspondence on generated histories.",
        "technique": "Coq proof (lia) + translator agreement lemmas + differential correspondence",
        "clauses": {"0": "resolved state differs from the state machine", "3": "time validator did not receive (from, until')",
                    "4": "out-of-window deactivate accepted", "5": "out-of-window update changed the document",
                    "6": "out-of-window recover left a non-empty document"},
    },
}
