"""Per-property metadata used by ./check (Coq files holding the obligations, trusted base, rule)."""

COMMON_TB = [
    "Coq 8.16.1 kernel (coqc, full .vo build); vm_compute used to evaluate the model on harness cases; no native_compute",
    "translator /verif/vtrans (go/parser, syntactic extraction only) regenerates coq/Gen/*.v from /repo on every run",
    "Go harness /verif/harness (independent operation builder, observation printer) and the Gallina judges in coq/theories/Harness",
]

HIST_RULE = ("histories of 2..N anchored operations built by the harness's independent builder (own JCS, JWK, JWS, stdlib crypto), "
             "one labelled mutation per operation drawn from the failure classes of the property; every step is applied through the real "
             "parser/composer/applier and all 15 ResolutionModel fields are compared with the model. distinct_nontrivial = number of "
             "distinct (type, label, accepted?) step sequences.")

PROPS = {
    "C01": {
        "props": "theories/Props/C01.v",
        "agree": ["theories/Agree/AgreeFuncs.v"],
        "trusted_base": COMMON_TB + [
            "modelled: the per-operation view (parse / signature / delta-hash / delta-validity verdicts, commitments, window, patches) is ground truth from the harness's independent builder, not derived by the model from bytes",
            "composer = Composer.v mirror incl. json-patch 4.1.0 tree mirror (copy node sharing outside the model's domain, counted)",
        ],
        "assumptions": ["histories end at the first accepted deactivate (property text)"],
        "rule": HIST_RULE,
        "clauses": {"0": "resolved state after this step differs from the Sidetree state machine (any of the 15 fields)"},
        "level_text": "apply (code-shaped mirror, every early return and every one of the 15 fields) proved equal to the declarative Sidetree step; the fold over an unbounded history proved equal to the spec fold by induction; corollaries for refusal, first-operation guard, bookkeeping, deactivate. Tie: correspondence on generated histories with every failure class at every position, all fields compared.",
        "technique": "Coq proof (refinement + induction over histories) + differential correspondence",
    },
    "C02": {
        "props": "theories/Props/C02.v",
        "agree": [],
        "trusted_base": COMMON_TB + [
            "cryptographic strength of ECDSA/Ed25519/SHA-2 is outside the model: signature verdicts are labels of the harness builder (which signs and tampers with stdlib crypto directly)",
        ],
        "assumptions": ["tamperings are those of the property's quantifier, generated per family"],
        "rule": HIST_RULE + " Auth focus: signature bit flips, payload re-encoding without re-signing, key substitution with/without re-signing and with/without the matching reveal value, reveal substitution, delta substitution, extra/altered headers, algorithm substitution, truncated segments.",
        "clauses": {"0": "resolved state differs from the state machine", "1": "state changed although the operation is not authorised",
                    "2": "create/recover installed content or update commitment from an unbound delta"},
        "level_text": "Every accepting path of the applier mirror proved to imply all authorisation verdicts (batch parse incl. reveal=hash(key) and header rules, signed-data parse, JWS verification; delta hash and validity for update; signed suffix for deactivate); unbound delta proved to install only the empty document. Tie: correspondence with tampering families; oracle 'state changed and not authorised' evaluated on the implementation.",
        "technique": "Coq proof (case analysis over all paths) + differential correspondence with tampering families",
    },
    "C12": {
        "props": "theories/Props/C12.v",
        "agree": [],
        "trusted_base": COMMON_TB + [
            "Go aliasing is not expressible in the value model: input immutability is decided by deep before/after snapshots and pointer identity in the harness (testing, labelled as such) - partial",
        ],
        "assumptions": [],
        "rule": HIST_RULE + " Each Apply call is bracketed by deep JSON snapshots of (previous model, anchored operation) and a pointer-identity check of the previous document; a non-nil state returned together with an error also counts as a failure.",
        "clauses": {"0": "resolved state differs from the state machine", "7": "an input was mutated, or a state was returned together with an error"},
        "level_text": "Failure atomicity proved on the mirrors (a list failing at the k-th patch yields no document; refusal yields no state; degraded update keeps the previous document). Input immutability is partial: decided by runtime snapshots on generated histories and patch lists, since the value model cannot express Go aliasing.",
        "technique": "Coq proof of atomicity + runtime snapshot comparison (partial)",
    },
    "C05": {
        "props": "theories/Props/C05.v",
        "agree": [],
        "trusted_base": COMMON_TB + [
            "float64 -> shortest decimal digits is Go's strconv (oracle: digits supplied by the harness from strconv directly); the model owns only the ES6 layout. JSON literals with <= 15 significant digits need no oracle",
            "inputs are valid I-JSON (no lone surrogates); invalid input is only required to be refused",
        ],
        "assumptions": ["numbers outside the exact class are compared through the strconv digit oracle (C05 residue, DESIGN section 4)"],
        "rule": "random JSON trees (nasty strings: all escape classes, astral and U+E000-FFFF member names, prefix-related names), each spelled 3 ways (member order, whitespace, escape style incl. surrogate-pair escapes, number spelling) plus malformed variants; number stream of boundary and random doubles. distinct_nontrivial = distinct first spellings / doubles.",
        "clauses": {"1": "insignificant whitespace in output", "2": "output is not JSON", "3": "members not sorted by UTF-16 code units",
                    "4": "output denotes a different value", "5": "spellings of one value give different outputs", "6": "output differs from the model's canonical form",
                    "7": "output is not a fixed point", "8": "number not in ES6 shortest form", "9": "finite double refused"},
        "level_text": "Canonical printer and strict parser in Gallina; theorems: output has sorted unique members, printing is invariant under member permutation, fixed point and value preservation on the printed form (see Props/C05.v for which parts are proved and which are _partial). Correspondence: spellings of generated values and a double stream against MarshalCanonical.",
        "technique": "Coq proof + differential correspondence (strconv digits as oracle for numbers)",
    },
    "C09": {
        "props": "theories/Props/C09.v",
        "agree": ["theories/Agree/AgreeFuncs.v"],
        "trusted_base": COMMON_TB + [
            "modelled: encoding/json decoding of anchorFrom/anchorUntil into int64; view labels (signature, hash verdicts) come from the harness builder",
        ],
        "assumptions": ["anchoring time < 2^63 and from+delta representable (the wrap region is covered by C09_wrapped_time_refuses)"],
        "rule": HIST_RULE + " Window focus: early / late / t=from / t=until / t=from+delta / t=from+delta+1 / until-only, per operation type; every numeric protocol field distinct.",
        "level_text": "Window arithmetic proved equivalent to the declarative window for all (from, until, t, delta) in the no-wrap domain, with the wrap region characterised; effects on update/recover/deactivate proved on the applier mirror; getAnchorUntil/verifyAnchoringTimeRange regenerated from source and proved equal to the mirror; correspondence on generated histories.",
        "technique": "Coq proof (lia) + translator agreement lemmas + differential correspondence",
        "clauses": {"0": "resolved state differs from the state machine", "3": "time validator did not receive (from, until')",
                    "4": "out-of-window deactivate accepted", "5": "out-of-window update changed the document",
                    "6": "out-of-window recover left a non-empty document"},
    },
}
