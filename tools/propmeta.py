"""Per-property metadata used by ./check (Coq files holding the obligations, trusted base, rule)."""

COMMON_TB = [
    "Coq 8.16.1 kernel (coqc, full .vo build); vm_compute used to evaluate the model on harness cases; no native_compute",
    "translator /verif/vtrans (go/parser, syntactic extraction only) regenerates coq/Gen/*.v from /repo on every run",
    "Go harness /verif/harness (independent operation builder, observation printer) and the Gallina judges in coq/theories/Harness",
]

HIST_RULE = ("histories of 2..N anchored operations built by the harness's independent builder (own JCS, JWK, JWS, stdlib crypto), "
             "one labelled mutation per operation drawn from the failure classes of the property; every step is applied through the real "
             "parser/composer/applier and all 15 ResolutionModel fields are compared with the model. distinct_nontrivial = number of "
             "distinct (type, label, accepted?) step sequences.")

PROPS = {
    "C09": {
        "props": "theories/Props/C09.v",
        "agree": ["theories/Agree/AgreeFuncs.v"],
        "trusted_base": COMMON_TB + [
            "modelled: encoding/json decoding of anchorFrom/anchorUntil into int64; view labels (signature, hash verdicts) come from the harness builder",
        ],
        "assumptions": ["anchoring time < 2^63 and from+delta representable (the wrap region is covered by C09_wrapped_time_refuses)"],
        "rule": HIST_RULE + " Window focus: early / late / t=from / t=until / t=from+delta / t=from+delta+1 / until-only, per operation type; every numeric protocol field distinct.",
        "clauses": {"0": "resolved state differs from the state machine", "3": "time validator did not receive (from, until')",
                    "4": "out-of-window deactivate accepted", "5": "out-of-window update changed the document",
                    "6": "out-of-window recover left a non-empty document"},
    },
}
