#!/bin/bash
# development helper: quick tier of every check under several seeds on the current tree
cd /verif
for s in "$@"; do
  for i in $(seq -w 1 20); do
    ./check C$i --tier quick --seed $s 2>&1 | grep -E "^(C[0-9]+ (ok|FAIL)|VIOLATION|broken)" | sed "s/^/seed=$s /"
  done
done
