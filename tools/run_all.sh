#!/bin/bash
# development helper: run every check once (tier from $1, default quick) and print the summary lines
cd /verif
tier=${1:-quick}
for i in $(seq -w 1 20); do
  /usr/bin/time -f "C$i %es" ./check C$i --tier $tier 2>&1 | grep -E "^(C[0-9]+ |VIOLATION|KNOWN-FINDING|broken|C[0-9]+ [0-9.]+s)" 
done
