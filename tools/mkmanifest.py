#!/usr/bin/env python3
"""Regenerates /verif/MANIFEST.json from tools/propmeta.py and properties.jsonl."""
import json, os, sys
ROOT = os.path.dirname(os.path.dirname(os.path.abspath(__file__)))
sys.path.insert(0, os.path.join(ROOT, "tools"))
from propmeta import PROPS
ids = [json.loads(l)["id"] for l in open(os.path.join(ROOT, "properties.jsonl"))]
checks = []
for pid in ids:
    if pid not in PROPS:
        continue
    m = PROPS[pid]
    checks.append({
        "property_id": pid,
        "quick_cmd": "./check %s --tier quick" % pid,
        "thorough_cmd": "./check %s --tier thorough" % pid,
        "evidence_file": "evidence/%s.json" % pid,
        "replay_cmd_template": "./check %s --replay {path}" % pid,
        "engine": "coq-model",
        "level_claimed": {"category": "proof", "text": m["level_text"], "design_ref": "DESIGN.md section 4 " + pid},
        "level_note": "Trusted: " + "; ".join(m.get("trusted_base", [])[3:] or ["see evidence trusted_base"]),
        "technique": m["technique"],
    })
na = [{"property_id": pid, "reason": "model and check not built yet in this session (work in progress, planned - see DESIGN.md section 8)"} for pid in ids if pid not in PROPS]
claimed = [c["property_id"] for c in checks]
man = {
    "version": 1,
    "setup_cmd": "cd /verif && ./setup.sh",
    "hooks": {
        "guard": "verif",
        "enable": "go build -tags verif (the harness module replaces github.com/trustbloc/sidetree-go with /repo); no hook file exists in /repo: every observation goes through exported API",
        "baseline_off_cmd": "cd /repo && GOFLAGS=-mod=mod GOPROXY=off GOSUMDB=off GOTOOLCHAIN=local go test -json -vet=off -count=1 -timeout 25m ./...",
        "source_commits": [],
        "add_only": True,
    },
    "engines": [
        {"name": "coq-model", "path": "coq", "serves_properties": claimed, "kind_free_text": "Gallina mirrors + specs + theorems (Coq 8.16.1), agreement lemmas against definitions regenerated from /repo by vtrans"},
        {"name": "vtrans", "path": "vtrans", "serves_properties": claimed, "kind_free_text": "Go->Gallina translator (pure functions, tables, structure)"},
        {"name": "vharness", "path": "harness", "serves_properties": claimed, "kind_free_text": "correspondence check: implementation vs model on generated cases, evaluated by coqc vm_compute"},
    ],
    "checks": checks,
    "not_applicable": na,
    "notes": "All checks share /verif/build (flock). Known findings: /verif/known_findings.json.",
}
json.dump(man, open(os.path.join(ROOT, "MANIFEST.json"), "w"), indent=1)
print("claimed:", claimed)
