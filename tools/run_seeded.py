#!/usr/bin/env python3
"""Development-time self-test: apply every seeded change to /repo, run the quick check of its
property, undo the change, and record what the check reported in seeded/<name>/meta.json."""
import json, os, re, subprocess, sys, glob
ROOT = "/verif"
only = sys.argv[1:]
rows = []
for d in sorted(glob.glob(os.path.join(ROOT, "seeded", "*"))):
    name = os.path.basename(d)
    if not os.path.isdir(d) or (only and name not in only):
        continue
    meta_p = os.path.join(d, "meta.json")
    meta = json.load(open(meta_p))
    pid = meta["property"]
    rev = ["-R"] if meta.get("reverse") else []
    ap = subprocess.run(["git", "-C", "/repo", "apply"] + rev + [os.path.join(d, "patch.diff")], capture_output=True, text=True)
    if ap.returncode != 0:
        rows.append((name, pid, "PATCH DOES NOT APPLY", ""))
        continue
    try:
        extra = meta.get("also_check", [])
        res = {}
        for p in [pid] + extra:
            r = subprocess.run([os.path.join(ROOT, "check"), p, "--tier", "quick"], cwd=ROOT, capture_output=True, text=True)
            lines = [l for l in r.stdout.splitlines() if l.startswith("VIOLATION") or l.startswith("broken proof")]
            kind = "not detected"
            if r.returncode != 0:
                kind = "VIOLATION with failing input" if any("no-failing-input-found" not in l for l in lines if l.startswith("VIOLATION")) else "VIOLATION no-failing-input-found"
            if any(l.startswith("broken proof") for l in lines):
                kind += " + broken proof obligation"
            res[p] = kind
    finally:
        subprocess.run(["git", "-C", "/repo", "checkout", "--", "."], check=True)
        subprocess.run(["git", "-C", "/repo", "clean", "-fdq", "pkg"], check=True)
    meta["detected_by"] = res
    json.dump(meta, open(meta_p, "w"), indent=1)
    rows.append((name, pid, "; ".join("%s: %s" % kv for kv in res.items()), ""))
    print(name, res, flush=True)
mp = os.path.join(ROOT, "seeded", "MATRIX.json")
old = {}
if only and os.path.exists(mp):
    old = {r[0]: r for r in json.load(open(mp))}
for r in rows:
    old[r[0]] = list(r)
json.dump([old[k] for k in sorted(old)], open(mp, "w"), indent=1)
