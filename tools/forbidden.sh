#!/bin/bash
# No axioms, admits or disabled kernel checks anywhere in the development.
cd "$(dirname "$0")/../coq" || exit 2
if grep -rnE '\b(Admitted|admit|Axiom|Axioms|Parameter|Parameters|Conjecture|Conjectures)\b|Admit Obligations|Unset Guard Checking|Unset Positivity Checking|Unset Universe Checking|bypass_check|type-in-type|impredicative-set' \
     --include='*.v' theories Gen 2>/dev/null | grep -v '^\S*:[0-9]*:\s*(\*' ; then
  exit 1
fi
# Variable / Hypothesis only inside sections: every file using them must open a Section first
for f in $(grep -rlE '^\s*(Variable|Variables|Hypothesis|Hypotheses|Context)\b' --include='*.v' theories Gen 2>/dev/null); do
  awk '/^\s*Section /{d++} /^\s*End /{d--} /^\s*(Variable|Variables|Hypothesis|Hypotheses|Context)\>/{ if (d<=0) { print FILENAME": "$0; bad=1 } } END{ exit bad }' "$f" || exit 1
done
exit 0
