(* C20: interleaving semantics of lock-protected registries (nsprovider.Provider,
   clientregistry.Registry).  Threads run sequences of instructions (the lock programs of the
   methods, regenerated from the source by the translator).  Lock instructions block according
   to sync.RWMutex; map instructions are UNCONDITIONAL - the semantics does not enforce the
   discipline, so a program that forgets a lock can reach a racy state.  For well-locked
   programs no reachable state is racy, for any number of threads and any schedule. *)
From Coq Require Import List Arith Bool Lia.
Import ListNotations.

Inductive instr := Lock | Unlock | RLock | RUnlock | MapRead | MapWrite.

Definition is_map_op (i : instr) : bool := match i with MapRead | MapWrite => true | _ => false end.
Definition is_read (i : instr) : bool := match i with MapRead => true | _ => false end.

(* one method body *)
Definition well_locked (p : list instr) : bool :=
  match p with
  | Lock :: rest =>
      match rev rest with
      | Unlock :: body => forallb is_map_op body
      | _ => false
      end
  | RLock :: rest =>
      match rev rest with
      | RUnlock :: body => forallb is_read body
      | _ => false
      end
  | _ => false
  end.

(* remaining instructions of a thread, with the lock it holds (ghost, updated by lock steps) *)
Inductive mode := Idle | Writing | Reading.

Record thread := { th_mode : mode; th_prog : list instr }.

Record state := { writer : option nat; readers : list nat; threads : list thread }.

(* shapes of the remaining program *)
Inductive idle_shape : list instr -> Prop :=
| is_nil : idle_shape []
| is_w body rest : forallb is_map_op body = true -> idle_shape rest -> idle_shape (Lock :: body ++ Unlock :: rest)
| is_r body rest : forallb is_read body = true -> idle_shape rest -> idle_shape (RLock :: body ++ RUnlock :: rest).

Definition writing_shape (l : list instr) : Prop :=
  exists body rest, l = body ++ Unlock :: rest /\ forallb is_map_op body = true /\ idle_shape rest.
Definition reading_shape (l : list instr) : Prop :=
  exists body rest, l = body ++ RUnlock :: rest /\ forallb is_read body = true /\ idle_shape rest.

Definition shape_ok (t : thread) : Prop :=
  match th_mode t with
  | Idle => idle_shape (th_prog t)
  | Writing => writing_shape (th_prog t)
  | Reading => reading_shape (th_prog t)
  end.

Fixpoint set_nth {A} (n : nat) (x : A) (l : list A) : list A :=
  match n, l with
  | O, _ :: r => x :: r
  | S k, y :: r => y :: set_nth k x r
  | _, [] => []
  end.

Fixpoint remove_one (x : nat) (l : list nat) : list nat :=
  match l with
  | [] => []
  | y :: r => if Nat.eqb x y then r else y :: remove_one x r
  end.

(* thread i performs its next instruction *)
Inductive step : state -> nat -> state -> Prop :=
| st_lock s i t rest : nth_error (threads s) i = Some t -> th_prog t = Lock :: rest ->
    writer s = None -> readers s = [] ->
    step s i {| writer := Some i; readers := []; threads := set_nth i {| th_mode := Writing; th_prog := rest |} (threads s) |}
| st_unlock s i t rest : nth_error (threads s) i = Some t -> th_prog t = Unlock :: rest ->
    writer s = Some i ->
    step s i {| writer := None; readers := readers s; threads := set_nth i {| th_mode := Idle; th_prog := rest |} (threads s) |}
| st_rlock s i t rest : nth_error (threads s) i = Some t -> th_prog t = RLock :: rest ->
    writer s = None ->
    step s i {| writer := None; readers := i :: readers s; threads := set_nth i {| th_mode := Reading; th_prog := rest |} (threads s) |}
| st_runlock s i t rest : nth_error (threads s) i = Some t -> th_prog t = RUnlock :: rest ->
    In i (readers s) ->
    step s i {| writer := writer s; readers := remove_one i (readers s); threads := set_nth i {| th_mode := Idle; th_prog := rest |} (threads s) |}
| st_map s i t op rest : nth_error (threads s) i = Some t -> th_prog t = op :: rest -> is_map_op op = true ->
    step s i {| writer := writer s; readers := readers s; threads := set_nth i {| th_mode := th_mode t; th_prog := rest |} (threads s) |}.

Inductive reachable (s0 : state) : state -> Prop :=
| r_init : reachable s0 s0
| r_step s i s' : reachable s0 s -> step s i s' -> reachable s0 s'.

(* a data race: two distinct threads about to access the map, at least one writing *)
Definition racy (s : state) : Prop :=
  exists i j ti tj ri rj oj, i <> j /\
    nth_error (threads s) i = Some ti /\ nth_error (threads s) j = Some tj /\
    th_prog ti = MapWrite :: ri /\ th_prog tj = oj :: rj /\ is_map_op oj = true.

(* invariant *)
Definition inv (s : state) : Prop :=
  (forall i t, nth_error (threads s) i = Some t -> shape_ok t) /\
  (forall i t, nth_error (threads s) i = Some t -> th_mode t = Writing -> writer s = Some i) /\
  (forall i t, nth_error (threads s) i = Some t -> th_mode t = Reading -> In i (readers s)) /\
  (forall i, writer s = Some i -> readers s = [] /\ exists t, nth_error (threads s) i = Some t /\ th_mode t = Writing) /\
  (forall i, In i (readers s) -> writer s = None /\ exists t, nth_error (threads s) i = Some t /\ th_mode t = Reading) /\
  NoDup (readers s).

Lemma nth_error_set_nth_same {A} (l : list A) i x t : nth_error l i = Some t -> nth_error (set_nth i x l) i = Some x.
Proof. revert i. induction l as [|y r IH]; intros [|i] H; cbn in *; try discriminate; auto. Qed.

Lemma nth_error_set_nth_other {A} (l : list A) i j x : i <> j -> nth_error (set_nth i x l) j = nth_error l j.
Proof.
  revert i j. induction l as [|y r IH]; intros i j N; destruct i, j; cbn; try reflexivity; try congruence.
  apply IH. congruence.
Qed.

Lemma nth_error_set_nth {A} (l : list A) i j x t t' :
  nth_error l i = Some t -> nth_error (set_nth i x l) j = Some t' -> (j = i /\ t' = x) \/ (j <> i /\ nth_error l j = Some t').
Proof.
  intros Hi Hj. destruct (Nat.eq_dec j i) as [->|N].
  - rewrite (nth_error_set_nth_same _ _ _ _ Hi) in Hj. injection Hj as <-. auto.
  - rewrite nth_error_set_nth_other in Hj by congruence. auto.
Qed.

Lemma idle_shape_head l : idle_shape l -> l = [] \/ (exists r, l = Lock :: r) \/ (exists r, l = RLock :: r).
Proof. destruct 1; eauto. Qed.

Lemma writing_shape_head l : writing_shape l ->
  (exists r, l = Unlock :: r /\ idle_shape r) \/ (exists op r, l = op :: r /\ is_map_op op = true /\ writing_shape r).
Proof.
  intros (body & rest & -> & Hb & Hr). destruct body as [|op body]; cbn.
  - left. eauto.
  - right. cbn in Hb. apply andb_prop in Hb. destruct Hb as [Ho Hb]. exists op, (body ++ Unlock :: rest).
    repeat split; auto. exists body, rest. auto.
Qed.

Lemma reading_shape_head l : reading_shape l ->
  (exists r, l = RUnlock :: r /\ idle_shape r) \/ (exists r, l = MapRead :: r /\ reading_shape r).
Proof.
  intros (body & rest & -> & Hb & Hr). destruct body as [|op body]; cbn.
  - left. eauto.
  - right. cbn in Hb. apply andb_prop in Hb. destruct Hb as [Ho Hb]. destruct op; try discriminate.
    exists (body ++ RUnlock :: rest). split; [reflexivity|]. exists body, rest. auto.
Qed.

Lemma remove_one_in x y l : In y (remove_one x l) -> In y l.
Proof.
  induction l as [|z r IH]; cbn; [auto|]. destruct (Nat.eqb x z); cbn; intuition.
Qed.

Lemma remove_one_nodup x l : NoDup l -> NoDup (remove_one x l) /\ ~ In x (remove_one x l).
Proof.
  induction 1 as [|z r Hz Hr IH]; cbn; [split; [constructor|auto]|].
  destruct (Nat.eqb_spec x z) as [->|N].
  - split; assumption.
  - destruct IH as [I1 I2]. split.
    + constructor; [|exact I1]. intros H. apply Hz. eapply remove_one_in; eauto.
    + cbn. intuition.
Qed.

Lemma remove_one_keeps x y l : x <> y -> In y l -> In y (remove_one x l).
Proof.
  intros N. induction l as [|z r IH]; cbn; [auto|]. destruct (Nat.eqb_spec x z) as [->|N2]; cbn; intuition congruence.
Qed.

Ltac split6 := split; [|split; [|split; [|split; [|split]]]].

Lemma step_preserves_inv s i s' : inv s -> step s i s' -> inv s'.
Proof.
  intros (Hshape & Hw & Hr & Hwi & Hri & Hnd) Hstep.
  inversion Hstep as [s0 i0 t rest Hi Hp Hwn Hrn|s0 i0 t rest Hi Hp Hws|s0 i0 t rest Hi Hp Hwn|s0 i0 t rest Hi Hp Hin|s0 i0 t op rest Hi Hp Hop];
    subst; unfold inv; cbn [writer readers threads].
  - (* Lock *)
    pose proof (Hshape _ _ Hi) as Sh. unfold shape_ok in Sh.
    assert (Hm : th_mode t = Idle).
    { destruct (th_mode t) eqn:Em; [reflexivity| |].
      - apply writing_shape_head in Sh. rewrite Hp in Sh. destruct Sh as [(r & E & _)|(op & r & E & Ho & _)]; [discriminate|].
        injection E as <- _. discriminate.
      - apply reading_shape_head in Sh. rewrite Hp in Sh. destruct Sh as [(r & E & _)|(r & E & _)]; discriminate. }
    rewrite Hm, Hp in Sh. inversion Sh as [|body rest' Hb Hr' E|]; subst.
    split6.
    + intros j tj Hj. destruct (nth_error_set_nth _ _ _ _ _ _ Hi Hj) as [[-> ->]|[N Hj']]; [|eauto].
      unfold shape_ok; cbn. exists body, rest'. auto.
    + intros j tj Hj Hmj. destruct (nth_error_set_nth _ _ _ _ _ _ Hi Hj) as [[-> ->]|[N Hj']]; [reflexivity|].
      pose proof (Hw _ _ Hj' Hmj). congruence.
    + intros j tj Hj Hmj. destruct (nth_error_set_nth _ _ _ _ _ _ Hi Hj) as [[-> ->]|[N Hj']]; [discriminate|].
      pose proof (Hr _ _ Hj' Hmj) as Hin. rewrite Hrn in Hin. destruct Hin.
    + intros j Hj. injection Hj as <-. split; [reflexivity|]. eexists. split; [eapply nth_error_set_nth_same; eauto|reflexivity].
    + intros j [].
    + constructor.
  - (* Unlock *)
    destruct (Hwi _ Hws) as [Hrn (tw & Htw & Hmw)]. rewrite Hi in Htw. injection Htw as <-.
    pose proof (Hshape _ _ Hi) as Sh. unfold shape_ok in Sh. rewrite Hmw in Sh.
    apply writing_shape_head in Sh. rewrite Hp in Sh.
    destruct Sh as [(r & E & Hidle)|(op & r & E & Ho & _)]; [|injection E as <- _; discriminate].
    injection E as <-.
    split6.
    + intros j tj Hj. destruct (nth_error_set_nth _ _ _ _ _ _ Hi Hj) as [[-> ->]|[N Hj']]; [exact Hidle|eauto].
    + intros j tj Hj Hmj. destruct (nth_error_set_nth _ _ _ _ _ _ Hi Hj) as [[-> ->]|[N Hj']]; [discriminate|].
      pose proof (Hw _ _ Hj' Hmj). congruence.
    + intros j tj Hj Hmj. destruct (nth_error_set_nth _ _ _ _ _ _ Hi Hj) as [[-> ->]|[N Hj']]; [discriminate|eauto].
    + intros j Hj. discriminate.
    + intros j Hin. rewrite Hrn in Hin. destruct Hin.
    + exact Hnd.
  - (* RLock *)
    pose proof (Hshape _ _ Hi) as Sh. unfold shape_ok in Sh.
    assert (Hm : th_mode t = Idle).
    { destruct (th_mode t) eqn:Em; [reflexivity| |].
      - apply writing_shape_head in Sh. rewrite Hp in Sh. destruct Sh as [(r & E & _)|(op & r & E & Ho & _)]; [discriminate|].
        injection E as <- _. discriminate.
      - apply reading_shape_head in Sh. rewrite Hp in Sh. destruct Sh as [(r & E & _)|(r & E & _)]; discriminate. }
    rewrite Hm, Hp in Sh. inversion Sh as [| |body rest' Hb Hr' E]; subst.
    assert (Hni : ~ In i (readers s)).
    { intros Hin. destruct (Hri _ Hin) as [_ (t' & Ht' & Hm')]. rewrite Hi in Ht'. injection Ht' as <-. congruence. }
    split6.
    + intros j tj Hj. destruct (nth_error_set_nth _ _ _ _ _ _ Hi Hj) as [[-> ->]|[N Hj']]; [|eauto].
      unfold shape_ok; cbn. exists body, rest'. auto.
    + intros j tj Hj Hmj. destruct (nth_error_set_nth _ _ _ _ _ _ Hi Hj) as [[-> ->]|[N Hj']]; [discriminate|].
      pose proof (Hw _ _ Hj' Hmj). congruence.
    + intros j tj Hj Hmj. destruct (nth_error_set_nth _ _ _ _ _ _ Hi Hj) as [[-> ->]|[N Hj']]; [left; reflexivity|].
      right. eauto.
    + intros j Hj. discriminate.
    + intros j Hj. split; [reflexivity|]. destruct Hj as [<-|Hin].
      * eexists. split; [eapply nth_error_set_nth_same; eauto|reflexivity].
      * destruct (Hri _ Hin) as [_ (t' & Ht' & Hm')].
        assert (j <> i) by (intros ->; contradiction).
        exists t'. split; [|exact Hm']. rewrite nth_error_set_nth_other by congruence. exact Ht'.
    + constructor; assumption.
  - (* RUnlock *)
    destruct (Hri _ Hin) as [Hwn (tr & Htr & Hmr)]. rewrite Hi in Htr. injection Htr as <-.
    pose proof (Hshape _ _ Hi) as Sh. unfold shape_ok in Sh. rewrite Hmr in Sh.
    apply reading_shape_head in Sh. rewrite Hp in Sh.
    destruct Sh as [(r & E & Hidle)|(r & E & _)]; [|discriminate]. injection E as <-.
    destruct (remove_one_nodup i _ Hnd) as [Hnd' Hnotin].
    split6.
    + intros j tj Hj. destruct (nth_error_set_nth _ _ _ _ _ _ Hi Hj) as [[-> ->]|[N Hj']]; [exact Hidle|eauto].
    + intros j tj Hj Hmj. destruct (nth_error_set_nth _ _ _ _ _ _ Hi Hj) as [[-> ->]|[N Hj']]; [discriminate|eauto].
    + intros j tj Hj Hmj. destruct (nth_error_set_nth _ _ _ _ _ _ Hi Hj) as [[-> ->]|[N Hj']]; [discriminate|].
      apply remove_one_keeps; [congruence|eauto].
    + intros j Hj. rewrite Hwn in Hj. discriminate.
    + intros j Hj. split; [exact Hwn|].
      pose proof (remove_one_in _ _ _ Hj) as Hin'. destruct (Hri _ Hin') as [_ (t' & Ht' & Hm')].
      assert (j <> i) by (intros ->; contradiction).
      exists t'. split; [|exact Hm']. rewrite nth_error_set_nth_other by congruence. exact Ht'.
    + exact Hnd'.
  - (* map operation: modes and lock state unchanged, shape advances *)
    pose proof (Hshape _ _ Hi) as Sh. unfold shape_ok in Sh.
    assert (Sh' : shape_ok {| th_mode := th_mode t; th_prog := rest |}).
    { unfold shape_ok; cbn. destruct (th_mode t) eqn:Em.
      - apply idle_shape_head in Sh. rewrite Hp in Sh. destruct Sh as [E|[(r & E)|(r & E)]]; try discriminate;
          injection E as -> _; discriminate.
      - apply writing_shape_head in Sh. rewrite Hp in Sh. destruct Sh as [(r & E & _)|(op' & r & E & _ & Hs)].
        + injection E as -> _. discriminate.
        + injection E as _ <-. exact Hs.
      - apply reading_shape_head in Sh. rewrite Hp in Sh. destruct Sh as [(r & E & _)|(r & E & Hs)].
        + injection E as -> _. discriminate.
        + injection E as _ <-. exact Hs. }
    split6.
    + intros j tj Hj. destruct (nth_error_set_nth _ _ _ _ _ _ Hi Hj) as [[-> ->]|[N Hj']]; [exact Sh'|eauto].
    + intros j tj Hj Hmj. destruct (nth_error_set_nth _ _ _ _ _ _ Hi Hj) as [[-> ->]|[N Hj']]; [cbn in Hmj; eauto|eauto].
    + intros j tj Hj Hmj. destruct (nth_error_set_nth _ _ _ _ _ _ Hi Hj) as [[-> ->]|[N Hj']]; [cbn in Hmj; eauto|eauto].
    + intros j Hj. destruct (Hwi _ Hj) as [Hrn (t' & Ht' & Hm')]. split; [exact Hrn|].
      destruct (Nat.eq_dec j i) as [->|N].
      * rewrite Hi in Ht'. injection Ht' as <-. eexists. split; [eapply nth_error_set_nth_same; eauto|exact Hm'].
      * exists t'. split; [|exact Hm']. rewrite nth_error_set_nth_other by congruence. exact Ht'.
    + intros j Hj. destruct (Hri _ Hj) as [Hwn (t' & Ht' & Hm')]. split; [exact Hwn|].
      destruct (Nat.eq_dec j i) as [->|N].
      * rewrite Hi in Ht'. injection Ht' as <-. eexists. split; [eapply nth_error_set_nth_same; eauto|exact Hm'].
      * exists t'. split; [|exact Hm']. rewrite nth_error_set_nth_other by congruence. exact Ht'.
    + exact Hnd.
Qed.

(* initial states: nobody holds the lock, every thread is about to run a sequence of methods *)
Definition initial (s : state) : Prop :=
  writer s = None /\ readers s = [] /\ forall i t, nth_error (threads s) i = Some t -> th_mode t = Idle /\ idle_shape (th_prog t).

Lemma initial_inv s : initial s -> inv s.
Proof.
  intros (Hw & Hr & Ht). unfold inv. split6.
  - intros i t Hi. destruct (Ht _ _ Hi) as [Hm Hs]. unfold shape_ok. now rewrite Hm.
  - intros i t Hi Hm. destruct (Ht _ _ Hi). congruence.
  - intros i t Hi Hm. destruct (Ht _ _ Hi). congruence.
  - intros i Hi. congruence.
  - intros i Hi. rewrite Hr in Hi. destruct Hi.
  - rewrite Hr. constructor.
Qed.

Lemma inv_not_racy s : inv s -> ~ racy s.
Proof.
  intros (Hshape & Hw & Hr & Hwi & Hri & Hnd) (i & j & ti & tj & ri & rj & oj & Nij & Hi & Hj & Pi & Pj & Oj).
  (* thread i is about to write: it must be in a write section *)
  pose proof (Hshape _ _ Hi) as Si. unfold shape_ok in Si.
  assert (Mi : th_mode ti = Writing).
  { destruct (th_mode ti) eqn:Em; [| reflexivity |].
    - apply idle_shape_head in Si. rewrite Pi in Si. destruct Si as [E|[(r & E)|(r & E)]]; discriminate.
    - apply reading_shape_head in Si. rewrite Pi in Si. destruct Si as [(r & E & _)|(r & E & _)]; discriminate. }
  pose proof (Hw _ _ Hi Mi) as Wi. destruct (Hwi _ Wi) as [Rn _].
  (* thread j is about to access the map: it is in a section too *)
  pose proof (Hshape _ _ Hj) as Sj. unfold shape_ok in Sj.
  destruct (th_mode tj) eqn:Em.
  - apply idle_shape_head in Sj. rewrite Pj in Sj. destruct Sj as [E|[(r & E)|(r & E)]]; try discriminate;
      injection E as -> _; discriminate.
  - pose proof (Hw _ _ Hj Em) as Wj. congruence.
  - pose proof (Hr _ _ Hj Em) as Rj. rewrite Rn in Rj. destruct Rj.
Qed.

Lemma reachable_inv s0 s : initial s0 -> reachable s0 s -> inv s.
Proof.
  intros H0 Hr. induction Hr as [|s i s' Hr IH Hs]; [apply initial_inv; exact H0|].
  eapply step_preserves_inv; eauto.
Qed.

(* No data race in any reachable state, for any number of threads, any sequences of
   well-locked methods and any schedule. *)
Theorem no_race s0 s : initial s0 -> reachable s0 s -> ~ racy s.
Proof. intros H0 Hr. apply inv_not_racy. eapply reachable_inv; eauto. Qed.

(* sections are exclusive: while a thread is inside a write section no other thread is inside
   any section (so check-then-insert inside one section is atomic) *)
Theorem write_section_exclusive s0 s i j ti tj :
  initial s0 -> reachable s0 s -> i <> j ->
  nth_error (threads s) i = Some ti -> nth_error (threads s) j = Some tj ->
  th_mode ti = Writing -> th_mode tj = Idle.
Proof.
  intros H0 Hr Nij Hi Hj Mi.
  destruct (reachable_inv _ _ H0 Hr) as (Hshape & Hw & Hrd & Hwi & Hri & Hnd).
  pose proof (Hw _ _ Hi Mi) as Wi. destruct (Hwi _ Wi) as [Rn _].
  destruct (th_mode tj) eqn:Em; [reflexivity| |].
  - pose proof (Hw _ _ Hj Em). congruence.
  - pose proof (Hrd _ _ Hj Em) as Rj. rewrite Rn in Rj. destruct Rj.
Qed.

(* a thread whose methods are all well-locked starts in an idle shape *)
Lemma well_locked_idle p rest : well_locked p = true -> idle_shape rest -> idle_shape (p ++ rest).
Proof.
  intros Hp Hr. destruct p as [|[] p]; try discriminate; cbn in Hp.
  - destruct (rev p) as [|[] body] eqn:Er; try discriminate.
    assert (E : p = rev body ++ [Unlock]).
    { rewrite <- (rev_involutive p), Er. reflexivity. }
    subst p. cbn. rewrite <- app_assoc. cbn. constructor; [|exact Hr].
    rewrite forallb_forall in *. intros x Hx. apply Hp. now apply in_rev.
  - destruct (rev p) as [|[] body] eqn:Er; try discriminate.
    assert (E : p = rev body ++ [RUnlock]).
    { rewrite <- (rev_involutive p), Er. reflexivity. }
    subst p. cbn. rewrite <- app_assoc. cbn. constructor; [|exact Hr].
    rewrite forallb_forall in *. intros x Hx. apply Hp. now apply in_rev.
Qed.

Lemma methods_idle ms : forallb well_locked ms = true -> idle_shape (concat ms).
Proof.
  induction ms as [|m ms IH]; cbn; [constructor|]. intros H. apply andb_prop in H. destruct H as [Hm Hms].
  apply well_locked_idle; auto.
Qed.

(* Non-vacuity and the negative control: an unlocked write next to a locked read is racy in
   the initial state itself. *)
Example racy_without_lock :
  racy {| writer := None; readers := [];
          threads := [{| th_mode := Idle; th_prog := [MapWrite] |}; {| th_mode := Idle; th_prog := [MapRead] |}] |}.
Proof. exists 0, 1. do 5 eexists. repeat split; try reflexivity. discriminate. Qed.
