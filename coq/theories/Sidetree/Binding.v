(* Content binding: equal model multihashes mean equal JSON values, or an explicit SHA-2
   collision; consequences for DID suffixes and delta hashes of accepted create requests. *)
From Coq Require Import ZArith NArith String List Bool.
From Sidetree Require Import Base.Sha2 Json.Json Json.Jcs Json.Parse Json.JcsProps Json.JcsRoundTrip Json.TransformIdem
     Sidetree.Protocol Sidetree.Hashing Sidetree.Parser.
Import ListNotations.
Open Scope string_scope.

Definition collision (code : N) (v w : json) : Prop :=
  exists cv cw h, jcs v = Some cv /\ jcs w = Some cw /\ hash_fn sha256 sha512 code = Some h /\ cv <> cw /\ h cv = h cw.

Theorem valid_mh_binds v w s : valid_mh v s = true -> valid_mh w s = true -> wfnum v -> wfnum w ->
  jequiv v w \/ exists code, collision code v w.
Proof.
  intros Hv Hw Wv Ww.
  apply (valid_iff sha256 sha512) in Hw as [c [Hc Hcalc]].
  pose proof Hcalc as Hcalc'. unfold calc_model_mh in Hcalc'.
  destruct (jcs w) as [cw|] eqn:Jw; [|discriminate].
  destruct (compute_multihash sha256 sha512 c cw) as [e|] eqn:Ecm; [|discriminate].
  unfold compute_multihash in Ecm. destruct (hash_fn sha256 sha512 c) as [h|] eqn:Eh; [|discriminate].
  assert (exists cv, jcs v = Some cv) as [cv Jv].
  { apply (valid_iff sha256 sha512) in Hv as [c' [_ Hc']]. unfold calc_model_mh in Hc'.
    destruct (jcs v); [eauto|discriminate]. }
  destruct (valid_content sha256 sha512 sha256_length sha512_length v w c s cv cw h Jv Jw Eh Hcalc Hv) as [E|[Ne Hcol]].
  - left. subst cw. eapply jcs_injective; eauto.
  - right. exists c, cv, cw, h. auto.
Qed.

Theorem calc_mh_binds v w a s : calc_mh v a = Some s -> calc_mh w a = Some s -> wfnum v -> wfnum w ->
  jequiv v w \/ exists code, collision code v w.
Proof.
  intros Hv Hw. apply valid_mh_binds with (s := s);
    apply (valid_of_calc sha256 sha512 sha256_length sha512_length) with (code := a); assumption.
Qed.

(* ---- decoded suffix data and deltas have canonical numbers ---- *)

Lemma opt_member_wf name v : Forall (fun kv => wfnum (snd kv)) (opt_member name v).
Proof. unfold opt_member. destruct (String.eqb v ""); repeat constructor. Qed.

Lemma dec_suffix_data_wf o sd : dec_suffix_data o = Some (Some sd) -> wfnum (img_suffix_data sd).
Proof.
  unfold dec_suffix_data. destruct o as [[| | | | |m]|]; try discriminate.
  destruct (dec_string (field "deltaHash" m)); [|discriminate]. destruct (dec_string (field "recoveryCommitment" m)); [|discriminate].
  destruct (dec_any (field "anchorOrigin" m)) as [orig|] eqn:Eo; [|discriminate]. destruct (dec_string (field "type" m)); [|discriminate].
  intros H. injection H as <-. unfold img_suffix_data. cbn [sd_delta_hash sd_recovery_c sd_origin sd_type].
  assert (Wo : wfnum orig).
  { unfold dec_any in Eo. destruct (field "anchorOrigin" m) as [v|]; [|injection Eo as <-; constructor].
    now apply normalise_numbers_wfnum in Eo. }
  constructor. repeat (apply Forall_app; split); auto using opt_member_wf.
  destruct orig; constructor; try exact Wo; constructor.
Qed.

Lemma dec_patches_wf o l : dec_patches o = Some l -> Forall wfnum l.
Proof.
  unfold dec_patches. destruct o as [[| | | |l0|]|]; try discriminate; try (intros H; injection H as <-; constructor).
  revert l. induction l0 as [|x r IH]; intros l H.
  - injection H as <-. constructor.
  - destruct x; try discriminate.
    + match type of H with match ?g r with _ => _ end = _ => destruct (g r) as [r'|] eqn:Er end; [|discriminate].
      injection H as <-. constructor; [constructor|]. now apply IH.
    + destruct (normalise_numbers (JObj m)) as [v|] eqn:En; [|discriminate].
      match type of H with match ?g r with _ => _ end = _ => destruct (g r) as [r'|] eqn:Er end; [|discriminate].
      injection H as <-. constructor; [now apply normalise_numbers_wfnum in En|]. now apply IH.
Qed.

Lemma dec_delta_wf o d : dec_delta o = Some d -> wfnum (img_delta_opt d).
Proof.
  unfold dec_delta. destruct o as [[| | | | |m]|]; try discriminate; try (intros H; injection H as <-; constructor).
  destruct (dec_string (field "updateCommitment" m)); [|discriminate].
  destruct (dec_patches (field "patches" m)) as [ps|] eqn:Ep; [|discriminate].
  intros H. injection H as <-. cbn. constructor. apply Forall_app. split; [apply opt_member_wf|].
  apply dec_patches_wf in Ep. destruct ps; constructor; [|constructor]. cbn. now constructor.
Qed.

Section Create.
  Variable cfg : protocol.
  Variable uri_ok : string -> bool.
  Variable url_norm : string -> option string.
  Variable origin_ok : json -> bool.
  Variable time_ok : Z -> Z -> bool.

  Lemma create_decoded m batch p :
    parse_create cfg uri_ok url_norm origin_ok m batch = Some p ->
    exists sd, p_suffix_data p = Some sd /\ dec_suffix_data (field "suffixData" m) = Some (Some sd) /\
               dec_delta (field "delta" m) = Some (p_delta p).
  Proof.
    unfold parse_create.
    destruct (dec_string (field "type" m)); [|discriminate].
    destruct (dec_suffix_data (field "suffixData" m)) as [osd|]; [|discriminate].
    destruct (dec_delta (field "delta" m)) as [od|]; [|discriminate].
    destruct osd as [sd|]; [|discriminate].
    destruct (negb (andb _ _)); [discriminate|].
    match goal with |- context [if negb ?c then None else _] => destruct c end; cbn [negb]; [|discriminate].
    destruct (algs cfg) as [|a rest]; [discriminate|].
    destruct (calc_mh (img_suffix_data sd) a) as [sfx|]; [|discriminate].
    intros H. injection H as <-. cbn. eauto.
  Qed.

  (* Two accepted create requests with the same DID suffix carry the same suffix data
     (as a JSON value), unless their canonical bytes are an explicit SHA-2 collision. *)
  Theorem same_suffix_same_suffix_data m1 b1 p1 m2 b2 p2 :
    parse_create cfg uri_ok url_norm origin_ok m1 b1 = Some p1 ->
    parse_create cfg uri_ok url_norm origin_ok m2 b2 = Some p2 ->
    p_suffix p1 = p_suffix p2 ->
    exists sd1 sd2, p_suffix_data p1 = Some sd1 /\ p_suffix_data p2 = Some sd2 /\
      (jequiv (img_suffix_data sd1) (img_suffix_data sd2) \/ exists code, collision code (img_suffix_data sd1) (img_suffix_data sd2)).
  Proof.
    intros H1 H2 Es.
    destruct (create_suffix _ _ _ _ _ _ _ H1) as [sd1 [a1 [r1 [S1 [A1 [C1 _]]]]]].
    destruct (create_suffix _ _ _ _ _ _ _ H2) as [sd2 [a2 [r2 [S2 [A2 [C2 _]]]]]].
    destruct (create_decoded _ _ _ H1) as [sd1' [S1' [D1 _]]]. destruct (create_decoded _ _ _ H2) as [sd2' [S2' [D2 _]]].
    rewrite S1 in S1'. injection S1' as <-. rewrite S2 in S2'. injection S2' as <-.
    rewrite A1 in A2. injection A2 as <- _. rewrite Es in C1.
    exists sd1, sd2. repeat split; auto.
    eapply calc_mh_binds; eauto using dec_suffix_data_wf.
  Qed.

  (* Outside batch mode the recorded delta hash binds the delta. *)
  Theorem same_delta_hash_same_delta m1 p1 sd1 m2 p2 sd2 :
    parse_create cfg uri_ok url_norm origin_ok m1 false = Some p1 ->
    parse_create cfg uri_ok url_norm origin_ok m2 false = Some p2 ->
    p_suffix_data p1 = Some sd1 -> p_suffix_data p2 = Some sd2 -> sd_delta_hash sd1 = sd_delta_hash sd2 ->
    jequiv (img_delta_opt (p_delta p1)) (img_delta_opt (p_delta p2)) \/
    exists code, collision code (img_delta_opt (p_delta p1)) (img_delta_opt (p_delta p2)).
  Proof.
    intros H1 H2 S1 S2 Eh.
    destruct (create_suffix _ _ _ _ _ _ _ H1) as [sd1' [a1 [r1 [S1' [_ [_ V1]]]]]].
    destruct (create_suffix _ _ _ _ _ _ _ H2) as [sd2' [a2 [r2 [S2' [_ [_ V2]]]]]].
    rewrite S1 in S1'. injection S1' as <-. rewrite S2 in S2'. injection S2' as <-.
    destruct (create_decoded _ _ _ H1) as [_ [_ [_ D1]]]. destruct (create_decoded _ _ _ H2) as [_ [_ [_ D2]]].
    specialize (V1 eq_refl). specialize (V2 eq_refl). rewrite Eh in V1.
    eapply valid_mh_binds; eauto using dec_delta_wf.
  Qed.
End Create.
