(* The compact JWS a signer produces, b64(header) "." b64(payload) "." b64(signature), is read
   back by the parser mirror's parse_jws with exactly these three parts. *)
From Coq Require Import ZArith NArith String Ascii List Bool Sorting.Permutation Lia.
From Sidetree Require Import Base.Sha2 Base.Base64url Json.Json Json.Parse Sidetree.JsonPatch Sidetree.Validator Sidetree.Parser.
Import ListNotations.
Open Scope string_scope.

(* characters of the base64url alphabet: letters, digits, '-' and '_' *)
Definition b64_alpha (c : ascii) : Prop := let n := N_of_ascii c in (n <> 46 /\ n <> 123)%N.

Lemma b64_char_alpha n : (b64_char n <> 46 /\ b64_char n <> 123)%N.
Proof.
  unfold b64_char. destruct (n <? 26)%N eqn:A; [apply N.ltb_lt in A; lia|]. apply N.ltb_ge in A.
  destruct (n <? 52)%N eqn:B; [apply N.ltb_lt in B; lia|]. apply N.ltb_ge in B.
  destruct (n <? 62)%N eqn:C; [apply N.ltb_lt in C; lia|]. destruct (n =? 62)%N; lia.
Qed.

Fixpoint all_chars (P : ascii -> Prop) (s : string) : Prop :=
  match s with EmptyString => True | String c r => P c /\ all_chars P r end.

Lemma b64_char_lt n : (b64_char n < 256)%N.
Proof. apply b64_char_byte. Qed.

Lemma b64_encode_alpha s : all_chars b64_alpha (b64_encode s).
Proof.
  unfold b64_encode. rewrite encode_is_map. induction (sextets (bytes_of_string s)) as [|n l IH]; cbn; [exact I|].
  split; [|exact IH]. unfold b64_alpha. rewrite N_ascii_embedding by apply b64_char_lt. apply b64_char_alpha.
Qed.

Lemma b64_encode_nonempty s : s <> "" -> b64_encode s <> "".
Proof.
  intros H E. pose proof (b64_decode_encode s) as D. rewrite E in D. cbn in D. injection D as D. congruence.
Qed.

(* splitting at the dots *)
Lemma split_on_no_sep s : forall acc, all_chars b64_alpha s -> split_on "." acc s = [acc ++ s].
Proof.
  induction s as [|c r IH]; intros acc H; cbn [split_on].
  - f_equal. induction acc; cbn; congruence.
  - destruct H as [[Hc _] Hr]. destruct (Ascii.eqb_spec c ".") as [->|N]; [exfalso; apply Hc; reflexivity|].
    rewrite IH by exact Hr. f_equal. clear. induction acc; cbn; congruence.
Qed.

Lemma split_on_app s : forall acc t, all_chars b64_alpha s ->
  split_on "." acc (s ++ String "." t) = (acc ++ s) :: split_on "." "" t.
Proof.
  induction s as [|c r IH]; intros acc t H; cbn [append split_on].
  - change (Ascii.eqb "." ".") with true. cbv iota. f_equal. induction acc; cbn; congruence.
  - destruct H as [[Hc _] Hr]. destruct (Ascii.eqb_spec c ".") as [->|N]; [exfalso; apply Hc; reflexivity|].
    rewrite IH by exact Hr. f_equal. clear. induction acc; cbn; congruence.
Qed.

Definition compact (hb payload sig : string) : string :=
  b64_encode hb ++ String "." (b64_encode payload ++ String "." (b64_encode sig)).

Lemma compact_parts hb payload sig :
  split_on "." "" (compact hb payload sig) = [b64_encode hb; b64_encode payload; b64_encode sig].
Proof.
  unfold compact. rewrite split_on_app by apply b64_encode_alpha. rewrite split_on_app by apply b64_encode_alpha.
  rewrite split_on_no_sep by apply b64_encode_alpha. reflexivity.
Qed.

Lemma compact_not_json hb payload sig : hb <> "" -> is_prefix "{" (compact hb payload sig) = false.
Proof.
  intros H. unfold compact. pose proof (b64_encode_nonempty hb H) as Hn. pose proof (b64_encode_alpha hb) as Ha.
  destruct (b64_encode hb) as [|c r]; [congruence|]. cbn [append is_prefix]. destruct Ha as [[_ Hc] _].
  destruct (Ascii.eqb_spec "{" c) as [<-|]; [exfalso; apply Hc; reflexivity|reflexivity].
Qed.

Lemma compact_nonempty hb payload sig : hb <> "" -> compact hb payload sig <> "".
Proof. intros H E. pose proof (b64_encode_nonempty hb H). unfold compact in E. destruct (b64_encode hb); [congruence|discriminate]. Qed.

(* a header holding the algorithm alone names no member twice *)
Lemma single_alg_dupfree h alg :
  Permutation (keys [("alg", JStr alg)]) (keys h) -> lookup "alg" h = Some (JStr alg) -> dupfree (JObj h) = true.
Proof.
  intros P L. apply Permutation_length_1_inv in P.
  destruct h as [|[k v] [|kv2 r]]; cbn in P; try discriminate. injection P as ->.
  cbn [lookup String.eqb Ascii.eqb Bool.eqb] in L. injection L as ->. reflexivity.
Qed.

Theorem parse_jws_compact hb payload sig h :
  parse_json hb = Some (JObj h) -> dupfree (JObj h) = true -> has "alg" h = true -> payload <> "" -> sig <> "" ->
  parse_jws (compact hb payload sig) =
  Some {| j_headers := h; j_payload := payload; j_signature := sig; j_parts := (b64_encode hb, b64_encode payload, b64_encode sig) |}.
Proof.
  intros Hh Hd Ha Hp Hs. assert (Hne : hb <> "") by (intros ->; cbn in Hh; discriminate).
  unfold parse_jws. rewrite (compact_not_json _ _ _ Hne), compact_parts, !b64_decode_encode, Hh, Hd, Ha. cbn [negb].
  apply String.eqb_neq in Hp, Hs. rewrite Hp, Hs. reflexivity.
Qed.
