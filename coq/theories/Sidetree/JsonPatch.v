(* Mirror of github.com/evanphx/json-patch v4.1.0 (patch.go) as reached from
   doccomposer.applyJSON, over JSON trees.

   Faithful to the library's partiality: every unchecked Go operation is an explicit [Panic]
   outcome; allocation-by-index is an explicit [Blowup] outcome above a bound.  NOT modelled:
   the node sharing created by `copy` (the same *lazyNode stored twice).  [aliasing_free]
   below characterises the patch lists on which the tree model is exact; outside it the model
   declares the case out of its domain (see DESIGN, C10 findings). *)
From Coq Require Import ZArith String List Bool Ascii.
From Sidetree Require Import Json.Json.
Import ListNotations.
Open Scope string_scope.

Inductive pres (A : Type) : Type :=
| POk (a : A)
| PErr            (* error value returned *)
| PPanic          (* runtime panic inside the library (nil dereference, index out of range) *)
| PBlowup.        (* allocation proportional to an attacker-chosen index *)
Arguments POk {A} a.
Arguments PErr {A}.
Arguments PPanic {A}.
Arguments PBlowup {A}.

Definition pbind {A B} (x : pres A) (f : A -> pres B) : pres B :=
  match x with POk a => f a | PErr => PErr | PPanic => PPanic | PBlowup => PBlowup end.

(* ---- strings ---- *)

Fixpoint split_on (sep : ascii) (acc : string) (s : string) : list string :=
  match s with
  | EmptyString => [acc]
  | String c r => if Ascii.eqb c sep then acc :: split_on sep "" r
                  else split_on sep (acc ++ String c "") r
  end.

(* strings.Split(path, "/") *)
Definition split_path (p : string) : list string := split_on "/"%char "" p.

(* strings.NewReplacer("~1", "/", "~0", "~").Replace *)
Fixpoint decode_key (s : string) : string :=
  match s with
  | EmptyString => EmptyString
  | String "~"%char (String "1"%char r) => String "/"%char (decode_key r)
  | String "~"%char (String "0"%char r) => String "~"%char (decode_key r)
  | String c r => String c (decode_key r)
  end.

Definition digit_of (c : ascii) : option Z :=
  let n := Z.of_nat (nat_of_ascii c) in
  if andb (48 <=? n)%Z (n <=? 57)%Z then Some (n - 48)%Z else None.

Fixpoint digits_val (acc : Z) (s : string) : option Z :=
  match s with
  | EmptyString => Some acc
  | String c r => match digit_of c with
                  | Some d => digits_val (acc * 10 + d)%Z r
                  | None => None
                  end
  end.

(* strconv.Atoi: optional sign, at least one digit, int64 range *)
Definition atoi (s : string) : option Z :=
  let body (neg : bool) (r : string) :=
    match r with
    | EmptyString => None
    | _ => match digits_val 0 r with
           | Some v => let v' := if neg then (- v)%Z else v in
                       if andb (-9223372036854775808 <=? v')%Z (v' <=? 9223372036854775807)%Z
                       then Some v' else None
           | None => None
           end
    end in
  match s with
  | String "-"%char r => body true r
  | String "+"%char r => body false r
  | _ => body false s
  end.

(* ---- containers ---- *)

Definition alloc_bound : Z := 4096.

Definition zlen {A} (l : list A) : Z := Z.of_nat (length l).

Fixpoint insert_at {A} (n : nat) (x : A) (l : list A) : list A :=
  match n, l with
  | O, _ => x :: l
  | S n', y :: r => y :: insert_at n' x r
  | S _, [] => [x]
  end.

Fixpoint remove_at {A} (n : nat) (l : list A) : list A :=
  match n, l with
  | _, [] => []
  | O, _ :: r => r
  | S n', y :: r => y :: remove_at n' r
  end.

Fixpoint set_at (n : nat) (x : json) (l : list json) : list json :=
  match n, l with
  | O, [] => [x]
  | O, _ :: r => x :: r
  | S n', [] => JNull :: set_at n' x []
  | S n', y :: r => y :: set_at n' x r
  end.

(* container.get : None = nil node *)
Definition c_get (c : json) (key : string) : pres (option json) :=
  match c with
  | JObj m => POk (match lookup key m with Some JNull => None | o => o end)
  | JArr l =>
      match atoi key with
      | None => PErr
      | Some idx =>
          if (idx >=? zlen l)%Z then PErr
          else if (idx <? 0)%Z then PPanic
          else POk (match nth_error l (Z.to_nat idx) with Some JNull => None | o => o end)
      end
  | _ => PErr
  end.

Definition node (o : option json) : json := match o with Some v => v | None => JNull end.

(* container.set (used by replace, move, copy) *)
Definition c_set (c : json) (key : string) (v : json) : pres json :=
  match c with
  | JObj m => POk (JObj (set_key key v m))
  | JArr l =>
      if String.eqb key "-" then POk (JArr (l ++ [v])) else
      match atoi key with
      | None => PErr
      | Some idx =>
          if (idx <? 0)%Z then PPanic
          else if (idx >=? zlen l + alloc_bound)%Z then PBlowup
          else POk (JArr (set_at (Z.to_nat idx) v l))
      end
  | _ => PErr
  end.

(* container.add *)
Definition c_add (c : json) (key : string) (v : json) : pres json :=
  match c with
  | JObj m => POk (JObj (set_key key v m))
  | JArr l =>
      if String.eqb key "-" then POk (JArr (l ++ [v])) else
      match atoi key with
      | None => PErr
      | Some idx =>
          let n := (zlen l + 1)%Z in
          if (idx >=? n)%Z then PErr
          else if (idx <? - n)%Z then PErr
          else let idx' := if (idx <? 0)%Z then (idx + n)%Z else idx in
               POk (JArr (insert_at (Z.to_nat idx') v l))
      end
  | _ => PErr
  end.

(* container.remove *)
Definition c_remove (c : json) (key : string) : pres json :=
  match c with
  | JObj m => match lookup key m with
              | None => PErr
              | Some _ => POk (JObj (remove_key key m))
              end
  | JArr l =>
      match atoi key with
      | None => PErr
      | Some idx =>
          let n := zlen l in
          if (idx >=? n)%Z then PErr
          else if (idx <? - n)%Z then PErr
          else let idx' := if (idx <? 0)%Z then (idx + n)%Z else idx in
               POk (JArr (remove_at (Z.to_nat idx') l))
      end
  | _ => PErr
  end.

(* Descend one step during findObject: the child must be a non-nil array or object. *)
Definition descend (c : json) (part : string) : pres json :=
  pbind (c_get c (decode_key part)) (fun o =>
    match o with
    | Some (JArr l) => POk (JArr l)
    | Some (JObj m) => POk (JObj m)
    | _ => PErr            (* nil node, or a scalar that cannot become a container *)
    end).

(* Put a modified child back where [descend] found it. *)
Definition put_back (c : json) (part : string) (child : json) : json :=
  match c with
  | JObj m => JObj (set_key (decode_key part) child m)
  | JArr l => match atoi (decode_key part) with
              | Some idx => JArr (set_at (Z.to_nat idx) child l)
              | None => c
              end
  | _ => c
  end.

(* Run [f] on the container addressed by [parts] below [c] and rebuild the spine. *)
Fixpoint at_container {A} (parts : list string) (c : json)
         (f : json -> pres (json * A)) : pres (json * A) :=
  match parts with
  | [] => f c
  | p :: rest =>
      pbind (descend c p) (fun child =>
      pbind (at_container rest child f) (fun r =>
      POk (put_back c p (fst r), snd r)))
  end.

(* findObject: (parts, key) or None when the pointer has no '/' *)
Definition split_pointer (path : string) : option (list string * string) :=
  match split_path path with
  | [] | [_] => None
  | _ :: rest => Some (removelast rest, decode_key (last rest ""))
  end.

Definition with_target {A} (root : json) (path : string)
           (f : json -> string -> pres (json * A)) : pres (json * A) :=
  match split_pointer path with
  | None => PErr
  | Some (parts, key) => at_container parts root (fun c => f c key)
  end.

(* ---- lazyNode.equal ---- *)

Definition is_container (j : json) : bool :=
  match j with JArr _ | JObj _ => true | _ => false end.

(* n.equal(o) where both are non-nil nodes; None entries below are nil nodes.
   Scalars compare by their compact bytes, which for canonical input is structural equality. *)
Fixpoint node_equal (fuel : nat) (n o : json) : pres bool :=
  match fuel with
  | O => PErr
  | S fuel' =>
    match n with
    | JObj nm =>
        match o with
        | JObj om =>
            (fix go (l : list (string * json)) : pres bool :=
               match l with
               | [] => POk true
               | (k, v) :: r =>
                   match lookup k om with
                   | None => POk false
                   | Some ov =>
                       match v, ov with
                       | JNull, JNull => go r
                       | JNull, _ => PPanic      (* v.equal on a nil receiver *)
                       | _, JNull => PPanic      (* o.which on a nil argument *)
                       | _, _ => pbind (node_equal fuel' v ov) (fun b => if b then go r else POk false)
                       end
                   end
               end) nm
        | _ => POk false
        end
    | JArr nl =>
        match o with
        | JArr ol =>
            if negb (Nat.eqb (length nl) (length ol)) then POk false else
            (fix go (l1 l2 : list json) : pres bool :=
               match l1, l2 with
               | [], _ => POk true
               | v :: r1, ov :: r2 =>
                   match v, ov with
                   | JNull, _ => PPanic
                   | _, JNull => PPanic
                   | _, _ => pbind (node_equal fuel' v ov) (fun b => if b then go r1 r2 else POk false)
                   end
               | _ :: _, [] => POk false
               end) nl ol
        | _ => POk false
        end
    | _ => POk (andb (negb (is_container o)) (json_eqb n o))
    end
  end.

Fixpoint json_size (j : json) : nat :=
  match j with
  | JArr l => S (fold_right (fun x acc => json_size x + acc) 0 l)
  | JObj m => S (fold_right (fun kv acc => json_size (snd kv) + acc) 0 m)
  | _ => 1
  end.

(* ---- the six operations ---- *)

Definition op_str (op : obj) (k : string) : string :=
  match lookup k op with Some (JStr s) => s | _ => "unknown" end.

(* op.value(): None = no "value" member (nil *lazyNode); Some JNull = raw nil *)
Definition op_value (op : obj) : option json := lookup "value" op.

Definition do_add (root : json) (op : obj) : pres json :=
  pbind (with_target root (op_str op "path") (fun c key =>
           pbind (c_add c key (node (op_value op))) (fun c' => POk (c', tt))))
        (fun r => POk (fst r)).

Definition do_remove (root : json) (op : obj) : pres json :=
  pbind (with_target root (op_str op "path") (fun c key =>
           pbind (c_remove c key) (fun c' => POk (c', tt))))
        (fun r => POk (fst r)).

Definition do_replace (root : json) (op : obj) : pres json :=
  pbind (with_target root (op_str op "path") (fun c key =>
           pbind (c_get c key) (fun _ =>
           pbind (c_set c key (node (op_value op))) (fun c' => POk (c', tt)))))
        (fun r => POk (fst r)).

Definition do_move (root : json) (op : obj) : pres json :=
  pbind (with_target root (op_str op "from") (fun c key =>
           pbind (c_get c key) (fun v =>
           pbind (c_remove c key) (fun c' => POk (c', v)))))
        (fun r =>
  pbind (with_target (fst r) (op_str op "path") (fun c key =>
           pbind (c_set c key (node (snd r))) (fun c' => POk (c', tt))))
        (fun r2 => POk (fst r2))).

Definition do_copy (root : json) (op : obj) : pres json :=
  pbind (with_target root (op_str op "from") (fun c key =>
           pbind (c_get c key) (fun v => POk (c, v))))
        (fun r =>
  pbind (with_target root (op_str op "path") (fun c key =>
           pbind (c_set c key (node (snd r))) (fun c' => POk (c', tt))))
        (fun r2 => POk (fst r2))).

Definition do_test (root : json) (op : obj) : pres json :=
  pbind (with_target root (op_str op "path") (fun c key =>
           pbind (c_get c key) (fun v => POk (c, v))))
        (fun r =>
    match snd r with
    | None =>
        match op_value op with
        | None => PPanic                      (* op.value().raw on nil *)
        | Some JNull => POk root
        | Some _ => PErr
        end
    | Some v =>
        match op_value op with
        | None => PErr
        | Some ov =>
            match ov with
            | JNull => (* value node with raw nil *)
                if is_container v then PErr    (* o.tryDoc/tryAry fail on nil raw *)
                else PErr
            | _ => pbind (node_equal (json_size v + json_size ov) v ov)
                         (fun b => if b then POk root else PErr)
            end
        end
    end).

Definition apply_op (root : json) (opj : json) : pres json :=
  match opj with
  | JObj op =>
      let kind := op_str op "op" in
      if String.eqb kind "add" then do_add root op
      else if String.eqb kind "remove" then do_remove root op
      else if String.eqb kind "replace" then do_replace root op
      else if String.eqb kind "move" then do_move root op
      else if String.eqb kind "test" then do_test root op
      else if String.eqb kind "copy" then do_copy root op
      else PErr
  | _ => PErr                                  (* DecodePatch fails *)
  end.

Fixpoint apply_ops (root : json) (ops : list json) : pres json :=
  match ops with
  | [] => POk root
  | o :: r => pbind (apply_op root o) (fun root' => apply_ops root' r)
  end.

(* DecodePatch requires every element to be an object. *)
Definition all_objects (ops : list json) : bool :=
  forallb (fun o => match o with JObj _ => true | _ => false end) ops.

(* doccomposer.checkCopyIntoSelf: a copy whose destination lies inside its own source *)
Definition norm_token (t : string) : Z + string :=
  let d := decode_key t in
  match atoi d with Some z => inl z | None => inr d end.

Definition norm_token_eqb (a b : string) : bool :=
  match norm_token a, norm_token b with
  | inl x, inl y => (x =? y)%Z
  | inr x, inr y => String.eqb x y
  | _, _ => false
  end.

Fixpoint tokens_prefix (a b : list string) : bool :=
  match a, b with
  | [], _ => true
  | x :: a', y :: b' => andb (norm_token_eqb x y) (tokens_prefix a' b')
  | _ :: _, [] => false
  end.

Definition field_str (op : obj) (k : string) : option string :=
  match lookup k op with
  | Some (JStr s) => Some s
  | Some JNull | None => Some ""        (* absent or null: the Go variable keeps its zero value *)
  | Some _ => None                      (* not a string: checkCopyIntoSelf gives up *)
  end.

Definition copy_into_self (opj : json) : bool :=
  match opj with
  | JObj op =>
      match field_str op "op", field_str op "from", field_str op "path" with
      | Some kind, Some from, Some path =>
          if negb (String.eqb kind "copy") then false else
          let ft := split_path from in
          let pt := split_path path in
          if Nat.leb (length pt) (length ft) then false
          else tokens_prefix (tl ft) (tl pt)
      | _, _, _ => false
      end
  | _ => false
  end.

(* applyJSON after the fix: operations are applied one at a time on the re-serialised
   document (so the node sharing of `copy` is never observable: the tree model is exact) *)
Fixpoint apply_ops_checked (root : json) (ops : list json) : pres json :=
  match ops with
  | [] => POk root
  | o :: r => if copy_into_self o then PErr
              else pbind (apply_op root o) (fun root' => apply_ops_checked root' r)
  end.

Definition jsonpatch_apply (doc : obj) (ops : list json) : pres obj :=
  if negb (all_objects ops) then PErr else
  pbind (apply_ops_checked (JObj doc) ops) (fun r =>
    match r with JObj m => POk m | _ => PErr end).

(* ---- domain of the tree model: no use of the node sharing created by `copy` ---- *)

Fixpoint is_prefix (p s : string) : bool :=
  match p, s with
  | EmptyString, _ => true
  | String a p', String b s' => andb (Ascii.eqb a b) (is_prefix p' s')
  | _, EmptyString => false
  end.

Definition ptr_below (anc p : string) : bool :=
  (* p addresses something strictly inside anc, or an ancestor-or-self relation either way *)
  orb (is_prefix (anc ++ "/") p) (orb (is_prefix (p ++ "/") anc) (String.eqb anc p)).

(* After a copy(from, path), no later operation may look inside either location. *)
Fixpoint aliasing_free (ops : list json) : bool :=
  match ops with
  | [] => true
  | JObj op :: rest =>
      if String.eqb (op_str op "op") "copy" then
        let f := op_str op "from" in
        let p := op_str op "path" in
        andb (forallb (fun o =>
                match o with
                | JObj o' =>
                    let touches q := orb (is_prefix (f ++ "/") q) (is_prefix (p ++ "/") q) in
                    negb (orb (touches (op_str o' "path")) (touches (op_str o' "from")))
                | _ => true
                end) rest)
             (aliasing_free rest)
      else aliasing_free rest
  | _ :: rest => aliasing_free rest
  end.
