(* C07: the protocol rules as declarative propositions, and "the parser accepts a request
   (outside batch mode) if and only if the request obeys them", for each operation type and
   for the dispatch on size and type.  The rule propositions are named after the clauses of
   the property; the theorems tie them to the code-shaped parser mirror (Parser.v). *)
From Coq Require Import ZArith NArith String List Bool Lia.
From Sidetree Require Import Base.Base64url Json.Json Json.Jcs Json.Parse Sidetree.Protocol Sidetree.JsonPatch Sidetree.Composer
     Sidetree.Validator Sidetree.Hashing Sidetree.Parser.
Import ListNotations.
Open Scope string_scope.

Section Rules.
  Variable cfg : protocol.
  Variable uri_ok : string -> bool.
  Variable url_norm : string -> option string.
  Variable origin_ok : json -> bool.
  Variable time_ok : Z -> Z -> bool.

  Notation algs := (algs cfg).

  (* "every hash computed with a configured algorithm and within the maximum hash length" *)
  Definition hash_rule (mh : string) : Prop :=
    (Z.of_nat (String.length mh) <= P_MaxOperationHashLength cfg)%Z /\ exists c, mh_code mh = Some c /\ In c algs.

  Lemma validate_multihash_iff mh : validate_multihash cfg mh = true <-> hash_rule mh.
  Proof.
    unfold validate_multihash, hash_rule, computed_using, mh_code. rewrite andb_true_iff, Z.leb_le, computed_using_iff. reflexivity.
  Qed.

  (* "signed data with an allowed algorithm, only alg/kid protected headers" *)
  Definition headers_rule (h : obj) : Prop :=
    exists alg, lookup "alg" h = Some (JStr alg) /\ alg <> "" /\
                (forall k, In k (keys h) -> k = "alg" \/ k = "kid") /\ In alg (P_SignatureAlgorithms cfg).

  Lemma mem_str_iff s l : mem_str s l = true <-> In s l.
  Proof.
    unfold mem_str. rewrite existsb_exists. split.
    - intros [x [I E]]. apply String.eqb_eq in E. now subst.
    - intros I. exists s. split; auto. apply String.eqb_refl.
  Qed.

  Lemma validate_headers_iff h : validate_headers cfg h = true <-> headers_rule h.
  Proof.
    unfold validate_headers, headers_rule. destruct (lookup "alg" h) as [[| | |alg| |]|];
      try (split; [discriminate|intros [a [E _]]; discriminate]).
    rewrite !andb_true_iff, negb_true_iff, forallb_forall, mem_str_iff. split.
    - intros [Hn [Hk Ha]]. exists alg. repeat split; auto.
      + intros ->. discriminate.
      + intros k I. specialize (Hk k I). apply orb_prop in Hk as [E|E]; apply String.eqb_eq in E; auto.
    - intros [a [E [Hn [Hk Ha]]]]. injection E as <-. repeat split; auto.
      + now apply String.eqb_neq.
      + intros k I. destruct (Hk k I) as [->| ->]; reflexivity.
  Qed.

  (* "an allowed key curve and a nonce of the configured size" *)
  Definition nonce_rule (n : string) : Prop :=
    n = "" \/ exists b, b64_decode n = Some b /\ Z.of_nat (String.length b) = P_NonceSize cfg.

  Definition signing_key_rule (k : option jwk) : Prop :=
    exists k', k = Some k' /\ jwk_valid k' = true /\ In (k_crv k') (P_KeyAlgorithms cfg) /\ nonce_rule (k_nonce k').

  Lemma validate_nonce_iff n : validate_nonce cfg n = true <-> nonce_rule n.
  Proof.
    unfold validate_nonce, nonce_rule. destruct (String.eqb_spec n "") as [->|Hn]; [tauto|].
    destruct (b64_decode n) as [b|].
    - rewrite Z.eqb_eq. split; [intros E; right; eauto|intros [E|[b' [E1 E2]]]; [contradiction|congruence]].
    - split; [discriminate|intros [E|[b' [E1 _]]]; [contradiction|discriminate]].
  Qed.

  Lemma validate_signing_key_iff k : validate_signing_key cfg k = true <-> signing_key_rule k.
  Proof.
    unfold validate_signing_key, signing_key_rule. destruct k as [k'|]; [|split; [discriminate|intros [x [E _]]; discriminate]].
    rewrite !andb_true_iff, mem_str_iff, validate_nonce_iff. split.
    - intros [A [B C]]. exists k'. auto.
    - intros [x [E [A [B C]]]]. injection E as <-. auto.
  Qed.

  (* "a delta that is present, non-empty, within the maximum delta size and made only of
     enabled, individually valid patches" (its update commitment is a hash like any other) *)
  Definition delta_rule (od : option delta) : Prop :=
    exists d, od = Some d /\ d_patches d <> [] /\
      Forall (fun p => patch_enabled cfg p = true /\ validate_patch uri_ok url_norm p = true) (d_patches d) /\
      hash_rule (d_update_c d) /\
      (exists c, jcs (img_delta d) = Some c /\ (Z.of_nat (String.length c) <= P_MaxDeltaSize cfg)%Z).

  Lemma validate_delta_iff od : validate_delta cfg uri_ok url_norm od = true <-> delta_rule od.
  Proof.
    unfold validate_delta, delta_rule. destruct od as [d|]; [|split; [discriminate|intros [x [E _]]; discriminate]].
    destruct (d_patches d) as [|p ps] eqn:Ep.
    - split; [discriminate|]. intros [x [E [Hne _]]]. injection E as <-. congruence.
    - rewrite !andb_true_iff, forallb_forall, validate_multihash_iff. unfold delta_size_ok. split.
      + intros [Hf [Hh Hs]]. exists d. rewrite Ep. split; [reflexivity|]. split; [discriminate|]. split; [|split; [exact Hh|]].
        * apply Forall_forall. intros x I. specialize (Hf x I). now apply andb_prop in Hf.
        * destruct (jcs (img_delta d)) as [c|]; [|discriminate]. exists c. split; auto. now apply Z.leb_le.
      + intros [x [E [_ [Hf [Hh [c [Ec Hs]]]]]]]. injection E as <-. rewrite Ep in Hf. split; [|split; [exact Hh|]].
        * intros y I. rewrite Forall_forall in Hf. destruct (Hf y I) as [A B]. now rewrite A, B.
        * rewrite Ec. now apply Z.leb_le.
  Qed.

  (* the members every signed request carries *)
  Definition common_rule (m : obj) (sfx rv sd : string) : Prop :=
    dec_string (field "type" m) <> None /\ dec_string (field "didSuffix" m) = Some sfx /\
    dec_string (field "revealValue" m) = Some rv /\ dec_string (field "signedData" m) = Some sd /\
    sfx <> "" /\ sd <> "" /\ hash_rule rv.

  Lemma common_fields_iff m sfx rv sd : common_fields cfg m = Some (sfx, rv, sd) <-> common_rule m sfx rv sd.
  Proof.
    unfold common_fields, common_rule.
    destruct (dec_string (field "type" m)) as [ty|]; [|split; [discriminate|intros [H _]; congruence]].
    destruct (dec_string (field "didSuffix" m)) as [a|]; [|split; [discriminate|intros [_ [H _]]; discriminate]].
    destruct (dec_string (field "revealValue" m)) as [b|]; [|split; [discriminate|intros [_ [_ [H _]]]; discriminate]].
    destruct (dec_string (field "signedData" m)) as [c|]; [|split; [discriminate|intros [_ [_ [_ [H _]]]]; discriminate]].
    destruct (String.eqb_spec a "") as [->|Ha]; cbn [orb].
    - split; [discriminate|]. intros [_ [E [_ [_ [N _]]]]]. injection E as <-. congruence.
    - destruct (String.eqb_spec c "") as [->|Hc].
      + split; [discriminate|]. intros [_ [_ [_ [E [_ [N _]]]]]]. injection E as <-. congruence.
      + destruct (validate_multihash cfg b) eqn:Ev; cbn [negb].
        * apply validate_multihash_iff in Ev. split.
          -- intros E. injection E as <- <- <-. destruct Ev as [Ev1 Ev2]. repeat split; auto. discriminate.
          -- intros [_ [E1 [E2 [E3 _]]]]. congruence.
        * split; [discriminate|]. intros [_ [_ [E2 [_ [_ [_ Hr]]]]]]. injection E2 as <-.
          apply validate_multihash_iff in Hr. congruence.
  Qed.

  (* the signed data is a compact JWS obeying the header rule *)
  Definition signed_data_rule (compact : string) (j : jws) : Prop :=
    compact <> "" /\ parse_jws compact = Some j /\ headers_rule (j_headers j).

  Lemma parse_signed_data_iff compact j : parse_signed_data cfg compact = Some j <-> signed_data_rule compact j.
  Proof.
    unfold parse_signed_data, signed_data_rule. destruct (String.eqb_spec compact "") as [->|Hn].
    - split; [discriminate|]. intros [N _]. congruence.
    - destruct (parse_jws compact) as [j'|]; [|split; [discriminate|intros [_ [E _]]; discriminate]].
      destruct (validate_headers cfg (j_headers j')) eqn:Eh.
      + apply validate_headers_iff in Eh. split; [intros E; injection E as <-; auto|intros [_ [E _]]; congruence].
      + split; [discriminate|]. intros [_ [E Hh]]. injection E as <-. apply validate_headers_iff in Hh. congruence.
  Qed.

  (* ---- update ---- *)

  Definition update_rules (m : obj) (p : parsed) : Prop :=
    exists sfx rv sd od j pm k dh f u,
      common_rule m sfx rv sd /\ dec_delta (field "delta" m) = Some od /\
      signed_data_rule sd j /\ payload_obj j = Some pm /\
      dec_jwk (field "updateKey" pm) = Some k /\ dec_string (field "deltaHash" pm) = Some dh /\
      dec_int64 (field "anchorFrom" pm) = Some f /\ dec_int64 (field "anchorUntil" pm) = Some u /\
      signing_key_rule k /\ hash_rule dh /\
      (* consulted with the signed window *)
      time_ok f (until_of cfg f u) = true /\
      delta_rule od /\
      (* the next update commitment differs from the commitment of the key being revealed *)
      (exists k' d, k = Some k' /\ od = Some d /\ validate_commitment k' (d_update_c d) = true) /\
      (* the reveal value matches the signing key *)
      key_matches_reveal k rv = true /\
      p = {| p_type := "update"; p_suffix := sfx; p_origin := JNull; p_reveal := rv; p_signed := sd; p_delta := od;
             p_suffix_data := None; p_time_args := Some (f, until_of cfg f u); p_origin_arg := None |}.

  Lemma parse_signed_update_iff sd su :
    parse_signed_update cfg sd = Some su <->
    exists j pm, signed_data_rule sd j /\ payload_obj j = Some pm /\
      dec_jwk (field "updateKey" pm) = Some (su_key su) /\ dec_string (field "deltaHash" pm) = Some (su_delta_hash su) /\
      dec_int64 (field "anchorFrom" pm) = Some (su_from su) /\ dec_int64 (field "anchorUntil" pm) = Some (su_until su) /\
      signing_key_rule (su_key su) /\ hash_rule (su_delta_hash su).
  Proof.
    unfold parse_signed_update. split.
    - destruct (parse_signed_data cfg sd) as [j|] eqn:Ej; [|discriminate]. apply parse_signed_data_iff in Ej.
      destruct (payload_obj j) as [pm|] eqn:Ep; [|discriminate].
      destruct (dec_jwk (field "updateKey" pm)) as [k|] eqn:E1; [|discriminate]. destruct (dec_string (field "deltaHash" pm)) as [dh|] eqn:E2; [|discriminate].
      destruct (dec_int64 (field "anchorFrom" pm)) as [f|] eqn:E3; [|discriminate]. destruct (dec_int64 (field "anchorUntil" pm)) as [u|] eqn:E4; [|discriminate].
      destruct (validate_signing_key cfg k) eqn:Ek; [|discriminate]. destruct (validate_multihash cfg dh) eqn:Eh; [|discriminate].
      cbn [andb]. intros E. injection E as <-. cbn. exists j, pm. apply validate_signing_key_iff in Ek. apply validate_multihash_iff in Eh. repeat split; auto. all: try apply Ej; try apply Eh.
    - intros [j [pm [Hj [Hp [A [B [C [D [Hk Hh]]]]]]]]]. apply parse_signed_data_iff in Hj. rewrite Hj, Hp, A, B, C, D.
      apply validate_signing_key_iff in Hk. apply validate_multihash_iff in Hh. rewrite Hk, Hh. cbn [andb]. destruct su; reflexivity.
  Qed.

  Theorem update_accept_iff m p : parse_update cfg uri_ok url_norm time_ok m false = Some p <-> update_rules m p.
  Proof.
    unfold parse_update, update_rules. split.
    - destruct (common_fields cfg m) as [[[sfx rv] sd]|] eqn:Ec; [|discriminate]. apply common_fields_iff in Ec.
      destruct (dec_delta (field "delta" m)) as [od|] eqn:Ed; [|discriminate].
      destruct (parse_signed_update cfg sd) as [su|] eqn:Es; [|discriminate]. apply parse_signed_update_iff in Es.
      destruct Es as [j [pm [Hj [Hp [A [B [C [D [Hk Hh]]]]]]]]].
      destruct (time_ok (su_from su) (until_of cfg (su_from su) (su_until su))) eqn:Et; cbn [andb negb]; [|discriminate].
      destruct (validate_delta cfg uri_ok url_norm od) eqn:Ev; cbn [andb negb]; [|discriminate]. apply validate_delta_iff in Ev.
      destruct (su_key su) as [k'|] eqn:Ek; [|discriminate]. destruct od as [d|]; [|discriminate].
      destruct (validate_commitment k' (d_update_c d)) eqn:Evc; cbn [negb]; [|discriminate].
      destruct (key_matches_reveal (Some k') rv) eqn:Er; cbn [negb]; [|discriminate].
      intros E. injection E as <-.
      exists sfx, rv, sd, (Some d), j, pm, (Some k'), (su_delta_hash su), (su_from su), (su_until su).
      repeat split; auto; try apply Ec; try apply Hj; try apply Hh; try apply Ev. exists k', d. auto.
    - intros (sfx & rv & sd & od & j & pm & k & dh & f & u & Hc & Hd & Hj & Hp & A & B & C & D & Hk & Hh & Ht & Hdr & (k' & d & Ek & Eo & Hvc) & Hr & ->).
      apply common_fields_iff in Hc. rewrite Hc, Hd.
      assert (Hs : parse_signed_update cfg sd = Some {| su_key := k; su_delta_hash := dh; su_from := f; su_until := u |}).
      { apply parse_signed_update_iff. exists j, pm. cbn. auto 10. }
      rewrite Hs. cbn [su_from su_until su_key]. rewrite Ht. apply validate_delta_iff in Hdr. rewrite Hdr. subst k od. rewrite Hvc.
      cbn [andb negb]. rewrite Hr. reflexivity.
  Qed.

  (* ---- deactivate ---- *)

  Definition deactivate_rules (m : obj) (p : parsed) : Prop :=
    exists sfx rv sd j pm signed_sfx k f u,
      common_rule m sfx rv sd /\ signed_data_rule sd j /\ payload_obj j = Some pm /\
      dec_string (field "didSuffix" pm) = Some signed_sfx /\ dec_string (field "revealValue" pm) <> None /\
      dec_jwk (field "recoveryKey" pm) = Some k /\
      dec_int64 (field "anchorFrom" pm) = Some f /\ dec_int64 (field "anchorUntil" pm) = Some u /\
      signing_key_rule k /\
      (* "for deactivate a signed suffix equal to the request's" *)
      signed_sfx = sfx /\
      key_matches_reveal k rv = true /\
      time_ok f (until_of cfg f u) = true /\
      p = {| p_type := "deactivate"; p_suffix := sfx; p_origin := JNull; p_reveal := rv; p_signed := sd; p_delta := None;
             p_suffix_data := None; p_time_args := Some (f, until_of cfg f u); p_origin_arg := None |}.

  Theorem deactivate_accept_iff m p : parse_deactivate cfg time_ok m false = Some p <-> deactivate_rules m p.
  Proof.
    unfold parse_deactivate, deactivate_rules, parse_signed_deactivate. split.
    - destruct (common_fields cfg m) as [[[sfx rv] sd]|] eqn:Ec; [|discriminate]. apply common_fields_iff in Ec.
      destruct (parse_signed_data cfg sd) as [j|] eqn:Ej; [|discriminate]. apply parse_signed_data_iff in Ej.
      destruct (payload_obj j) as [pm|] eqn:Ep; [|discriminate].
      destruct (dec_string (field "didSuffix" pm)) as [ss|] eqn:E1; [|discriminate].
      destruct (dec_string (field "revealValue" pm)) as [srv|] eqn:E2; [|discriminate].
      destruct (dec_jwk (field "recoveryKey" pm)) as [k|] eqn:E3; [|discriminate].
      destruct (dec_int64 (field "anchorFrom" pm)) as [f|] eqn:E4; [|discriminate].
      destruct (dec_int64 (field "anchorUntil" pm)) as [u|] eqn:E5; [|discriminate].
      destruct (validate_signing_key cfg k) eqn:Ek; [|discriminate]. apply validate_signing_key_iff in Ek. cbn [sx_suffix sx_key sx_from sx_until].
      destruct (String.eqb_spec ss sfx) as [->|]; cbn [negb]; [|discriminate].
      destruct (key_matches_reveal k rv) eqn:Er; cbn [negb]; [|discriminate].
      destruct (time_ok f (until_of cfg f u)) eqn:Et; cbn [negb andb]; [|discriminate].
      intros E. injection E as <-. exists sfx, rv, sd, j, pm, sfx, k, f, u. rewrite E2. repeat split; auto; try apply Ec; try apply Ej. discriminate.
    - intros (sfx & rv & sd & j & pm & ss & k & f & u & Hc & Hj & Hp & E1 & E2 & E3 & E4 & E5 & Hk & -> & Hr & Ht & ->).
      apply common_fields_iff in Hc. apply parse_signed_data_iff in Hj. apply validate_signing_key_iff in Hk.
      rewrite Hc, Hj, Hp, E1, E3, E4, E5. destruct (dec_string (field "revealValue" pm)); [|congruence].
      rewrite Hk. cbn [sx_suffix sx_key sx_from sx_until]. rewrite String.eqb_refl, Hr, Ht. reflexivity.
  Qed.

  (* ---- recover ---- *)

  Definition recover_rules (m : obj) (p : parsed) : Prop :=
    exists sfx rv sd od j pm dh k rc o f u,
      common_rule m sfx rv sd /\ dec_delta (field "delta" m) = Some od /\
      signed_data_rule sd j /\ payload_obj j = Some pm /\
      dec_string (field "deltaHash" pm) = Some dh /\ dec_jwk (field "recoveryKey" pm) = Some k /\
      dec_string (field "recoveryCommitment" pm) = Some rc /\ dec_any (field "anchorOrigin" pm) = Some o /\
      dec_int64 (field "anchorFrom" pm) = Some f /\ dec_int64 (field "anchorUntil" pm) = Some u /\
      signing_key_rule k /\ hash_rule rc /\ hash_rule dh /\
      (* the next recovery commitment differs from the commitment of the key being revealed *)
      (exists k', k = Some k' /\ validate_commitment k' rc = true) /\
      origin_ok o = true /\ time_ok f (until_of cfg f u) = true /\ delta_rule od /\
      (* "next commitments that differ from each other" *)
      (match od with Some d => d_update_c d | None => "" end) <> rc /\
      key_matches_reveal k rv = true /\
      p = {| p_type := "recover"; p_suffix := sfx; p_origin := o; p_reveal := rv; p_signed := sd; p_delta := od;
             p_suffix_data := None; p_time_args := Some (f, until_of cfg f u); p_origin_arg := Some o |}.

  Theorem recover_accept_iff m p : parse_recover cfg uri_ok url_norm origin_ok time_ok m false = Some p <-> recover_rules m p.
  Proof.
    unfold parse_recover, recover_rules, parse_signed_recover. split.
    - destruct (common_fields cfg m) as [[[sfx rv] sd]|] eqn:Ec; [|discriminate]. apply common_fields_iff in Ec.
      destruct (dec_delta (field "delta" m)) as [od|] eqn:Ed; [|discriminate].
      destruct (parse_signed_data cfg sd) as [j|] eqn:Ej; [|discriminate]. apply parse_signed_data_iff in Ej.
      destruct (payload_obj j) as [pm|] eqn:Ep; [|discriminate].
      destruct (dec_string (field "deltaHash" pm)) as [dh|] eqn:E1; [|discriminate].
      destruct (dec_jwk (field "recoveryKey" pm)) as [k|] eqn:E2; [|discriminate].
      destruct (dec_string (field "recoveryCommitment" pm)) as [rc|] eqn:E3; [|discriminate].
      destruct (dec_any (field "anchorOrigin" pm)) as [o|] eqn:E4; [|discriminate].
      destruct (dec_int64 (field "anchorFrom" pm)) as [f|] eqn:E5; [|discriminate].
      destruct (dec_int64 (field "anchorUntil" pm)) as [u|] eqn:E6; [|discriminate].
      destruct (validate_signing_key cfg k) eqn:Ek; [|discriminate]. apply validate_signing_key_iff in Ek.
      destruct (validate_multihash cfg rc) eqn:Erc; [|discriminate]. apply validate_multihash_iff in Erc.
      destruct (validate_multihash cfg dh) eqn:Edh; [|discriminate]. apply validate_multihash_iff in Edh.
      destruct k as [k'|]; [|discriminate]. destruct (validate_commitment k' rc) eqn:Evc; [|discriminate].
      cbn [andb sr_from sr_until sr_origin sr_key sr_recovery_c].
      destruct (origin_ok o) eqn:Eo; cbn [andb negb]; [|discriminate].
      destruct (time_ok f (until_of cfg f u)) eqn:Et; cbn [andb negb]; [|discriminate].
      destruct (validate_delta cfg uri_ok url_norm od) eqn:Ev; cbn [andb negb]; [|discriminate]. apply validate_delta_iff in Ev.
      destruct (String.eqb_spec (match od with Some d => d_update_c d | None => "" end) rc) as [|Hne]; cbn [negb]; [discriminate|].
      destruct (key_matches_reveal (Some k') rv) eqn:Er; cbn [negb]; [|discriminate].
      intros E. injection E as <-. exists sfx, rv, sd, od, j, pm, dh, (Some k'), rc, o, f, u.
      repeat split; auto; try apply Ec; try apply Ej; try apply Erc; try apply Edh; try apply Ev; try (exists k'; auto).
    - intros (sfx & rv & sd & od & j & pm & dh & k & rc & o & f & u & Hc & Hd & Hj & Hp & E1 & E2 & E3 & E4 & E5 & E6 & Hk & Hrc & Hdh & (k' & -> & Hvc) & Ho & Ht & Hdr & Hne & Hr & ->).
      apply common_fields_iff in Hc. apply parse_signed_data_iff in Hj. apply validate_signing_key_iff in Hk.
      apply validate_multihash_iff in Hrc, Hdh. apply validate_delta_iff in Hdr.
      rewrite Hc, Hd, Hj, Hp, E1, E2, E3, E4, E5, E6, Hk, Hrc, Hdh, Hvc. cbn [andb sr_from sr_until sr_origin sr_key sr_recovery_c].
      rewrite Ho, Ht, Hdr. cbn [andb]. apply String.eqb_neq in Hne. rewrite Hne. cbn [negb]. rewrite Hr. reflexivity.
  Qed.

  (* ---- create ---- *)

  Definition create_rules (m : obj) (p : parsed) : Prop :=
    exists sd od a rest sfx,
      dec_string (field "type" m) <> None /\
      dec_suffix_data (field "suffixData" m) = Some (Some sd) /\ dec_delta (field "delta" m) = Some od /\
      hash_rule (sd_recovery_c sd) /\ hash_rule (sd_delta_hash sd) /\
      origin_ok (sd_origin sd) = true /\ delta_rule od /\
      (* the delta is the one whose hash the suffix data records *)
      valid_mh (img_delta_opt od) (sd_delta_hash sd) = true /\
      (* "next commitments that differ from each other" *)
      (match od with Some d => d_update_c d | None => "" end) <> sd_recovery_c sd /\
      algs = a :: rest /\ calc_mh (img_suffix_data sd) a = Some sfx /\
      p = {| p_type := "create"; p_suffix := sfx; p_origin := sd_origin sd; p_reveal := ""; p_signed := ""; p_delta := od;
             p_suffix_data := Some sd; p_time_args := None; p_origin_arg := Some (sd_origin sd) |}.

  Theorem create_accept_iff m p : parse_create cfg uri_ok url_norm origin_ok m false = Some p <-> create_rules m p.
  Proof.
    unfold parse_create, create_rules. split.
    - destruct (dec_string (field "type" m)) as [ty|] eqn:E0; [|discriminate].
      destruct (dec_suffix_data (field "suffixData" m)) as [[sd|]|] eqn:E1; try discriminate;
        try (destruct (dec_delta (field "delta" m)); discriminate).
      destruct (dec_delta (field "delta" m)) as [od|] eqn:E2; [|discriminate].
      destruct (validate_multihash cfg (sd_recovery_c sd)) eqn:Ea; cbn [andb negb]; [|discriminate]. apply validate_multihash_iff in Ea.
      destruct (validate_multihash cfg (sd_delta_hash sd)) eqn:Eb; cbn [andb negb]; [|discriminate]. apply validate_multihash_iff in Eb.
      destruct (origin_ok (sd_origin sd)) eqn:Eo; cbn [andb negb]; [|discriminate].
      destruct (validate_delta cfg uri_ok url_norm od) eqn:Ev; cbn [andb negb]; [|discriminate]. apply validate_delta_iff in Ev.
      destruct (valid_mh (img_delta_opt od) (sd_delta_hash sd)) eqn:Eh; cbn [andb negb]; [|discriminate].
      destruct (String.eqb_spec (match od with Some d => d_update_c d | None => "" end) (sd_recovery_c sd)) as [|Hne]; cbn [negb]; [discriminate|].
      destruct algs as [|a rest] eqn:Eal; [discriminate|].
      destruct (calc_mh (img_suffix_data sd) a) as [sfx|] eqn:Ecm; [|discriminate].
      intros E. injection E as <-. exists sd, od, a, rest, sfx. repeat split; auto; try discriminate; try apply Ea; try apply Eb; try apply Ev.
    - intros (sd & od & a & rest & sfx & H0 & E1 & E2 & Ha & Hb & Ho & Hdr & Hh & Hne & Eal & Ecm & ->).
      destruct (dec_string (field "type" m)); [|congruence]. rewrite E1, E2.
      apply validate_multihash_iff in Ha, Hb. apply validate_delta_iff in Hdr. rewrite Ha, Hb, Ho, Hdr, Hh. cbn [andb negb].
      apply String.eqb_neq in Hne. rewrite Hne. cbn [negb]. rewrite Eal, Ecm. reflexivity.
  Qed.

  (* ---- the whole request ---- *)

  Definition obeys (m : obj) (p : parsed) : Prop :=
    exists ty, dec_string (field "type" m) = Some ty /\
      ((ty = "create" /\ create_rules m p) \/ (ty = "update" /\ update_rules m p) \/
       (ty = "deactivate" /\ deactivate_rules m p) \/ (ty = "recover" /\ recover_rules m p)).

  (* "size within the maximum operation size, a known type, ..." *)
  Theorem accept_iff_rules bytes p :
    parse_operation cfg uri_ok url_norm origin_ok time_ok bytes false = Some p <->
    (Z.of_nat (String.length bytes) <= P_MaxOperationSize cfg)%Z /\
    exists m, parse_json bytes = Some (JObj m) /\ obeys m p.
  Proof.
    unfold parse_operation, top_object, obeys.
    destruct (Z.ltb_spec (P_MaxOperationSize cfg) (Z.of_nat (String.length bytes))) as [Hs|Hs].
    - split; [discriminate|]. intros [H _]. lia.
    - destruct (parse_json bytes) as [[| | | | |m]|]; try (split; [discriminate|intros [_ [m' [E _]]]; discriminate]).
      destruct (dec_string (field "type" m)) as [ty|] eqn:Et.
      2:{ split; [discriminate|]. intros [_ [m' [E [ty [E2 _]]]]]. injection E as <-. congruence. }
      split.
      + intros H. split; [exact Hs|]. exists m. split; [reflexivity|]. exists ty. split; [exact Et|].
        destruct (String.eqb_spec ty "create") as [->|N1]; [left; split; auto; now apply create_accept_iff|].
        destruct (String.eqb_spec ty "update") as [->|N2]; [right; left; split; auto; now apply update_accept_iff|].
        destruct (String.eqb_spec ty "deactivate") as [->|N3]; [right; right; left; split; auto; now apply deactivate_accept_iff|].
        destruct (String.eqb_spec ty "recover") as [->|N4]; [right; right; right; split; auto; now apply recover_accept_iff|discriminate].
      + intros [_ [m' [E [ty' [Ety R]]]]]. injection E as <-. rewrite Et in Ety. injection Ety as <-.
        destruct R as [[-> R]|[[-> R]|[[-> R]|[-> R]]]]; cbn [String.eqb Ascii.eqb Bool.eqb].
        * now apply create_accept_iff.
        * now apply update_accept_iff.
        * now apply deactivate_accept_iff.
        * now apply recover_accept_iff.
  Qed.
End Rules.
