(* Public keys in JWK form (pkg/util/pubkey/jwk.go, pkg/jwsutil/jwk.go; NIST curves and
   Ed25519 go through go-jose, modelled to the same fixed-width contract). *)
From Coq Require Import ZArith NArith Arith String List Bool Lia.
From Sidetree Require Import Base.Sha2 Base.Base64url Json.Json Sidetree.Parser.
Import ListNotations.
Open Scope string_scope.

Record curve := { c_name : string; c_size : nat; c_p : Z; c_a : Z; c_b : Z; c_hash : string }.

Definition curves : list curve := [
  {| c_name := "P-256"; c_size := 32; c_p := 115792089210356248762697446949407573530086143415290314195533631308867097853951; c_a := -3; c_b := 41058363725152142129326129780047268409114441015993725554835256314039467401291; c_hash := "SHA256" |};
  {| c_name := "P-384"; c_size := 48; c_p := 39402006196394479212279040100143613805079739270465446667948293404245721771496870329047266088258938001861606973112319; c_a := -3; c_b := 27580193559959705877849011840389048093056905856361568521428707301988689241309860865136260764883745107765439761230575; c_hash := "SHA384" |};
  {| c_name := "P-521"; c_size := 66; c_p := 6864797660130609714981900799081393217269435300143305409394463459185543183397656052122559640661454554977296311391480858037121987999716643812574028291115057151; c_a := -3; c_b := 1093849038073734274511112390766805569936207598951683748994586394495953116150735016013708737573759623248592132296706313309438452531591012912142327488478985984; c_hash := "SHA512" |};
  {| c_name := "secp256k1"; c_size := 32; c_p := 115792089237316195423570985008687907853269984665640564039457584007908834671663; c_a := 0; c_b := 7; c_hash := "SHA256" |}
].

Definition find_curve (name : string) : option curve := find (fun c => String.eqb (c_name c) name) curves.

(* elliptic.Curve.IsOnCurve: coordinates in [0, p) and y^2 = x^3 + a x + b (mod p) *)
Definition on_curve (c : curve) (x y : Z) : bool :=
  (0 <=? x)%Z && (x <? c_p c)%Z && (0 <=? y)%Z && (y <? c_p c)%Z &&
  (((y * y - (x * x * x + c_a c * x + c_b c)) mod c_p c) =? 0)%Z.

(* fixed-width big-endian: newFixedSizeBuffer / copyPadded *)
Definition be_fixed (w : nat) (z : Z) : string := string_of_bytes (be_bytes w (Z.to_N z)).

Fixpoint be_value (acc : N) (l : list N) : N :=
  match l with [] => acc | b :: r => be_value (acc * 256 + b) r end.
Definition be_decode (s : string) : Z := Z.of_N (be_value 0 (bytes_of_string s)).

(* GetPublicKeyJWK for an EC key *)
Definition jwk_of_ec (c : curve) (x y : Z) : jwk :=
  {| k_kty := "EC"; k_crv := c_name c; k_x := b64_encode (be_fixed (c_size c) x); k_y := b64_encode (be_fixed (c_size c) y);
     k_n := ""; k_e := ""; k_nonce := "" |}.

(* JWK.UnmarshalJSON for an EC key: coordinates of exactly the curve's width, point on the curve *)
Definition ec_of_jwk (k : jwk) : option (curve * Z * Z) :=
  if negb (String.eqb (k_kty k) "EC") then None else
  match find_curve (k_crv k) with
  | None => None
  | Some c =>
      match b64_decode (k_x k), b64_decode (k_y k) with
      | Some xb, Some yb =>
          if negb (andb (Nat.eqb (String.length xb) (c_size c)) (Nat.eqb (String.length yb) (c_size c))) then None else
          let x := be_decode xb in let y := be_decode yb in
          if on_curve c x y then Some (c, x, y) else None
      | _, _ => None
      end
  end.

(* Ed25519 *)
Definition jwk_of_ed (pub : string) : jwk :=
  {| k_kty := "OKP"; k_crv := "Ed25519"; k_x := b64_encode pub; k_y := ""; k_n := ""; k_e := ""; k_nonce := "" |}.

Definition ed_of_jwk (k : jwk) : option string :=
  if negb (andb (String.eqb (k_kty k) "OKP") (String.eqb (k_crv k) "Ed25519")) then None else
  match b64_decode (k_x k) with
  | Some pub => if Nat.eqb (String.length pub) 32 then Some pub else None
  | None => None
  end.

(* ---- fixed width round trip ---- *)

Lemma be_bytes_bytes n : forall x, Forall is_byte (be_bytes n x).
Proof.
  induction n as [|n IH]; intros x; cbn; [constructor|].
  apply Forall_app. split; [apply IH|]. repeat constructor. unfold is_byte. apply N.mod_upper_bound. discriminate.
Qed.

Lemma be_value_app l1 : forall acc l2, be_value acc (l1 ++ l2) = be_value (be_value acc l1) l2.
Proof. induction l1 as [|b l1 IH]; intros acc l2; cbn; [reflexivity|apply IH]. Qed.

Lemma be_value_bytes n : forall x acc, be_value acc (be_bytes n x) = (acc * 256 ^ N.of_nat n + x mod 256 ^ N.of_nat n)%N.
Proof.
  induction n as [|n IH]; intros x acc.
  - cbn. rewrite N.mod_1_r. lia.
  - cbn [be_bytes]. rewrite be_value_app, IH. cbn [be_value].
    replace (N.of_nat (S n)) with (N.succ (N.of_nat n)) by lia. rewrite N.pow_succ_r'.
    set (m := (256 ^ N.of_nat n)%N). assert (Hm : (m <> 0)%N) by (apply N.pow_nonzero; discriminate).
    (* x mod (256 m) = 256 ((x/256) mod m) + x mod 256 *)
    assert (E : (x mod (256 * m) = 256 * ((x / 256) mod m) + x mod 256)%N).
    { rewrite N.mod_mul_r by (try discriminate; assumption). lia. }
    rewrite E. lia.
Qed.

Theorem be_decode_fixed w z :
  (0 <= z < 256 ^ Z.of_nat w)%Z -> be_decode (be_fixed w z) = z /\ String.length (be_fixed w z) = w.
Proof.
  intros Hz. unfold be_decode, be_fixed. split.
  - rewrite bytes_of_string_of_bytes by apply be_bytes_bytes.
    rewrite be_value_bytes. rewrite N.mul_0_l, N.add_0_l.
    rewrite N.mod_small.
    + apply Z2N.id. lia.
    + apply N2Z.inj_lt. rewrite Z2N.id by lia. rewrite N2Z.inj_pow. rewrite nat_N_Z. exact (proj2 Hz).
  - rewrite string_of_bytes_length. apply be_bytes_len.
Qed.

(* ---- JWK round trip for the four Weierstrass curves ---- *)

Lemma curves_facts c : In c curves -> find_curve (c_name c) = Some c /\ (c_p c <= 256 ^ Z.of_nat (c_size c))%Z.
Proof.
  intros H. cbn in H. destruct H as [<-|[<-|[<-|[<-|[]]]]]; split; try reflexivity; vm_compute; discriminate.
Qed.

Theorem ec_jwk_roundtrip c x y :
  In c curves -> on_curve c x y = true -> ec_of_jwk (jwk_of_ec c x y) = Some (c, x, y).
Proof.
  intros Hc Hon. destruct (curves_facts c Hc) as [Hf Hp].
  pose proof Hon as Hon'.
  unfold on_curve in Hon. repeat (apply andb_prop in Hon; destruct Hon as [Hon ?]).
  assert (Hx : (0 <= x < 256 ^ Z.of_nat (c_size c))%Z) by lia.
  assert (Hy : (0 <= y < 256 ^ Z.of_nat (c_size c))%Z) by lia.
  destruct (be_decode_fixed _ _ Hx) as [Dx Lx]. destruct (be_decode_fixed _ _ Hy) as [Dy Ly].
  unfold ec_of_jwk, jwk_of_ec. cbn [k_kty k_crv k_x k_y].
  replace (String.eqb "EC" "EC") with true by reflexivity. cbn [negb].
  rewrite Hf, !b64_decode_encode, Lx, Ly, !Nat.eqb_refl. cbn [andb negb]. rewrite Dx, Dy, Hon'. reflexivity.
Qed.

Theorem ec_coord_width c x y :
  In c curves -> on_curve c x y = true ->
  option_map String.length (b64_decode (k_x (jwk_of_ec c x y))) = Some (c_size c) /\
  option_map String.length (b64_decode (k_y (jwk_of_ec c x y))) = Some (c_size c).
Proof.
  intros Hc Hon. destruct (curves_facts c Hc) as [_ Hp].
  unfold on_curve in Hon. repeat (apply andb_prop in Hon; destruct Hon as [Hon ?]).
  cbn [jwk_of_ec k_x k_y]. rewrite !b64_decode_encode. cbn [option_map].
  split; f_equal; apply be_decode_fixed; lia.
Qed.

Theorem ec_wrong_width_rejected k c xb yb :
  k_kty k = "EC" -> find_curve (k_crv k) = Some c -> b64_decode (k_x k) = Some xb -> b64_decode (k_y k) = Some yb ->
  (String.length xb <> c_size c \/ String.length yb <> c_size c) -> ec_of_jwk k = None.
Proof.
  intros Hk Hc Hx Hy Hw. unfold ec_of_jwk. rewrite Hk, Hc, Hx, Hy. cbn [String.eqb negb].
  replace (String.eqb "EC" "EC") with true by reflexivity. cbn [negb].
  destruct Hw as [Hw|Hw]; apply Nat.eqb_neq in Hw; rewrite Hw; [reflexivity|now rewrite andb_false_r].
Qed.

Theorem ec_off_curve_rejected k c x y :
  ec_of_jwk k = Some (c, x, y) -> on_curve c x y = true.
Proof.
  unfold ec_of_jwk. destruct (negb _); [discriminate|]. destruct (find_curve _) as [c'|]; [|discriminate].
  destruct (b64_decode (k_x k)) as [xb|]; [|discriminate]. destruct (b64_decode (k_y k)) as [yb|]; [|discriminate].
  destruct (negb _); [discriminate|].
  destruct (on_curve c' (be_decode xb) (be_decode yb)) eqn:E; [|discriminate].
  intros H. injection H as <- <- <-. exact E.
Qed.

Theorem ed_jwk_roundtrip pub : String.length pub = 32%nat -> ed_of_jwk (jwk_of_ed pub) = Some pub.
Proof.
  intros H. unfold ed_of_jwk, jwk_of_ed. cbn [k_kty k_crv k_x]. rewrite b64_decode_encode, H. reflexivity.
Qed.

