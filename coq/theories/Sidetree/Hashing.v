(* pkg/hashing/hash.go, pkg/commitment/hash.go, pkg/docutil/doc.go over JSON trees.
   Generic in the two hash functions (only their output lengths are used by the theorems);
   instantiated with the executable SHA-256 / SHA-512 at the end. *)
From Coq Require Import NArith Arith String List Bool Lia.
From Sidetree Require Import Base.Sha2 Base.Base64url Base.Multihash Json.Json Json.Jcs.
Import ListNotations.
Open Scope string_scope.

Section Hashing.
  Variable h256 h512 : string -> string.
  Hypothesis h256_len : forall s, String.length (h256 s) = 32%nat.
  Hypothesis h512_len : forall s, String.length (h512 s) = 64%nat.

  (* GetHashFromMultihash *)
  Definition hash_fn (code : N) : option (string -> string) :=
    if (code =? 18)%N then Some h256 else if (code =? 19)%N then Some h512 else None.

  (* ComputeMultihash *)
  Definition compute_multihash (code : N) (bytes : string) : option string :=
    match hash_fn code with
    | Some h => Some (mh_encode code (h bytes))
    | None => None
    end.

  (* CalculateModelMultihash on a value whose canonical form exists *)
  Definition calc_model_mh (v : json) (code : N) : option string :=
    match jcs v with
    | Some c => option_map b64_encode (compute_multihash code c)
    | None => None
    end.

  (* GetMultihash / GetMultihashCode *)
  Definition get_multihash (s : string) : option (N * string) :=
    match b64_decode s with Some b => mh_decode b | None => None end.
  Definition get_mh_code (s : string) : option N := option_map fst (get_multihash s).

  (* IsComputedUsingMultihashAlgorithms *)
  Definition is_computed_using (s : string) (codes : list N) : bool :=
    match get_mh_code s with
    | Some c => existsb (N.eqb c) codes
    | None => false
    end.

  (* IsValidModelMultihash: true = nil error *)
  Definition is_valid_model_mh (v : json) (s : string) : bool :=
    match get_mh_code s with
    | Some c => match calc_model_mh v c with
                | Some e => String.eqb e s
                | None => false
                end
    | None => false
    end.

  (* docutil.CalculateID *)
  Definition calculate_id (ns : string) (v : json) (code : N) : option string :=
    option_map (fun sfx => ns ++ ":" ++ sfx) (calc_model_mh v code).

  (* commitment.GetRevealValue / GetCommitment / GetCommitmentFromRevealValue *)
  Definition reveal_value (jwk : json) (code : N) : option string := calc_model_mh jwk code.

  Definition commitment (jwk : json) (code : N) : option string :=
    match jcs jwk, hash_fn code with
    | Some data, Some h => option_map b64_encode (compute_multihash code (h data))
    | _, _ => None
    end.

  Definition commitment_from_reveal (rv : string) : option string :=
    match get_multihash rv with
    | Some (code, digest) => option_map b64_encode (compute_multihash code digest)
    | None => None
    end.

  (* ---- algebra ---- *)

  Lemma hash_fn_len code h x : hash_fn code = Some h -> (0 < String.length (h x) < 128)%nat /\ (code < 128)%N.
  Proof.
    unfold hash_fn. destruct (N.eqb_spec code 18) as [->|].
    - intros E; injection E as <-. rewrite h256_len. split; lia.
    - destruct (N.eqb_spec code 19) as [->|]; [|discriminate].
      intros E; injection E as <-. rewrite h512_len. split; lia.
  Qed.

  Lemma hash_fn_supported code : (exists h, hash_fn code = Some h) <-> code = 18%N \/ code = 19%N.
  Proof.
    unfold hash_fn. destruct (N.eqb_spec code 18) as [E|NE].
    - split; [intros _; left; exact E | intros _; eexists; reflexivity].
    - destruct (N.eqb_spec code 19) as [E|NE2].
      + split; [intros _; right; exact E | intros _; eexists; reflexivity].
      + split; [intros [h H]; discriminate | intros [E|E]; contradiction].
  Qed.

  Lemma get_multihash_compute code bytes e :
    compute_multihash code bytes = Some e ->
    exists h, hash_fn code = Some h /\ get_multihash (b64_encode e) = Some (code, h bytes).
  Proof.
    unfold compute_multihash. destruct (hash_fn code) as [h|] eqn:Hh; [|discriminate].
    intros E; injection E as <-. exists h. split; [reflexivity|].
    unfold get_multihash. rewrite b64_decode_encode.
    destruct (hash_fn_len code h bytes Hh) as [Hl Hc]. apply mh_decode_encode; assumption.
  Qed.

  (* The code reported for a computed hash is the code it was computed with. *)
  Theorem code_of_calc v code s : calc_model_mh v code = Some s -> get_mh_code s = Some code.
  Proof.
    unfold calc_model_mh. destruct (jcs v) as [c|]; [|discriminate].
    destruct (compute_multihash code c) as [e|] eqn:E; [|discriminate]. cbn. intros H; injection H as <-.
    destruct (get_multihash_compute _ _ _ E) as (h & _ & G). unfold get_mh_code. now rewrite G.
  Qed.

  Theorem calc_supported v code c :
    jcs v = Some c -> (exists s, calc_model_mh v code = Some s) <-> code = 18%N \/ code = 19%N.
  Proof.
    intros J. unfold calc_model_mh, compute_multihash. rewrite J. rewrite <- hash_fn_supported.
    destruct (hash_fn code); cbn; split; eauto; intros [s H]; discriminate.
  Qed.

  Theorem calc_def v code c h :
    jcs v = Some c -> hash_fn code = Some h ->
    calc_model_mh v code = Some (b64_encode (mh_encode code (h c))).
  Proof. intros J H. unfold calc_model_mh, compute_multihash. now rewrite J, H. Qed.

  (* validation succeeds on a hash computed from the same value ... *)
  Theorem valid_of_calc v code s : calc_model_mh v code = Some s -> is_valid_model_mh v s = true.
  Proof.
    intros H. unfold is_valid_model_mh. rewrite (code_of_calc _ _ _ H), H. apply String.eqb_refl.
  Qed.

  (* ... and exactly then: *)
  Theorem valid_iff v s :
    is_valid_model_mh v s = true <-> exists c, get_mh_code s = Some c /\ calc_model_mh v c = Some s.
  Proof.
    unfold is_valid_model_mh. split.
    - destruct (get_mh_code s) as [c|]; [|discriminate].
      destruct (calc_model_mh v c) as [e|] eqn:E; [|discriminate].
      intros H. apply String.eqb_eq in H. subst. eauto.
    - intros (c & -> & ->). apply String.eqb_refl.
  Qed.

  Lemma mh_encode_inj code d1 d2 :
    String.length d1 = String.length d2 -> mh_encode code d1 = mh_encode code d2 -> d1 = d2.
  Proof.
    unfold mh_encode, mh_encode_bytes. intros L E.
    assert (Lb : length (bytes_of_string d1) = length (bytes_of_string d2)).
    { unfold bytes_of_string. rewrite !map_length.
      clear E. revert d2 L. induction d1; destruct d2; cbn; intros; try discriminate; auto. }
    apply (f_equal bytes_of_string) in E.
    rewrite !bytes_of_string_of_bytes in E.
    - rewrite Lb in E. apply app_inv_head in E. apply app_inv_head in E.
      rewrite <- (string_of_bytes_of_string d1), <- (string_of_bytes_of_string d2). now rewrite E.
    - apply mh_encode_bytes_bytes, bytes_of_string_bytes.
    - apply mh_encode_bytes_bytes, bytes_of_string_bytes.
  Qed.

  (* Content addressing: a hash computed from w validates v only if the canonical forms are
     equal, or the pair is an explicit collision of the hash function. *)
  Theorem valid_content v w code s cv cw h :
    jcs v = Some cv -> jcs w = Some cw -> hash_fn code = Some h ->
    calc_model_mh w code = Some s -> is_valid_model_mh v s = true ->
    cv = cw \/ (cv <> cw /\ h cv = h cw).
  Proof.
    intros Jv Jw Hh Cw V.
    apply valid_iff in V. destruct V as (c & Gc & Cv).
    rewrite (code_of_calc _ _ _ Cw) in Gc. injection Gc as <-.
    rewrite (calc_def _ _ _ _ Jv Hh) in Cv. rewrite (calc_def _ _ _ _ Jw Hh) in Cw.
    injection Cv as Ev. injection Cw as Ew. rewrite <- Ew in Ev.
    apply b64_encode_injective in Ev.
    apply mh_encode_inj in Ev.
    - destruct (string_dec cv cw); [left; assumption|right; split; assumption].
    - unfold hash_fn in Hh. destruct (code =? 18)%N; [injection Hh as <-; now rewrite !h256_len|].
      destruct (code =? 19)%N; [injection Hh as <-; now rewrite !h512_len|discriminate].
  Qed.

  Theorem computed_using_iff s codes :
    is_computed_using s codes = true <-> exists c, get_mh_code s = Some c /\ In c codes.
  Proof.
    unfold is_computed_using. destruct (get_mh_code s) as [c|].
    - rewrite existsb_exists. split.
      + intros (x & Hin & E). apply N.eqb_eq in E. subst. eauto.
      + intros (c' & E & Hin). injection E as <-. exists c. split; [assumption|apply N.eqb_refl].
    - split; [discriminate|]. intros (c & E & _). discriminate.
  Qed.

  (* C04: commitment / reveal algebra *)
  Theorem commitment_of_reveal jwk code rv :
    reveal_value jwk code = Some rv -> commitment_from_reveal rv = commitment jwk code.
  Proof.
    unfold reveal_value, calc_model_mh, commitment, commitment_from_reveal.
    destruct (jcs jwk) as [data|]; [|discriminate].
    destruct (compute_multihash code data) as [e|] eqn:E; [|discriminate]. cbn. intros H; injection H as <-.
    destruct (get_multihash_compute _ _ _ E) as (h & Hh & G). rewrite G, Hh. reflexivity.
  Qed.

  Theorem reveal_supported jwk code data :
    jcs jwk = Some data -> (code = 18%N \/ code = 19%N) ->
    exists rv c, reveal_value jwk code = Some rv /\ commitment jwk code = Some c /\ commitment_from_reveal rv = Some c.
  Proof.
    intros J Hc. apply hash_fn_supported in Hc. destruct Hc as [h Hh].
    assert (R : reveal_value jwk code = Some (b64_encode (mh_encode code (h data)))) by (apply calc_def; assumption).
    eexists. eexists. split; [exact R|]. split.
    - unfold commitment, compute_multihash. rewrite J, Hh. cbn. reflexivity.
    - rewrite (commitment_of_reveal _ _ _ R). unfold commitment, compute_multihash. now rewrite J, Hh.
  Qed.

  (* different canonical key bytes give different commitments, or exhibit a collision *)
  Theorem commitment_binding j1 j2 code d1 d2 h c :
    jcs j1 = Some d1 -> jcs j2 = Some d2 -> hash_fn code = Some h ->
    commitment j1 code = Some c -> commitment j2 code = Some c ->
    d1 = d2 \/ (d1 <> d2 /\ h d1 = h d2) \/ (h d1 <> h d2 /\ h (h d1) = h (h d2)).
  Proof.
    intros J1 J2 Hh C1 C2. unfold commitment, compute_multihash in C1, C2.
    rewrite J1, Hh in C1. rewrite J2, Hh in C2. cbn in C1, C2.
    injection C1 as E1. injection C2 as E2. rewrite <- E2 in E1.
    apply b64_encode_injective in E1. apply mh_encode_inj in E1.
    - destruct (string_dec d1 d2); [left; assumption|]. right.
      destruct (string_dec (h d1) (h d2)); [left; split; assumption|right; split; assumption].
    - unfold hash_fn in Hh. destruct (code =? 18)%N; [injection Hh as <-; now rewrite !h256_len|].
      destruct (code =? 19)%N; [injection Hh as <-; now rewrite !h512_len|discriminate].
  Qed.
End Hashing.

(* ---- executable instance ---- *)

Definition calc_mh := calc_model_mh sha256 sha512.
Definition valid_mh := is_valid_model_mh sha256 sha512.
Definition mh_code := get_mh_code.
Definition computed_using := is_computed_using.
Definition reveal := reveal_value sha256 sha512.
Definition commit := commitment sha256 sha512.
Definition commit_of_reveal := commitment_from_reveal sha256 sha512.
