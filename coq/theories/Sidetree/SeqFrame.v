(* C11 over patch sequences: a validated ietf-json-patch followed by dedicated key / service
   removals that name no existing id leaves the document's keys and services - as lists of
   entries - exactly as they were.  (The dedicated actions rewrite the member, so `absent`,
   `null` and `[]` are the same "no entries"; the entries themselves are what is preserved.) *)
From Coq Require Import String List Bool.
From Sidetree Require Import Json.Json Sidetree.JsonPatch Sidetree.Composer Sidetree.Validator Sidetree.Frame Sidetree.ComposerProps.
Import ListNotations.
Open Scope string_scope.

Definition entries (member : string) (doc : obj) : list obj := parse_objects (lookup member doc).

Lemma remove_unknown_keeps member doc v :
  (forall e, In e (entries member doc) -> mem_str (entry_id e) (string_array (Some v)) = false) ->
  entries member (apply_remove_entries member doc v) = entries member doc /\
  forall k, k <> member -> lookup k (apply_remove_entries member doc v) = lookup k doc.
Proof.
  intros H. unfold apply_remove_entries, entries in *. rewrite (remove_entries_unknown _ _ H). split.
  - now rewrite lookup_set_same, parse_objects_arr_or_null.
  - intros k N. apply lookup_set_other. congruence.
Qed.

Theorem ietf_then_unknown_removals uri_ok url_norm doc p d1 kv sv :
  match p with JObj pm => get_action pm = Some AJsonPatch | _ => False end ->
  validate_patch uri_ok url_norm p = true ->
  apply_patch doc p = Some d1 ->
  (forall e, In e (entries "publicKey" doc) -> mem_str (entry_id e) (string_array (Some kv)) = false) ->
  (forall e, In e (entries "service" doc) -> mem_str (entry_id e) (string_array (Some sv)) = false) ->
  let d3 := apply_remove_entries "service" (apply_remove_entries "publicKey" d1 kv) sv in
  entries "publicKey" d3 = entries "publicKey" doc /\ entries "service" d3 = entries "service" doc.
Proof.
  intros Ha Hv Hap Hk Hs. pose proof (ietf_frame uri_ok url_norm doc p d1 Ha Hv Hap) as [Pk Ps].
  assert (Ek1 : entries "publicKey" d1 = entries "publicKey" doc) by (unfold entries; now rewrite Pk).
  assert (Es1 : entries "service" d1 = entries "service" doc) by (unfold entries; now rewrite Ps).
  assert (Hk1 : forall e, In e (entries "publicKey" d1) -> mem_str (entry_id e) (string_array (Some kv)) = false) by (rewrite Ek1; exact Hk).
  destruct (remove_unknown_keeps "publicKey" d1 kv Hk1) as [K1 O1].
  set (d2 := apply_remove_entries "publicKey" d1 kv) in *.
  assert (Es2 : entries "service" d2 = entries "service" doc) by (unfold entries; rewrite O1 by discriminate; exact Es1).
  assert (Hs2 : forall e, In e (entries "service" d2) -> mem_str (entry_id e) (string_array (Some sv)) = false) by (rewrite Es2; exact Hs).
  destruct (remove_unknown_keeps "service" d2 sv Hs2) as [K2 O2]. cbn zeta. split.
  - unfold entries. rewrite O2 by discriminate. fold (entries "publicKey" d2). now rewrite K1.
  - now rewrite K2.
Qed.
