(* patch.PatchesFromDocument (pkg/patch/patch.go) over JSON trees. *)
From Coq Require Import String List Bool Ascii.
From Sidetree Require Import Json.Json Sidetree.JsonPatch Sidetree.Composer.
Import ListNotations.
Open Scope string_scope.

(* sort.Strings: byte-wise order *)
Fixpoint insert_str (s : string) (l : list string) : list string :=
  match l with
  | [] => [s]
  | x :: r => if String.leb s x then s :: l else x :: insert_str s r
  end.
Definition sort_strings (l : list string) : list string := fold_right insert_str [] l.

Definition all_strings (l : list json) : bool := forallb (fun e => match e with JStr _ => true | _ => false end) l.

Definition mk_patch (action key : string) (v : json) : json := JObj [("action", JStr action); (key, v)].

(* one pass over the sorted member names: (document patches, json-patch ops) *)
Fixpoint pfd_go (doc : obj) (ks : list string) : option (list json * list json) :=
  match ks with
  | [] => Some ([], [])
  | k :: r =>
      match lookup k doc, pfd_go doc r with
      | Some v, Some (ps, ops) =>
          if String.eqb k "publicKey" then Some (mk_patch "add-public-keys" "publicKeys" v :: ps, ops)
          else if String.eqb k "service" then Some (mk_patch "add-services" "services" v :: ps, ops)
          else if String.eqb k "alsoKnownAs" then
            match v with
            | JArr (x :: l) => if all_strings (x :: l) then Some (mk_patch "add-also-known-as" "uris" v :: ps, ops) else None
            | _ => None
            end
          else Some (ps, JObj [("op", JStr "add"); ("path", JStr ("/" ++ k)); ("value", v)] :: ops)
      | _, _ => None
      end
  end.

Definition patches_from_document (doc : obj) : option (list json) :=
  if negb (String.eqb (entry_id doc) "") then None else
  match pfd_go doc (sort_strings (keys doc)) with
  | Some (ps, []) => Some ps
  | Some (ps, ops) => Some (ps ++ [mk_patch "ietf-json-patch" "patches" (JArr ops)])%list
  | None => None
  end.

Lemma pfd_refuses_id doc : entry_id doc <> "" -> patches_from_document doc = None.
Proof.
  intros H. unfold patches_from_document. destruct (String.eqb_spec (entry_id doc) ""); [contradiction|reflexivity].
Qed.

Lemma apply_patch_needs_action_and_value p :
  (get_action p = None \/ get_value p = None) -> forall doc, apply_patch doc (JObj p) = None.
Proof.
  intros [H|H] doc; unfold apply_patch; rewrite H; [reflexivity|]. destruct (get_action p); reflexivity.
Qed.

Lemma get_value_def p a : get_action p = Some a -> get_value p = lookup (value_key a) p.
Proof. intros H. unfold get_value. now rewrite H. Qed.
