(* C03: number spellings.  A create request decodes numbers only inside the anchor origin and the
   patch values, and both go through the ES6 normalisation; so a request and its number-normalised
   form get the same answer from the parser, and two requests whose normalised forms differ in
   member order only (1 vs 1.0 vs 1e0, -0 vs 0, any member order) denote the same DID. *)
From Coq Require Import ZArith NArith String List Bool Permutation Lia.
From Sidetree Require Import Base.Sha2 Json.Json Json.Es6 Json.Jcs Json.JcsProps Json.JcsRoundTrip Json.Parse Json.TransformIdem
  Sidetree.Composer Sidetree.Validator Sidetree.Protocol Sidetree.Hashing Sidetree.Parser
  Sidetree.JequivDecode Sidetree.ValidatorJequiv Sidetree.Respell.
Import ListNotations.
Open Scope string_scope.

(* an optional member and its normalised counterpart *)
Definition onorm (o o' : option json) : Prop :=
  match o with
  | Some v => exists v', normalise_numbers v = Some v' /\ o' = Some v'
  | None => o' = None
  end.

Lemma field_norm name m : forall mn, norm_members m = Some mn -> onorm (field name m) (field name mn).
Proof.
  induction m as [|[k v] r IH]; intros mn H; cbn in H.
  - injection H as <-. reflexivity.
  - destruct (normalise_numbers v) as [v'|] eqn:Ev; [|discriminate].
    destruct (norm_members r) as [rn|] eqn:Er; [|discriminate]. injection H as <-.
    specialize (IH rn eq_refl). rewrite !field_cons. unfold onorm in IH.
    destruct (field name r) as [x|].
    + destruct IH as [x' [Ex ->]]. exists x'. auto.
    + rewrite IH. destruct (String.eqb _ _); [exists v'; auto|reflexivity].
Qed.

Lemma normalise_idem v v' : normalise_numbers v = Some v' -> normalise_numbers v' = Some v'.
Proof. intros H. apply normalise_wfnum. exact (proj1 (normalise_numbers_wfnum _ _ H)). Qed.

Lemma norm_shape v v' : normalise_numbers v = Some v' ->
  match v with
  | JNull => v' = JNull
  | JBool b => v' = JBool b
  | JStr s => v' = JStr s
  | JNum t => exists t', v' = JNum t'
  | JArr l => exists l', norm_list l = Some l' /\ v' = JArr l'
  | JObj m => exists mn, norm_members m = Some mn /\ v' = JObj mn
  end.
Proof.
  destruct v as [|b|t|s|l|m]; intros H.
  - cbn in H. now injection H as <-.
  - cbn in H. now injection H as <-.
  - cbn in H. destruct (es6_normalise t) as [t'|]; [injection H as <-; eauto|discriminate].
  - cbn in H. now injection H as <-.
  - rewrite normalise_arr in H. destruct (norm_list l) as [l'|]; [injection H as <-; eauto|discriminate].
  - rewrite normalise_obj in H. destruct (norm_members m) as [mn|]; [injection H as <-; eauto|discriminate].
Qed.

Lemma dec_string_norm o o' : onorm o o' -> dec_string o = dec_string o'.
Proof.
  destruct o as [v|]; cbn; [|intros ->; reflexivity]. intros [v' [H ->]]. apply norm_shape in H.
  destruct v as [|b|t|s|l|m]; try (subst v'; reflexivity).
  - destruct H as [t' ->]. reflexivity.
  - destruct H as [l' [_ ->]]. reflexivity.
  - destruct H as [mn [_ ->]]. reflexivity.
Qed.

Lemma dec_any_norm o o' : onorm o o' -> dec_any o = dec_any o'.
Proof.
  destruct o as [v|]; cbn; [|intros ->; reflexivity]. intros [v' [H ->]].
  cbn [dec_any]. rewrite H. symmetry. eapply normalise_idem; eauto.
Qed.

Lemma dec_suffix_data_norm o o' : onorm o o' -> dec_suffix_data o = dec_suffix_data o'.
Proof.
  destruct o as [v|]; cbn; [|intros ->; reflexivity]. intros [v' [H ->]]. apply norm_shape in H.
  destruct v as [|b|t|s|l|m]; try (subst v'; reflexivity).
  - destruct H as [t' ->]. reflexivity.
  - destruct H as [l' [_ ->]]. reflexivity.
  - destruct H as [mn [Em ->]]. cbn [dec_suffix_data].
    rewrite (dec_string_norm _ _ (field_norm "deltaHash" _ _ Em)), (dec_string_norm _ _ (field_norm "recoveryCommitment" _ _ Em)),
            (dec_any_norm _ _ (field_norm "anchorOrigin" _ _ Em)), (dec_string_norm _ _ (field_norm "type" _ _ Em)).
    reflexivity.
Qed.

Lemma dec_patches_list l : forall ln, norm_list l = Some ln ->
  dec_patches (Some (JArr l)) = dec_patches (Some (JArr ln)).
Proof.
  cbn [dec_patches]. induction l as [|x r IH]; intros ln H; cbn [norm_list] in H.
  - injection H as <-. reflexivity.
  - destruct (normalise_numbers x) as [x'|] eqn:Ex; [|discriminate].
    destruct (norm_list r) as [rn|] eqn:Er; [|discriminate]. injection H as <-.
    specialize (IH rn eq_refl). pose proof (normalise_idem _ _ Ex) as Ei. pose proof Ex as Ex0. apply norm_shape in Ex.
    destruct x as [|b|t|s|l|m]; try (subst x'; try rewrite IH; reflexivity).
    + destruct Ex as [t' ->]. reflexivity.
    + destruct Ex as [l' [_ ->]]. reflexivity.
    + destruct Ex as [mn [_ ->]]. rewrite Ex0, Ei, IH. reflexivity.
Qed.

Lemma dec_patches_norm o o' : onorm o o' -> dec_patches o = dec_patches o'.
Proof.
  destruct o as [v|]; cbn [onorm]; [|intros ->; reflexivity]. intros [v' [H ->]]. apply norm_shape in H.
  destruct v as [|b|t|s|l|m]; try (subst v'; reflexivity).
  - destruct H as [t' ->]. reflexivity.
  - destruct H as [l' [El ->]]. now apply dec_patches_list.
  - destruct H as [mn [_ ->]]. reflexivity.
Qed.

Lemma dec_delta_norm o o' : onorm o o' -> dec_delta o = dec_delta o'.
Proof.
  destruct o as [v|]; cbn; [|intros ->; reflexivity]. intros [v' [H ->]]. apply norm_shape in H.
  destruct v as [|b|t|s|l|m]; try (subst v'; reflexivity).
  - destruct H as [t' ->]. reflexivity.
  - destruct H as [l' [_ ->]]. reflexivity.
  - destruct H as [mn [Em ->]]. cbn [dec_delta].
    rewrite (dec_string_norm _ _ (field_norm "updateCommitment" _ _ Em)), (dec_patches_norm _ _ (field_norm "patches" _ _ Em)).
    reflexivity.
Qed.

Section RespellNum.
  Variable cfg : protocol.
  Variable uri_ok : string -> bool.
  Variable url_norm : string -> option string.
  Variable origin_ok : json -> bool.
  Hypothesis origin_ok_order : forall a b, jequiv a b -> origin_ok a = origin_ok b.

  (* the parser cannot tell a request from its number-normalised form *)
  Theorem parse_create_normalised m mn batch : norm_members m = Some mn ->
    parse_create cfg uri_ok url_norm origin_ok m batch = parse_create cfg uri_ok url_norm origin_ok mn batch.
  Proof.
    intros H. unfold parse_create.
    rewrite (dec_string_norm _ _ (field_norm "type" _ _ H)), (dec_suffix_data_norm _ _ (field_norm "suffixData" _ _ H)),
            (dec_delta_norm _ _ (field_norm "delta" _ _ H)).
    reflexivity.
  Qed.

  (* two spellings of one request: numbers spelled differently, members in another order *)
  Theorem parse_create_spelling m m' mn mn' batch :
    norm_members m = Some mn -> norm_members m' = Some mn' ->
    jequiv (JObj mn) (JObj mn') -> ndk (JObj mn) -> struct_levels mn ->
    match parse_create cfg uri_ok url_norm origin_ok m batch, parse_create cfg uri_ok url_norm origin_ok m' batch with
    | Some p, Some p' => parsed_rel p p'
    | None, None => True
    | _, _ => False
    end.
  Proof.
    intros H H' E N L.
    rewrite (parse_create_normalised _ _ batch H), (parse_create_normalised _ _ batch H').
    apply (parse_create_member_order cfg uri_ok url_norm origin_ok origin_ok_order); auto.
    assert (Hn : normalise_numbers (JObj m) = Some (JObj mn)) by (rewrite normalise_obj, H; reflexivity).
    exact (proj1 (normalise_numbers_wfnum _ _ Hn)).
  Qed.
End RespellNum.

Section RespellNumBytes.
  Variable cfg : protocol.
  Variable uri_ok : string -> bool.
  Variable url_norm : string -> option string.
  Variable origin_ok : json -> bool.
  Variable time_ok : Z -> Z -> bool.
  Hypothesis origin_ok_order : forall a b, jequiv a b -> origin_ok a = origin_ok b.

  (* on bytes: two spellings of one create request (member order, number spellings), both within
     the size limit - the same verdict, type, suffix and DID *)
  Theorem same_request_same_did_spelling ns b b' m m' mn mn' :
    (Z.of_nat (String.length b) <= P_MaxOperationSize cfg)%Z ->
    (Z.of_nat (String.length b') <= P_MaxOperationSize cfg)%Z ->
    top_object b = Some m -> top_object b' = Some m' ->
    norm_members m = Some mn -> norm_members m' = Some mn' ->
    jequiv (JObj mn) (JObj mn') -> ndk (JObj mn) -> struct_levels mn ->
    dec_string (field "type" m) = Some "create" ->
    match parse cfg uri_ok url_norm origin_ok time_ok ns b, parse cfg uri_ok url_norm origin_ok time_ok ns b' with
    | Some (ty, sfx, id, o), Some (ty', sfx', id', o') => ty = ty' /\ sfx = sfx' /\ id = id' /\ jequiv o o'
    | None, None => True
    | _, _ => False
    end.
  Proof.
    intros S S' T T' Hn Hn' E N L Ty.
    pose proof (parse_create_spelling cfg uri_ok url_norm origin_ok origin_ok_order m m' mn mn' false Hn Hn' E N L) as H.
    unfold parse, parse_operation.
    replace (P_MaxOperationSize cfg <? Z.of_nat (String.length b))%Z with false by (symmetry; apply Z.ltb_ge; lia).
    replace (P_MaxOperationSize cfg <? Z.of_nat (String.length b'))%Z with false by (symmetry; apply Z.ltb_ge; lia).
    rewrite T, T'.
    assert (Ty' : dec_string (field "type" m') = Some "create").
    { rewrite (dec_string_norm _ _ (field_norm "type" _ _ Hn')).
      rewrite <- (dec_string_respects _ _ (field_opt_jequiv "type" _ _ (proj1 L) E)).
      rewrite <- (dec_string_norm _ _ (field_norm "type" _ _ Hn)). exact Ty. }
    rewrite Ty, Ty'. change (String.eqb "create" "create") with true. cbv iota.
    destruct (parse_create cfg uri_ok url_norm origin_ok m false) as [p|],
             (parse_create cfg uri_ok url_norm origin_ok m' false) as [p'|]; try tauto.
    destruct H as [H1 [H2 [H3 _]]]. rewrite H1, H2. auto.
  Qed.
End RespellNumBytes.

(* -0 and 0, 1.0 and 1: one request *)
Example zero_spellings :
  norm_members [("suffixData", JObj [("anchorOrigin", JNum "-0")])] = norm_members [("suffixData", JObj [("anchorOrigin", JNum "0.0")])] /\
  norm_members [("suffixData", JObj [("anchorOrigin", JNum "-0")])] = Some [("suffixData", JObj [("anchorOrigin", JNum "0")])].
Proof. split; vm_compute; reflexivity. Qed.
