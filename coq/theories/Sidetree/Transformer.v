(* DID document transformer and metadata (pkg/versions/1_0/doctransformer/didtransformer,
   metadata; pkg/docutil/docutil.go) over JSON trees. *)
From Coq Require Import ZArith NArith Arith String Ascii List Bool Lia Sorting.Sorted Sorting.Permutation.
From Sidetree Require Import Base.Sha2 Base.Base64url Json.Json Sidetree.Protocol Sidetree.JsonPatch Sidetree.Composer
     Sidetree.Validator Sidetree.Parser Sidetree.Jwk Sidetree.Applier.
Import ListNotations.
Open Scope string_scope.

(* ---- base58 (btcsuite/btcutil/base58) and multibase base58btc ---- *)

Definition b58_alphabet : string := "123456789ABCDEFGHJKLMNPQRSTUVWXYZabcdefghijkmnopqrstuvwxyz".

Definition b58_char (n : N) : ascii :=
  match String.get (N.to_nat n) b58_alphabet with Some c => c | None => "?"%char end.

Fixpoint b58_digits (fuel : nat) (x : N) (acc : string) : string :=
  match fuel with
  | O => acc
  | S f => if (x =? 0)%N then acc else b58_digits f (x / 58)%N (String (b58_char (x mod 58)%N) acc)
  end.

Fixpoint leading_zeros (l : list N) : nat :=
  match l with 0%N :: r => S (leading_zeros r) | _ => O end.

Fixpoint repeat_char (c : ascii) (n : nat) : string :=
  match n with O => "" | S k => String c (repeat_char c k) end.

Definition base58_encode (s : string) : string :=
  let bs := bytes_of_string s in
  repeat_char "1" (leading_zeros bs) ++ b58_digits (2 * List.length bs + 2) (be_value 0 bs) "".

Definition multibase_b58btc (s : string) : string := String "z" (base58_encode s).

(* ---- RFC 3339 UTC timestamps: time.Unix(t, 0).UTC().Format(time.RFC3339) ---- *)

Fixpoint dec_digits (fuel : nat) (x : Z) (acc : string) : string :=
  match fuel with
  | O => acc
  | S f => let acc' := String (ascii_of_N (48 + Z.to_N (x mod 10))) acc in
           if (x <? 10)%Z then acc' else dec_digits f (x / 10)%Z acc'
  end.
Definition dec (x : Z) : string := dec_digits 25 x "".
Definition pad2 (x : Z) : string := if (x <? 10)%Z then "0" ++ dec x else dec x.
Definition pad4 (x : Z) : string :=
  if (x <? 10)%Z then "000" ++ dec x else if (x <? 100)%Z then "00" ++ dec x else if (x <? 1000)%Z then "0" ++ dec x else dec x.

Definition rfc3339 (t : Z) : string :=
  let days := (t / 86400)%Z in
  let secs := (t mod 86400)%Z in
  let z := (days + 719468)%Z in
  let era := (z / 146097)%Z in
  let doe := (z - era * 146097)%Z in
  let yoe := ((doe - doe / 1460 + doe / 36524 - doe / 146096) / 365)%Z in
  let doy := (doe - (365 * yoe + yoe / 4 - yoe / 100))%Z in
  let mp := ((5 * doy + 2) / 153)%Z in
  let d := (doy - (153 * mp + 2) / 5 + 1)%Z in
  let m := (if (mp <? 10)%Z then mp + 3 else mp - 9)%Z in
  let y := (yoe + era * 400 + (if (m <=? 2)%Z then 1 else 0))%Z in
  pad4 y ++ "-" ++ pad2 m ++ "-" ++ pad2 d ++ "T" ++ pad2 (secs / 3600) ++ ":" ++ pad2 ((secs mod 3600) / 60) ++ ":" ++ pad2 (secs mod 60) ++ "Z".

(* ---- operation ordering (metadata.sortOperations) ---- *)

(* anchoring order: transaction time, then transaction number *)
Definition op_less (a b : anchored_key) : bool :=
  if negb (F_TransactionTime a =? F_TransactionTime b)%Z then (F_TransactionTime a <? F_TransactionTime b)%Z
  else (F_TransactionNumber a <? F_TransactionNumber b)%Z.

(* sort.Slice with at most 12 elements is insertion sort with the caller's less *)
Section Sort.
  Context {A : Type} (key : A -> anchored_key).

  Fixpoint insert_op (x : A) (l : list A) : list A :=
    match l with
    | [] => [x]
    | y :: r => if op_less (key x) (key y) then x :: l else y :: insert_op x r
    end.

  Definition sort_ops (l : list A) : list A := fold_left (fun acc x => insert_op x acc) l [].
End Sort.

(* de-duplication of published operations by canonical reference, first occurrence kept *)
Fixpoint dedup_by {A} (f : A -> string) (seen : list string) (l : list A) : list A :=
  match l with
  | [] => []
  | x :: r => if mem_str (f x) seen then dedup_by f seen r else x :: dedup_by f (f x :: seen) r
  end.

(* ---- transformer ---- *)

Record topts := {
  t_key_ctx : list (string * string);
  t_method_ctx : list string;
  t_base : bool;
  t_published_ops : bool;
  t_unpublished_ops : bool
}.

Definition default_key_ctx : list (string * string) :=
  [("Bls12381G2Key2020", "https://w3id.org/security/suites/bls12381-2020/v1");
   ("JsonWebKey2020", "https://w3id.org/security/suites/jws-2020/v1");
   ("EcdsaSecp256k1VerificationKey2019", "https://w3id.org/security/suites/secp256k1-2019/v1");
   ("Ed25519VerificationKey2018", "https://w3id.org/security/suites/ed25519-2018/v1");
   ("Ed25519VerificationKey2020", "https://w3id.org/security/suites/ed25519-2020/v1");
   ("X25519KeyAgreementKey2019", "https://w3id.org/security/suites/x25519-2019/v1")].

Definition object_id (o : topts) (did id : string) : string :=
  if t_base o then "#" ++ id else did ++ "#" ++ id.

Definition jwk_of_obj (m : obj) : jwk :=
  {| k_kty := string_entry (lookup "kty" m); k_crv := string_entry (lookup "crv" m); k_x := string_entry (lookup "x" m);
     k_y := string_entry (lookup "y" m); k_n := ""; k_e := ""; k_nonce := "" |}.

(* one verification method; None = the transformation fails *)
Definition transform_key (o : topts) (did : string) (pk : obj) : option (obj * string) :=
  let id := object_id o did (entry_id pk) in
  let ty := string_entry (lookup "type" pk) in
  let base := [("id", JStr id); ("type", JStr ty); ("controller", JStr did)] in
  let material :=
    match lookup "publicKeyJwk" pk with
    | Some (JObj j) =>
        if String.eqb ty "Ed25519VerificationKey2018" then
          match ed_of_jwk (jwk_of_obj j) with
          | Some pub => Some [("publicKeyBase58", JStr (base58_encode pub))]
          | None => None
          end
        else if String.eqb ty "Ed25519VerificationKey2020" then
          match ed_of_jwk (jwk_of_obj j) with
          | Some pub => Some [("publicKeyMultibase", JStr (multibase_b58btc pub))]
          | None => None
          end
        else Some [("publicKeyJwk", JObj j)]
    | _ =>
        let b58 := string_entry (lookup "publicKeyBase58" pk) in
        let mb := string_entry (lookup "publicKeyMultibase" pk) in
        if negb (String.eqb b58 "") then Some [("publicKeyBase58", JStr b58)]
        else if negb (String.eqb mb "") then Some [("publicKeyMultibase", JStr mb)]
        else Some [("publicKeyJwk", JNull)]
    end in
  match material, assoc_str ty (t_key_ctx o) with
  | Some mat, Some ctx => Some ((base ++ mat)%list, ctx)
  | _, _ => None
  end.

Definition relationship_names : list (string * string) :=
  [("authentication", "authentication"); ("assertionMethod", "assertionMethod"); ("keyAgreement", "keyAgreement");
   ("capabilityDelegation", "capabilityDelegation"); ("capabilityInvocation", "capabilityInvocation")].

(* ids of the keys carrying the purpose, in key order (a purpose listed twice on a key is referenced twice) *)
Definition relationship (o : topts) (did : string) (keys : list obj) (purpose : string) : list json :=
  flat_map (fun pk => map (fun _ => JStr (object_id o did (entry_id pk)))
                          (filter (String.eqb purpose) (string_array (lookup "purposes" pk)))) keys.

Definition add_unique (l : list string) (x : string) : list string := if mem_str x l then l else (l ++ [x])%list.

Definition transform_service (o : topts) (did : string) (sv : obj) : json :=
  let fixed := [("id", JStr (object_id o did (entry_id sv))); ("type", JStr (string_entry (lookup "type" sv)));
                ("serviceEndpoint", node (lookup "serviceEndpoint" sv))] in
  JObj (fixed ++ filter (fun kv => negb (mem_str (fst kv) ["id"; "type"; "serviceEndpoint"])) sv)%list.

Fixpoint map_opt {A B} (f : A -> option B) (l : list A) : option (list B) :=
  match l with
  | [] => Some []
  | x :: r => match f x, map_opt f r with Some y, Some ys => Some (y :: ys) | _, _ => None end
  end.

Definition transform_doc (o : topts) (did : string) (doc : obj) : option obj :=
  let keys := parse_objects (lookup "publicKey" doc) in
  match map_opt (transform_key o did) keys with
  | None => None
  | Some tks =>
      let key_ctxs := fold_left add_unique (map snd tks) [] in
      let ctx := ([JStr "https://www.w3.org/ns/did/v1"] ++ map JStr (t_method_ctx o)
                  ++ (if t_base o then [JObj [("@base", JStr did)]] else [])
                  ++ (match keys with [] => [] | _ => map JStr key_ctxs end))%list in
      let aka := string_array (lookup "alsoKnownAs" doc) in
      let svcs := parse_objects (lookup "service" doc) in
      Some ([("@context", JArr ctx); ("id", JStr did)]
            ++ (match aka with [] => [] | _ => [("alsoKnownAs", JArr (map JStr aka))] end)
            ++ (match keys with [] => [] | _ => [("verificationMethod", JArr (map (fun t => JObj (fst t)) tks))] end)
            ++ flat_map (fun pn => match relationship o did keys (fst pn) with
                                   | [] => []
                                   | l => [(snd pn, JArr l)]
                                   end) relationship_names
            ++ (match svcs with [] => [] | _ => [("service", JArr (map (transform_service o did) svcs))] end))%list
  end.

(* transformation info: id, published flag, optional canonical / equivalent ids *)
Record tinfo := { ti_id : option string; ti_published : option bool; ti_canonical : option string; ti_equivalent : option (list string) }.

Definition metadata_of (rm : rmodel) (info : tinfo) (published : bool) : obj :=
  let method :=
    ([("published", JBool published)]
     ++ (if String.eqb (rm_recovery_c rm) "" then [] else [("recoveryCommitment", JStr (rm_recovery_c rm))])
     ++ (if String.eqb (rm_update_c rm) "" then [] else [("updateCommitment", JStr (rm_update_c rm))])
     ++ (match rm_origin rm with JNull => [] | v => [("anchorOrigin", v)] end))%list in
  ([("method", JObj method)]
   ++ (if rm_deactivated rm then [("deactivated", JBool true)] else [])
   ++ (match ti_canonical info with Some c => [("canonicalId", JStr c)] | None => [] end)
   ++ (match ti_equivalent info with Some l => [("equivalentId", JArr (map JStr l))] | None => [] end)
   ++ (if published then [("created", JStr (rfc3339 (rm_created rm)))] else [])
   ++ (if String.eqb (rm_version rm) "" then []
       else ([("versionId", JStr (rm_version rm))]
             ++ (if (0 <? rm_updated rm)%Z then [("updated", JStr (rfc3339 (rm_updated rm)))] else [])))%list)%list.

(* TransformDocument without the operation lists (those are compared as projected key sequences) *)
Definition transform_document (o : topts) (rm : rmodel) (info : tinfo) : option json :=
  match rm_doc rm, ti_published info, ti_id info with
  | Some doc, Some published, Some did =>
      match transform_doc o did doc with
      | Some d => Some (JObj [("@context", JStr "https://w3id.org/did-resolution/v1"); ("didDocument", JObj d);
                              ("didDocumentMetadata", JObj (metadata_of rm info published))])
      | None => None
      end
  | _, _, _ => None
  end.

(* ---- docutil.GetTransformationInfoForUnpublished (long form: domain = label = "") ---- *)

Definition info_unpublished (ns suffix create_jcs : string) : tinfo :=
  let id := ns ++ ":" ++ suffix in
  {| ti_id := Some (if String.eqb create_jcs "" then id else id ++ ":" ++ create_jcs);
     ti_published := Some false; ti_canonical := None;
     ti_equivalent := if String.eqb create_jcs "" then None else Some [id] |}.

(* ---- properties of the transformation ---- *)

Lemma map_opt_length {A B} (f : A -> option B) l l' : map_opt f l = Some l' -> length l' = length l.
Proof.
  revert l'. induction l as [|x l IH]; intros l' H; cbn in H.
  - injection H as <-. reflexivity.
  - destruct (f x); [|discriminate]. destruct (map_opt f l); [|discriminate]. injection H as <-. cbn. f_equal. apply IH. reflexivity.
Qed.

(* every internal key is emitted exactly once, in order, with id = DID#key-id (or #key-id under @base) *)
Lemma transform_keys_ids o did keys tks :
  map_opt (transform_key o did) keys = Some tks ->
  map (fun t => lookup "id" (fst t)) tks = map (fun pk => Some (JStr (object_id o did (entry_id pk)))) keys /\
  map (fun t => lookup "controller" (fst t)) tks = map (fun _ => Some (JStr did)) keys.
Proof.
  revert tks. induction keys as [|pk keys IH]; intros tks H; cbn in H.
  - injection H as <-. split; reflexivity.
  - destruct (transform_key o did pk) as [[m c]|] eqn:Ek; [|discriminate].
    destruct (map_opt (transform_key o did) keys) as [r|]; [|discriminate]. injection H as <-.
    destruct (IH r eq_refl) as [I1 I2]. cbn [map fst]. rewrite I1, I2.
    unfold transform_key in Ek.
    destruct (match lookup "publicKeyJwk" pk with Some (JObj j) => _ | _ => _ end) as [mat|]; [|discriminate].
    destruct (assoc_str _ _); [|discriminate]. injection Ek as <- _.
    split; reflexivity.
Qed.

(* ---- ordering: the comparator is a strict total order on (time, number) pairs ---- *)

Definition key_lt (a b : anchored_key) : Prop :=
  (F_TransactionTime a < F_TransactionTime b)%Z \/
  (F_TransactionTime a = F_TransactionTime b /\ F_TransactionNumber a < F_TransactionNumber b)%Z.

Lemma op_less_iff a b : op_less a b = true <-> key_lt a b.
Proof.
  unfold op_less, key_lt. destruct (Z.eqb_spec (F_TransactionTime a) (F_TransactionTime b)) as [E|N]; cbn [negb].
  - rewrite Z.ltb_lt. split; [intros H; right; auto|intros [H|[_ H]]; [lia|exact H]].
  - rewrite Z.ltb_lt. split; [intros H; left; exact H|intros [H|[H _]]; [exact H|contradiction]].
Qed.

Lemma key_lt_irrefl a : ~ key_lt a a.
Proof. unfold key_lt. lia. Qed.

Lemma key_lt_trans a b c : key_lt a b -> key_lt b c -> key_lt a c.
Proof. unfold key_lt. lia. Qed.

Lemma key_lt_total a b : key_lt a b \/ key_lt b a \/
  (F_TransactionTime a = F_TransactionTime b /\ F_TransactionNumber a = F_TransactionNumber b).
Proof. unfold key_lt. lia. Qed.

(* non-strict version used for sortedness of lists with ties *)
Definition key_le (a b : anchored_key) : Prop := ~ key_lt b a.

Section SortProps.
  Context {A : Type} (key : A -> anchored_key).

  Lemma insert_op_perm x l : Permutation (insert_op key x l) (x :: l).
  Proof.
    induction l as [|y r IH]; cbn; [reflexivity|].
    destruct (op_less (key x) (key y)); [reflexivity|].
    rewrite IH. apply perm_swap.
  Qed.

  Lemma insert_op_sorted x l :
    StronglySorted (fun a b => key_le (key a) (key b)) l ->
    StronglySorted (fun a b => key_le (key a) (key b)) (insert_op key x l).
  Proof.
    induction 1 as [|y r Hr IH Hy]; cbn.
    - repeat constructor.
    - destruct (op_less (key x) (key y)) eqn:E.
      + constructor; [constructor; assumption|].
        apply op_less_iff in E. constructor.
        * unfold key_le. intros H. exact (key_lt_irrefl _ (key_lt_trans _ _ _ E H)).
        * eapply Forall_impl; [|exact Hy]. intros z Hz. unfold key_le in *. intros H.
          apply Hz. eapply key_lt_trans; [exact H|exact E].
      + constructor; [exact IH|].
        assert (Hxy : key_le (key y) (key x)).
        { unfold key_le. intros H. apply op_less_iff in H. congruence. }
        eapply Permutation_Forall; [symmetry; apply insert_op_perm|].
        constructor; assumption.
  Qed.

  Lemma fold_insert_sorted l : forall acc,
    StronglySorted (fun a b => key_le (key a) (key b)) acc ->
    StronglySorted (fun a b => key_le (key a) (key b)) (fold_left (fun acc x => insert_op key x acc) l acc).
  Proof. induction l as [|x l IH]; intros acc H; cbn; [exact H|]. apply IH. now apply insert_op_sorted. Qed.

  Lemma fold_insert_perm l : forall acc,
    Permutation (fold_left (fun acc x => insert_op key x acc) l acc) (acc ++ l).
  Proof.
    induction l as [|x l IH]; intros acc; cbn; [now rewrite app_nil_r|].
    rewrite IH, insert_op_perm. change (x :: acc ++ l) with ((x :: acc) ++ l).
    rewrite (Permutation_middle acc l x). reflexivity.
  Qed.

  (* the operations come out in anchoring order and none is lost or invented *)
  Theorem sort_ops_sorted l : StronglySorted (fun a b => key_le (key a) (key b)) (sort_ops key l).
  Proof. unfold sort_ops. apply fold_insert_sorted. constructor. Qed.

  Theorem sort_ops_perm l : Permutation (sort_ops key l) l.
  Proof. unfold sort_ops. rewrite fold_insert_perm. reflexivity. Qed.
End SortProps.
