(* client.NewDeactivateRequest and client.NewRecoverRequest (without anchoring window) as
   functions, and acceptance of what they build by a parser with the matching protocol. *)
From Coq Require Import ZArith NArith String Ascii List Bool Sorting.Permutation Lia.
From Sidetree Require Import Base.Sha2 Base.Base64url Json.Json Json.Jcs Json.Parse Json.JcsProps Json.JcsRoundTrip Json.TransformIdem
     Sidetree.Protocol Sidetree.Window Sidetree.JsonPatch Sidetree.Composer Sidetree.Validator Sidetree.Hashing Sidetree.Parser
     Sidetree.Rules Sidetree.JequivDecode Sidetree.ClientCreate Sidetree.CompactJws Sidetree.ClientUpdate Sidetree.ClientSigned.
Import ListNotations.
Open Scope string_scope.

(* ---- deactivate ---- *)

Record deactivate_info := { di_suffix : string; di_key : jwk; di_reveal : string; di_alg : string; di_sig : string }.

(* DeactivateSignedDataModel: revealValue has no omitempty and is not set by the builder *)
Definition deactivate_signed_members (sfx : string) (k : jwk) : obj :=
  [("didSuffix", JStr sfx); ("revealValue", JStr ""); ("recoveryKey", img_jwk k)].

Definition deactivate_members (sfx rv sd : string) : obj :=
  [("type", JStr "deactivate"); ("didSuffix", JStr sfx); ("revealValue", JStr rv); ("signedData", JStr sd)].

Definition build_deactivate (i : deactivate_info) : option string :=
  if String.eqb (di_suffix i) "" then None
  else if String.eqb (di_reveal i) "" then None
  else if orb (String.eqb (di_alg i) "") (String.eqb (di_sig i) "") then None
  else match jcs (JObj [("alg", JStr (di_alg i))]), jcs (JObj (deactivate_signed_members (di_suffix i) (di_key i))) with
       | Some hb, Some payload => jcs (JObj (deactivate_members (di_suffix i) (di_reveal i) (compact hb payload (di_sig i))))
       | _, _ => None
       end.

Section Accepted.
  Variable cfg : protocol.
  Variable uri_ok : string -> bool.
  Variable url_norm : string -> option string.
  Variable origin_ok : json -> bool.
  Variable time_ok : Z -> Z -> bool.

  Theorem deactivate_built_accepted i bytes :
    build_deactivate i = Some bytes ->
    (Z.of_nat (String.length bytes) <= P_MaxOperationSize cfg)%Z ->
    hash_rule cfg (di_reveal i) -> key_matches_reveal (Some (di_key i)) (di_reveal i) = true ->
    In (di_alg i) (P_SignatureAlgorithms cfg) ->
    jwk_valid (di_key i) = true -> In (k_crv (di_key i)) (P_KeyAlgorithms cfg) -> nonce_rule cfg (k_nonce (di_key i)) ->
    time_ok 0 (until_of cfg 0 0) = true ->
    exists p,
      parse_operation cfg uri_ok url_norm origin_ok time_ok bytes false = Some p /\
      p_type p = "deactivate" /\ p_suffix p = di_suffix i /\ p_reveal p = di_reveal i /\ p_delta p = None /\
      parse_signed_deactivate cfg (p_signed p) = Some {| sx_suffix := di_suffix i; sx_key := Some (di_key i); sx_from := 0; sx_until := 0 |}.
  Proof.
    intros Hb Hsize Hrv Hreveal Halg Hkv Hcrv Hnonce Htime. unfold build_deactivate in Hb.
    destruct (String.eqb_spec (di_suffix i) "") as [|Hsfx]; [discriminate|].
    destruct (String.eqb_spec (di_reveal i) "") as [|Hrvne]; [discriminate|].
    destruct (String.eqb_spec (di_alg i) "") as [|Halgne]; cbn [orb] in Hb; [discriminate|].
    destruct (String.eqb_spec (di_sig i) "") as [|Hsigne]; [discriminate|].
    destruct (jcs (JObj [("alg", JStr (di_alg i))])) as [hb|] eqn:Ehb; [|discriminate].
    destruct (jcs (JObj (deactivate_signed_members (di_suffix i) (di_key i)))) as [payload|] eqn:Epl; [|discriminate].
    set (sd := compact hb payload (di_sig i)) in *.
    assert (Wreq : wfnum (JObj (deactivate_members (di_suffix i) (di_reveal i) sd))) by (repeat constructor).
    destruct (jcs_parse_roundtrip _ _ Hb Wreq) as [v' [Hparse [Ev' _]]].
    assert (ND : NoDup (fnames (deactivate_members (di_suffix i) (di_reveal i) sd))) by (cbn; repeat constructor; cbn; intuition discriminate).
    destruct (field_jequiv "type" _ _ ND Ev') as [m' [-> _]].
    assert (Ft : dec_string (field "type" m') = Some "deactivate")
      by (rewrite <- (dec_string_respects _ _ (field_opt_jequiv "type" _ _ ND Ev')); reflexivity).
    assert (Fs : dec_string (field "didSuffix" m') = Some (di_suffix i))
      by (rewrite <- (dec_string_respects _ _ (field_opt_jequiv "didSuffix" _ _ ND Ev')); reflexivity).
    assert (Fr : dec_string (field "revealValue" m') = Some (di_reveal i))
      by (rewrite <- (dec_string_respects _ _ (field_opt_jequiv "revealValue" _ _ ND Ev')); reflexivity).
    assert (Fd : dec_string (field "signedData" m') = Some sd)
      by (rewrite <- (dec_string_respects _ _ (field_opt_jequiv "signedData" _ _ ND Ev')); reflexivity).
    destruct (header_roundtrip cfg uri_ok url_norm _ _ Ehb Halgne Halg) as [h' [Hph [Hhas [Hhr [Hhbne Hdup]]]]].
    assert (Wpl : wfnum (JObj (deactivate_signed_members (di_suffix i) (di_key i)))).
    { constructor. unfold deactivate_signed_members. repeat (constructor; [first [exact (W_str _) | exact (wfnum_img_jwk _)]|]). constructor. }
    destruct (jcs_parse_roundtrip _ _ Epl Wpl) as [vp [Hpp [Evp _]]].
    assert (NDp : NoDup (fnames (deactivate_signed_members (di_suffix i) (di_key i)))) by (cbn; repeat constructor; cbn; intuition discriminate).
    destruct (field_jequiv "didSuffix" _ _ NDp Evp) as [pm [-> _]].
    assert (Hplne : payload <> "") by (intros ->; cbn in Hpp; discriminate).
    set (j := {| j_headers := h'; j_payload := payload; j_signature := di_sig i;
                 j_parts := (b64_encode hb, b64_encode payload, b64_encode (di_sig i)) |}).
    assert (Hjws : parse_jws sd = Some j) by (apply parse_jws_compact; auto).
    assert (Hpo : payload_obj j = Some pm) by (unfold payload_obj; cbn [j_payload j]; now rewrite Hpp).
    pose proof (field_opt_jequiv "recoveryKey" _ _ NDp Evp) as Hk.
    change (field "recoveryKey" (deactivate_signed_members (di_suffix i) (di_key i))) with (Some (img_jwk (di_key i))) in Hk. unfold opt_jequiv in Hk.
    destruct (field "recoveryKey" pm) as [xk|] eqn:Exk; [|contradiction].
    assert (Dk : dec_jwk (field "recoveryKey" pm) = Some (Some (di_key i))) by (rewrite Exk; now apply dec_jwk_jequiv).
    assert (Dss : dec_string (field "didSuffix" pm) = Some (di_suffix i))
      by (rewrite <- (dec_string_respects _ _ (field_opt_jequiv "didSuffix" _ _ NDp Evp)); reflexivity).
    assert (Drv : dec_string (field "revealValue" pm) = Some "")
      by (rewrite <- (dec_string_respects _ _ (field_opt_jequiv "revealValue" _ _ NDp Evp)); reflexivity).
    assert (Df : dec_int64 (field "anchorFrom" pm) = Some 0%Z) by (apply (absent_int "anchorFrom" _ _ NDp Evp); reflexivity).
    assert (Du : dec_int64 (field "anchorUntil" pm) = Some 0%Z) by (apply (absent_int "anchorUntil" _ _ NDp Evp); reflexivity).
    set (p := {| p_type := "deactivate"; p_suffix := di_suffix i; p_origin := JNull; p_reveal := di_reveal i; p_signed := sd; p_delta := None;
                 p_suffix_data := None; p_time_args := Some (0%Z, until_of cfg 0 0); p_origin_arg := None |}).
    assert (Hsx : parse_signed_deactivate cfg sd = Some {| sx_suffix := di_suffix i; sx_key := Some (di_key i); sx_from := 0; sx_until := 0 |}).
    { unfold parse_signed_deactivate.
      assert (Hsd : parse_signed_data cfg sd = Some j)
        by (apply parse_signed_data_iff; split; [now apply compact_nonempty|]; split; [exact Hjws|exact Hhr]).
      assert (Hk' : validate_signing_key cfg (Some (di_key i)) = true) by (apply validate_signing_key_iff; exists (di_key i); auto).
      rewrite Hsd, Hpo, Dss, Drv, Dk, Df, Du, Hk'. reflexivity. }
    exists p. split; [|cbn; auto 10].
    apply accept_iff_rules. split; [exact Hsize|]. exists m'. split; [exact Hparse|].
    exists "deactivate". split; [exact Ft|]. right. right. left. split; [reflexivity|].
    exists (di_suffix i), (di_reveal i), sd, j, pm, (di_suffix i), (Some (di_key i)), 0%Z, 0%Z.
    split. { unfold common_rule. rewrite Ft, Fs, Fr, Fd. repeat split; auto; try discriminate; try apply Hrv. now apply compact_nonempty. }
    split. { unfold signed_data_rule. split; [now apply compact_nonempty|]. split; [exact Hjws|exact Hhr]. }
    split; [exact Hpo|]. split; [exact Dss|]. split; [rewrite Drv; discriminate|]. split; [exact Dk|]. split; [exact Df|]. split; [exact Du|].
    split. { exists (di_key i). auto. }
    split; [reflexivity|]. split; [exact Hreveal|]. split; [exact Htime|]. reflexivity.
  Qed.
End Accepted.

(* ---- recover ---- *)

Record recover_info := {
  ri_suffix : string; ri_key : jwk; ri_patches : list json; ri_recovery_c : string; ri_update_c : string; ri_origin : json;
  ri_code : N; ri_reveal : string; ri_alg : string; ri_sig : string }.

Definition recover_signed_members (dh : string) (k : jwk) (rc : string) (o : json) : obj :=
  ([("deltaHash", JStr dh); ("recoveryKey", img_jwk k); ("recoveryCommitment", JStr rc)]
   ++ (match o with JNull => [] | v => [("anchorOrigin", v)] end))%list.

Definition recover_members (sfx rv : string) (d : delta) (sd : string) : obj :=
  [("type", JStr "recover"); ("didSuffix", JStr sfx); ("revealValue", JStr rv); ("delta", img_delta d); ("signedData", JStr sd)].

Definition build_recover (i : recover_info) : option (string * delta * string) :=
  if String.eqb (ri_suffix i) "" then None
  else if String.eqb (ri_reveal i) "" then None
  else match ri_patches i with
  | [] => None
  | _ =>
    if orb (String.eqb (ri_alg i) "") (String.eqb (ri_sig i) "") then None else
    if negb (jwk_valid (ri_key i)) then None else
    let d := {| d_update_c := ri_update_c i; d_patches := ri_patches i |} in
    match calc_mh (img_delta d) (ri_code i), commit (img_jwk (ri_key i)) (ri_code i) with
    | Some dh, Some cur =>
        if String.eqb cur (ri_recovery_c i) then None else          (* re-using public keys is not allowed *)
        match jcs (JObj [("alg", JStr (ri_alg i))]), jcs (JObj (recover_signed_members dh (ri_key i) (ri_recovery_c i) (ri_origin i))) with
        | Some hb, Some payload =>
            match jcs (JObj (recover_members (ri_suffix i) (ri_reveal i) d (compact hb payload (ri_sig i)))) with
            | Some bytes => Some (bytes, d, dh)
            | None => None
            end
        | _, _ => None
        end
    | _, _ => None
    end
  end.

Section AcceptedRecover.
  Variable cfg : protocol.
  Variable uri_ok : string -> bool.
  Variable url_norm : string -> option string.
  Variable origin_ok : json -> bool.
  Variable time_ok : Z -> Z -> bool.

  Theorem recover_built_accepted i bytes d dh :
    build_recover i = Some (bytes, d, dh) ->
    In (ri_code i) (algs cfg) ->
    (Z.of_nat (String.length bytes) <= P_MaxOperationSize cfg)%Z ->
    hash_rule cfg (ri_reveal i) -> key_matches_reveal (Some (ri_key i)) (ri_reveal i) = true ->
    (Z.of_nat (String.length (ri_update_c i)) <= P_MaxOperationHashLength cfg)%Z -> mh_code (ri_update_c i) = Some (ri_code i) ->
    (Z.of_nat (String.length (ri_recovery_c i)) <= P_MaxOperationHashLength cfg)%Z -> mh_code (ri_recovery_c i) = Some (ri_code i) ->
    ri_update_c i <> ri_recovery_c i ->
    (Z.of_nat (String.length dh) <= P_MaxOperationHashLength cfg)%Z ->
    (forall c, jcs (img_delta d) = Some c -> (Z.of_nat (String.length c) <= P_MaxDeltaSize cfg)%Z) ->
    In (ri_alg i) (P_SignatureAlgorithms cfg) ->
    In (k_crv (ri_key i)) (P_KeyAlgorithms cfg) -> nonce_rule cfg (k_nonce (ri_key i)) ->
    time_ok 0 (until_of cfg 0 0) = true ->
    wfnum (ri_origin i) -> (forall o', jequiv (ri_origin i) o' -> origin_ok o' = true) ->
    Forall is_obj (ri_patches i) -> Forall wfnum (ri_patches i) ->
    (forall p p', In p (ri_patches i) -> jequiv p p' -> patch_enabled cfg p' = true /\ validate_patch uri_ok url_norm p' = true) ->
    exists p d',
      parse_operation cfg uri_ok url_norm origin_ok time_ok bytes false = Some p /\
      p_type p = "recover" /\ p_suffix p = ri_suffix i /\ p_reveal p = ri_reveal i /\
      p_delta p = Some d' /\ d_update_c d' = ri_update_c i /\ Forall2 jequiv (ri_patches i) (d_patches d') /\
      jequiv (ri_origin i) (p_origin p) /\
      parse_signed_recover cfg (p_signed p) = Some {| sr_delta_hash := dh; sr_key := Some (ri_key i); sr_recovery_c := ri_recovery_c i;
                                                      sr_origin := p_origin p; sr_from := 0; sr_until := 0 |}.
  Proof.
    intros Hb Hcode Hsize Hrv Hreveal Hluc Hcuc Hlrc Hcrc Hdiff Hldh Hdsize Halg Hcrv Hnonce Htime Hwo Hok Hobj Hwf Hvalid.
    unfold build_recover in Hb.
    destruct (String.eqb_spec (ri_suffix i) "") as [|Hsfx]; [discriminate|].
    destruct (String.eqb_spec (ri_reveal i) "") as [|Hrvne]; [discriminate|].
    destruct (ri_patches i) as [|p0 ps0] eqn:Eps; [discriminate|]. rewrite <- Eps in *.
    destruct (String.eqb_spec (ri_alg i) "") as [|Halgne]; cbn [orb] in Hb; [discriminate|].
    destruct (String.eqb_spec (ri_sig i) "") as [|Hsigne]; [discriminate|].
    destruct (jwk_valid (ri_key i)) eqn:Ekv; cbn [negb] in Hb; [|discriminate].
    set (d0 := {| d_update_c := ri_update_c i; d_patches := ri_patches i |}) in *.
    destruct (calc_mh (img_delta d0) (ri_code i)) as [dh0|] eqn:Edh; [|discriminate].
    destruct (commit (img_jwk (ri_key i)) (ri_code i)) as [cur|] eqn:Ecur; [|discriminate].
    destruct (String.eqb_spec cur (ri_recovery_c i)) as [|Hcur]; [discriminate|].
    destruct (jcs (JObj [("alg", JStr (ri_alg i))])) as [hb|] eqn:Ehb; [|discriminate].
    destruct (jcs (JObj (recover_signed_members dh0 (ri_key i) (ri_recovery_c i) (ri_origin i)))) as [payload|] eqn:Epl; [|discriminate].
    set (sd := compact hb payload (ri_sig i)) in *.
    destruct (jcs (JObj (recover_members (ri_suffix i) (ri_reveal i) d0 sd))) as [bs|] eqn:Ej; [|discriminate].
    injection Hb as <- <- <-.
    assert (Wreq : wfnum (JObj (recover_members (ri_suffix i) (ri_reveal i) d0 sd))).
    { constructor. unfold recover_members. repeat (constructor; [first [exact (W_str _) | exact (wfnum_img_delta d0 Hwf)]|]). constructor. }
    destruct (jcs_parse_roundtrip _ _ Ej Wreq) as [v' [Hparse [Ev' _]]].
    assert (ND : NoDup (fnames (recover_members (ri_suffix i) (ri_reveal i) d0 sd))) by (cbn; repeat constructor; cbn; intuition discriminate).
    destruct (field_jequiv "type" _ _ ND Ev') as [m' [-> _]].
    assert (Ft : dec_string (field "type" m') = Some "recover")
      by (rewrite <- (dec_string_respects _ _ (field_opt_jequiv "type" _ _ ND Ev')); reflexivity).
    assert (Fs : dec_string (field "didSuffix" m') = Some (ri_suffix i))
      by (rewrite <- (dec_string_respects _ _ (field_opt_jequiv "didSuffix" _ _ ND Ev')); reflexivity).
    assert (Fr : dec_string (field "revealValue" m') = Some (ri_reveal i))
      by (rewrite <- (dec_string_respects _ _ (field_opt_jequiv "revealValue" _ _ ND Ev')); reflexivity).
    assert (Fd : dec_string (field "signedData" m') = Some sd)
      by (rewrite <- (dec_string_respects _ _ (field_opt_jequiv "signedData" _ _ ND Ev')); reflexivity).
    pose proof (field_opt_jequiv "delta" _ _ ND Ev') as Hd.
    change (field "delta" (recover_members (ri_suffix i) (ri_reveal i) d0 sd)) with (Some (img_delta d0)) in Hd. unfold opt_jequiv in Hd.
    destruct (field "delta" m') as [xd|] eqn:Exd; [|contradiction].
    destruct (dec_delta_jequiv d0 xd Hobj Hwf Hd) as [ps' [Dd [Fps [Ops Wps]]]]. cbn [d_update_c d_patches d0] in Dd, Fps.
    set (d' := {| d_update_c := ri_update_c i; d_patches := ps' |}) in *.
    destruct (header_roundtrip cfg uri_ok url_norm _ _ Ehb Halgne Halg) as [h' [Hph [Hhas [Hhr [Hhbne Hdup]]]]].
    (* the payload *)
    assert (Wpl : wfnum (JObj (recover_signed_members dh0 (ri_key i) (ri_recovery_c i) (ri_origin i)))).
    { constructor. unfold recover_signed_members. apply Forall_app. split.
      - repeat (constructor; [first [exact (W_str _) | exact (wfnum_img_jwk _)]|]). constructor.
      - destruct (ri_origin i); constructor; try exact Hwo; constructor. }
    destruct (jcs_parse_roundtrip _ _ Epl Wpl) as [vp [Hpp [Evp Wvp]]].
    assert (NDp : NoDup (fnames (recover_signed_members dh0 (ri_key i) (ri_recovery_c i) (ri_origin i)))).
    { unfold recover_signed_members. destruct (ri_origin i); cbn; repeat constructor; cbn; intuition discriminate. }
    destruct (field_jequiv "deltaHash" _ _ NDp Evp) as [pm [-> _]].
    assert (Hplne : payload <> "") by (intros ->; cbn in Hpp; discriminate).
    set (j := {| j_headers := h'; j_payload := payload; j_signature := ri_sig i;
                 j_parts := (b64_encode hb, b64_encode payload, b64_encode (ri_sig i)) |}).
    assert (Hjws : parse_jws sd = Some j) by (apply parse_jws_compact; auto).
    assert (Hpo : payload_obj j = Some pm) by (unfold payload_obj; cbn [j_payload j]; now rewrite Hpp).
    assert (Fk : field "recoveryKey" (recover_signed_members dh0 (ri_key i) (ri_recovery_c i) (ri_origin i)) = Some (img_jwk (ri_key i)))
      by (unfold recover_signed_members; destruct (ri_origin i); reflexivity).
    pose proof (field_opt_jequiv "recoveryKey" _ _ NDp Evp) as Hk. rewrite Fk in Hk. unfold opt_jequiv in Hk.
    destruct (field "recoveryKey" pm) as [xk|] eqn:Exk; [|contradiction].
    assert (Dk : dec_jwk (field "recoveryKey" pm) = Some (Some (ri_key i))) by (rewrite Exk; now apply dec_jwk_jequiv).
    assert (Ddh : dec_string (field "deltaHash" pm) = Some dh0).
    { rewrite <- (dec_string_respects _ _ (field_opt_jequiv "deltaHash" _ _ NDp Evp)). unfold recover_signed_members. destruct (ri_origin i); reflexivity. }
    assert (Drc : dec_string (field "recoveryCommitment" pm) = Some (ri_recovery_c i)).
    { rewrite <- (dec_string_respects _ _ (field_opt_jequiv "recoveryCommitment" _ _ NDp Evp)). unfold recover_signed_members. destruct (ri_origin i); reflexivity. }
    assert (Df : dec_int64 (field "anchorFrom" pm) = Some 0%Z).
    { apply (absent_int "anchorFrom" _ _ NDp Evp). unfold recover_signed_members. destruct (ri_origin i); reflexivity. }
    assert (Du : dec_int64 (field "anchorUntil" pm) = Some 0%Z).
    { apply (absent_int "anchorUntil" _ _ NDp Evp). unfold recover_signed_members. destruct (ri_origin i); reflexivity. }
    (* the anchor origin *)
    assert (exists o', dec_any (field "anchorOrigin" pm) = Some o' /\ jequiv (ri_origin i) o') as [o' [Do Eo]].
    { pose proof (field_opt_jequiv "anchorOrigin" _ _ NDp Evp) as Ho. unfold opt_jequiv in Ho.
      assert (Fo : field "anchorOrigin" (recover_signed_members dh0 (ri_key i) (ri_recovery_c i) (ri_origin i)) =
                   match ri_origin i with JNull => None | v => Some v end)
        by (unfold recover_signed_members; destruct (ri_origin i); reflexivity).
      rewrite Fo in Ho. destruct (ri_origin i) eqn:Eor;
        try (destruct (field "anchorOrigin" pm) as [x|]; [|contradiction];
             exists x; split; [cbn [dec_any]; apply normalise_wfnum; eapply jequiv_wfnum; [exact Ho|exact Hwo]|exact Ho]).
      destruct (field "anchorOrigin" pm); [contradiction|]. exists JNull. split; [reflexivity|constructor]. }
    assert (Hcode_dh : mh_code dh0 = Some (ri_code i)) by (apply (code_of_calc sha256 sha512 sha256_length sha512_length _ _ _ Edh)).
    set (p := {| p_type := "recover"; p_suffix := ri_suffix i; p_origin := o'; p_reveal := ri_reveal i; p_signed := sd; p_delta := Some d';
                 p_suffix_data := None; p_time_args := Some (0%Z, until_of cfg 0 0); p_origin_arg := Some o' |}).
    assert (Hsr : parse_signed_recover cfg sd = Some {| sr_delta_hash := dh0; sr_key := Some (ri_key i); sr_recovery_c := ri_recovery_c i;
                                                         sr_origin := o'; sr_from := 0; sr_until := 0 |}).
    { unfold parse_signed_recover.
      assert (Hsd : parse_signed_data cfg sd = Some j)
        by (apply parse_signed_data_iff; split; [now apply compact_nonempty|]; split; [exact Hjws|exact Hhr]).
      assert (Hk' : validate_signing_key cfg (Some (ri_key i)) = true) by (apply validate_signing_key_iff; exists (ri_key i); auto).
      assert (Hm1 : validate_multihash cfg (ri_recovery_c i) = true) by (apply validate_multihash_iff; split; [exact Hlrc|exists (ri_code i); auto]).
      assert (Hm2 : validate_multihash cfg dh0 = true) by (apply validate_multihash_iff; split; [exact Hldh|exists (ri_code i); auto]).
      assert (Hvc : validate_commitment (ri_key i) (ri_recovery_c i) = true)
        by (unfold validate_commitment; rewrite Hcrc, Ecur; apply String.eqb_neq in Hcur; now rewrite Hcur).
      rewrite Hsd, Hpo, Ddh, Dk, Drc, Do, Df, Du, Hk', Hm1, Hm2, Hvc. reflexivity. }
    exists p, d'. split; [|cbn; repeat split; auto].
    apply accept_iff_rules. split; [exact Hsize|]. exists m'. split; [exact Hparse|].
    exists "recover". split; [exact Ft|]. right. right. right. split; [reflexivity|].
    exists (ri_suffix i), (ri_reveal i), sd, (Some d'), j, pm, dh0, (Some (ri_key i)), (ri_recovery_c i), o', 0%Z, 0%Z.
    split. { unfold common_rule. rewrite Ft, Fs, Fr, Fd. repeat split; auto; try discriminate; try apply Hrv. now apply compact_nonempty. }
    split. { rewrite Exd. exact Dd. }
    split. { unfold signed_data_rule. split; [now apply compact_nonempty|]. split; [exact Hjws|exact Hhr]. }
    split; [exact Hpo|]. split; [exact Ddh|]. split; [exact Dk|]. split; [exact Drc|]. split; [exact Do|]. split; [exact Df|]. split; [exact Du|].
    split. { exists (ri_key i). auto. }
    split. { split; [exact Hlrc|]. exists (ri_code i). auto. }
    split. { split; [exact Hldh|]. exists (ri_code i). auto. }
    split. { exists (ri_key i). split; [reflexivity|]. unfold validate_commitment. rewrite Hcrc, Ecur. apply String.eqb_neq in Hcur. now rewrite Hcur. }
    split; [apply Hok; exact Eo|]. split; [exact Htime|].
    split. { apply (delta_rule_built cfg uri_ok url_norm _ (ri_patches i) ps' (ri_code i) dh0); auto. rewrite Eps. discriminate. }
    split; [cbn [d_update_c d']; exact Hdiff|]. split; [exact Hreveal|]. reflexivity.
  Qed.
End AcceptedRecover.

(* ---- the hypotheses are satisfiable: built requests through the parser, computed ---- *)

Definition ex_key (x : string) : jwk :=
  {| k_kty := "EC"; k_crv := "P-256"; k_x := x; k_y := "eQ"; k_n := ""; k_e := ""; k_nonce := "" |}.

Example signed_builders_example :
  let cur := ex_key "AQ" in
  let parse := parse_operation ex_protocol (fun _ => true) (fun s => Some s) (fun _ => true) (fun _ _ => true) in
  match reveal (img_jwk cur) 18%N, commit (img_jwk (ex_key "Ag")) 18%N, commit (img_jwk (ex_key "Aw")) 18%N with
  | Some rv, Some uc, Some rc =>
      let ps := [JObj [("action", JStr "add-also-known-as"); ("uris", JArr [JStr "https://a.example"])]] in
      (match build_update {| ui_suffix := "EiSuffix"; ui_patches := ps; ui_update_c := uc; ui_key := cur; ui_code := 18%N;
                             ui_reveal := rv; ui_alg := "ES256"; ui_sig := "sig" |} with
       | Some (bytes, _, _) => match parse bytes false with Some p => String.eqb (p_type p) "update" | None => false end
       | None => false end) &&
      (match build_deactivate {| di_suffix := "EiSuffix"; di_key := cur; di_reveal := rv; di_alg := "ES256"; di_sig := "sig" |} with
       | Some bytes => match parse bytes false with Some p => String.eqb (p_type p) "deactivate" | None => false end
       | None => false end) &&
      (match build_recover {| ri_suffix := "EiSuffix"; ri_key := cur; ri_patches := ps; ri_recovery_c := rc; ri_update_c := uc;
                              ri_origin := JStr "origin.example"; ri_code := 18%N; ri_reveal := rv; ri_alg := "ES256"; ri_sig := "sig" |} with
       | Some (bytes, _, _) => match parse bytes false with Some p => String.eqb (p_type p) "recover" | None => false end
       | None => false end)
  | _, _, _ => false
  end = true.
Proof. vm_compute. reflexivity. Qed.
