(* Further clauses of C18 on the transformer model: relationships, services, contexts,
   de-duplication of published operations, metadata fields. *)
From Coq Require Import ZArith NArith String List Bool Sorting.Sorted Sorting.Permutation Lia.
From Sidetree Require Import Json.Json Sidetree.Protocol Sidetree.JsonPatch Sidetree.Composer Sidetree.Applier Sidetree.Transformer.
Import ListNotations.
Open Scope string_scope.

(* ---- relationships: a key is referenced from exactly the relationships its purposes name ---- *)

Theorem relationship_exact o did keys purpose r :
  In r (relationship o did keys purpose) <->
  exists pk, In pk keys /\ In purpose (string_array (lookup "purposes" pk)) /\ r = JStr (object_id o did (entry_id pk)).
Proof.
  unfold relationship. rewrite in_flat_map. split.
  - intros [pk [Ik Ir]]. apply in_map_iff in Ir as [p [<- Ip]]. apply filter_In in Ip as [Ip Ep].
    apply String.eqb_eq in Ep. subst p. exists pk. auto.
  - intros [pk [Ik [Ip ->]]]. exists pk. split; [exact Ik|]. apply in_map_iff. exists purpose. split; [reflexivity|].
    apply filter_In. split; [exact Ip|apply String.eqb_refl].
Qed.

(* once per occurrence of the purpose on the key *)
Theorem relationship_count o did pk purpose :
  length (relationship o did [pk] purpose) = count_occ string_dec (string_array (lookup "purposes" pk)) purpose.
Proof.
  unfold relationship. cbn [flat_map]. rewrite app_nil_r, map_length.
  induction (string_array (lookup "purposes" pk)) as [|p l IH]; [reflexivity|]. cbn [filter count_occ].
  destruct (String.eqb_spec purpose p) as [->|N].
  - destruct (string_dec p p); [cbn; now rewrite IH|contradiction].
  - destruct (string_dec p purpose); [congruence|exact IH].
Qed.

(* ---- services: qualified id, and every member of the internal service ---- *)

Theorem service_members o did sv :
  exists m, transform_service o did sv = JObj m /\
    lookup "id" m = Some (JStr (object_id o did (entry_id sv))) /\
    lookup "type" m = Some (JStr (string_entry (lookup "type" sv))) /\
    lookup "serviceEndpoint" m = Some (node (lookup "serviceEndpoint" sv)) /\
    (forall k v, In (k, v) sv -> k <> "id" -> k <> "type" -> k <> "serviceEndpoint" -> In (k, v) m).
Proof.
  unfold transform_service. eexists. split; [reflexivity|]. repeat split.
  intros k v I N1 N2 N3. right. right. right. apply filter_In. split; [exact I|].
  cbn [fst mem_str existsb]. apply String.eqb_neq in N1, N2, N3. now rewrite N1, N2, N3.
Qed.

(* ---- contexts: one per key type used ---- *)

Lemma add_unique_nodup l x : NoDup l -> NoDup (add_unique l x).
Proof.
  intros ND. unfold add_unique. destruct (mem_str x l) eqn:E; [exact ND|].
  apply NoDup_app_remove_r with (l' := []) || idtac.
  assert (N : ~ In x l).
  { intros I. unfold mem_str in E. assert (existsb (String.eqb x) l = true) by (apply existsb_exists; exists x; split; [exact I|apply String.eqb_refl]). congruence. }
  clear E. induction l as [|y l IH]; cbn; [constructor; [tauto|constructor]|].
  inversion ND as [|? ? Hy NDl]; subst. constructor.
  - rewrite in_app_iff. cbn. intros [I|[E|[]]]; [contradiction|]. subst. apply N. now left.
  - apply IH; auto. intros I. apply N. now right.
Qed.

Lemma add_unique_in l x y : In y (add_unique l x) <-> In y l \/ y = x.
Proof.
  unfold add_unique. destruct (mem_str x l) eqn:E.
  - unfold mem_str in E. apply existsb_exists in E as [z [I Ez]]. apply String.eqb_eq in Ez. subst z.
    split; [auto|]. intros [H| ->]; auto.
  - rewrite in_app_iff. cbn. intuition.
Qed.

Theorem key_contexts_once ctxs : forall acc, NoDup acc ->
  NoDup (fold_left add_unique ctxs acc) /\ (forall c, In c (fold_left add_unique ctxs acc) <-> In c acc \/ In c ctxs).
Proof.
  induction ctxs as [|x r IH]; intros acc ND; cbn [fold_left].
  - split; [exact ND|]. intros c. cbn. tauto.
  - destruct (IH (add_unique acc x) (add_unique_nodup _ _ ND)) as [N I]. split; [exact N|].
    intros c. rewrite I, add_unique_in. cbn. intuition.
Qed.

(* ---- published operations: one entry per canonical reference, the first (earliest) kept ---- *)

Section Dedup.
  Context {A : Type} (f : A -> string).

  Lemma dedup_sub seen l x : In x (dedup_by f seen l) -> In x l /\ ~ In (f x) seen.
  Proof.
    revert seen. induction l as [|y r IH]; intros seen I; cbn in I; [destruct I|].
    destruct (mem_str (f y) seen) eqn:E.
    - destruct (IH _ I) as [I1 I2]. split; [now right|exact I2].
    - destruct I as [<-|I].
      + split; [now left|]. intros H. assert (mem_str (f y) seen = true) by (apply existsb_exists; exists (f y); split; [exact H|apply String.eqb_refl]). congruence.
      + destruct (IH _ I) as [I1 I2]. split; [now right|]. intros H. apply I2. now right.
  Qed.

  Theorem dedup_nodup l : forall seen, NoDup (map f (dedup_by f seen l)).
  Proof.
    induction l as [|y r IH]; intros seen; cbn; [constructor|].
    destruct (mem_str (f y) seen); [apply IH|]. cbn. constructor; [|apply IH].
    intros I. apply in_map_iff in I as [z [Ez Iz]]. apply dedup_sub in Iz as [_ N]. apply N. rewrite Ez. now left.
  Qed.

  (* every canonical reference of the input is still represented, by its first occurrence *)
  Theorem dedup_keeps_first l : forall seen x, In x l -> ~ In (f x) seen ->
    exists y pre post, l = (pre ++ y :: post)%list /\ f y = f x /\ (forall z, In z pre -> f z <> f x) /\ In y (dedup_by f seen l).
  Proof.
    induction l as [|y r IH]; intros seen x I N; [destruct I|]. cbn [dedup_by].
    destruct (String.eqb_spec (f y) (f x)) as [E|NE].
    - exists y, [], r. split; [reflexivity|]. split; [exact E|]. split; [intros z []|].
      destruct (mem_str (f y) seen) eqn:M.
      + unfold mem_str in M. apply existsb_exists in M as [s [Is Es]]. apply String.eqb_eq in Es. subst s. rewrite E in Is. contradiction.
      + now left.
    - destruct I as [->|I]; [congruence|].
      destruct (mem_str (f y) seen) eqn:M.
      + destruct (IH seen x I N) as [w [pre [post [-> [Ew [Hp Iw]]]]]]. exists w, (y :: pre), post. split; [reflexivity|]. split; [exact Ew|]. split; [|exact Iw].
        intros z [<-|Iz]; auto.
      + assert (N' : ~ In (f x) (f y :: seen)) by (intros [H|H]; [congruence|contradiction]).
        destruct (IH (f y :: seen) x I N') as [w [pre [post [-> [Ew [Hp Iw]]]]]]. exists w, (y :: pre), post. split; [reflexivity|]. split; [exact Ew|]. split.
        * intros z [<-|Iz]; auto.
        * now right.
  Qed.
End Dedup.

(* ---- metadata: the state's items as given ---- *)

Theorem metadata_items rm info published :
  let md := metadata_of rm info published in
  lookup "canonicalId" md = option_map JStr (ti_canonical info) /\
  lookup "equivalentId" md = option_map (fun l => JArr (map JStr l)) (ti_equivalent info) /\
  lookup "deactivated" md = (if rm_deactivated rm then Some (JBool true) else None) /\
  lookup "created" md = (if published then Some (JStr (rfc3339 (rm_created rm))) else None) /\
  exists method, lookup "method" md = Some (JObj method) /\
    lookup "published" method = Some (JBool published) /\
    lookup "recoveryCommitment" method = (if String.eqb (rm_recovery_c rm) "" then None else Some (JStr (rm_recovery_c rm))) /\
    lookup "updateCommitment" method = (if String.eqb (rm_update_c rm) "" then None else Some (JStr (rm_update_c rm))) /\
    lookup "anchorOrigin" method = (match rm_origin rm with JNull => None | v => Some v end).
Proof.
  unfold metadata_of. cbn zeta.
  destruct (rm_deactivated rm), (ti_canonical info), (ti_equivalent info), published, (String.eqb (rm_version rm) ""), (0 <? rm_updated rm)%Z;
    cbn; (repeat split; try reflexivity); eexists; (split; [reflexivity|]);
    destruct (String.eqb (rm_recovery_c rm) ""), (String.eqb (rm_update_c rm) ""), (rm_origin rm); cbn; repeat split; reflexivity.
Qed.
