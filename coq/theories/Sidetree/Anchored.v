(* model.GetAnchoredOperation (pkg/versions/1_0/model/util.go): the anchored form of an accepted
   request is the canonical encoding of the request struct rebuilt from the parsed operation.
   Proved here for every accepted request: the anchored bytes (when within the operation size
   limit - number re-spelling may lengthen a request) are accepted again and denote the same
   operation: same type, suffix, reveal value, signed data, anchor origin, time arguments, and a
   delta with the same update commitment and patches equal up to member order.  That applying
   the two byte strings gives the same state is decided by correspondence (C08 lifecycles). *)
From Coq Require Import ZArith NArith String Ascii List Bool Sorting.Permutation Lia.
From Sidetree Require Import Base.Sha2 Base.Base64url Json.Json Json.Jcs Json.Parse Json.JcsProps Json.JcsRoundTrip Json.TransformIdem
     Sidetree.Protocol Sidetree.Window Sidetree.JsonPatch Sidetree.Composer Sidetree.Validator Sidetree.Hashing Sidetree.Parser
     Sidetree.Rules Sidetree.JequivDecode Sidetree.ValidatorJequiv Sidetree.Respell Sidetree.ClientCreate Sidetree.ClientUpdate Sidetree.ClientDeactivateRecover Sidetree.ClientSimple.
Import ListNotations.
Open Scope string_scope.

(* the request struct GetAnchoredOperation fills, as its JSON image *)
Definition anchored_members (p : parsed) : option obj :=
  if String.eqb (p_type p) "deactivate" then Some (deactivate_members (p_suffix p) (p_reveal p) (p_signed p))
  else if String.eqb (p_type p) "update" then
    match p_delta p with Some d => Some (update_members (p_suffix p) (p_reveal p) d (p_signed p)) | None => None end
  else if String.eqb (p_type p) "recover" then
    match p_delta p with Some d => Some (recover_members (p_suffix p) (p_reveal p) d (p_signed p)) | None => None end
  else if String.eqb (p_type p) "create" then
    match p_suffix_data p, p_delta p with Some s, Some d => Some (create_members "create" s d) | _, _ => None end
  else None.

Definition anchored_bytes (p : parsed) : option string :=
  match anchored_members p with Some m => jcs (JObj m) | None => None end.

(* what the delta decoder hands out *)
Lemma dec_patches_out_wfnum o l : dec_patches o = Some l -> Forall wfnum l.
Proof.
  destruct o as [[| | | |a|]|]; cbn [dec_patches]; try discriminate; try (intros E; injection E as <-; constructor).
  revert l. induction a as [|x r IH]; intros l E; [injection E as <-; constructor|].
  destruct x as [| | | | |m]; try discriminate.
  - destruct ((fix go (l : list json) : option (list json) := _) r) as [r'|] eqn:Er; [|discriminate].
    injection E as <-. constructor; [exact W_null|apply IH; reflexivity].
  - destruct (normalise_numbers (JObj m)) as [v|] eqn:En; [|discriminate].
    destruct ((fix go (l : list json) : option (list json) := _) r) as [r'|] eqn:Er; [|discriminate].
    injection E as <-. constructor; [apply (normalise_numbers_wfnum _ _ En)|apply IH; reflexivity].
Qed.

Lemma dec_delta_out_wfnum o d : dec_delta o = Some (Some d) -> Forall wfnum (d_patches d).
Proof.
  destruct o as [[| | | | |m]|]; cbn [dec_delta]; try discriminate.
  destruct (dec_string (field "updateCommitment" m)); [|discriminate].
  destruct (dec_patches (field "patches" m)) as [l|] eqn:E; [|discriminate].
  intros H. injection H as <-. cbn. eapply dec_patches_out_wfnum; eauto.
Qed.

Lemma validate_patch_obj u n p : validate_patch u n p = true -> is_obj p.
Proof. destruct p; cbn; try discriminate. intros _. eexists; reflexivity. Qed.

Lemma jcs_delta_ndk d c : jcs (img_delta d) = Some c -> Forall ndk (d_patches d).
Proof.
  intros Ej. apply jcs_ndk in Ej. unfold img_delta in Ej. inversion Ej as [| | | | |? _ Fm]; subst. clear Ej.
  destruct (d_patches d) as [|p ps] eqn:Ep; [constructor|].
  rewrite Forall_app in Fm. destruct Fm as [_ Fm]. inversion Fm as [|? ? Hp _]; subst. cbn in Hp. now inversion Hp.
Qed.

Lemma dec_suffix_data_out_wfnum o s : dec_suffix_data o = Some (Some s) -> wfnum (sd_origin s).
Proof.
  destruct o as [[| | | | |m]|]; cbn [dec_suffix_data]; try discriminate.
  destruct (dec_string (field "deltaHash" m)); [|discriminate]. destruct (dec_string (field "recoveryCommitment" m)); [|discriminate].
  destruct (dec_any (field "anchorOrigin" m)) as [c|] eqn:Ec; [|discriminate]. destruct (dec_string (field "type" m)); [|discriminate].
  intros H. injection H as <-. cbn [sd_origin]. unfold dec_any in Ec. destruct (field "anchorOrigin" m) as [v|].
  - apply (normalise_numbers_wfnum _ _ Ec).
  - injection Ec as <-. constructor.
Qed.

Section Anchored.
  Variable cfg : protocol.
  Variable uri_ok : string -> bool.
  Variable url_norm : string -> option string.
  Variable origin_ok : json -> bool.
  Variable time_ok : Z -> Z -> bool.

  Let parse := parse_operation cfg uri_ok url_norm origin_ok time_ok.

  Lemma obeys_type m p : obeys cfg uri_ok url_norm origin_ok time_ok m p ->
    (p_type p = "create" /\ create_rules cfg uri_ok url_norm origin_ok m p) \/
    (p_type p = "update" /\ update_rules cfg uri_ok url_norm time_ok m p) \/
    (p_type p = "deactivate" /\ deactivate_rules cfg time_ok m p) \/
    (p_type p = "recover" /\ recover_rules cfg uri_ok url_norm origin_ok time_ok m p).
  Proof.
    intros [ty [_ [[_ H]|[[_ H]|[[_ H]|[_ H]]]]]].
    - left. split; [|exact H]. destruct H as (sd & od & a & rest & sfx & H). decompose [and] H. subst p. reflexivity.
    - right. left. split; [|exact H]. destruct H as (sfx & rv & sd & od & j & pm & k & dh & f & u & H). decompose [and] H. subst p. reflexivity.
    - right. right. left. split; [|exact H]. destruct H as (sfx & rv & sd & j & pm & ss & k & f & u & H). decompose [and] H. subst p. reflexivity.
    - right. right. right. split; [|exact H]. destruct H as (sfx & rv & sd & od & j & pm & dh & k & rc & o & f & u & H). decompose [and] H. subst p. reflexivity.
  Qed.

  (* the common members read back from the canonical bytes of a rebuilt request *)
  Lemma common_back (members : obj) ty sfx rv sd b' :
    NoDup (fnames members) ->
    field "type" members = Some (JStr ty) -> field "didSuffix" members = Some (JStr sfx) ->
    field "revealValue" members = Some (JStr rv) -> field "signedData" members = Some (JStr sd) ->
    wfnum (JObj members) -> jcs (JObj members) = Some b' ->
    sfx <> "" -> sd <> "" -> hash_rule cfg rv ->
    exists m', parse_json b' = Some (JObj m') /\ jequiv (JObj members) (JObj m') /\
      dec_string (field "type" m') = Some ty /\ common_rule cfg m' sfx rv sd.
  Proof.
    intros ND Ft Fs Fr Fd W Ej Hs Hd Hr.
    destruct (jcs_parse_roundtrip _ _ Ej W) as [v' [Hparse [Ev' _]]].
    destruct (jequiv_obj_inv _ _ Ev') as [_ [m' [-> _]]].
    exists m'. split; [exact Hparse|]. split; [exact Ev'|].
    assert (T : dec_string (field "type" m') = Some ty)
      by (rewrite <- (dec_string_respects _ _ (field_opt_jequiv "type" _ _ ND Ev')), Ft; reflexivity).
    split; [exact T|]. unfold common_rule. rewrite T.
    rewrite <- (dec_string_respects _ _ (field_opt_jequiv "didSuffix" _ _ ND Ev')), Fs.
    rewrite <- (dec_string_respects _ _ (field_opt_jequiv "revealValue" _ _ ND Ev')), Fr.
    rewrite <- (dec_string_respects _ _ (field_opt_jequiv "signedData" _ _ ND Ev')), Fd.
    cbn [dec_string]. repeat split; auto; try discriminate; apply Hr.
  Qed.

  (* ---- deactivate: the anchored form is accepted again as the very same operation ---- *)
  Theorem deactivate_anchored bytes p b' :
    parse bytes false = Some p -> p_type p = "deactivate" ->
    anchored_bytes p = Some b' -> (Z.of_nat (String.length b') <= P_MaxOperationSize cfg)%Z ->
    parse b' false = Some p.
  Proof.
    intros Hp Hty Hb Hsize. apply accept_iff_rules in Hp. destruct Hp as [_ [m [_ Hob]]].
    destruct (obeys_type _ _ Hob) as [[E _]|[[E _]|[[_ H]|[E _]]]]; try congruence.
    destruct H as (sfx & rv & sd & j & pm & ss & k & f & u & Hc & Hj & Hpo & A & B & C & D & E & Hk & Hss & Hr & Ht & ->).
    unfold anchored_bytes, anchored_members in Hb. cbn [p_type p_suffix p_reveal p_signed String.eqb Ascii.eqb Bool.eqb] in Hb.
    destruct Hc as (_ & _ & _ & _ & Hsne & Hsdne & Hrv).
    destruct (common_back (deactivate_members sfx rv sd) "deactivate" sfx rv sd b') as [m' [Hparse [_ [T Hc']]]]; auto.
    { cbn; repeat constructor; cbn; intuition discriminate. }
    { repeat constructor. }
    apply accept_iff_rules. split; [exact Hsize|]. exists m'. split; [exact Hparse|].
    exists "deactivate". split; [exact T|]. right. right. left. split; [reflexivity|].
    exists sfx, rv, sd, j, pm, ss, k, f, u. split; [exact Hc'|]. repeat (split; [assumption|]). reflexivity.
  Qed.
  (* the delta of an accepted request, read back from the canonical bytes of the rebuilt request *)
  Lemma delta_back d (members : obj) m' :
    NoDup (fnames members) -> field "delta" members = Some (img_delta d) -> jequiv (JObj members) (JObj m') ->
    delta_rule cfg uri_ok url_norm (Some d) -> Forall wfnum (d_patches d) ->
    exists d', dec_delta (field "delta" m') = Some (Some d') /\ d_update_c d' = d_update_c d /\
      Forall2 jequiv (d_patches d) (d_patches d') /\ delta_rule cfg uri_ok url_norm (Some d').
  Proof.
    intros ND Fd E (d0 & Ed0 & Hne & Hval & Hh & (c & Ec & Hsz)) Hwf. injection Ed0 as <-.
    assert (Hobj : Forall is_obj (d_patches d)).
    { rewrite Forall_forall in Hval |- *. intros q Iq. eapply validate_patch_obj. apply (Hval q Iq). }
    assert (N : Forall ndk (d_patches d)) by (eapply jcs_delta_ndk; eauto).
    pose proof (field_opt_jequiv "delta" _ _ ND E) as Hd. rewrite Fd in Hd. unfold opt_jequiv in Hd.
    destruct (field "delta" m') as [xd|] eqn:Exd; [|contradiction].
    destruct (dec_delta_jequiv d xd Hobj Hwf Hd) as [ps' [Dd [Fps _]]].
    exists {| d_update_c := d_update_c d; d_patches := ps' |}. split; [exact Dd|]. split; [reflexivity|]. split; [exact Fps|].
    exists {| d_update_c := d_update_c d; d_patches := ps' |}. split; [reflexivity|]. cbn [d_patches d_update_c]. split.
    { destruct (d_patches d); [congruence|]. inversion Fps; discriminate. }
    split.
    { apply Forall_forall. intros q Iq.
      assert (exists q0, In q0 (d_patches d) /\ jequiv q0 q) as [q0 [I0 E0]].
      { clear - Fps Iq. induction Fps as [|x y l l' Exy F IH]; [destruct Iq|]. destruct Iq as [<-|Iq]; [exists x; split; [now left|exact Exy]|].
        destruct (IH Iq) as [q0 [I0 E0]]. exists q0. split; [now right|exact E0]. }
      rewrite Forall_forall in Hval, N. assert (R : vrel q0 q) by (split; auto).
      rewrite <- (patch_enabled_rel cfg _ _ R), <- (validate_patch_rel uri_ok url_norm _ _ R). exact (Hval q0 I0). }
    split; [exact Hh|]. exists c. split; [|exact Hsz].
    rewrite <- Ec. symmetry. apply jcs_canonical. destruct d as [uc ps]. apply img_delta_jequiv. exact Fps.
  Qed.

  (* ---- update ---- *)
  Theorem update_anchored bytes p b' :
    parse bytes false = Some p -> p_type p = "update" ->
    anchored_bytes p = Some b' -> (Z.of_nat (String.length b') <= P_MaxOperationSize cfg)%Z ->
    exists d d', p_delta p = Some d /\
      parse b' false = Some {| p_type := p_type p; p_suffix := p_suffix p; p_origin := p_origin p; p_reveal := p_reveal p;
                               p_signed := p_signed p; p_delta := Some d'; p_suffix_data := p_suffix_data p;
                               p_time_args := p_time_args p; p_origin_arg := p_origin_arg p |} /\
      d_update_c d' = d_update_c d /\ Forall2 jequiv (d_patches d) (d_patches d').
  Proof.
    intros Hp Hty Hb Hsize. apply accept_iff_rules in Hp. destruct Hp as [_ [m [_ Hob]]].
    destruct (obeys_type _ _ Hob) as [[E _]|[[_ H]|[[E _]|[E _]]]]; try congruence.
    destruct H as (sfx & rv & sd & od & j & pm & k & dh & f & u & Hc & Hd & Hj & Hpo & A & B & C & D & Hk & Hh & Ht & Hdr & (k' & d & Ek & Eo & Hvc) & Hr & ->).
    subst od. unfold anchored_bytes, anchored_members in Hb. cbn [p_type p_suffix p_reveal p_signed p_delta String.eqb Ascii.eqb Bool.eqb] in Hb.
    destruct Hc as (_ & _ & _ & _ & Hsne & Hsdne & Hrv).
    pose proof (dec_delta_out_wfnum _ _ Hd) as Hwf.
    assert (ND : NoDup (fnames (update_members sfx rv d sd))) by (cbn; repeat constructor; cbn; intuition discriminate).
    destruct (common_back (update_members sfx rv d sd) "update" sfx rv sd b') as [m' [Hparse [Ev' [T Hc']]]]; auto.
    { constructor. unfold update_members. repeat (constructor; [first [exact (W_str _) | exact (wfnum_img_delta d Hwf)]|]). constructor. }
    destruct (delta_back d (update_members sfx rv d sd) m' ND eq_refl Ev' Hdr Hwf) as [d' [Dd [Euc [Fps Hdr']]]].
    exists d, d'. split; [reflexivity|]. split; [|split; [exact Euc|exact Fps]].
    apply accept_iff_rules. split; [exact Hsize|]. exists m'. split; [exact Hparse|].
    exists "update". split; [exact T|]. right. left. split; [reflexivity|].
    exists sfx, rv, sd, (Some d'), j, pm, k, dh, f, u. split; [exact Hc'|]. split; [exact Dd|].
    repeat (split; [assumption|]). split.
    { exists k', d'. split; [exact Ek|]. split; [reflexivity|]. rewrite Euc. exact Hvc. }
    split; [exact Hr|]. reflexivity.
  Qed.
  (* ---- recover ---- *)
  Theorem recover_anchored bytes p b' :
    parse bytes false = Some p -> p_type p = "recover" ->
    anchored_bytes p = Some b' -> (Z.of_nat (String.length b') <= P_MaxOperationSize cfg)%Z ->
    exists d d', p_delta p = Some d /\
      parse b' false = Some {| p_type := p_type p; p_suffix := p_suffix p; p_origin := p_origin p; p_reveal := p_reveal p;
                               p_signed := p_signed p; p_delta := Some d'; p_suffix_data := p_suffix_data p;
                               p_time_args := p_time_args p; p_origin_arg := p_origin_arg p |} /\
      d_update_c d' = d_update_c d /\ Forall2 jequiv (d_patches d) (d_patches d').
  Proof.
    intros Hp Hty Hb Hsize. apply accept_iff_rules in Hp. destruct Hp as [_ [m [_ Hob]]].
    destruct (obeys_type _ _ Hob) as [[E _]|[[E _]|[[E _]|[_ H]]]]; try congruence.
    destruct H as (sfx & rv & sd & od & j & pm & dh & k & rc & o & f & u & Hc & Hd & Hj & Hpo & E1 & E2 & E3 & E4 & E5 & E6 & Hk & Hrc & Hdh & Hvc & Ho & Ht & Hdr & Hne & Hr & ->).
    destruct Hdr as (d & Eod & Hdr0). subst od. assert (Hdr : delta_rule cfg uri_ok url_norm (Some d)) by (exists d; split; [reflexivity|exact Hdr0]).
    unfold anchored_bytes, anchored_members in Hb. cbn [p_type p_suffix p_reveal p_signed p_delta String.eqb Ascii.eqb Bool.eqb] in Hb.
    destruct Hc as (_ & _ & _ & _ & Hsne & Hsdne & Hrv).
    pose proof (dec_delta_out_wfnum _ _ Hd) as Hwf.
    assert (ND : NoDup (fnames (recover_members sfx rv d sd))) by (cbn; repeat constructor; cbn; intuition discriminate).
    destruct (common_back (recover_members sfx rv d sd) "recover" sfx rv sd b') as [m' [Hparse [Ev' [T Hc']]]]; auto.
    { constructor. unfold recover_members. repeat (constructor; [first [exact (W_str _) | exact (wfnum_img_delta d Hwf)]|]). constructor. }
    destruct (delta_back d (recover_members sfx rv d sd) m' ND eq_refl Ev' Hdr Hwf) as [d' [Dd [Euc [Fps Hdr']]]].
    exists d, d'. split; [reflexivity|]. split; [|split; [exact Euc|exact Fps]].
    apply accept_iff_rules. split; [exact Hsize|]. exists m'. split; [exact Hparse|].
    exists "recover". split; [exact T|]. right. right. right. split; [reflexivity|].
    exists sfx, rv, sd, (Some d'), j, pm, dh, k, rc, o, f, u. split; [exact Hc'|]. split; [exact Dd|].
    repeat (split; [assumption|]). split; [cbn [d_update_c]; rewrite Euc; exact Hne|]. split; [exact Hr|]. reflexivity.
  Qed.

  (* ---- create ---- *)
  (* the anchor-origin validator receives a decoded JSON value (Go maps have no member order) *)
  Hypothesis origin_ok_order : forall a b, jequiv a b -> origin_ok a = origin_ok b.

  Theorem create_anchored bytes p b' :
    parse bytes false = Some p -> p_type p = "create" ->
    anchored_bytes p = Some b' -> (Z.of_nat (String.length b') <= P_MaxOperationSize cfg)%Z ->
    exists d d' s o',
      p_delta p = Some d /\ p_suffix_data p = Some s /\ jequiv (sd_origin s) o' /\
      parse b' false = Some {| p_type := "create"; p_suffix := p_suffix p; p_origin := o'; p_reveal := ""; p_signed := "";
                               p_delta := Some d';
                               p_suffix_data := Some {| sd_delta_hash := sd_delta_hash s; sd_recovery_c := sd_recovery_c s;
                                                        sd_origin := o'; sd_type := sd_type s |};
                               p_time_args := None; p_origin_arg := Some o' |} /\
      d_update_c d' = d_update_c d /\ Forall2 jequiv (d_patches d) (d_patches d').
  Proof.
    intros Hp Hty Hb Hsize. apply accept_iff_rules in Hp. destruct Hp as [_ [m [_ Hob]]].
    destruct (obeys_type _ _ Hob) as [[_ H]|[[E _]|[[E _]|[E _]]]]; try congruence.
    destruct H as (sd & od & a & rest & sfx & H0 & E1 & E2 & Ha & Hbb & Ho & Hdr & Hh & Hne & Eal & Ecm & ->).
    destruct Hdr as (d & Eod & Hdr0). subst od. assert (Hdr : delta_rule cfg uri_ok url_norm (Some d)) by (exists d; split; [reflexivity|exact Hdr0]).
    unfold anchored_bytes, anchored_members in Hb. cbn [p_type p_suffix_data p_delta String.eqb Ascii.eqb Bool.eqb] in Hb.
    pose proof (dec_delta_out_wfnum _ _ E2) as Hwf. pose proof (dec_suffix_data_out_wfnum _ _ E1) as Hwo.
    assert (Wreq : wfnum (JObj (create_members "create" sd d))).
    { constructor. unfold create_members, opt_member. cbn [String.eqb Ascii.eqb Bool.eqb app].
      constructor; [exact (W_str "create")|]. constructor; [exact (wfnum_img_sd sd Hwo)|].
      constructor; [exact (wfnum_img_delta d Hwf)|constructor]. }
    destruct (jcs_parse_roundtrip _ _ Hb Wreq) as [v' [Hparse [Ev' _]]].
    pose proof (create_members_nodup "create" sd d) as ND.
    destruct (field_jequiv "type" _ _ ND Ev') as [m' [-> _]].
    destruct (create_fields "create" sd d) as [Ft [Fs Fd]].
    assert (T : dec_string (field "type" m') = Some "create").
    { rewrite <- (dec_string_respects _ _ (field_opt_jequiv "type" _ _ ND Ev')). exact Ft. }
    pose proof (field_opt_jequiv "suffixData" _ _ ND Ev') as Hs. rewrite Fs in Hs. unfold opt_jequiv in Hs.
    destruct (field "suffixData" m') as [xs|] eqn:Exs; [|contradiction].
    destruct (dec_suffix_data_jequiv sd xs Hwo Hs) as [o' [Dsd [Eo Wo']]].
    set (sd' := {| sd_delta_hash := sd_delta_hash sd; sd_recovery_c := sd_recovery_c sd; sd_origin := o'; sd_type := sd_type sd |}) in *.
    destruct (delta_back d (create_members "create" sd d) m' ND Fd Ev' Hdr Hwf) as [d' [Dd [Euc [Fps Hdr']]]].
    assert (Esd : jequiv (img_suffix_data sd) (img_suffix_data sd')) by (destruct sd; apply img_sd_jequiv; exact Eo).
    assert (Edl : jequiv (img_delta d) (img_delta d')).
    { destruct d as [uc ps], d' as [uc' ps']. cbn in Euc. subst uc'. apply img_delta_jequiv. exact Fps. }
    exists d, d', sd, o'. split; [reflexivity|]. split; [reflexivity|]. split; [exact Eo|]. split; [|split; [exact Euc|exact Fps]].
    apply accept_iff_rules. split; [exact Hsize|]. exists m'. split; [exact Hparse|].
    exists "create". split; [exact T|]. left. split; [reflexivity|].
    exists sd', (Some d'), a, rest, sfx. cbn [sd' sd_recovery_c sd_delta_hash sd_origin].
    split; [rewrite T; discriminate|]. split; [rewrite Exs; exact Dsd|]. split; [exact Dd|].
    split; [exact Ha|]. split; [exact Hbb|]. split; [rewrite <- (origin_ok_order _ _ Eo); exact Ho|]. split; [exact Hdr'|].
    split. { cbn [img_delta_opt] in *. rewrite <- (valid_mh_jequiv _ _ _ Edl). exact Hh. }
    split. { cbn [d_update_c]. rewrite Euc. exact Hne. }
    split; [exact Eal|]. split; [rewrite <- (calc_mh_jequiv _ _ _ Esd); exact Ecm|]. reflexivity.
  Qed.
End Anchored.

(* ---- anchoring once more changes nothing: the anchored form of the re-read operation is the same
   byte string (operations that differ only in the member order of their patches and anchor origin
   have one anchored form) ---- *)
Lemma delta_img_jequiv d d' : d_update_c d' = d_update_c d -> Forall2 jequiv (d_patches d) (d_patches d') ->
  jequiv (img_delta d) (img_delta d').
Proof. destruct d as [uc ps], d' as [uc' ps']. cbn. intros -> F. apply img_delta_jequiv. exact F. Qed.

Lemma sm_refl (kv : string * json) : same_members kv kv.
Proof. split; [reflexivity|apply jequiv_refl]. Qed.

Theorem anchored_bytes_stable p p' d d' :
  (p_type p = "update" \/ p_type p = "recover") -> p_delta p = Some d ->
  p' = {| p_type := p_type p; p_suffix := p_suffix p; p_origin := p_origin p; p_reveal := p_reveal p;
          p_signed := p_signed p; p_delta := Some d'; p_suffix_data := p_suffix_data p;
          p_time_args := p_time_args p; p_origin_arg := p_origin_arg p |} ->
  d_update_c d' = d_update_c d -> Forall2 jequiv (d_patches d) (d_patches d') ->
  anchored_bytes p' = anchored_bytes p.
Proof.
  intros Hty Hd -> Euc Fps. pose proof (delta_img_jequiv d d' Euc Fps) as E.
  unfold anchored_bytes, anchored_members. cbn [p_type p_suffix p_reveal p_signed p_delta]. rewrite Hd.
  destruct Hty as [-> | ->]; cbn [String.eqb Ascii.eqb Bool.eqb]; symmetry; apply jcs_canonical; apply jequiv_obj_pointwise;
    unfold update_members, recover_members; repeat (constructor; [first [apply sm_refl | split; [reflexivity|exact E]]|]); constructor.
Qed.

Theorem anchored_bytes_stable_create p d d' s o' :
  p_type p = "create" -> p_delta p = Some d -> p_suffix_data p = Some s -> jequiv (sd_origin s) o' ->
  d_update_c d' = d_update_c d -> Forall2 jequiv (d_patches d) (d_patches d') ->
  anchored_bytes {| p_type := "create"; p_suffix := p_suffix p; p_origin := o'; p_reveal := ""; p_signed := "";
                    p_delta := Some d';
                    p_suffix_data := Some {| sd_delta_hash := sd_delta_hash s; sd_recovery_c := sd_recovery_c s;
                                             sd_origin := o'; sd_type := sd_type s |};
                    p_time_args := None; p_origin_arg := Some o' |} = anchored_bytes p.
Proof.
  intros Hty Hd Hs Eo Euc Fps. pose proof (delta_img_jequiv d d' Euc Fps) as E.
  unfold anchored_bytes, anchored_members. cbn [p_type p_delta p_suffix_data]. rewrite Hty, Hd, Hs. cbn [String.eqb Ascii.eqb Bool.eqb].
  symmetry. apply jcs_canonical. apply jequiv_obj_pointwise. unfold create_members, opt_member. cbn [String.eqb Ascii.eqb Bool.eqb app].
  constructor; [apply sm_refl|]. constructor; [split; [reflexivity|destruct s; apply img_sd_jequiv; exact Eo]|].
  constructor; [split; [reflexivity|exact E]|constructor].
Qed.

Definition opt_string_eqb (a b : option string) : bool :=
  match a, b with Some x, Some y => String.eqb x y | None, None => true | _, _ => false end.

(* ---- computed: the premises are satisfiable.  A request in a non-canonical spelling (members in
   another order, white space) is accepted; its anchored form is the builder's canonical request. ---- *)
Example anchored_example :
  let cur := ex_key "AQ" in
  let parse := parse_operation ex_protocol (fun _ => true) (fun s => Some s) (fun _ => true) (fun _ _ => true) in
  match reveal (img_jwk cur) 18%N, commit (img_jwk (ex_key "Ag")) 18%N with
  | Some rv, Some uc =>
      let ps := [JObj [("action", JStr "add-also-known-as"); ("uris", JArr [JStr "https://a.example"])]] in
      match build_update {| ui_suffix := "EiSuffix"; ui_patches := ps; ui_update_c := uc; ui_key := cur; ui_code := 18%N;
                            ui_reveal := rv; ui_alg := "ES256"; ui_sig := "sig" |} with
      | Some (bytes, d, _) =>
          match parse bytes false with
          | Some p =>
              (* the same request, type member last and blanks around it *)
              let respelled := " {""signedData"":""" ++ p_signed p ++ """,""revealValue"":""" ++ rv ++ """, ""didSuffix"" : ""EiSuffix"",""delta"":"
                               ++ (match jcs (img_delta d) with Some c => c | None => "" end) ++ ",""type"":""update"" } " in
              match parse respelled false with
              | Some p2 => opt_string_eqb (anchored_bytes p2) (Some bytes) && opt_string_eqb (anchored_bytes p) (Some bytes) &&
                           negb (String.eqb respelled bytes)
              | None => false
              end
          | None => false
          end
      | None => false
      end
  | _, _ => false
  end = true.
Proof. vm_compute. reflexivity. Qed.
