(* C08, create: applying the request built by the create builder to the empty state yields the
   commitments, anchor origin and document the caller asked for (the document being what the
   composer makes of the requested patches). *)
From Coq Require Import ZArith NArith String Ascii List Bool Lia.
From Sidetree Require Import Base.Sha2 Json.Json Json.Jcs Json.Parse Json.JcsProps Json.JcsRoundTrip
     Sidetree.Protocol Sidetree.JsonPatch Sidetree.Composer Sidetree.Validator Sidetree.Hashing Sidetree.Parser Sidetree.Applier
     Sidetree.Resolve Sidetree.Rules Sidetree.JequivDecode Sidetree.ClientCreate.
Import ListNotations.
Open Scope string_scope.

Section Apply.
  Variable cfg : protocol.
  Variable uri_ok : string -> bool.
  Variable url_norm : string -> option string.
  Variable origin_ok : json -> bool.

  (* what the request-time parser accepts, the batch-mode parser (the applier's) accepts too *)
  Lemma create_rules_batch m p : create_rules cfg uri_ok url_norm origin_ok m p ->
    exists sd od, parse_create cfg uri_ok url_norm always m true =
                  Some {| p_type := "create"; p_suffix := p_suffix p; p_origin := sd_origin sd; p_reveal := ""; p_signed := ""; p_delta := od;
                          p_suffix_data := Some sd; p_time_args := None; p_origin_arg := None |} /\
      p_delta p = od /\ p_suffix_data p = Some sd /\
      valid_mh (img_delta_opt od) (sd_delta_hash sd) = true /\ validate_delta cfg uri_ok url_norm od = true.
  Proof.
    intros (sd & od & a & rest & sfx & H0 & E1 & E2 & Ha & Hb & Ho & Hdr & Hh & Hne & Eal & Ecm & ->).
    exists sd, od. unfold parse_create. destruct (dec_string (field "type" m)); [|congruence]. rewrite E1, E2.
    apply validate_multihash_iff in Ha, Hb. rewrite Ha, Hb. cbn [andb negb]. rewrite Eal, Ecm. cbn.
    repeat split; auto. now apply validate_delta_iff.
  Qed.

  Theorem create_built_applies i bytes sd d a rest t n ver canon equiv pub unpub :
    build_create i = Some (bytes, sd, d) ->
    algs cfg = a :: rest -> (a = 18%N \/ a = 19%N) -> In (ci_code i) (algs cfg) ->
    (Z.of_nat (String.length bytes) <= P_MaxOperationSize cfg)%Z ->
    (Z.of_nat (String.length (ci_recovery_c i)) <= P_MaxOperationHashLength cfg)%Z ->
    (Z.of_nat (String.length (ci_update_c i)) <= P_MaxOperationHashLength cfg)%Z ->
    (Z.of_nat (String.length (sd_delta_hash sd)) <= P_MaxOperationHashLength cfg)%Z ->
    (forall c, jcs (img_delta d) = Some c -> (Z.of_nat (String.length c) <= P_MaxDeltaSize cfg)%Z) ->
    Forall is_obj (ci_patches i) -> Forall wfnum (ci_patches i) -> wfnum (ci_origin i) ->
    (forall o', jequiv (ci_origin i) o' -> origin_ok o' = true) ->
    (forall p p', In p (ci_patches i) -> jequiv p p' -> patch_enabled cfg p' = true /\ validate_patch uri_ok url_norm p' = true) ->
    exists rm ps',
      apply_bytes cfg uri_ok url_norm TCreate bytes true t n ver canon equiv (empty_rm pub unpub) = Some rm /\
      Forall2 jequiv (ci_patches i) ps' /\
      rm_recovery_c rm = ci_recovery_c i /\ rm_update_c rm = ci_update_c i /\ jequiv (ci_origin i) (rm_origin rm) /\
      rm_deactivated rm = false /\ rm_created rm = t /\
      rm_doc rm = Some (match apply_patches [] ps' with Some doc => doc | None => [] end).
  Proof.
    intros Hb Halg Hsup Hcode Hsize Hlrc Hluc Hldh Hdsize Hobj Hwf Hwo Hok Hvalid.
    destruct (create_built_accepted cfg uri_ok url_norm origin_ok (fun _ _ => true) i bytes sd d a rest Hb Halg Hsup Hcode Hsize Hlrc Hluc Hldh
                Hdsize Hobj Hwf Hwo Hok Hvalid) as [p [d' [Hparse [_ [_ [Hpd [Huc [Fps [sd' [Hsd [Hrc Eo]]]]]]]]]]].
    apply accept_iff_rules in Hparse as [_ [m [Hpj [ty [Hty R]]]]].
    assert (Rc : create_rules cfg uri_ok url_norm origin_ok m p).
    { destruct R as [[_ R]|[[-> R]|[[-> R]|[-> R]]]]; [exact R| | |].
      - destruct R as (? & ? & ? & ? & ? & ? & ? & ? & ? & ? & _ & _ & _ & _ & _ & _ & _ & _ & _ & _ & _ & _ & _ & _ & E). rewrite E in Hsd. discriminate.
      - destruct R as (? & ? & ? & ? & ? & ? & ? & ? & ? & _ & _ & _ & _ & _ & _ & _ & _ & _ & _ & _ & _ & E). rewrite E in Hsd. discriminate.
      - destruct R as (? & ? & ? & ? & ? & ? & ? & ? & ? & ? & ? & ? & _ & _ & _ & _ & _ & _ & _ & _ & _ & _ & _ & _ & _ & _ & _ & _ & _ & _ & _ & E). rewrite E in Hsd. discriminate. }
    destruct (create_rules_batch m p Rc) as [sd2 [od [Hbatch [Eod [Esd2 [Hvm Hvd]]]]]].
    rewrite Hpd in Eod. subst od. rewrite Hsd in Esd2. injection Esd2 as <-.
    unfold apply_bytes, apply, view_of, request_object. cbn [a_type]. rewrite Hpj, Hbatch. cbn [p_suffix_data p_delta].
    rewrite Hvm, Hvd. unfold apply_create. cbn [a_view rm_doc empty_rm v_parse_ok v_delta_hash_ok v_delta_valid negb v_patches delta_patches].
    destruct (apply_patches [] (d_patches d')) as [doc|] eqn:Ea;
      (eexists; exists (d_patches d'); split; [reflexivity|]; split; [exact Fps|]; rewrite Ea; cbn; repeat split; auto).
  Qed.
End Apply.
