(* C08: a whole lifecycle create -> update* -> recover -> update* -> deactivate made of built
   requests, applied in order: no step is refused and the state after each phase is the one the
   caller asked for.  (Composition of the per-step theorems; signatures are the oracle.) *)
From Coq Require Import ZArith NArith String Ascii List Bool Lia.
From Sidetree Require Import Base.Sha2 Json.Json Json.Jcs Json.Parse Json.JcsProps Json.JcsRoundTrip
     Sidetree.Protocol Sidetree.Window Sidetree.JsonPatch Sidetree.Composer Sidetree.Validator Sidetree.Hashing Sidetree.Parser Sidetree.Applier
     Sidetree.Resolve Sidetree.Rules Sidetree.JequivDecode Sidetree.ValidatorJequiv Sidetree.Respell Sidetree.ClientCreate Sidetree.ClientUpdate
     Sidetree.ClientDeactivateRecover Sidetree.ClientSimple Sidetree.ClientApplySigned.
Import ListNotations.
Open Scope string_scope.

Section Lifecycle.
  Variable cfg : protocol.
  Variable uri_ok : string -> bool.
  Variable url_norm : string -> option string.

  (* anchoring data of one operation *)
  Record anchoring := { an_time : Z; an_num : Z; an_ver : Z; an_canon : string; an_equiv : list string }.

  Definition create_ok (i : create_info) (bytes : string) : Prop :=
    exists sd d a rest,
      build_create i = Some (bytes, sd, d) /\
      algs cfg = a :: rest /\ (a = 18%N \/ a = 19%N) /\ In (ci_code i) (algs cfg) /\
      (Z.of_nat (String.length bytes) <= P_MaxOperationSize cfg)%Z /\
      (Z.of_nat (String.length (ci_recovery_c i)) <= P_MaxOperationHashLength cfg)%Z /\
      (Z.of_nat (String.length (ci_update_c i)) <= P_MaxOperationHashLength cfg)%Z /\
      (Z.of_nat (String.length (sd_delta_hash sd)) <= P_MaxOperationHashLength cfg)%Z /\
      (forall c, jcs (img_delta d) = Some c -> (Z.of_nat (String.length c) <= P_MaxDeltaSize cfg)%Z) /\
      Forall is_obj (ci_patches i) /\ Forall wfnum (ci_patches i) /\ wfnum (ci_origin i) /\
      patches_valid cfg uri_ok url_norm (ci_patches i).

  Definition recover_ok (i : recover_info) (bytes : string) : Prop :=
    exists d dh,
      build_recover i = Some (bytes, d, dh) /\
      In (ri_code i) (algs cfg) /\
      (Z.of_nat (String.length bytes) <= P_MaxOperationSize cfg)%Z /\
      hash_rule cfg (ri_reveal i) /\ key_matches_reveal (Some (ri_key i)) (ri_reveal i) = true /\
      (Z.of_nat (String.length (ri_update_c i)) <= P_MaxOperationHashLength cfg)%Z /\ mh_code (ri_update_c i) = Some (ri_code i) /\
      (Z.of_nat (String.length (ri_recovery_c i)) <= P_MaxOperationHashLength cfg)%Z /\ mh_code (ri_recovery_c i) = Some (ri_code i) /\
      ri_update_c i <> ri_recovery_c i /\
      (Z.of_nat (String.length dh) <= P_MaxOperationHashLength cfg)%Z /\
      (forall c, jcs (img_delta d) = Some c -> (Z.of_nat (String.length c) <= P_MaxDeltaSize cfg)%Z) /\
      In (ri_alg i) (P_SignatureAlgorithms cfg) /\
      In (k_crv (ri_key i)) (P_KeyAlgorithms cfg) /\ nonce_rule cfg (k_nonce (ri_key i)) /\
      wfnum (ri_origin i) /\
      Forall is_obj (ri_patches i) /\ Forall wfnum (ri_patches i) /\
      patches_valid cfg uri_ok url_norm (ri_patches i).

  Definition deactivate_ok (i : deactivate_info) (bytes : string) : Prop :=
    build_deactivate i = Some bytes /\
    (Z.of_nat (String.length bytes) <= P_MaxOperationSize cfg)%Z /\
    hash_rule cfg (di_reveal i) /\ key_matches_reveal (Some (di_key i)) (di_reveal i) = true /\
    In (di_alg i) (P_SignatureAlgorithms cfg) /\
    jwk_valid (di_key i) = true /\ In (k_crv (di_key i)) (P_KeyAlgorithms cfg) /\ nonce_rule cfg (k_nonce (di_key i)).

  Definition apply_at (ty : optype) (bytes : string) (a : anchoring) (rm : rmodel) : option rmodel :=
    apply_bytes cfg uri_ok url_norm ty bytes true (an_time a) (an_num a) (an_ver a) (an_canon a) (an_equiv a) rm.

  Theorem lifecycle_built_applies ci cbytes ca us1 ri rbytes ra us2 di dbytes da pub unpub :
    create_ok ci cbytes -> Forall (update_ok cfg uri_ok url_norm) us1 ->
    recover_ok ri rbytes -> Forall (update_ok cfg uri_ok url_norm) us2 ->
    deactivate_ok di dbytes ->
    exists rm1 rm3 rm5 ps0 pss1 psr pss2,
      (* create: applied to the empty state *)
      apply_at TCreate cbytes ca (empty_rm pub unpub) = Some rm1 /\
      Forall2 jequiv (ci_patches ci) ps0 /\
      rm_doc rm1 = Some (doc_step [] ps0) /\ rm_recovery_c rm1 = ci_recovery_c ci /\ rm_update_c rm1 = ci_update_c ci /\
      (* first run of updates *)
      let rm2 := fold_left (apply_update_step cfg uri_ok url_norm) us1 rm1 in
      Forall2 (fun a ps' => Forall2 jequiv (ui_patches (au_info a)) ps') us1 pss1 /\
      rm_doc rm2 = Some (fold_left doc_step pss1 (doc_step [] ps0)) /\
      rm_update_c rm2 = last_commitment us1 (ci_update_c ci) /\ rm_recovery_c rm2 = ci_recovery_c ci /\
      (* recover: the document starts again from nothing *)
      apply_at TRecover rbytes ra rm2 = Some rm3 /\
      Forall2 jequiv (ri_patches ri) psr /\
      rm_doc rm3 = Some (doc_step [] psr) /\ rm_recovery_c rm3 = ri_recovery_c ri /\ rm_update_c rm3 = ri_update_c ri /\
      jequiv (ri_origin ri) (rm_origin rm3) /\
      (* second run of updates *)
      let rm4 := fold_left (apply_update_step cfg uri_ok url_norm) us2 rm3 in
      Forall2 (fun a ps' => Forall2 jequiv (ui_patches (au_info a)) ps') us2 pss2 /\
      rm_doc rm4 = Some (fold_left doc_step pss2 (doc_step [] psr)) /\
      rm_update_c rm4 = last_commitment us2 (ri_update_c ri) /\ rm_recovery_c rm4 = ri_recovery_c ri /\
      (* deactivate *)
      apply_at TDeactivate dbytes da rm4 = Some rm5 /\
      rm_deactivated rm5 = true /\ rm_doc rm5 = Some [] /\ rm_update_c rm5 = "" /\ rm_recovery_c rm5 = "" /\
      rm_created rm5 = an_time ca.
  Proof.
    intros (sd & d & a & rest & Hb & Ha & Hs & Hc & H1 & H2 & H3 & H4 & H5 & H6 & H7 & H8 & H9) Hu1
           (rd & rdh & Rb & R1 & R2 & R3 & R4 & R5 & R6 & R7 & R8 & R9 & R10 & R11 & R12 & R13 & R14 & R15 & R16 & R17 & R18) Hu2
           (Db & D1 & D2 & D3 & D4 & D5 & D6 & D7).
    (* create *)
    destruct (create_built_applies_simple cfg uri_ok url_norm (fun _ => true) ci cbytes sd d a rest (an_time ca) (an_num ca) (an_ver ca) (an_canon ca) (an_equiv ca)
                pub unpub Hb Ha Hs Hc H1 H2 H3 H4 H5 H6 H7 H8 (fun _ _ => eq_refl) H9)
      as (rm1 & ps0 & A1 & F0 & Erc1 & Euc1 & _ & _ & Ecr1 & Edoc1).
    assert (Edoc1' : rm_doc rm1 = Some (doc_step [] ps0)) by (rewrite Edoc1; reflexivity).
    (* updates 1 *)
    destruct (updates_built_apply cfg uri_ok url_norm us1 rm1 _ Hu1 Edoc1') as (pss1 & Fs1 & U1).
    cbn zeta in U1. destruct U1 as (Ud1 & Uu1 & Ur1 & _ & Uc1 & _).
    set (rm2 := fold_left (apply_update_step cfg uri_ok url_norm) us1 rm1) in *.
    (* recover *)
    destruct (recover_built_applies cfg uri_ok url_norm ri rbytes rd rdh rm2 _ (an_time ra) (an_num ra) (an_ver ra) (an_canon ra) (an_equiv ra)
                Rb R1 R2 R3 R4 R5 R6 R7 R8 R9 R10 R11 R12 R13 R14 R15 R16 R17 R18 Ud1)
      as (rm3 & psr & A3 & Fr & Euc3 & Erc3 & _ & Eo3 & Ecr3 & _ & Edoc3).
    assert (Edoc3' : rm_doc rm3 = Some (doc_step [] psr)) by (rewrite Edoc3; reflexivity).
    (* updates 2 *)
    destruct (updates_built_apply cfg uri_ok url_norm us2 rm3 _ Hu2 Edoc3') as (pss2 & Fs2 & U2).
    cbn zeta in U2. destruct U2 as (Ud2 & Uu2 & Ur2 & _ & Uc2 & _).
    set (rm4 := fold_left (apply_update_step cfg uri_ok url_norm) us2 rm3) in *.
    (* deactivate *)
    destruct (deactivate_built_applies cfg uri_ok url_norm di dbytes rm4 _ (an_time da) (an_num da) (an_ver da) (an_canon da) (an_equiv da)
                Db D1 D2 D3 D4 D5 D6 D7 Ud2)
      as (rm5 & A5 & Ed5 & Edoc5 & Eu5 & Er5 & _ & Ecr5 & _).
    exists rm1, rm3, rm5, ps0, pss1, psr, pss2. cbn zeta. fold rm2. fold rm4.
    unfold apply_at.
    repeat match goal with |- _ /\ _ => split end; try assumption.
    - rewrite Uu1, Euc1. reflexivity.
    - rewrite Ur1. exact Erc1.
    - rewrite Uu2, Euc3. reflexivity.
    - rewrite Ur2. exact Erc3.
    - rewrite Ecr5, Uc2, Ecr3, Uc1. exact Ecr1.
  Qed.
End Lifecycle.

(* the conclusion on a concrete lifecycle, computed: create, update, recover, deactivate built by
   the builder models and run through the byte-level applier mirror *)
Example lifecycle_example :
  let k x := ex_key x in
  let ap ty bytes t rm := apply_bytes ex_protocol (fun _ => true) (fun s => Some s) ty bytes true t 1 1 "ref" [] rm in
  let ps n := [JObj [("action", JStr "add-also-known-as"); ("uris", JArr [JStr ("https://a.example/" ++ n)])]] in
  match commit (img_jwk (k "AQ")) 18%N, commit (img_jwk (k "Ag")) 18%N, commit (img_jwk (k "Aw")) 18%N, commit (img_jwk (k "BA")) 18%N,
        commit (img_jwk (k "BQ")) 18%N, reveal (img_jwk (k "AQ")) 18%N, reveal (img_jwk (k "Ag")) 18%N, reveal (img_jwk (k "BA")) 18%N with
  | Some c_upd1, Some c_rec1, Some c_upd2, Some c_rec2, Some c_upd3, Some rv_upd1, Some rv_rec1, Some rv_rec2 =>
      match build_create {| ci_patches := ps "1"; ci_recovery_c := c_rec1; ci_update_c := c_upd1; ci_origin := JNull; ci_type := ""; ci_code := 18%N |} with
      | Some (cb, sd, _) =>
          match calc_mh (img_suffix_data sd) 18%N with
          | Some sfx =>
              match build_update {| ui_suffix := sfx; ui_patches := ps "2"; ui_update_c := c_upd2; ui_key := k "AQ"; ui_code := 18%N;
                                    ui_reveal := rv_upd1; ui_alg := "ES256"; ui_sig := "sig" |},
                    build_recover {| ri_suffix := sfx; ri_key := k "Ag"; ri_patches := ps "3"; ri_recovery_c := c_rec2; ri_update_c := c_upd3;
                                     ri_origin := JStr "origin.example"; ri_code := 18%N; ri_reveal := rv_rec1; ri_alg := "ES256"; ri_sig := "sig" |},
                    build_deactivate {| di_suffix := sfx; di_key := k "BA"; di_reveal := rv_rec2; di_alg := "ES256"; di_sig := "sig" |} with
              | Some (ub, _, _), Some (rb, _, _), Some db =>
                  match ap TCreate cb 10%Z (empty_rm [] []) with
                  | Some r1 =>
                      match ap TUpdate ub 20%Z r1 with
                      | Some r2 =>
                          match ap TRecover rb 30%Z r2 with
                          | Some r3 =>
                              match ap TDeactivate db 40%Z r3 with
                              | Some r4 => String.eqb (rm_update_c r2) c_upd2 && String.eqb (rm_recovery_c r3) c_rec2 && String.eqb (rm_update_c r3) c_upd3 &&
                                           rm_deactivated r4 && (rm_created r4 =? 10)%Z
                              | None => false
                              end
                          | None => false
                          end
                      | None => false
                      end
                  | None => false
                  end
              | _, _, _ => false
              end
          | None => false
          end
      | None => false
      end
  | _, _, _, _, _, _, _, _ => false
  end = true.
Proof. vm_compute. reflexivity. Qed.
