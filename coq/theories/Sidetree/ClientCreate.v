(* client.NewCreateRequest (pkg/versions/1_0/client/create.go) as a function, and: the request
   it builds is accepted by a parser configured with the matching protocol, with the suffix,
   commitments and patches the caller asked for.  (C08 for the create builder; the signed
   operation types are covered by correspondence only.) *)
From Coq Require Import ZArith NArith String Ascii List Bool Sorting.Permutation Lia.
From Sidetree Require Import Base.Sha2 Json.Json Json.Jcs Json.Parse Json.JcsProps Json.JcsRoundTrip Json.TransformIdem
     Sidetree.Protocol Sidetree.JsonPatch Sidetree.Composer Sidetree.Validator Sidetree.Hashing Sidetree.Parser
     Sidetree.Rules Sidetree.JequivDecode.
Import ListNotations.
Open Scope string_scope.

Record create_info := {
  ci_patches : list json; ci_recovery_c : string; ci_update_c : string; ci_origin : json; ci_type : string; ci_code : N }.

(* NewCreateRequest: (request bytes, suffix data, delta) *)
Definition build_create (i : create_info) : option (string * suffix_data * delta) :=
  match ci_patches i with
  | [] => None                                                     (* either opaque document or patches *)
  | _ =>
    if negb (computed_using (ci_recovery_c i) [ci_code i]) then None
    else if negb (computed_using (ci_update_c i) [ci_code i]) then None
    else if String.eqb (ci_recovery_c i) (ci_update_c i) then None
    else
      let d := {| d_update_c := ci_update_c i; d_patches := ci_patches i |} in
      match calc_mh (img_delta d) (ci_code i) with
      | Some dh =>
          let sd := {| sd_delta_hash := dh; sd_recovery_c := ci_recovery_c i; sd_origin := ci_origin i; sd_type := ci_type i |} in
          match jcs (JObj (create_members "create" sd d)) with
          | Some bytes => Some (bytes, sd, d)
          | None => None
          end
      | None => None
      end
  end.

(* ---- images of equivalent records are equivalent ---- *)

Lemma same_members_refl kv : same_members kv kv.
Proof. split; [reflexivity|apply jequiv_refl]. Qed.

Lemma Forall2_same_refl (m : obj) : Forall2 same_members m m.
Proof. induction m; constructor; auto using same_members_refl. Qed.

Lemma jequiv_obj_pointwise m m' : Forall2 same_members m m' -> jequiv (JObj m) (JObj m').
Proof. intros F. apply JE_obj with (m' := m); [apply Permutation_refl|exact F]. Qed.

Lemma img_sd_jequiv dh rc ty o o' : jequiv o o' ->
  jequiv (img_suffix_data {| sd_delta_hash := dh; sd_recovery_c := rc; sd_origin := o; sd_type := ty |})
         (img_suffix_data {| sd_delta_hash := dh; sd_recovery_c := rc; sd_origin := o'; sd_type := ty |}).
Proof.
  intros E. unfold img_suffix_data. cbn [sd_delta_hash sd_recovery_c sd_origin sd_type]. apply jequiv_obj_pointwise.
  repeat (apply Forall2_app; [apply Forall2_same_refl|]). apply Forall2_app; [|apply Forall2_same_refl].
  inversion E; subst; repeat constructor; auto.
Qed.

Lemma img_delta_jequiv uc ps ps' : Forall2 jequiv ps ps' ->
  jequiv (img_delta {| d_update_c := uc; d_patches := ps |}) (img_delta {| d_update_c := uc; d_patches := ps' |}).
Proof.
  intros F. unfold img_delta. cbn [d_update_c d_patches]. apply jequiv_obj_pointwise.
  apply Forall2_app; [apply Forall2_same_refl|].
  inversion F; subst; repeat constructor; auto.
Qed.

Lemma calc_mh_jequiv v v' a : jequiv v v' -> calc_mh v a = calc_mh v' a.
Proof. intros E. unfold calc_mh, calc_model_mh. now rewrite (jcs_canonical _ _ E). Qed.

Lemma opt_member_wfnum name v : Forall (fun kv => wfnum (snd kv)) (opt_member name v).
Proof. unfold opt_member. destruct (String.eqb v ""); repeat constructor. Qed.

Lemma wfnum_img_sd s : wfnum (sd_origin s) -> wfnum (img_suffix_data s).
Proof.
  intros W. constructor. unfold img_suffix_data. repeat (apply Forall_app; split); auto using opt_member_wfnum.
  destruct (sd_origin s); constructor; try exact W; constructor.
Qed.

Lemma wfnum_img_delta d : Forall wfnum (d_patches d) -> wfnum (img_delta d).
Proof.
  intros W. constructor. unfold img_delta. apply Forall_app. split; [apply opt_member_wfnum|].
  destruct (d_patches d); constructor; [|constructor]. cbn. now constructor.
Qed.

Section Accepted.
  Variable cfg : protocol.
  Variable uri_ok : string -> bool.
  Variable url_norm : string -> option string.
  Variable origin_ok : json -> bool.
  Variable time_ok : Z -> Z -> bool.

  Theorem create_built_accepted i bytes sd d a rest :
    build_create i = Some (bytes, sd, d) ->
    (* the parser is configured with the matching protocol *)
    algs cfg = a :: rest -> (a = 18%N \/ a = 19%N) -> In (ci_code i) (algs cfg) ->
    (Z.of_nat (String.length bytes) <= P_MaxOperationSize cfg)%Z ->
    (Z.of_nat (String.length (ci_recovery_c i)) <= P_MaxOperationHashLength cfg)%Z ->
    (Z.of_nat (String.length (ci_update_c i)) <= P_MaxOperationHashLength cfg)%Z ->
    (Z.of_nat (String.length (sd_delta_hash sd)) <= P_MaxOperationHashLength cfg)%Z ->
    (forall c, jcs (img_delta d) = Some c -> (Z.of_nat (String.length c) <= P_MaxDeltaSize cfg)%Z) ->
    (* valid inputs (a Go map has no member order: validity in every order) *)
    Forall is_obj (ci_patches i) -> Forall wfnum (ci_patches i) -> wfnum (ci_origin i) ->
    (forall o', jequiv (ci_origin i) o' -> origin_ok o' = true) ->
    (forall p p', In p (ci_patches i) -> jequiv p p' -> patch_enabled cfg p' = true /\ validate_patch uri_ok url_norm p' = true) ->
    exists p d',
      parse_operation cfg uri_ok url_norm origin_ok time_ok bytes false = Some p /\
      p_type p = "create" /\ calc_mh (img_suffix_data sd) a = Some (p_suffix p) /\
      p_delta p = Some d' /\ d_update_c d' = ci_update_c i /\ Forall2 jequiv (ci_patches i) (d_patches d') /\
      (exists sd', p_suffix_data p = Some sd' /\ sd_recovery_c sd' = ci_recovery_c i /\ jequiv (ci_origin i) (sd_origin sd')).
  Proof.
    intros Hb Halg Hsup Hcode Hsize Hlrc Hluc Hldh Hdsize Hobj Hwf Hwo Hok Hvalid.
    unfold build_create in Hb. destruct (ci_patches i) as [|p0 ps0] eqn:Eps; [discriminate|]. rewrite <- Eps in *.
    destruct (computed_using (ci_recovery_c i) [ci_code i]) eqn:Crc; cbn [negb] in Hb; [|discriminate].
    destruct (computed_using (ci_update_c i) [ci_code i]) eqn:Cuc; cbn [negb] in Hb; [|discriminate].
    destruct (String.eqb_spec (ci_recovery_c i) (ci_update_c i)) as [|Hne]; [discriminate|].
    set (d0 := {| d_update_c := ci_update_c i; d_patches := ci_patches i |}) in *.
    destruct (calc_mh (img_delta d0) (ci_code i)) as [dh|] eqn:Edh; [|discriminate].
    set (sd0 := {| sd_delta_hash := dh; sd_recovery_c := ci_recovery_c i; sd_origin := ci_origin i; sd_type := ci_type i |}) in *.
    destruct (jcs (JObj (create_members "create" sd0 d0))) as [bs|] eqn:Ej; [|discriminate].
    injection Hb as <- <- <-.
    (* the request is well formed, so its bytes parse back to it up to member order *)
    assert (Wreq : wfnum (JObj (create_members "create" sd0 d0))).
    { constructor. unfold create_members, opt_member. cbn [String.eqb Ascii.eqb Bool.eqb app].
      constructor; [exact (W_str "create")|]. constructor; [exact (wfnum_img_sd sd0 Hwo)|].
      constructor; [exact (wfnum_img_delta d0 Hwf)|constructor]. }
    destruct (jcs_parse_roundtrip _ _ Ej Wreq) as [v' [Hparse [Ev' _]]].
    pose proof (create_members_nodup "create" sd0 d0) as ND.
    destruct (field_jequiv "type" _ _ ND Ev') as [m' [-> _]].
    destruct (create_fields "create" sd0 d0) as [Ft [Fs Fd]].
    (* the three members, re-read *)
    assert (Ht : dec_string (field "type" m') = Some "create").
    { rewrite <- (dec_string_respects _ _ (field_opt_jequiv "type" _ _ ND Ev')). exact Ft. }
    pose proof (field_opt_jequiv "suffixData" _ _ ND Ev') as Hs. rewrite Fs in Hs. unfold opt_jequiv in Hs.
    destruct (field "suffixData" m') as [xs|] eqn:Exs; [|contradiction].
    pose proof (field_opt_jequiv "delta" _ _ ND Ev') as Hd. rewrite Fd in Hd. unfold opt_jequiv in Hd.
    destruct (field "delta" m') as [xd|] eqn:Exd; [|contradiction].
    destruct (dec_suffix_data_jequiv sd0 xs Hwo Hs) as [o' [Dsd [Eo Wo']]]. cbn [sd_delta_hash sd_recovery_c sd_type sd0] in Dsd.
    set (sd' := {| sd_delta_hash := dh; sd_recovery_c := ci_recovery_c i; sd_origin := o'; sd_type := ci_type i |}) in *.
    destruct (dec_delta_jequiv d0 xd Hobj Hwf Hd) as [ps' [Dd [Fps [Ops Wps]]]]. cbn [d_update_c d_patches d0] in Dd, Fps.
    set (d' := {| d_update_c := ci_update_c i; d_patches := ps' |}) in *.
    assert (Esd : jequiv (img_suffix_data sd0) (img_suffix_data sd')) by (apply img_sd_jequiv; exact Eo).
    assert (Edl : jequiv (img_delta d0) (img_delta d')) by (apply img_delta_jequiv; exact Fps).
    (* the suffix under the first configured algorithm *)
    assert (exists sfx, calc_mh (img_suffix_data sd0) a = Some sfx) as [sfx Esfx].
    { destruct (jcs (img_suffix_data sd0)) as [c|] eqn:Ec.
      - apply (calc_supported sha256 sha512 _ a c Ec). exact Hsup.
      - exfalso. (* the suffix data is printed as part of the request *)
        rewrite jcs_obj in Ej. unfold create_members, opt_member in Ej. cbn [String.eqb Ascii.eqb Bool.eqb app entries_of] in Ej.
        rewrite Ec in Ej. destruct (jcs (JStr "create")); discriminate. }
    set (p := {| p_type := "create"; p_suffix := sfx; p_origin := o'; p_reveal := ""; p_signed := ""; p_delta := Some d';
                 p_suffix_data := Some sd'; p_time_args := None; p_origin_arg := Some o' |}).
    exists p, d'. split.
    2:{ cbn [p p_type p_suffix p_delta p_suffix_data d' d_update_c d_patches].
        split; [reflexivity|]. split; [exact Esfx|]. split; [reflexivity|]. split; [reflexivity|]. split; [exact Fps|].
        exists sd'. cbn [sd' sd_recovery_c sd_origin]. auto. }
    apply accept_iff_rules. split; [exact Hsize|]. exists m'. split; [exact Hparse|].
    exists "create". split; [exact Ht|]. left. split; [reflexivity|].
    exists sd', (Some d'), a, rest, sfx.
    assert (Hcode_rc : mh_code (ci_recovery_c i) = Some (ci_code i)).
    { apply computed_using_iff in Crc as [c [E [I|[]]]]. now subst. }
    assert (Hcode_uc : mh_code (ci_update_c i) = Some (ci_code i)).
    { apply computed_using_iff in Cuc as [c [E [I|[]]]]. now subst. }
    assert (Hcode_dh : mh_code dh = Some (ci_code i)) by (apply (code_of_calc sha256 sha512 sha256_length sha512_length _ _ _ Edh)).
    repeat split.
    - rewrite Ht. discriminate.
    - rewrite Exs. exact Dsd.
    - rewrite Exd. exact Dd.
    - exact Hlrc.
    - exists (ci_code i). auto.
    - exact Hldh.
    - exists (ci_code i). auto.
    - apply Hok. exact Eo.
    - exists d'. split; [reflexivity|]. split.
      + cbn [d_patches d']. rewrite Eps in Fps. inversion Fps; discriminate.
      + split; [|split].
        * cbn [d_patches d']. apply Forall_forall. intros q Iq.
          assert (exists q0, In q0 (ci_patches i) /\ jequiv q0 q) as [q0 [I0 E0]].
          { clear - Fps Iq. induction Fps as [|x y l l' Exy F IH]; [destruct Iq|]. destruct Iq as [<-|Iq]; [exists x; split; [now left|exact Exy]|].
            destruct (IH Iq) as [q0 [I0 E0]]. exists q0. split; [now right|exact E0]. }
          exact (Hvalid q0 q I0 E0).
        * split; [exact Hluc|exists (ci_code i); auto].
        * destruct (jcs (img_delta d0)) as [c|] eqn:Ec.
          -- exists c. split; [rewrite <- (jcs_canonical _ _ Edl); exact Ec|apply Hdsize; reflexivity].
          -- unfold calc_mh, calc_model_mh in Edh. rewrite Ec in Edh. discriminate.
    - cbn [img_delta_opt sd_delta_hash sd']. apply (valid_of_calc sha256 sha512 sha256_length sha512_length) with (code := ci_code i).
      fold calc_mh. rewrite <- (calc_mh_jequiv _ _ _ Edl). exact Edh.
    - cbn [d_update_c d' sd_recovery_c sd']. congruence.
    - exact Halg.
    - rewrite <- (calc_mh_jequiv _ _ _ Esd). exact Esfx.
  Qed.
End Accepted.

(* the hypotheses are satisfiable: a concrete request through builder and parser *)
Definition ex_protocol : protocol :=
  Build_protocol 0 [18%Z] 10000 2500 100 1700 500 "GZIP" 1000000 2500000 1000000 10000000
    ["replace"; "add-public-keys"; "remove-public-keys"; "add-services"; "remove-services"; "add-also-known-as"; "remove-also-known-as"]
    ["EdDSA"; "ES256"; "ES256K"] ["Ed25519"; "P-256"; "P-384"; "secp256k1"] 0 16 3.

Definition ex_info (rc uc : string) : create_info :=
  {| ci_patches := [JObj [("uris", JArr [JStr "https://a.example"]); ("action", JStr "add-also-known-as")]];
     ci_recovery_c := rc; ci_update_c := uc; ci_origin := JObj [("z", JNum "1"); ("a", JStr "origin.example")]; ci_type := ""; ci_code := 18%N |}.

Example build_create_example :
  match calc_mh (JStr "next recovery key") 18%N, calc_mh (JStr "next update key") 18%N with
  | Some rc, Some uc =>
    match build_create (ex_info rc uc) with
    | Some (bytes, sd, d) =>
        match parse_operation ex_protocol (fun _ => true) (fun s => Some s) (fun _ => true) (fun _ _ => true) bytes false with
        | Some p => andb (String.eqb (p_type p) "create")
                         (match calc_mh (img_suffix_data sd) 18%N with Some s => String.eqb s (p_suffix p) | None => false end)
        | None => false
        end
    | None => false
    end
  | _, _ => false
  end = true.
Proof. vm_compute. reflexivity. Qed.
