(* RFC 6902 (JSON Patch) / RFC 6901 (JSON Pointer) semantics, written from the RFCs as the
   specification the ietf-json-patch action is documented to follow.  Independent of the
   mirror of the pinned library (JsonPatch.v); the two are compared in Harness/PatchCases.v
   and related by [conformant] theorems. *)
From Coq Require Import ZArith String List Bool Ascii.
From Sidetree Require Import Json.Json Sidetree.JsonPatch Sidetree.Composer.
Import ListNotations.
Open Scope string_scope.

(* RFC 6901 array index: "0" or a non-zero digit followed by digits *)
Definition rfc_index (tok : string) : option nat :=
  match tok with
  | EmptyString => None
  | String "0" EmptyString => Some 0
  | String "0" _ => None
  | _ => match digits_val 0 tok with
         | Some v => if (v <? 1000000)%Z then Some (Z.to_nat v) else None
         | None => None
         end
  end.

(* reference tokens of a pointer: None when the pointer is not "" or "/..." *)
Definition rfc_tokens (p : string) : option (list string) :=
  match p with
  | EmptyString => Some []
  | String "/" _ => match split_path p with _ :: rest => Some (map decode_key rest) | [] => None end
  | _ => None
  end.

Fixpoint rfc_get (v : json) (toks : list string) : option json :=
  match toks with
  | [] => Some v
  | t :: rest =>
      match v with
      | JObj m => match lookup t m with Some c => rfc_get c rest | None => None end
      | JArr l => match rfc_index t with
                  | Some i => match nth_error l i with Some c => rfc_get c rest | None => None end
                  | None => None
                  end
      | _ => None
      end
  end.

(* apply [f] to the value addressed by toks; f gets the parent container and the last token *)
Fixpoint rfc_at_parent (v : json) (toks : list string) (f : json -> string -> option json) : option json :=
  match toks with
  | [] => None
  | [t] => f v t
  | t :: rest =>
      match v with
      | JObj m => match lookup t m with
                  | Some c => match rfc_at_parent c rest f with
                              | Some c' => Some (JObj (set_key t c' m))
                              | None => None
                              end
                  | None => None
                  end
      | JArr l => match rfc_index t with
                  | Some i => match nth_error l i with
                              | Some c => match rfc_at_parent c rest f with
                                          | Some c' => Some (JArr (set_at i c' l))
                                          | None => None
                                          end
                              | None => None
                              end
                  | None => None
                  end
      | _ => None
      end
  end.

Definition rfc_add_at (parent : json) (tok : string) (x : json) : option json :=
  match parent with
  | JObj m => Some (JObj (set_key tok x m))
  | JArr l => if String.eqb tok "-" then Some (JArr (l ++ [x])%list)
              else match rfc_index tok with
                   | Some i => if Nat.leb i (length l) then Some (JArr (insert_at i x l)) else None
                   | None => None
                   end
  | _ => None
  end.

Definition rfc_remove_at (parent : json) (tok : string) : option json :=
  match parent with
  | JObj m => match lookup tok m with Some _ => Some (JObj (remove_key tok m)) | None => None end
  | JArr l => match rfc_index tok with
              | Some i => if Nat.ltb i (length l) then Some (JArr (remove_at i l)) else None
              | None => None
              end
  | _ => None
  end.

Definition rfc_replace_at (parent : json) (tok : string) (x : json) : option json :=
  match parent with
  | JObj m => match lookup tok m with Some _ => Some (JObj (set_key tok x m)) | None => None end
  | JArr l => match rfc_index tok with
              | Some i => if Nat.ltb i (length l) then Some (JArr (set_at i x l)) else None
              | None => None
              end
  | _ => None
  end.

Definition rfc_add (doc : json) (path : string) (x : json) : option json :=
  match rfc_tokens path with
  | Some [] => Some x
  | Some toks => rfc_at_parent doc toks (fun p t => rfc_add_at p t x)
  | None => None
  end.

Definition rfc_remove (doc : json) (path : string) : option json :=
  match rfc_tokens path with
  | Some [] => None
  | Some toks => rfc_at_parent doc toks rfc_remove_at
  | None => None
  end.

Definition rfc_op_str (op : obj) (k : string) : option string :=
  match lookup k op with Some (JStr s) => Some s | _ => None end.

Fixpoint list_prefix (a b : list string) : bool :=
  match a, b with
  | [], _ => true
  | x :: a', y :: b' => andb (String.eqb x y) (list_prefix a' b')
  | _, [] => false
  end.

Definition rfc_apply_op (doc : json) (opj : json) : option json :=
  match opj with
  | JObj op =>
      match rfc_op_str op "op", rfc_op_str op "path" with
      | Some kind, Some path =>
          if String.eqb kind "add" then
            match lookup "value" op with Some x => rfc_add doc path x | None => None end
          else if String.eqb kind "remove" then rfc_remove doc path
          else if String.eqb kind "replace" then
            match lookup "value" op, rfc_tokens path with
            | Some x, Some [] => Some x
            | Some x, Some toks => rfc_at_parent doc toks (fun p t => rfc_replace_at p t x)
            | _, _ => None
            end
          else if String.eqb kind "move" then
            match rfc_op_str op "from" with
            | Some from =>
                match rfc_tokens from, rfc_tokens path with
                | Some ft, Some pt =>
                    if andb (list_prefix ft pt) (negb (Nat.eqb (length ft) (length pt))) then None else
                    match rfc_get doc ft with
                    | Some x => match rfc_remove doc from with
                                | Some d' => rfc_add d' path x
                                | None => None
                                end
                    | None => None
                    end
                | _, _ => None
                end
            | None => None
            end
          else if String.eqb kind "copy" then
            match rfc_op_str op "from" with
            | Some from => match rfc_tokens from with
                           | Some ft => match rfc_get doc ft with
                                        | Some x => rfc_add doc path x
                                        | None => None
                                        end
                           | None => None
                           end
            | None => None
            end
          else if String.eqb kind "test" then
            match lookup "value" op, rfc_tokens path with
            | Some x, Some toks => match rfc_get doc toks with
                                   | Some y => if json_equiv x y then Some doc else None
                                   | None => None
                                   end
            | _, _ => None
            end
          else None
      | _, _ => None
      end
  | _ => None
  end.

Fixpoint rfc_apply_ops (doc : json) (ops : list json) : option json :=
  match ops with
  | [] => Some doc
  | o :: r => match rfc_apply_op doc o with Some d => rfc_apply_ops d r | None => None end
  end.

Definition rfc_apply (doc : obj) (ops : list json) : option obj :=
  match rfc_apply_ops (JObj doc) ops with Some (JObj m) => Some m | _ => None end.

(* kind of the first operation on which the pinned library's mirror and the RFC disagree
   (add=1 remove=2 replace=3 move=4 copy=5 test=6 other=7); 0 = they agree on the whole list *)
Definition kind_code (opj : json) : nat :=
  match opj with
  | JObj op =>
      let k := op_str op "op" in
      if String.eqb k "add" then 1 else if String.eqb k "remove" then 2 else if String.eqb k "replace" then 3
      else if String.eqb k "move" then 4 else if String.eqb k "copy" then 5 else if String.eqb k "test" then 6 else 7
  | _ => 7
  end.

Definition opt_json_equiv (a b : option json) : bool :=
  match a, b with
  | Some x, Some y => json_equiv x y
  | None, None => true
  | _, _ => false
  end.

Definition mirror_step (doc : json) (o : json) : option json :=
  if copy_into_self o then None else
  match apply_op doc o with POk d => Some d | _ => None end.

Fixpoint first_deviation (doc : json) (ops : list json) : nat :=
  match ops with
  | [] => 0
  | o :: r =>
      let a := rfc_apply_op doc o in
      let b := mirror_step doc o in
      if negb (opt_json_equiv a b) then kind_code o
      else match a with Some d => first_deviation d r | None => 0 end
  end.
