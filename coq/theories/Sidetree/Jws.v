(* Compact JWS (pkg/jwsutil/jws.go, signature.go; signers in pkg/util/ecsigner, edsigner,
   signutil).  The primitive signature check is an oracle:
     prim crv key_x key_y message signature   (ECDSA over the named curve with its hash,
                                               signature = r || s at the curve's width)
     prim "Ed25519" pub "" message signature
   Everything around it is modelled: compact form, header re-marshalling, signing input,
   key parsing with fixed-width coordinates and on-curve check, signature width. *)
From Coq Require Import ZArith NArith Arith String Ascii List Bool Lia.
From Sidetree Require Import Base.Sha2 Base.Base64url Json.Json Json.Jcs Json.Parse Sidetree.JsonPatch Sidetree.Composer
     Sidetree.Validator Sidetree.Parser Sidetree.Jwk.
Import ListNotations.
Open Scope string_scope.

(* encoding/json.Marshal of a decoded JSON value: object members sorted by key bytes, compact,
   strings escaped Go-style (HTML-safe). *)
Fixpoint go_escape (s : string) : string :=
  match s with
  | EmptyString => EmptyString
  | String c r =>
      let n := N_of_ascii c in
      let rest := go_escape r in
      if (n =? 34)%N then String "\" (String """" rest)
      else if (n =? 92)%N then String "\" (String "\" rest)
      else if (n =? 10)%N then String "\" (String "n" rest)
      else if (n =? 13)%N then String "\" (String "r" rest)
      else if (n =? 9)%N then String "\" (String "t" rest)
      else if orb (n <? 32)%N (orb (n =? 60)%N (orb (n =? 62)%N (n =? 38)%N)) then
        String "\" (String "u" (String "0" (String "0" (String (hexdigit (n / 16)) (String (hexdigit (n mod 16)) rest)))))
      else String c rest
  end.

Definition go_quote (s : string) : string := String """" (go_escape s ++ """").

Fixpoint go_print (j : json) : string :=
  match j with
  | JNull => "null"
  | JBool true => "true"
  | JBool false => "false"
  | JNum t => t
  | JStr s => go_quote s
  | JArr l => "[" ++ join "," ((fix go (l : list json) : list string :=
                                  match l with [] => [] | x :: r => go_print x :: go r end) l) ++ "]"
  | JObj m => "{" ++ join "," ((fix go (m : list (string * json)) : list string :=
                                  match m with [] => [] | (k, v) :: r => (go_quote k ++ ":" ++ go_print v) :: go r end) m) ++ "}"
  end.

Definition go_marshal (j : json) : string := go_print (sortv j).

(* signingInput *)
Definition signing_input (headers : obj) (payload : string) : option string :=
  let b64flag :=
    match lookup "b64" headers with
    | None => Some true
    | Some (JBool b) => Some b
    | Some _ => None
    end in
  match b64flag with
  | None => None
  | Some f => Some (b64_encode (go_marshal (JObj headers)) ++ "." ++ (if f then b64_encode payload else payload))
  end.

Section Verify.
  Variable prim : string -> string -> string -> string -> string -> bool.

  (* VerifySignature *)
  Definition verify_signature (k : jwk) (signature msg : string) : bool :=
    if String.eqb (k_kty k) "EC" then
      match find_curve (k_crv k) with
      | None => false
      | Some c =>
          match ec_of_jwk k with
          | None => false
          | Some _ =>
              if negb (Nat.eqb (String.length signature) (2 * c_size c)) then false
              else prim (c_name c) (k_x k) (k_y k) msg signature
          end
      end
    else if String.eqb (k_kty k) "OKP" then
      match ed_of_jwk k with
      | Some _ => prim "Ed25519" (k_x k) "" msg signature
      | None => false
      end
    else false.

  (* VerifyJWS: Some payload on success *)
  Definition verify_jws (compact : string) (k : jwk) : option string :=
    match parse_jws compact with
    | None => None
    | Some j =>
        match signing_input (j_headers j) (j_payload j) with
        | None => None
        | Some si => if verify_signature k (j_signature j) si then Some (j_payload j) else None
        end
    end.

  (* ---- characterisation ---- *)

  Theorem verify_jws_characterised compact k payload :
    verify_jws compact k = Some payload <->
    exists j si, parse_jws compact = Some j /\ j_payload j = payload /\
                 signing_input (j_headers j) (j_payload j) = Some si /\
                 verify_signature k (j_signature j) si = true.
  Proof.
    unfold verify_jws. split.
    - destruct (parse_jws compact) as [j|]; [|discriminate].
      destruct (signing_input _ _) as [si|] eqn:Es; [|discriminate].
      destruct (verify_signature k (j_signature j) si) eqn:Ev; [|discriminate].
      intros H. injection H as <-. exists j, si. auto.
    - intros (j & si & -> & <- & -> & ->). reflexivity.
  Qed.

  (* an EC signature is accepted only at exactly twice the curve width, under a key that parses *)
  Theorem ec_verify_needs_width_and_key k signature msg :
    k_kty k = "EC" -> verify_signature k signature msg = true ->
    exists c x y, ec_of_jwk k = Some (c, x, y) /\ String.length signature = (2 * c_size c)%nat /\
                  prim (c_name c) (k_x k) (k_y k) msg signature = true.
  Proof.
    intros Hk. unfold verify_signature. rewrite Hk. replace (String.eqb "EC" "EC") with true by reflexivity.
    destruct (find_curve (k_crv k)) as [c|] eqn:Ec; [|discriminate].
    destruct (ec_of_jwk k) as [[[c' x] y]|] eqn:Ek; [|discriminate].
    destruct (Nat.eqb_spec (String.length signature) (2 * c_size c)) as [El|]; [|discriminate]. cbn [negb].
    intros Hp.
    assert (c' = c).
    { unfold ec_of_jwk in Ek. rewrite Hk, Ec in Ek. replace (String.eqb "EC" "EC") with true in Ek by reflexivity. cbn [negb] in Ek.
      destruct (b64_decode (k_x k)); [|discriminate]. destruct (b64_decode (k_y k)); [|discriminate].
      destruct (negb _); [discriminate|]. destruct (on_curve _ _ _); [|discriminate]. now injection Ek. }
    subst c'. exists c, x, y. auto.
  Qed.

  Theorem unsupported_key_type_rejected k signature msg :
    k_kty k <> "EC" -> k_kty k <> "OKP" -> verify_signature k signature msg = false.
  Proof.
    intros H1 H2. unfold verify_signature.
    destruct (String.eqb_spec (k_kty k) "EC"); [contradiction|].
    destruct (String.eqb_spec (k_kty k) "OKP"); [contradiction|reflexivity].
  Qed.
End Verify.

(* malformed compact forms are rejected before any signature check *)
Example malformed_compact_rejected :
  parse_jws "" = None /\ parse_jws "a.b" = None /\ parse_jws "a.b.c.d" = None /\ parse_jws "{""x"":1}" = None /\
  parse_jws "e30.YQ.YQ" = None (* header without alg *) /\ parse_jws "eyJhbGciOiJFUzI1NiJ9..YQ" = None (* empty payload *) /\
  parse_jws "eyJhbGciOiJFUzI1NiJ9.YQ." = None (* empty signature *) /\
  (match parse_jws "eyJhbGciOiJFUzI1NiJ9.YQ.YQ" with Some j => String.eqb (j_payload j) "a" | None => false end) = true.
Proof. vm_compute. repeat split; reflexivity. Qed.

Example signing_input_example :
  signing_input [("kid", JStr "k1"); ("alg", JStr "ES256")] "a" = Some "eyJhbGciOiJFUzI1NiIsImtpZCI6ImsxIn0.YQ".
Proof. vm_compute. reflexivity. Qed.
