(* C08 / C09: an update built with an anchoring window, applied at anchoring time t.  The request
   is accepted, the commitment advances to the requested one, and the document is the composer's
   result exactly when t lies in the window (verify_range_p cfg f u t); outside the window the
   document is carried over unchanged.  The signature verdict is the oracle [sig_ok = true]. *)
From Coq Require Import ZArith NArith String Ascii List Bool Lia.
From Sidetree Require Import Base.Sha2 Json.Json Json.Jcs Json.Parse Json.JcsProps Json.JcsRoundTrip
     Sidetree.Protocol Sidetree.Window Sidetree.JsonPatch Sidetree.Composer Sidetree.Validator Sidetree.Hashing Sidetree.Parser Sidetree.Applier
     Sidetree.Resolve Sidetree.Rules Sidetree.JequivDecode Sidetree.ValidatorJequiv Sidetree.Respell Sidetree.ClientCreate Sidetree.ClientUpdate
     Sidetree.ClientDeactivateRecover Sidetree.ClientSimple Sidetree.ClientApplySigned Sidetree.ClientWindowed Sidetree.ClientWindowedDR.
Import ListNotations.
Open Scope string_scope.

Lemma build_update_w_facts i f u bytes d dh : build_update_w i f u = Some (bytes, d, dh) ->
  Forall ndk (ui_patches i) /\ calc_mh (img_delta d) (ui_code i) = Some dh /\
  d = {| d_update_c := ui_update_c i; d_patches := ui_patches i |}.
Proof.
  unfold build_update_w. destruct (String.eqb _ _); [discriminate|]. destruct (String.eqb _ _); [discriminate|].
  destruct (ui_patches i) as [|p0 ps0] eqn:Ep; [discriminate|].
  destruct (negb _); [discriminate|]. destruct (orb _ _); [discriminate|].
  destruct (calc_mh _ _) eqn:Ec; [|discriminate]. destruct (commit _ _); [|discriminate].
  destruct (String.eqb _ _); [discriminate|]. destruct (jcs _); [|discriminate]. destruct (jcs _); [|discriminate].
  destruct (jcs _); [|discriminate]. intros H. injection H as <- <- <-.
  split; [apply delta_hash_ndk in Ec; exact Ec|]. split; [exact Ec|reflexivity].
Qed.

Lemma build_recover_w_facts i f u bytes d dh : build_recover_w i f u = Some (bytes, d, dh) ->
  Forall ndk (ri_patches i) /\ calc_mh (img_delta d) (ri_code i) = Some dh /\
  d = {| d_update_c := ri_update_c i; d_patches := ri_patches i |}.
Proof.
  unfold build_recover_w. destruct (String.eqb _ _); [discriminate|]. destruct (String.eqb _ _); [discriminate|].
  destruct (ri_patches i) as [|p0 ps0] eqn:Ep; [discriminate|].
  destruct (orb _ _); [discriminate|]. destruct (negb _); [discriminate|].
  destruct (calc_mh _ _) eqn:Ec; [|discriminate]. destruct (commit _ _); [|discriminate].
  destruct (String.eqb _ _); [discriminate|]. destruct (jcs _); [|discriminate]. destruct (jcs _); [|discriminate].
  destruct (jcs _); [|discriminate]. intros H. injection H as <- <- <-.
  split; [apply delta_hash_ndk in Ec; exact Ec|]. split; [exact Ec|reflexivity].
Qed.

Section ApplyWindowed.
  Variable cfg : protocol.
  Variable uri_ok : string -> bool.
  Variable url_norm : string -> option string.

  Theorem update_w_built_applies i f u bytes d dh rm doc t num ver canon equiv :
    build_update_w i f u = Some (bytes, d, dh) ->
    (0 <= f < 10 ^ 15)%Z -> (0 <= u < 10 ^ 15)%Z ->
    In (ui_code i) (algs cfg) ->
    (Z.of_nat (String.length bytes) <= P_MaxOperationSize cfg)%Z ->
    hash_rule cfg (ui_reveal i) -> key_matches_reveal (Some (ui_key i)) (ui_reveal i) = true ->
    (Z.of_nat (String.length (ui_update_c i)) <= P_MaxOperationHashLength cfg)%Z -> mh_code (ui_update_c i) = Some (ui_code i) ->
    (Z.of_nat (String.length dh) <= P_MaxOperationHashLength cfg)%Z ->
    (forall c, jcs (img_delta d) = Some c -> (Z.of_nat (String.length c) <= P_MaxDeltaSize cfg)%Z) ->
    In (ui_alg i) (P_SignatureAlgorithms cfg) ->
    In (k_crv (ui_key i)) (P_KeyAlgorithms cfg) -> nonce_rule cfg (k_nonce (ui_key i)) ->
    Forall is_obj (ui_patches i) -> Forall wfnum (ui_patches i) ->
    patches_valid cfg uri_ok url_norm (ui_patches i) ->
    rm_doc rm = Some doc ->
    exists rm' ps',
      apply_bytes cfg uri_ok url_norm TUpdate bytes true t num ver canon equiv rm = Some rm' /\
      Forall2 jequiv (ui_patches i) ps' /\
      rm_update_c rm' = ui_update_c i /\ rm_recovery_c rm' = rm_recovery_c rm /\ rm_deactivated rm' = false /\
      rm_origin rm' = rm_origin rm /\ rm_created rm' = rm_created rm /\ rm_updated rm' = t /\
      rm_doc rm' = Some (if verify_range_p cfg f u t
                         then match apply_patches doc ps' with Some doc' => doc' | None => doc end
                         else doc).
  Proof.
    intros Hb Hf Hu Hcode Hsize Hrv Hreveal Hluc Hcuc Hldh Hdsize Halg Hcrv Hnonce Hobj Hwf Hvalid Hdoc.
    destruct (build_update_w_facts _ _ _ _ _ _ Hb) as (N & Ec & Ed0).
    destruct (update_w_built_accepted cfg uri_ok url_norm (fun _ => true) (fun _ _ => true) i f u bytes d dh Hb Hf Hu Hcode Hsize Hrv Hreveal
                Hluc Hcuc Hldh Hdsize Halg Hcrv Hnonce eq_refl Hobj Hwf (any_order cfg uri_ok url_norm _ N Hvalid))
      as [p [d' [Hparse [Hty [_ [_ [Hpd [Huc [Fps [_ Hsu]]]]]]]]]].
    destruct (parse_operation_update _ _ _ _ _ _ _ Hparse Hty) as [m [Hpj Hpu]].
    destruct (update_batch _ _ _ _ _ _ Hpu) as [pb [Hpb [Es [Ed Hvd]]]].
    assert (Hdh : valid_mh (img_delta_opt (Some d')) dh = true).
    { subst d. apply delta_hash_validates in Ec.
      rewrite <- Ec. symmetry. apply valid_mh_jequiv. cbn [img_delta_opt]. apply img_delta_rel.
      split; [cbn; symmetry; exact Huc|]. cbn [d_patches].
      clear - Fps N. induction Fps; inversion N; subst; constructor; [split; assumption|auto]. }
    unfold apply_bytes, apply, view_of, request_object. cbn [a_type]. rewrite Hpj, Hpb, Es, Hsu, Ed, Hpd.
    unfold apply_update. cbn [a_view v_parse_ok v_signed_ok v_delta_hash_ok v_sig_ok v_delta_valid negb v_patches delta_patches
                              v_update_c delta_commitment a_time a_num a_ver a_canon].
    cbn [su_delta_hash su_from su_until]. rewrite Hdoc, Hdh. rewrite Hpd in Hvd. rewrite Hvd. cbn [negb].
    unfold in_win. cbn [v_from v_until su_from su_until].
    destruct (verify_range_p cfg f u t); cbn [negb].
    - destruct (apply_patches doc (d_patches d')) as [doc'|] eqn:Ea;
        (eexists; exists (d_patches d'); split; [reflexivity|]; split; [exact Fps|]; rewrite ?Ea; cbn; repeat split; auto).
    - eexists; exists (d_patches d'); split; [reflexivity|]; split; [exact Fps|]; cbn; repeat split; auto.
  Qed.

  (* a deactivate with a window takes effect exactly when t lies in the window; outside it the
     request is refused and the state stays as it was *)
  Theorem deactivate_w_built_applies i f u bytes rm doc t num ver canon equiv :
    build_deactivate_w i f u = Some bytes ->
    (0 <= f < 10 ^ 15)%Z -> (0 <= u < 10 ^ 15)%Z ->
    (Z.of_nat (String.length bytes) <= P_MaxOperationSize cfg)%Z ->
    hash_rule cfg (di_reveal i) -> key_matches_reveal (Some (di_key i)) (di_reveal i) = true ->
    In (di_alg i) (P_SignatureAlgorithms cfg) ->
    jwk_valid (di_key i) = true -> In (k_crv (di_key i)) (P_KeyAlgorithms cfg) -> nonce_rule cfg (k_nonce (di_key i)) ->
    rm_doc rm = Some doc ->
    if verify_range_p cfg f u t
    then exists rm',
      apply_bytes cfg uri_ok url_norm TDeactivate bytes true t num ver canon equiv rm = Some rm' /\
      rm_deactivated rm' = true /\ rm_doc rm' = Some [] /\ rm_update_c rm' = "" /\ rm_recovery_c rm' = "" /\
      rm_origin rm' = rm_origin rm /\ rm_created rm' = rm_created rm /\ rm_updated rm' = t
    else apply_bytes cfg uri_ok url_norm TDeactivate bytes true t num ver canon equiv rm = None.
  Proof.
    intros Hb Hf Hu Hsize Hrv Hreveal Halg Hkv Hcrv Hnonce Hdoc.
    destruct (deactivate_w_built_accepted cfg uri_ok url_norm (fun _ => true) (fun _ _ => true) i f u bytes Hb Hf Hu Hsize Hrv Hreveal Halg Hkv Hcrv Hnonce eq_refl)
      as [p [Hparse [Hty [Hsfx [_ [_ Hsx]]]]]].
    destruct (parse_operation_deactivate _ _ _ _ _ _ _ Hparse Hty) as [m [Hpj Hpd]].
    destruct (deactivate_batch _ _ _ _ Hpd) as [pb [Hpb [Es Ef]]].
    unfold apply_bytes, apply, view_of, request_object. cbn [a_type]. rewrite Hpj, Hpb, Es, Hsx, Ef, Hsfx.
    unfold apply_deactivate. cbn [a_view v_parse_ok v_signed_ok v_suffix_ok v_sig_ok negb sx_suffix sx_from sx_until].
    rewrite Hdoc, String.eqb_refl. cbn [negb].
    unfold in_win. cbn [v_from v_until a_time].
    destruct (verify_range_p cfg f u t); cbn [negb]; [|reflexivity].
    eexists. split; [reflexivity|]. cbn. repeat split; auto.
  Qed.

  (* a recover with a window: commitments and origin are installed whatever the time; the
     requested document is installed exactly when t lies in the window (else the empty document) *)
  Theorem recover_w_built_applies i f u bytes d dh rm doc t num ver canon equiv :
    build_recover_w i f u = Some (bytes, d, dh) ->
    (0 <= f < 10 ^ 15)%Z -> (0 <= u < 10 ^ 15)%Z ->
    In (ri_code i) (algs cfg) ->
    (Z.of_nat (String.length bytes) <= P_MaxOperationSize cfg)%Z ->
    hash_rule cfg (ri_reveal i) -> key_matches_reveal (Some (ri_key i)) (ri_reveal i) = true ->
    (Z.of_nat (String.length (ri_update_c i)) <= P_MaxOperationHashLength cfg)%Z -> mh_code (ri_update_c i) = Some (ri_code i) ->
    (Z.of_nat (String.length (ri_recovery_c i)) <= P_MaxOperationHashLength cfg)%Z -> mh_code (ri_recovery_c i) = Some (ri_code i) ->
    ri_update_c i <> ri_recovery_c i ->
    (Z.of_nat (String.length dh) <= P_MaxOperationHashLength cfg)%Z ->
    (forall c, jcs (img_delta d) = Some c -> (Z.of_nat (String.length c) <= P_MaxDeltaSize cfg)%Z) ->
    In (ri_alg i) (P_SignatureAlgorithms cfg) ->
    In (k_crv (ri_key i)) (P_KeyAlgorithms cfg) -> nonce_rule cfg (k_nonce (ri_key i)) ->
    wfnum (ri_origin i) ->
    Forall is_obj (ri_patches i) -> Forall wfnum (ri_patches i) ->
    patches_valid cfg uri_ok url_norm (ri_patches i) ->
    rm_doc rm = Some doc ->
    exists rm' ps',
      apply_bytes cfg uri_ok url_norm TRecover bytes true t num ver canon equiv rm = Some rm' /\
      Forall2 jequiv (ri_patches i) ps' /\
      rm_update_c rm' = ri_update_c i /\ rm_recovery_c rm' = ri_recovery_c i /\ rm_deactivated rm' = false /\
      jequiv (ri_origin i) (rm_origin rm') /\ rm_created rm' = rm_created rm /\ rm_updated rm' = t /\
      rm_doc rm' = Some (if verify_range_p cfg f u t
                         then match apply_patches [] ps' with Some doc' => doc' | None => [] end
                         else []).
  Proof.
    intros Hb Hf Hu Hcode Hsize Hrv Hreveal Hluc Hcuc Hlrc Hcrc Hdiff Hldh Hdsize Halg Hcrv Hnonce Hwo Hobj Hwf Hvalid Hdoc.
    destruct (build_recover_w_facts _ _ _ _ _ _ Hb) as (N & Ec & Ed0).
    destruct (recover_w_built_accepted cfg uri_ok url_norm (fun _ => true) (fun _ _ => true) i f u bytes d dh Hb Hf Hu Hcode Hsize Hrv Hreveal
                Hluc Hcuc Hlrc Hcrc Hdiff Hldh Hdsize Halg Hcrv Hnonce eq_refl Hwo (fun _ _ => eq_refl) Hobj Hwf (any_order cfg uri_ok url_norm _ N Hvalid))
      as [p [d' [Hparse [Hty [_ [_ [Hpd [Huc [Fps [Eo Hsr]]]]]]]]]].
    destruct (parse_operation_recover _ _ _ _ _ _ _ Hparse Hty) as [m [Hpj Hpr]].
    destruct (recover_batch _ _ _ _ _ _ _ Hpr) as [pb [Hpb [Es [Ed Hvd]]]].
    assert (Hdh : valid_mh (img_delta_opt (Some d')) dh = true).
    { subst d. apply delta_hash_validates in Ec.
      rewrite <- Ec. symmetry. apply valid_mh_jequiv. cbn [img_delta_opt]. apply img_delta_rel.
      split; [cbn; symmetry; exact Huc|]. cbn [d_patches].
      clear - Fps N. induction Fps; inversion N; subst; constructor; [split; assumption|auto]. }
    unfold apply_bytes, apply, view_of, request_object. cbn [a_type]. rewrite Hpj, Hpb, Es, Hsr, Ed, Hpd.
    unfold apply_recover. cbn [a_view v_parse_ok v_signed_ok v_delta_hash_ok v_sig_ok v_delta_valid negb v_patches delta_patches
                               v_update_c v_recovery_c v_origin delta_commitment a_time a_num a_ver a_canon a_equiv
                               sr_delta_hash sr_recovery_c sr_origin sr_from sr_until].
    rewrite Hdoc, Hdh. rewrite Hpd in Hvd. rewrite Hvd. cbn [negb].
    unfold in_win. cbn [v_from v_until].
    destruct (verify_range_p cfg f u t); cbn [negb].
    - destruct (apply_patches [] (d_patches d')) as [doc'|] eqn:Ea;
        (eexists; exists (d_patches d'); split; [reflexivity|]; split; [exact Fps|]; rewrite ?Ea; cbn; repeat split; auto).
    - eexists; exists (d_patches d'); split; [reflexivity|]; split; [exact Fps|]; cbn; repeat split; auto.
  Qed.
  (* ---- a whole run of updates with anchoring windows ---- *)

  Record anchored_update_w := { aw_update : anchored_update; aw_from : Z; aw_until : Z }.

  Definition update_w_ok (w : anchored_update_w) : Prop :=
    let a := aw_update w in let i := au_info a in
    (0 <= aw_from w < 10 ^ 15)%Z /\ (0 <= aw_until w < 10 ^ 15)%Z /\
    exists d dh,
      build_update_w i (aw_from w) (aw_until w) = Some (au_bytes a, d, dh) /\
      In (ui_code i) (algs cfg) /\
      (Z.of_nat (String.length (au_bytes a)) <= P_MaxOperationSize cfg)%Z /\
      hash_rule cfg (ui_reveal i) /\ key_matches_reveal (Some (ui_key i)) (ui_reveal i) = true /\
      (Z.of_nat (String.length (ui_update_c i)) <= P_MaxOperationHashLength cfg)%Z /\ mh_code (ui_update_c i) = Some (ui_code i) /\
      (Z.of_nat (String.length dh) <= P_MaxOperationHashLength cfg)%Z /\
      (forall c, jcs (img_delta d) = Some c -> (Z.of_nat (String.length c) <= P_MaxDeltaSize cfg)%Z) /\
      In (ui_alg i) (P_SignatureAlgorithms cfg) /\
      In (k_crv (ui_key i)) (P_KeyAlgorithms cfg) /\ nonce_rule cfg (k_nonce (ui_key i)) /\
      Forall is_obj (ui_patches i) /\ Forall wfnum (ui_patches i) /\
      patches_valid cfg uri_ok url_norm (ui_patches i).

  (* the patch list of a step counts exactly when its anchoring time lies in its window *)
  Definition doc_step_w (doc : obj) (wp : anchored_update_w * list json) : obj :=
    let (w, ps) := wp in
    if verify_range_p cfg (aw_from w) (aw_until w) (au_time (aw_update w)) then doc_step doc ps else doc.

  (* every run of built updates with windows, of any length: none is refused, every commitment
     advances, and the document is the fold of exactly those patch lists whose step was anchored
     inside its window *)
  Theorem updates_w_built_apply ws : forall rm doc,
    Forall update_w_ok ws -> rm_doc rm = Some doc ->
    exists pss,
      Forall2 (fun w ps' => Forall2 jequiv (ui_patches (au_info (aw_update w))) ps') ws pss /\
      let rm' := fold_left (apply_update_step cfg uri_ok url_norm) (map aw_update ws) rm in
      rm_doc rm' = Some (fold_left doc_step_w (combine ws pss) doc) /\
      rm_update_c rm' = last_commitment (map aw_update ws) (rm_update_c rm) /\
      rm_recovery_c rm' = rm_recovery_c rm /\ rm_origin rm' = rm_origin rm /\ rm_created rm' = rm_created rm /\
      (ws <> [] -> rm_deactivated rm' = false).
  Proof.
    induction ws as [|w ws IH]; intros rm doc Hok Hdoc.
    - exists []. cbn. repeat split; auto. congruence.
    - inversion Hok as [|? ? Hw Hws]; subst.
      destruct Hw as (Hf & Hu & d & dh & Hb & H1 & H2 & H3 & H4 & H5 & H6 & H7 & H8 & H9 & H10 & H11 & H12 & H13 & H14).
      set (a := aw_update w) in *.
      destruct (update_w_built_applies (au_info a) (aw_from w) (aw_until w) (au_bytes a) d dh rm doc (au_time a) (au_num a) (au_ver a)
                  (au_canon a) (au_equiv a) Hb Hf Hu H1 H2 H3 H4 H5 H6 H7 H8 H9 H10 H11 H12 H13 H14 Hdoc)
        as [rm1 [ps1 [Happ [F1 [Euc [Erc [Ede [Eor [Ecr [_ Edoc]]]]]]]]]].
      destruct (IH rm1 _ Hws Edoc) as [pss [Fs [Hd [Hu' [Hr [Ho [Hc Hde]]]]]]].
      exists (ps1 :: pss). split; [constructor; assumption|].
      assert (Estep : apply_update_step cfg uri_ok url_norm rm a = rm1) by (unfold apply_update_step; now rewrite Happ).
      cbn [fold_left map combine]. fold a. rewrite Estep.
      cbn zeta in *. split.
      { rewrite Hd. f_equal. }
      split. { rewrite Hu'. unfold last_commitment. cbn [fold_left]. rewrite Euc. reflexivity. }
      split; [congruence|]. split; [congruence|]. split; [congruence|].
      intros _. destruct ws as [|b ws']; [cbn; exact Ede|apply Hde; discriminate].
  Qed.
End ApplyWindowed.

(* ---- the hypotheses are satisfiable: a windowed update through the byte-level mirror, computed.
   Built with window [100, 200]; applied at 150 the alias is added, at 300 the document stays;
   a windowed deactivate takes effect at 150 and is refused at 300. ---- *)
Example windowed_builders_example :
  let cur := ex_key "AQ" in
  let app ty bytes t rm := apply_bytes ex_protocol (fun _ => true) (fun s => Some s) ty bytes true t 1 0 "" [] rm in
  let rm0 := {| rm_doc := Some []; rm_created := 1; rm_updated := 1; rm_last_time := 1; rm_last_num := 0; rm_last_ver := 0;
                rm_update_c := ""; rm_recovery_c := ""; rm_deactivated := false; rm_origin := JNull; rm_equiv := []; rm_canon := "";
                rm_version := ""; rm_published := []; rm_unpublished := [] |} in
  match reveal (img_jwk cur) 18%N, commit (img_jwk (ex_key "Ag")) 18%N with
  | Some rv, Some uc =>
      let ps := [JObj [("action", JStr "add-also-known-as"); ("uris", JArr [JStr "https://a.example"])]] in
      (match build_update_w {| ui_suffix := "EiSuffix"; ui_patches := ps; ui_update_c := uc; ui_key := cur; ui_code := 18%N;
                               ui_reveal := rv; ui_alg := "ES256"; ui_sig := "sig" |} 100 200 with
       | Some (bytes, _, _) =>
           match app TUpdate bytes 150%Z rm0, app TUpdate bytes 300%Z rm0 with
           | Some r1, Some r2 =>
               match rm_doc r1, rm_doc r2 with
               | Some d1, Some d2 => andb (negb (Nat.eqb (List.length d1) 0)) (Nat.eqb (List.length d2) 0) &&
                                     String.eqb (rm_update_c r1) uc && String.eqb (rm_update_c r2) uc
               | _, _ => false
               end
           | _, _ => false
           end
       | None => false end) &&
      (match build_deactivate_w {| di_suffix := "EiSuffix"; di_key := cur; di_reveal := rv; di_alg := "ES256"; di_sig := "sig" |} 100 200 with
       | Some bytes =>
           match app TDeactivate bytes 150%Z rm0, app TDeactivate bytes 300%Z rm0 with
           | Some r1, None => rm_deactivated r1
           | _, _ => false
           end
       | None => false end)
  | _, _ => false
  end = true.
Proof. vm_compute. reflexivity. Qed.
