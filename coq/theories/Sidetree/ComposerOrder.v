(* The composer's dedicated actions do not see member order: on documents and patches without a
   member named twice, composing related inputs (equal up to the order of object members, at any
   depth) gives related results - the same failures, documents equal up to member order.  Covers
   replace, add/remove-public-keys, add/remove-services, add/remove-also-known-as; patch lists
   containing ietf-json-patch are outside this theorem (the library mirror walks pointers into
   arbitrary trees; its behaviour on re-ordered documents is decided by correspondence). *)
From Coq Require Import ZArith NArith String Ascii List Bool Sorting.Permutation Lia.
From Sidetree Require Import Json.Json Json.Jcs Json.JcsProps Json.JcsRoundTrip Sidetree.JsonPatch Sidetree.Composer Sidetree.Validator
     Sidetree.JequivDecode Sidetree.ValidatorJequiv.
Import ListNotations.
Open Scope string_scope.

(* ---- set_key ---- *)

Lemma keys_set_key k v m : keys (set_key k v m) = if existsb (String.eqb k) (keys m) then keys m else (keys m ++ [k])%list.
Proof.
  unfold keys. induction m as [|[k' v'] r IH]; cbn; [reflexivity|].
  destruct (String.eqb_spec k k') as [->|N]; cbn; [reflexivity|]. rewrite IH. destruct (existsb _ (map fst r)); reflexivity.
Qed.

Lemma existsb_eqb_in k l : existsb (String.eqb k) l = true <-> In k l.
Proof.
  rewrite existsb_exists. split.
  - intros [x [I E]]. apply String.eqb_eq in E. now subst.
  - intros I. exists k. split; [exact I|apply String.eqb_refl].
Qed.

Lemma nodup_set_key k v m : NoDup (keys m) -> NoDup (keys (set_key k v m)).
Proof.
  intros ND. rewrite keys_set_key. destruct (existsb (String.eqb k) (keys m)) eqn:E; [exact ND|].
  assert (Hn : ~ In k (keys m)) by (intros I; apply existsb_eqb_in in I; congruence).
  clear E. induction (keys m) as [|x l IH]; cbn; [constructor; [intros []|constructor]|].
  inversion ND; subst. constructor.
  - rewrite in_app_iff. intros [I|[<-|[]]]; [contradiction|]. apply Hn. now left.
  - apply IH; [assumption|]. intros I. apply Hn. now right.
Qed.

Lemma set_key_perm k v m m2 : Permutation m m2 -> NoDup (keys m) -> Permutation (set_key k v m) (set_key k v m2).
Proof.
  induction 1 as [|[k1 v1] l l' P IH|[k1 v1] [k2 v2] l|l l' l'' P1 IH1 P2 IH2]; intros ND.
  - apply Permutation_refl.
  - cbn. cbn in ND. inversion ND; subst. destruct (String.eqb k k1); [now constructor|]. constructor. now apply IH.
  - cbn in ND. inversion ND as [|? ? Hn ND1]; subst. inversion ND1; subst. cbn.
    assert (Hne : k2 <> k1) by (intros ->; apply Hn; now left).
    destruct (String.eqb_spec k k2) as [E2|N2], (String.eqb_spec k k1) as [E1|N1]; try (exfalso; congruence); apply perm_swap.
  - eapply perm_trans; [apply IH1; exact ND|]. apply IH2.
    eapply Permutation_NoDup; [apply Permutation_map; exact P1|exact ND].
Qed.

Lemma set_key_same k v v' (m m' : obj) :
  Forall2 (fun a b => fst a = fst b /\ jequiv (snd a) (snd b)) m m' -> jequiv v v' ->
  Forall2 (fun a b => fst a = fst b /\ jequiv (snd a) (snd b)) (set_key k v m) (set_key k v' m').
Proof.
  intros F E. induction F as [|[k1 v1] [k2 v2] l l' [Hk Hv] F IH]; cbn.
  - constructor; [split; [reflexivity|exact E]|constructor].
  - cbn in Hk. subst k2. destruct (String.eqb k k1).
    + constructor; [split; [reflexivity|exact E]|exact F].
    + constructor; [split; [reflexivity|exact Hv]|exact IH].
Qed.

Lemma forall_set_key (P : json -> Prop) k v m :
  P v -> Forall (fun kv => P (snd kv)) m -> Forall (fun kv => P (snd kv)) (set_key k v m).
Proof.
  intros Hv F. induction F as [|[k1 v1] l H F IH]; cbn; [constructor; [exact Hv|constructor]|].
  destruct (String.eqb k k1); constructor; auto.
Qed.

Lemma set_key_rel k v v' m m' : objrel m m' -> vrel v v' -> objrel (set_key k v m) (set_key k v' m').
Proof.
  intros [N E] [Nv Ev]. inversion N as [| | | | |? ND F]; subst. split.
  - constructor; [now apply nodup_set_key|now apply forall_set_key].
  - inversion E as [| | | | |? m2 ? P F2]; subst.
    apply JE_obj with (m' := set_key k v m2); [now apply set_key_perm|now apply set_key_same].
Qed.

(* ---- lists of entries ---- *)

Lemma ids_rel l l' : Forall2 objrel l l' -> map entry_id l = map entry_id l'.
Proof. induction 1 as [|x y l l' R F IH]; cbn; [reflexivity|]. now rewrite IH, (entry_id_rel _ _ R). Qed.

Lemma replace_by_id_rel l l' e e' : Forall2 objrel l l' -> objrel e e' -> Forall2 objrel (replace_by_id l e) (replace_by_id l' e').
Proof.
  intros F R. unfold replace_by_id. rewrite <- (entry_id_rel _ _ R). induction F as [|x y l l' Rx F IH]; cbn; [constructor|].
  rewrite <- (entry_id_rel _ _ Rx). destruct (String.eqb (entry_id x) (entry_id e)); (constructor; [assumption|exact IH]).
Qed.

Lemma add_entries_rel ex ex' ad ad' : Forall2 objrel ex ex' -> Forall2 objrel ad ad' ->
  Forall2 objrel (add_entries ex ad) (add_entries ex' ad').
Proof.
  intros Fe Fa. unfold add_entries. rewrite <- (ids_rel _ _ Fe). set (ids := map entry_id ex).
  assert (G : forall acc acc', Forall2 objrel acc acc' ->
    Forall2 objrel (fold_left (fun acc e => if mem_str (entry_id e) ids then replace_by_id acc e else (acc ++ [e])%list) ad acc)
                   (fold_left (fun acc e => if mem_str (entry_id e) ids then replace_by_id acc e else (acc ++ [e])%list) ad' acc')).
  { clear Fe. induction Fa as [|e e' ad ad' R Fa IH]; intros acc acc' Fc; cbn [fold_left]; [exact Fc|].
    apply IH. rewrite <- (entry_id_rel _ _ R). destruct (mem_str (entry_id e) ids).
    - now apply replace_by_id_rel.
    - apply Forall2_app; [exact Fc|constructor; [exact R|constructor]]. }
  apply G. exact Fe.
Qed.

Lemma remove_entries_rel ex ex' ids : Forall2 objrel ex ex' -> Forall2 objrel (remove_entries ex ids) (remove_entries ex' ids).
Proof.
  intros F. unfold remove_entries. induction F as [|x y l l' R F IH]; cbn; [constructor|].
  rewrite <- (entry_id_rel _ _ R). destruct (negb (mem_str (entry_id x) ids)); [constructor|]; auto.
Qed.

Lemma entries_value_rel l l' : Forall2 objrel l l' -> vrel (arr_or_null (map JObj l)) (arr_or_null (map JObj l')).
Proof.
  intros F. destruct F as [|x y l l' R F]; cbn; [split; constructor|].
  split.
  - constructor. constructor; [exact (proj1 R)|]. clear - F. induction F as [|a b l l' Ra F IH]; cbn; constructor; [exact (proj1 Ra)|exact IH].
  - constructor. constructor; [exact (proj2 R)|]. clear - F. induction F as [|a b l l' Ra F IH]; cbn; constructor; [exact (proj2 Ra)|exact IH].
Qed.

Lemma vrel_orel v v' : vrel v v' -> orel (Some v) (Some v').
Proof. intros [N E]. split; [exact E|exact N]. Qed.

Lemma vrel_refl_strs l : vrel (arr_or_null (map JStr l)) (arr_or_null (map JStr l)).
Proof.
  split; [|apply jequiv_refl]. destruct l as [|s r]; cbn; constructor.
  constructor; [constructor|]. induction r; cbn; constructor; [constructor|assumption].
Qed.

(* ---- the actions ---- *)

Lemma apply_add_entries_rel member doc doc' v v' : objrel doc doc' -> vrel v v' ->
  objrel (apply_add_entries member doc v) (apply_add_entries member doc' v').
Proof.
  intros Rd Rv. unfold apply_add_entries. apply set_key_rel; [exact Rd|]. apply entries_value_rel.
  apply add_entries_rel; apply parse_objects_rel; [apply lookup_rel; exact Rd|apply vrel_orel; exact Rv].
Qed.

Lemma apply_remove_entries_rel member doc doc' v v' : objrel doc doc' -> vrel v v' ->
  objrel (apply_remove_entries member doc v) (apply_remove_entries member doc' v').
Proof.
  intros Rd Rv. unfold apply_remove_entries. rewrite <- (string_array_rel (Some v) (Some v') (proj2 Rv)).
  apply set_key_rel; [exact Rd|]. apply entries_value_rel. apply remove_entries_rel. apply parse_objects_rel. apply lookup_rel. exact Rd.
Qed.

Lemma apply_add_aka_rel doc doc' v v' : objrel doc doc' -> vrel v v' -> objrel (apply_add_aka doc v) (apply_add_aka doc' v').
Proof.
  intros Rd Rv. unfold apply_add_aka. rewrite <- (string_array_rel (Some v) (Some v') (proj2 Rv)), <- (sa_rel "alsoKnownAs" _ _ Rd).
  apply set_key_rel; [exact Rd|apply vrel_refl_strs].
Qed.

Lemma apply_remove_aka_rel doc doc' v v' : objrel doc doc' -> vrel v v' -> objrel (apply_remove_aka doc v) (apply_remove_aka doc' v').
Proof.
  intros Rd Rv. unfold apply_remove_aka. rewrite <- (string_array_rel (Some v) (Some v') (proj2 Rv)), <- (sa_rel "alsoKnownAs" _ _ Rd).
  apply set_key_rel; [exact Rd|apply vrel_refl_strs].
Qed.

Definition opt_objrel (a b : option obj) : Prop :=
  match a, b with Some x, Some y => objrel x y | None, None => True | _, _ => False end.

Lemma node_rel o o' : orel o o' -> vrel (node o) (node o').
Proof.
  intros [E N]. destruct o as [v|], o' as [v'|]; cbn in E |- *; try tauto; [split; assumption|split; constructor].
Qed.

Lemma apply_replace_rel v v' : vrel v v' -> opt_objrel (apply_replace v) (apply_replace v').
Proof.
  intros [N E]. inversion E; subst; cbn; try exact I.
  - split; [repeat constructor; cbn; intuition discriminate|apply jequiv_refl].
  - assert (R : objrel m1 m2) by (split; assumption).
    pose proof (node_rel _ _ (lookup_rel _ _ "publicKeys" R)) as [N1 E1].
    pose proof (node_rel _ _ (lookup_rel _ _ "services" R)) as [N2 E2].
    split.
    + constructor; [repeat constructor; cbn; intuition discriminate|repeat constructor; assumption].
    + apply JE_obj with (m' := [("publicKey", node (lookup "publicKeys" m1)); ("service", node (lookup "services" m1))]); [apply Permutation_refl|].
      repeat constructor; assumption.
Qed.

Lemma get_action_rel p p' : objrel p p' -> get_action p = get_action p'.
Proof.
  intros R. unfold get_action. destruct (lookup_rel _ _ "action" R) as [E _].
  destruct (lookup "action" p) as [v|], (lookup "action" p') as [v'|]; cbn in E; try tauto.
  inversion E; subst; reflexivity.
Qed.

Lemma get_value_rel p p' : objrel p p' -> orel (get_value p) (get_value p').
Proof.
  intros R. unfold get_value. rewrite <- (get_action_rel _ _ R). destruct (get_action p); [apply lookup_rel; exact R|split; exact I].
Qed.

(* a patch whose action is not ietf-json-patch (or that is no patch at all) *)
Definition dedicated (pj : json) : Prop :=
  match pj with JObj p => get_action p <> Some AJsonPatch | _ => True end.

Lemma apply_patch_rel doc doc' pj pj' : objrel doc doc' -> vrel pj pj' -> dedicated pj ->
  opt_objrel (apply_patch doc pj) (apply_patch doc' pj').
Proof.
  intros Rd [N E] D. inversion E; subst; cbn [apply_patch]; try exact I.
  assert (R : objrel m1 m2) by (split; assumption). cbn in D.
  rewrite <- (get_action_rel _ _ R). destruct (get_value_rel _ _ R) as [Ev Nv].
  destruct (get_action m1) as [a|]; [|exact I].
  destruct (get_value m1) as [v|], (get_value m2) as [v'|]; cbn in Ev; try tauto; try exact I.
  assert (Rv : vrel v v') by (split; assumption).
  destruct a; cbn [opt_objrel]; try congruence.
  - now apply apply_replace_rel.
  - now apply apply_add_entries_rel.
  - now apply apply_remove_entries_rel.
  - now apply apply_add_entries_rel.
  - now apply apply_remove_entries_rel.
  - now apply apply_add_aka_rel.
  - now apply apply_remove_aka_rel.
Qed.

Theorem apply_patches_member_order ps : forall ps' doc doc',
  objrel doc doc' -> Forall2 vrel ps ps' -> Forall dedicated ps ->
  opt_objrel (apply_patches doc ps) (apply_patches doc' ps').
Proof.
  induction ps as [|p r IH]; intros ps' doc doc' Rd F D; inversion F as [|? p' ? r' Rp Fr]; subst; cbn [apply_patches]; [exact Rd|].
  inversion D as [|? ? Dp Dr]; subst.
  pose proof (apply_patch_rel doc doc' p p' Rd Rp Dp) as H.
  destruct (apply_patch doc p) as [d|], (apply_patch doc' p') as [d'|]; cbn in H; try tauto.
  now apply IH.
Qed.

(* computed instance: the same document and patches with their members in another order *)
Example member_order_example :
  let key id ty := JObj [("id", JStr id); ("type", JStr ty); ("purposes", JArr [JStr "authentication"])] in
  let key' id ty := JObj [("purposes", JArr [JStr "authentication"]); ("type", JStr ty); ("id", JStr id)] in
  let doc := [("publicKey", JArr [key "k1" "A"; key "k2" "B"]); ("alsoKnownAs", JArr [JStr "https://a.example"])] in
  let doc' := [("alsoKnownAs", JArr [JStr "https://a.example"]); ("publicKey", JArr [key' "k1" "A"; key' "k2" "B"])] in
  let ps := [JObj [("action", JStr "add-public-keys"); ("publicKeys", JArr [key "k3" "C"; key "k1" "D"])];
             JObj [("action", JStr "remove-public-keys"); ("ids", JArr [JStr "k2"])];
             JObj [("action", JStr "add-services"); ("services", JArr [JObj [("id", JStr "s1"); ("type", JStr "T")]])]] in
  let ps' := [JObj [("publicKeys", JArr [key' "k3" "C"; key' "k1" "D"]); ("action", JStr "add-public-keys")];
              JObj [("ids", JArr [JStr "k2"]); ("action", JStr "remove-public-keys")];
              JObj [("services", JArr [JObj [("type", JStr "T"); ("id", JStr "s1")]]); ("action", JStr "add-services")]] in
  match apply_patches doc ps, apply_patches doc' ps' with
  | Some d, Some d' => obj_equiv d d' && negb (json_eqb (JObj d) (JObj d'))
  | _, _ => false
  end = true.
Proof. vm_compute. reflexivity. Qed.
