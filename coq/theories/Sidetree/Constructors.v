(* The patch constructors of pkg/patch/patch.go (NewReplacePatch, NewJSONPatch, NewAddPublicKeysPatch,
   NewRemovePublicKeysPatch, NewAddServiceEndpointsPatch, NewRemoveServiceEndpointsPatch,
   NewAddAlsoKnownAs, NewRemoveAlsoKnownAs) over JSON trees: the argument is the tree the
   constructor's string argument denotes (one JSON value), the result is the patch as a tree. *)
From Coq Require Import String List Bool.
From Sidetree Require Import Json.Json Sidetree.JsonPatch Sidetree.Composer Sidetree.Builders Sidetree.Validator.
Import ListNotations.
Open Scope string_scope.

(* json.Unmarshal into a []string: a list whose entries are strings or null (the zero value), or
   null itself (a nil slice) *)
Fixpoint go_strings (l : list json) : option (list string) :=
  match l with
  | [] => Some []
  | JStr s :: r => option_map (cons s) (go_strings r)
  | JNull :: r => option_map (cons "") (go_strings r)
  | _ :: _ => None
  end.

Definition get_string_array (v : json) : option (list string) :=
  match v with JArr l => go_strings l | JNull => Some [] | _ => None end.

Definition ctor_patch (a : action) (v : json) : json := mk_patch (action_name a) (value_key a) v.

(* the constructor for action a on argument v: None = refused *)
Definition new_patch (a : action) (v : json) : option json :=
  match a with
  | AReplace =>
      match v with
      | JObj m => if forallb (fun k => mem_str k ["services"; "publicKeys"]) (keys m)
                  then Some (ctor_patch a v) else None
      | _ => None
      end
  | AJsonPatch =>
      match v with
      | JNull | JArr _ => Some (ctor_patch a v)
      | _ => None
      end
  | AAddPublicKeys | AAddServices => Some (ctor_patch a v)   (* any value is carried over *)
  | ARemovePublicKeys | ARemoveServices | AAddAlsoKnownAs | ARemoveAlsoKnownAs =>
      match get_string_array v with
      | Some (x :: r) => Some (ctor_patch a (JArr (map JStr (x :: r))))
      | _ => None
      end
  end.

Lemma action_of_name a : action_of_string (action_name a) = Some a.
Proof. destruct a; reflexivity. Qed.

Lemma value_key_not_action a : String.eqb (value_key a) "action" = false.
Proof. destruct a; reflexivity. Qed.

Lemma ctor_get_action a v : get_action (match ctor_patch a v with JObj p => p | _ => [] end) = Some a.
Proof.
  unfold ctor_patch, mk_patch, get_action. cbn [lookup]. rewrite String.eqb_refl. apply action_of_name.
Qed.

Lemma ctor_accessors a v :
  exists p, ctor_patch a v = JObj p /\ get_action p = Some a /\ get_value p = Some v.
Proof.
  eexists; split; [reflexivity|]. 
  assert (Ha : get_action [("action", JStr (action_name a)); (value_key a, v)] = Some a).
  { unfold get_action. cbn [lookup]. rewrite String.eqb_refl. apply action_of_name. }
  split; [exact Ha|]. unfold get_value. rewrite Ha. cbn [lookup].
  rewrite value_key_not_action. now rewrite String.eqb_refl.
Qed.

Lemma string_array_of_strings l : string_array (Some (JArr (map JStr l))) = l.
Proof. unfold string_array. induction l as [|s l IH]; cbn [map flat_map app]; [reflexivity|]. now rewrite IH. Qed.

Section WithUrlOracle.
  Variable uri_ok : string -> bool.
  Variable url_norm : string -> option string.
  Notation validate_patch := (validate_patch uri_ok url_norm).

  (* what "valid input" means for each constructor: the validator's own condition on the value
     the constructor is given *)
  Definition input_valid (a : action) (v : json) : bool :=
    match a with
    | AReplace =>
        match v with
        | JObj m => forallb (fun k => mem_str k ["services"; "publicKeys"]) (keys m) &&
                    validate_public_keys [] (parse_objects (lookup "publicKeys" m)) &&
                    validate_services uri_ok [] (parse_objects (lookup "services" m))
        | _ => false
        end
    | AJsonPatch => match v with JArr (x :: r) => forallb validate_ietf_op (x :: r) | _ => false end
    | AAddPublicKeys => match v with JArr (_ :: _) => validate_public_keys [] (parse_objects (Some v)) | _ => false end
    | AAddServices => match v with JArr (_ :: _) => validate_services uri_ok [] (parse_objects (Some v)) | _ => false end
    | ARemovePublicKeys | ARemoveServices =>
        match get_string_array v with Some (x :: r) => forallb validate_id (x :: r) | _ => false end
    | AAddAlsoKnownAs | ARemoveAlsoKnownAs =>
        match get_string_array v with Some (x :: r) => validate_aka url_norm [] (x :: r) | _ => false end
    end.

  (* every patch a constructor produces validates exactly when its input was valid *)
  Theorem constructed_patch_validates a v p :
    new_patch a v = Some p -> validate_patch p = input_valid a v.
  Proof.
    intros H.
    assert (K : forall w, validate_patch (ctor_patch a w) =
                 validate_patch (JObj [("action", JStr (action_name a)); (value_key a, w)])) by reflexivity.
    assert (V : forall w, validate_patch (ctor_patch a w) =
      match a with
      | AReplace => match w with
                    | JObj m => forallb (fun k => mem_str k ["services"; "publicKeys"]) (keys m) &&
                                validate_public_keys [] (parse_objects (lookup "publicKeys" m)) &&
                                validate_services uri_ok [] (parse_objects (lookup "services" m))
                    | _ => false end
      | AJsonPatch => match required_array w with Some ops => forallb validate_ietf_op ops | None => false end
      | AAddPublicKeys => match required_array w with Some _ => validate_public_keys [] (parse_objects (Some w)) | None => false end
      | ARemovePublicKeys | ARemoveServices =>
          match required_array w with Some _ => forallb validate_id (string_array (Some w)) | None => false end
      | AAddServices => match required_array w with Some _ => validate_services uri_ok [] (parse_objects (Some w)) | None => false end
      | AAddAlsoKnownAs | ARemoveAlsoKnownAs =>
          match required_array w with Some _ => validate_aka url_norm [] (string_array (Some w)) | None => false end
      end).
    { intros w. destruct (ctor_accessors a w) as (q & Eq & Ha & Hv). rewrite Eq.
      unfold Validator.validate_patch. rewrite Ha, Hv. destruct a; reflexivity. }
    destruct a; cbn [new_patch] in H.
    - (* replace *)
      destruct v as [| | | | |m]; try discriminate H.
      destruct (forallb _ (keys m)) eqn:Hk; [|discriminate H]. injection H as <-. rewrite V.
      cbn [input_valid]. now rewrite Hk.
    - injection H as <-. rewrite V. cbn [input_valid]. destruct v as [| | | | l |]; try reflexivity. destruct l; reflexivity.
    - destruct (get_string_array v) as [[|x r]|] eqn:G; try discriminate H. injection H as <-.
      rewrite V. cbn [input_valid]. rewrite G. cbn [required_array map]. 
      change (JStr x :: map JStr r) with (map JStr (x :: r)). now rewrite string_array_of_strings.
    - injection H as <-. rewrite V. cbn [input_valid]. destruct v as [| | | | l |]; try reflexivity. destruct l; reflexivity.
    - destruct (get_string_array v) as [[|x r]|] eqn:G; try discriminate H. injection H as <-.
      rewrite V. cbn [input_valid]. rewrite G. cbn [required_array map].
      change (JStr x :: map JStr r) with (map JStr (x :: r)). now rewrite string_array_of_strings.
    - destruct v as [| | | | l |]; try discriminate H; injection H as <-; rewrite V; cbn [input_valid required_array]; [reflexivity|].
      destruct l; reflexivity.
    - destruct (get_string_array v) as [[|x r]|] eqn:G; try discriminate H. injection H as <-.
      rewrite V. cbn [input_valid]. rewrite G. cbn [required_array map].
      change (JStr x :: map JStr r) with (map JStr (x :: r)). now rewrite string_array_of_strings.
    - destruct (get_string_array v) as [[|x r]|] eqn:G; try discriminate H. injection H as <-.
      rewrite V. cbn [input_valid]. rewrite G. cbn [required_array map].
      change (JStr x :: map JStr r) with (map JStr (x :: r)). now rewrite string_array_of_strings.
  Qed.

  (* valid input is never refused *)
  Theorem valid_input_constructs a v :
    input_valid a v = true -> exists p, new_patch a v = Some p /\ validate_patch p = true.
  Proof.
    intros H.
    assert (E : exists p, new_patch a v = Some p).
    { destruct a; cbn [new_patch input_valid] in *.
      - destruct v as [| | | | |m]; try discriminate H.
        destruct (forallb _ (keys m)); [eauto|discriminate H].
      - eauto.
      - destruct (get_string_array v) as [[|x r]|]; try discriminate H; eauto.
      - eauto.
      - destruct (get_string_array v) as [[|x r]|]; try discriminate H; eauto.
      - destruct v as [| | | | l |]; try discriminate H; eauto.
      - destruct (get_string_array v) as [[|x r]|]; try discriminate H; eauto.
      - destruct (get_string_array v) as [[|x r]|]; try discriminate H; eauto. }
    destruct E as (p & E). exists p. split; [exact E|]. now rewrite (constructed_patch_validates _ _ _ E).
  Qed.

  (* what a constructor produces carries its action and value under the accessors *)
  Theorem constructed_patch_accessors a v p :
    new_patch a v = Some p ->
    exists q w, p = JObj q /\ get_action q = Some a /\ get_value q = Some w /\
                (match a with
                 | ARemovePublicKeys | ARemoveServices | AAddAlsoKnownAs | ARemoveAlsoKnownAs =>
                     exists l, get_string_array v = Some l /\ w = JArr (map JStr l)
                 | _ => w = v
                 end).
  Proof.
    intros H.
    destruct a; cbn [new_patch] in H.
    - destruct v as [| | | | |m]; try discriminate H.
      destruct (forallb _ (keys m)); [|discriminate H]. injection H as <-.
      destruct (ctor_accessors AReplace (JObj m)) as (q & E & Ha & Hv). eauto 8.
    - injection H as <-. destruct (ctor_accessors AAddPublicKeys v) as (q & E & Ha & Hv). eauto 8.
    - destruct (get_string_array v) as [[|x r]|] eqn:G; try discriminate H. injection H as <-.
      destruct (ctor_accessors ARemovePublicKeys (JArr (map JStr (x :: r)))) as (q & E & Ha & Hv). eauto 10.
    - injection H as <-. destruct (ctor_accessors AAddServices v) as (q & E & Ha & Hv). eauto 8.
    - destruct (get_string_array v) as [[|x r]|] eqn:G; try discriminate H. injection H as <-.
      destruct (ctor_accessors ARemoveServices (JArr (map JStr (x :: r)))) as (q & E & Ha & Hv). eauto 10.
    - destruct v as [| | | | l |]; try discriminate H; injection H as <-.
      + destruct (ctor_accessors AJsonPatch JNull) as (q & E & Ha & Hv). eauto 8.
      + destruct (ctor_accessors AJsonPatch (JArr l)) as (q & E & Ha & Hv). eauto 8.
    - destruct (get_string_array v) as [[|x r]|] eqn:G; try discriminate H. injection H as <-.
      destruct (ctor_accessors AAddAlsoKnownAs (JArr (map JStr (x :: r)))) as (q & E & Ha & Hv). eauto 10.
    - destruct (get_string_array v) as [[|x r]|] eqn:G; try discriminate H. injection H as <-.
      destruct (ctor_accessors ARemoveAlsoKnownAs (JArr (map JStr (x :: r)))) as (q & E & Ha & Hv). eauto 10.
  Qed.
End WithUrlOracle.
