(* Anchoring window (C09): mirror of verifyAnchoringTimeRange / getAnchorUntil
   (operationapplier.go, operationparser/recover.go) and the declarative window. *)
From Coq Require Import ZArith Bool Lia.
From Sidetree Require Import Base.GoInt Sidetree.Protocol.
Open Scope Z_scope.

(* ---- mirror (code-shaped) ---- *)

Definition anchor_until (delta from until : Z) : Z :=
  if andb (negb (from =? 0)) (until =? 0) then go_add from (to_i64 delta) else until.

(* true = nil error = inside the window *)
Definition verify_range (delta from until anchor : Z) : bool :=
  if andb (from =? 0) (until =? 0) then true
  else if from >? to_i64 anchor then false
  else if anchor_until delta from until <? to_i64 anchor then false
  else true.

(* ---- spec (from the property text) ---- *)

(* An operation with neither bound is always effective; otherwise from <= t <= until where a
   missing until (0) defaults to from + delta. *)
Definition effective_until (delta from until : Z) : Z :=
  if until =? 0 then from + delta else until.

Definition in_window (delta from until t : Z) : Prop :=
  (from = 0 /\ until = 0) \/ (from <= t <= effective_until delta from until).

(* Domain on which no Go conversion wraps: anchoring time below 2^63, signed values in
   int64, default expiry representable. *)
Definition window_domain (delta from until t : Z) : Prop :=
  0 <= t < two63 /\ 0 <= delta < two63 /\ in_i64 from /\ in_i64 until /\ in_i64 (from + delta).

Lemma anchor_until_spec delta from until :
  0 <= delta < two63 -> in_i64 (from + delta) ->
  anchor_until delta from until =
    if andb (negb (from =? 0)) (until =? 0) then from + delta else until.
Proof.
  intros Hd Hs. unfold anchor_until.
  destruct (andb (negb (from =? 0)) (until =? 0)); [|reflexivity].
  rewrite to_i64_id by (unfold in_i64, two63 in *; lia).
  now apply go_add_exact.
Qed.

Lemma verify_range_iff delta from until t :
  window_domain delta from until t ->
  verify_range delta from until t = true <-> in_window delta from until t.
Proof.
  intros (Ht & Hd & Hf & Hu & Hs).
  unfold verify_range, in_window, effective_until.
  rewrite anchor_until_spec by assumption.
  rewrite (to_i64_id t) by (unfold in_i64, two63 in *; lia).
  destruct (Z.eqb_spec from 0) as [Ef|Nf]; destruct (Z.eqb_spec until 0) as [Eu|Nu]; cbn [andb negb].
  - split; [intros _; left; auto | reflexivity].
  - subst from. destruct (Z.gtb_spec 0 t) as [G|G]; [lia|].
    destruct (Z.ltb_spec until t) as [L|L]; split; intros H; try discriminate; try reflexivity.
    + destruct H as [[_ H]|H]; lia.
    + right. lia.
  - subst until. destruct (Z.gtb_spec from t) as [G|G].
    + split; [discriminate|]. intros [[H _]|H]; lia.
    + destruct (Z.ltb_spec (from + delta) t) as [L|L]; split; intros H; try discriminate; try reflexivity.
      * destruct H as [[H _]|H]; lia.
      * right. lia.
  - destruct (Z.gtb_spec from t) as [G|G].
    + split; [discriminate|]. intros [[H _]|H]; lia.
    + destruct (Z.ltb_spec until t) as [L|L]; split; intros H; try discriminate; try reflexivity.
      * destruct H as [[H _]|H]; lia.
      * right. lia.
Qed.

(* What the code does outside the domain is stated too (no default value hides it): for an
   anchoring time >= 2^63 the conversion int64(anchor) is negative. *)
Lemma verify_range_wrapped_time delta from until t :
  two63 <= t < two64 -> 0 < from -> in_i64 from ->
  verify_range delta from until t = false.
Proof.
  intros Ht Hf Hi. unfold verify_range.
  destruct (Z.eqb_spec from 0); [lia|]. cbn [andb].
  assert (E : to_i64 t = t - two64).
  { unfold to_i64. rewrite Z.mod_small by (unfold two63, two64 in *; lia).
    destruct (Z.ltb_spec t two63); [lia|reflexivity]. }
  rewrite E. destruct (Z.gtb_spec from (t - two64)); [reflexivity|].
  unfold two63, two64 in *; lia.
Qed.

(* The window depends on the protocol only through MaxOperationTimeDelta. *)
Definition verify_range_p (p : protocol) := verify_range (P_MaxOperationTimeDelta p).
Definition anchor_until_p (p : protocol) := anchor_until (P_MaxOperationTimeDelta p).

Lemma window_param_independence p q from until t :
  same_time_delta p q -> verify_range_p p from until t = verify_range_p q from until t.
Proof. unfold same_time_delta, verify_range_p. intros ->. reflexivity. Qed.

Lemma until_param_independence p q from until :
  same_time_delta p q -> anchor_until_p p from until = anchor_until_p q from until.
Proof. unfold same_time_delta, anchor_until_p. intros ->. reflexivity. Qed.
