(* RFC 6902 conformance of the pinned json-patch library, continued: `add` and `remove` whose target
   is an element of an array (reached through object members), addressed by an index in the
   RFC's own spelling (digits without leading zero, or "-" for add).  Other index spellings -
   negative, "+1", leading zeros - are where the library deviates (listed findings). *)
From Coq Require Import ZArith String List Bool Ascii Lia.
From Sidetree Require Import Json.Json Sidetree.JsonPatch Sidetree.Composer Sidetree.Rfc6902 Sidetree.Conformance.
Import ListNotations.
Open Scope string_scope.

(* every token leads from an object to a non-null object; the last value satisfies [Pend] *)
Fixpoint chain_to (Pend : json -> Prop) (v : json) (toks : list string) : Prop :=
  match toks with
  | [] => Pend v
  | t :: r => exists m c, v = JObj m /\ lookup t m = Some c /\ ((exists x, c = JObj x) \/ (exists l, c = JArr l)) /\ chain_to Pend c r
  end.

Section AtTargetGen.
  Variable Pend : json -> Prop.
  Variable g : json -> string -> option json.
  Variable f : json -> string -> pres (json * unit).
  Variable key : string.
  Hypothesis fg : forall c, Pend c -> conv (pbind (f c key) (fun r => POk (fst r))) = g c key.

  Lemma at_container_rfc_gen parts : forall v, chain_to Pend v (map decode_key parts) ->
    conv (pbind (at_container parts v (fun c => f c key)) (fun r => POk (fst r))) =
    rfc_at_parent v (map decode_key parts ++ [key])%list g.
  Proof.
    induction parts as [|p rest IH]; intros v H; cbn [map app at_container].
    - cbn [chain_to] in H. cbn [rfc_at_parent]. now apply fg.
    - destruct H as [m [c [-> [Hl [Hshape Hc]]]]].
      assert (Hd : descend (JObj m) p = POk c).
      { unfold descend. cbn [c_get pbind]. rewrite Hl. destruct Hshape as [[x ->]|[l ->]]; reflexivity. }
      rewrite Hd. cbn [pbind]. specialize (IH c Hc).
      assert (Hne : exists t r, (map decode_key rest ++ [key])%list = t :: r) by (destruct (map decode_key rest); cbn; eauto).
      destruct Hne as [t [r Hne]]. cbn [rfc_at_parent]. rewrite Hne, <- Hne, Hl, <- IH.
      destruct (at_container rest c (fun c0 => f c0 key)) as [[c' u]| | |]; reflexivity.
  Qed.
End AtTargetGen.

(* ---- indices ---- *)

Lemma digits_val_nonneg s : forall acc v, (0 <= acc)%Z -> digits_val acc s = Some v -> (0 <= v)%Z.
Proof.
  induction s as [|c r IH]; intros acc v Ha H; cbn in H; [injection H as <-; exact Ha|].
  destruct (digit_of c) as [d|] eqn:Ed; [|discriminate].
  eapply IH; [|exact H].
  assert (0 <= d)%Z.
  { unfold digit_of in Ed. destruct (Z.leb_spec 48 (Z.of_nat (nat_of_ascii c))) as [L|L]; cbn [andb] in Ed; [|discriminate].
    destruct (Z.leb _ 57); [injection Ed as <-; lia|discriminate]. }
  lia.
Qed.

(* an index in the RFC's spelling is read by strconv.Atoi as the same number *)
Lemma atoi_unsigned c r : c <> "-"%char -> c <> "+"%char ->
  atoi (String c r) = match digits_val 0 (String c r) with
                      | Some v => if andb (-9223372036854775808 <=? v)%Z (v <=? 9223372036854775807)%Z then Some v else None
                      | None => None
                      end.
Proof.
  intros Hm Hp. unfold atoi. destruct c as [[] [] [] [] [] [] [] []]; try reflexivity; congruence.
Qed.

Lemma rfc_index_digits c r : c <> "0"%char ->
  rfc_index (String c r) = match digits_val 0 (String c r) with
                           | Some v => if (v <? 1000000)%Z then Some (Z.to_nat v) else None
                           | None => None
                           end.
Proof. intros Hc. unfold rfc_index. destruct c as [[] [] [] [] [] [] [] []]; try reflexivity; congruence. Qed.

Lemma rfc_index_atoi tok i : rfc_index tok = Some i -> atoi tok = Some (Z.of_nat i).
Proof.
  destruct tok as [|c r]; [discriminate|].
  destruct (Ascii.eqb_spec c "0") as [->|Hc0].
  - unfold rfc_index. destruct r; [|discriminate]. intros H. injection H as <-. reflexivity.
  - rewrite (rfc_index_digits _ _ Hc0). intros H.
    destruct (digits_val 0 (String c r)) as [v|] eqn:Ed; [|discriminate].
    destruct (Z.ltb_spec v 1000000) as [Hv|]; [|discriminate]. injection H as <-.
    pose proof (digits_val_nonneg _ _ _ (Z.le_refl 0) Ed) as Hn.
    assert (Hd : exists d, digit_of c = Some d) by (cbn in Ed; destruct (digit_of c); [eauto|discriminate]).
    assert (Hm : c <> "-"%char) by (destruct Hd as [d Hd]; intros ->; vm_compute in Hd; discriminate).
    assert (Hp : c <> "+"%char) by (destruct Hd as [d Hd]; intros ->; vm_compute in Hd; discriminate).
    rewrite (atoi_unsigned _ _ Hm Hp), Ed.
    replace ((-9223372036854775808 <=? v)%Z && (v <=? 9223372036854775807)%Z) with true
      by (symmetry; apply andb_true_intro; split; apply Z.leb_le; lia).
    now rewrite Z2Nat.id.
Qed.

Definition is_arr (v : json) : Prop := exists l, v = JArr l.

Lemma c_add_arr l key x : (key = "-" \/ exists i, rfc_index key = Some i) ->
  conv (c_add (JArr l) key x) = rfc_add_at (JArr l) key x.
Proof.
  intros [->|[i Hi]]; [reflexivity|].
  unfold c_add, rfc_add_at. destruct (String.eqb_spec key "-") as [->|_]; [discriminate|].
  rewrite Hi, (rfc_index_atoi _ _ Hi). unfold zlen.
  destruct (Z.geb_spec (Z.of_nat i) (Z.of_nat (length l) + 1)) as [G|G]; destruct (Nat.leb_spec i (length l)) as [L|L]; try lia; [reflexivity|].
  destruct (Z.ltb_spec (Z.of_nat i) (- (Z.of_nat (length l) + 1))); [lia|].
  destruct (Z.ltb_spec (Z.of_nat i) 0); [lia|]. rewrite Nat2Z.id. reflexivity.
Qed.

Lemma c_remove_arr l key i : rfc_index key = Some i ->
  conv (c_remove (JArr l) key) = rfc_remove_at (JArr l) key.
Proof.
  intros Hi. unfold c_remove, rfc_remove_at. rewrite Hi, (rfc_index_atoi _ _ Hi). unfold zlen.
  destruct (Z.geb_spec (Z.of_nat i) (Z.of_nat (length l))) as [G|G]; destruct (Nat.ltb_spec i (length l)) as [L|L]; try lia; [reflexivity|].
  destruct (Z.ltb_spec (Z.of_nat i) (- Z.of_nat (length l))); [lia|].
  destruct (Z.ltb_spec (Z.of_nat i) 0); [lia|]. rewrite Nat2Z.id. reflexivity.
Qed.

Lemma c_replace_arr l key i x : rfc_index key = Some i ->
  conv (pbind (c_get (JArr l) key) (fun _ => c_set (JArr l) key x)) = rfc_replace_at (JArr l) key x.
Proof.
  intros Hi. unfold c_get, c_set, rfc_replace_at. rewrite Hi, (rfc_index_atoi _ _ Hi). unfold zlen, alloc_bound.
  assert (Hk : String.eqb key "-" = false).
  { destruct (String.eqb_spec key "-") as [->|]; [discriminate|reflexivity]. }
  destruct (Z.geb_spec (Z.of_nat i) (Z.of_nat (length l))) as [G|G]; destruct (Nat.ltb_spec i (length l)) as [L|L]; try lia; [reflexivity|].
  destruct (Z.ltb_spec (Z.of_nat i) 0); [lia|]. cbn [pbind]. rewrite Hk.
  destruct (Z.ltb_spec (Z.of_nat i) 0); [lia|].
  destruct (Z.geb_spec (Z.of_nat i) (Z.of_nat (length l) + 4096)); [lia|]. rewrite Nat2Z.id. reflexivity.
Qed.

(* the pointer addresses an element of an array reached through object members *)
Definition element_path (doc : json) (path : string) : Prop :=
  exists rest, split_path path = "" :: rest /\ rest <> [] /\ is_prefix "/" path = true /\
               chain_to is_arr doc (map decode_key (removelast rest)) /\
               (decode_key (last rest "") = "-" \/ exists i, rfc_index (decode_key (last rest "")) = Some i).

Section OpsArr.
  Variable doc : json.
  Variable op : obj.
  Variable path : string.
  Hypothesis Hpath : lookup "path" op = Some (JStr path).
  Hypothesis Hep : element_path doc path.

  Theorem add_conforms_array x : lookup "op" op = Some (JStr "add") -> lookup "value" op = Some x ->
    conv (apply_op doc (JObj op)) = rfc_apply_op doc (JObj op).
  Proof.
    intros Hop Hv. destruct Hep as [rest [Hs [Hne [Hp [Hc Hk]]]]]. destruct (pointer_tokens path rest Hs Hne Hp) as [Esp Etk].
    unfold apply_op, rfc_apply_op. assert (Ek : op_str op "op" = "add") by (unfold op_str; now rewrite Hop).
    assert (Ek' : rfc_op_str op "op" = Some "add") by (unfold rfc_op_str; now rewrite Hop).
    assert (Epath : op_str op "path" = path) by (unfold op_str; now rewrite Hpath).
    assert (Epath' : rfc_op_str op "path" = Some path) by (unfold rfc_op_str; now rewrite Hpath).
    rewrite Ek, Ek', Epath', Hv. cbn [String.eqb Ascii.eqb Bool.eqb].
    unfold do_add, with_target, rfc_add. rewrite Epath, Esp, Etk. unfold op_value. rewrite Hv. cbn [node].
    destruct (app_last_nonempty (map decode_key (removelast rest)) (decode_key (last rest ""))) as [t [r E]]. rewrite E, <- E.
    apply (at_container_rfc_gen is_arr (fun p t0 => rfc_add_at p t0 x) (fun c k => pbind (c_add c k x) (fun c' => POk (c', tt)))); [|exact Hc].
    intros c [l ->]. pose proof (c_add_arr l _ x Hk) as Ha. destruct (c_add (JArr l) _ x); cbn in *; exact Ha.
  Qed.

  Theorem remove_conforms_array i : lookup "op" op = Some (JStr "remove") ->
    rfc_index (decode_key (last (tl (split_path path)) "")) = Some i ->
    conv (apply_op doc (JObj op)) = rfc_apply_op doc (JObj op).
  Proof.
    intros Hop Hi. destruct Hep as [rest [Hs [Hne [Hp [Hc _]]]]]. destruct (pointer_tokens path rest Hs Hne Hp) as [Esp Etk].
    rewrite Hs in Hi. cbn [tl] in Hi.
    unfold apply_op, rfc_apply_op. assert (Ek : op_str op "op" = "remove") by (unfold op_str; now rewrite Hop).
    assert (Ek' : rfc_op_str op "op" = Some "remove") by (unfold rfc_op_str; now rewrite Hop).
    assert (Epath : op_str op "path" = path) by (unfold op_str; now rewrite Hpath).
    assert (Epath' : rfc_op_str op "path" = Some path) by (unfold rfc_op_str; now rewrite Hpath).
    rewrite Ek, Ek', Epath'. cbn [String.eqb Ascii.eqb Bool.eqb].
    unfold do_remove, with_target, rfc_remove. rewrite Epath, Esp, Etk.
    destruct (app_last_nonempty (map decode_key (removelast rest)) (decode_key (last rest ""))) as [t [r E]]. rewrite E, <- E.
    apply (at_container_rfc_gen is_arr rfc_remove_at (fun c k => pbind (c_remove c k) (fun c' => POk (c', tt)))); [|exact Hc].
    intros c [l ->]. pose proof (c_remove_arr l _ i Hi) as Ha. destruct (c_remove (JArr l) _); cbn in *; exact Ha.
  Qed.
  Theorem replace_conforms_array i x : lookup "op" op = Some (JStr "replace") -> lookup "value" op = Some x ->
    rfc_index (decode_key (last (tl (split_path path)) "")) = Some i ->
    conv (apply_op doc (JObj op)) = rfc_apply_op doc (JObj op).
  Proof.
    intros Hop Hv Hi. destruct Hep as [rest [Hs [Hne [Hp [Hc _]]]]]. destruct (pointer_tokens path rest Hs Hne Hp) as [Esp Etk].
    rewrite Hs in Hi. cbn [tl] in Hi.
    unfold apply_op, rfc_apply_op. assert (Ek : op_str op "op" = "replace") by (unfold op_str; now rewrite Hop).
    assert (Ek' : rfc_op_str op "op" = Some "replace") by (unfold rfc_op_str; now rewrite Hop).
    assert (Epath : op_str op "path" = path) by (unfold op_str; now rewrite Hpath).
    assert (Epath' : rfc_op_str op "path" = Some path) by (unfold rfc_op_str; now rewrite Hpath).
    rewrite Ek, Ek', Epath', Hv. cbn [String.eqb Ascii.eqb Bool.eqb]. rewrite Etk.
    unfold do_replace, with_target. rewrite Epath, Esp. unfold op_value. rewrite Hv. cbn [node].
    destruct (app_last_nonempty (map decode_key (removelast rest)) (decode_key (last rest ""))) as [t [r E]]. rewrite E, <- E.
    apply (at_container_rfc_gen is_arr (fun p t0 => rfc_replace_at p t0 x)
             (fun c k => pbind (c_get c k) (fun _ => pbind (c_set c k x) (fun c' => POk (c', tt))))); [|exact Hc].
    intros c [l ->]. pose proof (c_replace_arr l _ i x Hi) as Ha.
    destruct (c_get (JArr l) _) as [o| | |]; cbn [pbind] in *; try exact Ha.
    destruct (c_set (JArr l) _ x); cbn in *; exact Ha.
  Qed.
End OpsArr.

(* the class is not empty *)
Example element_path_example :
  element_path (JObj [("a", JObj [("list", JArr [JNum "1"; JNum "2"])])]) "/a/list/1" /\
  element_path (JObj [("list", JArr [])]) "/list/-".
Proof.
  split.
  - exists ["a"; "list"; "1"]. repeat split; try reflexivity; try discriminate.
    + cbn. eexists _, _. split; [reflexivity|]. split; [reflexivity|]. split; [left; eexists; reflexivity|].
      eexists _, _. split; [reflexivity|]. split; [reflexivity|]. split; [right; eexists; reflexivity|].
      eexists; reflexivity.
    + right. exists 1%nat. reflexivity.
  - exists ["list"; "-"]. repeat split; try reflexivity; try discriminate.
    + cbn. eexists _, _. split; [reflexivity|]. split; [reflexivity|]. split; [right; eexists; reflexivity|].
      eexists; reflexivity.
    + left. reflexivity.
Qed.
