(* Composition does not see member order, for every patch list whose ietf-json-patches contain no
   `test` operation (ComposerOrder.v: the dedicated actions; JsonPatchOrder.v: the library mirror). *)
From Coq Require Import ZArith NArith String Ascii List Bool Lia.
From Sidetree Require Import Json.Json Json.JcsProps Json.JcsRoundTrip Sidetree.JsonPatch Sidetree.Composer Sidetree.Validator
     Sidetree.JequivDecode Sidetree.ValidatorJequiv Sidetree.ComposerOrder Sidetree.JsonPatchOrder.
Import ListNotations.
Open Scope string_scope.

(* a patch that is no ietf-json-patch, or one without `test` operations *)
Definition order_blind (pj : json) : Prop :=
  match pj with
  | JObj p => match get_action p, get_value p with
              | Some AJsonPatch, Some (JArr ops) => Forall untested ops
              | _, _ => True
              end
  | _ => True
  end.

Lemma dedicated_order_blind pj : dedicated pj -> order_blind pj.
Proof.
  destruct pj as [| | | | |p]; cbn; auto. intros D. destruct (get_action p) as [[]|]; try exact I. congruence.
Qed.

Lemma apply_json_rel doc doc' v v' : objrel doc doc' -> vrel v v' ->
  (match v with JArr ops => Forall untested ops | _ => True end) ->
  opt_objrel (apply_json doc v) (apply_json doc' v').
Proof.
  intros Rd [N E] U. inversion E; subst; cbn [apply_json]; try exact I.
  - exact Rd.
  - assert (F : Forall2 vrel l1 l2) by (apply vrel_arr; split; assumption).
    pose proof (jsonpatch_apply_member_order doc doc' l1 l2 Rd F U) as Hj.
    destruct (jsonpatch_apply doc l1), (jsonpatch_apply doc' l2); cbn in Hj |- *; tauto.
Qed.

Lemma apply_patch_rel_all doc doc' pj pj' : objrel doc doc' -> vrel pj pj' -> order_blind pj ->
  opt_objrel (apply_patch doc pj) (apply_patch doc' pj').
Proof.
  intros Rd [N E] D. inversion E; subst; cbn [apply_patch]; try exact I.
  assert (R : objrel m1 m2) by (split; assumption). cbn in D.
  rewrite <- (get_action_rel _ _ R). destruct (get_value_rel _ _ R) as [Ev Nv].
  destruct (get_action m1) as [a|]; [|exact I].
  destruct (get_value m1) as [v|], (get_value m2) as [v'|]; cbn in Ev; try tauto; try exact I.
  assert (Rv : vrel v v') by (split; assumption).
  destruct a; cbn [opt_objrel].
  - now apply apply_replace_rel.
  - now apply apply_add_entries_rel.
  - now apply apply_remove_entries_rel.
  - now apply apply_add_entries_rel.
  - now apply apply_remove_entries_rel.
  - apply apply_json_rel; [exact Rd|exact Rv|]. destruct v; try exact I. exact D.
  - now apply apply_add_aka_rel.
  - now apply apply_remove_aka_rel.
Qed.

Theorem apply_patches_member_order_all ps : forall ps' doc doc',
  objrel doc doc' -> Forall2 vrel ps ps' -> Forall order_blind ps ->
  opt_objrel (apply_patches doc ps) (apply_patches doc' ps').
Proof.
  induction ps as [|p r IH]; intros ps' doc doc' Rd F D; inversion F as [|? p' ? r' Rp Fr]; subst; cbn [apply_patches]; [exact Rd|].
  inversion D as [|? ? Dp Dr]; subst.
  pose proof (apply_patch_rel_all doc doc' p p' Rd Rp Dp) as Hp.
  destruct (apply_patch doc p) as [d|], (apply_patch doc' p') as [d'|]; cbn in Hp; try tauto.
  now apply IH.
Qed.

(* the restriction is needed: `test` walks the members of the document's value in the order they are
   stored and gives up at the first difference or null member - the same operation on the same
   document with its members in another order ends differently (an error value here, a panic -
   turned into an error by the composer - there) *)
Example test_sees_member_order :
  let op := [JObj [("op", JStr "test"); ("path", JStr "/a"); ("value", JObj [("x", JNum "2"); ("y", JStr "s")])]] in
  jsonpatch_apply [("a", JObj [("x", JNum "1"); ("y", JNull)])] op = PErr /\
  jsonpatch_apply [("a", JObj [("y", JNull); ("x", JNum "1")])] op = PPanic.
Proof. vm_compute. split; reflexivity. Qed.
