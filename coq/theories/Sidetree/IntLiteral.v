(* An int64 member written by json.Marshal (decimal digits) and read back by the parser's integer
   decoding: for 0 < z < 10^15 the token is canonical (IntTok) and decodes to z; members left out
   (omitempty on zero) decode to zero.  Used by the builders with anchoring windows. *)
From Coq Require Import ZArith NArith String Ascii List Bool Lia.
From Sidetree Require Import Base.Sha2 Base.GoInt Json.Json Json.Es6 Json.Es6Props Json.Jcs Json.Parse Json.JcsProps Json.JcsRoundTrip Json.IntTok
     Sidetree.JsonPatch Sidetree.Parser Sidetree.JequivDecode.
Import ListNotations.

Lemma digit_of_dchar x : digit x -> digit_of (ascii_of_N (x + 48)) = Some (Z.of_N x).
Proof.
  intros H. destruct (digit_cases x H) as [->|[->|[->|[->|[->|[->|[->|[->|[->| ->]]]]]]]]]; reflexivity.
Qed.

Lemma digits_val_dchars d : forall acc, Forall digit d -> digits_val acc (string_of_bytes (dchars d)) = Some (digits_to_Z acc d).
Proof.
  induction d as [|x r IH]; intros acc H; [reflexivity|].
  inversion H as [|? ? Hx Hr]; subst.
  unfold string_of_bytes, dchars. cbn [map string_of_list_ascii digits_val digits_to_Z].
  rewrite (digit_of_dchar x Hx). apply (IH _ Hr).
Qed.

Lemma z_tok_shape z : (0 < z < 10 ^ 15)%Z -> exists c r, z_tok z = String c r /\ c <> "-"%char.
Proof.
  intros Hz. destruct (z_digits_facts z Hz) as (Hd & Hne & _).
  unfold z_tok. destruct (z_digits z) as [|x r]; [congruence|]. inversion Hd as [|? ? Hx _]; subst.
  unfold string_of_bytes, dchars. cbn [map string_of_list_ascii]. eexists _, _. split; [reflexivity|].
  destruct (digit_cases x Hx) as [->|[->|[->|[->|[->|[->|[->|[->|[->| ->]]]]]]]]]; discriminate.
Qed.

Theorem int_literal_z_tok z : (0 < z < 10 ^ 15)%Z -> int_literal (z_tok z) = Some z.
Proof.
  intros Hz. destruct (z_tok_shape z Hz) as [c [r [E Hc]]].
  destruct (z_digits_facts z Hz) as (Hd & _ & _ & _ & Hv).
  assert (Hdv : digits_val 0 (z_tok z) = Some z) by (unfold z_tok; rewrite digits_val_dchars by exact Hd; now rewrite Hv).
  unfold int_literal. rewrite E in *.
  destruct (Ascii.eqb_spec c "-"%char) as [->|_]; [congruence|].
  destruct c as [[] [] [] [] [] [] [] []]; try (rewrite Hdv; reflexivity). congruence.
Qed.

Theorem dec_int64_z_tok z : (0 < z < 10 ^ 15)%Z -> dec_int64 (Some (JNum (z_tok z))) = Some z.
Proof.
  intros Hz. unfold dec_int64. rewrite (int_literal_z_tok z Hz).
  assert (H15 : (10 ^ 15 < two63)%Z) by reflexivity.
  replace ((- two63 <=? z)%Z && (z <? two63)%Z) with true; [reflexivity|].
  symmetry. apply andb_true_intro. split; [apply Z.leb_le|apply Z.ltb_lt]; lia.
Qed.

(* an int64 member with omitempty *)
Definition opt_int (name : string) (z : Z) : obj := if (z =? 0)%Z then [] else [(name, JNum (z_tok z))].

Lemma opt_int_wfnum name z : (0 <= z < 10 ^ 15)%Z -> Forall (fun kv => wfnum (snd kv)) (opt_int name z).
Proof.
  intros Hz. unfold opt_int. destruct (Z.eqb_spec z 0) as [|Hne]; [constructor|].
  constructor; [|constructor]. cbn. constructor. apply z_tok_canonical. lia.
Qed.

Lemma dec_int64_opt z o : (0 <= z < 10 ^ 15)%Z ->
  opt_jequiv (if (z =? 0)%Z then None else Some (JNum (z_tok z))) o -> dec_int64 o = Some z.
Proof.
  intros Hz H. destruct (Z.eqb_spec z 0) as [->|Hne]; unfold opt_jequiv in H.
  - destruct o; [contradiction|reflexivity].
  - destruct o as [v|]; [|contradiction]. inversion H; subst. apply dec_int64_z_tok. lia.
Qed.
