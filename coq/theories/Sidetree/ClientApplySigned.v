(* C08, update: applying the request built by the update builder to a state that has a document
   yields the requested next update commitment and the document the composer makes of the
   requested patches from the current one (or, when the patch list fails, the document
   unchanged: the degraded outcome of C12); everything else in the state is carried over.  The
   signature verdict is the oracle [sig_ok = true] (the builder's signer is outside the model). *)
From Coq Require Import ZArith NArith String Ascii List Bool Lia.
From Sidetree Require Import Base.Sha2 Json.Json Json.Jcs Json.Parse Json.JcsProps Json.JcsRoundTrip
     Sidetree.Protocol Sidetree.Window Sidetree.JsonPatch Sidetree.Composer Sidetree.Validator Sidetree.Hashing Sidetree.Parser Sidetree.Applier
     Sidetree.Resolve Sidetree.Rules Sidetree.JequivDecode Sidetree.ValidatorJequiv Sidetree.Respell Sidetree.ClientUpdate Sidetree.ClientDeactivateRecover Sidetree.ClientSimple.
Import ListNotations.
Open Scope string_scope.

Section ApplySigned.
  Variable cfg : protocol.
  Variable uri_ok : string -> bool.
  Variable url_norm : string -> option string.

  Ltac crack H :=
    repeat match type of H with
           | match ?x with _ => _ end = Some _ => destruct x; try discriminate
           | (if ?c then _ else _) = Some _ => destruct c; try discriminate
           end.

  Lemma parse_create_type (origin_ok : json -> bool) m b p :
    parse_create cfg uri_ok url_norm origin_ok m b = Some p -> p_type p = "create".
  Proof. unfold parse_create. intros H. crack H. injection H as <-. reflexivity. Qed.
  Lemma parse_update_type (time_ok : Z -> Z -> bool) m b p :
    parse_update cfg uri_ok url_norm time_ok m b = Some p -> p_type p = "update".
  Proof. unfold parse_update. intros H. crack H. injection H as <-. reflexivity. Qed.
  Lemma parse_deactivate_type (time_ok : Z -> Z -> bool) m b p :
    parse_deactivate cfg time_ok m b = Some p -> p_type p = "deactivate".
  Proof. unfold parse_deactivate. intros H. crack H. injection H as <-. reflexivity. Qed.
  Lemma parse_recover_type (origin_ok : json -> bool) (time_ok : Z -> Z -> bool) m b p :
    parse_recover cfg uri_ok url_norm origin_ok time_ok m b = Some p -> p_type p = "recover".
  Proof. unfold parse_recover. intros H. crack H. injection H as <-. reflexivity. Qed.

  Lemma parse_operation_typed (origin_ok : json -> bool) (time_ok : Z -> Z -> bool) bytes p :
    parse_operation cfg uri_ok url_norm origin_ok time_ok bytes false = Some p ->
    exists m, parse_json bytes = Some (JObj m) /\
      (parse_create cfg uri_ok url_norm origin_ok m false = Some p \/
       parse_update cfg uri_ok url_norm time_ok m false = Some p \/
       parse_deactivate cfg time_ok m false = Some p \/
       parse_recover cfg uri_ok url_norm origin_ok time_ok m false = Some p).
  Proof.
    unfold parse_operation, top_object. destruct (_ <? _)%Z; [discriminate|].
    destruct (parse_json bytes) as [[| | | | |m]|]; try discriminate.
    destruct (dec_string (field "type" m)) as [ty|]; [|discriminate].
    intros H. exists m. split; [reflexivity|].
    destruct (String.eqb ty "create"); [auto|].
    destruct (String.eqb ty "update"); [auto|].
    destruct (String.eqb ty "deactivate"); [auto|].
    destruct (String.eqb ty "recover"); [auto|discriminate].
  Qed.

  Lemma parse_operation_update (origin_ok : json -> bool) (time_ok : Z -> Z -> bool) bytes p :
    parse_operation cfg uri_ok url_norm origin_ok time_ok bytes false = Some p -> p_type p = "update" ->
    exists m, parse_json bytes = Some (JObj m) /\ parse_update cfg uri_ok url_norm time_ok m false = Some p.
  Proof.
    intros H Ht. destruct (parse_operation_typed _ _ _ _ H) as [m [Hm [C|[U|[D|R]]]]]; exists m; split; auto.
    - apply parse_create_type in C. congruence.
    - apply parse_deactivate_type in D. congruence.
    - apply parse_recover_type in R. congruence.
  Qed.

  Lemma parse_operation_deactivate (origin_ok : json -> bool) (time_ok : Z -> Z -> bool) bytes p :
    parse_operation cfg uri_ok url_norm origin_ok time_ok bytes false = Some p -> p_type p = "deactivate" ->
    exists m, parse_json bytes = Some (JObj m) /\ parse_deactivate cfg time_ok m false = Some p.
  Proof.
    intros H Ht. destruct (parse_operation_typed _ _ _ _ H) as [m [Hm [C|[U|[D|R]]]]]; exists m; split; auto.
    - apply parse_create_type in C. congruence.
    - apply parse_update_type in U. congruence.
    - apply parse_recover_type in R. congruence.
  Qed.

  Lemma parse_operation_recover (origin_ok : json -> bool) (time_ok : Z -> Z -> bool) bytes p :
    parse_operation cfg uri_ok url_norm origin_ok time_ok bytes false = Some p -> p_type p = "recover" ->
    exists m, parse_json bytes = Some (JObj m) /\ parse_recover cfg uri_ok url_norm origin_ok time_ok m false = Some p.
  Proof.
    intros H Ht. destruct (parse_operation_typed _ _ _ _ H) as [m [Hm [C|[U|[D|R]]]]]; exists m; split; auto.
    - apply parse_create_type in C. congruence.
    - apply parse_update_type in U. congruence.
    - apply parse_deactivate_type in D. congruence.
  Qed.

  (* what the request-time parser accepts, the applier's batch-mode parser accepts too *)
  Lemma update_batch (time_ok : Z -> Z -> bool) m p :
    parse_update cfg uri_ok url_norm time_ok m false = Some p ->
    exists pb, parse_update cfg uri_ok url_norm always2 m true = Some pb /\
               p_signed pb = p_signed p /\ p_delta pb = p_delta p /\
               validate_delta cfg uri_ok url_norm (p_delta p) = true.
  Proof.
    unfold parse_update. destruct (common_fields cfg m) as [[[sfx rv] sd]|]; [|discriminate].
    destruct (dec_delta (field "delta" m)) as [od|]; [|discriminate].
    destruct (parse_signed_update cfg sd) as [su|]; [|discriminate]. cbn [negb].
    destruct (time_ok _ _); cbn [andb negb]; [|discriminate].
    destruct (validate_delta cfg uri_ok url_norm od) eqn:Ev; cbn [andb negb]; [|discriminate].
    destruct (match su_key su with Some _ => _ | None => _ end); cbn [negb]; [|discriminate].
    destruct (key_matches_reveal (su_key su) rv); cbn [negb]; [|discriminate].
    intros H. injection H as <-. eexists. split; [reflexivity|]. cbn. auto.
  Qed.

  Theorem update_built_applies i bytes d dh rm doc t num ver canon equiv :
    build_update i = Some (bytes, d, dh) ->
    In (ui_code i) (algs cfg) ->
    (Z.of_nat (String.length bytes) <= P_MaxOperationSize cfg)%Z ->
    hash_rule cfg (ui_reveal i) -> key_matches_reveal (Some (ui_key i)) (ui_reveal i) = true ->
    (Z.of_nat (String.length (ui_update_c i)) <= P_MaxOperationHashLength cfg)%Z -> mh_code (ui_update_c i) = Some (ui_code i) ->
    (Z.of_nat (String.length dh) <= P_MaxOperationHashLength cfg)%Z ->
    (forall c, jcs (img_delta d) = Some c -> (Z.of_nat (String.length c) <= P_MaxDeltaSize cfg)%Z) ->
    In (ui_alg i) (P_SignatureAlgorithms cfg) ->
    In (k_crv (ui_key i)) (P_KeyAlgorithms cfg) -> nonce_rule cfg (k_nonce (ui_key i)) ->
    Forall is_obj (ui_patches i) -> Forall wfnum (ui_patches i) ->
    patches_valid cfg uri_ok url_norm (ui_patches i) ->
    rm_doc rm = Some doc ->
    exists rm' ps',
      apply_bytes cfg uri_ok url_norm TUpdate bytes true t num ver canon equiv rm = Some rm' /\
      Forall2 jequiv (ui_patches i) ps' /\
      rm_update_c rm' = ui_update_c i /\ rm_recovery_c rm' = rm_recovery_c rm /\ rm_deactivated rm' = false /\
      rm_origin rm' = rm_origin rm /\ rm_created rm' = rm_created rm /\ rm_updated rm' = t /\
      rm_doc rm' = Some (match apply_patches doc ps' with Some doc' => doc' | None => doc end).
  Proof.
    intros Hb Hcode Hsize Hrv Hreveal Hluc Hcuc Hldh Hdsize Halg Hcrv Hnonce Hobj Hwf Hvalid Hdoc.
    destruct (update_built_accepted_simple cfg uri_ok url_norm (fun _ => true) (fun _ _ => true) i bytes d dh Hb Hcode Hsize Hrv Hreveal
                Hluc Hcuc Hldh Hdsize Halg Hcrv Hnonce eq_refl Hobj Hwf Hvalid)
      as [p [d' [Hparse [Hty [_ [_ [Hpd [Huc [Fps [_ Hsu]]]]]]]]]].
    destruct (parse_operation_update _ _ _ _ Hparse Hty) as [m [Hpj Hpu]].
    destruct (update_batch _ _ _ Hpu) as [pb [Hpb [Es [Ed Hvd]]]].
    (* the delta hash recorded by the builder validates against the parsed delta *)
    assert (Hdh : valid_mh (img_delta_opt (Some d')) dh = true).
    { assert (Ec : calc_mh (img_delta d) (ui_code i) = Some dh /\ d = {| d_update_c := ui_update_c i; d_patches := ui_patches i |}).
      { clear - Hb. unfold build_update in Hb.
        repeat match type of Hb with
               | match ?x with _ => _ end = Some _ => destruct x eqn:?; try discriminate
               | (if ?c then _ else _) = Some _ => destruct c; try discriminate
               end. injection Hb as <- <- <-. split; [assumption|reflexivity]. }
      destruct Ec as [Ec ->]. apply delta_hash_validates in Ec.
      rewrite <- Ec. symmetry. apply valid_mh_jequiv. cbn [img_delta_opt]. apply img_delta_rel.
      split; [cbn; symmetry; exact Huc|]. cbn [d_patches].
      assert (N : Forall ndk (ui_patches i)) by (eapply build_update_ndk; eauto).
      clear - Fps N. induction Fps; inversion N; subst; constructor; [split; assumption|auto]. }
    unfold apply_bytes, apply, view_of, request_object. cbn [a_type]. rewrite Hpj, Hpb, Es, Hsu, Ed, Hpd.
    unfold apply_update. cbn [a_view v_parse_ok v_signed_ok v_delta_hash_ok v_sig_ok v_delta_valid negb v_patches delta_patches
                              v_update_c delta_commitment a_time a_num a_ver a_canon].
    cbn [su_delta_hash su_from su_until]. rewrite Hdoc, Hdh. rewrite Hpd in Hvd. rewrite Hvd. cbn [negb].
    unfold in_win. cbn [v_from v_until su_from su_until]. unfold verify_range_p, verify_range. cbn [Z.eqb andb negb].
    destruct (apply_patches doc (d_patches d')) as [doc'|] eqn:Ea;
      (eexists; exists (d_patches d'); split; [reflexivity|]; split; [exact Fps|]; rewrite Ea; cbn; repeat split; auto).
  Qed.

  Lemma deactivate_batch (time_ok : Z -> Z -> bool) m p :
    parse_deactivate cfg time_ok m false = Some p ->
    exists pb, parse_deactivate cfg always2 m true = Some pb /\ p_signed pb = p_signed p /\ p_suffix pb = p_suffix p.
  Proof.
    unfold parse_deactivate. destruct (common_fields cfg m) as [[[sfx rv] sd]|]; [|discriminate].
    destruct (parse_signed_deactivate cfg sd) as [sx|]; [|discriminate].
    destruct (negb (String.eqb (sx_suffix sx) sfx)); [discriminate|].
    destruct (negb (key_matches_reveal (sx_key sx) rv)); [discriminate|].
    cbn [negb andb]. destruct (negb (time_ok _ _)); [discriminate|].
    intros H. injection H as <-. eexists. split; [reflexivity|]. cbn. auto.
  Qed.

  Theorem deactivate_built_applies i bytes rm doc t num ver canon equiv :
    build_deactivate i = Some bytes ->
    (Z.of_nat (String.length bytes) <= P_MaxOperationSize cfg)%Z ->
    hash_rule cfg (di_reveal i) -> key_matches_reveal (Some (di_key i)) (di_reveal i) = true ->
    In (di_alg i) (P_SignatureAlgorithms cfg) ->
    jwk_valid (di_key i) = true -> In (k_crv (di_key i)) (P_KeyAlgorithms cfg) -> nonce_rule cfg (k_nonce (di_key i)) ->
    rm_doc rm = Some doc ->
    exists rm',
      apply_bytes cfg uri_ok url_norm TDeactivate bytes true t num ver canon equiv rm = Some rm' /\
      rm_deactivated rm' = true /\ rm_doc rm' = Some [] /\ rm_update_c rm' = "" /\ rm_recovery_c rm' = "" /\
      rm_origin rm' = rm_origin rm /\ rm_created rm' = rm_created rm /\ rm_updated rm' = t.
  Proof.
    intros Hb Hsize Hrv Hreveal Halg Hkv Hcrv Hnonce Hdoc.
    destruct (deactivate_built_accepted cfg uri_ok url_norm (fun _ => true) (fun _ _ => true) i bytes Hb Hsize Hrv Hreveal Halg Hkv Hcrv Hnonce eq_refl)
      as [p [Hparse [Hty [Hsfx [_ [_ Hsx]]]]]].
    destruct (parse_operation_deactivate _ _ _ _ Hparse Hty) as [m [Hpj Hpd]].
    destruct (deactivate_batch _ _ _ Hpd) as [pb [Hpb [Es Ef]]].
    unfold apply_bytes, apply, view_of, request_object. cbn [a_type]. rewrite Hpj, Hpb, Es, Hsx, Ef, Hsfx.
    unfold apply_deactivate. cbn [a_view v_parse_ok v_signed_ok v_suffix_ok v_sig_ok negb sx_suffix sx_from sx_until].
    rewrite Hdoc, String.eqb_refl. cbn [negb].
    unfold in_win. cbn [v_from v_until]. unfold verify_range_p, verify_range. cbn [Z.eqb andb negb].
    eexists. split; [reflexivity|]. cbn. repeat split; auto.
  Qed.

  Lemma recover_batch (origin_ok : json -> bool) (time_ok : Z -> Z -> bool) m p :
    parse_recover cfg uri_ok url_norm origin_ok time_ok m false = Some p ->
    exists pb, parse_recover cfg uri_ok url_norm always always2 m true = Some pb /\
               p_signed pb = p_signed p /\ p_delta pb = p_delta p /\
               validate_delta cfg uri_ok url_norm (p_delta p) = true.
  Proof.
    unfold parse_recover. destruct (common_fields cfg m) as [[[sfx rv] sd]|]; [|discriminate].
    destruct (dec_delta (field "delta" m)) as [od|]; [|discriminate].
    destruct (parse_signed_recover cfg sd) as [sr|]; [|discriminate]. cbn [negb].
    destruct (origin_ok _); cbn [andb negb]; [|discriminate].
    destruct (time_ok _ _); cbn [andb negb]; [|discriminate].
    destruct (validate_delta cfg uri_ok url_norm od) eqn:Ev; cbn [andb negb]; [|discriminate].
    destruct (negb (String.eqb _ _)); cbn [negb]; [|discriminate].
    destruct (key_matches_reveal (sr_key sr) rv); cbn [negb]; [|discriminate].
    intros H. injection H as <-. eexists. split; [reflexivity|]. cbn. auto.
  Qed.

  Theorem recover_built_applies i bytes d dh rm doc t num ver canon equiv :
    build_recover i = Some (bytes, d, dh) ->
    In (ri_code i) (algs cfg) ->
    (Z.of_nat (String.length bytes) <= P_MaxOperationSize cfg)%Z ->
    hash_rule cfg (ri_reveal i) -> key_matches_reveal (Some (ri_key i)) (ri_reveal i) = true ->
    (Z.of_nat (String.length (ri_update_c i)) <= P_MaxOperationHashLength cfg)%Z -> mh_code (ri_update_c i) = Some (ri_code i) ->
    (Z.of_nat (String.length (ri_recovery_c i)) <= P_MaxOperationHashLength cfg)%Z -> mh_code (ri_recovery_c i) = Some (ri_code i) ->
    ri_update_c i <> ri_recovery_c i ->
    (Z.of_nat (String.length dh) <= P_MaxOperationHashLength cfg)%Z ->
    (forall c, jcs (img_delta d) = Some c -> (Z.of_nat (String.length c) <= P_MaxDeltaSize cfg)%Z) ->
    In (ri_alg i) (P_SignatureAlgorithms cfg) ->
    In (k_crv (ri_key i)) (P_KeyAlgorithms cfg) -> nonce_rule cfg (k_nonce (ri_key i)) ->
    wfnum (ri_origin i) ->
    Forall is_obj (ri_patches i) -> Forall wfnum (ri_patches i) ->
    patches_valid cfg uri_ok url_norm (ri_patches i) ->
    rm_doc rm = Some doc ->
    exists rm' ps',
      apply_bytes cfg uri_ok url_norm TRecover bytes true t num ver canon equiv rm = Some rm' /\
      Forall2 jequiv (ri_patches i) ps' /\
      rm_update_c rm' = ri_update_c i /\ rm_recovery_c rm' = ri_recovery_c i /\ rm_deactivated rm' = false /\
      jequiv (ri_origin i) (rm_origin rm') /\ rm_created rm' = rm_created rm /\ rm_updated rm' = t /\
      rm_doc rm' = Some (match apply_patches [] ps' with Some doc' => doc' | None => [] end).
  Proof.
    intros Hb Hcode Hsize Hrv Hreveal Hluc Hcuc Hlrc Hcrc Hdiff Hldh Hdsize Halg Hcrv Hnonce Hwo Hobj Hwf Hvalid Hdoc.
    destruct (recover_built_accepted_simple cfg uri_ok url_norm (fun _ => true) (fun _ _ => true) i bytes d dh Hb Hcode Hsize Hrv Hreveal
                Hluc Hcuc Hlrc Hcrc Hdiff Hldh Hdsize Halg Hcrv Hnonce eq_refl Hwo (fun _ _ => eq_refl) Hobj Hwf Hvalid)
      as [p [d' [Hparse [Hty [_ [_ [Hpd [Huc [Fps [Eo Hsr]]]]]]]]]].
    destruct (parse_operation_recover _ _ _ _ Hparse Hty) as [m [Hpj Hpr]].
    destruct (recover_batch _ _ _ _ Hpr) as [pb [Hpb [Es [Ed Hvd]]]].
    assert (Hdh : valid_mh (img_delta_opt (Some d')) dh = true).
    { assert (Ec : calc_mh (img_delta d) (ri_code i) = Some dh /\ d = {| d_update_c := ri_update_c i; d_patches := ri_patches i |}).
      { clear - Hb. unfold build_recover in Hb.
        repeat match type of Hb with
               | match ?x with _ => _ end = Some _ => destruct x eqn:?; try discriminate
               | (if ?c then _ else _) = Some _ => destruct c; try discriminate
               end. injection Hb as <- <- <-. split; [assumption|reflexivity]. }
      destruct Ec as [Ec ->]. apply delta_hash_validates in Ec.
      rewrite <- Ec. symmetry. apply valid_mh_jequiv. cbn [img_delta_opt]. apply img_delta_rel.
      split; [cbn; symmetry; exact Huc|]. cbn [d_patches].
      assert (N : Forall ndk (ri_patches i)) by (eapply build_recover_ndk; eauto).
      clear - Fps N. induction Fps; inversion N; subst; constructor; [split; assumption|auto]. }
    unfold apply_bytes, apply, view_of, request_object. cbn [a_type]. rewrite Hpj, Hpb, Es, Hsr, Ed, Hpd.
    unfold apply_recover. cbn [a_view v_parse_ok v_signed_ok v_delta_hash_ok v_sig_ok v_delta_valid negb v_patches delta_patches
                               v_update_c v_recovery_c v_origin delta_commitment a_time a_num a_ver a_canon a_equiv
                               sr_delta_hash sr_recovery_c sr_origin sr_from sr_until].
    rewrite Hdoc, Hdh. rewrite Hpd in Hvd. rewrite Hvd. cbn [negb].
    unfold in_win. cbn [v_from v_until]. unfold verify_range_p, verify_range. cbn [Z.eqb andb negb].
    destruct (apply_patches [] (d_patches d')) as [doc'|] eqn:Ea;
      (eexists; exists (d_patches d'); split; [reflexivity|]; split; [exact Fps|]; rewrite ?Ea; cbn; repeat split; auto).
  Qed.

  (* ---- a whole run of updates ---- *)

  (* an update request together with the anchoring data it is applied with *)
  Record anchored_update := { au_info : update_info; au_bytes : string; au_time : Z; au_num : Z; au_ver : Z; au_canon : string;
                              au_equiv : list string }.

  (* the builder made these bytes from valid input, for the parser's protocol *)
  Definition update_ok (a : anchored_update) : Prop :=
    let i := au_info a in
    exists d dh,
      build_update i = Some (au_bytes a, d, dh) /\
      In (ui_code i) (algs cfg) /\
      (Z.of_nat (String.length (au_bytes a)) <= P_MaxOperationSize cfg)%Z /\
      hash_rule cfg (ui_reveal i) /\ key_matches_reveal (Some (ui_key i)) (ui_reveal i) = true /\
      (Z.of_nat (String.length (ui_update_c i)) <= P_MaxOperationHashLength cfg)%Z /\ mh_code (ui_update_c i) = Some (ui_code i) /\
      (Z.of_nat (String.length dh) <= P_MaxOperationHashLength cfg)%Z /\
      (forall c, jcs (img_delta d) = Some c -> (Z.of_nat (String.length c) <= P_MaxDeltaSize cfg)%Z) /\
      In (ui_alg i) (P_SignatureAlgorithms cfg) /\
      In (k_crv (ui_key i)) (P_KeyAlgorithms cfg) /\ nonce_rule cfg (k_nonce (ui_key i)) /\
      Forall is_obj (ui_patches i) /\ Forall wfnum (ui_patches i) /\
      patches_valid cfg uri_ok url_norm (ui_patches i).

  Definition apply_update_step (rm : rmodel) (a : anchored_update) : rmodel :=
    match apply_bytes cfg uri_ok url_norm TUpdate (au_bytes a) true (au_time a) (au_num a) (au_ver a) (au_canon a) (au_equiv a) rm with
    | Some rm' => rm'
    | None => rm
    end.

  Definition doc_step (doc : obj) (ps : list json) : obj :=
    match apply_patches doc ps with Some doc' => doc' | None => doc end.

  Definition last_commitment (us : list anchored_update) (c : string) : string :=
    fold_left (fun _ a => ui_update_c (au_info a)) us c.

  (* every run of built updates, of any length: each is applied (none refused), the document is the
     fold of the requested patch lists over the current document, the update commitment is the
     one requested last, recovery commitment / origin / creation time never move *)
  Theorem updates_built_apply us : forall rm doc,
    Forall update_ok us -> rm_doc rm = Some doc ->
    exists pss,
      Forall2 (fun a ps' => Forall2 jequiv (ui_patches (au_info a)) ps') us pss /\
      let rm' := fold_left apply_update_step us rm in
      rm_doc rm' = Some (fold_left doc_step pss doc) /\
      rm_update_c rm' = last_commitment us (rm_update_c rm) /\
      rm_recovery_c rm' = rm_recovery_c rm /\ rm_origin rm' = rm_origin rm /\ rm_created rm' = rm_created rm /\
      (us <> [] -> rm_deactivated rm' = false).
  Proof.
    induction us as [|a us IH]; intros rm doc Hok Hdoc.
    - exists []. cbn. repeat split; auto. congruence.
    - inversion Hok as [|? ? Ha Hus]; subst.
      destruct Ha as (d & dh & Hb & H1 & H2 & H3 & H4 & H5 & H6 & H7 & H8 & H9 & H10 & H11 & H12 & H13 & H14).
      destruct (update_built_applies (au_info a) (au_bytes a) d dh rm doc (au_time a) (au_num a) (au_ver a) (au_canon a) (au_equiv a)
                  Hb H1 H2 H3 H4 H5 H6 H7 H8 H9 H10 H11 H12 H13 H14 Hdoc)
        as [rm1 [ps1 [Happ [F1 [Euc [Erc [Ede [Eor [Ecr [_ Edoc]]]]]]]]]].
      destruct (IH rm1 _ Hus Edoc) as [pss [Fs [Hd [Hu [Hr [Ho [Hc Hde]]]]]]].
      exists (ps1 :: pss). split; [constructor; assumption|].
      assert (Estep : apply_update_step rm a = rm1) by (unfold apply_update_step; now rewrite Happ).
      cbn [fold_left]. rewrite Estep.
      cbn zeta in *. split; [exact Hd|]. split.
      { rewrite Hu. unfold last_commitment. cbn [fold_left]. rewrite Euc. reflexivity. }
      split; [congruence|]. split; [congruence|]. split; [congruence|].
      intros _. destruct us as [|b us']; [cbn; exact Ede|apply Hde; discriminate].
  Qed.
End ApplySigned.
