(* The JSON patch mirror does not see member order either - except through `test`, whose subset
   comparison visits the members of its value in their order and stops at the first difference or
   null.  For operation lists without `test`: related documents (equal up to member order at any
   depth, no member named twice) and related operations give related outcomes - the same failure
   class, or documents related again. *)
From Coq Require Import ZArith NArith String Ascii List Bool Sorting.Permutation Lia.
From Sidetree Require Import Json.Json Json.JcsProps Json.JcsRoundTrip Sidetree.JsonPatch Sidetree.Composer Sidetree.Validator
     Sidetree.JequivDecode Sidetree.ValidatorJequiv Sidetree.ComposerOrder.
Import ListNotations.
Open Scope string_scope.

Definition pres_rel {A} (R : A -> A -> Prop) (a b : pres A) : Prop :=
  match a, b with
  | POk x, POk y => R x y
  | PErr, PErr | PPanic, PPanic | PBlowup, PBlowup => True
  | _, _ => False
  end.

Lemma pbind_rel {A B} (RA : A -> A -> Prop) (RB : B -> B -> Prop) x x' (f f' : A -> pres B) :
  pres_rel RA x x' -> (forall a a', RA a a' -> pres_rel RB (f a) (f' a')) -> pres_rel RB (pbind x f) (pbind x' f').
Proof. intros Hx Hf. destruct x, x'; cbn in *; try tauto. now apply Hf. Qed.

(* ---- arrays ---- *)

Lemma vrel_arr l l' : vrel (JArr l) (JArr l') <-> Forall2 vrel l l'.
Proof.
  split.
  - intros [N E]. inversion N as [| | | |? F|]; subst. inversion E as [| | | |? ? F2|]; subst.
    clear N E. induction F2 as [|x y l l' Exy F2 IH]; [constructor|]. inversion F; subst. constructor; [split; assumption|auto].
  - intros F. split.
    + constructor. induction F as [|x y l l' [Nx _] F IH]; constructor; assumption.
    + constructor. induction F as [|x y l l' [_ Ex] F IH]; constructor; assumption.
Qed.

Lemma vrel_null : vrel JNull JNull.  Proof. split; constructor. Qed.

Lemma F2_insert_at n : forall x x' (l l' : list json), vrel x x' -> Forall2 vrel l l' -> Forall2 vrel (insert_at n x l) (insert_at n x' l').
Proof.
  induction n as [|n IH]; intros x x' l l' Rx F; cbn.
  - constructor; assumption.
  - destruct F as [|y y' l l' Ry F]; [constructor; [assumption|constructor]|]. constructor; [assumption|now apply IH].
Qed.

Lemma F2_remove_at n : forall (l l' : list json), Forall2 vrel l l' -> Forall2 vrel (remove_at n l) (remove_at n l').
Proof.
  induction n as [|n IH]; intros l l' F; destruct F as [|y y' l l' Ry F]; cbn; try constructor; auto.
Qed.

Lemma F2_set_at n : forall x x' (l l' : list json), vrel x x' -> Forall2 vrel l l' -> Forall2 vrel (set_at n x l) (set_at n x' l').
Proof.
  induction n as [|n IH]; intros x x' l l' Rx F; destruct F as [|y y' l l' Ry F]; cbn.
  - constructor; [assumption|constructor].
  - constructor; assumption.
  - constructor; [apply vrel_null|]. apply IH; [assumption|constructor].
  - constructor; [assumption|now apply IH].
Qed.

Lemma F2_nth n : forall (l l' : list json), Forall2 vrel l l' ->
  match nth_error l n, nth_error l' n with Some a, Some b => vrel a b | None, None => True | _, _ => False end.
Proof.
  induction n as [|n IH]; intros l l' F; destruct F as [|y y' l l' Ry F]; cbn; auto. apply IH. exact F.
Qed.

Lemma F2_zlen (l l' : list json) : Forall2 vrel l l' -> zlen l = zlen l'.
Proof. intros F. unfold zlen. f_equal. induction F; cbn; congruence. Qed.

(* ---- remove_key ---- *)

Lemma keys_remove_key k m : NoDup (keys m) -> NoDup (keys (remove_key k m)) /\ (forall x, In x (keys (remove_key k m)) -> In x (keys m)).
Proof.
  unfold keys. induction m as [|[k1 v1] r IH]; cbn; intros ND; [split; [constructor|tauto]|].
  inversion ND as [|? ? Hn ND']; subst. destruct (IH ND') as [N S].
  destruct (String.eqb k k1); [split; [exact N|intros x I; right; auto]|].
  cbn. split; [constructor; [intros I; apply Hn; auto|exact N]|intros x [->|I]; [now left|right; auto]].
Qed.

Lemma remove_key_perm k m m2 : Permutation m m2 -> Permutation (remove_key k m) (remove_key k m2).
Proof.
  induction 1 as [|[k1 v1] l l' P IH|[k1 v1] [k2 v2] l|l l' l'' P1 IH1 P2 IH2]; cbn.
  - constructor.
  - destruct (String.eqb k k1); [exact IH|now constructor].
  - destruct (String.eqb k k2), (String.eqb k k1); try apply Permutation_refl; apply perm_swap.
  - eapply perm_trans; eauto.
Qed.

Lemma remove_key_same k (m m' : obj) :
  Forall2 (fun a b => fst a = fst b /\ jequiv (snd a) (snd b)) m m' ->
  Forall2 (fun a b => fst a = fst b /\ jequiv (snd a) (snd b)) (remove_key k m) (remove_key k m').
Proof.
  induction 1 as [|[k1 v1] [k2 v2] l l' [Hk Hv] F IH]; cbn; [constructor|].
  cbn in Hk. subst k2. destruct (String.eqb k k1); [exact IH|constructor; [split; [reflexivity|exact Hv]|exact IH]].
Qed.

Lemma forall_remove_key (P : json -> Prop) k m : Forall (fun kv => P (snd kv)) m -> Forall (fun kv => P (snd kv)) (remove_key k m).
Proof. induction 1 as [|[k1 v1] l H F IH]; cbn; [constructor|]. destruct (String.eqb k k1); [exact IH|constructor; auto]. Qed.

Lemma remove_key_rel k m m' : objrel m m' -> objrel (remove_key k m) (remove_key k m').
Proof.
  intros [N E]. inversion N as [| | | | |? ND F]; subst. split.
  - constructor; [apply (keys_remove_key k m ND)|now apply forall_remove_key].
  - inversion E as [| | | | |? m2 ? P F2]; subst.
    apply JE_obj with (m' := remove_key k m2); [now apply remove_key_perm|now apply remove_key_same].
Qed.

(* ---- containers ---- *)

Definition orel' (o o' : option json) : Prop :=
  match o, o' with Some a, Some b => vrel a b | None, None => True | _, _ => False end.

Lemma orel_orel' o o' : orel o o' -> orel' o o'.
Proof. intros [E N]. destruct o, o'; cbn in *; try tauto. split; assumption. Qed.

Lemma strip_null_rel o o' : orel' o o' ->
  orel' (match o with Some JNull => None | x => x end) (match o' with Some JNull => None | x => x end).
Proof.
  destruct o as [v|], o' as [v'|]; cbn; try tauto. intros [N E]. inversion E; subst; cbn; try exact I; split; assumption.
Qed.

Lemma c_get_rel c c' key : vrel c c' -> pres_rel orel' (c_get c key) (c_get c' key).
Proof.
  intros R. destruct R as [N E]. inversion E; subst; unfold c_get; try exact I.
  - assert (F : Forall2 vrel l1 l2) by (apply vrel_arr; split; assumption).
    destruct (atoi key) as [idx|]; [|exact I]. rewrite <- (F2_zlen _ _ F).
    destruct (idx >=? zlen l1)%Z; [exact I|]. destruct (idx <? 0)%Z; [exact I|].
    pose proof (F2_nth (Z.to_nat idx) _ _ F) as Hn.
    destruct (nth_error l1 (Z.to_nat idx)) as [a|], (nth_error l2 (Z.to_nat idx)) as [b|]; try tauto; try exact I.
    destruct Hn as [Na Ea]. inversion Ea; subst; cbn; try exact I; split; assumption.
  - assert (Ro : objrel m1 m2) by (split; assumption). destruct (lookup_rel _ _ key Ro) as [Eo No].
    destruct (lookup key m1) as [a|], (lookup key m2) as [b|]; cbn in Eo; try tauto; try exact I.
    inversion Eo; subst; cbn; try exact I; split; assumption.
Qed.

Lemma c_set_rel c c' key v v' : vrel c c' -> vrel v v' -> pres_rel vrel (c_set c key v) (c_set c' key v').
Proof.
  intros [N E] Rv. inversion E; subst; cbn; try exact I.
  - assert (F : Forall2 vrel l1 l2) by (apply vrel_arr; split; assumption).
    destruct (String.eqb key "-"); [cbn; apply vrel_arr; apply Forall2_app; [exact F|constructor; [exact Rv|constructor]]|].
    destruct (atoi key) as [idx|]; [|exact I]. destruct (idx <? 0)%Z; [exact I|]. rewrite <- (F2_zlen _ _ F).
    destruct (idx >=? zlen l1 + alloc_bound)%Z; [exact I|]. cbn. apply vrel_arr. now apply F2_set_at.
  - apply set_key_rel; [split; assumption|exact Rv].
Qed.

Lemma c_add_rel c c' key v v' : vrel c c' -> vrel v v' -> pres_rel vrel (c_add c key v) (c_add c' key v').
Proof.
  intros [N E] Rv. inversion E; subst; cbn; try exact I.
  - assert (F : Forall2 vrel l1 l2) by (apply vrel_arr; split; assumption).
    destruct (String.eqb key "-"); [cbn; apply vrel_arr; apply Forall2_app; [exact F|constructor; [exact Rv|constructor]]|].
    destruct (atoi key) as [idx|]; [|exact I]. rewrite <- (F2_zlen _ _ F).
    destruct (idx >=? zlen l1 + 1)%Z; [exact I|]. destruct (idx <? - (zlen l1 + 1))%Z; [exact I|]. cbn. apply vrel_arr. now apply F2_insert_at.
  - apply set_key_rel; [split; assumption|exact Rv].
Qed.

Lemma c_remove_rel c c' key : vrel c c' -> pres_rel vrel (c_remove c key) (c_remove c' key).
Proof.
  intros [N E]. inversion E; subst; cbn; try exact I.
  - assert (F : Forall2 vrel l1 l2) by (apply vrel_arr; split; assumption).
    destruct (atoi key) as [idx|]; [|exact I]. rewrite <- (F2_zlen _ _ F).
    destruct (idx >=? zlen l1)%Z; [exact I|]. destruct (idx <? - zlen l1)%Z; [exact I|]. cbn. apply vrel_arr. now apply F2_remove_at.
  - assert (R : objrel m1 m2) by (split; assumption).
    destruct (lookup_rel _ _ key R) as [Eo _].
    destruct (lookup key m1), (lookup key m2); cbn in Eo; try tauto; try exact I. cbn. now apply remove_key_rel.
Qed.

Lemma descend_rel c c' part : vrel c c' -> pres_rel vrel (descend c part) (descend c' part).
Proof.
  intros R. unfold descend. eapply pbind_rel; [apply c_get_rel; exact R|].
  intros o o' Ro. destruct o as [v|], o' as [v'|]; cbn in Ro; try tauto; try exact I.
  destruct Ro as [Nv Ev]. inversion Ev; subst; cbn; try exact I; split; assumption.
Qed.

Lemma put_back_rel c c' part ch ch' : vrel c c' -> vrel ch ch' -> vrel (put_back c part ch) (put_back c' part ch').
Proof.
  intros [N E] Rc. inversion E; subst; cbn; try (split; assumption).
  - assert (F : Forall2 vrel l1 l2) by (apply vrel_arr; split; assumption).
    destruct (atoi (decode_key part)); [apply vrel_arr; now apply F2_set_at|split; assumption].
  - apply set_key_rel; [split; assumption|exact Rc].
Qed.

Definition pair_rel {A} (RA : A -> A -> Prop) (x y : json * A) : Prop := vrel (fst x) (fst y) /\ RA (snd x) (snd y).

Lemma at_container_rel {A} (RA : A -> A -> Prop) parts : forall c c' (f f' : json -> pres (json * A)),
  vrel c c' -> (forall d d', vrel d d' -> pres_rel (pair_rel RA) (f d) (f' d')) ->
  pres_rel (pair_rel RA) (at_container parts c f) (at_container parts c' f').
Proof.
  induction parts as [|p rest IH]; intros c c' f f' R Hf; cbn [at_container]; [now apply Hf|].
  eapply pbind_rel; [apply descend_rel; exact R|]. intros ch ch' Rch.
  eapply pbind_rel; [apply IH; [exact Rch|exact Hf]|]. intros r r' [R1 R2]. cbn. split; [now apply put_back_rel|exact R2].
Qed.

Lemma with_target_rel {A} (RA : A -> A -> Prop) root root' path (f f' : json -> string -> pres (json * A)) :
  vrel root root' -> (forall d d' k, vrel d d' -> pres_rel (pair_rel RA) (f d k) (f' d' k)) ->
  pres_rel (pair_rel RA) (with_target root path f) (with_target root' path f').
Proof.
  intros R Hf. unfold with_target. destruct (split_pointer path) as [[parts key]|]; [|exact I].
  apply at_container_rel; [exact R|]. intros d d' Rd. now apply Hf.
Qed.

(* ---- operations ---- *)

Lemma op_str_rel op op' k : objrel op op' -> op_str op k = op_str op' k.
Proof.
  intros R. unfold op_str. destruct (lookup_rel _ _ k R) as [E _].
  destruct (lookup k op), (lookup k op'); cbn in E; try tauto. inversion E; subst; reflexivity.
Qed.

Lemma op_value_node_rel op op' : objrel op op' -> vrel (node (op_value op)) (node (op_value op')).
Proof. intros R. unfold op_value. apply node_rel. apply lookup_rel. exact R. Qed.

Definition unit_rel (_ _ : unit) : Prop := True.

Lemma fst_rel {A} (RA : A -> A -> Prop) (x x' : pres (json * A)) :
  pres_rel (pair_rel RA) x x' -> pres_rel vrel (pbind x (fun r => POk (fst r))) (pbind x' (fun r => POk (fst r))).
Proof. intros H. eapply pbind_rel; [exact H|]. intros a a' [R _]. exact R. Qed.

Lemma do_add_rel root root' op op' : vrel root root' -> objrel op op' -> pres_rel vrel (do_add root op) (do_add root' op').
Proof.
  intros R Ro. unfold do_add. rewrite <- (op_str_rel _ _ "path" Ro). apply (fst_rel unit_rel).
  apply with_target_rel; [exact R|]. intros d d' k Rd. eapply pbind_rel; [apply c_add_rel; [exact Rd|now apply op_value_node_rel]|].
  intros a a' Ra. cbn. split; [exact Ra|exact I].
Qed.

Lemma do_remove_rel root root' op op' : vrel root root' -> objrel op op' -> pres_rel vrel (do_remove root op) (do_remove root' op').
Proof.
  intros R Ro. unfold do_remove. rewrite <- (op_str_rel _ _ "path" Ro). apply (fst_rel unit_rel).
  apply with_target_rel; [exact R|]. intros d d' k Rd. eapply pbind_rel; [apply c_remove_rel; exact Rd|].
  intros a a' Ra. cbn. split; [exact Ra|exact I].
Qed.

Lemma do_replace_rel root root' op op' : vrel root root' -> objrel op op' -> pres_rel vrel (do_replace root op) (do_replace root' op').
Proof.
  intros R Ro. unfold do_replace. rewrite <- (op_str_rel _ _ "path" Ro). apply (fst_rel unit_rel).
  apply with_target_rel; [exact R|]. intros d d' k Rd. eapply pbind_rel; [apply c_get_rel; exact Rd|]. intros _ _ _.
  eapply pbind_rel; [apply c_set_rel; [exact Rd|now apply op_value_node_rel]|]. intros a a' Ra. cbn. split; [exact Ra|exact I].
Qed.

Lemma node_orel' o o' : orel' o o' -> vrel (node o) (node o').
Proof. destruct o, o'; cbn; try tauto. intros _. apply vrel_null. Qed.

Lemma do_move_rel root root' op op' : vrel root root' -> objrel op op' -> pres_rel vrel (do_move root op) (do_move root' op').
Proof.
  intros R Ro. unfold do_move. rewrite <- (op_str_rel _ _ "path" Ro), <- (op_str_rel _ _ "from" Ro).
  eapply pbind_rel with (RA := pair_rel orel').
  - apply with_target_rel; [exact R|]. intros d d' k Rd. eapply pbind_rel; [apply c_get_rel; exact Rd|]. intros v v' Rv.
    eapply pbind_rel; [apply c_remove_rel; exact Rd|]. intros a a' Ra. cbn. split; assumption.
  - intros r r' [R1 R2]. apply (fst_rel unit_rel). apply with_target_rel; [exact R1|]. intros d d' k Rd.
    eapply pbind_rel; [apply c_set_rel; [exact Rd|now apply node_orel']|]. intros a a' Ra. cbn. split; [exact Ra|exact I].
Qed.

Lemma do_copy_rel root root' op op' : vrel root root' -> objrel op op' -> pres_rel vrel (do_copy root op) (do_copy root' op').
Proof.
  intros R Ro. unfold do_copy. rewrite <- (op_str_rel _ _ "path" Ro), <- (op_str_rel _ _ "from" Ro).
  eapply pbind_rel with (RA := pair_rel orel').
  - apply with_target_rel; [exact R|]. intros d d' k Rd. eapply pbind_rel; [apply c_get_rel; exact Rd|]. intros v v' Rv. cbn. split; assumption.
  - intros r r' [_ R2]. apply (fst_rel unit_rel). apply with_target_rel; [exact R|]. intros d d' k Rd.
    eapply pbind_rel; [apply c_set_rel; [exact Rd|now apply node_orel']|]. intros a a' Ra. cbn. split; [exact Ra|exact I].
Qed.

(* an operation that is not a `test` *)
Definition untested (opj : json) : Prop := match opj with JObj op => op_str op "op" <> "test" | _ => True end.

Lemma apply_op_rel root root' o o' : vrel root root' -> vrel o o' -> untested o -> pres_rel vrel (apply_op root o) (apply_op root' o').
Proof.
  intros R [N E] U. inversion E; subst; cbn [apply_op]; try exact I.
  assert (Ro : objrel m1 m2) by (split; assumption). cbn in U. rewrite <- (op_str_rel _ _ "op" Ro).
  destruct (String.eqb (op_str m1 "op") "add"); [now apply do_add_rel|].
  destruct (String.eqb (op_str m1 "op") "remove"); [now apply do_remove_rel|].
  destruct (String.eqb (op_str m1 "op") "replace"); [now apply do_replace_rel|].
  destruct (String.eqb (op_str m1 "op") "move"); [now apply do_move_rel|].
  destruct (String.eqb_spec (op_str m1 "op") "test"); [contradiction|].
  destruct (String.eqb (op_str m1 "op") "copy"); [now apply do_copy_rel|exact I].
Qed.

Lemma field_str_rel op op' k : objrel op op' -> field_str op k = field_str op' k.
Proof.
  intros R. unfold field_str. destruct (lookup_rel _ _ k R) as [E _].
  destruct (lookup k op), (lookup k op'); cbn in E; try tauto. inversion E; subst; reflexivity.
Qed.

Lemma copy_into_self_rel o o' : vrel o o' -> copy_into_self o = copy_into_self o'.
Proof.
  intros [N E]. inversion E; subst; try reflexivity. assert (Ro : objrel m1 m2) by (split; assumption).
  unfold copy_into_self. now rewrite <- (field_str_rel _ _ "op" Ro), <- (field_str_rel _ _ "from" Ro), <- (field_str_rel _ _ "path" Ro).
Qed.

Lemma apply_ops_checked_rel ops : forall ops' root root',
  vrel root root' -> Forall2 vrel ops ops' -> Forall untested ops ->
  pres_rel vrel (apply_ops_checked root ops) (apply_ops_checked root' ops').
Proof.
  induction ops as [|o r IH]; intros ops' root root' R F U; inversion F as [|? o' ? r' Ro Fr]; subst; cbn [apply_ops_checked]; [exact R|].
  inversion U as [|? ? Uo Ur]; subst. rewrite <- (copy_into_self_rel _ _ Ro). destruct (copy_into_self o); [exact I|].
  eapply pbind_rel; [now apply apply_op_rel|]. intros a a' Ra. now apply IH.
Qed.

Lemma all_objects_rel ops ops' : Forall2 vrel ops ops' -> all_objects ops = all_objects ops'.
Proof.
  unfold all_objects. induction 1 as [|x y l l' [_ E] F IH]; cbn; [reflexivity|]. rewrite IH. inversion E; subst; reflexivity.
Qed.

Theorem jsonpatch_apply_member_order doc doc' ops ops' :
  objrel doc doc' -> Forall2 vrel ops ops' -> Forall untested ops ->
  pres_rel objrel (jsonpatch_apply doc ops) (jsonpatch_apply doc' ops').
Proof.
  intros R F U. unfold jsonpatch_apply. rewrite <- (all_objects_rel _ _ F). destruct (all_objects ops); cbn [negb]; [|exact I].
  eapply pbind_rel; [apply apply_ops_checked_rel; [exact R|exact F|exact U]|].
  intros a a' [Na Ea]. inversion Ea; subst; cbn; try exact I. split; assumption.
Qed.
