(* Patch validation does not depend on member order: validate_patch and patch_enabled give the
   same verdict on member-order-equivalent patches (at every nesting depth).

   The patch is decoded into Go maps, so names are compared exactly; the only side condition is
   that no object of the patch carries the same name twice ([ndk]). *)
From Coq Require Import ZArith NArith String List Bool Permutation Lia.
From Sidetree Require Import Json.Json Json.Jcs Json.JcsProps Json.JcsRoundTrip Json.Parse
  Sidetree.Composer Sidetree.Validator Sidetree.Protocol Sidetree.Hashing Sidetree.Parser Sidetree.JequivDecode.
Import ListNotations.
Open Scope string_scope.

(* no object, at any depth, carries a name twice *)
Inductive ndk : json -> Prop :=
| ND_null : ndk JNull
| ND_bool b : ndk (JBool b)
| ND_num t : ndk (JNum t)
| ND_str s : ndk (JStr s)
| ND_arr l : Forall ndk l -> ndk (JArr l)
| ND_obj m : NoDup (keys m) -> Forall (fun kv => ndk (snd kv)) m -> ndk (JObj m).

Definition orel (o o' : option json) : Prop :=
  opt_jequiv o o' /\ match o with Some v => ndk v | None => True end.

Definition vrel (v v' : json) : Prop := ndk v /\ jequiv v v'.
Definition objrel (m m' : obj) : Prop := vrel (JObj m) (JObj m').

Lemma lookup_rel m m' k : objrel m m' -> orel (lookup k m) (lookup k m').
Proof.
  intros [N E]. inversion N as [| | | | |? ND F]; subst.
  destruct (lookup_jequiv k m m' ND E) as [_ [_ H]]. split; [exact H|].
  destruct (lookup k m) as [v|] eqn:L; [|exact I].
  apply (lookup_in _ ND) in L. rewrite Forall_forall in F. exact (F _ L).
Qed.

Lemma keys_rel m m' : objrel m m' -> Permutation (keys m) (keys m').
Proof.
  intros [N E]. inversion N as [| | | | |? ND F]; subst.
  destruct (lookup_jequiv "" m m' ND E) as [_ [P _]]. exact P.
Qed.

Lemma forallb_perm {A} (f : A -> bool) l l' : Permutation l l' -> forallb f l = forallb f l'.
Proof.
  induction 1 as [|x l l' P IH|x y l|l l' l'' P1 IH1 P2 IH2]; cbn.
  - reflexivity.
  - now rewrite IH.
  - destruct (f x), (f y); reflexivity.
  - now rewrite IH1.
Qed.

Lemma string_entry_rel o o' : opt_jequiv o o' -> string_entry o = string_entry o'.
Proof.
  destruct o as [v|], o' as [v'|]; cbn; try tauto. intros E. inversion E; subst; reflexivity.
Qed.

Lemma has_rel k m m' : objrel m m' -> has k m = has k m'.
Proof.
  intros R. destruct (lookup_rel m m' k R) as [H _]. unfold has.
  destruct (lookup k m), (lookup k m'); cbn in H; tauto.
Qed.

Lemma se_rel k m m' : objrel m m' -> string_entry (lookup k m) = string_entry (lookup k m').
Proof. intros R. apply string_entry_rel. exact (proj1 (lookup_rel m m' k R)). Qed.

Lemma entry_id_rel m m' : objrel m m' -> entry_id m = entry_id m'.
Proof. apply se_rel. Qed.

Lemma strings_of_rel l l' : Forall2 jequiv l l' ->
  flat_map (fun e => match e with JStr s => [s] | _ => [] end) l =
  flat_map (fun e => match e with JStr s => [s] | _ => [] end) l'.
Proof.
  induction 1 as [|x y l l' E F IH]; cbn; [reflexivity|]. rewrite IH. inversion E; subst; reflexivity.
Qed.

Lemma string_array_rel o o' : opt_jequiv o o' -> string_array o = string_array o'.
Proof.
  destruct o as [v|], o' as [v'|]; cbn; try tauto. intros E. inversion E; subst; try reflexivity.
  now apply strings_of_rel.
Qed.

Lemma sa_rel k m m' : objrel m m' -> string_array (lookup k m) = string_array (lookup k m').
Proof. intros R. apply string_array_rel. exact (proj1 (lookup_rel m m' k R)). Qed.

Lemma objects_of_rel l l' : Forall ndk l -> Forall2 jequiv l l' ->
  Forall2 objrel (flat_map (fun e => match e with JObj m => [m] | _ => [] end) l)
                 (flat_map (fun e => match e with JObj m => [m] | _ => [] end) l').
Proof.
  intros N F. induction F as [|x y l l' E F IH]; cbn; [constructor|].
  inversion N as [|? ? Nx Nl]; subst. specialize (IH Nl).
  inversion E; subst; cbn; try exact IH. constructor; [|exact IH]. split; [exact Nx|exact E].
Qed.

Lemma parse_objects_rel o o' : orel o o' -> Forall2 objrel (parse_objects o) (parse_objects o').
Proof.
  intros [E N]. destruct o as [v|], o' as [v'|]; cbn in E; try tauto; [|constructor].
  inversion E; subst; cbn; try constructor.
  inversion N; subst. now apply objects_of_rel.
Qed.

(* ---- keys ---- *)

Lemma jwk_validate_rel o o' : orel o o' -> jwk_validate o = jwk_validate o'.
Proof.
  intros [E N]. destruct o as [v|], o' as [v'|]; cbn in E; try tauto.
  inversion E; subst; try reflexivity.
  assert (R : objrel m1 m2) by (split; assumption).
  unfold jwk_validate.
  rewrite (se_rel "kty" _ _ R), (se_rel "n" _ _ R), (se_rel "e" _ _ R), (se_rel "crv" _ _ R), (se_rel "x" _ _ R).
  reflexivity.
Qed.

Lemma key_properties_rel m m' : objrel m m' -> validate_key_properties m = validate_key_properties m'.
Proof.
  intros R. unfold validate_key_properties.
  rewrite (has_rel "type" _ _ R), (has_rel "id" _ _ R), (has_rel "publicKeyJwk" _ _ R), (has_rel "publicKeyBase58" _ _ R).
  rewrite (forallb_perm _ _ _ (keys_rel _ _ R)). reflexivity.
Qed.

Lemma key_purposes_rel m m' : objrel m m' -> validate_key_purposes m = validate_key_purposes m'.
Proof.
  intros R. unfold validate_key_purposes. rewrite (has_rel "purposes" _ _ R), (sa_rel "purposes" _ _ R). reflexivity.
Qed.

Lemma key_type_purpose_rel m m' : objrel m m' -> validate_key_type_purpose m = validate_key_type_purpose m'.
Proof.
  intros R. unfold validate_key_type_purpose. rewrite (se_rel "type" _ _ R), (sa_rel "purposes" _ _ R). reflexivity.
Qed.

Lemma key_material_rel m m' : objrel m m' -> key_material_ok m = key_material_ok m'.
Proof.
  intros R. unfold key_material_ok.
  rewrite (jwk_validate_rel _ _ (lookup_rel _ _ "publicKeyJwk" R)), (se_rel "publicKeyBase58" _ _ R), (se_rel "type" _ _ R).
  reflexivity.
Qed.

Lemma validate_public_keys_rel ks ks' : Forall2 objrel ks ks' -> forall seen,
  validate_public_keys seen ks = validate_public_keys seen ks'.
Proof.
  induction 1 as [|m m' ks ks' R F IH]; intros seen; cbn [validate_public_keys]; [reflexivity|].
  rewrite (key_properties_rel _ _ R), (entry_id_rel _ _ R), (key_purposes_rel _ _ R),
          (key_type_purpose_rel _ _ R), (key_material_rel _ _ R), IH. reflexivity.
Qed.

(* ---- services, also-known-as, ietf ---- *)

Section WithUrlOracle.
  Variable uri_ok : string -> bool.
  Variable url_norm : string -> option string.

  Lemma endpoint_entries_rel l l' : Forall2 jequiv l l' ->
    forallb (fun e => match e with JStr u => validate_uri uri_ok u | _ => true end) l =
    forallb (fun e => match e with JStr u => validate_uri uri_ok u | _ => true end) l'.
  Proof.
    induction 1 as [|x y l l' E F IH]; cbn; [reflexivity|]. rewrite IH. inversion E; subst; reflexivity.
  Qed.

  Lemma validate_endpoint_rel o o' : opt_jequiv o o' -> validate_endpoint uri_ok o = validate_endpoint uri_ok o'.
  Proof.
    destruct o as [v|], o' as [v'|]; cbn; try tauto. intros E. inversion E; subst; try reflexivity.
    now apply endpoint_entries_rel.
  Qed.

  Lemma validate_service_rel m m' : objrel m m' -> validate_service uri_ok m = validate_service uri_ok m'.
  Proof.
    intros R. unfold validate_service.
    rewrite (entry_id_rel _ _ R), (se_rel "type" _ _ R),
            (validate_endpoint_rel _ _ (proj1 (lookup_rel _ _ "serviceEndpoint" R))). reflexivity.
  Qed.

  Lemma validate_services_rel ss ss' : Forall2 objrel ss ss' -> forall seen,
    validate_services uri_ok seen ss = validate_services uri_ok seen ss'.
  Proof.
    induction 1 as [|m m' ss ss' R F IH]; intros seen; cbn [validate_services]; [reflexivity|].
    rewrite (validate_service_rel _ _ R), (entry_id_rel _ _ R), IH. reflexivity.
  Qed.

  Lemma validate_ietf_op_rel v v' : vrel v v' -> validate_ietf_op v = validate_ietf_op v'.
  Proof.
    intros [N E]. inversion E; subst; try reflexivity.
    assert (R : objrel m1 m2) by (split; assumption).
    unfold validate_ietf_op.
    destruct (lookup_rel _ _ "path" R) as [Hp _]. destruct (lookup_rel _ _ "from" R) as [Hf _].
    destruct (lookup "path" m1) as [p|], (lookup "path" m2) as [p'|]; cbn in Hp; try tauto.
    inversion Hp; subst; try reflexivity.
    destruct (pointer_ok s); cbn [negb]; [|reflexivity].
    destruct (lookup "from" m1) as [f|], (lookup "from" m2) as [f'|]; cbn in Hf; try tauto.
    inversion Hf; subst; reflexivity.
  Qed.

  Lemma ietf_ops_rel l l' : Forall ndk l -> Forall2 jequiv l l' ->
    forallb validate_ietf_op l = forallb validate_ietf_op l'.
  Proof.
    intros N F. induction F as [|x y l l' E F IH]; cbn; [reflexivity|].
    inversion N as [|? ? Nx Nl]; subst. rewrite (IH Nl), (validate_ietf_op_rel x y (conj Nx E)). reflexivity.
  Qed.

  Lemma get_action_rel m m' : objrel m m' -> get_action m = get_action m'.
  Proof.
    intros R. unfold get_action. destruct (lookup_rel _ _ "action" R) as [H _].
    destruct (lookup "action" m) as [a|], (lookup "action" m') as [a'|]; cbn in H; try tauto.
    inversion H; subst; reflexivity.
  Qed.

  Lemma get_value_rel m m' : objrel m m' -> orel (get_value m) (get_value m').
  Proof.
    intros R. unfold get_value. rewrite <- (get_action_rel _ _ R).
    destruct (get_action m); [apply lookup_rel; exact R|split; exact I].
  Qed.

  Lemma required_array_rel v v' : vrel v v' ->
    match required_array v, required_array v' with
    | Some l, Some l' => v = JArr l /\ v' = JArr l' /\ Forall ndk l /\ Forall2 jequiv l l'
    | None, None => True
    | _, _ => False
    end.
  Proof.
    intros [N E]. inversion E; subst; cbn; auto.
    match goal with F : Forall2 jequiv _ _ |- _ => inversion F; subst; cbn; auto end.
    inversion N; subst. repeat split; auto.
  Qed.

  Theorem validate_patch_rel v v' : vrel v v' -> validate_patch uri_ok url_norm v = validate_patch uri_ok url_norm v'.
  Proof.
    intros [N E]. inversion E; subst; try reflexivity.
    assert (R : objrel m1 m2) by (split; assumption).
    unfold validate_patch. rewrite <- (get_action_rel _ _ R).
    destruct (get_value_rel _ _ R) as [Hv Nv].
    destruct (get_action m1) as [a|]; [|reflexivity].
    destruct (get_value m1) as [val|], (get_value m2) as [val'|]; cbn in Hv; try tauto.
    assert (Rv : vrel val val') by (split; assumption).
    assert (Ov : orel (Some val) (Some val')) by (split; assumption).
    pose proof (required_array_rel _ _ Rv) as RA.
    destruct a.
    - (* replace *)
      inversion Hv; subst; try reflexivity.
      assert (Rm : objrel m0 m3) by (split; assumption).
      rewrite (forallb_perm _ _ _ (keys_rel _ _ Rm)).
      rewrite (validate_public_keys_rel _ _ (parse_objects_rel _ _ (lookup_rel _ _ "publicKeys" Rm))).
      rewrite (validate_services_rel _ _ (parse_objects_rel _ _ (lookup_rel _ _ "services" Rm))).
      reflexivity.
    - destruct (required_array val), (required_array val'); try tauto.
      apply validate_public_keys_rel, parse_objects_rel, Ov.
    - destruct (required_array val), (required_array val'); try tauto.
      rewrite (string_array_rel _ _ (proj1 Ov)). reflexivity.
    - destruct (required_array val), (required_array val'); try tauto.
      apply validate_services_rel, parse_objects_rel, Ov.
    - destruct (required_array val), (required_array val'); try tauto.
      rewrite (string_array_rel _ _ (proj1 Ov)). reflexivity.
    - (* ietf *)
      destruct (required_array val), (required_array val'); try tauto.
      destruct RA as [_ [_ [Nl F]]]. now apply ietf_ops_rel.
    - destruct (required_array val), (required_array val'); try tauto.
      rewrite (string_array_rel _ _ (proj1 Ov)). reflexivity.
    - destruct (required_array val), (required_array val'); try tauto.
      rewrite (string_array_rel _ _ (proj1 Ov)). reflexivity.
  Qed.
End WithUrlOracle.

Lemma patch_enabled_rel cfg v v' : vrel v v' -> patch_enabled cfg v = patch_enabled cfg v'.
Proof.
  intros [N E]. inversion E; subst; try reflexivity.
  assert (R : objrel m1 m2) by (split; assumption).
  unfold patch_enabled. rewrite (get_action_rel _ _ R). reflexivity.
Qed.

(* [ndk] follows from canonicalisability: JCS refuses colliding names *)
Theorem jcs_ndk v : forall out, jcs v = Some out -> ndk v.
Proof.
  induction v as [| | | |l IH|m IH] using json_ind'; intros out H; try constructor.
  - rewrite jcs_arr in H. destruct (parts_of l) as [parts|] eqn:Ep; [|discriminate]. clear H.
    revert parts Ep. induction IH as [|x r Hx _ IHr]; intros parts Ep; constructor.
    + cbn in Ep. destruct (jcs x) eqn:Ex; [|discriminate]. eapply Hx; reflexivity.
    + cbn in Ep. destruct (jcs x); [|discriminate]. destruct (parts_of r) eqn:Er; [|discriminate]. eapply IHr; reflexivity.
  - pose proof (jcs_obj_distinct_names _ _ H) as ND.
    change (map (fun kv : string * json => sort_key (fst kv)) m) with (map (fun kv : string * json => sort_key (fst kv)) m) in ND.
    unfold keys. rewrite <- (map_map fst sort_key) in ND. eapply NoDup_map_inv; exact ND.
  - rewrite jcs_obj in H. destruct (entries_of m) as [es|] eqn:Ee; [|discriminate]. clear H.
    revert es Ee. induction IH as [|[k x] r Hx _ IHr]; intros es Ee; constructor.
    + cbn in Ee. cbn [snd] in *. destruct (jcs x) eqn:Ex; [|discriminate]. eapply Hx; reflexivity.
    + cbn in Ee. destruct (jcs x); [|discriminate]. destruct (entries_of r) eqn:Er; [|discriminate]. eapply IHr; reflexivity.
Qed.
