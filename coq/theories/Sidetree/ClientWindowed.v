(* client.NewUpdateRequest with an anchoring window (AnchorFrom / AnchorUntil in the signed data
   model; both `omitempty`): the request it builds is accepted by a parser configured with the
   matching protocol, the signed data decode to the same window, and the time arguments handed to
   the anchoring-time validator are (from, until_of cfg from until).  json.Marshal writes an int64
   as its decimal digits; for 0 < z < 10^15 that token is canonical (IntTok) and decodes back to z
   (IntLiteral), so canonicalisation leaves it alone.  build_update_w i 0 0 = build_update i. *)
From Coq Require Import ZArith NArith String Ascii List Bool Sorting.Permutation Lia.
From Sidetree Require Import Base.Sha2 Base.Base64url Json.Json Json.Jcs Json.Parse Json.JcsProps Json.JcsRoundTrip Json.TransformIdem Json.IntTok
     Sidetree.Protocol Sidetree.Window Sidetree.JsonPatch Sidetree.Composer Sidetree.Validator Sidetree.Hashing Sidetree.Parser
     Sidetree.Rules Sidetree.JequivDecode Sidetree.ClientCreate Sidetree.CompactJws Sidetree.ClientUpdate Sidetree.IntLiteral.
Import ListNotations.
Open Scope string_scope.

Definition update_signed_members_w (k : jwk) (dh : string) (f u : Z) : obj :=
  ([("updateKey", img_jwk k); ("deltaHash", JStr dh)] ++ opt_int "anchorFrom" f ++ opt_int "anchorUntil" u)%list.

Definition build_update_w (i : update_info) (f u : Z) : option (string * delta * string) :=
  if String.eqb (ui_suffix i) "" then None
  else if String.eqb (ui_reveal i) "" then None
  else match ui_patches i with
  | [] => None
  | _ =>
    if negb (jwk_valid (ui_key i)) then None else
    if orb (String.eqb (ui_alg i) "") (String.eqb (ui_sig i) "") then None else
    let d := {| d_update_c := ui_update_c i; d_patches := ui_patches i |} in
    match calc_mh (img_delta d) (ui_code i), commit (img_jwk (ui_key i)) (ui_code i) with
    | Some dh, Some cur =>
        if String.eqb cur (ui_update_c i) then None else
        match jcs (JObj [("alg", JStr (ui_alg i))]), jcs (JObj (update_signed_members_w (ui_key i) dh f u)) with
        | Some hb, Some payload =>
            match jcs (JObj (update_members (ui_suffix i) (ui_reveal i) d (compact hb payload (ui_sig i)))) with
            | Some bytes => Some (bytes, d, dh)
            | None => None
            end
        | _, _ => None
        end
    | _, _ => None
    end
  end.

Lemma build_update_w_zero i : build_update_w i 0 0 = build_update i.
Proof. reflexivity. Qed.

Lemma usm_w_fields k dh f u :
  let m := update_signed_members_w k dh f u in
  NoDup (fnames m) /\ field "updateKey" m = Some (img_jwk k) /\ field "deltaHash" m = Some (JStr dh) /\
  field "anchorFrom" m = (if (f =? 0)%Z then None else Some (JNum (z_tok f))) /\
  field "anchorUntil" m = (if (u =? 0)%Z then None else Some (JNum (z_tok u))).
Proof.
  unfold update_signed_members_w, opt_int. destruct (f =? 0)%Z, (u =? 0)%Z; cbn; (split; [repeat constructor; cbn; intuition discriminate|auto]).
Qed.

Section Accepted.
  Variable cfg : protocol.
  Variable uri_ok : string -> bool.
  Variable url_norm : string -> option string.
  Variable origin_ok : json -> bool.
  Variable time_ok : Z -> Z -> bool.

  Theorem update_w_built_accepted i f u bytes d dh :
    build_update_w i f u = Some (bytes, d, dh) ->
    (0 <= f < 10 ^ 15)%Z -> (0 <= u < 10 ^ 15)%Z ->
    (* the parser is configured with the matching protocol *)
    In (ui_code i) (algs cfg) ->
    (Z.of_nat (String.length bytes) <= P_MaxOperationSize cfg)%Z ->
    hash_rule cfg (ui_reveal i) -> key_matches_reveal (Some (ui_key i)) (ui_reveal i) = true ->
    (Z.of_nat (String.length (ui_update_c i)) <= P_MaxOperationHashLength cfg)%Z -> mh_code (ui_update_c i) = Some (ui_code i) ->
    (Z.of_nat (String.length dh) <= P_MaxOperationHashLength cfg)%Z ->
    (forall c, jcs (img_delta d) = Some c -> (Z.of_nat (String.length c) <= P_MaxDeltaSize cfg)%Z) ->
    In (ui_alg i) (P_SignatureAlgorithms cfg) ->
    In (k_crv (ui_key i)) (P_KeyAlgorithms cfg) -> nonce_rule cfg (k_nonce (ui_key i)) ->
    time_ok f (until_of cfg f u) = true ->
    (* valid patches (a Go map has no member order: validity in every order) *)
    Forall is_obj (ui_patches i) -> Forall wfnum (ui_patches i) ->
    (forall p p', In p (ui_patches i) -> jequiv p p' -> patch_enabled cfg p' = true /\ validate_patch uri_ok url_norm p' = true) ->
    exists p d',
      parse_operation cfg uri_ok url_norm origin_ok time_ok bytes false = Some p /\
      p_type p = "update" /\ p_suffix p = ui_suffix i /\ p_reveal p = ui_reveal i /\
      p_delta p = Some d' /\ d_update_c d' = ui_update_c i /\ Forall2 jequiv (ui_patches i) (d_patches d') /\
      p_time_args p = Some (f, until_of cfg f u) /\
      parse_signed_update cfg (p_signed p) = Some {| su_key := Some (ui_key i); su_delta_hash := dh; su_from := f; su_until := u |}.
  Proof.
    intros Hb Hf Hu Hcode Hsize Hrv Hreveal Hluc Hcuc Hldh Hdsize Halg Hcrv Hnonce Htime Hobj Hwf Hvalid.
    unfold build_update_w in Hb.
    destruct (String.eqb_spec (ui_suffix i) "") as [|Hsfx]; [discriminate|].
    destruct (String.eqb_spec (ui_reveal i) "") as [|Hrvne]; [discriminate|].
    destruct (ui_patches i) as [|p0 ps0] eqn:Eps; [discriminate|]. rewrite <- Eps in *.
    destruct (jwk_valid (ui_key i)) eqn:Ekv; cbn [negb] in Hb; [|discriminate].
    destruct (String.eqb_spec (ui_alg i) "") as [|Halgne]; cbn [orb] in Hb; [discriminate|].
    destruct (String.eqb_spec (ui_sig i) "") as [|Hsigne]; [discriminate|].
    set (d0 := {| d_update_c := ui_update_c i; d_patches := ui_patches i |}) in *.
    destruct (calc_mh (img_delta d0) (ui_code i)) as [dh0|] eqn:Edh; [|discriminate].
    destruct (commit (img_jwk (ui_key i)) (ui_code i)) as [cur|] eqn:Ecur; [|discriminate].
    destruct (String.eqb_spec cur (ui_update_c i)) as [|Hcur]; [discriminate|].
    destruct (jcs (JObj [("alg", JStr (ui_alg i))])) as [hb|] eqn:Ehb; [|discriminate].
    destruct (jcs (JObj (update_signed_members_w (ui_key i) dh0 f u))) as [payload|] eqn:Epl; [|discriminate].
    set (sd := compact hb payload (ui_sig i)) in *.
    destruct (jcs (JObj (update_members (ui_suffix i) (ui_reveal i) d0 sd))) as [bs|] eqn:Ej; [|discriminate].
    injection Hb as <- <- <-.
    (* 1. the request parses back up to member order *)
    assert (Wreq : wfnum (JObj (update_members (ui_suffix i) (ui_reveal i) d0 sd))).
    { constructor. unfold update_members. repeat (constructor; [first [exact (W_str _) | exact (wfnum_img_delta d0 Hwf)]|]). constructor. }
    destruct (jcs_parse_roundtrip _ _ Ej Wreq) as [v' [Hparse [Ev' _]]].
    assert (ND : NoDup (fnames (update_members (ui_suffix i) (ui_reveal i) d0 sd))) by (cbn; repeat constructor; cbn; intuition discriminate).
    destruct (field_jequiv "type" _ _ ND Ev') as [m' [-> _]].
    assert (Ft : dec_string (field "type" m') = Some "update")
      by (rewrite <- (dec_string_respects _ _ (field_opt_jequiv "type" _ _ ND Ev')); reflexivity).
    assert (Fs : dec_string (field "didSuffix" m') = Some (ui_suffix i))
      by (rewrite <- (dec_string_respects _ _ (field_opt_jequiv "didSuffix" _ _ ND Ev')); reflexivity).
    assert (Fr : dec_string (field "revealValue" m') = Some (ui_reveal i))
      by (rewrite <- (dec_string_respects _ _ (field_opt_jequiv "revealValue" _ _ ND Ev')); reflexivity).
    assert (Fd : dec_string (field "signedData" m') = Some sd)
      by (rewrite <- (dec_string_respects _ _ (field_opt_jequiv "signedData" _ _ ND Ev')); reflexivity).
    pose proof (field_opt_jequiv "delta" _ _ ND Ev') as Hd.
    change (field "delta" (update_members (ui_suffix i) (ui_reveal i) d0 sd)) with (Some (img_delta d0)) in Hd. unfold opt_jequiv in Hd.
    destruct (field "delta" m') as [xd|] eqn:Exd; [|contradiction].
    destruct (dec_delta_jequiv d0 xd Hobj Hwf Hd) as [ps' [Dd [Fps [Ops Wps]]]]. cbn [d_update_c d_patches d0] in Dd, Fps.
    set (d' := {| d_update_c := ui_update_c i; d_patches := ps' |}) in *.
    assert (Edl : jequiv (img_delta d0) (img_delta d')) by (apply img_delta_jequiv; exact Fps).
    (* 2. the protected header *)
    assert (Whdr : wfnum (JObj [("alg", JStr (ui_alg i))])) by (repeat constructor).
    destruct (jcs_parse_roundtrip _ _ Ehb Whdr) as [vh [Hph [Evh _]]].
    assert (NDh : NoDup (keys [("alg", JStr (ui_alg i))])) by (repeat constructor; cbn; tauto).
    destruct (jequiv_obj_inv _ _ Evh) as [_ [h' [-> _]]].
    destruct (lookup_jequiv "alg" _ _ NDh Evh) as [NDh' [Pk Hla]]. cbn [lookup String.eqb Ascii.eqb Bool.eqb] in Hla. unfold opt_jequiv in Hla.
    destruct (lookup "alg" h') as [va|] eqn:Ela; [|contradiction]. apply jequiv_str_inv in Hla. subst va.
    assert (Hhas : has "alg" h' = true) by (unfold has; now rewrite Ela).
    assert (Hdup : dupfree (JObj h') = true) by exact (single_alg_dupfree _ _ Pk Ela).
    (* 3. the payload *)
    assert (Wpl : wfnum (JObj (update_signed_members_w (ui_key i) dh0 f u))).
    { constructor. unfold update_signed_members_w. constructor; [exact (wfnum_img_jwk _)|]. constructor; [exact (W_str _)|].
      apply Forall_app. split; apply opt_int_wfnum; assumption. }
    destruct (jcs_parse_roundtrip _ _ Epl Wpl) as [vp [Hpp [Evp _]]].
    destruct (usm_w_fields (ui_key i) dh0 f u) as (NDp & Fk0 & Fdh0 & Ff0 & Fu0).
    destruct (field_jequiv "deltaHash" _ _ NDp Evp) as [pm [-> _]].
    assert (Hplne : payload <> "").
    { intros ->. cbn in Hpp. discriminate. }
    set (j := {| j_headers := h'; j_payload := payload; j_signature := ui_sig i;
                 j_parts := (b64_encode hb, b64_encode payload, b64_encode (ui_sig i)) |}).
    assert (Hjws : parse_jws sd = Some j) by (apply parse_jws_compact; auto).
    assert (Hpo : payload_obj j = Some pm) by (unfold payload_obj; cbn [j_payload j]; now rewrite Hpp).
    pose proof (field_opt_jequiv "updateKey" _ _ NDp Evp) as Hk.
    rewrite Fk0 in Hk. unfold opt_jequiv in Hk.
    destruct (field "updateKey" pm) as [xk|] eqn:Exk; [|contradiction].
    assert (Dk : dec_jwk (field "updateKey" pm) = Some (Some (ui_key i))) by (rewrite Exk; now apply dec_jwk_jequiv).
    assert (Ddh : dec_string (field "deltaHash" pm) = Some dh0)
      by (rewrite <- (dec_string_respects _ _ (field_opt_jequiv "deltaHash" _ _ NDp Evp)), Fdh0; reflexivity).
    assert (Df : dec_int64 (field "anchorFrom" pm) = Some f).
    { apply dec_int64_opt; [exact Hf|]. rewrite <- Ff0. apply (field_opt_jequiv "anchorFrom" _ _ NDp Evp). }
    assert (Du : dec_int64 (field "anchorUntil" pm) = Some u).
    { apply dec_int64_opt; [exact Hu|]. rewrite <- Fu0. apply (field_opt_jequiv "anchorUntil" _ _ NDp Evp). }
    assert (Hcode_dh : mh_code dh0 = Some (ui_code i)) by (apply (code_of_calc sha256 sha512 sha256_length sha512_length _ _ _ Edh)).
    (* 4. assemble *)
    set (p := {| p_type := "update"; p_suffix := ui_suffix i; p_origin := JNull; p_reveal := ui_reveal i; p_signed := sd; p_delta := Some d';
                 p_suffix_data := None; p_time_args := Some (f, until_of cfg f u); p_origin_arg := None |}).
    assert (Hsdr : signed_data_rule cfg sd j).
    { unfold signed_data_rule. split; [apply compact_nonempty; intros ->; cbn in Hph; discriminate|]. split; [exact Hjws|].
      exists (ui_alg i). cbn [j_headers j]. repeat split; auto.
      intros k Ik. left. assert (Ik' : In k (keys [("alg", JStr (ui_alg i))])) by (eapply Permutation_in; [apply Permutation_sym; exact Pk|exact Ik]).
      destruct Ik' as [<-|[]]. reflexivity. }
    assert (Hskr : signing_key_rule cfg (Some (ui_key i))) by (exists (ui_key i); auto).
    assert (Hhr : hash_rule cfg dh0) by (split; [exact Hldh|exists (ui_code i); auto]).
    assert (Hsu : parse_signed_update cfg sd = Some {| su_key := Some (ui_key i); su_delta_hash := dh0; su_from := f; su_until := u |}).
    { apply parse_signed_update_iff. exists j, pm. cbn [su_key su_delta_hash su_from su_until].
      split; [exact Hsdr|]. split; [exact Hpo|]. split; [exact Dk|]. split; [exact Ddh|]. split; [exact Df|]. split; [exact Du|].
      split; [exact Hskr|exact Hhr]. }
    exists p, d'. split; [|cbn; repeat split; auto].
    apply accept_iff_rules. split; [exact Hsize|]. exists m'. split; [exact Hparse|].
    exists "update". split; [exact Ft|]. right. left. split; [reflexivity|].
    exists (ui_suffix i), (ui_reveal i), sd, (Some d'), j, pm, (Some (ui_key i)), dh0, f, u.
    split. { unfold common_rule. rewrite Ft, Fs, Fr, Fd. repeat split; auto; try discriminate; try apply Hrv. apply compact_nonempty. intros ->. cbn in Hph. discriminate. }
    split. { rewrite Exd. exact Dd. }
    split; [exact Hsdr|].
    split; [exact Hpo|]. split; [exact Dk|]. split; [exact Ddh|]. split; [exact Df|]. split; [exact Du|].
    split; [exact Hskr|]. split; [exact Hhr|].
    split; [exact Htime|].
    split.
    { exists d'. split; [reflexivity|]. split.
      - cbn [d_patches d']. rewrite Eps in Fps. inversion Fps; discriminate.
      - split; [|split].
        + cbn [d_patches d']. apply Forall_forall. intros q Iq.
          assert (exists q0, In q0 (ui_patches i) /\ jequiv q0 q) as [q0 [I0 E0]].
          { clear - Fps Iq. induction Fps as [|x y l l' Exy F IH]; [destruct Iq|]. destruct Iq as [<-|Iq]; [exists x; split; [now left|exact Exy]|].
            destruct (IH Iq) as [q0 [I0 E0]]. exists q0. split; [now right|exact E0]. }
          exact (Hvalid q0 q I0 E0).
        + split; [exact Hluc|exists (ui_code i); auto].
        + destruct (jcs (img_delta d0)) as [c|] eqn:Ec.
          * exists c. split; [rewrite <- (jcs_canonical _ _ Edl); exact Ec|apply Hdsize; reflexivity].
          * unfold calc_mh, calc_model_mh in Edh. rewrite Ec in Edh. discriminate. }
    split.
    { exists (ui_key i), d'. split; [reflexivity|]. split; [reflexivity|]. unfold validate_commitment. cbn [d_update_c d'].
      rewrite Hcuc, Ecur. apply String.eqb_neq in Hcur. now rewrite Hcur. }
    split; [exact Hreveal|]. reflexivity.
  Qed.
End Accepted.
