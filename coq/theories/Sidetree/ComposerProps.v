(* C10: per-action semantics of the composer and preservation of id uniqueness over any list
   of validated patches (uses the C11 frame theorem for the ietf-json-patch action). *)
From Coq Require Import ZArith String List Bool Ascii Lia.
From Sidetree Require Import Json.Json Sidetree.JsonPatch Sidetree.Composer Sidetree.Validator Sidetree.Frame.
Import ListNotations.
Open Scope string_scope.

Definition ids_of (member : string) (doc : obj) : list string :=
  map entry_id (parse_objects (lookup member doc)).

Definition ids_unique (doc : obj) : bool :=
  nodup_str (ids_of "publicKey" doc) && nodup_str (ids_of "service" doc).

(* ---- lists ---- *)

Arguments mem_str : simpl never.

Lemma mem_str_app x a b : mem_str x (a ++ b) = mem_str x a || mem_str x b.
Proof. unfold mem_str. apply existsb_app. Qed.

Lemma mem_str_filter x p l : mem_str x (filter p l) = true -> mem_str x l = true /\ p x = true.
Proof.
  induction l as [|y l IH]; cbn [filter]; [discriminate|].
  rewrite (mem_str_cons x y l).
  destruct (p y) eqn:Py.
  - rewrite mem_str_cons. destruct (String.eqb_spec x y) as [->|N]; cbn [orb]; [auto|exact IH].
  - intros H. destruct (IH H) as [H1 H2]. rewrite H1, orb_true_r. auto.
Qed.

Lemma nodup_filter p l : nodup_str l = true -> nodup_str (filter p l) = true.
Proof.
  induction l as [|x l IH]; cbn; [reflexivity|]. intros H. apply andb_prop in H. destruct H as [Hx Hl].
  destruct (p x); cbn; [|auto]. rewrite IH by assumption. rewrite andb_true_r.
  apply negb_true_iff. apply negb_true_iff in Hx.
  destruct (mem_str x (filter p l)) eqn:E; [|reflexivity]. apply mem_str_filter in E. destruct E. congruence.
Qed.

Lemma nodup_app_filter a b :
  nodup_str a = true -> nodup_str b = true ->
  nodup_str (a ++ filter (fun i => negb (mem_str i a)) b) = true.
Proof.
  intros Ha Hb. induction a as [|x a IH] in Ha |- *.
  - cbn. apply nodup_filter. exact Hb.
  - cbn in Ha. apply andb_prop in Ha. destruct Ha as [Hx Ha]. cbn [app nodup_str].
    apply andb_true_intro. split.
    + apply negb_true_iff. rewrite mem_str_app. apply negb_true_iff in Hx. rewrite Hx. cbn.
      destruct (mem_str x (filter _ b)) eqn:E; [|reflexivity].
      apply mem_str_filter in E. destruct E as [_ E]. rewrite mem_str_cons, String.eqb_refl in E. discriminate.
    + (* the filter against (x :: a) is a sub-filter of the filter against a *)
      assert (F : filter (fun i => negb (mem_str i (x :: a))) b =
                  filter (fun i => negb (String.eqb i x)) (filter (fun i => negb (mem_str i a)) b)).
      { clear. induction b as [|y b IHb]; cbn [filter]; [reflexivity|].
        rewrite (mem_str_cons y x a).
        destruct (String.eqb y x) eqn:E1; destruct (mem_str y a) eqn:E2; cbn [orb negb filter]; rewrite ?E1; cbn [negb];
          rewrite IHb; reflexivity. }
      rewrite F.
      specialize (IH Ha).
      (* NoDup (a ++ l) -> NoDup (a ++ filter q l) *)
      revert IH. generalize (filter (fun i => negb (mem_str i a)) b) as l. clear.
      intros l. induction a as [|z a IHa]; cbn.
      * apply nodup_filter.
      * intros H. apply andb_prop in H. destruct H as [Hz H]. rewrite IHa by assumption. rewrite andb_true_r.
        apply negb_true_iff. apply negb_true_iff in Hz. rewrite mem_str_app in *.
        apply orb_false_elim in Hz. destruct Hz as [Hz1 Hz2]. rewrite Hz1. cbn.
        destruct (mem_str z (filter _ l)) eqn:E; [|reflexivity]. apply mem_str_filter in E. destruct E. congruence.
Qed.

(* ---- per-action semantics ---- *)

Lemma replace_by_id_ids l e : map entry_id (replace_by_id l e) = map entry_id l.
Proof.
  unfold replace_by_id. rewrite map_map. apply map_ext_in. intros x _.
  destruct (String.eqb_spec (entry_id x) (entry_id e)); congruence.
Qed.

(* add-*: existing order kept, entries with a known id replaced in place, new ones appended *)
Lemma add_entries_ids existing added :
  map entry_id (add_entries existing added) =
  (map entry_id existing ++ filter (fun i => negb (mem_str i (map entry_id existing))) (map entry_id added))%list.
Proof.
  unfold add_entries.
  set (ids := map entry_id existing).
  assert (H : forall added acc extra,
      map entry_id acc = (ids ++ extra)%list ->
      map entry_id (fold_left (fun acc e => if mem_str (entry_id e) ids then replace_by_id acc e else (acc ++ [e])%list) added acc)
      = (ids ++ extra ++ filter (fun i => negb (mem_str i ids)) (map entry_id added))%list).
  { clear added. induction added as [|e added IH]; intros acc extra Hacc; cbn [fold_left map filter].
    - now rewrite app_nil_r.
    - destruct (mem_str (entry_id e) ids) eqn:M; cbn [negb].
      + apply IH. now rewrite replace_by_id_ids.
      + rewrite (IH (acc ++ [e])%list (extra ++ [entry_id e])%list).
        * now rewrite <- app_assoc.
        * rewrite map_app, Hacc. cbn [map]. now rewrite <- app_assoc. }
  specialize (H added existing []). rewrite app_nil_r in H. specialize (H eq_refl). exact H.
Qed.

Lemma add_entries_unique existing added :
  nodup_str (map entry_id existing) = true -> nodup_str (map entry_id added) = true ->
  nodup_str (map entry_id (add_entries existing added)) = true.
Proof. intros. rewrite add_entries_ids. now apply nodup_app_filter. Qed.

(* remove-*: filter by id; unknown ids are ignored *)
Lemma remove_entries_ids existing ids :
  map entry_id (remove_entries existing ids) = filter (fun i => negb (mem_str i ids)) (map entry_id existing).
Proof.
  unfold remove_entries. induction existing as [|e l IH]; cbn; [reflexivity|].
  destruct (mem_str (entry_id e) ids); cbn; congruence.
Qed.

Lemma remove_entries_unknown existing ids :
  (forall e, In e existing -> mem_str (entry_id e) ids = false) -> remove_entries existing ids = existing.
Proof.
  intros H. unfold remove_entries. induction existing as [|e l IH]; cbn; [reflexivity|].
  rewrite (H e (or_introl eq_refl)). cbn. f_equal. apply IH. intros x Hx. apply H. now right.
Qed.

Lemma parse_objects_arr_or_null l : parse_objects (Some (arr_or_null (map JObj l))) = l.
Proof.
  destruct l as [|x l]; [reflexivity|]. cbn [arr_or_null map]. unfold parse_objects.
  cbn. f_equal. induction l as [|y l IH]; cbn; congruence.
Qed.

Lemma ids_of_set_same member doc l : ids_of member (set_key member (arr_or_null (map JObj l)) doc) = map entry_id l.
Proof. unfold ids_of. now rewrite lookup_set_same, parse_objects_arr_or_null. Qed.

Lemma ids_of_set_other member k v doc : k <> member -> ids_of member (set_key k v doc) = ids_of member doc.
Proof. intros N. unfold ids_of. now rewrite lookup_set_other. Qed.

(* ---- uniqueness is preserved by every validated patch ---- *)

Section Unique.
  Variable uri_ok : string -> bool.
  Variable url_norm : string -> option string.

  Lemma keys_ok_nodup ks : validate_public_keys [] ks = true -> nodup_str (map entry_id ks) = true.
  Proof. rewrite validate_public_keys_iff. unfold keys_ok. intros H. apply andb_prop in H. tauto. Qed.

  Lemma services_ok_nodup ss : validate_services uri_ok [] ss = true -> nodup_str (map entry_id ss) = true.
  Proof. rewrite validate_services_iff. unfold services_ok. intros H. apply andb_prop in H. tauto. Qed.

  Theorem patch_preserves_unique_ids doc p doc' :
    ids_unique doc = true -> validate_patch uri_ok url_norm p = true -> apply_patch doc p = Some doc' ->
    ids_unique doc' = true.
  Proof.
    intros Hu Hv Ha. destruct p as [| | | | |pm]; try discriminate.
    destruct (get_action pm) as [a|] eqn:Ea; [|cbn in Ha; rewrite Ea in Ha; discriminate].
    destruct a.
    - (* replace *)
      unfold validate_patch in Hv. unfold apply_patch in Ha. rewrite Ea in Hv, Ha.
      destruct (get_value pm) as [v|]; [|discriminate].
      destruct v as [| | | | |m]; try discriminate.
      apply andb_prop in Hv. destruct Hv as [Hv Hs]. apply andb_prop in Hv. destruct Hv as [_ Hk].
      cbn in Ha. injection Ha as <-. unfold ids_unique, ids_of. cbn.
      apply andb_true_intro. split.
      + destruct (lookup "publicKeys" m); cbn; [apply keys_ok_nodup; exact Hk|reflexivity].
      + destruct (lookup "services" m); cbn; [apply services_ok_nodup; exact Hs|reflexivity].
    - (* add-public-keys *)
      unfold validate_patch in Hv. unfold apply_patch in Ha. rewrite Ea in Hv, Ha.
      destruct (get_value pm) as [v|]; [|discriminate].
      destruct (required_array v); [|discriminate]. injection Ha as <-.
      unfold ids_unique in *. apply andb_prop in Hu. destruct Hu as [Hk Hs].
      unfold apply_add_entries. rewrite ids_of_set_same, ids_of_set_other by discriminate.
      rewrite Hs, andb_true_r. apply add_entries_unique; [exact Hk|apply keys_ok_nodup; exact Hv].
    - (* remove-public-keys *)
      unfold apply_patch in Ha. rewrite Ea in Ha. destruct (get_value pm) as [v|]; [|discriminate].
      injection Ha as <-. unfold ids_unique in *. apply andb_prop in Hu. destruct Hu as [Hk Hs].
      unfold apply_remove_entries. rewrite ids_of_set_same, ids_of_set_other by discriminate.
      rewrite Hs, andb_true_r, remove_entries_ids. apply nodup_filter. exact Hk.
    - (* add-services *)
      unfold validate_patch in Hv. unfold apply_patch in Ha. rewrite Ea in Hv, Ha.
      destruct (get_value pm) as [v|]; [|discriminate].
      destruct (required_array v); [|discriminate]. injection Ha as <-.
      unfold ids_unique in *. apply andb_prop in Hu. destruct Hu as [Hk Hs].
      unfold apply_add_entries. rewrite ids_of_set_same, ids_of_set_other by discriminate.
      rewrite Hk. cbn [andb]. apply add_entries_unique; [exact Hs|apply services_ok_nodup; exact Hv].
    - (* remove-services *)
      unfold apply_patch in Ha. rewrite Ea in Ha. destruct (get_value pm) as [v|]; [|discriminate].
      injection Ha as <-. unfold ids_unique in *. apply andb_prop in Hu. destruct Hu as [Hk Hs].
      unfold apply_remove_entries. rewrite ids_of_set_same, ids_of_set_other by discriminate.
      rewrite Hk. cbn [andb]. rewrite remove_entries_ids. apply nodup_filter. exact Hs.
    - (* ietf-json-patch: the C11 frame theorem *)
      assert (P : protected_same doc doc').
      { eapply (ietf_frame uri_ok url_norm doc (JObj pm)); [exact Ea|exact Hv|exact Ha]. }
      destruct P as [P1 P2]. unfold ids_unique, ids_of in *. now rewrite P1, P2.
    - (* add-also-known-as *)
      unfold apply_patch in Ha. rewrite Ea in Ha. destruct (get_value pm) as [v|]; [|discriminate].
      injection Ha as <-. unfold ids_unique in *. unfold apply_add_aka.
      rewrite !ids_of_set_other by discriminate. exact Hu.
    - (* remove-also-known-as *)
      unfold apply_patch in Ha. rewrite Ea in Ha. destruct (get_value pm) as [v|]; [|discriminate].
      injection Ha as <-. unfold ids_unique in *. unfold apply_remove_aka.
      rewrite !ids_of_set_other by discriminate. exact Hu.
  Qed.

  (* over any list of validated patches: induction over the unbounded list *)
  Theorem unique_ids_preserved ps : forall doc doc',
    ids_unique doc = true -> forallb (validate_patch uri_ok url_norm) ps = true ->
    apply_patches doc ps = Some doc' -> ids_unique doc' = true.
  Proof.
    induction ps as [|p ps IH]; intros doc doc' Hu Hv Ha; cbn in *.
    - injection Ha as <-. exact Hu.
    - apply andb_prop in Hv. destruct Hv as [Hp Hps].
      destruct (apply_patch doc p) as [d|] eqn:E; [|discriminate].
      eapply IH; [|exact Hps|exact Ha]. eapply patch_preserves_unique_ids; eassumption.
  Qed.
End Unique.

(* replace discards the whole document and installs exactly the given keys and services *)
Lemma replace_installs_exactly m :
  apply_replace (JObj m) = Some [("publicKey", node (lookup "publicKeys" m)); ("service", node (lookup "services" m))].
Proof. reflexivity. Qed.

(* also-known-as: ordered union and difference *)
Lemma add_aka_spec doc uris :
  string_array (lookup "alsoKnownAs" (apply_add_aka doc (JArr (map JStr uris)))) =
  let existing := string_array (lookup "alsoKnownAs" doc) in
  fold_left (fun acc u => if mem_str u existing then acc else (acc ++ [u])%list) uris existing.
Proof.
  unfold apply_add_aka. rewrite lookup_set_same.
  assert (S : string_array (Some (JArr (map JStr uris))) = uris).
  { unfold string_array. induction uris; cbn; congruence. }
  rewrite S. cbn zeta.
  generalize (fold_left (fun acc u => if mem_str u (string_array (lookup "alsoKnownAs" doc)) then acc else (acc ++ [u])%list)
                        uris (string_array (lookup "alsoKnownAs" doc))) as l.
  intros l. destruct l as [|x l]; [reflexivity|]. cbn [arr_or_null map]. unfold string_array. cbn.
  f_equal. induction l; cbn; congruence.
Qed.

Lemma remove_aka_spec doc uris :
  string_array (lookup "alsoKnownAs" (apply_remove_aka doc (JArr (map JStr uris)))) =
  filter (fun u => negb (mem_str u uris)) (string_array (lookup "alsoKnownAs" doc)).
Proof.
  unfold apply_remove_aka. rewrite lookup_set_same.
  assert (S : string_array (Some (JArr (map JStr uris))) = uris).
  { unfold string_array. induction uris; cbn; congruence. }
  rewrite S.
  generalize (filter (fun u => negb (mem_str u uris)) (string_array (lookup "alsoKnownAs" doc))) as l.
  intros l. destruct l as [|x l]; [reflexivity|]. cbn [arr_or_null map]. unfold string_array. cbn.
  f_equal. induction l; cbn; congruence.
Qed.
