(* C12: the outcome of an accepted operation whose patch list does not apply holds no partial
   document - an update keeps the previous document, a create or recover has the empty document
   - and an accepted operation either installs the composer's whole result or none of it. *)
From Coq Require Import ZArith NArith String List Bool.
From Sidetree Require Import Json.Json Sidetree.Protocol Sidetree.Window Sidetree.Composer Sidetree.Applier.
Import ListNotations.

Section Atomic.
  Variable cfg : protocol.
  Variable compose : obj -> list json -> option obj.

  Lemma degraded_create_empty a rm rm' :
    a_type a = TCreate -> compose [] (v_patches (a_view a)) = None ->
    apply cfg compose a rm = Some rm' -> rm_doc rm' = Some [].
  Proof.
    intros Ht Hc. rewrite apply_refines_spec. unfold spec_apply.
    destruct (accepted cfg a rm); [|discriminate]. intros E; injection E as <-.
    unfold spec_state, spec_doc; cbn. rewrite Ht, Hc. destruct (delta_usable _); reflexivity.
  Qed.

  Lemma degraded_recover_empty a rm rm' :
    a_type a = TRecover -> compose [] (v_patches (a_view a)) = None ->
    apply cfg compose a rm = Some rm' -> rm_doc rm' = Some [].
  Proof.
    intros Ht Hc. rewrite apply_refines_spec. unfold spec_apply.
    destruct (accepted cfg a rm); [|discriminate]. intros E; injection E as <-.
    unfold spec_state, spec_doc; cbn. rewrite Ht, Hc. destruct (andb _ _); reflexivity.
  Qed.

  (* all or nothing: the document of the new state is the composer's whole result for the operation's
     patch list, the previous document (update), or the empty document (create / recover / deactivate) *)
  Theorem document_all_or_nothing a rm rm' :
    apply cfg compose a rm = Some rm' ->
    match a_type a with
    | TUpdate => exists doc, rm_doc rm = Some doc /\
                   (rm_doc rm' = Some doc \/ exists d, compose doc (v_patches (a_view a)) = Some d /\ rm_doc rm' = Some d)
    | TCreate | TRecover => rm_doc rm' = Some [] \/ exists d, compose [] (v_patches (a_view a)) = Some d /\ rm_doc rm' = Some d
    | TDeactivate => rm_doc rm' = Some []
    | TOther => False
    end.
  Proof.
    rewrite apply_refines_spec. unfold spec_apply. destruct (accepted cfg a rm) eqn:Acc; [|discriminate].
    intros E; injection E as <-. unfold spec_state, spec_doc; cbn. unfold accepted in Acc.
    destruct (a_type a); cbn in *.
    - clear Acc. destruct (delta_usable (a_view a)); [|left; reflexivity]. destruct (compose [] _) as [d|] eqn:Ec; [right; exists d; split; reflexivity|left; reflexivity].
    - destruct (rm_doc rm) as [doc|]; [|discriminate]. exists doc. split; [reflexivity|].
      destruct (in_win _ _ _); [|left; reflexivity]. destruct (compose doc _) as [d|] eqn:Ec; [right; exists d; split; reflexivity|left; reflexivity].
    - clear Acc. destruct (delta_usable (a_view a) && in_win cfg (a_view a) (a_time a)); [|left; reflexivity]. destruct (compose [] _) as [d|] eqn:Ec; [right; exists d; split; reflexivity|left; reflexivity].
    - reflexivity.
    - discriminate.
  Qed.
End Atomic.
