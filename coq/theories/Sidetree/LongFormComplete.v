(* C17, completeness: the long-form DID made of a namespace, the suffix and the base64url of a
   create request built by the create builder resolves - to whatever the create response for
   that request is (create_response: apply + transform), with nothing else in the way. *)
From Coq Require Import ZArith NArith Arith String Ascii List Bool Lia.
From Sidetree Require Import Base.Sha2 Base.Base64url Json.Json Json.Jcs Json.Parse Json.JcsProps Json.JcsRoundTrip Json.TransformIdem
     Sidetree.Protocol Sidetree.JsonPatch Sidetree.Composer Sidetree.Validator Sidetree.Hashing Sidetree.Parser Sidetree.Applier
     Sidetree.Resolve Sidetree.Transformer Sidetree.Frame Sidetree.Rules Sidetree.JequivDecode Sidetree.ClientCreate Sidetree.LongForm.
Import ListNotations.
Open Scope string_scope.

(* ---- strings ---- *)

Fixpoint count_char (c : ascii) (s : string) : nat :=
  match s with EmptyString => 0 | String a r => (if Ascii.eqb a c then 1 else 0) + count_char c r end.

Lemma count_char_app c a b : count_char c (a ++ b) = (count_char c a + count_char c b)%nat.
Proof. induction a as [|x a IH]; cbn; [reflexivity|]. rewrite IH. lia. Qed.

Lemma is_prefix_count c p : forall t, is_prefix p t = true -> (count_char c p <= count_char c t)%nat.
Proof.
  induction p as [|x p IH]; intros t H; cbn; [lia|]. destruct t as [|y t]; [discriminate|]. cbn in H.
  apply andb_prop in H as [E H]. apply Ascii.eqb_eq in E. subst y. cbn. specialize (IH t H). lia.
Qed.

Lemma is_prefix_app p t : is_prefix p (p ++ t) = true.
Proof. induction p as [|x p IH]; cbn; [reflexivity|]. now rewrite Ascii.eqb_refl, IH. Qed.

Lemma substring_app a b : substring (String.length a) (String.length (a ++ b) - String.length a) (a ++ b) = b.
Proof.
  induction a as [|x a IH]; cbn [append String.length substring].
  - rewrite Nat.sub_0_r. induction b as [|y b IHb]; cbn; [reflexivity|]. now rewrite IHb.
  - exact IH.
Qed.

(* nothing to remove when the pattern has more of some character than the string *)
Lemma remove_all_none c old : forall s fuel, (count_char c s < count_char c old)%nat -> remove_all fuel old s = s.
Proof.
  induction s as [|x s IH]; intros fuel H; destruct fuel as [|f]; cbn [remove_all]; try reflexivity.
  destruct (is_prefix old (String x s)) eqn:E.
  - apply (is_prefix_count c) in E. lia.
  - f_equal. apply IH. cbn in H. lia.
Qed.

Lemma contains_char_count c s : (0 < count_char c s)%nat -> contains_char c s = true.
Proof.
  induction s as [|x s IH]; cbn; [lia|]. destruct (Ascii.eqb x c); [reflexivity|]. cbn. intros H. apply IH. lia.
Qed.

Lemma split_on_app_sep sep a : forall acc b,
  split_on sep acc (a ++ String sep b) = (removelast (split_on sep acc a) ++ [last (split_on sep acc a) ""] ++ split_on sep "" b)%list.
Proof.
  induction a as [|x a IH]; intros acc b; cbn [append split_on].
  - rewrite Ascii.eqb_refl. reflexivity.
  - destruct (Ascii.eqb x sep).
    + rewrite IH. cbn [removelast last app]. pose proof (split_on_nonempty sep a "") as Hn.
      destruct (split_on sep "" a) as [|h t] eqn:Es; [congruence|]. reflexivity.
    + apply IH.
Qed.

Lemma split_on_concat sep a acc b : split_on sep acc (a ++ String sep b) = (split_on sep acc a ++ split_on sep "" b)%list.
Proof.
  rewrite split_on_app_sep. pose proof (split_on_nonempty sep a acc) as Hn.
  rewrite (app_removelast_last "" Hn) at 3. now rewrite <- app_assoc.
Qed.

Lemma split_on_nosep sep s : forall acc, count_char sep s = 0%nat -> split_on sep acc s = [acc ++ s].
Proof.
  induction s as [|x s IH]; intros acc H; cbn [split_on].
  - f_equal. induction acc; cbn; congruence.
  - cbn in H. destruct (Ascii.eqb x sep); [lia|]. rewrite IH by lia. f_equal. clear. induction acc; cbn; congruence.
Qed.

Lemma join_split sep s : forall acc, join (String sep "") (split_on sep acc s) = acc ++ s.
Proof.
  induction s as [|x s IH]; intros acc; cbn [split_on].
  - cbn [join]. clear. induction acc; cbn; congruence.
  - destruct (Ascii.eqb_spec x sep) as [->|N].
    + pose proof (split_on_nonempty sep s "") as Hn. destruct (split_on sep "" s) as [|h t] eqn:Es; [congruence|].
      change (join (String sep "") (acc :: h :: t)) with (acc ++ String sep "" ++ join (String sep "") (h :: t)).
      rewrite <- Es, IH. reflexivity.
    + rewrite IH. clear. induction acc; cbn; congruence.
Qed.

(* ---- the built create request, re-read ---- *)

Lemma create_bytes_decode sd0 d0 bytes :
  jcs (JObj (create_members "create" sd0 d0)) = Some bytes ->
  wfnum (sd_origin sd0) -> Forall is_obj (d_patches d0) -> Forall wfnum (d_patches d0) ->
  exists m' o' ps',
    parse_json bytes = Some (JObj m') /\
    dec_string (field "type" m') = Some "create" /\
    dec_suffix_data (field "suffixData" m') =
      Some (Some {| sd_delta_hash := sd_delta_hash sd0; sd_recovery_c := sd_recovery_c sd0; sd_origin := o'; sd_type := sd_type sd0 |}) /\
    dec_delta (field "delta" m') = Some (Some {| d_update_c := d_update_c d0; d_patches := ps' |}) /\
    jequiv (sd_origin sd0) o' /\ Forall2 jequiv (d_patches d0) ps'.
Proof.
  intros Ej Hwo Hobj Hwf.
  assert (Wreq : wfnum (JObj (create_members "create" sd0 d0))).
  { constructor. unfold create_members, opt_member. cbn [String.eqb Ascii.eqb Bool.eqb app].
    constructor; [exact (W_str "create")|]. constructor; [exact (wfnum_img_sd sd0 Hwo)|].
    constructor; [exact (wfnum_img_delta d0 Hwf)|constructor]. }
  destruct (jcs_parse_roundtrip _ _ Ej Wreq) as [v' [Hparse [Ev' _]]].
  pose proof (create_members_nodup "create" sd0 d0) as ND.
  destruct (field_jequiv "type" _ _ ND Ev') as [m' [-> _]].
  destruct (create_fields "create" sd0 d0) as [Ft [Fs Fd]].
  assert (Ht : dec_string (field "type" m') = Some "create").
  { rewrite <- (dec_string_respects _ _ (field_opt_jequiv "type" _ _ ND Ev')). exact Ft. }
  pose proof (field_opt_jequiv "suffixData" _ _ ND Ev') as Hs. rewrite Fs in Hs. unfold opt_jequiv in Hs.
  destruct (field "suffixData" m') as [xs|] eqn:Exs; [|contradiction].
  pose proof (field_opt_jequiv "delta" _ _ ND Ev') as Hd. rewrite Fd in Hd. unfold opt_jequiv in Hd.
  destruct (field "delta" m') as [xd|] eqn:Exd; [|contradiction].
  destruct (dec_suffix_data_jequiv sd0 xs Hwo Hs) as [o' [Dsd [Eo Wo']]].
  destruct (dec_delta_jequiv d0 xd Hobj Hwf Hd) as [ps' [Dd [Fps _]]].
  exists m', o', ps'. split; [exact Hparse|]. split; [exact Ht|]. split; [rewrite Exs; exact Dsd|]. split; [rewrite Exd; exact Dd|]. split; [exact Eo|exact Fps].
Qed.

(* ---- parseInitialState on the builder's bytes ---- *)

Lemma img_create_request_members sd d : img_create_request "create" (Some sd) (Some d) = JObj (create_members "create" sd d).
Proof. reflexivity. Qed.

Lemma parse_initial_state_built sd0 d0 bytes :
  jcs (JObj (create_members "create" sd0 d0)) = Some bytes ->
  wfnum (sd_origin sd0) -> Forall is_obj (d_patches d0) -> Forall wfnum (d_patches d0) ->
  parse_initial_state (b64_encode bytes) = Some bytes.
Proof.
  intros Ej Hwo Hobj Hwf.
  destruct (create_bytes_decode sd0 d0 bytes Ej Hwo Hobj Hwf) as [m' [o' [ps' [Hp [Ht [Hs [Hd [Eo Fps]]]]]]]].
  unfold parse_initial_state. rewrite b64_decode_encode, Hp, Ht, Hs, Hd.
  set (sd' := {| sd_delta_hash := sd_delta_hash sd0; sd_recovery_c := sd_recovery_c sd0; sd_origin := o'; sd_type := sd_type sd0 |}).
  set (d' := {| d_update_c := d_update_c d0; d_patches := ps' |}).
  assert (Ej' : jcs (img_create_request "create" (Some sd') (Some d')) = Some bytes).
  { rewrite img_create_request_members. rewrite <- Ej. symmetry. apply jcs_canonical.
    unfold create_members, opt_member. cbn [String.eqb Ascii.eqb Bool.eqb app]. apply jequiv_obj_pointwise.
    constructor; [apply same_members_refl|]. constructor.
    - split; [reflexivity|]. cbn [snd]. destruct sd0 as [dh rc o ty]. apply img_sd_jequiv. exact Eo.
    - constructor; [|constructor]. split; [reflexivity|]. cbn [snd]. destruct d0 as [uc ps]. apply img_delta_jequiv. exact Fps. }
  rewrite Ej'. rewrite String.eqb_refl. cbn [negb]. cbn [String.eqb Ascii.eqb Bool.eqb orb negb]. reflexivity.
Qed.

(* ---- more strings ---- *)

Lemma split_on_length sep s : forall acc, length (split_on sep acc s) = S (count_char sep s).
Proof.
  induction s as [|x s IH]; intros acc; cbn [split_on count_char]; [reflexivity|].
  destruct (Ascii.eqb x sep); cbn [length]; rewrite IH; reflexivity.
Qed.

Lemma b64_char_not_colon n : (b64_char n <> 58)%N.
Proof.
  unfold b64_char. destruct (n <? 26)%N eqn:A; [apply N.ltb_lt in A; lia|]. apply N.ltb_ge in A.
  destruct (n <? 52)%N eqn:B; [apply N.ltb_lt in B; lia|]. apply N.ltb_ge in B.
  destruct (n <? 62)%N eqn:C; [apply N.ltb_lt in C; lia|]. destruct (n =? 62)%N; lia.
Qed.

Lemma b64_encode_no_colon s : count_char ":" (b64_encode s) = 0%nat.
Proof.
  unfold b64_encode. rewrite encode_is_map. induction (sextets (bytes_of_string s)) as [|n l IH]; [reflexivity|].
  cbn [map string_of_bytes]. unfold string_of_bytes in *. cbn [map string_of_list_ascii count_char]. rewrite IH.
  destruct (Ascii.eqb_spec (ascii_of_N (b64_char n)) ":") as [E|]; [|reflexivity].
  exfalso. apply (f_equal N_of_ascii) in E. rewrite N_ascii_embedding in E by apply b64_char_byte. now apply (b64_char_not_colon n).
Qed.

Lemma remove_all_prefix f old rest : old <> "" -> remove_all (S f) old (old ++ rest) = remove_all f old rest.
Proof.
  intros Hne. destruct old as [|c o]; [congruence|]. cbn [append remove_all].
  change (String c (o ++ rest)) with (String c o ++ rest). rewrite is_prefix_app, substring_app. reflexivity.
Qed.

Lemma app_assoc_str a b c : (a ++ b) ++ c = a ++ (b ++ c).
Proof. induction a as [|x a IH]; cbn; congruence. Qed.

Section Complete.
  Variable uri_ok : string -> bool.
  Variable url_norm : string -> option string.

  Theorem built_longform_did_resolves i bytes sd d ns sfx :
    build_create i = Some (bytes, sd, d) -> ci_code i = 18%N ->
    calc_mh (img_suffix_data sd) 18 = Some sfx ->
    (1 <= count_char ":" ns)%nat ->                     (* a namespace is "did:<method>[:...]" *)
    (* the request obeys the long-form protocol's limits and is made of valid patches *)
    (Z.of_nat (String.length bytes) <= P_MaxOperationSize longform_protocol)%Z ->
    (Z.of_nat (String.length (ci_recovery_c i)) <= P_MaxOperationHashLength longform_protocol)%Z ->
    (Z.of_nat (String.length (ci_update_c i)) <= P_MaxOperationHashLength longform_protocol)%Z ->
    (Z.of_nat (String.length (sd_delta_hash sd)) <= P_MaxOperationHashLength longform_protocol)%Z ->
    (forall c, jcs (img_delta d) = Some c -> (Z.of_nat (String.length c) <= P_MaxDeltaSize longform_protocol)%Z) ->
    Forall is_obj (ci_patches i) -> Forall wfnum (ci_patches i) -> wfnum (ci_origin i) ->
    (forall p p', In p (ci_patches i) -> jequiv p p' ->
                  patch_enabled longform_protocol p' = true /\ validate_patch uri_ok url_norm p' = true) ->
    resolve uri_ok url_norm ns (ns ++ ":" ++ sfx ++ ":" ++ b64_encode bytes) =
    create_response uri_ok url_norm ns sfx (b64_encode bytes) bytes.
  Proof.
    intros Hb Hc18 Hsfx Hns Hsize Hlrc Hluc Hldh Hdsize Hobj Hwf Hwo Hvalid.
    (* acceptance by the long-form parser *)
    destruct (create_built_accepted longform_protocol uri_ok url_norm (fun _ => true) (fun _ _ => true) i bytes sd d 18%N [] Hb
                eq_refl (or_introl eq_refl) ltac:(rewrite Hc18; now left) Hsize Hlrc Hluc Hldh Hdsize Hobj Hwf Hwo (fun _ _ => eq_refl) Hvalid)
      as [p [d' [Hparse [Hty [Hps _]]]]].
    rewrite Hsfx in Hps. injection Hps as Hps.
    (* the pieces of the builder's output *)
    assert (Hjcs : exists sd0 d0, jcs (JObj (create_members "create" sd0 d0)) = Some bytes /\ wfnum (sd_origin sd0) /\
                                  Forall is_obj (d_patches d0) /\ Forall wfnum (d_patches d0)).
    { unfold build_create in Hb. destruct (ci_patches i) eqn:Eps; [discriminate|]. rewrite <- Eps in *.
      destruct (negb _); [discriminate|]. destruct (negb _); [discriminate|]. destruct (String.eqb _ _); [discriminate|].
      destruct (calc_mh _ _) as [dh|]; [|discriminate].
      match type of Hb with context [jcs (JObj (create_members "create" ?s ?dd))] => destruct (jcs (JObj (create_members "create" s dd))) as [bs|] eqn:Ej; [|discriminate];
        injection Hb as <- _ _; exists s, dd; repeat split; auto end. }
    destruct Hjcs as [sd0 [d0 [Ej [W1 [W2 W3]]]]].
    pose proof (parse_initial_state_built sd0 d0 bytes Ej W1 W2 W3) as Hpis.
    (* sfx and the initial state are base64url: no colon *)
    assert (Hsc : count_char ":" sfx = 0%nat).
    { unfold calc_mh, calc_model_mh in Hsfx. destruct (jcs (img_suffix_data sd)); [|discriminate].
      destruct (compute_multihash sha256 sha512 18 s) as [e|]; [|discriminate]. cbn in Hsfx. injection Hsfx as <-. apply b64_encode_no_colon. }
    set (state := b64_encode bytes). assert (Hst : count_char ":" state = 0%nat) by apply b64_encode_no_colon.
    set (pre := ns ++ ":" ++ sfx).
    assert (Edid : ns ++ ":" ++ sfx ++ ":" ++ state = pre ++ String ":" state).
    { unfold pre. now rewrite !app_assoc_str. }
    assert (Edid2 : ns ++ ":" ++ sfx ++ ":" ++ state = (ns ++ ":") ++ (sfx ++ ":" ++ state)) by now rewrite app_assoc_str.
    unfold resolve.
    (* 1. the namespace gate *)
    rewrite Edid2 at 1. rewrite is_prefix_app. cbn [negb].
    (* 2. something is left after the namespace: not a short-form DID *)
    assert (Hrem : contains_char ":" (remove_all (String.length (ns ++ ":" ++ sfx ++ ":" ++ state) + 1) (ns ++ ":") (ns ++ ":" ++ sfx ++ ":" ++ state)) = true).
    { rewrite Edid2. rewrite Nat.add_1_r, remove_all_prefix by (destruct ns; discriminate).
      rewrite (remove_all_none ":").
      - apply contains_char_count. rewrite count_char_app. cbn. lia.
      - rewrite !count_char_app, Hsc. cbn [count_char append]. fold state. rewrite Hst. cbn. lia. }
    rewrite Hrem. cbn [negb].
    (* 3. suffix and initial state *)
    assert (Hsplit : split_last_colon (ns ++ ":" ++ sfx ++ ":" ++ state) = Some (pre, state)).
    { unfold split_last_colon. rewrite Edid, split_on_concat, (split_on_nosep ":" state "" Hst). cbn [append].
      rewrite rev_app_distr. cbn [rev app]. pose proof (split_on_nonempty ":"%char pre "") as Hn.
      destruct (rev (split_on ":" "" pre)) as [|h t] eqn:Er.
      - exfalso. apply Hn. apply (f_equal (@rev string)) in Er. now rewrite rev_involutive in Er.
      - rewrite <- Er, rev_involutive. change ":" with (String ":"%char "") at 1. now rewrite join_split. }
    rewrite Hsplit. fold state in Hpis. rewrite Hpis.
    assert (Hgs : get_suffix pre = Some sfx).
    { unfold get_suffix, pre. change (ns ++ ":" ++ sfx) with (ns ++ String ":" sfx). rewrite split_on_concat, (split_on_nosep ":" sfx "" Hsc). cbn [append].
      rewrite app_length, split_on_length. cbn [length].
      destruct (Nat.ltb_spec (S (count_char ":" ns) + 1) 3) as [H|H]; [lia|]. now rewrite last_last. }
    rewrite Hgs.
    (* 4. the parser accepts the request and reports the same suffix *)
    unfold parse. rewrite Hparse, <- Hps. rewrite String.eqb_refl. cbn [negb]. reflexivity.
  Qed.
End Complete.

(* the premises are satisfiable, and the DID does resolve: computed *)
Example built_longform_did_resolves_example :
  match calc_mh (JStr "next recovery key") 18%N, calc_mh (JStr "next update key") 18%N with
  | Some rc, Some uc =>
    match build_create (ex_info rc uc) with
    | Some (bytes, sd, d) =>
        match calc_mh (img_suffix_data sd) 18%N with
        | Some sfx =>
            match resolve (fun _ => true) (fun s => Some s) "did:ion" ("did:ion" ++ ":" ++ sfx ++ ":" ++ b64_encode bytes) with
            | Some _ => true
            | None => false
            end
        | None => false
        end
    | None => false
    end
  | _, _ => false
  end = true.
Proof. vm_compute. reflexivity. Qed.
