(* Decoding a request that went through canonical bytes: [parse_json (jcs v)] is [v] up to member
   order (JcsRoundTrip), so the field decoders of the parser mirror return, on the re-parsed
   tree, the values they return on the original one (up to member order inside opaque values). *)
From Coq Require Import ZArith NArith String Ascii List Bool Sorting.Permutation Lia.
From Sidetree Require Import Json.Json Json.Jcs Json.Parse Json.JcsProps Json.JcsRoundTrip Json.TransformIdem
     Sidetree.Protocol Sidetree.Hashing Sidetree.Parser.
Import ListNotations.
Open Scope string_scope.

(* ---- inversion of jequiv ---- *)

Lemma jequiv_str_inv s x : jequiv (JStr s) x -> x = JStr s.
Proof. inversion 1; reflexivity. Qed.

Lemma jequiv_null_inv x : jequiv JNull x -> x = JNull.
Proof. inversion 1; reflexivity. Qed.

Lemma jequiv_arr_inv l x : jequiv (JArr l) x -> exists l', x = JArr l' /\ Forall2 jequiv l l'.
Proof. inversion 1; subst; eauto. Qed.

Lemma jequiv_obj_inv m x : jequiv (JObj m) x ->
  exists mp m', x = JObj m' /\ Permutation m mp /\ Forall2 same_members mp m'.
Proof. inversion 1; subst. exists m', m2. auto. Qed.

(* ---- [field] on objects whose names are distinct up to ASCII case ---- *)

Definition fnames (m : obj) : list string := map (fun kv => fold_name (fst kv)) m.

Lemma field_unfold name m : forall acc,
  fold_left (fun (acc : option json) (kv : string * json) => if String.eqb (fold_name (fst kv)) (fold_name name) then Some (snd kv) else acc) m acc =
  match field name m with Some v => Some v | None => acc end.
Proof.
  unfold field. induction m as [|[k v] r IH]; intros acc; cbn [fold_left]; [reflexivity|].
  rewrite IH, (IH (if String.eqb (fold_name (fst (k, v))) (fold_name name) then Some (snd (k, v)) else None)).
  cbn [fst snd]. destruct (fold_left _ r None); [reflexivity|].
  destruct (String.eqb _ _); reflexivity.
Qed.

Lemma field_cons name k v r :
  field name ((k, v) :: r) = match field name r with
                             | Some x => Some x
                             | None => if String.eqb (fold_name k) (fold_name name) then Some v else None
                             end.
Proof. unfold field at 1. cbn [fold_left fst snd]. rewrite field_unfold. reflexivity. Qed.

Lemma field_none name m : field name m = None <-> ~ In (fold_name name) (fnames m).
Proof.
  induction m as [|[k v] r IH]; [cbn; tauto|]. rewrite field_cons. cbn [fnames map fst In]. fold (fnames r).
  destruct (field name r) as [x|].
  - split; [discriminate|]. intros N. exfalso. apply N. right. destruct (in_dec string_dec (fold_name name) (fnames r)); auto.
    assert (H : @None json = None) by reflexivity. apply IH in n. discriminate.
  - destruct (String.eqb_spec (fold_name k) (fold_name name)) as [E|NE].
    + split; [discriminate|]. intros N. exfalso. apply N. now left.
    + split; [|reflexivity]. intros _ [E|I]; [congruence|]. now apply (proj1 IH eq_refl).
Qed.

Lemma field_some name m : NoDup (fnames m) -> forall v,
  (field name m = Some v <-> exists k, In (k, v) m /\ fold_name k = fold_name name).
Proof.
  induction m as [|[k x] r IH]; intros ND v.
  - cbn. split; [discriminate|intros [k [[] _]]].
  - inversion ND as [|? ? Hn NDr]; subst. cbn [fst] in Hn. specialize (IH NDr). rewrite field_cons.
    destruct (field name r) as [y|] eqn:Er.
    + destruct (proj1 (IH y) eq_refl) as [k2 [I2 E2]]. split.
      * intros E. injection E as <-. exists k2. split; [now right|exact E2].
      * intros [k' [[E|I] Ek]].
        -- injection E as <- <-. exfalso. apply Hn. rewrite Ek, <- E2. apply in_map_iff. exists (k2, y). auto.
        -- assert (E : Some y = Some v) by (apply IH; eauto). exact E.
    + apply field_none in Er. destruct (String.eqb_spec (fold_name k) (fold_name name)) as [E|NE].
      * split.
        -- intros H. injection H as <-. exists k. split; [now left|exact E].
        -- intros [k' [[H|I] Ek]]; [now injection H as <- <-|]. exfalso. apply Er. rewrite <- Ek. apply in_map_iff. exists (k', v). auto.
      * split; [discriminate|]. intros [k' [[H|I] Ek]]; [inversion H; subst; congruence|].
        exfalso. apply Er. rewrite <- Ek. apply in_map_iff. exists (k', v). auto.
Qed.

Lemma fnames_perm m mp : Permutation m mp -> Permutation (fnames m) (fnames mp).
Proof. apply Permutation_map. Qed.

Lemma fnames_same mp m' : Forall2 same_members mp m' -> fnames mp = fnames m'.
Proof.
  induction 1 as [|[k v] [k' v'] l l' [E _] F IH]; [reflexivity|]. cbn [fst] in E. subst k'.
  unfold fnames in *. cbn [map fst]. now rewrite IH.
Qed.

(* [field] commutes with re-ordering: same presence, equivalent value *)
Theorem field_jequiv name m x : NoDup (fnames m) -> jequiv (JObj m) x ->
  exists m', x = JObj m' /\ NoDup (fnames m') /\
    match field name m, field name m' with
    | Some v, Some v' => jequiv v v'
    | None, None => True
    | _, _ => False
    end.
Proof.
  intros ND E. destruct (jequiv_obj_inv _ _ E) as [mp [m' [-> [P F]]]]. exists m'.
  assert (NDp : NoDup (fnames mp)) by (eapply Permutation_NoDup; [apply fnames_perm; exact P|exact ND]).
  assert (ND' : NoDup (fnames m')) by (rewrite <- (fnames_same _ _ F); exact NDp).
  split; [reflexivity|]. split; [exact ND'|].
  destruct (field name m) as [v|] eqn:Ef.
  - apply (field_some _ _ ND) in Ef as [k [I Ek]].
    assert (Ip : In (k, v) mp) by (eapply Permutation_in; eauto).
    assert (exists v', In (k, v') m' /\ jequiv v v') as [v' [I' Ev]].
    { clear - F Ip. induction F as [|[a va] [b vb] l l' [Ea Eb] F IH]; [destruct Ip|]. cbn in Ea, Eb. subst b.
      destruct Ip as [H|Ip]; [injection H as <- <-; exists vb; split; [now left|exact Eb]|].
      destruct (IH Ip) as [v' [I' E']]. exists v'. split; [now right|exact E']. }
    assert (Ef' : field name m' = Some v') by (apply (field_some _ _ ND'); eauto). now rewrite Ef'.
  - apply field_none in Ef. assert (Ef' : field name m' = None).
    { apply field_none. rewrite <- (fnames_same _ _ F). intros I. apply Ef. eapply Permutation_in; [apply Permutation_sym, fnames_perm; exact P|exact I]. }
    now rewrite Ef'.
Qed.

(* ---- decoders respect jequiv ---- *)

Definition opt_jequiv (o o' : option json) : Prop :=
  match o, o' with Some v, Some v' => jequiv v v' | None, None => True | _, _ => False end.

Lemma field_opt_jequiv name m m' : NoDup (fnames m) -> jequiv (JObj m) (JObj m') -> opt_jequiv (field name m) (field name m').
Proof.
  intros ND E. destruct (field_jequiv name m _ ND E) as [m2 [E2 [_ H]]]. injection E2 as <-. exact H.
Qed.

Lemma dec_string_respects o o' : opt_jequiv o o' -> dec_string o = dec_string o'.
Proof.
  destruct o as [v|], o' as [v'|]; cbn; try tauto. intros E. inversion E; subst; reflexivity.
Qed.

Lemma jequiv_wfnum v : forall v', jequiv v v' -> wfnum v -> wfnum v'.
Proof.
  induction v as [| | | |l IH|m IH] using json_ind'; intros v' E W; inversion E; subst; auto.
  - inversion W as [| | | |? Wl|]; subst. constructor. clear E W.
    match goal with F : Forall2 jequiv l _ |- _ => induction F as [|x y l l2 Exy F IHF] end; constructor.
    + inversion IH; inversion Wl; subst; eauto.
    + inversion IH; inversion Wl; subst; eauto.
  - inversion W as [| | | | |? Wm]; subst. constructor.
    match goal with P : Permutation m ?mp, F : Forall2 _ ?mp ?m2 |- _ =>
      assert (IHp : Forall (fun kv => forall v', jequiv (snd kv) v' -> wfnum (snd kv) -> wfnum v') mp) by (eapply Permutation_Forall; eauto);
      assert (Wp : Forall (fun kv => wfnum (snd kv)) mp) by (eapply Permutation_Forall; eauto);
      clear - IHp Wp F; induction F as [|[a va] [b vb] l l' [Ea Eb] F IHF] end; constructor.
    + inversion IHp; inversion Wp; subst. cbn in *. eauto.
    + inversion IHp; inversion Wp; subst. eauto.
Qed.

Lemma dec_any_wf o : (match o with Some v => wfnum v | None => True end) ->
  dec_any o = Some (match o with Some v => v | None => JNull end).
Proof. destruct o as [v|]; cbn; [apply normalise_wfnum|reflexivity]. Qed.

(* ---- suffix data ---- *)

Definition sd_members (s : suffix_data) : obj :=
  (opt_member "deltaHash" (sd_delta_hash s) ++ opt_member "recoveryCommitment" (sd_recovery_c s)
   ++ (match sd_origin s with JNull => [] | v => [("anchorOrigin", v)] end)
   ++ opt_member "type" (sd_type s))%list.

Lemma img_suffix_data_members s : img_suffix_data s = JObj (sd_members s).
Proof. reflexivity. Qed.

Ltac sd_cases s :=
  destruct s as [dh rc o ty]; unfold sd_members, opt_member; cbn [sd_delta_hash sd_recovery_c sd_origin sd_type];
  destruct (String.eqb_spec dh ""); destruct (String.eqb_spec rc ""); destruct (String.eqb_spec ty ""); destruct o; subst.

Lemma sd_members_nodup s : NoDup (fnames (sd_members s)).
Proof. sd_cases s; cbn; repeat constructor; cbn; intuition discriminate. Qed.

Lemma sd_fields s :
  dec_string (field "deltaHash" (sd_members s)) = Some (sd_delta_hash s) /\
  dec_string (field "recoveryCommitment" (sd_members s)) = Some (sd_recovery_c s) /\
  dec_string (field "type" (sd_members s)) = Some (sd_type s) /\
  (match field "anchorOrigin" (sd_members s) with Some v => v | None => JNull end) = sd_origin s /\
  (match field "anchorOrigin" (sd_members s) with Some v => v = sd_origin s | None => sd_origin s = JNull end).
Proof. sd_cases s; cbn; repeat split; reflexivity. Qed.

Theorem dec_suffix_data_jequiv s x : wfnum (sd_origin s) -> jequiv (img_suffix_data s) x ->
  exists o', dec_suffix_data (Some x) = Some (Some {| sd_delta_hash := sd_delta_hash s; sd_recovery_c := sd_recovery_c s;
                                                       sd_origin := o'; sd_type := sd_type s |}) /\
             jequiv (sd_origin s) o' /\ wfnum o'.
Proof.
  intros W E. rewrite img_suffix_data_members in E.
  destruct (jequiv_obj_inv _ _ E) as [mp [m' [-> _]]]. pose proof (sd_members_nodup s) as ND.
  destruct (sd_fields s) as [F1 [F2 [F3 [F4 F5]]]].
  cbn [dec_suffix_data].
  rewrite <- (dec_string_respects _ _ (field_opt_jequiv "deltaHash" _ _ ND E)), F1.
  rewrite <- (dec_string_respects _ _ (field_opt_jequiv "recoveryCommitment" _ _ ND E)), F2.
  rewrite <- (dec_string_respects _ _ (field_opt_jequiv "type" _ _ ND E)), F3.
  pose proof (field_opt_jequiv "anchorOrigin" _ _ ND E) as Ho. unfold opt_jequiv in Ho.
  destruct (field "anchorOrigin" (sd_members s)) as [v|], (field "anchorOrigin" m') as [v'|]; try contradiction.
  - subst v. assert (W' : wfnum v') by (eapply jequiv_wfnum; eauto). cbn [dec_any]. rewrite (normalise_wfnum _ W'). eauto.
  - cbn [dec_any]. rewrite F5. exists JNull. repeat split; constructor.
Qed.

(* ---- delta ---- *)

Definition is_obj (j : json) : Prop := exists m, j = JObj m.

Definition delta_members (d : delta) : obj :=
  (opt_member "updateCommitment" (d_update_c d) ++ (match d_patches d with [] => [] | l => [("patches", JArr l)] end))%list.

Lemma dec_patches_objs l : Forall is_obj l -> Forall wfnum l -> dec_patches (Some (JArr l)) = Some l.
Proof.
  cbn [dec_patches]. induction 1 as [|x l [m ->] _ IH]; intros W; [reflexivity|].
  inversion W as [|? ? Wx Wl]; subst. rewrite (normalise_wfnum _ Wx), (IH Wl). reflexivity.
Qed.

Lemma jequiv_is_obj v v' : jequiv v v' -> is_obj v -> is_obj v'.
Proof. intros E [m ->]. inversion E; subst. eexists; reflexivity. Qed.

Theorem dec_delta_jequiv d x : Forall is_obj (d_patches d) -> Forall wfnum (d_patches d) -> jequiv (img_delta d) x ->
  exists ps', dec_delta (Some x) = Some (Some {| d_update_c := d_update_c d; d_patches := ps' |}) /\
              Forall2 jequiv (d_patches d) ps' /\ Forall is_obj ps' /\ Forall wfnum ps'.
Proof.
  intros Ho Hw E. change (img_delta d) with (JObj (delta_members d)) in E.
  destruct (jequiv_obj_inv _ _ E) as [mp [m' [-> _]]].
  assert (ND : NoDup (fnames (delta_members d))).
  { unfold delta_members, opt_member. destruct (String.eqb (d_update_c d) ""), (d_patches d); cbn; repeat constructor; cbn; intuition discriminate. }
  assert (F1 : dec_string (field "updateCommitment" (delta_members d)) = Some (d_update_c d)).
  { unfold delta_members, opt_member. destruct (String.eqb_spec (d_update_c d) "") as [->|], (d_patches d); reflexivity. }
  assert (F2 : field "patches" (delta_members d) = match d_patches d with [] => None | l => Some (JArr l) end).
  { unfold delta_members, opt_member. destruct (String.eqb (d_update_c d) ""), (d_patches d); reflexivity. }
  cbn [dec_delta]. rewrite <- (dec_string_respects _ _ (field_opt_jequiv "updateCommitment" _ _ ND E)), F1.
  pose proof (field_opt_jequiv "patches" _ _ ND E) as Hp. rewrite F2 in Hp. unfold opt_jequiv in Hp.
  destruct (d_patches d) as [|p ps] eqn:Ep.
  - destruct (field "patches" m'); [contradiction|]. exists []. cbn. repeat split; constructor.
  - destruct (field "patches" m') as [v'|]; [|contradiction].
    destruct (jequiv_arr_inv _ _ Hp) as [l' [-> F]].
    assert (Ho' : Forall is_obj l').
    { clear - F Ho. induction F; inversion Ho; subst; constructor; eauto using jequiv_is_obj. }
    assert (Hw' : Forall wfnum l').
    { clear - F Hw. induction F; inversion Hw; subst; constructor; eauto using jequiv_wfnum. }
    rewrite (dec_patches_objs _ Ho' Hw'). exists l'. auto.
Qed.

(* ---- the create request ---- *)

Definition create_members (ty : string) (s : suffix_data) (d : delta) : obj :=
  (opt_member "type" ty ++ [("suffixData", img_suffix_data s)] ++ [("delta", img_delta d)])%list.

Lemma create_members_nodup ty s d : NoDup (fnames (create_members ty s d)).
Proof. unfold create_members, opt_member. destruct (String.eqb ty ""); cbn; repeat constructor; cbn; intuition discriminate. Qed.

Lemma create_fields ty s d :
  dec_string (field "type" (create_members ty s d)) = Some ty /\
  field "suffixData" (create_members ty s d) = Some (img_suffix_data s) /\
  field "delta" (create_members ty s d) = Some (img_delta d).
Proof. unfold create_members, opt_member. destruct (String.eqb_spec ty "") as [->|]; repeat split; reflexivity. Qed.

(* ---- exact-name lookup under re-ordering ---- *)

Lemma lookup_in (m : obj) : NoDup (keys m) -> forall k v, lookup k m = Some v <-> In (k, v) m.
Proof.
  induction m as [|[k' v'] r IH]; intros ND k v; [cbn; split; [discriminate|tauto]|].
  inversion ND as [|? ? Hn NDr]; subst. cbn [lookup]. destruct (String.eqb_spec k k') as [->|N].
  - split; [intros E; injection E as <-; now left|]. intros [E|I]; [now injection E as <-|].
    exfalso. apply Hn. apply in_map_iff. exists (k', v). auto.
  - rewrite (IH NDr). split; [intros I; now right|]. intros [E|I]; [injection E as <- <-; congruence|exact I].
Qed.

Lemma lookup_none_keys (m : obj) k : lookup k m = None <-> ~ In k (keys m).
Proof.
  induction m as [|[k' v'] r IH]; [cbn; tauto|]. cbn [lookup keys map fst]. destruct (String.eqb_spec k k') as [->|N].
  - split; [discriminate|]. intros H. exfalso. apply H. now left.
  - rewrite IH. unfold keys. split; [intros H [E|I]; [congruence|auto]|intros H I; apply H; now right].
Qed.

Lemma keys_perm m mp m' : Permutation m mp -> Forall2 same_members mp m' -> Permutation (keys m) (keys m').
Proof.
  intros P F. eapply perm_trans; [apply Permutation_map; exact P|].
  assert (E : map fst mp = map fst m').
  { clear - F. induction F as [|[a va] [b vb] l l' [Ea _] F IH]; [reflexivity|]. cbn [fst] in Ea. subst b. cbn [map fst]. now rewrite IH. }
  unfold keys. rewrite E. apply Permutation_refl.
Qed.

Theorem lookup_jequiv k m m' : NoDup (keys m) -> jequiv (JObj m) (JObj m') ->
  NoDup (keys m') /\ Permutation (keys m) (keys m') /\ opt_jequiv (lookup k m) (lookup k m').
Proof.
  intros ND E. destruct (jequiv_obj_inv _ _ E) as [mp [m2 [E2 [P F]]]]. injection E2 as <-.
  pose proof (keys_perm _ _ _ P F) as Pk.
  assert (ND' : NoDup (keys m')) by (eapply Permutation_NoDup; eauto).
  split; [exact ND'|]. split; [exact Pk|]. unfold opt_jequiv.
  destruct (lookup k m) as [v|] eqn:El.
  - apply (lookup_in _ ND) in El. assert (Ip : In (k, v) mp) by (eapply Permutation_in; eauto).
    assert (exists v', In (k, v') m' /\ jequiv v v') as [v' [I' Ev]].
    { clear - F Ip. induction F as [|[a va] [b vb] l l' [Ea Eb] F IH]; [destruct Ip|]. cbn in Ea, Eb. subst b.
      destruct Ip as [H|Ip]; [injection H as <- <-; exists vb; split; [now left|exact Eb]|].
      destruct (IH Ip) as [v' [I' E']]. exists v'. split; [now right|exact E']. }
    apply (lookup_in _ ND') in I'. now rewrite I'.
  - apply lookup_none_keys in El. assert (El' : lookup k m' = None).
    { apply lookup_none_keys. intros I. apply El. eapply Permutation_in; [apply Permutation_sym; exact Pk|exact I]. }
    now rewrite El'.
Qed.

(* ---- JWK images ---- *)

Definition jwk_members (k : jwk) : obj :=
  ([("kty", JStr (k_kty k)); ("crv", JStr (k_crv k)); ("x", JStr (k_x k)); ("y", JStr (k_y k))]
   ++ opt_member "n" (k_n k) ++ opt_member "e" (k_e k) ++ opt_member "nonce" (k_nonce k))%list.

Theorem dec_jwk_jequiv k x : jequiv (img_jwk k) x -> dec_jwk (Some x) = Some (Some k).
Proof.
  intros E. change (img_jwk k) with (JObj (jwk_members k)) in E.
  destruct (jequiv_obj_inv _ _ E) as [mp [m' [-> _]]].
  assert (ND : NoDup (fnames (jwk_members k))).
  { unfold jwk_members, opt_member. destruct (String.eqb (k_n k) ""), (String.eqb (k_e k) ""), (String.eqb (k_nonce k) "");
      cbn; repeat constructor; cbn; intuition discriminate. }
  assert (F : dec_string (field "kty" (jwk_members k)) = Some (k_kty k) /\ dec_string (field "crv" (jwk_members k)) = Some (k_crv k) /\
              dec_string (field "x" (jwk_members k)) = Some (k_x k) /\ dec_string (field "y" (jwk_members k)) = Some (k_y k) /\
              dec_string (field "n" (jwk_members k)) = Some (k_n k) /\ dec_string (field "e" (jwk_members k)) = Some (k_e k) /\
              dec_string (field "nonce" (jwk_members k)) = Some (k_nonce k)).
  { unfold jwk_members, opt_member.
    destruct (String.eqb_spec (k_n k) "") as [->|], (String.eqb_spec (k_e k) "") as [->|], (String.eqb_spec (k_nonce k) "") as [->|];
      cbn; repeat split; reflexivity. }
  destruct F as [F1 [F2 [F3 [F4 [F5 [F6 F7]]]]]]. cbn [dec_jwk].
  rewrite <- (dec_string_respects _ _ (field_opt_jequiv "kty" _ _ ND E)), F1.
  rewrite <- (dec_string_respects _ _ (field_opt_jequiv "crv" _ _ ND E)), F2.
  rewrite <- (dec_string_respects _ _ (field_opt_jequiv "x" _ _ ND E)), F3.
  rewrite <- (dec_string_respects _ _ (field_opt_jequiv "y" _ _ ND E)), F4.
  rewrite <- (dec_string_respects _ _ (field_opt_jequiv "n" _ _ ND E)), F5.
  rewrite <- (dec_string_respects _ _ (field_opt_jequiv "e" _ _ ND E)), F6.
  rewrite <- (dec_string_respects _ _ (field_opt_jequiv "nonce" _ _ ND E)), F7.
  destruct k; reflexivity.
Qed.
