(* Long-form DID resolution (pkg/vdr/sidetreelongform/dochandler/dochandler.go,
   pkg/versions/1_0/operationparser/method.go, pkg/docutil/docutil.go) over bytes, built from
   the parser, applier and transformer mirrors. *)
From Coq Require Import ZArith NArith Arith String Ascii List Bool.
From Sidetree Require Import Base.Sha2 Base.Base64url Json.Json Json.Jcs Json.Parse Sidetree.Protocol Sidetree.JsonPatch
     Sidetree.Composer Sidetree.Hashing Sidetree.Parser Sidetree.Applier Sidetree.Resolve Sidetree.Transformer Sidetree.Frame.
Import ListNotations.
Open Scope string_scope.

(* versions/v1_0/config.GetProtocolConfig (agreement: Agree/AgreeTables.v) *)
Definition longform_protocol : protocol :=
  Build_protocol 0 [18%Z] 10000 2500 100 1700 500 "GZIP" 1000000 2500000 1000000 10000000
    ["replace"; "add-public-keys"; "remove-public-keys"; "add-services"; "remove-services"; "add-also-known-as"; "remove-also-known-as"]
    ["EdDSA"; "ES256"; "ES256K"] ["Ed25519"; "P-256"; "P-384"; "secp256k1"] 0 16 3.

(* createProtocolClient: EnableBase = true, no method contexts *)
Definition longform_topts : topts :=
  {| t_key_ctx := default_key_ctx; t_method_ctx := []; t_base := true; t_published_ops := false; t_unpublished_ops := false |}.

(* ---- strings ---- *)

(* strings.ReplaceAll(s, old, "") for a non-empty old *)
Fixpoint remove_all (fuel : nat) (old s : string) : string :=
  match fuel with
  | O => s
  | S f =>
      match s with
      | EmptyString => EmptyString
      | String c r =>
          if is_prefix old s then remove_all f old (substring (String.length old) (String.length s - String.length old) s)
          else String c (remove_all f old r)
      end
  end.

Fixpoint contains_char (c : ascii) (s : string) : bool :=
  match s with EmptyString => false | String a r => orb (Ascii.eqb a c) (contains_char c r) end.

(* split at the last ':' : (before, after) *)
Definition split_last_colon (s : string) : option (string * string) :=
  match rev (split_on ":"%char "" s) with
  | last :: (_ :: _) as before => Some (join ":" (rev before), last)
  | _ => None
  end.

(* ---- model.CreateRequest ---- *)

Definition img_create_request (ty : string) (sd : option suffix_data) (d : option delta) : json :=
  JObj (opt_member "type" ty
        ++ (match sd with Some s => [("suffixData", img_suffix_data s)] | None => [] end)
        ++ (match d with Some x => [("delta", img_delta x)] | None => [] end))%list.

(* parseInitialState + the re-marshalling in ParseDID: canonical bytes of the create request *)
Definition parse_initial_state (state : string) : option string :=
  match b64_decode state with
  | None => None
  | Some decoded =>
      let dec :=
        match parse_json decoded with
        | Some (JObj m) => Some m
        | Some JNull => Some []
        | _ => None
        end in
      match dec with
      | None => None
      | Some m =>
          match dec_string (field "type" m), dec_suffix_data (field "suffixData" m), dec_delta (field "delta" m) with
          | Some ty, Some sd, Some d =>
              match jcs (img_create_request ty sd d) with
              | Some expected =>
                  if negb (String.eqb (b64_encode expected) state) then None
                  else if negb (orb (String.eqb ty "") (String.eqb ty "create")) then None
                  else jcs (img_create_request "create" sd d)
              | None => None
              end
          | _, _, _ => None
          end
      end
  end.

(* getSuffix: at least three ':'-separated parts, the last one *)
Definition get_suffix (short_did : string) : option string :=
  let parts := split_on ":"%char "" short_did in
  if Nat.ltb (length parts) 3 then None else Some (last parts "").

Section LongForm.
  Variable uri_ok : string -> bool.
  Variable url_norm : string -> option string.

  (* docutil.GetCreateResult + TransformDocument *)
  Definition create_response (ns suffix create_jcs bytes : string) : option json :=
    let v := view_of longform_protocol uri_ok url_norm TCreate bytes true in
    let a := {| a_type := TCreate; a_time := 0; a_num := 0; a_ver := 0; a_canon := ""; a_equiv := []; a_view := v |} in
    match apply longform_protocol apply_patches a (empty_rm [] []) with
    | Some rm =>
        match rm_doc rm with
        | Some [] | None => None          (* applying the delta resulted in an empty document *)
        | Some _ => transform_document longform_topts rm (info_unpublished ns suffix create_jcs)
        end
    | None => None
    end.

  (* DocumentHandler.ResolveDocument *)
  Definition resolve (ns did : string) : option json :=
    if negb (is_prefix (ns ++ ":") did) then None else
    let without := remove_all (String.length did + 1) (ns ++ ":") did in
    if negb (contains_char ":" without) then None else            (* short form: no create request *)
    match split_last_colon did with
    | None => None
    | Some (short, state) =>
        match parse_initial_state state, get_suffix short with
        | Some bytes, Some sfx =>
            match parse longform_protocol uri_ok url_norm (fun _ => true) (fun _ _ => true) ns bytes with
            | Some (_, s, _, _) =>
                if negb (String.eqb s sfx) then None else create_response ns sfx state bytes
            | None => None
            end
        | _, _ => None
        end
    end.

  (* DocumentHandler.ProcessOperation *)
  Definition process_operation (ns bytes : string) : option json :=
    match parse_operation longform_protocol uri_ok url_norm (fun _ => true) (fun _ _ => true) bytes false with
    | Some p =>
        if negb (String.eqb (p_type p) "create") then None else
        match transform bytes with
        | TOk canonical => create_response ns (p_suffix p) (b64_encode canonical) bytes
        | _ => None
        end
    | None => None
    end.

  (* ---- soundness of resolution ---- *)

  Theorem resolve_sound ns did r :
    resolve ns did = Some r ->
    is_prefix (ns ++ ":") did = true /\
    exists short state bytes sfx,
      split_last_colon did = Some (short, state) /\ parse_initial_state state = Some bytes /\
      get_suffix short = Some sfx /\
      (exists ty id origin, parse longform_protocol uri_ok url_norm (fun _ => true) (fun _ _ => true) ns bytes = Some (ty, sfx, id, origin)) /\
      create_response ns sfx state bytes = Some r.
  Proof.
    unfold resolve. destruct (is_prefix (ns ++ ":") did) eqn:Hp; [|discriminate]. cbn [negb].
    destruct (contains_char _ _); [|discriminate]. cbn [negb].
    destruct (split_last_colon did) as [[short state]|] eqn:Es; [|discriminate].
    destruct (parse_initial_state state) as [bytes|] eqn:Ei; [|discriminate].
    destruct (get_suffix short) as [sfx|] eqn:Eg; [|discriminate].
    destruct (parse _ _ _ _ _ ns bytes) as [[[[ty s] id] origin]|] eqn:Epar; [|discriminate].
    destruct (String.eqb_spec s sfx) as [->|]; [|discriminate]. cbn [negb].
    intros H. split; [reflexivity|]. exists short, state, bytes, sfx. repeat split; eauto.
  Qed.

  (* namespace isolation: a DID that does not begin with "<namespace>:" is never resolved *)
  Theorem namespace_isolation ns did : is_prefix (ns ++ ":") did = false -> resolve ns did = None.
  Proof. intros H. unfold resolve. now rewrite H. Qed.

  (* the initial state must be the exact base64url of the canonical create request *)
  Theorem initial_state_canonical state bytes :
    parse_initial_state state = Some bytes ->
    exists ty sd d expected, jcs (img_create_request ty sd d) = Some expected /\ state = b64_encode expected /\
                             jcs (img_create_request "create" sd d) = Some bytes /\ (ty = "" \/ ty = "create").
  Proof.
    unfold parse_initial_state. destruct (b64_decode state) as [decoded|]; [|discriminate].
    destruct (match parse_json decoded with Some (JObj m) => Some m | Some JNull => Some [] | _ => None end) as [m|]; [|discriminate].
    destruct (dec_string (field "type" m)) as [ty|]; [|discriminate].
    destruct (dec_suffix_data (field "suffixData" m)) as [sd|]; [|discriminate].
    destruct (dec_delta (field "delta" m)) as [d|]; [|discriminate].
    destruct (jcs (img_create_request ty sd d)) as [expected|] eqn:Ej; [|discriminate].
    destruct (String.eqb_spec (b64_encode expected) state) as [E|]; [|discriminate]. cbn [negb].
    destruct (orb (String.eqb ty "") (String.eqb ty "create")) eqn:Ety; [|discriminate]. cbn [negb].
    intros H. exists ty, sd, d, expected. repeat split; auto.
    apply orb_prop in Ety. destruct Ety as [Et|Et]; apply String.eqb_eq in Et; auto.
  Qed.
End LongForm.

Example short_form_rejected :
  resolve (fun _ => true) (fun s => Some s) "did:ion" "did:ion:EiAabc" = None /\
  resolve (fun _ => true) (fun s => Some s) "did:ion" "did:ionx:EiAabc:eyJ9" = None /\
  resolve (fun _ => true) (fun s => Some s) "did:ion" "did:io:EiAabc:eyJ9" = None.
Proof. vm_compute. repeat split; reflexivity. Qed.
