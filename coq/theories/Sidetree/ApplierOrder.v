(* The applier does not see member order either: two anchored operations whose views differ only in
   the order of object members (patches, anchor origin), applied to states that differ only in the
   member order of their documents and anchor origins, are both refused or yield states that again
   differ only so.  Together with Anchored.v: an accepted request and its anchored form denote
   operations related this way (order_blind: patch lists without `test` operations; see ComposerOrderAll.v). *)
From Coq Require Import ZArith NArith String Ascii List Bool Lia.
From Sidetree Require Import Json.Json Json.JcsProps Json.JcsRoundTrip Sidetree.Protocol Sidetree.Window Sidetree.Composer Sidetree.Applier
     Sidetree.JequivDecode Sidetree.ValidatorJequiv Sidetree.ComposerOrder Sidetree.JsonPatchOrder Sidetree.ComposerOrderAll.
Import ListNotations.
Open Scope string_scope.

Definition view_rel (v v' : opview) : Prop :=
  v_parse_ok v = v_parse_ok v' /\ v_signed_ok v = v_signed_ok v' /\ v_sig_ok v = v_sig_ok v' /\ v_suffix_ok v = v_suffix_ok v' /\
  v_delta_hash_ok v = v_delta_hash_ok v' /\ v_delta_valid v = v_delta_valid v' /\ v_update_c v = v_update_c v' /\
  v_recovery_c v = v_recovery_c v' /\ jequiv (v_origin v) (v_origin v') /\ v_from v = v_from v' /\ v_until v = v_until v' /\
  Forall2 vrel (v_patches v) (v_patches v').

Definition op_rel (a a' : anchored) : Prop :=
  a_type a = a_type a' /\ a_time a = a_time a' /\ a_num a = a_num a' /\ a_ver a = a_ver a' /\ a_canon a = a_canon a' /\
  a_equiv a = a_equiv a' /\ view_rel (a_view a) (a_view a').

Definition rm_rel (r r' : rmodel) : Prop :=
  opt_objrel (rm_doc r) (rm_doc r') /\ rm_created r = rm_created r' /\ rm_updated r = rm_updated r' /\
  rm_last_time r = rm_last_time r' /\ rm_last_num r = rm_last_num r' /\ rm_last_ver r = rm_last_ver r' /\
  rm_update_c r = rm_update_c r' /\ rm_recovery_c r = rm_recovery_c r' /\ rm_deactivated r = rm_deactivated r' /\
  jequiv (rm_origin r) (rm_origin r') /\ rm_equiv r = rm_equiv r' /\ rm_canon r = rm_canon r' /\ rm_version r = rm_version r' /\
  rm_published r = rm_published r' /\ rm_unpublished r = rm_unpublished r'.

Definition opt_rm_rel (a b : option rmodel) : Prop :=
  match a, b with Some x, Some y => rm_rel x y | None, None => True | _, _ => False end.

Lemma objrel_nil : objrel [] [].
Proof. split; [constructor; constructor|apply jequiv_refl]. Qed.

Section Order.
  Variable cfg : protocol.

  Ltac close := cbn; repeat split; auto; try apply objrel_nil; try congruence;
                try (match goal with H : objrel _ _ |- _ => apply H end).

  Theorem applier_member_order a a' rm rm' :
    op_rel a a' -> rm_rel rm rm' -> Forall order_blind (v_patches (a_view a)) ->
    opt_rm_rel (apply cfg apply_patches a rm) (apply cfg apply_patches a' rm').
  Proof.
    intros (Ety & Et & En & Ev & Ec & Ee & Hv) Hr D.
    destruct Hv as (V1 & V2 & V3 & V4 & V5 & V6 & V7 & V8 & V9 & V10 & V11 & V12).
    destruct Hr as (R1 & R2 & R3 & R4 & R5 & R6 & R7 & R8 & R9 & R10 & R11 & R12 & R13 & R14 & R15).
    unfold apply. rewrite <- Ety. destruct (a_type a).
    - (* create *)
      unfold apply_create. rewrite <- V1, <- V5, <- V6.
      destruct (rm_doc rm) as [d|], (rm_doc rm') as [d'|]; cbn in R1; try tauto; try exact I.
      destruct (v_parse_ok (a_view a)); cbn [negb]; [|exact I].
      destruct (v_delta_hash_ok (a_view a)); cbn [negb]; [|close].
      destruct (v_delta_valid (a_view a)); cbn [negb]; [|close].
      pose proof (apply_patches_member_order_all _ _ [] [] objrel_nil V12 D) as H.
      destruct (apply_patches [] (v_patches (a_view a))) as [x|], (apply_patches [] (v_patches (a_view a'))) as [x'|]; cbn in H; try tauto; close.
    - (* update *)
      unfold apply_update, in_win. rewrite <- V1, <- V2, <- V3, <- V5, <- V6, <- V10, <- V11, <- Et.
      destruct (rm_doc rm) as [d|], (rm_doc rm') as [d'|]; cbn in R1; try tauto; try exact I.
      destruct (v_parse_ok (a_view a)); cbn [negb]; [|exact I].
      destruct (v_signed_ok (a_view a)); cbn [negb]; [|exact I].
      destruct (v_delta_hash_ok (a_view a)); cbn [negb]; [|exact I].
      destruct (v_sig_ok (a_view a)); cbn [negb]; [|exact I].
      destruct (v_delta_valid (a_view a)); cbn [negb]; [|exact I].
      destruct (verify_range_p cfg (v_from (a_view a)) (v_until (a_view a)) (a_time a)); cbn [negb]; [|close].
      pose proof (apply_patches_member_order_all _ _ d d' R1 V12 D) as H.
      destruct (apply_patches d (v_patches (a_view a))) as [x|], (apply_patches d' (v_patches (a_view a'))) as [x'|]; cbn in H; try tauto; close.
    - (* recover *)
      unfold apply_recover, in_win. rewrite <- V1, <- V2, <- V3, <- V5, <- V6, <- V10, <- V11, <- Et.
      destruct (rm_doc rm) as [d|], (rm_doc rm') as [d'|]; cbn in R1; try tauto; try exact I.
      destruct (v_parse_ok (a_view a)); cbn [negb]; [|exact I].
      destruct (v_signed_ok (a_view a)); cbn [negb]; [|exact I].
      destruct (v_sig_ok (a_view a)); cbn [negb]; [|exact I].
      destruct (v_delta_hash_ok (a_view a)); cbn [negb]; [|close].
      destruct (v_delta_valid (a_view a)); cbn [negb]; [|close].
      destruct (verify_range_p cfg (v_from (a_view a)) (v_until (a_view a)) (a_time a)); cbn [negb]; [|close].
      pose proof (apply_patches_member_order_all _ _ [] [] objrel_nil V12 D) as H.
      destruct (apply_patches [] (v_patches (a_view a))) as [x|], (apply_patches [] (v_patches (a_view a'))) as [x'|]; cbn in H; try tauto; close.
    - (* deactivate *)
      unfold apply_deactivate, in_win. rewrite <- V1, <- V2, <- V3, <- V4, <- V10, <- V11, <- Et.
      destruct (rm_doc rm) as [d|], (rm_doc rm') as [d'|]; cbn in R1; try tauto; try exact I.
      destruct (v_parse_ok (a_view a)); cbn [negb]; [|exact I].
      destruct (v_signed_ok (a_view a)); cbn [negb]; [|exact I].
      destruct (v_suffix_ok (a_view a)); cbn [negb]; [|exact I].
      destruct (v_sig_ok (a_view a)); cbn [negb]; [|exact I].
      destruct (verify_range_p cfg (v_from (a_view a)) (v_until (a_view a)) (a_time a)); cbn [negb]; [|exact I].
      close.
    - exact I.
  Qed.

  (* whole histories: the resolved state does not depend on the member order of any request *)
  Theorem run_member_order hist : forall hist' rm rm',
    Forall2 op_rel hist hist' -> rm_rel rm rm' -> Forall (fun a => Forall order_blind (v_patches (a_view a))) hist ->
    rm_rel (run cfg apply_patches rm hist) (run cfg apply_patches rm' hist').
  Proof.
    induction hist as [|a r IH]; intros hist' rm rm' F Hr D; inversion F as [|? a' ? r' Ra Fr]; subst; cbn [run fold_left]; [exact Hr|].
    inversion D as [|? ? Da Dr]; subst. apply IH; [exact Fr| |exact Dr].
    unfold step. pose proof (applier_member_order a a' rm rm' Ra Hr Da) as H.
    destruct (apply cfg apply_patches a rm), (apply cfg apply_patches a' rm'); cbn in H; tauto.
  Qed.
End Order.
