(* C08, last clause: the anchored form of an accepted request applies to the same state as the
   request itself.  Byte level: the applier's views of the two byte strings (derived by the parser
   mirror in batch mode) differ only in the member order of the patches, and the applier does not
   see that order (ApplierOrder.v).  Update and deactivate requests; deltas of order_blind actions. *)
From Coq Require Import ZArith NArith String Ascii List Bool Lia.
From Sidetree Require Import Base.Sha2 Json.Json Json.Jcs Json.Parse Json.JcsProps Json.JcsRoundTrip
     Sidetree.Protocol Sidetree.Window Sidetree.JsonPatch Sidetree.Composer Sidetree.Validator Sidetree.Hashing Sidetree.Parser Sidetree.Applier
     Sidetree.Resolve Sidetree.Rules Sidetree.JequivDecode Sidetree.ValidatorJequiv Sidetree.Respell Sidetree.ClientUpdate
     Sidetree.ClientDeactivateRecover Sidetree.ClientSimple Sidetree.ClientApply Sidetree.ClientApplySigned Sidetree.Anchored Sidetree.ComposerOrder Sidetree.JsonPatchOrder Sidetree.ComposerOrderAll Sidetree.ApplierOrder.
Import ListNotations.
Open Scope string_scope.

Lemma rm_rel_refl rm : (match rm_doc rm with Some d => ndk (JObj d) | None => True end) -> rm_rel rm rm.
Proof.
  intros H. unfold rm_rel. repeat split; auto using jequiv_refl.
  destruct (rm_doc rm) as [d|]; cbn; [split; [exact H|apply jequiv_refl]|exact I].
Qed.

Section AnchoredApply.
  Variable cfg : protocol.
  Variable uri_ok : string -> bool.
  Variable url_norm : string -> option string.
  Variable origin_ok : json -> bool.
  Variable time_ok : Z -> Z -> bool.

  (* the applier's view of an accepted update request *)
  Lemma update_view bytes p sig_ok :
    parse_operation cfg uri_ok url_norm origin_ok time_ok bytes false = Some p -> p_type p = "update" ->
    exists su d,
      p_delta p = Some d /\ parse_signed_update cfg (p_signed p) = Some su /\
      view_of cfg uri_ok url_norm TUpdate bytes sig_ok =
        {| v_parse_ok := true; v_signed_ok := true; v_sig_ok := sig_ok; v_suffix_ok := true;
           v_delta_hash_ok := valid_mh (img_delta d) (su_delta_hash su); v_delta_valid := true;
           v_update_c := d_update_c d; v_recovery_c := ""; v_origin := JNull; v_from := su_from su; v_until := su_until su;
           v_patches := d_patches d |}.
  Proof.
    intros Hp Hty. destruct (parse_operation_update _ _ _ _ _ _ _ Hp Hty) as [m [Hpj Hpu]].
    destruct (update_batch _ _ _ _ _ _ Hpu) as [pb [Hpb [Es [Ed Hvd]]]].
    pose proof Hpu as Hr. apply update_accept_iff in Hr.
    destruct Hr as (sfx & rv & sd & od & j & pm & k & dh & f & u & Hc & Hd & Hj & Hpo & A & B & C & D & Hk & Hh & Ht & Hdr & (k' & d & Ek & Eo & Hvc) & Hr & ->).
    subst od. cbn [p_delta p_signed] in *.
    assert (Hsu : parse_signed_update cfg sd = Some {| su_key := k; su_delta_hash := dh; su_from := f; su_until := u |}).
    { apply parse_signed_update_iff. exists j, pm. cbn. auto 10. }
    eexists _, d. split; [reflexivity|]. split; [exact Hsu|].
    unfold view_of, request_object. rewrite Hpj, Hpb, Es, Hsu, Ed, Hvd. reflexivity.
  Qed.

  Theorem update_anchored_applies_alike bytes p b' sig_ok t num ver canon equiv rm rm' :
    parse_operation cfg uri_ok url_norm origin_ok time_ok bytes false = Some p -> p_type p = "update" ->
    anchored_bytes p = Some b' -> (Z.of_nat (String.length b') <= P_MaxOperationSize cfg)%Z ->
    (forall d, p_delta p = Some d -> Forall order_blind (d_patches d)) ->
    rm_rel rm rm' ->
    opt_rm_rel (apply_bytes cfg uri_ok url_norm TUpdate bytes sig_ok t num ver canon equiv rm)
               (apply_bytes cfg uri_ok url_norm TUpdate b' sig_ok t num ver canon equiv rm').
  Proof.
    intros Hp Hty Hb Hsize Hded Hrm.
    destruct (update_anchored cfg uri_ok url_norm origin_ok time_ok bytes p b' Hp Hty Hb Hsize) as [d [d' [Hd [Hp' [Euc Fps]]]]].
    destruct (update_view bytes p sig_ok Hp Hty) as [su [d0 [Hd0 [Hsu Hv]]]].
    rewrite Hd in Hd0. injection Hd0 as <-.
    destruct (update_view b' _ sig_ok Hp' Hty) as [su' [d1 [Hd1 [Hsu' Hv']]]].
    cbn [p_delta p_signed] in Hd1, Hsu'. injection Hd1 as <-. rewrite Hsu in Hsu'. injection Hsu' as <-.
    (* the patches of the accepted request name no member twice *)
    assert (N : Forall ndk (d_patches d)).
    { apply accept_iff_rules in Hp. destruct Hp as [_ [m [_ Hob]]].
      destruct (obeys_type _ _ _ _ _ _ _ Hob) as [[E _]|[[_ H]|[[E _]|[E _]]]]; try congruence.
      destruct H as (sfx & rv & sd & od & j & pm & k & dh & f & u & _ & _ & _ & _ & _ & _ & _ & _ & _ & _ & _ & Hdr & _ & _ & ->).
      cbn [p_delta] in Hd. subst od. destruct Hdr as (dd & Edd & _ & _ & _ & (c & Ec & _)). injection Edd as <-. eapply jcs_delta_ndk; eauto. }
    assert (V : Forall2 vrel (d_patches d) (d_patches d')).
    { clear - Fps N. induction Fps as [|x y l l' E F IH]; inversion N; subst; constructor; [split; assumption|auto]. }
    unfold apply_bytes. apply applier_member_order; [|exact Hrm|rewrite Hv; cbn [a_view v_patches]; apply Hded; exact Hd].
    unfold op_rel. cbn [a_type a_time a_num a_ver a_canon a_equiv a_view]. repeat (split; [reflexivity|]).
    rewrite Hv, Hv'. unfold view_rel. cbn. repeat split; auto; try apply JE_null.
    apply valid_mh_jequiv. apply delta_img_jequiv; assumption.
  Qed.

  (* deactivate: the anchored form is the same operation, so it applies identically *)
  Theorem deactivate_anchored_applies_alike bytes p b' sig_ok t num ver canon equiv rm :
    parse_operation cfg uri_ok url_norm origin_ok time_ok bytes false = Some p -> p_type p = "deactivate" ->
    anchored_bytes p = Some b' -> (Z.of_nat (String.length b') <= P_MaxOperationSize cfg)%Z ->
    apply_bytes cfg uri_ok url_norm TDeactivate bytes sig_ok t num ver canon equiv rm =
    apply_bytes cfg uri_ok url_norm TDeactivate b' sig_ok t num ver canon equiv rm.
  Proof.
    intros Hp Hty Hb Hsize.
    pose proof (deactivate_anchored cfg uri_ok url_norm origin_ok time_ok bytes p b' Hp Hty Hb Hsize) as Hp'.
    destruct (parse_operation_deactivate _ _ _ _ _ _ _ Hp Hty) as [m [Hpj Hpd]].
    destruct (parse_operation_deactivate _ _ _ _ _ _ _ Hp' Hty) as [m' [Hpj' Hpd']].
    destruct (deactivate_batch _ _ _ _ Hpd) as [pb [Hpb [Es Ef]]].
    destruct (deactivate_batch _ _ _ _ Hpd') as [pb' [Hpb' [Es' Ef']]].
    unfold apply_bytes. f_equal. f_equal. unfold view_of, request_object. rewrite Hpj, Hpj', Hpb, Hpb', Es, Es', Ef, Ef'. reflexivity.
  Qed.
  (* ---- recover ---- *)
  Lemma recover_view bytes p sig_ok :
    parse_operation cfg uri_ok url_norm origin_ok time_ok bytes false = Some p -> p_type p = "recover" ->
    exists sr d,
      p_delta p = Some d /\ parse_signed_recover cfg (p_signed p) = Some sr /\
      view_of cfg uri_ok url_norm TRecover bytes sig_ok =
        {| v_parse_ok := true; v_signed_ok := true; v_sig_ok := sig_ok; v_suffix_ok := true;
           v_delta_hash_ok := valid_mh (img_delta d) (sr_delta_hash sr); v_delta_valid := true;
           v_update_c := d_update_c d; v_recovery_c := sr_recovery_c sr; v_origin := sr_origin sr;
           v_from := sr_from sr; v_until := sr_until sr; v_patches := d_patches d |}.
  Proof.
    intros Hp Hty. destruct (parse_operation_recover _ _ _ _ _ _ _ Hp Hty) as [m [Hpj Hpr]].
    destruct (recover_batch _ _ _ _ _ _ _ Hpr) as [pb [Hpb [Es [Ed Hvd]]]].
    pose proof Hpr as Hr. apply recover_accept_iff in Hr.
    destruct Hr as (sfx & rv & sd & od & j & pm & dh & k & rc & o & f & u & Hc & Hd & Hj & Hpo & E1 & E2 & E3 & E4 & E5 & E6 & Hk & Hrc & Hdh & (k' & Ek & Hvc) & Ho & Ht & Hdr & Hne & Hr & ->).
    destruct Hdr as (d & Eod & Hdr0). subst od k. cbn [p_delta p_signed] in *.
    assert (Hsr : parse_signed_recover cfg sd = Some {| sr_delta_hash := dh; sr_key := Some k'; sr_recovery_c := rc; sr_origin := o; sr_from := f; sr_until := u |}).
    { unfold parse_signed_recover. apply parse_signed_data_iff in Hj. apply validate_signing_key_iff in Hk.
      apply validate_multihash_iff in Hrc, Hdh. rewrite Hj, Hpo, E1, E2, E3, E4, E5, E6, Hk, Hrc, Hdh, Hvc. reflexivity. }
    eexists _, d. split; [reflexivity|]. split; [exact Hsr|].
    unfold view_of, request_object. rewrite Hpj, Hpb, Es, Hsr, Ed, Hvd. reflexivity.
  Qed.

  Theorem recover_anchored_applies_alike bytes p b' sig_ok t num ver canon equiv rm rm' :
    parse_operation cfg uri_ok url_norm origin_ok time_ok bytes false = Some p -> p_type p = "recover" ->
    anchored_bytes p = Some b' -> (Z.of_nat (String.length b') <= P_MaxOperationSize cfg)%Z ->
    (forall d, p_delta p = Some d -> Forall order_blind (d_patches d)) ->
    rm_rel rm rm' ->
    opt_rm_rel (apply_bytes cfg uri_ok url_norm TRecover bytes sig_ok t num ver canon equiv rm)
               (apply_bytes cfg uri_ok url_norm TRecover b' sig_ok t num ver canon equiv rm').
  Proof.
    intros Hp Hty Hb Hsize Hded Hrm.
    destruct (recover_anchored cfg uri_ok url_norm origin_ok time_ok bytes p b' Hp Hty Hb Hsize) as [d [d' [Hd [Hp' [Euc Fps]]]]].
    destruct (recover_view bytes p sig_ok Hp Hty) as [sr [d0 [Hd0 [Hsr Hv]]]].
    rewrite Hd in Hd0. injection Hd0 as <-.
    destruct (recover_view b' _ sig_ok Hp' Hty) as [sr' [d1 [Hd1 [Hsr' Hv']]]].
    cbn [p_delta p_signed] in Hd1, Hsr'. injection Hd1 as <-. rewrite Hsr in Hsr'. injection Hsr' as <-.
    assert (N : Forall ndk (d_patches d)).
    { apply accept_iff_rules in Hp. destruct Hp as [_ [m [_ Hob]]].
      destruct (obeys_type _ _ _ _ _ _ _ Hob) as [[E _]|[[E _]|[[E _]|[_ H]]]]; try congruence.
      destruct H as (sfx & rv & sd & od & j & pm & dh & k & rc & o & f & u & _ & _ & _ & _ & _ & _ & _ & _ & _ & _ & _ & _ & _ & _ & _ & _ & Hdr & _ & _ & ->).
      cbn [p_delta] in Hd. subst od. destruct Hdr as (dd & Edd & _ & _ & _ & (c & Ec & _)). injection Edd as <-. eapply jcs_delta_ndk; eauto. }
    assert (V : Forall2 vrel (d_patches d) (d_patches d')).
    { clear - Fps N. induction Fps as [|x y l l' E F IH]; inversion N; subst; constructor; [split; assumption|auto]. }
    unfold apply_bytes. apply applier_member_order; [|exact Hrm|rewrite Hv; cbn [a_view v_patches]; apply Hded; exact Hd].
    unfold op_rel. cbn [a_type a_time a_num a_ver a_canon a_equiv a_view]. repeat (split; [reflexivity|]).
    rewrite Hv, Hv'. unfold view_rel. cbn. repeat split; auto; try apply jequiv_refl.
    apply valid_mh_jequiv. apply delta_img_jequiv; assumption.
  Qed.
  (* ---- create ---- *)
  Lemma create_view bytes p sig_ok :
    parse_operation cfg uri_ok url_norm origin_ok time_ok bytes false = Some p -> p_type p = "create" ->
    exists sd d,
      p_delta p = Some d /\ p_suffix_data p = Some sd /\ Forall ndk (d_patches d) /\
      view_of cfg uri_ok url_norm TCreate bytes sig_ok =
        {| v_parse_ok := true; v_signed_ok := true; v_sig_ok := true; v_suffix_ok := true;
           v_delta_hash_ok := true; v_delta_valid := true;
           v_update_c := d_update_c d; v_recovery_c := sd_recovery_c sd; v_origin := sd_origin sd;
           v_from := 0; v_until := 0; v_patches := d_patches d |}.
  Proof.
    intros Hp Hty. destruct (parse_operation_typed _ _ _ _ _ _ _ Hp) as [m [Hpj [C|[U|[D|R]]]]].
    2:{ apply parse_update_type in U. congruence. }
    2:{ apply parse_deactivate_type in D. congruence. }
    2:{ apply parse_recover_type in R. congruence. }
    apply create_accept_iff in C. destruct (create_rules_batch _ _ _ _ _ _ C) as [sd [od [Hb [Ed [Es [Hh Hvd]]]]]].
    destruct C as (sd0 & od0 & a & rest & sfx & _ & _ & _ & _ & _ & _ & Hdr & _ & _ & _ & _ & ->).
    cbn [p_delta p_suffix_data] in *. injection Es as <-. subst od0.
    destruct Hdr as (d & Eod & _ & _ & _ & (c & Ec & _)). subst od.
    exists sd0, d. split; [reflexivity|]. split; [reflexivity|]. split; [eapply jcs_delta_ndk; eauto|].
    unfold view_of, request_object. rewrite Hpj, Hb. cbn [p_suffix_data p_delta delta_commitment delta_patches]. rewrite Hh, Hvd. reflexivity.
  Qed.

  Hypothesis origin_ok_order : forall a b, jequiv a b -> origin_ok a = origin_ok b.

  Theorem create_anchored_applies_alike bytes p b' sig_ok t num ver canon equiv rm rm' :
    parse_operation cfg uri_ok url_norm origin_ok time_ok bytes false = Some p -> p_type p = "create" ->
    anchored_bytes p = Some b' -> (Z.of_nat (String.length b') <= P_MaxOperationSize cfg)%Z ->
    (forall d, p_delta p = Some d -> Forall order_blind (d_patches d)) ->
    rm_rel rm rm' ->
    opt_rm_rel (apply_bytes cfg uri_ok url_norm TCreate bytes sig_ok t num ver canon equiv rm)
               (apply_bytes cfg uri_ok url_norm TCreate b' sig_ok t num ver canon equiv rm').
  Proof.
    intros Hp Hty Hb Hsize Hded Hrm.
    destruct (create_anchored cfg uri_ok url_norm origin_ok time_ok origin_ok_order bytes p b' Hp Hty Hb Hsize)
      as (d & d' & s & o' & Hd & Hs & Eo & Hp' & Euc & Fps).
    destruct (create_view bytes p sig_ok Hp Hty) as (sd0 & d0 & Hd0 & Hs0 & N & Hv).
    rewrite Hd in Hd0. injection Hd0 as <-. rewrite Hs in Hs0. injection Hs0 as <-.
    destruct (create_view b' _ sig_ok Hp' eq_refl) as (sd1 & d1 & Hd1 & Hs1 & _ & Hv').
    cbn [p_delta p_suffix_data] in Hd1, Hs1. injection Hd1 as <-. injection Hs1 as <-.
    assert (V : Forall2 vrel (d_patches d) (d_patches d')).
    { clear - Fps N. induction Fps as [|x y l l' E F IH]; inversion N; subst; constructor; [split; assumption|auto]. }
    unfold apply_bytes. apply applier_member_order; [|exact Hrm|rewrite Hv; cbn [a_view v_patches]; apply Hded; exact Hd].
    unfold op_rel. cbn [a_type a_time a_num a_ver a_canon a_equiv a_view]. repeat (split; [reflexivity|]).
    rewrite Hv, Hv'. unfold view_rel. cbn. repeat split; auto.
  Qed.
End AnchoredApply.

(* ---- whole histories: replacing every request by its anchored form does not change what is resolved ---- *)
Record astep := { as_type : optype; as_bytes : string; as_anchored : string; as_sig : bool;
                  as_time : Z; as_num : Z; as_ver : Z; as_canon : string; as_equiv : list string }.

Section History.
  Variable cfg : protocol.
  Variable uri_ok : string -> bool.
  Variable url_norm : string -> option string.
  Variable origin_ok : json -> bool.
  Variable time_ok : Z -> Z -> bool.
  Hypothesis origin_ok_order : forall a b, jequiv a b -> origin_ok a = origin_ok b.

  Definition type_name (t : optype) : string :=
    match t with TCreate => "create" | TUpdate => "update" | TRecover => "recover" | TDeactivate => "deactivate" | TOther => "" end.

  (* the request was accepted at request time, [as_anchored] is its anchored form (within the size
     limit), and its delta uses order_blind actions *)
  Definition astep_ok (s : astep) : Prop :=
    exists p, parse_operation cfg uri_ok url_norm origin_ok time_ok (as_bytes s) false = Some p /\
      p_type p = type_name (as_type s) /\ as_type s <> TOther /\
      anchored_bytes p = Some (as_anchored s) /\
      (Z.of_nat (String.length (as_anchored s)) <= P_MaxOperationSize cfg)%Z /\
      (forall d, p_delta p = Some d -> Forall order_blind (d_patches d)).

  Definition step_with (pick : astep -> string) (rm : rmodel) (s : astep) : rmodel :=
    match apply_bytes cfg uri_ok url_norm (as_type s) (pick s) (as_sig s) (as_time s) (as_num s) (as_ver s) (as_canon s) (as_equiv s) rm with
    | Some rm' => rm'
    | None => rm
    end.

  Lemma opt_rm_rel_refl_eq a b : a = b -> (match a with Some r => rm_rel r r | None => True end) -> opt_rm_rel a b.
  Proof. intros <- H. destruct a; exact H. Qed.

  Theorem history_anchored_resolves_alike steps : forall rm rm',
    Forall astep_ok steps -> rm_rel rm rm' ->
    rm_rel (fold_left (step_with as_bytes) steps rm) (fold_left (step_with as_anchored) steps rm').
  Proof.
    induction steps as [|s r IH]; intros rm rm' Hok Hr; cbn [fold_left]; [exact Hr|].
    inversion Hok as [|? ? Hs Hrest]; subst. apply IH; [exact Hrest|].
    destruct Hs as (p & Hp & Hty & Hne & Hb & Hsz & Hd). unfold step_with.
    assert (H : opt_rm_rel (apply_bytes cfg uri_ok url_norm (as_type s) (as_bytes s) (as_sig s) (as_time s) (as_num s) (as_ver s) (as_canon s) (as_equiv s) rm)
                           (apply_bytes cfg uri_ok url_norm (as_type s) (as_anchored s) (as_sig s) (as_time s) (as_num s) (as_ver s) (as_canon s) (as_equiv s) rm')).
    { destruct (as_type s) eqn:Et; cbn [type_name] in Hty.
      - eapply create_anchored_applies_alike; eauto.
      - eapply update_anchored_applies_alike; eauto.
      - eapply recover_anchored_applies_alike; eauto.
      - (* deactivate: same operation; the state relation carries over through the applier *)
        rewrite <- (deactivate_anchored_applies_alike cfg uri_ok url_norm origin_ok time_ok _ p _ (as_sig s) (as_time s) (as_num s) (as_ver s) (as_canon s) (as_equiv s) rm' Hp Hty Hb Hsz).
        unfold apply_bytes. apply applier_member_order; [|exact Hr|].
        + unfold op_rel, view_rel. cbn. repeat split; auto; try apply jequiv_refl.
          set (v := view_of cfg uri_ok url_norm TDeactivate (as_bytes s) (as_sig s)).
          assert (Hv : v_patches v = []).
          { unfold v, view_of. destruct (request_object (as_bytes s)); [|reflexivity].
            destruct (parse_deactivate cfg always2 o true); [|reflexivity]. destruct (parse_signed_deactivate cfg (p_signed p0)); reflexivity. }
          rewrite Hv. constructor.
        + cbn [a_view]. set (v := view_of cfg uri_ok url_norm TDeactivate (as_bytes s) (as_sig s)).
          assert (Hv : v_patches v = []).
          { unfold v, view_of. destruct (request_object (as_bytes s)); [|reflexivity].
            destruct (parse_deactivate cfg always2 o true); [|reflexivity]. destruct (parse_signed_deactivate cfg (p_signed p0)); reflexivity. }
          rewrite Hv. constructor.
      - congruence. }
    destruct (apply_bytes _ _ _ _ (as_bytes s) _ _ _ _ _ _ rm), (apply_bytes _ _ _ _ (as_anchored s) _ _ _ _ _ _ rm'); cbn in H; tauto.
  Qed.
End History.
