(* protocol.Protocol (pkg/api/protocol/protocol.go): every field, numeric ones as Z. *)
From Coq Require Import ZArith String List.
Open Scope Z_scope.

Record protocol := {
  P_GenesisTime : Z;
  P_MultihashAlgorithms : list Z;
  P_MaxOperationCount : Z;
  P_MaxOperationSize : Z;
  P_MaxOperationHashLength : Z;
  P_MaxDeltaSize : Z;
  P_MaxCasURILength : Z;
  P_CompressionAlgorithm : string;
  P_MaxCoreIndexFileSize : Z;
  P_MaxProofFileSize : Z;
  P_MaxProvisionalIndexFileSize : Z;
  P_MaxChunkFileSize : Z;
  P_Patches : list string;
  P_SignatureAlgorithms : list string;
  P_KeyAlgorithms : list string;
  P_MaxOperationTimeDelta : Z;
  P_NonceSize : Z;
  P_MaxMemoryDecompressionFactor : Z
}.

(* The (time, number) key of an anchored operation, as used by the metadata sort. *)
Record anchored_key := { F_TransactionTime : Z; F_TransactionNumber : Z }.

(* Two protocols that differ at most in fields other than MaxOperationTimeDelta. *)
Definition same_time_delta (p q : protocol) : Prop :=
  P_MaxOperationTimeDelta p = P_MaxOperationTimeDelta q.
