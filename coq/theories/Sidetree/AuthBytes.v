(* C02 on bytes: what an accepted update / recover / deactivate request must contain.

   [accept_implies_authorised] speaks about the applier's view of an operation.  Here the view is
   the one the parser mirror derives from the request bytes ([Resolve.view_of]), so acceptance
   by [apply_bytes] is traced back to the bytes themselves: the request parses, its signed data
   parses under the protocol's header / key rules, the key carried in the signed data hashes to
   the request's reveal value, the primitive verification under that key succeeded (oracle),
   and - for an update - the signed delta hash is the hash of the delta, which is valid. *)
From Coq Require Import ZArith NArith String List Bool.
From Sidetree Require Import Json.Json Json.Parse Sidetree.Protocol Sidetree.Composer Sidetree.Hashing Sidetree.Parser
     Sidetree.Applier Sidetree.Resolve.
Import ListNotations.
Open Scope string_scope.

Section AuthBytes.
  Variable cfg : protocol.
  Variable uri_ok : string -> bool.
  Variable url_norm : string -> option string.

  Lemma parse_update_reveal (time_ok : Z -> Z -> bool) m b p :
    parse_update cfg uri_ok url_norm time_ok m b = Some p ->
    exists su, parse_signed_update cfg (p_signed p) = Some su /\ key_matches_reveal (su_key su) (p_reveal p) = true.
  Proof.
    unfold parse_update. destruct (common_fields cfg m) as [[[sfx rv] sd]|]; [|discriminate].
    destruct (dec_delta (field "delta" m)) as [od|]; [|discriminate].
    destruct (parse_signed_update cfg sd) as [su|] eqn:Es; [|discriminate].
    match goal with |- (if negb ?c then _ else _) = _ -> _ => destruct c end; cbn [negb]; [|discriminate].
    destruct (key_matches_reveal (su_key su) rv) eqn:Ek; cbn [negb]; [|discriminate].
    intros H. injection H as <-. cbn. eauto.
  Qed.

  Lemma parse_recover_reveal (origin_ok : json -> bool) (time_ok : Z -> Z -> bool) m b p :
    parse_recover cfg uri_ok url_norm origin_ok time_ok m b = Some p ->
    exists sr, parse_signed_recover cfg (p_signed p) = Some sr /\ key_matches_reveal (sr_key sr) (p_reveal p) = true.
  Proof.
    unfold parse_recover. destruct (common_fields cfg m) as [[[sfx rv] sd]|]; [|discriminate].
    destruct (dec_delta (field "delta" m)) as [od|]; [|discriminate].
    destruct (parse_signed_recover cfg sd) as [sr|] eqn:Es; [|discriminate].
    match goal with |- (if negb ?c then _ else _) = _ -> _ => destruct c end; cbn [negb]; [|discriminate].
    destruct (key_matches_reveal (sr_key sr) rv) eqn:Ek; cbn [negb]; [|discriminate].
    intros H. injection H as <-. cbn. eauto.
  Qed.

  Lemma parse_deactivate_reveal (time_ok : Z -> Z -> bool) m b p :
    parse_deactivate cfg time_ok m b = Some p ->
    exists sx, parse_signed_deactivate cfg (p_signed p) = Some sx /\ key_matches_reveal (sx_key sx) (p_reveal p) = true /\
               sx_suffix sx = p_suffix p.
  Proof.
    unfold parse_deactivate. destruct (common_fields cfg m) as [[[sfx rv] sd]|]; [|discriminate].
    destruct (parse_signed_deactivate cfg sd) as [sx|] eqn:Es; [|discriminate].
    destruct (String.eqb_spec (sx_suffix sx) sfx) as [E|]; cbn [negb]; [|discriminate].
    destruct (key_matches_reveal (sx_key sx) rv) eqn:Ek; cbn [negb]; [|discriminate].
    match goal with |- (if ?c then _ else _) = _ -> _ => destruct c end; [discriminate|].
    intros H. injection H as <-. cbn. eauto.
  Qed.

  (* an update changes the state only if ... *)
  Theorem update_bytes_authorised bytes sig_ok t n ver canon equiv rm rm' :
    apply_bytes cfg uri_ok url_norm TUpdate bytes sig_ok t n ver canon equiv rm = Some rm' ->
    sig_ok = true /\
    exists m p su,
      request_object bytes = Some m /\
      parse_update cfg uri_ok url_norm always2 m true = Some p /\
      parse_signed_update cfg (p_signed p) = Some su /\
      key_matches_reveal (su_key su) (p_reveal p) = true /\
      valid_mh (img_delta_opt (p_delta p)) (su_delta_hash su) = true /\
      validate_delta cfg uri_ok url_norm (p_delta p) = true /\
      rm_update_c rm' = delta_commitment (p_delta p).
  Proof.
    unfold apply_bytes, apply, view_of. cbn [a_type].
    destruct (request_object bytes) as [m|] eqn:Em.
    2:{ unfold apply_update. cbn. destruct (rm_doc rm); discriminate. }
    destruct (parse_update cfg uri_ok url_norm always2 m true) as [p|] eqn:Ep.
    2:{ unfold apply_update. cbn. destruct (rm_doc rm); discriminate. }
    destruct (parse_update_reveal _ _ _ _ Ep) as [su [Es Ek]]. rewrite Es.
    unfold apply_update. cbn [a_view v_parse_ok v_signed_ok v_delta_hash_ok v_sig_ok v_delta_valid negb v_update_c v_patches a_time].
    destruct (rm_doc rm) as [doc|]; [|discriminate].
    destruct (valid_mh (img_delta_opt (p_delta p)) (su_delta_hash su)) eqn:Eh; cbn [negb]; [|discriminate].
    destruct sig_ok; cbn [negb]; [|discriminate].
    destruct (validate_delta cfg uri_ok url_norm (p_delta p)) eqn:Ev; cbn [negb]; [|discriminate].
    intros H. split; [reflexivity|]. exists m, p, su. repeat split; auto.
    destruct (negb _) in H; [injection H as <-; reflexivity|].
    destruct (apply_patches doc _) in H; injection H as <-; reflexivity.
  Qed.

  Theorem recover_bytes_authorised bytes sig_ok t n ver canon equiv rm rm' :
    apply_bytes cfg uri_ok url_norm TRecover bytes sig_ok t n ver canon equiv rm = Some rm' ->
    sig_ok = true /\
    exists m p sr,
      request_object bytes = Some m /\
      parse_recover cfg uri_ok url_norm always always2 m true = Some p /\
      parse_signed_recover cfg (p_signed p) = Some sr /\
      key_matches_reveal (sr_key sr) (p_reveal p) = true /\
      rm_recovery_c rm' = sr_recovery_c sr.
  Proof.
    unfold apply_bytes, apply, view_of. cbn [a_type].
    destruct (request_object bytes) as [m|] eqn:Em.
    2:{ unfold apply_recover. cbn. destruct (rm_doc rm); discriminate. }
    destruct (parse_recover cfg uri_ok url_norm always always2 m true) as [p|] eqn:Ep.
    2:{ unfold apply_recover. cbn. destruct (rm_doc rm); discriminate. }
    destruct (parse_recover_reveal _ _ _ _ _ Ep) as [sr [Es Ek]]. rewrite Es.
    unfold apply_recover. cbn [a_view v_parse_ok v_signed_ok v_delta_hash_ok v_sig_ok v_delta_valid negb v_update_c v_recovery_c v_origin v_patches a_time].
    destruct (rm_doc rm) as [doc|]; [|discriminate].
    destruct sig_ok; cbn [negb]; [|discriminate].
    intros H. split; [reflexivity|]. exists m, p, sr. repeat split; auto.
    repeat match type of H with
           | (if ?c then _ else _) = Some _ => destruct c
           | match ?x with _ => _ end = Some _ => destruct x
           end; injection H as <-; reflexivity.
  Qed.

  Theorem deactivate_bytes_authorised bytes sig_ok t n ver canon equiv rm rm' :
    apply_bytes cfg uri_ok url_norm TDeactivate bytes sig_ok t n ver canon equiv rm = Some rm' ->
    sig_ok = true /\
    exists m p sx,
      request_object bytes = Some m /\
      parse_deactivate cfg always2 m true = Some p /\
      parse_signed_deactivate cfg (p_signed p) = Some sx /\
      key_matches_reveal (sx_key sx) (p_reveal p) = true /\
      sx_suffix sx = p_suffix p /\ rm_deactivated rm' = true.
  Proof.
    unfold apply_bytes, apply, view_of. cbn [a_type].
    destruct (request_object bytes) as [m|] eqn:Em.
    2:{ unfold apply_deactivate. cbn. destruct (rm_doc rm); discriminate. }
    destruct (parse_deactivate cfg always2 m true) as [p|] eqn:Ep.
    2:{ unfold apply_deactivate. cbn. destruct (rm_doc rm); discriminate. }
    destruct (parse_deactivate_reveal _ _ _ _ Ep) as [sx [Es [Ek Esx]]]. rewrite Es.
    unfold apply_deactivate. cbn [a_view v_parse_ok v_signed_ok v_suffix_ok v_sig_ok negb a_time].
    destruct (rm_doc rm) as [doc|]; [|discriminate].
    destruct (String.eqb (p_suffix p) (sx_suffix sx)); cbn [negb]; [|discriminate].
    destruct sig_ok; cbn [negb]; [|discriminate].
    destruct (negb _); [discriminate|].
    intros H. injection H as <-. split; [reflexivity|]. exists m, p, sx. repeat split; auto.
  Qed.
End AuthBytes.
