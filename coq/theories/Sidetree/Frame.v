(* C11: a validated ietf-json-patch never changes the publicKey / service members.
   Proved on the tree mirror of json-patch 4.1.0 as driven by applyJSON (operations applied
   one at a time).  The chain of lemmas:
     pointer_ok p  ->  the first reference token of p decodes to a name other than the
                       protected ones (RFC 6901 escapes cannot produce plain letters);
     every container operation touches the root object only at that first token;
     hence each of the six operations, and any list of them, leaves protected members alone. *)
From Coq Require Import ZArith String List Bool Ascii Lia.
From Sidetree Require Import Json.Json Sidetree.JsonPatch Sidetree.Composer Sidetree.Validator.
Import ListNotations.
Open Scope string_scope.

(* ---- strings ---- *)

Lemma append_nil_r s : s ++ "" = s.
Proof. induction s; cbn; congruence. Qed.

Lemma append_assoc_cons a c r : (a ++ String c "") ++ r = a ++ String c r.
Proof. induction a; cbn; congruence. Qed.

Fixpoint take_until (sep : ascii) (s : string) : string :=
  match s with
  | EmptyString => EmptyString
  | String c r => if Ascii.eqb c sep then EmptyString else String c (take_until sep r)
  end.

Lemma split_on_hd sep : forall s acc, hd "" (split_on sep acc s) = acc ++ take_until sep s.
Proof.
  induction s as [|c r IH]; intros acc; cbn.
  - now rewrite append_nil_r.
  - destruct (Ascii.eqb c sep); cbn.
    + now rewrite append_nil_r.
    + rewrite IH. apply append_assoc_cons.
Qed.

Lemma split_on_nonempty sep s acc : split_on sep acc s <> [].
Proof. revert acc. induction s as [|c r IH]; intros acc; cbn; [discriminate|]. destruct (Ascii.eqb c sep); [discriminate|apply IH]. Qed.

Lemma take_until_prefix sep s : is_prefix (take_until sep s) s = true.
Proof.
  induction s as [|c r IH]; cbn; [reflexivity|].
  destruct (Ascii.eqb c sep); cbn; [reflexivity|]. now rewrite Ascii.eqb_refl, IH.
Qed.

(* a name made of characters other than '~' and '/' *)
Fixpoint plain (s : string) : bool :=
  match s with
  | EmptyString => true
  | String c r => andb (negb (orb (Ascii.eqb c "~") (Ascii.eqb c "/"))) (plain r)
  end.

(* RFC 6901 unescaping cannot produce a plain name from anything but that name *)
Lemma decode_key_plain : forall s x, plain s = true -> decode_key x = s -> x = s.
Proof.
  induction s as [|c s IH]; intros x Hp Hd.
  - destruct x as [|a x]; [reflexivity|]. cbn in Hd.
    destruct (Ascii.eqb_spec a "~") as [->|Na].
    + destruct x as [|b x]; [discriminate|].
      destruct (Ascii.eqb_spec b "1") as [->|]; [discriminate|].
      destruct (Ascii.eqb_spec b "0") as [->|]; [discriminate|].
      revert Hd. destruct b as [[] [] [] [] [] [] [] []]; discriminate.
    + revert Hd. destruct a as [[] [] [] [] [] [] [] []]; try discriminate; congruence.
  - cbn in Hp. apply andb_prop in Hp. destruct Hp as [Hc Hs].
    apply negb_true_iff, orb_false_elim in Hc. destruct Hc as [Ht Hsl].
    destruct x as [|a x]; [discriminate|].
    assert (Hstep : decode_key (String a x) = String a (decode_key x) \/
                    (a = "~"%char /\ exists b x', x = String b x' /\ (b = "0"%char \/ b = "1"%char))).
    { destruct (Ascii.eqb_spec a "~") as [->|Na].
      - destruct x as [|b x']; [left; reflexivity|].
        destruct (Ascii.eqb_spec b "1") as [->|N1]; [right; eauto 8|].
        destruct (Ascii.eqb_spec b "0") as [->|N0]; [right; eauto 8|].
        left. clear -N1 N0. destruct b as [[] [] [] [] [] [] [] []]; try reflexivity; congruence.
      - left. clear -Na. destruct a as [[] [] [] [] [] [] [] []]; try reflexivity; congruence. }
    destruct Hstep as [E|(-> & b & x' & -> & [->| ->])].
    + rewrite E in Hd. injection Hd as -> Hx. f_equal. apply IH; assumption.
    + cbn in Hd. injection Hd as <- _. discriminate.
    + cbn in Hd. injection Hd as <- _. discriminate.
Qed.

(* ---- first reference token of a rooted pointer ---- *)

Definition first_tok (p : string) : option string :=
  match split_path p with
  | _ :: x :: _ => Some (decode_key x)
  | _ => None
  end.

Lemma pointer_ok_first_tok p t name :
  plain name = true ->
  is_prefix "/" p = true -> is_prefix ("/" ++ name) p = false -> first_tok p = Some t -> t <> name.
Proof.
  intros Hpl Hroot Hnot Hft E. subst t.
  destruct p as [|c q]; [discriminate|]. cbn [is_prefix] in Hroot.
  apply andb_prop in Hroot. destruct Hroot as [Hc _]. apply Ascii.eqb_eq in Hc. subst c.
  unfold first_tok, split_path in Hft. cbn [split_on] in Hft. rewrite Ascii.eqb_refl in Hft.
  destruct (split_on "/" "" q) as [|x rest] eqn:Es; [discriminate|].
  injection Hft as Hd.
  apply decode_key_plain in Hd; [|assumption]. subst x.
  pose proof (split_on_hd "/"%char q "") as Hh. rewrite Es in Hh. cbn [hd append] in Hh.
  pose proof (take_until_prefix "/"%char q) as Hp. rewrite <- Hh in Hp.
  change ("/" ++ name) with (String "/" name) in Hnot. cbn [is_prefix] in Hnot.
  rewrite Ascii.eqb_refl in Hnot. cbn [andb] in Hnot. rewrite Hp in Hnot. discriminate.
Qed.

Lemma pointer_ok_not_protected p t :
  pointer_ok p = true -> first_tok p = Some t -> t <> "publicKey" /\ t <> "service".
Proof.
  unfold pointer_ok. intros H Ht.
  apply andb_prop in H. destruct H as [_ H]. change (pointer_first p) with (first_tok p) in H. rewrite Ht in H.
  apply andb_prop in H. destruct H as [Hs Hk]. apply negb_true_iff in Hs, Hk. apply String.eqb_neq in Hs, Hk. auto.
Qed.

(* ---- operations touch the root object only at the first token ---- *)

Definition same_except (t : string) (m m' : obj) : Prop := forall k, k <> t -> lookup k m' = lookup k m.

Lemma same_except_refl t m : same_except t m m.
Proof. intros k _. reflexivity. Qed.

Lemma same_except_trans t m1 m2 m3 : same_except t m1 m2 -> same_except t m2 m3 -> same_except t m1 m3.
Proof. intros H1 H2 k Hk. rewrite H2, H1; auto. Qed.

Lemma lookup_remove_other k k' m : k <> k' -> lookup k' (remove_key k m) = lookup k' m.
Proof.
  intros N. induction m as [|[k2 v2] r IH]; cbn; [reflexivity|].
  destruct (String.eqb_spec k k2) as [->|N2]; cbn.
  - destruct (String.eqb_spec k' k2); [congruence|exact IH].
  - destruct (String.eqb_spec k' k2); [reflexivity|exact IH].
Qed.

Lemma same_except_set t v m : same_except t m (set_key t v m).
Proof. intros k Hk. apply lookup_set_other. congruence. Qed.

Lemma same_except_remove t m : same_except t m (remove_key t m).
Proof. intros k Hk. apply lookup_remove_other. congruence. Qed.

(* a function applied to (container, key) that, on an object, changes at most that key *)
Definition key_local {A} (f : json -> string -> pres (json * A)) : Prop :=
  forall m key c' a, f (JObj m) key = POk (c', a) -> exists m', c' = JObj m' /\ same_except key m m'.

Lemma split_pointer_first path parts key :
  split_pointer path = Some (parts, key) ->
  match parts with
  | [] => first_tok path = Some key
  | p :: _ => first_tok path = Some (decode_key p)
  end.
Proof.
  unfold split_pointer, first_tok.
  destruct (split_path path) as [|s0 [|x rest]]; try discriminate.
  intros E. injection E as <- <-.
  destruct rest as [|y rest']; cbn; reflexivity.
Qed.

Lemma with_target_frame {A} (f : json -> string -> pres (json * A)) m path root' a t :
  key_local f -> with_target (JObj m) path f = POk (root', a) -> first_tok path = Some t ->
  exists m', root' = JObj m' /\ same_except t m m'.
Proof.
  intros Hf Hw Ht. unfold with_target in Hw.
  destruct (split_pointer path) as [[parts key]|] eqn:Es; [|discriminate].
  pose proof (split_pointer_first _ _ _ Es) as Hfirst.
  destruct parts as [|p rest].
  - rewrite Ht in Hfirst. injection Hfirst as ->. cbn in Hw. apply Hf in Hw. exact Hw.
  - rewrite Ht in Hfirst. injection Hfirst as ->. cbn [at_container] in Hw.
    destruct (descend (JObj m) p) as [child| | |]; try discriminate. cbn [pbind] in Hw.
    destruct (at_container rest child (fun c => f c key)) as [r| | |]; try discriminate. cbn [pbind] in Hw.
    injection Hw as <- _. cbn [put_back]. eexists. split; [reflexivity|]. apply same_except_set.
Qed.

(* the individual operations *)

Lemma key_local_add v : key_local (fun c key => pbind (c_add c key v) (fun c' => POk (c', tt))).
Proof. intros m key c' a H. cbn in H. injection H as <- _. eexists. split; [reflexivity|apply same_except_set]. Qed.

Lemma key_local_set {A} v (x : A) : key_local (fun c key => pbind (c_set c key v) (fun c' => POk (c', x))).
Proof. intros m key c' a H. cbn in H. injection H as <- _. eexists. split; [reflexivity|apply same_except_set]. Qed.

Lemma key_local_remove : key_local (fun c key => pbind (c_remove c key) (fun c' => POk (c', tt))).
Proof.
  intros m key c' a H. cbn in H. destruct (lookup key m); [|discriminate]. cbn in H.
  injection H as <- _. eexists. split; [reflexivity|apply same_except_remove].
Qed.

Lemma key_local_replace v :
  key_local (fun c key => pbind (c_get c key) (fun _ => pbind (c_set c key v) (fun c' => POk (c', tt)))).
Proof. intros m key c' a H. cbn in H. injection H as <- _. eexists. split; [reflexivity|apply same_except_set]. Qed.

Lemma key_local_get_remove :
  key_local (fun c key => pbind (c_get c key) (fun v => pbind (c_remove c key) (fun c' => POk (c', v)))).
Proof.
  intros m key c' a H. cbn in H. destruct (lookup key m) eqn:E; cbn in H.
  - destruct j; cbn in H; injection H as <- _; eexists; (split; [reflexivity|apply same_except_remove]).
  - discriminate.
Qed.

Lemma key_local_get : key_local (fun c key => pbind (c_get c key) (fun v => POk (c, v))).
Proof. intros m key c' a H. cbn in H. injection H as <- _. eexists. split; [reflexivity|apply same_except_refl]. Qed.

(* ---- the frame property ---- *)

Definition protected_same (m m' : obj) : Prop :=
  lookup "publicKey" m' = lookup "publicKey" m /\ lookup "service" m' = lookup "service" m.

Lemma protected_same_refl m : protected_same m m.
Proof. split; reflexivity. Qed.

Lemma protected_same_trans a b c : protected_same a b -> protected_same b c -> protected_same a c.
Proof. intros [H1 H2] [H3 H4]. split; congruence. Qed.

Lemma same_except_protected t m m' :
  t <> "publicKey" /\ t <> "service" -> same_except t m m' -> protected_same m m'.
Proof. intros [N1 N2] H. split; apply H; congruence. Qed.

Lemma with_target_frame' {A} (f : json -> string -> pres (json * A)) m path root' a :
  key_local f -> with_target (JObj m) path f = POk (root', a) ->
  exists m' t, first_tok path = Some t /\ root' = JObj m' /\ same_except t m m'.
Proof.
  intros Hf Hw.
  assert (Ht : exists t, first_tok path = Some t).
  { unfold with_target in Hw. destruct (split_pointer path) as [[parts key]|] eqn:Es; [|discriminate].
    pose proof (split_pointer_first _ _ _ Es) as H. destruct parts; eauto. }
  destruct Ht as [t Ht]. destruct (with_target_frame f m path root' a t Hf Hw Ht) as (m' & -> & S).
  eauto.
Qed.

Lemma op_path_ok op t :
  validate_ietf_op (JObj op) = true -> first_tok (op_str op "path") = Some t ->
  t <> "publicKey" /\ t <> "service".
Proof.
  unfold validate_ietf_op, op_str. destruct (lookup "path" op) as [[| | |p| |]|]; try discriminate.
  destruct (pointer_ok p) eqn:Hp; [|discriminate]. intros _. apply pointer_ok_not_protected. exact Hp.
Qed.

Lemma op_from_ok op t :
  validate_ietf_op (JObj op) = true -> first_tok (op_str op "from") = Some t ->
  t <> "publicKey" /\ t <> "service".
Proof.
  unfold validate_ietf_op, op_str. destruct (lookup "path" op) as [[| | |p| |]|]; try discriminate.
  destruct (pointer_ok p); [|discriminate]. cbn [negb].
  destruct (lookup "from" op) as [[| | |f| |]|]; try discriminate; try (intros _ H; vm_compute in H; discriminate).
  intros Hf. apply pointer_ok_not_protected. exact Hf.
Qed.

Lemma apply_op_frame m opj root' :
  validate_ietf_op opj = true -> apply_op (JObj m) opj = POk root' ->
  exists m', root' = JObj m' /\ protected_same m m'.
Proof.
  intros Hv Ha. destruct opj as [| | | | |op]; try discriminate.
  unfold apply_op in Ha.
  destruct (String.eqb (op_str op "op") "add").
  { unfold do_add in Ha.
    destruct (with_target (JObj m) (op_str op "path") _) as [[r u]| | |] eqn:W; try discriminate.
    cbn in Ha. injection Ha as <-.
    destruct (with_target_frame' _ _ _ _ _ (key_local_add _) W) as (m' & t & Ht & -> & S).
    eexists. split; [reflexivity|]. eapply same_except_protected; [eapply op_path_ok; eassumption|exact S]. }
  destruct (String.eqb (op_str op "op") "remove").
  { unfold do_remove in Ha.
    destruct (with_target (JObj m) (op_str op "path") _) as [[r u]| | |] eqn:W; try discriminate.
    cbn in Ha. injection Ha as <-.
    destruct (with_target_frame' _ _ _ _ _ key_local_remove W) as (m' & t & Ht & -> & S).
    eexists. split; [reflexivity|]. eapply same_except_protected; [eapply op_path_ok; eassumption|exact S]. }
  destruct (String.eqb (op_str op "op") "replace").
  { unfold do_replace in Ha.
    destruct (with_target (JObj m) (op_str op "path") _) as [[r u]| | |] eqn:W; try discriminate.
    cbn in Ha. injection Ha as <-.
    destruct (with_target_frame' _ _ _ _ _ (key_local_replace _) W) as (m' & t & Ht & -> & S).
    eexists. split; [reflexivity|]. eapply same_except_protected; [eapply op_path_ok; eassumption|exact S]. }
  destruct (String.eqb (op_str op "op") "move").
  { unfold do_move in Ha.
    destruct (with_target (JObj m) (op_str op "from") _) as [[r v]| | |] eqn:W1; try discriminate.
    cbn [pbind fst snd] in Ha.
    destruct (with_target_frame' _ _ _ _ _ key_local_get_remove W1) as (m1 & t1 & Ht1 & -> & S1).
    destruct (with_target (JObj m1) (op_str op "path") _) as [[r2 u]| | |] eqn:W2; try discriminate.
    cbn in Ha. injection Ha as <-.
    destruct (with_target_frame' _ _ _ _ _ (key_local_set _ tt) W2) as (m2 & t2 & Ht2 & -> & S2).
    eexists. split; [reflexivity|].
    eapply protected_same_trans.
    - eapply same_except_protected; [eapply op_from_ok; eassumption|exact S1].
    - eapply same_except_protected; [eapply op_path_ok; eassumption|exact S2]. }
  destruct (String.eqb (op_str op "op") "test").
  { unfold do_test in Ha.
    destruct (with_target (JObj m) (op_str op "path") _) as [[r v]| | |] eqn:W; try discriminate.
    cbn [pbind snd] in Ha.
    assert (E : root' = JObj m).
    { destruct v as [v|].
      - destruct (op_value op) as [ov|]; [|discriminate].
        destruct ov; try (destruct (is_container v); discriminate);
          match type of Ha with pbind ?x _ = _ => destruct x as [[]| | |]; cbn in Ha; try discriminate; congruence end.
      - destruct (op_value op) as [[]|]; try discriminate; congruence. }
    subst root'. eexists. split; [reflexivity|apply protected_same_refl]. }
  destruct (String.eqb (op_str op "op") "copy"); [|discriminate].
  unfold do_copy in Ha.
  destruct (with_target (JObj m) (op_str op "from") _) as [[r v]| | |] eqn:W1; try discriminate.
  cbn [pbind fst snd] in Ha.
  destruct (with_target (JObj m) (op_str op "path") _) as [[r2 u]| | |] eqn:W2; try discriminate.
  cbn in Ha. injection Ha as <-.
  destruct (with_target_frame' _ _ _ _ _ (key_local_set _ tt) W2) as (m2 & t2 & Ht2 & -> & S2).
  eexists. split; [reflexivity|].
  eapply same_except_protected; [eapply op_path_ok; eassumption|exact S2].
Qed.

Lemma apply_ops_frame ops : forall m root',
  forallb validate_ietf_op ops = true -> apply_ops_checked (JObj m) ops = POk root' ->
  exists m', root' = JObj m' /\ protected_same m m'.
Proof.
  induction ops as [|o r IH]; intros m root' Hv Ha; cbn in *.
  - injection Ha as <-. eexists. split; [reflexivity|apply protected_same_refl].
  - apply andb_prop in Hv. destruct Hv as [Ho Hr].
    destruct (copy_into_self o); [discriminate|].
    destruct (apply_op (JObj m) o) as [d| | |] eqn:E; try discriminate. cbn [pbind] in Ha.
    destruct (apply_op_frame _ _ _ Ho E) as (m1 & -> & P1).
    destruct (IH _ _ Hr Ha) as (m2 & -> & P2).
    eexists. split; [reflexivity|]. eapply protected_same_trans; eassumption.
Qed.

(* The theorem at the level of the patch: validation then application *)
Theorem ietf_frame uri_ok url_norm doc p doc' :
  match p with JObj pm => get_action pm = Some AJsonPatch | _ => False end ->
  validate_patch uri_ok url_norm p = true ->
  apply_patch doc p = Some doc' ->
  protected_same doc doc'.
Proof.
  destruct p as [| | | | |pm]; try contradiction. intros Hact Hv Ha.
  unfold validate_patch in Hv. unfold apply_patch in Ha. rewrite Hact in Hv, Ha.
  destruct (get_value pm) as [v|]; [|discriminate].
  unfold required_array in Hv. destruct v as [| | | |l|]; try discriminate.
  destruct l as [|x l]; [discriminate|].
  unfold apply_json in Ha. unfold jsonpatch_apply in Ha.
  destruct (all_objects (x :: l)); [|discriminate]. cbn [negb] in Ha.
  destruct (apply_ops_checked (JObj doc) (x :: l)) as [r| | |] eqn:E; try discriminate.
  destruct (apply_ops_frame _ _ _ Hv E) as (m' & -> & P). cbn in Ha. injection Ha as <-. exact P.
Qed.
