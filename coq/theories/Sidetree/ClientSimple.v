(* The builder theorems with the patch hypothesis stated for the patches as given.

   The acceptance theorems were first proved under "the patches are valid in every member
   order" (the request travels as canonical bytes, so the parser sees the members sorted).
   Patch validation does not depend on member order (ValidatorJequiv.v) and a patch list whose
   delta hash could be computed carries no name twice (JCS refuses that), so validity of the
   patches as the caller supplied them is enough. *)
From Coq Require Import ZArith NArith String Ascii List Bool Lia.
From Sidetree Require Import Base.Sha2 Base.Base64url Json.Json Json.Jcs Json.JcsProps Json.JcsRoundTrip Sidetree.Protocol Sidetree.Hashing
  Sidetree.Parser Sidetree.Applier Sidetree.JequivDecode Sidetree.Validator Sidetree.ValidatorJequiv Sidetree.Composer
  Sidetree.Rules Sidetree.ClientCreate Sidetree.ClientUpdate Sidetree.ClientDeactivateRecover Sidetree.Resolve
  Sidetree.ClientApply Sidetree.LongForm Sidetree.LongFormComplete.
Import ListNotations.
Open Scope string_scope.

Lemma delta_hash_ndk d code h : calc_mh (img_delta d) code = Some h -> Forall ndk (d_patches d).
Proof.
  unfold calc_mh, calc_model_mh. destruct (jcs (img_delta d)) as [c|] eqn:Ej; [|discriminate]. intros _.
  apply jcs_ndk in Ej. unfold img_delta in Ej. inversion Ej as [| | | | |? _ Fm]; subst. clear Ej.
  destruct (d_patches d) as [|p ps] eqn:Ep; [constructor|].
  rewrite Forall_app in Fm. destruct Fm as [_ Fm]. inversion Fm as [|? ? Hp _]; subst. cbn in Hp. now inversion Hp.
Qed.

Lemma any_order cfg u n l :
  Forall ndk l ->
  (forall p, In p l -> patch_enabled cfg p = true /\ validate_patch u n p = true) ->
  forall p p', In p l -> jequiv p p' -> patch_enabled cfg p' = true /\ validate_patch u n p' = true.
Proof.
  intros N H p p' I E. rewrite Forall_forall in N. assert (R : vrel p p') by (split; auto).
  rewrite <- (patch_enabled_rel cfg _ _ R), <- (validate_patch_rel u n _ _ R). auto.
Qed.

Lemma build_create_ndk i bytes sd d : build_create i = Some (bytes, sd, d) -> Forall ndk (ci_patches i).
Proof.
  unfold build_create. destruct (ci_patches i) as [|p0 ps0] eqn:Ep; [discriminate|].
  destruct (negb _); [discriminate|]. destruct (negb _); [discriminate|]. destruct (String.eqb _ _); [discriminate|].
  destruct (calc_mh _ _) eqn:Ec; [|discriminate]. intros _. apply delta_hash_ndk in Ec. exact Ec.
Qed.

Lemma build_update_ndk i bytes d dh : build_update i = Some (bytes, d, dh) -> Forall ndk (ui_patches i).
Proof.
  unfold build_update. destruct (String.eqb _ _); [discriminate|]. destruct (String.eqb _ _); [discriminate|].
  destruct (ui_patches i) as [|p0 ps0] eqn:Ep; [discriminate|].
  destruct (negb _); [discriminate|]. destruct (orb _ _); [discriminate|].
  destruct (calc_mh _ _) eqn:Ec; [|discriminate]. intros _. apply delta_hash_ndk in Ec. exact Ec.
Qed.

Lemma build_recover_ndk i bytes d dh : build_recover i = Some (bytes, d, dh) -> Forall ndk (ri_patches i).
Proof.
  unfold build_recover.
  repeat match goal with
         | |- (if ?c then None else _) = Some _ -> _ => destruct c; [discriminate|]
         | |- match ri_patches i with [] => None | _ :: _ => _ end = Some _ -> _ => destruct (ri_patches i) as [|p0 ps0] eqn:Ep; [discriminate|]
         end.
  destruct (calc_mh _ _) eqn:Ec; [|discriminate]. intros _. apply delta_hash_ndk in Ec. exact Ec.
Qed.

Section Simple.
  Variable cfg : protocol.
  Variable u : string -> bool.
  Variable n : string -> option string.
  Variable o : json -> bool.
  Variable t : Z -> Z -> bool.

  Definition patches_valid (l : list json) : Prop :=
    forall p, In p l -> patch_enabled cfg p = true /\ validate_patch u n p = true.

  Theorem create_built_accepted_simple i bytes sd d a rest :
    build_create i = Some (bytes, sd, d) ->
    algs cfg = a :: rest -> (a = 18%N \/ a = 19%N) -> In (ci_code i) (algs cfg) ->
    (Z.of_nat (String.length bytes) <= P_MaxOperationSize cfg)%Z ->
    (Z.of_nat (String.length (ci_recovery_c i)) <= P_MaxOperationHashLength cfg)%Z ->
    (Z.of_nat (String.length (ci_update_c i)) <= P_MaxOperationHashLength cfg)%Z ->
    (Z.of_nat (String.length (sd_delta_hash sd)) <= P_MaxOperationHashLength cfg)%Z ->
    (forall c, jcs (img_delta d) = Some c -> (Z.of_nat (String.length c) <= P_MaxDeltaSize cfg)%Z) ->
    Forall is_obj (ci_patches i) -> Forall wfnum (ci_patches i) -> wfnum (ci_origin i) ->
    (forall o', jequiv (ci_origin i) o' -> o o' = true) ->
    patches_valid (ci_patches i) ->
    exists p d',
      parse_operation cfg u n o t bytes false = Some p /\
      p_type p = "create" /\ calc_mh (img_suffix_data sd) a = Some (p_suffix p) /\
      p_delta p = Some d' /\ d_update_c d' = ci_update_c i /\ Forall2 jequiv (ci_patches i) (d_patches d') /\
      (exists sd', p_suffix_data p = Some sd' /\ sd_recovery_c sd' = ci_recovery_c i /\ jequiv (ci_origin i) (sd_origin sd')).
  Proof.
    intros Hb; intros. eapply create_built_accepted; eauto. apply any_order; [eapply build_create_ndk; eauto|assumption].
  Qed.

  Theorem create_built_applies_simple i bytes sd d a rest tm num ver canon equiv pub unpub :
    build_create i = Some (bytes, sd, d) ->
    algs cfg = a :: rest -> (a = 18%N \/ a = 19%N) -> In (ci_code i) (algs cfg) ->
    (Z.of_nat (String.length bytes) <= P_MaxOperationSize cfg)%Z ->
    (Z.of_nat (String.length (ci_recovery_c i)) <= P_MaxOperationHashLength cfg)%Z ->
    (Z.of_nat (String.length (ci_update_c i)) <= P_MaxOperationHashLength cfg)%Z ->
    (Z.of_nat (String.length (sd_delta_hash sd)) <= P_MaxOperationHashLength cfg)%Z ->
    (forall c, jcs (img_delta d) = Some c -> (Z.of_nat (String.length c) <= P_MaxDeltaSize cfg)%Z) ->
    Forall is_obj (ci_patches i) -> Forall wfnum (ci_patches i) -> wfnum (ci_origin i) ->
    (forall o', jequiv (ci_origin i) o' -> o o' = true) ->
    patches_valid (ci_patches i) ->
    exists rm ps',
      apply_bytes cfg u n TCreate bytes true tm num ver canon equiv (empty_rm pub unpub) = Some rm /\
      Forall2 jequiv (ci_patches i) ps' /\
      rm_recovery_c rm = ci_recovery_c i /\ rm_update_c rm = ci_update_c i /\ jequiv (ci_origin i) (rm_origin rm) /\
      rm_deactivated rm = false /\ rm_created rm = tm /\
      rm_doc rm = Some (match apply_patches [] ps' with Some doc => doc | None => [] end).
  Proof.
    intros Hb; intros. eapply (create_built_applies cfg u n o); eauto. apply any_order; [eapply build_create_ndk; eauto|assumption].
  Qed.

  Theorem update_built_accepted_simple i bytes d dh :
    build_update i = Some (bytes, d, dh) ->
    In (ui_code i) (algs cfg) ->
    (Z.of_nat (String.length bytes) <= P_MaxOperationSize cfg)%Z ->
    hash_rule cfg (ui_reveal i) -> key_matches_reveal (Some (ui_key i)) (ui_reveal i) = true ->
    (Z.of_nat (String.length (ui_update_c i)) <= P_MaxOperationHashLength cfg)%Z -> mh_code (ui_update_c i) = Some (ui_code i) ->
    (Z.of_nat (String.length dh) <= P_MaxOperationHashLength cfg)%Z ->
    (forall c, jcs (img_delta d) = Some c -> (Z.of_nat (String.length c) <= P_MaxDeltaSize cfg)%Z) ->
    In (ui_alg i) (P_SignatureAlgorithms cfg) ->
    In (k_crv (ui_key i)) (P_KeyAlgorithms cfg) -> nonce_rule cfg (k_nonce (ui_key i)) ->
    t 0%Z (until_of cfg 0 0) = true ->
    Forall is_obj (ui_patches i) -> Forall wfnum (ui_patches i) ->
    patches_valid (ui_patches i) ->
    exists p d',
      parse_operation cfg u n o t bytes false = Some p /\
      p_type p = "update" /\ p_suffix p = ui_suffix i /\ p_reveal p = ui_reveal i /\
      p_delta p = Some d' /\ d_update_c d' = ui_update_c i /\ Forall2 jequiv (ui_patches i) (d_patches d') /\
      p_time_args p = Some (0%Z, until_of cfg 0 0) /\
      parse_signed_update cfg (p_signed p) = Some {| su_key := Some (ui_key i); su_delta_hash := dh; su_from := 0; su_until := 0 |}.
  Proof.
    intros Hb; intros. eapply update_built_accepted; eauto. apply any_order; [eapply build_update_ndk; eauto|assumption].
  Qed.

  Theorem recover_built_accepted_simple i bytes d dh :
    build_recover i = Some (bytes, d, dh) ->
    In (ri_code i) (algs cfg) ->
    (Z.of_nat (String.length bytes) <= P_MaxOperationSize cfg)%Z ->
    hash_rule cfg (ri_reveal i) -> key_matches_reveal (Some (ri_key i)) (ri_reveal i) = true ->
    (Z.of_nat (String.length (ri_update_c i)) <= P_MaxOperationHashLength cfg)%Z -> mh_code (ri_update_c i) = Some (ri_code i) ->
    (Z.of_nat (String.length (ri_recovery_c i)) <= P_MaxOperationHashLength cfg)%Z -> mh_code (ri_recovery_c i) = Some (ri_code i) ->
    ri_update_c i <> ri_recovery_c i ->
    (Z.of_nat (String.length dh) <= P_MaxOperationHashLength cfg)%Z ->
    (forall c, jcs (img_delta d) = Some c -> (Z.of_nat (String.length c) <= P_MaxDeltaSize cfg)%Z) ->
    In (ri_alg i) (P_SignatureAlgorithms cfg) ->
    In (k_crv (ri_key i)) (P_KeyAlgorithms cfg) -> nonce_rule cfg (k_nonce (ri_key i)) ->
    t 0%Z (until_of cfg 0 0) = true ->
    wfnum (ri_origin i) -> (forall o', jequiv (ri_origin i) o' -> o o' = true) ->
    Forall is_obj (ri_patches i) -> Forall wfnum (ri_patches i) ->
    patches_valid (ri_patches i) ->
    exists p d',
      parse_operation cfg u n o t bytes false = Some p /\
      p_type p = "recover" /\ p_suffix p = ri_suffix i /\ p_reveal p = ri_reveal i /\
      p_delta p = Some d' /\ d_update_c d' = ri_update_c i /\ Forall2 jequiv (ri_patches i) (d_patches d') /\
      jequiv (ri_origin i) (p_origin p) /\
      parse_signed_recover cfg (p_signed p) = Some {| sr_delta_hash := dh; sr_key := Some (ri_key i); sr_recovery_c := ri_recovery_c i;
                                                      sr_origin := p_origin p; sr_from := 0; sr_until := 0 |}.
  Proof.
    intros Hb; intros. eapply recover_built_accepted; eauto. apply any_order; [eapply build_recover_ndk; eauto|assumption].
  Qed.
End Simple.

Theorem built_longform_did_resolves_simple u n i bytes sd d ns sfx :
  build_create i = Some (bytes, sd, d) -> ci_code i = 18%N ->
  calc_mh (img_suffix_data sd) 18 = Some sfx ->
  (1 <= count_char ":" ns)%nat ->
  (Z.of_nat (String.length bytes) <= P_MaxOperationSize longform_protocol)%Z ->
  (Z.of_nat (String.length (ci_recovery_c i)) <= P_MaxOperationHashLength longform_protocol)%Z ->
  (Z.of_nat (String.length (ci_update_c i)) <= P_MaxOperationHashLength longform_protocol)%Z ->
  (Z.of_nat (String.length (sd_delta_hash sd)) <= P_MaxOperationHashLength longform_protocol)%Z ->
  (forall c, jcs (img_delta d) = Some c -> (Z.of_nat (String.length c) <= P_MaxDeltaSize longform_protocol)%Z) ->
  Forall is_obj (ci_patches i) -> Forall wfnum (ci_patches i) -> wfnum (ci_origin i) ->
  patches_valid longform_protocol u n (ci_patches i) ->
  resolve u n ns (ns ++ ":" ++ sfx ++ ":" ++ b64_encode bytes) =
  create_response u n ns sfx (b64_encode bytes) bytes.
Proof.
  intros Hb; intros. eapply built_longform_did_resolves; eauto. apply any_order; [eapply build_create_ndk; eauto|assumption].
Qed.
