(* The applier's view of an anchored operation, derived from the request bytes by the parser
   mirror in batch mode - exactly the calls applyCreate/Update/Recover/DeactivateOperation
   make.  The only oracle is the primitive signature verdict [sig_ok] (VerifyJWS under the key
   carried in the signed data). *)
From Coq Require Import ZArith NArith String List Bool.
From Sidetree Require Import Json.Json Sidetree.Protocol Sidetree.Composer Sidetree.Hashing Sidetree.Parser Sidetree.Applier.
Import ListNotations.
Open Scope string_scope.

Section Resolve.
  Variable cfg : protocol.
  Variable uri_ok : string -> bool.
  Variable url_norm : string -> option string.

  Definition no_view : opview :=
    {| v_parse_ok := false; v_signed_ok := false; v_sig_ok := false; v_suffix_ok := false; v_delta_hash_ok := false;
       v_delta_valid := false; v_update_c := ""; v_recovery_c := ""; v_origin := JNull; v_from := 0; v_until := 0;
       v_patches := [] |}.

  Definition delta_commitment (d : option delta) : string := match d with Some x => d_update_c x | None => "" end.
  Definition delta_patches (d : option delta) : list json := match d with Some x => d_patches x | None => [] end.

  (* the type-specific parsers take the whole buffer: json.Unmarshal into the request struct *)
  Definition request_object (bytes : string) : option obj :=
    match Json.Parse.parse_json bytes with
    | Some (JObj m) => Some m
    | Some JNull => Some []
    | _ => None
    end.

  Definition always (_ : json) : bool := true.
  Definition always2 (_ _ : Z) : bool := true.

  Definition view_of (ty : optype) (bytes : string) (sig_ok : bool) : opview :=
    match request_object bytes with
    | None => no_view
    | Some m =>
      match ty with
      | TCreate =>
          match parse_create cfg uri_ok url_norm always m true with
          | Some p =>
              match p_suffix_data p with
              | Some sd =>
                  {| v_parse_ok := true; v_signed_ok := true; v_sig_ok := true; v_suffix_ok := true;
                     v_delta_hash_ok := valid_mh (img_delta_opt (p_delta p)) (sd_delta_hash sd);
                     v_delta_valid := validate_delta cfg uri_ok url_norm (p_delta p);
                     v_update_c := delta_commitment (p_delta p); v_recovery_c := sd_recovery_c sd;
                     v_origin := sd_origin sd; v_from := 0; v_until := 0; v_patches := delta_patches (p_delta p) |}
              | None => no_view
              end
          | None => no_view
          end
      | TUpdate =>
          match parse_update cfg uri_ok url_norm always2 m true with
          | Some p =>
              match parse_signed_update cfg (p_signed p) with
              | Some su =>
                  {| v_parse_ok := true; v_signed_ok := true; v_sig_ok := sig_ok; v_suffix_ok := true;
                     v_delta_hash_ok := valid_mh (img_delta_opt (p_delta p)) (su_delta_hash su);
                     v_delta_valid := validate_delta cfg uri_ok url_norm (p_delta p);
                     v_update_c := delta_commitment (p_delta p); v_recovery_c := "";
                     v_origin := JNull; v_from := su_from su; v_until := su_until su; v_patches := delta_patches (p_delta p) |}
              | None => no_view
              end
          | None => no_view
          end
      | TRecover =>
          match parse_recover cfg uri_ok url_norm always always2 m true with
          | Some p =>
              match parse_signed_recover cfg (p_signed p) with
              | Some sr =>
                  {| v_parse_ok := true; v_signed_ok := true; v_sig_ok := sig_ok; v_suffix_ok := true;
                     v_delta_hash_ok := valid_mh (img_delta_opt (p_delta p)) (sr_delta_hash sr);
                     v_delta_valid := validate_delta cfg uri_ok url_norm (p_delta p);
                     v_update_c := delta_commitment (p_delta p); v_recovery_c := sr_recovery_c sr;
                     v_origin := sr_origin sr; v_from := sr_from sr; v_until := sr_until sr; v_patches := delta_patches (p_delta p) |}
              | None => no_view
              end
          | None => no_view
          end
      | TDeactivate =>
          match parse_deactivate cfg always2 m true with
          | Some p =>
              match parse_signed_deactivate cfg (p_signed p) with
              | Some sx =>
                  {| v_parse_ok := true; v_signed_ok := true; v_sig_ok := sig_ok;
                     v_suffix_ok := String.eqb (p_suffix p) (sx_suffix sx);
                     v_delta_hash_ok := true; v_delta_valid := true; v_update_c := ""; v_recovery_c := "";
                     v_origin := JNull; v_from := sx_from sx; v_until := sx_until sx; v_patches := [] |}
              | None => no_view
              end
          | None => no_view
          end
      | TOther => no_view
      end
    end.

  (* the byte-level applier: Apply on (type, bytes, anchoring data) *)
  Definition apply_bytes (ty : optype) (bytes : string) (sig_ok : bool) (t n ver : Z) (canon : string) (equiv : list string)
             (rm : rmodel) : option rmodel :=
    apply cfg apply_patches
          {| a_type := ty; a_time := t; a_num := n; a_ver := ver; a_canon := canon; a_equiv := equiv;
             a_view := view_of ty bytes sig_ok |} rm.
End Resolve.
